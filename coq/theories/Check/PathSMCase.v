(* Correspondence cases shared by C16, C18, C19, C20: one history run on a real `path` (internal/core)
   with, per operation, the events the driver observed.  `mismatch` compares with Model/PathSM.v;
   the four `spec_fail_*` functions re-state each property on the OBSERVED events only. *)
From Coq Require Import List ZArith Bool.
Require Import MTX.Lib.Trace MTX.Model.PathSM.
Import ListNotations.
Local Open Scope Z_scope.

(* observed: events of initialize()/run() before the first operation, then per operation the events of the
   step: the ones issued on the path goroutine in order (callbacks, Close() calls, log lines), then the
   answers found on the Res channels after the step; and, after initialize() and after every operation,
   which sub-stream is the current one of the path's stream (pa.stream.subStream, identified by the driver:
   offline / the one handed to publisher p / the static source's / none) *)
Inductive pcase :=
  PCase (cf : pconf) (init_obs : list pevent) (init_sub : sub) (steps : list (pop * list pevent * sub)).

(* ---- event equality / canonical form ------------------------------------------------------- *)
Definition hk_code (k : hk) : Z := match k with HAvail => 0 | HOnline => 1 | HDemand => 2 end.
Definition timer_code (t : timer) : Z :=
  match t with TSSReady => 0 | TSSClose => 1 | TPubReady => 2 | TPubClose => 3 end.
Definition ev_code (e : pevent) : Z * Z * Z :=
  match e with
  | EAnswer q (AStream g) => (1, q, g)
  | EAnswer q (AErr c) => (2, q, c)
  | EReaderClosed r => (3, r, 0)
  | EPubClosed p => (4, p, 0)
  | EPathReady g => (5, g, 0)
  | EPathNotReady => (6, 0, 0)
  | EOpen k => (7, hk_code k, 0)
  | EClose k => (8, hk_code k, 0)
  | ELogStart k => (9, hk_code k, 0)
  | ELogStop k => (10, hk_code k, 0)
  | ELogLaunch k => (11, hk_code k, 0)
  | ESrcStart => (12, 0, 0)
  | ESrcStop => (13, 0, 0)
  | EFired t => (14, timer_code t, 0)
  | ERemovePath => (15, 0, 0)
  | EPanic => (16, 0, 0)
  end.
Definition ev_eqb (a b : pevent) : bool :=
  let '(a1, a2, a3) := ev_code a in let '(b1, b2, b3) := ev_code b in
  (a1 =? b1) && (a2 =? b2) && (a3 =? b3).
Fixpoint evs_eqb (a b : list pevent) : bool :=
  match a, b with
  | [], [] => true
  | x :: a', y :: b' => ev_eqb x y && evs_eqb a' b'
  | _, _ => false
  end.

Definition is_answer (e : pevent) : bool := match e with EAnswer _ _ => true | _ => false end.
Definition is_logical (e : pevent) : bool := match e with EOpen _ | EClose _ => true | _ => false end.
Definition answer_q (e : pevent) : Z := match e with EAnswer q _ => q | _ => 0 end.

Fixpoint insert_z (x : Z) (l : list Z) : list Z :=
  match l with [] => [x] | y :: r => if x <=? y then x :: l else y :: insert_z x r end.
Fixpoint insert_ans (x : pevent) (l : list pevent) : list pevent :=
  match l with [] => [x] | y :: r => if answer_q x <? answer_q y then x :: l else y :: insert_ans x r end.

(* Go map iteration order: runs of reader closes are compared as sets *)
Fixpoint sort_runs (run : list Z) (l : list pevent) : list pevent :=
  match l with
  | [] => map EReaderClosed run
  | EReaderClosed r :: t => sort_runs (insert_z r run) t
  | e :: t => map EReaderClosed run ++ e :: sort_runs [] t
  end.

(* what the driver can see of a step: no logical hook events; answers (whose position among the
   other events cannot be observed) moved to the end, ordered by request id *)
Definition canon (l : list pevent) : list pevent :=
  let vis := filter (fun e => negb (is_logical e)) l in
  sort_runs [] (filter (fun e => negb (is_answer e)) vis)
  ++ fold_right insert_ans [] (filter is_answer vis).

Definition sub_eqb (a b : sub) : bool :=
  match a, b with
  | SNone, SNone | SOffline, SOffline | SStatic, SStatic => true
  | SPub p, SPub p' => p =? p'
  | _, _ => false
  end.

Fixpoint run_cmp (s : pstate) (steps : list (pop * list pevent * sub)) : bool :=
  match steps with
  | [] => true
  | (o, obs, osub) :: r =>
      let (s1, evs) := step s o in
      evs_eqb (canon evs) (canon obs) && sub_eqb (s_sub s1) osub && run_cmp s1 r
  end.

Definition mismatch (c : pcase) : bool :=
  match c with
  | PCase cf i isub steps =>
      negb (evs_eqb (canon (init_events cf)) (canon i) && sub_eqb (s_sub (init_state cf)) isub
            && run_cmp (init_state cf) steps)
  end.

(* the steps without the sub-stream observation *)
Definition evsteps (steps : list (pop * list pevent * sub)) : list (pop * list pevent) := map fst steps.

(* ---- helpers for the specifications ---------------------------------------------------------- *)
Definition memz (x : Z) (l : list Z) : bool := existsb (Z.eqb x) l.
Definition has_ev (e : pevent) (l : list pevent) : bool := existsb (ev_eqb e) l.
Fixpoint index_of (p : pevent -> bool) (l : list pevent) (i : Z) : option Z :=
  match l with [] => None | e :: r => if p e then Some i else index_of p r (i + 1) end.
Definition before (p1 p2 : pevent -> bool) (l : list pevent) : bool :=
  match index_of p1 l 0, index_of p2 l 0 with
  | Some i, Some j => i <? j
  | _, _ => false
  end.
Definition is_path_ready (e : pevent) : bool := match e with EPathReady _ => true | _ => false end.
Definition is_path_not_ready (e : pevent) : bool := match e with EPathNotReady => true | _ => false end.
Fixpoint find_answer (q : Z) (l : list pevent) : option ans :=
  match l with
  | [] => None
  | EAnswer q' a :: r => if q =? q' then Some a else find_answer q r
  | _ :: r => find_answer q r
  end.
Fixpoint lookup (q : Z) (m : list (Z * Z)) : option Z :=
  match m with [] => None | (k, v) :: r => if q =? k then Some v else lookup q r end.
Definition all_events (c : pcase) : list pevent :=
  match c with PCase _ i _ steps => i ++ flat_map snd (evsteps steps) end.
Definition ends_closed (steps : list (pop * list pevent)) : bool :=
  existsb (fun x => match fst x with Close => true | _ => false end) steps.

(* generic: run a partial monitor over a list; None = the property failed *)
Fixpoint mrun {A X : Type} (f : A -> X -> option A) (a : A) (l : list X) : option A :=
  match l with [] => Some a | x :: r => match f a x with Some a' => mrun f a' r | None => None end end.
Definition guard (b : bool) : option unit := if b then Some tt else None.
Notation "'check' b 'then' k" := (if b then k else None) (at level 200, b at level 0, k at level 200).

(* ============================================================================================ *)
(* C16: at most one publisher; reject when busy; override closes the old one first; the current sub-stream
   is the attached publisher's (never a replaced or removed publisher's)                           *)
Record st16 := { cur16 : option Z; up16 : bool; gens16 : list Z; sready16 : bool }.

Definition gens_of (l : list pevent) : list Z :=
  flat_map (fun e => match e with EPathReady g => [g] | _ => [] end) l.
Fixpoint fresh_all (seen l : list Z) : bool :=
  match l with [] => true | g :: r => negb (memz g seen) && fresh_all (g :: seen) r end.
(* availability after the step's events *)
Definition up_after (up : bool) (l : list pevent) : bool :=
  fold_left (fun u e => match e with EPathReady _ => true | EPathNotReady => false | _ => u end) l up.
Definition pub_closes (l : list pevent) : list Z :=
  flat_map (fun e => match e with EPubClosed p => [p] | _ => [] end) l.

Definition step16 (cf : pconf) (closed : bool) (s : st16) (x : pop * list pevent) : option st16 :=
  let '(o, evs) := x in
  let gs := gens_of evs in
  check (fresh_all (gens16 s) gs) then
  (* the static source is ready from its answered SetReady to its SetNotReady / to its stop / to Close *)
  let sr := if has_ev ESrcStop evs then false else
            match o with
            | StaticReady q => match find_answer q evs with Some (AStream _) => true | _ => sready16 s end
            | StaticNotReady => false
            | Close => false
            | _ => sready16 s
            end in
  let s1 := {| cur16 := cur16 s; up16 := up_after (up16 s) evs; gens16 := gs ++ gens16 s; sready16 := sr |} in
  (* a publisher is closed by the path only if it is the attached one *)
  check (forallb (fun p => match cur16 s with Some c => p =? c | None => false end) (pub_closes evs)) then
  (* ... and a publisher the path has closed is not attached any more *)
  let old_closed := 0 <? Z.of_nat (length (pub_closes evs)) in
  let cur1 := if old_closed then None else cur16 s in
  match o with
  | AddPublisher q p _ =>
      match find_answer q evs with
      | None => None
      | Some (AErr code) =>
          (* a rejected publisher changes nothing; the one exception is an overriding publisher whose tracks an
             alwaysAvailable stream refuses: the old publisher has been closed (and is detached) *)
          check (negb (existsb (fun e => is_path_ready e || is_path_not_ready e) evs)) then
          check (negb old_closed || ((code =? E_INCOMPAT) && c_aa cf && c_override cf)) then
          (* "someone is already publishing" only when someone is, and overridePublisher is off *)
          check (negb (code =? E_BUSY) || (negb (c_override cf) && match cur16 s with Some _ => true | None => false end)) then
          Some {| cur16 := cur1; up16 := up16 s1; gens16 := gens16 s1; sready16 := sr |}
      | Some (AStream g) =>
          check (negb closed) then
          check (match cur16 s with
                 | None => true
                 | Some old =>
                     c_override cf && old_closed
                     && (c_aa cf
                         || (before (ev_eqb (EPubClosed old)) is_path_ready evs
                             && before is_path_not_ready is_path_ready evs))
                 end) then
          (* the new publisher gets a stream created in this very step; on an alwaysAvailable path, the one
             stream of the path *)
          check (if c_aa cf then match gs with [] => memz g (gens16 s) | _ => false end
                 else match gs with [g'] => g =? g' | _ => false end) then
          Some {| cur16 := Some p; up16 := up16 s1; gens16 := gens16 s1; sready16 := sr |}
      end
  | RemovePublisher p =>
      match cur16 s with
      | Some c => if c =? p
                  then check (c_aa cf || has_ev EPathNotReady evs) then Some {| cur16 := None; up16 := up16 s1; gens16 := gens16 s1; sready16 := sr |}
                  else Some s1
      | None => Some s1
      end
  | Close => Some {| cur16 := None; up16 := up16 s1; gens16 := gens16 s1; sready16 := sr |}
  | _ => Some s1
  end.

(* the current sub-stream after the step: the attached publisher's one and no other publisher's; the offline
   one only on an alwaysAvailable path without publisher; none exactly when there is no stream *)
Definition sub_ok16 (cf : pconf) (s : st16) (osub : sub) : bool :=
  match osub with
  | SNone => negb (up16 s)
  | SOffline => up16 s && c_aa cf && negb (match cur16 s with Some _ => true | None => false end) && negb (sready16 s)
  | SPub p => up16 s && match cur16 s with Some c => p =? c | None => false end
  | SStatic => up16 s && c_static cf && sready16 s
  end
  && match cur16 s with Some c => sub_eqb osub (SPub c) | None => true end
  && (negb (sready16 s) || sub_eqb osub SStatic).

(* after every step of a publisher path: a stream exists iff a publisher is attached; an alwaysAvailable
   path has its stream from creation to Close *)
Definition step16' (cf : pconf) (acc : st16 * bool) (x : pop * list pevent * sub) : option (st16 * bool) :=
  let '(s, closed) := acc in
  match step16 cf closed s (fst x) with
  | None => None
  | Some s' =>
      let closed' := closed || match fst (fst x) with Close => true | _ => false end in
      check (c_static cf || c_aa cf || Bool.eqb (up16 s') (match cur16 s' with Some _ => true | None => false end)) then
      check (negb (c_aa cf) || Bool.eqb (up16 s') (negb closed')) then
      check (negb closed' || negb (up16 s')) then
      check (sub_ok16 cf s' (snd x)) then
      Some (s', closed')
  end.

Definition spec_fail_c16 (c : pcase) : bool :=
  match c with
  | PCase cf i isub steps =>
      let s0 := {| cur16 := None; up16 := up_after false i; gens16 := gens_of i; sready16 := false |} in
      negb (fresh_all [] (gens_of i) && Bool.eqb (up16 s0) (c_aa cf) && sub_ok16 cf s0 isub)
      || match mrun (step16' cf) (s0, false) steps with
         | Some _ => false
         | None => true
         end
  end.

(* ============================================================================================ *)
(* C18: reader bound, no double count, teardown                                                    *)
Record st18 := { att18 : list Z; qmap18 : list (Z * Z); up18 : bool }.

Definition remz (x : Z) (l : list Z) : list Z := filter (fun y => negb (x =? y)) l.

(* events of one step, in order; pend = readers that must still be closed in this step *)
Record ev18 := { a18 : list Z; pend18 : list Z; down18 : bool; u18 : bool }.
Definition ev_step18 (cf : pconf) (qmap : list (Z * Z)) (s : ev18) (e : pevent) : option ev18 :=
  match e with
  | EPathNotReady => Some {| a18 := a18 s; pend18 := a18 s; down18 := true; u18 := false |}
  | EPathReady _ => Some {| a18 := a18 s; pend18 := pend18 s; down18 := down18 s; u18 := true |}
  | EReaderClosed r =>
      check (down18 s && memz r (a18 s)) then
      Some {| a18 := remz r (a18 s); pend18 := remz r (pend18 s); down18 := true; u18 := u18 s |}
  | EAnswer q (AStream _) =>
      match lookup q qmap with
      | Some r =>
          let a := if memz r (a18 s) then a18 s else r :: a18 s in
          check (u18 s) then
          check ((c_maxr cf =? 0) || (Z.of_nat (length a) <=? c_maxr cf)) then
          Some {| a18 := a; pend18 := pend18 s; down18 := down18 s; u18 := u18 s |}
      | None => Some s
      end
  | EAnswer q (AErr code) =>
      match lookup q qmap with
      | Some r =>
          (* "maximum reader count reached" only when the path is really full of OTHER readers *)
          check (negb (code =? E_MAXREADERS)
                 || (negb (c_maxr cf =? 0) && (c_maxr cf <=? Z.of_nat (length (a18 s))) && negb (memz r (a18 s)))) then
          Some s
      | None => Some s
      end
  | _ => Some s
  end.

Definition step18 (cf : pconf) (s : st18) (x : pop * list pevent) : option st18 :=
  let '(o, evs) := x in
  let qmap := match o with AddReader q r => (q, r) :: qmap18 s | _ => qmap18 s end in
  let att := match o with RemoveReader r => remz r (att18 s) | _ => att18 s end in
  match mrun (ev_step18 cf qmap) {| a18 := att; pend18 := []; down18 := false; u18 := up18 s |} evs with
  | None => None
  | Some r =>
      check (match pend18 r with [] => true | _ => false end) then
      check (match a18 r with [] => true | _ => u18 r end) then
      Some {| att18 := a18 r; qmap18 := qmap; up18 := u18 r |}
  end.

Definition spec_fail_c18 (c : pcase) : bool :=
  match c with
  | PCase cf i _ steps0 =>
      let steps := evsteps steps0 in
      match mrun (step18 cf) {| att18 := []; qmap18 := []; up18 := up_after false i |} steps with
      | Some s => ends_closed steps && negb (match att18 s with [] => true | _ => false end)
      | None => true
      end
  end.

(* ============================================================================================ *)
(* C19: every request answered exactly once; a held request has a running demand and a deadline      *)
Record st19 := { issued19 : list Z; answered19 : list Z; demand19 : bool; closed19 : bool }.

Definition op_req (o : pop) : option Z :=
  match o with Describe q | AddPublisher q _ _ | AddReader q _ | StaticReady q => Some q | _ => None end.
Definition ready_timer_of (cf : pconf) : timer := if od_static cf then TSSReady else TPubReady.
Definition timer_eqb (a b : timer) : bool := timer_code a =? timer_code b.
Definition outstanding (s : st19) : list Z := filter (fun q => negb (memz q (answered19 s))) (issued19 s).

Definition ev_step19 (cf : pconf) (o : pop) (fired : bool) (s : st19) (e : pevent) : option st19 :=
  match e with
  | EAnswer q a =>
      check (memz q (issued19 s) && negb (memz q (answered19 s))) then
      (* a timeout answer needs an expired start timer; "terminated" needs the end of the path *)
      check (match a with
             | AErr code =>
                 (negb (code =? E_TIMEOUT)
                  || (fired && match o with TimerFire t => timer_eqb t (ready_timer_of cf) | _ => false end))
                 && (negb (code =? E_TERMINATED) || closed19 s || match o with Close => true | _ => false end)
             | AStream _ => negb (closed19 s)
             end) then
      Some {| issued19 := issued19 s; answered19 := q :: answered19 s; demand19 := demand19 s; closed19 := closed19 s |}
  | ELogStart HDemand =>
      check (negb (demand19 s) && negb (c_static cf)) then
      Some {| issued19 := issued19 s; answered19 := answered19 s; demand19 := true; closed19 := closed19 s |}
  | ELogStop HDemand =>
      check (demand19 s && negb (c_static cf)) then
      Some {| issued19 := issued19 s; answered19 := answered19 s; demand19 := false; closed19 := closed19 s |}
  | ESrcStart =>
      check (negb (demand19 s) && c_static cf) then
      Some {| issued19 := issued19 s; answered19 := answered19 s; demand19 := true; closed19 := closed19 s |}
  | ESrcStop =>
      check (demand19 s && c_static cf) then
      Some {| issued19 := issued19 s; answered19 := answered19 s; demand19 := false; closed19 := closed19 s |}
  | _ => Some s
  end.

Definition step19 (cf : pconf) (s : st19) (x : pop * list pevent) : option st19 :=
  let '(o, evs) := x in
  let s0 := match op_req o with
            | Some q => {| issued19 := q :: issued19 s; answered19 := answered19 s; demand19 := demand19 s; closed19 := closed19 s |}
            | None => s
            end in
  check (match op_req o with Some q => negb (memz q (issued19 s)) | None => true end) then
  let fired := existsb (fun e => match e with EFired _ => true | _ => false end) evs in
  match mrun (ev_step19 cf o fired) s0 evs with
  | None => None
  | Some s1 =>
      let out := outstanding s1 in
      let none_out := match out with [] => true | _ => false end in
      (* a request may stay on hold only on an on-demand path, while the demand (command / source) runs *)
      check (none_out || ((od_static cf || od_pub cf) && demand19 s1 && negb (closed19 s1))) then
      (* after the start timer had its chance to expire, nothing is on hold *)
      check (match o with TimerFire t => negb (timer_eqb t (ready_timer_of cf)) || none_out | _ => true end) then
      match o with
      | Close =>
          check (none_out && (negb (demand19 s1))) then
          Some {| issued19 := issued19 s1; answered19 := answered19 s1; demand19 := demand19 s1; closed19 := true |}
      | _ => Some s1
      end
  end.

(* ... and the demand is never stopped while a reader is attached: the readers attached after a step are
   read off the observations alone (an AddReader request answered with a stream attaches its reader, also when
   the answer comes steps later, out of the hold list; RemoveReader and a Close() call of the reader detach it);
   after every step in which the command / the source was stopped ("runOnDemand command stopped", the static
   source's Stop) no reader is attached.  This covers the close-after timers (armed only without readers,
   disarmed when a reader arrives), the start timeout, the source leaving and Close. *)
Definition ev_step19r (qmap : list (Z * Z)) (acc : list Z * bool) (e : pevent) : list Z * bool :=
  let '(att, stopped) := acc in
  match e with
  | EAnswer q (AStream _) =>
      match lookup q qmap with
      | Some r => (if memz r att then att else r :: att, stopped)
      | None => acc
      end
  | EReaderClosed r => (remz r att, stopped)
  | ELogStop HDemand | ESrcStop => (att, true)
  | _ => acc
  end.

Fixpoint run19r (att : list Z) (qmap : list (Z * Z)) (steps : list (pop * list pevent)) : bool :=
  match steps with
  | [] => true
  | (o, evs) :: r =>
      let qmap' := match o with AddReader q rd => (q, rd) :: qmap | _ => qmap end in
      let att0 := match o with RemoveReader rd => remz rd att | _ => att end in
      let '(att1, stopped) := fold_left (ev_step19r qmap') evs (att0, false) in
      (negb stopped || match att1 with [] => true | _ => false end) && run19r att1 qmap' r
  end.

Definition spec_fail_c19 (c : pcase) : bool :=
  match c with
  | PCase cf i _ steps0 =>
      let steps := evsteps steps0 in
      let d0 := has_ev ESrcStart i in
      match mrun (step19 cf) {| issued19 := []; answered19 := []; demand19 := d0; closed19 := false |} steps with
      | Some _ => negb (run19r [] [] steps)
      | None => true
      end
  end.

(* ============================================================================================ *)
(* C20: hook log lines of each pair alternate start / stop (+ launch of the un-hook), closed at Close  *)
(* monitor state: 0 = closed, 1 = open, 2 = stopped, launch of the un-hook expected next *)
Definition hk_eqb (a b : hk) : bool := hk_code a =? hk_code b.
Definition ev_step20 (cf : pconf) (k : hk) (st : Z) (e : pevent) : option Z :=
  match e with
  | ELogStart k' =>
      if hk_eqb k k' then (check (h_start k cf && (st =? 0)) then Some 1) else Some st
  | ELogStop k' =>
      if hk_eqb k k' then (check (h_start k cf && (st =? 1)) then Some (if h_un k cf then 2 else 0)) else Some st
  | ELogLaunch k' =>
      if hk_eqb k k' then
        (check (h_un k cf) then if h_start k cf then (check (st =? 2) then Some 0) else Some st)
      else Some st
  | _ => check (negb (st =? 2)) then Some st     (* the launch line follows the stop line at once *)
  end.

(* ... and after initialize() and after every operation the pair is open exactly when the observed stream says
   so (the observable form of C20_open_iff_state): available pair <-> the stream has a current sub-stream,
   online pair <-> that sub-stream is a source's (a publisher's or the static source's, not the offline one) *)
Definition open_expected (k : hk) (c : sub) : option bool :=
  match k with
  | HAvail => Some (match c with SNone => false | _ => true end)
  | HOnline => Some (match c with SPub _ | SStatic => true | _ => false end)
  | HDemand => None
  end.
Definition open_matches (cf : pconf) (k : hk) (st : Z) (c : sub) : bool :=
  negb (h_start k cf)
  || match open_expected k c with Some b => Bool.eqb (st =? 1) b | None => true end.

Fixpoint run20 (cf : pconf) (k : hk) (st : Z) (steps : list (pop * list pevent * sub)) : option Z :=
  match steps with
  | [] => Some st
  | (_, evs, c) :: r =>
      match mrun (ev_step20 cf k) st evs with
      | None => None
      | Some st' => check (open_matches cf k st' c) then run20 cf k st' r
      end
  end.

Definition spec_fail_c20 (c : pcase) : bool :=
  match c with
  | PCase cf i isub steps0 =>
      let steps := evsteps steps0 in
      negb (forallb (fun k => match run20 cf k 0 ((Close, i, isub) :: steps0) with
                              | Some st => negb (ends_closed steps) || (st =? 0)
                              | None => false
                              end) [HAvail; HOnline; HDemand])
  end.
