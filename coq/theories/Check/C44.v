(* Correspondence cases for C44: the driver ran the real paginate on a list [0..len) . *)
From Coq Require Import String List ZArith Bool.
Require Import MTX.Lib.IntWrap MTX.Model.C44_Paginate.
Require Export MTX.Model.C44_Callers.
Import ListNotations.
Local Open Scope Z_scope.

(* observed result of one call: error, or (pageCount, first item, number of items) *)
Inductive obs := OErr | OPanic | OPage (pc first cnt : Z).

(* observed answer of one list endpoint (GET /v3/<route>?itemsPerPage=..&page=.. through the real gin router, the
   managers / configuration / recordings directory behind it holding n items): any status but 200, a panic, or the
   decoded JSON {itemCount, pageCount, items}; an item is shipped as its index in the source list (-1 = an item that
   is none of this endpoint's source items, e.g. a zero value or an item of another server) *)
Inductive eobs := EStatus (code : Z) | EPanic | EList (item_count page_count : Z) (items : list Z).

Inductive case :=
    (* one request to endpoint ep whose source holds n items *)
| Endpoint (ep n : Z) (ipp_s page_s : list Z) (o : eobs)
    (* pages 0..pageCount (one past the end) of endpoint ep, itemsPerPage given as a number *)
| ESweep (ep n ipp : Z) (pages : list eobs)
    (* go/ast inventory of internal/api: every function that calls paginate, with its route and shape *)
| Inventory (found : list (string * (string * shape)))
| Single (len : Z) (ipp_s page_s : list Z) (o : obs)
    (* every page 0..pageCount (one past the end) of one list, ipp given as a number *)
| Sweep (len ipp : Z) (pages : list obs).

Definition obs_of (o : outcome) : obs :=
  match o with
  | Rejected => OErr
  | Panics => OPanic
  | Page pc lo hi => OPage pc (if hi - lo =? 0 then 0 else lo) (hi - lo)
  end.

Definition obs_eqb (a b : obs) : bool :=
  match a, b with
  | OErr, OErr | OPanic, OPanic => true
  | OPage a1 a2 a3, OPage b1 b2 b3 => (a1 =? b1) && (a2 =? b2) && (a3 =? b3)
  | _, _ => false
  end.

Fixpoint decimal_fuel (fuel : nat) (n : Z) (acc : list Z) : list Z :=
  match fuel with
  | O => acc
  | S f => if n <? 10 then (48 + n) :: acc else decimal_fuel f (n / 10) ((48 + n mod 10) :: acc)
  end.
Definition decimal (n : Z) : list Z := decimal_fuel 40 n [].

Definition eobs_of (r : option (response Z)) : eobs :=
  match r with
  | Some RBad => EStatus 400
  | Some RPanic => EPanic
  | Some (ROk ic pc items) => EList ic pc items
  | None => EStatus (-1)
  end.

Fixpoint zlist_eqb (a b : list Z) : bool :=
  match a, b with
  | [], [] => true
  | x :: a', y :: b' => (x =? y) && zlist_eqb a' b'
  | _, _ => false
  end.

Definition eobs_eqb (a b : eobs) : bool :=
  match a, b with
  | EStatus x, EStatus y => x =? y
  | EPanic, EPanic => true
  | EList a1 a2 a3, EList b1 b2 b3 => (a1 =? b1) && (a2 =? b2) && zlist_eqb a3 b3
  | _, _ => false
  end.

Definition shape_eqb (a b : shape) : bool :=
  match a, b with ShapeItems, ShapeItems | ShapeKeys, ShapeKeys => true | _, _ => false end.

Fixpoint inventory_eqb (a b : list (string * (string * shape))) : bool :=
  match a, b with
  | [], [] => true
  | (r1, (h1, s1)) :: a', (r2, (h2, s2)) :: b' =>
      String.eqb r1 r2 && String.eqb h1 h2 && shape_eqb s1 s2 && inventory_eqb a' b'
  | _, _ => false
  end.

Definition mismatch (c : case) : bool :=
  match c with
  | Endpoint ep n i p o => negb (eobs_eqb (eobs_of (endpoint_response ep n i p)) o)
  | ESweep ep n ipp pages =>
      negb (forallb (fun '(k, o) => eobs_eqb (eobs_of (endpoint_response ep n (decimal ipp) (decimal (Z.of_nat k)))) o)
                    (combine (seq 0 (length pages)) pages))
  | Inventory found => negb (inventory_eqb found (map snd endpoints))
  | Single len i p o => negb (obs_eqb (obs_of (paginate len i p)) o)
  | Sweep len ipp pages =>
      negb (forallb (fun '(k, o) => obs_eqb (obs_of (paginate len (decimal ipp) (decimal (Z.of_nat k)))) o)
                    (combine (seq 0 (length pages)) pages))
  end.

(* The property itself, on the observed outputs only (independent of the model above):
   - invalid parameters are rejected, valid ones are not;
   - a page is a consecutive slice with at most ipp items;
   - pages 0..pageCount-1 concatenate to the whole list; the page past the end is empty. *)
Definition all_digits (s : list Z) := forallb (fun c => (48 <=? c) && (c <=? 57)) s.
Fixpoint value (acc : Z) (s : list Z) := match s with [] => acc | c :: r => value (acc * 10 + (c - 48)) r end.
Definition valid_param (s : list Z) (allow_zero : bool) : bool :=
  match s with
  | [] => true
  | _ => all_digits s && (value 0 s <? 2147483648) && (allow_zero || negb (value 0 s =? 0))
  end.

Fixpoint consecutive (next : Z) (ipp : Z) (pages : list obs) : option Z :=
  match pages with
  | [] => Some next
  | OPage _ first cnt :: r =>
      if (cnt <=? ipp) && (0 <=? cnt) && ((cnt =? 0) || (first =? next)) then consecutive (next + cnt) ipp r else None
  | _ :: _ => None
  end.

(* items = [first; first+1; ...] *)
Fixpoint run_from (first : Z) (items : list Z) : bool :=
  match items with
  | [] => true
  | x :: r => (x =? first) && run_from (first + 1) r
  end.

(* pages of one endpoint sweep: every answer a list with the same counts; items of the pages continue each other *)
Fixpoint econsecutive (n pc next ipp : Z) (pages : list eobs) : option Z :=
  match pages with
  | [] => Some next
  | EList ic pc' items :: r =>
      let cnt := Z.of_nat (length items) in
      if (ic =? n) && (pc' =? pc) && (cnt <=? ipp) && run_from next items then econsecutive n pc (next + cnt) ipp r else None
  | _ :: _ => None
  end.

Definition spec_fail (c : case) : bool :=
  match c with
  | Endpoint ep n i p o =>
      let valid := valid_param i false && valid_param p true in
      match o with
      | EStatus code => negb ((code =? 400) && negb valid)
      | EPanic => true
      | EList ic pc items =>
          negb valid ||
          let ipp := match i with [] => 100 | _ => value 0 i end in
          let page := value 0 p in
          let cnt := Z.of_nat (length items) in
          negb ((ic =? n) && (pc * ipp >=? n) && ((pc - 1) * ipp <? Z.max n 1) && (if n =? 0 then pc =? 0 else true)
                && (if page * ipp <? n then run_from (page * ipp) items && (cnt =? Z.min ipp (n - page * ipp)) else cnt =? 0))
      end
  | ESweep ep n ipp pages =>
      match pages with
      | EList _ pc _ :: _ =>
          negb ((Z.of_nat (length pages) =? pc + 1) &&
                match econsecutive n pc 0 ipp (firstn (Z.to_nat pc) pages) with
                | Some m => m =? n
                | None => false
                end &&
                match nth (Z.to_nat pc) pages EPanic with EList ic pc' [] => (ic =? n) && (pc' =? pc) | _ => false end)
      | _ => true
      end
  | Inventory _ => false
  | Single len i p o =>
      let valid := valid_param i false && valid_param p true in
      match o with
      | OErr => valid
      | OPanic => true
      | OPage pc first cnt =>
          negb valid ||
          let ipp := match i with [] => 100 | _ => value 0 i end in
          let page := value 0 p in
          negb ((cnt <=? ipp) && (0 <=? cnt) && (pc * ipp >=? len) && ((pc - 1) * ipp <? Z.max len 1)
                && (if page * ipp <? len then (first =? page * ipp) && (cnt =? Z.min ipp (len - page * ipp)) else cnt =? 0))
      end
  | Sweep len ipp pages =>
      match pages with
      | OPage pc _ _ :: _ =>
          negb ((Z.of_nat (length pages) =? pc + 1) &&
                match consecutive 0 ipp (firstn (Z.to_nat pc) pages) with
                | Some n => n =? len
                | None => false
                end &&
                match nth (Z.to_nat pc) pages OErr with OPage _ _ 0 => true | _ => false end)
      | _ => true
      end
  end.
