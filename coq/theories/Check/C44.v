(* Correspondence cases for C44: the driver ran the real paginate on a list [0..len) . *)
From Coq Require Import List ZArith Bool.
Require Import MTX.Lib.IntWrap MTX.Model.C44_Paginate.
Import ListNotations.
Local Open Scope Z_scope.

(* observed result of one call: error, or (pageCount, first item, number of items) *)
Inductive obs := OErr | OPanic | OPage (pc first cnt : Z).

Inductive case :=
| Single (len : Z) (ipp_s page_s : list Z) (o : obs)
    (* every page 0..pageCount (one past the end) of one list, ipp given as a number *)
| Sweep (len ipp : Z) (pages : list obs).

Definition obs_of (o : outcome) : obs :=
  match o with
  | Rejected => OErr
  | Panics => OPanic
  | Page pc lo hi => OPage pc (if hi - lo =? 0 then 0 else lo) (hi - lo)
  end.

Definition obs_eqb (a b : obs) : bool :=
  match a, b with
  | OErr, OErr | OPanic, OPanic => true
  | OPage a1 a2 a3, OPage b1 b2 b3 => (a1 =? b1) && (a2 =? b2) && (a3 =? b3)
  | _, _ => false
  end.

Fixpoint decimal_fuel (fuel : nat) (n : Z) (acc : list Z) : list Z :=
  match fuel with
  | O => acc
  | S f => if n <? 10 then (48 + n) :: acc else decimal_fuel f (n / 10) ((48 + n mod 10) :: acc)
  end.
Definition decimal (n : Z) : list Z := decimal_fuel 40 n [].

Definition mismatch (c : case) : bool :=
  match c with
  | Single len i p o => negb (obs_eqb (obs_of (paginate len i p)) o)
  | Sweep len ipp pages =>
      negb (forallb (fun '(k, o) => obs_eqb (obs_of (paginate len (decimal ipp) (decimal (Z.of_nat k)))) o)
                    (combine (seq 0 (length pages)) pages))
  end.

(* The property itself, on the observed outputs only (independent of the model above):
   - invalid parameters are rejected, valid ones are not;
   - a page is a consecutive slice with at most ipp items;
   - pages 0..pageCount-1 concatenate to the whole list; the page past the end is empty. *)
Definition all_digits (s : list Z) := forallb (fun c => (48 <=? c) && (c <=? 57)) s.
Fixpoint value (acc : Z) (s : list Z) := match s with [] => acc | c :: r => value (acc * 10 + (c - 48)) r end.
Definition valid_param (s : list Z) (allow_zero : bool) : bool :=
  match s with
  | [] => true
  | _ => all_digits s && (value 0 s <? 2147483648) && (allow_zero || negb (value 0 s =? 0))
  end.

Fixpoint consecutive (next : Z) (ipp : Z) (pages : list obs) : option Z :=
  match pages with
  | [] => Some next
  | OPage _ first cnt :: r =>
      if (cnt <=? ipp) && (0 <=? cnt) && ((cnt =? 0) || (first =? next)) then consecutive (next + cnt) ipp r else None
  | _ :: _ => None
  end.

Definition spec_fail (c : case) : bool :=
  match c with
  | Single len i p o =>
      let valid := valid_param i false && valid_param p true in
      match o with
      | OErr => valid
      | OPanic => true
      | OPage pc first cnt =>
          negb valid ||
          let ipp := match i with [] => 100 | _ => value 0 i end in
          let page := value 0 p in
          negb ((cnt <=? ipp) && (0 <=? cnt) && (pc * ipp >=? len) && ((pc - 1) * ipp <? Z.max len 1)
                && (if page * ipp <? len then (first =? page * ipp) && (cnt =? Z.min ipp (len - page * ipp)) else cnt =? 0))
      end
  | Sweep len ipp pages =>
      match pages with
      | OPage pc _ _ :: _ =>
          negb ((Z.of_nat (length pages) =? pc + 1) &&
                match consecutive 0 ipp (firstn (Z.to_nat pc) pages) with
                | Some n => n =? len
                | None => false
                end &&
                match nth (Z.to_nat pc) pages OErr with OPage _ _ 0 => true | _ => false end)
      | _ => true
      end
  end.
