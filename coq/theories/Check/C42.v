(* Correspondence cases for C42: the drivers ran the real resolveSource / resolveDest. *)
From Coq Require Import List ZArith Bool.
Require Export MTX.Model.C42_Template MTX.Model.C42_Life MTX.Model.C42_SrcConf.
Import ListNotations.
Local Open Scope Z_scope.

(* ok = what the driver's own copy of the guard says about the template (it decides the class of the case) *)
(* Life-cycle cases: a history of one live path run on the real code, with what the consumers hold after
   every step.
   ho_id: handler identities numbered in order of first appearance; ho_held: what the handler connects to
   (started handlers: the URL they announced; otherwise resolveDest on the handler's own fields);
   ho_fresh: the real resolveDest on the template and groups that are current at that moment (oracle; None when
   the driver cannot call it). ob_env: the G<n> entries of the real ExternalCmdEnv() as (n, value), ascending.
   ob_src: the URLs that static source instances created during the step connected to. *)
Record hobs := { ho_id : Z; ho_conf : dconf; ho_held : bytes; ho_fresh : option bytes }.
Record obs := { ob_fwd : option (list hobs); ob_env : option (list (Z * bytes)); ob_src : list bytes }.

Inductive case :=
| Src (t : bytes) (ms : list bytes) (q : bytes) (ok : bool) (out : bytes)
| Dst (t path : bytes) (ms : list bytes) (ok : bool) (out : bytes)
| Life (name : bytes) (ms0 : list bytes) (fwd0 : list dconf) (tmpl : option bytes) (ob0 : obs)
       (steps : list (op * obs))
(* a history on a real staticsources.Handler with, after every step, the generation of the effective configuration
   of the running instance (the configuration it was created with, replaced by each one it was notified of; None: no
   instance runs) *)
| SrcConf (csteps : list (cop * option Z)).

Definition oz_eqb (a b : option Z) : bool :=
  match a, b with Some x, Some y => x =? y | None, None => true | _, _ => false end.

Fixpoint conf_mm (s : cst) (l : list (cop * option Z)) : bool :=
  match l with
  | [] => false
  | (o, e) :: r => let s' := cstep s o in negb (oz_eqb (c_eff s') e) || conf_mm s' r
  end.

(* the property on the observation: while an instance runs (start / retry until stop / failure, read off the
   history) its effective configuration is the one of the latest reload = the number of reloads so far *)
Fixpoint conf_bad (alive : bool) (n : Z) (l : list (cop * option Z)) : bool :=
  match l with
  | [] => false
  | (o, e) :: r =>
      let alive' := match o with CStart | CRetry => true | CStop | CFail => false | CReload => alive end in
      let n' := match o with CReload => n + 1 | _ => n end in
      (alive' && negb (oz_eqb e (Some n'))) || conf_bad alive' n' r
  end.

(* ---- model side of a life-cycle case ---- *)
Fixpoint hobs_mm (name : bytes) (fms : list bytes) (hs : list fh) (l : list hobs) : bool :=
  match hs, l with
  | [], [] => false
  | h :: hr, o :: lr =>
      negb (fh_id h =? ho_id o) || negb (dconf_eqb (fh_conf h) (ho_conf o)) ||
      negb (bytes_eqb (held name h) (ho_held o)) ||
      match ho_fresh o with
      | Some f => negb (bytes_eqb f (resolve_dest (d_dest (ho_conf o)) name fms))
      | None => false
      end || hobs_mm name fms hr lr
  | _, _ => true
  end.

Fixpoint env_eqb (a b : list (Z * bytes)) : bool :=
  match a, b with
  | [], [] => true
  | (i, x) :: a', (j, y) :: b' => (i =? j) && bytes_eqb x y && env_eqb a' b'
  | _, _ => false
  end.

Definition obs_mm (s : pstate) (evs : list bytes) (ob : obs) : bool :=
  match ob_fwd ob with Some l => hobs_mm (p_name s) (p_fm_ms s) (p_hs s) l | None => false end ||
  match ob_env ob with Some e => negb (env_eqb e (hook_env (p_ms s))) | None => false end ||
  negb (ms_eqb (ob_src ob) evs).

Fixpoint life_mm (s : pstate) (steps : list (op * obs)) : bool :=
  match steps with
  | [] => false
  | (o, ob) :: r => let '(s', evs) := step s o in obs_mm s' evs ob || life_mm s' r
  end.

Definition mismatch (c : case) : bool :=
  match c with
  | Src t ms q ok out =>
      negb (bytes_eqb out (resolve_source t ms q)) || negb (Bool.eqb ok (template_ok (src_cfg ms) t))
  | Dst t path ms ok out =>
      negb (bytes_eqb out (resolve_dest t path ms)) || negb (Bool.eqb ok (template_ok (dst_cfg ms) t))
  | Life name ms0 fwd0 tmpl ob0 steps =>
      let s := init name ms0 fwd0 tmpl in obs_mm s [] ob0 || life_mm s steps
  | SrcConf l => conf_mm cinit l
  end.

(* The property on the observed output: it is the single left-to-right substitution. Path names are validated
   ([0-9a-zA-Z_-/.] only), so path and groups hold no dollar; cases outside that domain only tie the model. *)
Definition valid_name_byte (c : Z) : bool :=
  ((48 <=? c) && (c <=? 57)) || ((65 <=? c) && (c <=? 90)) || ((97 <=? c) && (c <=? 122)) ||
  (c =? 95) || (c =? 45) || (c =? 47) || (c =? 46).

Definition values_valid (l : list bytes) : bool := forallb (forallb valid_name_byte) l.

(* ---- the property on a life-cycle case: what is current is read off the history itself (the last groups and the
   last forward list handed in); every consumer must hold the substitution of its current template with them.
   No life-cycle model function is used. *)
Fixpoint fwd_bad (name : bytes) (ms : list bytes) (fwd : list dconf) (l : list hobs) : bool :=
  match fwd, l with
  | [], [] => false
  | d :: fr, o :: lr =>
      negb (dconf_eqb (ho_conf o) d) ||
      match ho_fresh o with Some f => negb (bytes_eqb (ho_held o) f) | None => false end ||
      (values_valid (name :: ms) && template_ok (dst_cfg ms) (d_dest d) &&
       negb (bytes_eqb (ho_held o) (single_pass_dest (d_dest d) name ms))) ||
      fwd_bad name ms fr lr
  | _, _ => true
  end.

(* exactly G1..Gn with n = number of groups, G<k> = the k-th group *)
Fixpoint env_bad (k : nat) (groups : list bytes) (e : list (Z * bytes)) : bool :=
  match groups, e with
  | [], [] => false
  | g :: gr, (i, v) :: er => negb (i =? Z.of_nat k) || negb (bytes_eqb v g) || env_bad (S k) gr er
  | _, _ => true
  end.

(* sp_run: between a Start and the next Stop; sp_q: the query of the Start that opened this period (a Start while
   running is not a start); sp_alive: an instance runs; sp_last: the URL the last instance connected to *)
Record spst := { sp_ms : list bytes; sp_fwd : list dconf; sp_run : bool; sp_alive : bool; sp_q : bytes;
                 sp_last : option bytes }.

Definition sp_step (sp : spst) (o : op) (ob : obs) : spst :=
  let ms := match o with OReload (Some m) _ => m | _ => sp_ms sp end in
  let fwd := match o with OReload _ f => f | _ => sp_fwd sp end in
  let alive := match o with
               | OSrcStart _ | OSrcRetry => true
               | OSrcStop | OSrcFail => false
               | _ => sp_alive sp
               end in
  let q := match o with OSrcStart q => if sp_run sp then sp_q sp else q | _ => sp_q sp end in
  let run := match o with OSrcStart _ => true | OSrcStop => false | _ => sp_run sp end in
  {| sp_ms := ms; sp_fwd := fwd; sp_run := run; sp_alive := alive; sp_q := q;
     sp_last := match rev (ob_src ob) with v :: _ => Some v | [] => sp_last sp end |}.

Definition obs_bad (name : bytes) (tmpl : option bytes) (sp : spst) (ob : obs) : bool :=
  match ob_fwd ob with Some l => fwd_bad name (sp_ms sp) (sp_fwd sp) l | None => false end ||
  match ob_env ob with Some e => env_bad 1 (tl (sp_ms sp)) e | None => false end ||
  match tmpl with
  | Some t =>
      sp_alive sp && values_valid (sp_ms sp) && template_ok (src_cfg (sp_ms sp)) t &&
      match sp_last sp with
      | Some v => negb (bytes_eqb v (single_pass_source t (sp_ms sp) (sp_q sp)))
      | None => true
      end
      ||
      (* every instance created during the step: the groups current after the step, the query of the request that
         opened the period *)
      values_valid (sp_ms sp) && template_ok (src_cfg (sp_ms sp)) t &&
      existsb (fun v => negb (bytes_eqb v (single_pass_source t (sp_ms sp) (sp_q sp)))) (ob_src ob)
  | None => false
  end.

Fixpoint life_bad (name : bytes) (tmpl : option bytes) (sp : spst) (steps : list (op * obs)) : bool :=
  match steps with
  | [] => false
  | (o, ob) :: r => let sp' := sp_step sp o ob in obs_bad name tmpl sp' ob || life_bad name tmpl sp' r
  end.

Definition spec_fail (c : case) : bool :=
  match c with
  | Src t ms q ok out => values_valid ms && negb (bytes_eqb out (single_pass_source t ms q))
  | Dst t path ms ok out => values_valid (path :: ms) && negb (bytes_eqb out (single_pass_dest t path ms))
  | Life name ms0 fwd0 tmpl ob0 steps =>
      let sp := {| sp_ms := ms0; sp_fwd := fwd0; sp_run := false; sp_alive := false; sp_q := []; sp_last := None |} in
      obs_bad name tmpl sp ob0 || life_bad name tmpl sp steps
  | SrcConf l => conf_bad false 0 l
  end.
