(* Correspondence cases for C42: the drivers ran the real resolveSource / resolveDest. *)
From Coq Require Import List ZArith Bool.
Require Export MTX.Model.C42_Template.
Import ListNotations.
Local Open Scope Z_scope.

(* ok = what the driver's own copy of the guard says about the template (it decides the class of the case) *)
Inductive case :=
| Src (t : bytes) (ms : list bytes) (q : bytes) (ok : bool) (out : bytes)
| Dst (t path : bytes) (ms : list bytes) (ok : bool) (out : bytes).

Definition mismatch (c : case) : bool :=
  match c with
  | Src t ms q ok out =>
      negb (bytes_eqb out (resolve_source t ms q)) || negb (Bool.eqb ok (template_ok (src_cfg ms) t))
  | Dst t path ms ok out =>
      negb (bytes_eqb out (resolve_dest t path ms)) || negb (Bool.eqb ok (template_ok (dst_cfg ms) t))
  end.

(* The property on the observed output: it is the single left-to-right substitution. Path names are validated
   ([0-9a-zA-Z_-/.] only), so path and groups hold no dollar; cases outside that domain only tie the model. *)
Definition valid_name_byte (c : Z) : bool :=
  ((48 <=? c) && (c <=? 57)) || ((65 <=? c) && (c <=? 90)) || ((97 <=? c) && (c <=? 122)) ||
  (c =? 95) || (c =? 45) || (c =? 47) || (c =? 46).

Definition values_valid (l : list bytes) : bool := forallb (forallb valid_name_byte) l.

Definition spec_fail (c : case) : bool :=
  match c with
  | Src t ms q ok out => values_valid ms && negb (bytes_eqb out (single_pass_source t ms q))
  | Dst t path ms ok out => values_valid (path :: ms) && negb (bytes_eqb out (single_pass_dest t path ms))
  end.
