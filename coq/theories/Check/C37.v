(* Correspondence cases for C37: the driver logged a message through the real Logger (stdout writer
   injected / file in a temp dir) and ships the raw bytes of the line plus what Go's encoding/json and
   time.Parse make of it (independent oracles). *)
From Coq Require Import List ZArith Bool.
Require Import MTX.Lib.Utf8 MTX.Lib.Json MTX.Model.C37_LogJson.
Import ListNotations.
Local Open Scope Z_scope.

Inductive case :=
| Line (dest : Z)                 (* 0 stdout, 1 file *)
       (ts : list Z)              (* t.Format(time.RFC3339Nano) computed by the driver *)
       (ts_ok : bool)             (* time.Parse(RFC3339Nano, decoded timestamp) equals the record's time *)
       (lvl : Z) (msg : list Z)   (* level, fmt.Sprintf(format, args...) *)
       (raw : list Z)             (* the bytes the destination wrote for this record *)
       (go_ok : bool)             (* json.Unmarshal accepted the line as an object with exactly 3 string members *)
       (go_ts go_level go_msg : list Z)   (* its decoded members *)
       (go_sanitized : list Z)    (* string([]rune(msg)): Go's own U+FFFD replacement *)
| QuoteV0 (msg out : list Z).     (* strconv.Quote(msg) = out: keeps the model of the pinned code honest *)

Definition mismatch (c : case) : bool :=
  match c with
  | Line _ ts _ lvl msg raw _ _ _ _ gs =>
      negb (list_eqb (render ts lvl msg) raw) || negb (list_eqb (sanitize msg) gs)
  | QuoteV0 msg out => negb (list_eqb (go_quote (fun _ => true) msg) out)
  end.

(* the property on the observed bytes (no use of render) *)
Definition spec_level (lvl : Z) : list Z :=
  match lvl with
  | 1 => [68; 69; 66] | 2 => [73; 78; 70] | 3 => [87; 65; 82] | 4 => [69; 82; 82] | _ => []
  end.

Definition opt_eqb (o : option (list Z)) (v : list Z) : bool :=
  match o with Some x => list_eqb x v | None => false end.

Definition spec_fail (c : case) : bool :=
  match c with
  | Line _ ts ts_ok lvl msg raw go_ok go_ts go_level go_msg gs =>
      negb (one_line raw && ts_ok && go_ok
            && list_eqb go_ts ts && list_eqb go_level (spec_level lvl) && list_eqb go_msg gs
            && match parse_line raw with
               | Some ms => (length ms =? 3)%nat
                            && opt_eqb (lookup key_timestamp ms) ts
                            && opt_eqb (lookup key_level ms) (spec_level lvl)
                            && opt_eqb (lookup key_message ms) (sanitize msg)
               | None => false
               end)
  | QuoteV0 _ _ => false
  end.
