(* Correspondence cases for C37: the driver logged a message through the real Logger (stdout writer
   injected / file in a temp dir) and ships the raw bytes of the line plus what Go's encoding/json and
   time.Parse make of it (independent oracles). *)
From Coq Require Import List ZArith Bool.
Require Import MTX.Lib.Utf8 MTX.Lib.Json MTX.Model.C37_LogJson.
Require Export MTX.Model.C37_LogDest.   (* the cases name Config, Clock *)
Import ListNotations.
Local Open Scope Z_scope.

Inductive case :=
| Line (cf : config)              (* Config dest structured useColor colour_on: 0 stdout / 1 file; Logger.Structured;
                                     destinationStdout.useColor; color.Enable && color.SupportColor() at the time of the call *)
       (ck : clock)               (* t.Date(), t.Clock() computed by the driver *)
       (ts : list Z)              (* t.Format(time.RFC3339Nano) computed by the driver *)
       (ts_ok : bool)             (* time.Parse(RFC3339Nano, decoded timestamp) equals the record's time *)
       (lvl : Z) (msg : list Z)   (* level, fmt.Sprintf(format, args...) *)
       (raw : list Z)             (* the bytes the destination wrote for this record *)
       (go_ok : bool)             (* json.Unmarshal accepted the line as an object with exactly 3 string members *)
       (go_ts go_level go_msg : list Z)   (* its decoded members *)
       (go_sanitized : list Z)    (* string([]rune(msg)): Go's own U+FFFD replacement *)
| Burst (cf : config)             (* goroutines logging concurrently through one Logger; cf_structured = true *)
        (ts : list Z) (ck : clock) (lvl : Z)
        (msgs : list (list Z))    (* the formatted messages, one per record *)
        (perm : list Z)           (* the order in which the driver found them in the output (indices into msgs) *)
        (raw : list Z)            (* everything the destination wrote during the burst *)
        (go_ok : bool)            (* json.Unmarshal accepted every line of raw (split at newlines) *)
| Sys (lvl : Z) (msg : list Z)    (* destinationSysLog.log on a syslog.Writer dialled to the driver's socket *)
      (got : option (Z * list Z)) (* severity (priority mod 8) and text after the "tag[pid]: " header; None: nothing was sent *)
| QuoteV0 (msg out : list Z).     (* strconv.Quote(msg) = out: keeps the model of the pinned code honest *)

Definition nth_msg (msgs : list (list Z)) (i : Z) : list Z := nth (Z.to_nat i) msgs [].

Definition got_eqb (a b : option (Z * list Z)) : bool :=
  match a, b with
  | Some (s1, t1), Some (s2, t2) => (s1 =? s2) && list_eqb t1 t2
  | None, None => true
  | _, _ => false
  end.

Definition mismatch (c : case) : bool :=
  match c with
  | Line cf ck ts _ lvl msg raw _ _ _ _ gs =>
      negb (list_eqb (dest_line cf ts ck lvl msg) raw) || negb (list_eqb (sanitize msg) gs)
  | Burst cf ts ck lvl msgs perm raw _ =>
      negb (list_eqb (stream cf (map (fun i => LogRec ts ck lvl (nth_msg msgs i)) perm)) raw)
  | Sys lvl msg got => negb (got_eqb (syslog_record lvl msg) got)
  | QuoteV0 msg out => negb (list_eqb (go_quote (fun _ => true) msg) out)
  end.

(* the property on the observed bytes (no use of render) *)
Definition spec_level (lvl : Z) : list Z :=
  match lvl with
  | 1 => [68; 69; 66] | 2 => [73; 78; 70] | 3 => [87; 65; 82] | 4 => [69; 82; 82] | _ => []
  end.

Definition opt_eqb (o : option (list Z)) (v : list Z) : bool :=
  match o with Some x => list_eqb x v | None => false end.

(* a line (with its newline) is a JSON object with exactly the members of the record *)
Definition line_is_record (l ts : list Z) (lvl : Z) (msg : list Z) : bool :=
  one_line l &&
  match parse_line l with
  | Some ms => (length ms =? 3)%nat
               && opt_eqb (lookup key_timestamp ms) ts
               && opt_eqb (lookup key_level ms) (spec_level lvl)
               && opt_eqb (lookup key_message ms) (sanitize msg)
  | None => false
  end.

Definition count_Z (x : Z) (l : list Z) : nat := length (filter (Z.eqb x) l).

(* perm lists every index 0..n-1 exactly once *)
Definition is_perm (n : nat) (perm : list Z) : bool :=
  (length perm =? n)%nat && forallb (fun i => (count_Z (Z.of_nat i) perm =? 1)%nat) (seq 0 n).

Fixpoint all2 {A B} (f : A -> B -> bool) (xs : list A) (ys : list B) : bool :=
  match xs, ys with
  | [], [] => true
  | x :: xs', y :: ys' => f x y && all2 f xs' ys'
  | _, _ => false
  end.

(* severities of log/syslog for the four levels *)
Definition spec_severity (lvl : Z) : option Z :=
  match lvl with 1 => Some 7 | 2 => Some 6 | 3 => Some 4 | 4 => Some 3 | _ => None end.

Definition strip_nl (s : list Z) : list Z :=
  match rev s with c :: r => if c =? 10 then rev r else s | [] => s end.

Definition spec_fail (c : case) : bool :=
  match c with
  | Line cf _ ts ts_ok lvl msg raw go_ok go_ts go_level go_msg gs =>
    if negb (cf_structured cf) then false     (* the property speaks about structured logging only *)
    else
      negb (one_line raw && ts_ok && go_ok
            && list_eqb go_ts ts && list_eqb go_level (spec_level lvl) && list_eqb go_msg gs
            && match parse_line raw with
               | Some ms => (length ms =? 3)%nat
                            && opt_eqb (lookup key_timestamp ms) ts
                            && opt_eqb (lookup key_level ms) (spec_level lvl)
                            && opt_eqb (lookup key_message ms) (sanitize msg)
               | None => false
               end)
  | Burst cf ts _ lvl msgs perm raw go_ok =>
      (* the output of concurrent records splits at the newlines into exactly one JSON line per record *)
      negb (cf_structured cf && go_ok && is_perm (length msgs) perm
            && all2 (fun l i => line_is_record l ts lvl (nth_msg msgs i)) (lines raw) perm)
  | Sys lvl msg got =>
      (* syslog is never structured: the record's level becomes the severity, its formatted message the text *)
      negb match spec_severity lvl, got with
           | Some sev, Some (s, txt) => (s =? sev) && (list_eqb txt msg || list_eqb txt (msg ++ [10]))
                                        && list_eqb (strip_nl txt) (strip_nl msg)
           | None, None => true
           | _, _ => false
           end
  | QuoteV0 _ _ => false
  end.
