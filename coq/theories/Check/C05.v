(* Correspondence cases for C05: the driver called the real isOriginAllowed and handlerOrigin.ServeHTTP and
   ships what the real net/url makes of the origin and of every allowed entry. *)
From Coq Require Import List ZArith Bool.
Require Import MTX.Lib.Utf8 MTX.Model.C05_Cors.
Import ListNotations.
Local Open Scope Z_scope.

Inductive parsed := PErr | POk (scheme host port hostname : list Z).   (* url.Parse: Scheme, Host, Port(), Hostname() *)
Inductive obs := OEcho (s : list Z) | OStar | OAbsent.

Inductive case :=
| Call (origin : list Z) (po : parsed) (allow : list (list Z * parsed))
       (fn : obs)       (* isOriginAllowed(origin, allow) *)
       (hdr : obs).     (* Access-Control-Allow-Origin set by handlerOrigin.ServeHTTP *)

Definition to_purl (p : parsed) : option purl :=
  match p with PErr => None | POk s h _ _ => Some {| u_scheme := s; u_host := h |} end.

Fixpoint parse_tbl (tbl : list (list Z * parsed)) (s : list Z) : option purl :=
  match tbl with
  | [] => None
  | (k, p) :: r => if list_eqb k s then to_purl p else parse_tbl r s
  end.

Definition obs_of (r : result) : obs :=
  match r with Echo s => OEcho s | Star => OStar | Absent => OAbsent end.

Definition obs_eqb (a b : obs) : bool :=
  match a, b with
  | OEcho x, OEcho y => list_eqb x y
  | OStar, OStar | OAbsent, OAbsent => true
  | _, _ => false
  end.

(* the model's Port()/Hostname() agree with net/url on every parsed string of the case *)
Definition helpers_ok (p : parsed) : bool :=
  match p with
  | PErr => true
  | POk _ h port hn => list_eqb (port_of h) port && list_eqb (hostname_of h) hn
  end.

Definition mismatch (c : case) : bool :=
  match c with
  | Call origin po allow fn hdr =>
      let tbl := (origin, po) :: allow in
      negb (obs_eqb (obs_of (is_origin_allowed (parse_tbl tbl) origin (map fst allow))) fn)
      || negb (obs_eqb fn hdr)
      || negb (forallb (fun e => helpers_ok (snd e)) tbl)
  end.

(* ---- the property on the observed header, without the model -------------------------- *)
(* strict glob by the classic segment algorithm (different from the model's backtracking matcher):
   split the pattern at '*'; first segment is a prefix, last a suffix, the middle ones are found leftmost
   in order in between *)

Fixpoint split_star (p cur : list Z) : list (list Z) :=
  match p with
  | [] => [rev cur]
  | c :: r => if c =? 42 then rev cur :: split_star r [] else split_star r (c :: cur)
  end.

Fixpoint is_prefix (a t : list Z) : bool :=
  match a, t with
  | [], _ => true
  | x :: a', y :: t' => (x =? y) && is_prefix a' t'
  | _ :: _, [] => false
  end.

(* rest of t after the leftmost occurrence of m *)
Fixpoint find_after (m t : list Z) : option (list Z) :=
  if is_prefix m t then Some (skipn (length m) t)
  else match t with [] => None | _ :: t' => find_after m t' end.

Fixpoint middles (segs : list (list Z)) (t : list Z) : option (list Z * list Z) :=   (* (last segment, remaining text) *)
  match segs with
  | [] => None
  | [last] => Some (last, t)
  | m :: r => match find_after m t with Some t' => middles r t' | None => None end
  end.

Definition strict_glob (p t : list Z) : bool :=
  match split_star p [] with
  | [] => false
  | [only] => list_eqb only t
  | first :: rest =>
      is_prefix first t &&
      match middles rest (skipn (length first) t) with
      | Some (last, t') => (length last <=? length t')%nat && list_eqb (skipn (length t' - length last) t') last
      | None => false
      end
  end.

Definition default_port (scheme : list Z) : list Z :=
  if list_eqb scheme [104; 116; 116; 112] then [56; 48]
  else if list_eqb scheme [104; 116; 116; 112; 115] then [52; 52; 51] else [].

Definition spec_port (scheme port : list Z) : list Z := match port with [] => default_port scheme | _ => port end.

Definition spec_entry_ok (po : parsed) (a : list Z * parsed) : bool :=
  match po, snd a with
  | POk so _ porto hno, POk sa _ porta hna =>
      negb (list_eqb so []) && list_eqb sa so && list_eqb (spec_port sa porta) (spec_port so porto)
      && (list_eqb hna hno || (existsb (Z.eqb 42) hna && strict_glob hna hno))
  | _, _ => false
  end.

Definition spec_obs_fail (origin : list Z) (po : parsed) (allow : list (list Z * parsed)) (o : obs) : bool :=
  match o with
  | OEcho s => negb (list_eqb s origin && negb (list_eqb origin []) && existsb (spec_entry_ok po) allow)
  | OStar => negb (existsb (fun e => list_eqb (fst e) [42]) allow)
  | OAbsent => false
  end.

Definition spec_fail (c : case) : bool :=
  match c with
  | Call origin po allow fn hdr => spec_obs_fail origin po allow hdr || spec_obs_fail origin po allow fn
  end.
