(* Correspondence cases for C33: one history of pushes through the real Reorderer. *)
From Coq Require Import List ZArith Bool.
Require Import MTX.Lib.IntWrap MTX.Model.C33_Reorderer.
Import ListNotations.
Local Open Scope Z_scope.

(* pushes are (gid, size); the tag of a push is its index. Observed: per push, the tags handed on,
   and after each push (pending count, pending bytes). *)
Inductive case := Hist (maxr maxb : Z) (pushes : list (Z * Z)) (outs : list (list Z)) (held : list (Z * Z)).

Definition mk_pushes (ps : list (Z * Z)) : list sg :=
  map (fun '(i, (g, s)) => {| gid := g; size := s; tag := Z.of_nat i |}) (combine (seq 0 (length ps)) ps).

Fixpoint run_obs (maxr maxb : Z) (s : state) (xs : list sg) : list (list Z) * list (Z * Z) :=
  match xs with
  | [] => ([], [])
  | x :: r => let '(s1, o) := push maxr maxb s x in
              let '(os, hs) := run_obs maxr maxb s1 r in
              (map tag o :: os, (Z.of_nat (length (pending s1)), pbytes s1) :: hs)
  end.

Definition list_eqb {A} (eqb : A -> A -> bool) :=
  fix go (a b : list A) : bool :=
    match a, b with
    | [], [] => true
    | x :: a', y :: b' => eqb x y && go a' b'
    | _, _ => false
    end.

Definition mismatch (c : case) : bool :=
  match c with
  | Hist maxr maxb ps outs held =>
      let '(mo, mh) := run_obs maxr maxb init_state (mk_pushes ps) in
      negb (list_eqb (list_eqb Z.eqb) mo outs &&
            list_eqb (fun a b => (fst a =? fst b) && (snd a =? snd b)) mh held)
  end.

(* The property on the observed outputs only. *)
Fixpoint strictly_increasing (l : list Z) : bool :=
  match l with
  | a :: ((b :: _) as r) => (a <? b) && strictly_increasing r
  | _ => true
  end.

Definition gid_of (ps : list (Z * Z)) (t : Z) : Z := fst (nth (Z.to_nat t) ps (-1, 0)).

(* walk the history: `last` = id of the last delivered subgroup, if any *)
Fixpoint walk (maxr maxb : Z) (ps : list (Z * Z)) (i : nat) (todo : list (Z * Z)) (outs : list (list Z))
         (held : list (Z * Z)) (last : option Z) : bool :=
  match todo, outs, held with
  | [], [], [] => true
  | (g, _) :: todo', o :: outs', (cnt, bytes) :: held' =>
      (* every tag handed on was received (index <= current push) *)
      forallb (fun t => (0 <=? t) && (t <=? Z.of_nat i)) o &&
      (* a subgroup that directly follows the last delivered one is delivered immediately *)
      (match last with
       | Some l => negb (g =? l + 1) || existsb (fun t => t =? Z.of_nat i) o
       | None => existsb (fun t => t =? Z.of_nat i) o
       end) &&
      (* limits after every push *)
      ((maxr <? 0) || (cnt <=? maxr)) && ((maxb <? 0) || (bytes <=? maxb)) &&
      walk maxr maxb ps (S i) todo' outs' held'
           (match rev o with t :: _ => Some (gid_of ps t) | [] => last end)
  | _, _, _ => false
  end.

Fixpoint nodupb (l : list Z) : bool :=
  match l with [] => true | a :: r => negb (existsb (Z.eqb a) r) && nodupb r end.

Definition spec_fail (c : case) : bool :=
  match c with
  | Hist maxr maxb ps outs held =>
      let all := concat outs in
      negb (strictly_increasing (map (gid_of ps) all) && nodupb all &&
            walk maxr maxb ps 0 ps outs held None)
  end.
