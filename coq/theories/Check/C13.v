(* Correspondence cases for C13: real reloads of a real Core (all servers on scratch ports).
   Each case: the global parameters whose value was changed, the pointer-typed parameters whose pointer differs
   between the two configurations, and for every component that was running whether it was recreated. *)
From Coq Require Import List String ZArith Bool.
Require Import MTX.Model.C13_Reload MTX.Model.C13_Push.
Require Export MTXGen.C13_CoreDeps.
Import ListNotations.
Local Open Scope string_scope.
Local Open Scope list_scope.

(* One observation of a real Core, after New or after a real reloadConf. Components are numbered by their position
   in the generated table, guard atoms by their position in `all_atoms` (string literals are slow to parse):
   changed     the parameters whose value differs from the previous configuration (derived guard fields such as
               "Paths#atLeastOneRecordDeleteAfter" included), ptr_fresh the pointer-typed ones whose pointer differs;
   atoms_true  the guard atoms of the table that are true in the new configuration (evaluated by the driver);
   enabled     the components the new configuration enables - the driver's own reading of the documented meaning of
               the enable flags and encryption modes, not the table's;
   ident       per component (table order) 0 if absent, else the serial number of the instance standing in Core
               (1 = standing there when the history starts, k+1 = first seen after reload number k);
   not_held    (component, configuration field): the running component does NOT hold the new configuration's value,
               among all `Key: currentConf.Field` of the constructor literals (`bound`), read from the component itself
               (for AuthInternalUsers also: a user of the new list is not admitted, or a removed one still is);
   stale       (component, held component): the reference it holds (`refbound`) is NOT the instance standing in Core now. *)
Inductive step := Step (changed ptr_fresh : list string) (atoms_true : list Z)
                       (enabled : list Z) (ident : list Z)
                       (not_held stale : list (string * string)).

Inductive case :=
| Reload (changed : list string) (ptr_fresh : list string) (observed : list (string * bool))
| History (init : step) (steps : list step).

Definition old_conf : conf := fun _ => {| val := 0; addr := 1 |}.
Definition new_conf (changed ptr_fresh : list string) : conf :=
  fun f => {| val := if mem f changed then 1%Z else 0%Z; addr := if mem f ptr_fresh then 2%Z else 1%Z |}.

(* --- histories: the model's reload (the in-place statements with their own guards: reload_g over the generated core_pushes) is replayed from the model's own state and compared after every step --- *)

Fixpoint lookupZ (c : string) (l : list (string * Z)) : Z :=
  match l with [] => 0%Z | (k, v) :: t => if String.eqb k c then v else lookupZ c t end.

Definition conf0 : conf := fun _ => {| val := 0; addr := 0 |}.
(* every changed parameter takes a value it never had before *)
Definition bump (c : conf) (changed ptr_fresh : list string) (k : Z) : conf :=
  fun f => {| val := if mem f changed then k else val (c f); addr := if mem f ptr_fresh then k else addr (c f) |}.

Definition pmem (p : string * string) (l : list (string * string)) : bool :=
  existsb (fun q => String.eqb (fst p) (fst q) && String.eqb (snd p) (snd q)) l.

Fixpoint gatoms (e : gexpr) : list (string * string) :=
  match e with
  | GTrue => []
  | GAtom f t => [(f, t)]
  | GAnd a b | GOr a b => gatoms a ++ gatoms b
  | GNot a => gatoms a
  end.
Fixpoint dedupe (l acc : list (string * string)) : list (string * string) :=
  match l with [] => rev acc | p :: t => if pmem p acc then dedupe t acc else dedupe t (p :: acc) end.
Definition all_atoms : list (string * string) := dedupe (flat_map (fun r => gatoms (gexp r)) core_table) [].
Definition comp_names : list string := map comp core_table.

(* the oracle for the guard atoms of one configuration: what the driver evaluated on it *)
Definition atomv_of (atoms_true : list Z) : string -> string -> Z -> bool :=
  let ts := flat_map (fun k => match nth_error all_atoms (Z.to_nat k) with Some p => [p] | None => [] end) atoms_true in
  fun f t _ => pmem (f, t) ts.
Definition idents (ident : list Z) : list (string * Z) := combine comp_names ident.
Definition names_of (ixs : list Z) : list string :=
  flat_map (fun k => match nth_error comp_names (Z.to_nat k) with Some c => [c] | None => [] end) ixs.
Definition well_formed (st : step) : bool :=
  match st with
  | Step _ _ atoms en ident _ _ =>
      Nat.eqb (List.length ident) (List.length comp_names) &&
      forallb (fun k => (0 <=? k)%Z && (k <? Z.of_nat (List.length all_atoms))%Z) atoms &&
      forallb (fun k => (0 <=? k)%Z && (k <? Z.of_nat (List.length comp_names))%Z) en
  end.

Definition agree (cur : conf) (s : state) (st : step) : bool :=
  match st with
  | Step _ _ _ _ ident not_held stale =>
      well_formed st &&
      forallb (fun r =>
        let c := comp r in
        Z.eqb (gen_of (s c)) (lookupZ c (idents ident)) &&
        match s c with
        | None => true
        | Some i =>
            forallb (fun f => Bool.eqb (Z.eqb (hval i f) (val (cur f))) (negb (pmem (c, f) not_held))) (bound r) &&
            forallb (fun d => Bool.eqb (Z.eqb (href i d) (gen_of (s d))) (negb (pmem (c, d) stale))) (refbound r)
        end) core_table
  end.

(* evaluation only: a state is a function; tabulate it (and the instances' functions) once per step, so that later
   steps do not re-run the earlier reloads each time they look a component up *)
Definition freeze_inst (r : row) (i : inst) : inst :=
  let hv := map (fun f => (f, hval i f)) (uses r) in
  let hr := map (fun d => (d, href i d)) (refs r) in
  {| gen := gen i; hval := fun f => lookupZ f hv; href := fun d => lookupZ d hr |}.
Fixpoint lookupI (c : string) (l : list (string * option inst)) : option inst :=
  match l with [] => None | (k, v) :: t => if String.eqb k c then v else lookupI c t end.
Definition freeze (s : state) : state :=
  let l := map (fun r => (comp r, match s (comp r) with Some i => Some (freeze_inst r i) | None => None end)) core_table in
  fun c => lookupI c l.

Fixpoint replay (k : Z) (cur : conf) (s : state) (steps : list step) : bool :=
  match steps with
  | [] => true
  | st :: rest =>
      match st with
      | Step ch pf atoms _ _ _ _ =>
          let new := bump cur ch pf k in
          let s' := freeze (reload_g (atomv_of atoms) (k + 1) core_table core_pushes pointer_fields cur new s) in
          agree new s' st && replay (k + 1) new s' rest
      end
  end.

Definition mismatch (c : case) : bool :=
  match c with
  | Reload changed ptr_fresh observed =>
      negb (forallb (fun cb => Bool.eqb (closes_eval core_table pointer_fields old_conf (new_conf changed ptr_fresh) (fst cb)) (snd cb))
                    observed)
  | History init steps =>
      match init with
      | Step _ _ atoms0 _ _ _ _ =>
          let s0 := freeze (start (atomv_of atoms0) core_table conf0) in
          negb (agree conf0 s0 init && replay 1 conf0 s0 steps)
      end
  end.

(* The property on the observation, using only the construction side of the table (which parameters and which
   other components each component is built from), never the close predicates:
   - a running component built from a changed parameter (not one that is pushed in place) was recreated;
   - a component holding a recreated component was recreated;
   - a recreated component is built, directly or through components it holds, from a changed parameter. *)
Definition row_of (c : string) : option row := find (fun r => String.eqb (comp r) c) core_table.

Fixpoint held (fuel : nat) (c : string) : list string :=
  match fuel with
  | O => []
  | S k => c :: match row_of c with Some r => flat_map (held k) (refs r) | None => [] end
  end.

Definition in_place : list string := ["Paths"; "AuthInternalUsers"].

(* The property on a history, on the observations only (construction side of the table: params, refs):
   - after New and after every reload a component stands in Core exactly when the configuration enables it;
   - every running component holds the current configuration's value of every parameter bound in its constructor
     (whether it was recreated, reloaded in place, or left alone), and the current instance of every component it holds;
   - a component built from a changed parameter (other than those that may be pushed in place), or holding a component
     that was replaced, created or removed, does not survive the reload as the same instance;
   - an instance is replaced, created or removed only if a parameter changed that it or a component it holds is built from. *)
Definition obs_ok (enabled : list string) (ident : list (string * Z)) (not_held stale : list (string * string)) : bool :=
  forallb (fun r => Bool.eqb (negb (Z.eqb (lookupZ (comp r) ident) 0)) (mem (comp r) enabled)) core_table &&
  match not_held with [] => true | _ => false end && match stale with [] => true | _ => false end.

Definition step_ok (prev : list (string * Z)) (st : step) : bool :=
  match st with
  | Step ch _ _ enabled ident0 not_held stale =>
      let ident := idents ident0 in
      obs_ok (names_of enabled) ident not_held stale &&
      forallb (fun r =>
        let c := comp r in
        let g := lookupZ c ident in
        let g0 := lookupZ c prev in
        let moved := negb (Z.eqb g g0) in
        let direct := existsb (fun f => mem f (params r) && negb (mem f in_place)) ch in
        let through := existsb (fun d => negb (Z.eqb (lookupZ d ident) (lookupZ d prev))) (refs r) in
        let any := existsb (fun d => match row_of d with
                                     | Some rd => existsb (fun f => mem f (params rd)) ch
                                     | None => false end) (held 8 c) in
        (if direct || through then moved || (Z.eqb g 0 && Z.eqb g0 0) else true) && (if moved then any else true))
        core_table
  end.

Fixpoint steps_ok (prev : list (string * Z)) (steps : list step) : bool :=
  match steps with
  | [] => true
  | st :: rest => step_ok prev st && steps_ok (match st with Step _ _ _ _ ident _ _ => idents ident end) rest
  end.

Definition spec_fail (c : case) : bool :=
  match c with
  | History (Step _ _ _ en0 ident0 not_held0 stale0) steps =>
      negb (obs_ok (names_of en0) (idents ident0) not_held0 stale0 && steps_ok (idents ident0) steps)
  | Reload changed _ observed =>
      negb (forallb (fun cb =>
        let '(c, rec) := cb in
        match row_of c with
        | None => true
        | Some r =>
            let direct := existsb (fun f => mem f (params r) && negb (mem f in_place)) changed in
            let through := existsb (fun d => existsb (fun cb' => String.eqb (fst cb') d && snd cb') observed) (refs r) in
            let any := existsb (fun d => match row_of d with
                                         | Some rd => existsb (fun f => mem f (params rd)) changed
                                         | None => false end) (held 8 c) in
            (if direct || through then rec else true) && (if rec then any else true)
        end) observed)
  end.
