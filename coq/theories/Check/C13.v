(* Correspondence cases for C13: real reloads of a real Core (all servers on scratch ports).
   Each case: the global parameters whose value was changed, the pointer-typed parameters whose pointer differs
   between the two configurations, and for every component that was running whether it was recreated. *)
From Coq Require Import List String ZArith Bool.
Require Import MTX.Model.C13_Reload.
Require Export MTXGen.C13_CoreDeps.
Import ListNotations.
Local Open Scope string_scope.
Local Open Scope list_scope.

Inductive case := Reload (changed : list string) (ptr_fresh : list string) (observed : list (string * bool)).

Definition old_conf : conf := fun _ => {| val := 0; addr := 1 |}.
Definition new_conf (changed ptr_fresh : list string) : conf :=
  fun f => {| val := if mem f changed then 1%Z else 0%Z; addr := if mem f ptr_fresh then 2%Z else 1%Z |}.

Definition mismatch (c : case) : bool :=
  match c with
  | Reload changed ptr_fresh observed =>
      negb (forallb (fun cb => Bool.eqb (closes_eval core_table pointer_fields old_conf (new_conf changed ptr_fresh) (fst cb)) (snd cb))
                    observed)
  end.

(* The property on the observation, using only the construction side of the table (which parameters and which
   other components each component is built from), never the close predicates:
   - a running component built from a changed parameter (not one that is pushed in place) was recreated;
   - a component holding a recreated component was recreated;
   - a recreated component is built, directly or through components it holds, from a changed parameter. *)
Definition row_of (c : string) : option row := find (fun r => String.eqb (comp r) c) core_table.

Fixpoint held (fuel : nat) (c : string) : list string :=
  match fuel with
  | O => []
  | S k => c :: match row_of c with Some r => flat_map (held k) (refs r) | None => [] end
  end.

Definition in_place : list string := ["Paths"; "AuthInternalUsers"].

Definition spec_fail (c : case) : bool :=
  match c with
  | Reload changed _ observed =>
      negb (forallb (fun cb =>
        let '(c, rec) := cb in
        match row_of c with
        | None => true
        | Some r =>
            let direct := existsb (fun f => mem f (params r) && negb (mem f in_place)) changed in
            let through := existsb (fun d => existsb (fun cb' => String.eqb (fst cb') d && snd cb') observed) (refs r) in
            let any := existsb (fun d => match row_of d with
                                         | Some rd => existsb (fun f => mem f (params rd)) changed
                                         | None => false end) (held 8 c) in
            (if direct || through then rec else true) && (if rec then any else true)
        end) observed)
  end.
