(* Correspondence cases for C13: real reloads of a real Core (all servers on scratch ports).
   Each case: the global parameters whose value was changed, the pointer-typed parameters whose pointer differs
   between the two configurations, and for every component that was running whether it was recreated. *)
From Coq Require Import List String ZArith Bool.
Require Import MTX.Model.C13_Reload.
Require Export MTXGen.C13_CoreDeps.
Import ListNotations.
Local Open Scope string_scope.
Local Open Scope list_scope.

(* One observation of a real Core, after New or after a real reloadConf:
   changed     the parameters whose value differs from the previous configuration (derived guard fields such as
               "Paths#atLeastOneRecordDeleteAfter" included), ptr_fresh the pointer-typed ones whose pointer differs;
   atoms_true  the guard atoms of the table that are true in the new configuration (evaluated by the driver);
   enabled     the components the new configuration enables - the driver's own reading of the documented meaning of
               the enable flags and encryption modes, not the table's;
   ident       per component standing in Core the serial number of the instance (1 = created by New, k+1 = first seen
               after reload number k); a component that is not listed is absent;
   not_held    (component, configuration field): the running component does NOT hold the new configuration's value,
               among all `Key: currentConf.Field` of the constructor literals, read from the component itself
               (for AuthInternalUsers also: a user of the new list is not admitted, or a removed one still is);
   stale       (component, held component): the reference it holds is NOT the instance standing in Core now.
   A history also lists `skipped`: the (component, field / held component) pairs the driver cannot compare. *)
Inductive step := Step (changed ptr_fresh : list string) (atoms_true : list (string * string))
                       (enabled : list string) (ident : list (string * Z))
                       (not_held stale : list (string * string)).

Inductive case :=
| Reload (changed : list string) (ptr_fresh : list string) (observed : list (string * bool))
| History (skipped : list (string * string)) (init : step) (steps : list step).

Definition old_conf : conf := fun _ => {| val := 0; addr := 1 |}.
Definition new_conf (changed ptr_fresh : list string) : conf :=
  fun f => {| val := if mem f changed then 1%Z else 0%Z; addr := if mem f ptr_fresh then 2%Z else 1%Z |}.

(* --- histories: the model's reload is replayed from the model's own state and compared after every step --- *)

Fixpoint lookupZ (c : string) (l : list (string * Z)) : Z :=
  match l with [] => 0%Z | (k, v) :: t => if String.eqb k c then v else lookupZ c t end.
Fixpoint lookupB (c : string) (l : list (string * bool)) : bool :=
  match l with [] => false | (k, v) :: t => if String.eqb k c then v else lookupB c t end.

Definition conf0 : conf := fun _ => {| val := 0; addr := 0 |}.
(* every changed parameter takes a value it never had before *)
Definition bump (c : conf) (changed ptr_fresh : list string) (k : Z) : conf :=
  fun f => {| val := if mem f changed then k else val (c f); addr := if mem f ptr_fresh then k else addr (c f) |}.

(* the oracle for the guard atoms of one configuration: what the driver evaluated on it *)
Definition pmem (p : string * string) (l : list (string * string)) : bool :=
  existsb (fun q => String.eqb (fst p) (fst q) && String.eqb (snd p) (snd q)) l.
Definition atomv_of (atoms_true : list (string * string)) : string -> string -> Z -> bool :=
  fun f t _ => pmem (f, t) atoms_true.

Definition agree (skipped : list (string * string)) (cur : conf) (s : state) (ident : list (string * Z))
                 (not_held stale : list (string * string)) : bool :=
  forallb (fun r =>
    let c := comp r in
    Z.eqb (gen_of (s c)) (lookupZ c ident) &&
    match s c with
    | None => true
    | Some i =>
        forallb (fun f => pmem (c, f) skipped ||
                          Bool.eqb (Z.eqb (hval i f) (val (cur f))) (negb (pmem (c, f) not_held))) (uses r) &&
        forallb (fun d => pmem (c, d) skipped ||
                          Bool.eqb (Z.eqb (href i d) (gen_of (s d))) (negb (pmem (c, d) stale))) (refs r)
    end) core_table.

Fixpoint replay (skipped : list (string * string)) (k : Z) (cur : conf) (s : state) (steps : list step) : bool :=
  match steps with
  | [] => true
  | Step ch pf atoms _ ident not_held stale :: rest =>
      let new := bump cur ch pf k in
      let s' := reload (atomv_of atoms) (k + 1) core_table pointer_fields cur new s in
      agree skipped new s' ident not_held stale && replay skipped (k + 1) new s' rest
  end.

Definition mismatch (c : case) : bool :=
  match c with
  | Reload changed ptr_fresh observed =>
      negb (forallb (fun cb => Bool.eqb (closes_eval core_table pointer_fields old_conf (new_conf changed ptr_fresh) (fst cb)) (snd cb))
                    observed)
  | History skipped (Step _ _ atoms0 _ ident0 not_held0 stale0) steps =>
      let s0 := start (atomv_of atoms0) core_table conf0 in
      negb (agree skipped conf0 s0 ident0 not_held0 stale0 && replay skipped 1 conf0 s0 steps)
  end.

(* The property on the observation, using only the construction side of the table (which parameters and which
   other components each component is built from), never the close predicates:
   - a running component built from a changed parameter (not one that is pushed in place) was recreated;
   - a component holding a recreated component was recreated;
   - a recreated component is built, directly or through components it holds, from a changed parameter. *)
Definition row_of (c : string) : option row := find (fun r => String.eqb (comp r) c) core_table.

Fixpoint held (fuel : nat) (c : string) : list string :=
  match fuel with
  | O => []
  | S k => c :: match row_of c with Some r => flat_map (held k) (refs r) | None => [] end
  end.

Definition in_place : list string := ["Paths"; "AuthInternalUsers"].

(* The property on a history, on the observations only (construction side of the table: params, refs):
   - after New and after every reload a component stands in Core exactly when the configuration enables it;
   - every running component holds the current configuration's value of every parameter bound in its constructor
     (whether it was recreated, reloaded in place, or left alone), and the current instance of every component it holds;
   - a component built from a changed parameter (other than those that may be pushed in place), or holding a component
     that was replaced, created or removed, does not survive the reload as the same instance;
   - an instance is replaced, created or removed only if a parameter changed that it or a component it holds is built from. *)
Definition obs_ok (enabled : list string) (ident : list (string * Z)) (not_held stale : list (string * string)) : bool :=
  forallb (fun r => Bool.eqb (negb (Z.eqb (lookupZ (comp r) ident) 0)) (mem (comp r) enabled)) core_table &&
  match not_held with [] => true | _ => false end && match stale with [] => true | _ => false end.

Definition step_ok (prev : list (string * Z)) (st : step) : bool :=
  match st with
  | Step ch _ _ enabled ident not_held stale =>
      obs_ok enabled ident not_held stale &&
      forallb (fun r =>
        let c := comp r in
        let g := lookupZ c ident in
        let g0 := lookupZ c prev in
        let moved := negb (Z.eqb g g0) in
        let direct := existsb (fun f => mem f (params r) && negb (mem f in_place)) ch in
        let through := existsb (fun d => negb (Z.eqb (lookupZ d ident) (lookupZ d prev))) (refs r) in
        let any := existsb (fun d => match row_of d with
                                     | Some rd => existsb (fun f => mem f (params rd)) ch
                                     | None => false end) (held 8 c) in
        (if direct || through then moved || (Z.eqb g 0 && Z.eqb g0 0) else true) && (if moved then any else true))
        core_table
  end.

Fixpoint steps_ok (prev : list (string * Z)) (steps : list step) : bool :=
  match steps with
  | [] => true
  | st :: rest => step_ok prev st && steps_ok (match st with Step _ _ _ _ ident _ _ => ident end) rest
  end.

Definition spec_fail (c : case) : bool :=
  match c with
  | History _ (Step _ _ _ en0 ident0 not_held0 stale0) steps =>
      negb (obs_ok en0 ident0 not_held0 stale0 && steps_ok ident0 steps)
  | Reload changed _ observed =>
      negb (forallb (fun cb =>
        let '(c, rec) := cb in
        match row_of c with
        | None => true
        | Some r =>
            let direct := existsb (fun f => mem f (params r) && negb (mem f in_place)) changed in
            let through := existsb (fun d => existsb (fun cb' => String.eqb (fst cb') d && snd cb') observed) (refs r) in
            let any := existsb (fun d => match row_of d with
                                         | Some rd => existsb (fun f => mem f (params rd)) changed
                                         | None => false end) (held 8 c) in
            (if direct || through then rec else true) && (if rec then any else true)
        end) observed)
  end.
