(* Correspondence cases for C32: the driver ran the real MoQ codecs
   (Varint.Unmarshal/Read/Marshal, Namespace, Parameters, Properties, controlmessage.Read/Marshal,
   SubGroup.Read/Marshal) and recorded inputs and observed outputs. *)
From Coq Require Import List ZArith Bool.
Require Import MTX.Lib.IntWrap.
Require Export MTX.Model.C32_Moq.
Import ListNotations.
Local Open Scope Z_scope.

(* compact literal for long runs of one byte *)
Definition rep (x n : Z) : bytes := repeat x (Z.to_nat n).
(* concatenation of segments (the cases files do not rely on any scope for ++) *)
Definition cat (l : list bytes) : bytes := concat l.

Inductive value :=
| VInt (v : Z)
| VNs (ns : list bytes)
| VParams (ps : list token)
| VProps (ts : list Z)
| VMsg (m : msg)
| VSub (h : header) (objs : list object).

Inductive dkind :=
| DVarintUnmarshal | DVarintRead | DNamespace | DParams (count : Z) | DProps | DMsg | DSubgroup.

(* OOver is never produced by the driver: a model run that ends in Overalloc is a mismatch *)
Inductive outcome := OOk (v : value) (consumed : Z) | OErr | OPanic | OOver.

Inductive case :=
  (* the real Marshal of v gave wire; the real decoder on wire gave o and allocated alloc bytes *)
| RoundTrip (k : dkind) (v : value) (wire : bytes) (o : outcome) (alloc : Z)
  (* the real decoder on arbitrary input *)
| Decode (k : dkind) (input : bytes) (o : outcome) (alloc : Z).

(* ---- equality ---- *)
Fixpoint list_eqb {A} (e : A -> A -> bool) (a b : list A) : bool :=
  match a, b with
  | [], [] => true
  | x :: a', y :: b' => e x y && list_eqb e a' b'
  | _, _ => false
  end.
Definition bytes_eqb := list_eqb Z.eqb.
Definition token_eqb (a b : token) : bool :=
  (a.(tk_alias) =? b.(tk_alias)) && (a.(tk_type) =? b.(tk_type)) && bytes_eqb a.(tk_value) b.(tk_value).
Definition params_eqb := list_eqb token_eqb.
Definition props_eqb := list_eqb Z.eqb.
Definition ns_eqb := list_eqb bytes_eqb.
Definition sk_eqb (a b : setup_kind) : bool :=
  match a, b with KSetup, KSetup | KClientSetup, KClientSetup | KServerSetup, KServerSetup => true | _, _ => false end.
Definition msg_eqb (a b : msg) : bool :=
  match a, b with
  | MSetup k p q, MSetup k' p' q' => sk_eqb k k' && bytes_eqb p p' && bytes_eqb q q'
  | MSubscribe r n t p, MSubscribe r' n' t' p' => (r =? r') && ns_eqb n n' && bytes_eqb t t' && params_eqb p p'
  | MSubscribeOk a p q, MSubscribeOk a' p' q' => (a =? a') && params_eqb p p' && props_eqb q q'
  | MRequestError c r, MRequestError c' r' => (c =? c') && bytes_eqb r r'
  | MPublish r n t a p q, MPublish r' n' t' a' p' q' =>
      (r =? r') && ns_eqb n n' && bytes_eqb t t' && (a =? a') && params_eqb p p' && props_eqb q q'
  | MPublishOk p q, MPublishOk p' q' => params_eqb p p' && props_eqb q q'
  | MRequestOk p q, MRequestOk p' q' => params_eqb p p' && props_eqb q q'
  | _, _ => false
  end.
Definition header_eqb (a b : header) : bool :=
  Bool.eqb a.(h_props) b.(h_props) && Bool.eqb a.(h_first) b.(h_first)
  && (a.(h_alias) =? b.(h_alias)) && (a.(h_group) =? b.(h_group)).
Definition object_eqb (a b : object) : bool :=
  (a.(o_delta) =? b.(o_delta)) && props_eqb a.(o_props) b.(o_props) && bytes_eqb a.(o_payload) b.(o_payload).
Definition value_eqb (a b : value) : bool :=
  match a, b with
  | VInt x, VInt y => x =? y
  | VNs x, VNs y => ns_eqb x y
  | VParams x, VParams y => params_eqb x y
  | VProps x, VProps y => props_eqb x y
  | VMsg x, VMsg y => msg_eqb x y
  | VSub h o, VSub h' o' => header_eqb h h' && list_eqb object_eqb o o'
  | _, _ => false
  end.
Definition outcome_eqb (a b : outcome) : bool :=
  match a, b with
  | OOk v n, OOk w m => value_eqb v w && (n =? m)
  | OErr, OErr | OPanic, OPanic => true
  | _, _ => false
  end.

(* ---- running the model ---- *)
Definition conv {A} (input : bytes) (f : A -> value) (r : res A) : outcome :=
  match r with
  | Ok v rest => OOk (f v) (len input - len rest)
  | Err => OErr
  | Panic => OPanic
  | Overalloc _ => OOver
  end.

Definition run (k : dkind) (input : bytes) : outcome :=
  match k with
  | DVarintUnmarshal => conv input VInt (dec_varint input)
  | DVarintRead => conv input VInt (read_varint input)
  | DNamespace => conv input VNs (dec_namespace input)
  | DParams c => conv input VParams (dec_parameters c input)
  | DProps => conv input VProps (dec_properties input)
  | DMsg => conv input VMsg (read_msg input)
  | DSubgroup => conv input (fun ho => VSub (fst ho) (snd ho)) (read_subgroup input)
  end.

Definition encode (v : value) : bytes :=
  match v with
  | VInt x => enc_varint x
  | VNs ns => enc_namespace ns
  | VParams ps => enc_parameters ps
  | VProps ts => enc_properties ts
  | VMsg m => enc_msg m
  | VSub h objs => enc_subgroup h objs
  end.

Definition mismatch (c : case) : bool :=
  match c with
  | RoundTrip k v wire o _ => negb (bytes_eqb (encode v) wire && outcome_eqb (run k wire) o)
  | Decode k input o _ => negb (outcome_eqb (run k input) o)
  end.

(* ---- the property on the observed outputs only (no model function is called below) ---- *)

Definition u64 (x : Z) : bool := (0 <=? x) && (x <? 18446744073709551616).

(* smallest of the 9 length classes that holds x: class k <= 8 carries 7k bits, class 9 carries 64 *)
Definition canonical_size (x : Z) : Z :=
  match find (fun k => x <? 2 ^ (7 * k)) [1; 2; 3; 4; 5; 6; 7; 8] with
  | Some k => k
  | None => 9
  end.

Definition token_valid (t : token) : bool := (t.(tk_alias) =? 3) && u64 t.(tk_type).
Definition sum (l : list Z) : Z := fold_right Z.add 0 l.
(* wire size of a property list holding only timestamps: first delta 6, then 0 (one byte each) *)
Definition props_wire_size (ts : list Z) : Z := sum (map (fun t => 1 + canonical_size t) ts).

Definition msg_valid (m : msg) : bool :=
  match m with
  | MSetup _ _ _ => true
  | MSubscribe r n _ p => u64 r && (Z.of_nat (length n) <=? 32) && forallb token_valid p
  | MSubscribeOk a p q => u64 a && forallb token_valid p && forallb u64 q
  | MRequestError c _ => u64 c
  | MPublish r n _ a p q =>
      u64 r && (Z.of_nat (length n) <=? 32) && u64 a && forallb token_valid p && forallb u64 q
  | MPublishOk p q | MRequestOk p q => forallb token_valid p && forallb u64 q
  end.

(* values inside the protocol limits the statement names (32 namespace fields, 128 KiB of
   properties, 10 MiB payload, exactly one non-empty object, no properties without the header bit).
   The 16-bit length field of control messages is deliberately NOT part of this: Marshal has no
   way to refuse, so a payload >= 2^16 that does not decode back is a failure of the property. *)
Definition value_valid (v : value) : bool :=
  match v with
  | VInt x => u64 x
  | VNs ns => Z.of_nat (length ns) <=? 32
  | VParams ps => forallb token_valid ps
  | VProps ts => forallb u64 ts
  | VMsg m => msg_valid m
  | VSub h objs =>
      u64 h.(h_alias) && u64 h.(h_group) &&
      match objs with
      | [o] => u64 o.(o_delta) && forallb u64 o.(o_props)
               && negb (Z.of_nat (length o.(o_payload)) =? 0)
               && (Z.of_nat (length o.(o_payload)) <=? 10485760)
               && (h.(h_props) || match o.(o_props) with [] => true | _ => false end)
               && (props_wire_size o.(o_props) <=? 131072)
      | _ => false
      end
  end.

(* bytes the decoder may allocate: the protocol limit of the type + a term linear in the input
   (copies of strings, appended pointers, boxed values) + a constant (error values, readers) *)
Definition alloc_bound (k : dkind) (n : Z) : Z :=
  64 * n + 8192 +
  match k with
  | DVarintUnmarshal | DVarintRead => 8
  | DNamespace => 32 * 16
  | DParams _ | DProps => 0
  | DMsg => 65535 + 32 * 16
  | DSubgroup => 10485760 + 2 * 131072
  end.

(* decoded values respect the limits too *)
Definition decoded_within_limits (v : value) : bool :=
  match v with
  | VNs ns => Z.of_nat (length ns) <=? 32
  | VMsg (MSubscribe _ n _ _) | VMsg (MPublish _ n _ _ _ _) => Z.of_nat (length n) <=? 32
  | VSub _ objs => forallb (fun o => Z.of_nat (length o.(o_payload)) <=? 10485760) objs
  | _ => true
  end.

Definition spec_fail (c : case) : bool :=
  match c with
  | RoundTrip k v wire o a =>
      match o with OPanic | OOver => true | _ => false end
      || (alloc_bound k (Z.of_nat (length wire)) <? a)
      || (value_valid v &&
          negb (outcome_eqb o (OOk v (Z.of_nat (length wire)))
                && match v with VInt x => Z.of_nat (length wire) =? canonical_size x | _ => true end))
  | Decode k input o a =>
      match o with
      | OPanic | OOver => true
      | OErr => false
      | OOk v n => negb ((0 <=? n) && (n <=? Z.of_nat (length input)) && decoded_within_limits v)
      end
      || (alloc_bound k (Z.of_nat (length input)) <? a)
  end.
