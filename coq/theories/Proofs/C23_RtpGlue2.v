(* The glue and the packetizer together: what a reader's decoder gets out of a re-encoded H.264 unit. *)
From Coq Require Import List ZArith Bool Lia Arith.
Require Import MTX.Lib.IntWrap MTX.Model.C23_RtpH264 MTX.Model.C23_RtpGlue.
Require Import MTX.Proofs.C23_RtpH264 MTX.Proofs.C23_RtpH264Seq MTX.Proofs.C23_RtpH264Rt MTX.Proofs.C23_RtpH264Rt2
               MTX.Proofs.C23_RtpGlue.
Import ListNotations.
Local Open Scope Z_scope.

Theorem h264_glue_roundtrip max avail g pts inp decerr au g' out d :
  3 <= max < 65536 -> enc_max_ok max g ->
  h264_glue_write max avail g pts inp decerr (Some au) = GOk g' out -> has_enc g' = true ->
  au <> [] -> Forall nal_ok au -> blen au <= max_nalus -> au_size au <= max_au_size -> clean d ->
  exists d', decode_run d out = (repeat DMore (length out - 1) ++ [DOk au], d') /\ clean d' /\ (1 <= length out)%nat.
Proof.
  intros Hmax Hok H Hg' Hne Hnal Hl1 Hl2 Hc. unfold h264_glue_write in H. apply glue_write_inv in H.
  destruct H as [(A & B & C & D)|(e0 & off0 & He & Hr)].
  { subst g'. unfold has_enc in Hg'. rewrite A in Hg'. discriminate. }
  assert (He0 : e_max e0 = max).
  { destruct He as [(A & _)|(_ & _ & pkt & B & -> & _)].
    - unfold enc_max_ok in Hok. rewrite A in Hok. apply Hok.
    - unfold enc_init. cbn [e_max]. destruct (max =? 0) eqn:E; [apply Z.eqb_eq in E; lia|reflexivity]. }
  destruct Hr as [(Hd & _)|(p & pkts & e' & Hd & Henc & -> & _)]; [discriminate|].
  injection Hd as <-. unfold h264_enc_fn in Henc. injection Henc as Henc.
  unfold stamp_all.
  destruct (h264_roundtrip e0 au pkts e' d (wrapu32 (off0 + wrapu32 pts)) ltac:(lia) Hne Hnal Hl1 Hl2 Henc Hc)
    as (d' & Hrun & Hc' & Hlen).
  exists d'. rewrite map_length. split; [exact Hrun|split; [exact Hc'|exact Hlen]].
Qed.
