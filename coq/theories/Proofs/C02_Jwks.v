(* Proofs about the JWKS cache model (Model/C02_Jwks.v): which key set decides an Authenticate call of a history. *)
From Coq Require Import List ZArith Bool Lia.
Require Import MTX.Lib.Utf8 MTX.Model.C01_Auth MTX.Model.C02_AuthExt MTX.Model.C02_Jwks MTX.Proofs.C02_AuthExt.
Import ListNotations.
Local Open Scope Z_scope.

Section JwksProofs.
Variable K : Type.
Variable rx : list Z -> list Z -> bool.
Variable verify : K -> list Z -> option jclaims.
Variable dec_perms : list Z -> option (list perm).
Variable dec_str : list Z -> option (list Z).
Variables issuer audience : list Z.
Variable ex : list perm.
Variable inq : option bool.

Notation auth_step := (auth_step K rx verify dec_perms dec_str issuer audience ex inq).
Notation step := (step K rx verify dec_perms dec_str issuer audience ex inq).
Notation run := (run K rx verify dec_perms dec_str issuer audience ex inq).
Notation auth_with := (fun k r => authenticate_jwt_cfg rx (verify k) dec_perms dec_str issuer audience ex true inq r).

(* the keys of a fresh state are among S *)
Definition inv (S : list K) (st : jstate K) : Prop :=
  js_fresh K st = true -> exists k, js_keys K st = Some k /\ In k S.

Lemma inv_mono S S' st : inv S st -> incl S S' -> inv S' st.
Proof. intros H Hi Hf. destruct (H Hf) as (k & E & Hin). exists k. split; [exact E|apply Hi; exact Hin]. Qed.

Lemma inv_invalidate S st : inv S (invalidate K st).
Proof. intros Hf. discriminate. Qed.

Lemma pull_inv S st served : inv S st ->
  inv (S ++ match served with Some k => [k] | None => [] end) (fst (pull K st served)).
Proof.
  intros H. unfold pull. destruct (js_fresh K st) eqn:Ef.
  - cbn [fst]. eapply inv_mono; [exact H|]. apply incl_appl, incl_refl.
  - destruct served as [k|]; cbn [fst].
    + intros _. exists k. split; [reflexivity|]. apply in_or_app. right. left. reflexivity.
    + intros Hf. congruence.
Qed.

Lemma step_inv S st e : inv S st -> inv (S ++ served_keys K [e]) (fst (step st e)).
Proof.
  intros H. destruct e as [served r| |]; cbn [Model.C02_Jwks.step served_keys flat_map]; rewrite ?app_nil_r.
  - unfold Model.C02_Jwks.auth_step. destruct (excluded rx ex r).
    + cbn [fst]. eapply inv_mono; [exact H|]. apply incl_appl, incl_refl.
    + pose proof (pull_inv S st served H) as P. destruct (pull K st served) as [st' kf]. cbn [fst] in *.
      destruct served; exact P.
  - apply inv_invalidate.
  - apply inv_invalidate.
Qed.

Lemma served_keys_cons e evs : served_keys K (e :: evs) = served_keys K [e] ++ served_keys K evs.
Proof. unfold served_keys. cbn [flat_map]. rewrite app_nil_r. reflexivity. Qed.

Lemma run_inv evs : forall S st, inv S st -> inv (S ++ served_keys K evs) (fst (run st evs)).
Proof.
  induction evs as [|e rest IH]; intros S st H.
  - cbn. rewrite app_nil_r. exact H.
  - cbn [Model.C02_Jwks.run]. pose proof (step_inv S st e H) as P.
    destruct (step st e) as [st' o]. cbn [fst] in P. specialize (IH _ _ P).
    destruct (run st' rest) as [st'' os]. cbn [fst] in *.
    rewrite served_keys_cons, app_assoc. exact IH.
Qed.

(* a new Manager, and every state reachable from it, has a key function whenever it is fresh (no nil dereference) *)
Definition wf (st : jstate K) : Prop := js_fresh K st = true -> js_keys K st <> None.

Lemma inv_wf S st : inv S st -> wf st.
Proof. intros H Hf. destruct (H Hf) as (k & E & _). congruence. Qed.

Theorem reachable_wf evs : wf (fst (run (js_init K) evs)).
Proof. eapply inv_wf. apply (run_inv evs []). intros Hf. discriminate. Qed.

(* not excluded and no key function: denied *)
Lemma no_keys_denied r u : excluded rx ex r = false ->
  authenticate_jwt_cfg rx (fun _ => None) dec_perms dec_str issuer audience ex false inq r <> Granted u.
Proof.
  intros Ex H. apply jwt_cfg_iff in H. destruct H as [[N _]|(_ & N & _)]; congruence.
Qed.

(* excluded requests are granted without touching the JWKS *)
Theorem excluded_no_fetch st served r : excluded rx ex r = true -> auth_step st served r = (st, Granted []).
Proof. intros E. unfold Model.C02_Jwks.auth_step. rewrite E. reflexivity. Qed.

(* a stale cache and a failing JWKS server: denied, nothing cached - the old keys are not used *)
Theorem stale_fetch_failure st r : js_fresh K st = false -> excluded rx ex r = false ->
  exists a, auth_step st None r = (st, Denied a).
Proof.
  intros Hf Ex. unfold Model.C02_Jwks.auth_step, pull. rewrite Ex, Hf.
  destruct (authenticate_jwt_cfg rx (fun _ => None) dec_perms dec_str issuer audience ex false inq r) as [u|a] eqn:E.
  - exfalso. exact (no_keys_denied r u Ex E).
  - exists a. reflexivity.
Qed.

(* a stale cache and an answering server: the served keys decide, and are cached *)
Theorem stale_fetch_success st k r : js_fresh K st = false -> excluded rx ex r = false ->
  auth_step st (Some k) r = ({| js_fresh := true; js_keys := Some k |}, auth_with k r).
Proof. intros Hf Ex. unfold Model.C02_Jwks.auth_step, pull. rewrite Ex, Hf. reflexivity. Qed.

(* a fresh cache: the cached keys decide whatever the server would answer now *)
Theorem fresh_cache_used st k served r : js_fresh K st = true -> js_keys K st = Some k -> excluded rx ex r = false ->
  auth_step st served r = (st, auth_with k r).
Proof. intros Hf Hk Ex. unfold Model.C02_Jwks.auth_step, pull. rewrite Ex, Hf, Hk. reflexivity. Qed.

(* after RefreshJWTJWKS (or the refresh period), whatever happened before: a request that is granted later - not being
   excluded - is granted under a key set the server handed out AFTER that moment *)
Theorem refresh_honoured st evs served r st' u :
  auth_step (fst (run (invalidate K st) evs)) served r = (st', Granted u) -> excluded rx ex r = false ->
  exists k, In k (served_keys K (evs ++ [EAuth K served r])) /\ auth_with k r = Granted u.
Proof.
  intros H Ex.
  pose proof (run_inv evs [] (invalidate K st) (inv_invalidate [] st)) as I. cbn [app] in I.
  set (st1 := fst (run (invalidate K st) evs)) in *.
  unfold Model.C02_Jwks.auth_step in H. rewrite Ex in H. unfold pull in H.
  assert (Hs : forall k, In k (served_keys K evs) \/ served = Some k ->
                         In k (served_keys K (evs ++ [EAuth K served r]))).
  { intros k [Hin| ->]; unfold served_keys; rewrite flat_map_app; apply in_or_app; [left; exact Hin|right; left; reflexivity]. }
  destruct (js_fresh K st1) eqn:Ef.
  - destruct (I Ef) as (k & Ek & Hin). rewrite Ek in H. injection H as _ H.
    exists k. split; [apply Hs; left; exact Hin|exact H].
  - destruct served as [k|].
    + injection H as _ H. exists k. split; [apply Hs; right; reflexivity|exact H].
    + injection H as _ H. exfalso. exact (no_keys_denied r u Ex H).
Qed.

End JwksProofs.
