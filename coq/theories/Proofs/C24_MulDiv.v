(* muldiv_w computes the exact truncated quotient whenever the exact result is representable. *)
From Coq Require Import ZArith Lia ZifyBool.
Require Import MTX.Lib.IntWrap MTX.Model.C24_MulDiv.
Local Open Scope Z_scope.

Lemma div_split v m d : 0 <= v -> 0 < m -> 0 < d ->
  (v * m) / d = (v / d) * m + ((v mod d) * m) / d.
Proof.
  intros Hv Hm Hd. rewrite (Z.div_mod v d) at 1 by lia.
  replace ((d * (v / d) + v mod d) * m) with ((v / d) * m * d + (v mod d) * m) by ring.
  rewrite Z.div_add_l by lia. reflexivity.
Qed.

(* the side condition every call site satisfies: one of the two factors is time.Second, the other a clock
   rate / time scale in 1..2^32 *)
Definition scale_ok (m d : Z) : Prop := 1 <= m <= two32 /\ 1 <= d <= two32 /\ (m = nanos \/ d = nanos).

Lemma muldiv_nonneg v m d : scale_ok m d -> 0 <= v < two63 -> (v * m) / d < two63 ->
  muldiv_w v m d = (v * m) / d.
Proof.
  intros (Hm & Hd & Hn) Hv Hr. unfold muldiv_w.
  rewrite Z.quot_div_nonneg, Z.rem_mod_nonneg by lia.
  pose proof (Z.mod_pos_bound v d ltac:(lia)) as Hmod.
  assert (0 <= v / d) as Hq by (apply Z.div_pos; lia).
  assert (v / d <= v) as Hqle by (apply Z.div_le_upper_bound; nia).
  pose proof (div_split v m d ltac:(lia) ltac:(lia) ltac:(lia)) as Hsplit.
  assert (0 <= (v mod d) * m < 2 ^ 62) as Hdm.
  { unfold two32, nanos in *. destruct Hn as [-> | ->]; nia. }
  assert (0 <= (v mod d * m) / d) as Hq2 by (apply Z.div_pos; lia).
  assert ((v mod d * m) / d <= v mod d * m) as Hq2le by (apply Z.div_le_upper_bound; nia).
  assert (0 <= v / d * m) as Hsm by nia.
  rewrite (wrap64_id (v / d)) by (unfold in_int64, two63 in *; lia).
  rewrite (wrap64_id (v mod d)) by (unfold in_int64, two63, two32 in *; lia).
  rewrite (wrap64_id (v mod d * m)) by (unfold in_int64, two63 in *; lia).
  rewrite Z.quot_div_nonneg by lia.
  rewrite (wrap64_id (v mod d * m / d)) by (unfold in_int64, two63 in *; lia).
  rewrite (wrap64_id (v / d * m)) by (unfold in_int64, two63 in *; lia).
  rewrite wrap64_id by (unfold in_int64, two63 in *; lia). lia.
Qed.

Lemma muldiv_neg v m d : scale_ok m d -> - two63 <= v < 0 -> - two63 <= Z.quot (v * m) d ->
  muldiv_w v m d = Z.quot (v * m) d.
Proof.
  intros (Hm & Hd & Hn) Hv Hr. unfold muldiv_w.
  assert (exists u, v = - u /\ 0 < u <= two63) as [u [-> Hu]] by (exists (- v); lia).
  rewrite Z.quot_opp_l, Z.rem_opp_l by lia.
  replace (- u * m) with (- (u * m)) in * by ring. rewrite Z.quot_opp_l in * by lia.
  rewrite !Z.quot_div_nonneg in * by nia. rewrite Z.rem_mod_nonneg by lia.
  pose proof (Z.mod_pos_bound u d ltac:(lia)) as Hmod.
  assert (0 <= u / d) as Hq by (apply Z.div_pos; lia).
  assert (u / d <= u) as Hqle by (apply Z.div_le_upper_bound; nia).
  pose proof (div_split u m d ltac:(lia) ltac:(lia) ltac:(lia)) as Hsplit.
  assert (0 <= (u mod d) * m < 2 ^ 62) as Hdm.
  { unfold two32, nanos in *. destruct Hn as [-> | ->]; nia. }
  assert (0 <= (u mod d * m) / d) as Hq2 by (apply Z.div_pos; lia).
  assert ((u mod d * m) / d <= u mod d * m) as Hq2le by (apply Z.div_le_upper_bound; nia).
  assert (0 <= u / d * m) as Hsm by nia.
  rewrite (wrap64_id (- (u / d))) by (unfold in_int64, two63 in *; lia).
  rewrite (wrap64_id (- (u mod d))) by (unfold in_int64, two63, two32 in *; lia).
  replace (- (u mod d) * m) with (- (u mod d * m)) by ring.
  rewrite (wrap64_id (- (u mod d * m))) by (unfold in_int64, two63 in *; lia).
  rewrite Z.quot_opp_l by lia. rewrite Z.quot_div_nonneg by lia.
  rewrite (wrap64_id (- (u mod d * m / d))) by (unfold in_int64, two63 in *; lia).
  replace (- (u / d) * m) with (- (u / d * m)) by ring.
  rewrite (wrap64_id (- (u / d * m))) by (unfold in_int64, two63 in *; lia).
  rewrite (Z.quot_div_nonneg (u * m) d) by nia.
  rewrite wrap64_id by (unfold in_int64, two63 in *; lia). lia.
Qed.

(* exact product-then-quotient truncated toward zero, for all inputs whose exact result is representable *)
Lemma muldiv_exact v m d : scale_ok m d -> in_int64 v -> in_int64 (Z.quot (v * m) d) ->
  muldiv_w v m d = Z.quot (v * m) d.
Proof.
  intros Hs Hv Hr. unfold in_int64 in *. destruct (Z_lt_le_dec v 0) as [Hneg|Hpos].
  - apply muldiv_neg; [exact Hs|lia|lia].
  - pose proof Hs as (Hm & Hd & Hn). rewrite (Z.quot_div_nonneg (v * m) d) in * by nia.
    apply muldiv_nonneg; [exact Hs|lia|lia].
Qed.

(* why the side condition is stated: with both factors merely <= 2^32 the helper overflows *)
Lemma muldiv_general_refuted : exists v m d,
  1 <= m <= two32 /\ 1 <= d <= two32 /\ in_int64 v /\ in_int64 (Z.quot (v * m) d) /\
  muldiv_w v m d <> Z.quot (v * m) d.
Proof.
  exists 4294967295, 4294967295, 4294967296. vm_compute. repeat split; try discriminate.
Qed.
