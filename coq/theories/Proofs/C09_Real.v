(* C09: the theorems instantiated on the schema GENERATED from the real conf.Conf (coq/gen/C09_EnvSchema.v).
   The side conditions are evaluated by vm_compute on the generated term: a kind the model does not cover
   (TBad), a nil-able struct/map/OptionalPath pointer, duplicate names or a '_' in a name make this file fail. *)
From Coq Require Import List ZArith Bool.
Require Import MTX.Model.C09_Env MTX.Model.C09_EnvSpec MTX.Proofs.C09_Thms MTXGen.C09_EnvSchema.
Import ListNotations.
Local Open Scope Z_scope.

Definition MTX : str := [77; 84; 88].

Lemma real_schema_wf : wf_ty conf_ty = true.
Proof. vm_compute. reflexivity. Qed.

Lemma real_fields_wf : wf_fields f_Conf = true.
Proof. vm_compute. reflexivity. Qed.

Lemma real_conf_equiv (OR : oracles) E d v :
  wt conf_ty v = true -> wt conf_ty d = true -> expressible OR conf_ty v = true -> dom OR conf_ty d v = true ->
  below MTX E = env_of OR conf_ty MTX v ->
  load_env OR false conf_ty E MTX d = Ok v.
Proof. intros. apply env_equiv; try assumption; [exact real_schema_wf|reflexivity]. Qed.

Lemma real_conf_pointwise (OR : oracles) E dvs vs :
  wts f_Conf dvs = true -> field_rel OR f_Conf E MTX dvs vs ->
  load_env OR false conf_ty E MTX (VStruct dvs) = Ok (VStruct vs).
Proof. intros. apply struct_pointwise; try assumption. exact real_fields_wf. Qed.

Lemma real_conf_unset (OR : oracles) E d :
  wt conf_ty d = true -> below MTX E = [] -> load_env OR false conf_ty E MTX d = Ok d.
Proof. intros. apply unset_keeps_file; try assumption. exact real_schema_wf. Qed.
