(* C08 — Duration: unmarshalInternal (marshalInternal d) = d for every d with |d| < 2^63. *)
From Coq Require Import List ZArith Bool Lia.
Require Import MTX.Lib.IntWrap MTX.Lib.Utf8 MTX.Model.C08_Scalars MTX.Proofs.C08_Dec.
Import ListNotations.
Local Open Scope Z_scope.

(* ------------------------------------------------------------------ exact float64 operations *)

Lemma rnd_int n : 0 < n < 2 ^ 53 -> rnd n 1 = (n, 0).
Proof.
  intros Hn. unfold rnd. replace (n <=? 0) with false by lia.
  rewrite Z.mod_1_r, Z.div_1_r. replace (n <? 2 ^ 53) with true by lia. reflexivity.
Qed.

Lemma fl_of_int_small n : 0 < n < 2 ^ 53 -> fl_of_int n = (n, 0).
Proof. apply rnd_int. Qed.

Lemma fl_mul_small a b : 0 < a * b < 2 ^ 53 -> fl_mul (a, 0) (b, 0) = (a * b, 0).
Proof. intros H. unfold fl_mul. rewrite rnd_int by exact H. reflexivity. Qed.

Lemma fl_div_exact a b : 0 < a -> 0 < b -> a mod b = 0 -> a / b < 2 ^ 53 -> fl_div (a, 0) (b, 0) = (a / b, 0).
Proof.
  intros Ha Hb Hm Hq. unfold fl_div. cbn [Z.sub Z.ltb Z.compare Z.opp Z.pow Z.pow_pos Pos.iter Z.mul].
  change (0 - 0 <? 0) with false. cbn iota. change (2 ^ (0 - 0)) with 1. rewrite Z.mul_1_r.
  unfold rnd. replace (a <=? 0) with false by lia. rewrite Hm.
  replace (a / b <? 2 ^ 53) with true by lia. reflexivity.
Qed.

Lemma pow10_pos k : 0 <= k -> 0 < 10 ^ k.
Proof. intros. apply Z.pow_pos_nonneg; lia. Qed.

Lemma pow10_le a b : 0 <= a <= b -> 10 ^ a <= 10 ^ b.
Proof. intros. apply Z.pow_le_mono_r; lia. Qed.

Lemma pow10_split a b : 0 <= a <= b -> 10 ^ b = 10 ^ (b - a) * 10 ^ a.
Proof. intros H. rewrite <- Z.pow_add_r by lia. f_equal. lia. Qed.

(* uint64(float64(f) * (float64(10^p) / 10^k)) = f * 10^(p-k), all operations being exact *)
Lemma frac_ns_exact f p k :
  0 <= k <= p -> p <= 9 -> 0 < f -> f * 10 ^ (p - k) < 10 ^ 9 ->
  frac_ns f (10 ^ p) (10 ^ k, 0) = f * 10 ^ (p - k).
Proof.
  intros Hk Hp Hf Hfr.
  assert (H9 : 10 ^ 9 < 2 ^ 53) by reflexivity.
  assert (Hpk : 0 < 10 ^ k) by (apply pow10_pos; lia).
  assert (Hpp : 0 < 10 ^ p) by (apply pow10_pos; lia).
  assert (Hpq : 0 < 10 ^ (p - k)) by (apply pow10_pos; lia).
  assert (Hp9 : 10 ^ p <= 10 ^ 9) by (apply pow10_le; lia).
  assert (Hk9 : 10 ^ k <= 10 ^ 9) by (apply pow10_le; lia).
  assert (Hq9 : 10 ^ (p - k) <= 10 ^ 9) by (apply pow10_le; lia).
  unfold frac_ns.
  assert (Hov : fl_overflow (10 ^ k, 0) = false).
  { unfold fl_overflow. change (0 <? 0) with false. cbn iota. change (2 ^ 0) with 1. rewrite Z.mul_1_r.
    apply Z.leb_gt. assert (10 ^ 9 < 2 ^ 1024) by reflexivity. lia. }
  rewrite Hov.
  assert (Hdiv : 10 ^ p / 10 ^ k = 10 ^ (p - k)).
  { rewrite (pow10_split k p) by lia. apply Z.div_mul. lia. }
  assert (Hmod : 10 ^ p mod 10 ^ k = 0).
  { rewrite (pow10_split k p) by lia. apply Z.mod_mul. lia. }
  rewrite (fl_of_int_small f) by nia.
  rewrite (fl_of_int_small (10 ^ p)) by lia.
  rewrite fl_div_exact by (try lia; rewrite Hdiv; lia).
  rewrite Hdiv. rewrite fl_mul_small by lia.
  unfold fl_floor. change (0 <? 0) with false. cbn iota. change (2 ^ 0) with 1. lia.
Qed.

(* ------------------------------------------------------------------ leadingInt / leadingFraction *)

Lemma two63_div10 : two63 / 10 = 922337203685477580.
Proof. reflexivity. Qed.
Lemma two63m1_div10 : (two63 - 1) / 10 = 922337203685477580.
Proof. reflexivity. Qed.

Lemma leading_int_digits ds : forall x tail,
  0 <= x -> forallb is_digit ds = true -> starts_nondigit tail -> digits_val x ds <= two63 ->
  leading_int x (ds ++ tail) = Some (digits_val x ds, tail).
Proof.
  induction ds as [|c ds IH]; intros x tail Hx Hd Ht Hv.
  - simpl. destruct tail as [|c r]; [reflexivity|]. simpl in Ht. simpl. rewrite Ht. reflexivity.
  - simpl in Hd. apply andb_true_iff in Hd as [Hc Hds].
    pose proof (proj1 (is_digit_spec c) Hc) as Hcr.
    cbn [app leading_int digits_val] in *. rewrite Hc.
    pose proof (digits_val_mono ds (x * 10 + (c - 48)) ltac:(lia) Hds) as Hm.
    rewrite two63_div10. unfold two63 in *.
    replace (x >? 922337203685477580) with false by lia.
    replace (x * 10 + (c - 48) >? 9223372036854775808) with false by lia.
    apply IH; try assumption; lia.
Qed.

Lemma leading_fraction_digits D : forall x k tail,
  0 <= x -> 0 <= k -> forallb is_digit D = true -> starts_nondigit tail ->
  digits_val x D <= 922337203685477580 -> k + Z.of_nat (length D) <= 15 ->
  leading_fraction x (10 ^ k, 0) false (D ++ tail) = (digits_val x D, (10 ^ (k + Z.of_nat (length D)), 0), tail).
Proof.
  induction D as [|c D IH]; intros x k tail Hx Hk Hd Ht Hv Hl.
  - simpl. rewrite Z.add_0_r. destruct tail as [|c r]; [reflexivity|]. simpl in Ht. simpl. rewrite Ht. reflexivity.
  - simpl in Hd. apply andb_true_iff in Hd as [Hc Hds].
    pose proof (proj1 (is_digit_spec c) Hc) as Hcr.
    cbn [app leading_fraction digits_val length] in *. rewrite Hc.
    pose proof (digits_val_mono D (x * 10 + (c - 48)) ltac:(lia) Hds) as Hm.
    rewrite two63m1_div10. unfold two63.
    replace (x >? 922337203685477580) with false by lia.
    replace (x * 10 + (c - 48) >? 9223372036854775808) with false by lia.
    assert (H15 : 10 ^ (k + 1) <= 10 ^ 15) by (apply pow10_le; lia).
    assert (Hpk : 0 < 10 ^ k) by (apply pow10_pos; lia).
    assert (Hk1 : 10 ^ k * 10 = 10 ^ (k + 1)) by (rewrite Z.pow_add_r by lia; reflexivity).
    rewrite fl_mul_small by (rewrite Hk1; assert (10 ^ 15 < 2 ^ 53) by reflexivity; lia).
    rewrite Hk1, IH; try assumption; try lia.
    replace (k + 1 + Z.of_nat (length D)) with (k + Z.of_nat (S (length D))) by lia. reflexivity.
Qed.

(* ------------------------------------------------------------------ fmtFrac *)

(* k digits of r, most significant first *)
Fixpoint padn (k : nat) (r : Z) : list Z :=
  match k with O => [] | S k' => padn k' (r / 10) ++ [48 + r mod 10] end.

(* the digits fmtFrac prints for the fraction r (of p digits): trailing zeros removed *)
Fixpoint fracd (p : nat) (r : Z) : list Z :=
  match p with
  | O => []
  | S p' => if r mod 10 =? 0 then fracd p' (r / 10) else padn (S p') r
  end.

Definition frac_text (p : nat) (r : Z) : list Z := if r =? 0 then [] else 46 :: fracd p r.

Lemma mod_pow10_succ v p : 0 <= v ->
  v mod 10 ^ Z.of_nat (S p) = v mod 10 + 10 * ((v / 10) mod 10 ^ Z.of_nat p).
Proof.
  intros Hv. rewrite pow10_succ. apply Z.rem_mul_r; [lia|]. apply pow10_pos. lia.
Qed.

Lemma div_pow10_succ v p : 0 <= v -> v / 10 ^ Z.of_nat (S p) = v / 10 / 10 ^ Z.of_nat p.
Proof.
  intros Hv. rewrite pow10_succ. rewrite Z.div_div; [reflexivity|lia|]. apply pow10_pos. lia.
Qed.

Lemma div10_add a b : 0 <= a < 10 -> (a + 10 * b) / 10 = b.
Proof.
  intros Ha. replace (a + 10 * b) with (b * 10 + a) by lia. rewrite Z.div_add_l by lia. rewrite Z.div_small by lia. apply Z.add_0_r.
Qed.

Lemma mod10_add a b : 0 <= a < 10 -> (a + 10 * b) mod 10 = a.
Proof.
  intros Ha. replace (a + 10 * b) with (a + b * 10) by lia. rewrite Z.mod_add by lia. apply Z.mod_small. lia.
Qed.

Lemma fmt_frac_print p : forall v acc, 0 <= v ->
  fmt_frac p v true acc = (46 :: padn p (v mod 10 ^ Z.of_nat p) ++ acc, v / 10 ^ Z.of_nat p).
Proof.
  induction p as [|p IH]; intros v acc Hv.
  - simpl. rewrite Z.div_1_r. reflexivity.
  - cbn [fmt_frac orb]. rewrite IH by (apply Z.div_pos; lia).
    rewrite <- div_pow10_succ by lia. f_equal. f_equal.
    cbn [padn]. rewrite (mod_pow10_succ v p Hv).
    pose proof (Z.mod_pos_bound v 10 ltac:(lia)) as Hm.
    rewrite div10_add, mod10_add by lia.
    rewrite <- app_assoc. reflexivity.
Qed.

Lemma fmt_frac_spec p : forall v acc, 0 <= v ->
  fmt_frac p v false acc = (frac_text p (v mod 10 ^ Z.of_nat p) ++ acc, v / 10 ^ Z.of_nat p).
Proof.
  induction p as [|p IH]; intros v acc Hv.
  - simpl. rewrite Z.mod_1_r, Z.div_1_r. reflexivity.
  - cbn [fmt_frac orb]. rewrite (mod_pow10_succ v p Hv), (div_pow10_succ v p Hv).
    pose proof (Z.mod_pos_bound v 10 ltac:(lia)) as Hm.
    pose proof (Z.mod_pos_bound (v / 10) (10 ^ Z.of_nat p) ltac:(apply pow10_pos; lia)) as Hm2.
    set (r' := (v / 10) mod 10 ^ Z.of_nat p) in *.
    assert (Hdiv : (v mod 10 + 10 * r') / 10 = r') by (apply div10_add; lia).
    assert (Hmod : (v mod 10 + 10 * r') mod 10 = v mod 10) by (apply mod10_add; lia).
    destruct (v mod 10 =? 0) eqn:E.
    + apply Z.eqb_eq in E. cbn [negb]. rewrite IH by (apply Z.div_pos; lia). fold r'.
      f_equal. unfold frac_text. rewrite E. cbn [Z.add].
      destruct (r' =? 0) eqn:E2.
      * apply Z.eqb_eq in E2. rewrite E2. reflexivity.
      * apply Z.eqb_neq in E2. replace (10 * r' =? 0) with false by lia.
        cbn [fracd]. replace (10 * r' mod 10) with 0 by (rewrite Z.mul_comm, Z.mod_mul; lia).
        cbn [Z.eqb]. replace (10 * r' / 10) with r' by (rewrite Z.mul_comm, Z.div_mul; lia). reflexivity.
    + apply Z.eqb_neq in E. cbn [negb]. rewrite fmt_frac_print by (apply Z.div_pos; lia). fold r'.
      f_equal. unfold frac_text. replace (v mod 10 + 10 * r' =? 0) with false by lia.
      cbn [fracd padn]. rewrite Hmod, Hdiv. replace (v mod 10 =? 0) with false by lia.
      cbn [app]. rewrite <- app_assoc. reflexivity.
Qed.

Lemma padn_spec k : forall r a, 0 <= r < 10 ^ Z.of_nat k ->
  forallb is_digit (padn k r) = true /\ length (padn k r) = k /\ digits_val a (padn k r) = a * 10 ^ Z.of_nat k + r.
Proof.
  induction k as [|k IH]; intros r a Hr.
  - change (10 ^ Z.of_nat 0) with 1 in *. simpl. repeat split; lia.
  - rewrite pow10_succ in *. cbn [padn].
    pose proof (Z.mod_pos_bound r 10 ltac:(lia)) as Hm.
    destruct (IH (r / 10) a) as (H1 & H2 & H3).
    { split; [apply Z.div_pos; lia|apply Z.div_lt_upper_bound; lia]. }
    rewrite forallb_app, app_length, digits_val_app, H1, H2, H3. cbn [forallb length digits_val].
    repeat split; [|lia|].
    + rewrite andb_true_r. apply is_digit_spec. lia.
    + pose proof (Z.div_mod r 10 ltac:(lia)). lia.
Qed.

(* the printed fraction D of r (0 < r < 10^p): digits, 1 <= |D| <= p, D * 10^(p-|D|) = r *)
Lemma fracd_spec p : forall r, 0 < r < 10 ^ Z.of_nat p ->
  let D := fracd p r in
  forallb is_digit D = true /\ (1 <= length D <= p)%nat /\
  digits_val 0 D * 10 ^ (Z.of_nat p - Z.of_nat (length D)) = r.
Proof.
  induction p as [|p IH]; intros r Hr.
  - change (10 ^ Z.of_nat 0) with 1 in Hr. lia.
  - cbn zeta. cbn [fracd]. destruct (r mod 10 =? 0) eqn:E.
    + apply Z.eqb_eq in E. rewrite pow10_succ in Hr.
      pose proof (Z.div_mod r 10 ltac:(lia)) as Hdm.
      destruct (IH (r / 10)) as (H1 & H2 & H3).
      { split; [|apply Z.div_lt_upper_bound; lia]. apply Z.div_str_pos. lia. }
      cbv zeta in H1, H2, H3. repeat split; try assumption; try lia.
      replace (Z.of_nat (S p) - Z.of_nat (length (fracd p (r / 10))))
        with (Z.succ (Z.of_nat p - Z.of_nat (length (fracd p (r / 10))))) by lia.
      rewrite Z.pow_succ_r by lia. lia.
    + destruct (padn_spec (S p) r 0 ltac:(lia)) as (H1 & H2 & H3).
      rewrite H2. repeat split; try assumption; try lia.
      rewrite H3, Z.sub_diag. change (10 ^ 0) with 1. lia.
Qed.
