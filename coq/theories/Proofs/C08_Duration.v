(* C08 — Duration: unmarshalInternal (marshalInternal d) = d for every d with |d| < 2^63. *)
From Coq Require Import List ZArith Bool Lia.
Require Import MTX.Lib.IntWrap MTX.Lib.Utf8 MTX.Model.C08_Scalars MTX.Proofs.C08_Dec.
Import ListNotations.
Local Open Scope Z_scope.

(* ------------------------------------------------------------------ exact float64 operations *)

Lemma rnd_int n : 0 < n < 2 ^ 53 -> rnd n 1 = (n, 0).
Proof.
  intros Hn. unfold rnd. replace (n <=? 0) with false by lia.
  rewrite Z.mod_1_r, Z.div_1_r. replace (n <? 2 ^ 53) with true by lia. reflexivity.
Qed.

Lemma fl_of_int_small n : 0 < n < 2 ^ 53 -> fl_of_int n = (n, 0).
Proof. apply rnd_int. Qed.

Lemma fl_mul_small a b : 0 < a * b < 2 ^ 53 -> fl_mul (a, 0) (b, 0) = (a * b, 0).
Proof. intros H. unfold fl_mul. rewrite rnd_int by exact H. reflexivity. Qed.

Lemma fl_div_exact a b : 0 < a -> 0 < b -> a mod b = 0 -> a / b < 2 ^ 53 -> fl_div (a, 0) (b, 0) = (a / b, 0).
Proof.
  intros Ha Hb Hm Hq. unfold fl_div. cbn [Z.sub Z.ltb Z.compare Z.opp Z.pow Z.pow_pos Pos.iter Z.mul].
  change (0 - 0 <? 0) with false. cbn iota. change (2 ^ (0 - 0)) with 1. rewrite Z.mul_1_r.
  unfold rnd. replace (a <=? 0) with false by lia. rewrite Hm.
  replace (a / b <? 2 ^ 53) with true by lia. reflexivity.
Qed.

Lemma pow10_pos k : 0 <= k -> 0 < 10 ^ k.
Proof. intros. apply Z.pow_pos_nonneg; lia. Qed.

Lemma pow10_le a b : 0 <= a <= b -> 10 ^ a <= 10 ^ b.
Proof. intros. apply Z.pow_le_mono_r; lia. Qed.

Lemma pow10_split a b : 0 <= a <= b -> 10 ^ b = 10 ^ (b - a) * 10 ^ a.
Proof. intros H. rewrite <- Z.pow_add_r by lia. f_equal. lia. Qed.

(* uint64(float64(f) * (float64(10^p) / 10^k)) = f * 10^(p-k), all operations being exact *)
Lemma frac_ns_exact f p k :
  0 <= k <= p -> p <= 9 -> 0 < f -> f * 10 ^ (p - k) < 10 ^ 9 ->
  frac_ns f (10 ^ p) (10 ^ k, 0) = f * 10 ^ (p - k).
Proof.
  intros Hk Hp Hf Hfr.
  assert (H9 : 10 ^ 9 < 2 ^ 53) by reflexivity.
  assert (Hpk : 0 < 10 ^ k) by (apply pow10_pos; lia).
  assert (Hpp : 0 < 10 ^ p) by (apply pow10_pos; lia).
  assert (Hpq : 0 < 10 ^ (p - k)) by (apply pow10_pos; lia).
  assert (Hp9 : 10 ^ p <= 10 ^ 9) by (apply pow10_le; lia).
  assert (Hk9 : 10 ^ k <= 10 ^ 9) by (apply pow10_le; lia).
  assert (Hq9 : 10 ^ (p - k) <= 10 ^ 9) by (apply pow10_le; lia).
  unfold frac_ns.
  assert (Hov : fl_overflow (10 ^ k, 0) = false).
  { unfold fl_overflow. change (0 <? 0) with false. cbn iota. change (2 ^ 0) with 1. rewrite Z.mul_1_r.
    apply Z.leb_gt. assert (10 ^ 9 < 2 ^ 1024) by reflexivity. lia. }
  rewrite Hov.
  assert (Hdiv : 10 ^ p / 10 ^ k = 10 ^ (p - k)).
  { rewrite (pow10_split k p) by lia. apply Z.div_mul. lia. }
  assert (Hmod : 10 ^ p mod 10 ^ k = 0).
  { rewrite (pow10_split k p) by lia. apply Z.mod_mul. lia. }
  rewrite (fl_of_int_small f) by nia.
  rewrite (fl_of_int_small (10 ^ p)) by lia.
  rewrite fl_div_exact by (try lia; rewrite Hdiv; lia).
  rewrite Hdiv. rewrite fl_mul_small by lia.
  unfold fl_floor. change (0 <? 0) with false. cbn iota. change (2 ^ 0) with 1. lia.
Qed.

(* ------------------------------------------------------------------ leadingInt / leadingFraction *)

Lemma two63_div10 : two63 / 10 = 922337203685477580.
Proof. reflexivity. Qed.
Lemma two63m1_div10 : (two63 - 1) / 10 = 922337203685477580.
Proof. reflexivity. Qed.

Lemma leading_int_digits ds : forall x tail,
  0 <= x -> forallb is_digit ds = true -> starts_nondigit tail -> digits_val x ds <= two63 ->
  leading_int x (ds ++ tail) = Some (digits_val x ds, tail).
Proof.
  induction ds as [|c ds IH]; intros x tail Hx Hd Ht Hv.
  - simpl. destruct tail as [|c r]; [reflexivity|]. simpl in Ht. simpl. rewrite Ht. reflexivity.
  - simpl in Hd. apply andb_true_iff in Hd as [Hc Hds].
    pose proof (proj1 (is_digit_spec c) Hc) as Hcr.
    cbn [app leading_int digits_val] in *. rewrite Hc.
    pose proof (digits_val_mono ds (x * 10 + (c - 48)) ltac:(lia) Hds) as Hm.
    rewrite two63_div10. unfold two63 in *.
    replace (x >? 922337203685477580) with false by lia.
    replace (x * 10 + (c - 48) >? 9223372036854775808) with false by lia.
    apply IH; try assumption; lia.
Qed.

Lemma leading_fraction_digits D : forall x k tail,
  0 <= x -> 0 <= k -> forallb is_digit D = true -> starts_nondigit tail ->
  digits_val x D <= 922337203685477580 -> k + Z.of_nat (length D) <= 15 ->
  leading_fraction x (10 ^ k, 0) false (D ++ tail) = (digits_val x D, (10 ^ (k + Z.of_nat (length D)), 0), tail).
Proof.
  induction D as [|c D IH]; intros x k tail Hx Hk Hd Ht Hv Hl.
  - simpl. rewrite Z.add_0_r. destruct tail as [|c r]; [reflexivity|]. simpl in Ht. simpl. rewrite Ht. reflexivity.
  - simpl in Hd. apply andb_true_iff in Hd as [Hc Hds].
    pose proof (proj1 (is_digit_spec c) Hc) as Hcr.
    cbn [app leading_fraction digits_val length] in *. rewrite Hc.
    pose proof (digits_val_mono D (x * 10 + (c - 48)) ltac:(lia) Hds) as Hm.
    rewrite two63m1_div10. unfold two63.
    replace (x >? 922337203685477580) with false by lia.
    replace (x * 10 + (c - 48) >? 9223372036854775808) with false by lia.
    assert (H15 : 10 ^ (k + 1) <= 10 ^ 15) by (apply pow10_le; lia).
    assert (Hpk : 0 < 10 ^ k) by (apply pow10_pos; lia).
    assert (Hk1 : 10 ^ k * 10 = 10 ^ (k + 1)) by (rewrite Z.pow_add_r by lia; reflexivity).
    rewrite fl_mul_small by (rewrite Hk1; assert (10 ^ 15 < 2 ^ 53) by reflexivity; lia).
    rewrite Hk1, IH; try assumption; try lia.
    replace (k + 1 + Z.of_nat (length D)) with (k + Z.of_nat (S (length D))) by lia. reflexivity.
Qed.

(* ------------------------------------------------------------------ fmtFrac *)

(* k digits of r, most significant first *)
Fixpoint padn (k : nat) (r : Z) : list Z :=
  match k with O => [] | S k' => padn k' (r / 10) ++ [48 + r mod 10] end.

(* the digits fmtFrac prints for the fraction r (of p digits): trailing zeros removed *)
Fixpoint fracd (p : nat) (r : Z) : list Z :=
  match p with
  | O => []
  | S p' => if r mod 10 =? 0 then fracd p' (r / 10) else padn (S p') r
  end.

Definition frac_text (p : nat) (r : Z) : list Z := if r =? 0 then [] else 46 :: fracd p r.

Lemma mod_pow10_succ v p : 0 <= v ->
  v mod 10 ^ Z.of_nat (S p) = v mod 10 + 10 * ((v / 10) mod 10 ^ Z.of_nat p).
Proof.
  intros Hv. rewrite pow10_succ. apply Z.rem_mul_r; [lia|]. apply pow10_pos. lia.
Qed.

Lemma div_pow10_succ v p : 0 <= v -> v / 10 ^ Z.of_nat (S p) = v / 10 / 10 ^ Z.of_nat p.
Proof.
  intros Hv. rewrite pow10_succ. rewrite Z.div_div; [reflexivity|lia|]. apply pow10_pos. lia.
Qed.

Lemma div10_add a b : 0 <= a < 10 -> (a + 10 * b) / 10 = b.
Proof.
  intros Ha. replace (a + 10 * b) with (b * 10 + a) by lia. rewrite Z.div_add_l by lia. rewrite Z.div_small by lia. apply Z.add_0_r.
Qed.

Lemma mod10_add a b : 0 <= a < 10 -> (a + 10 * b) mod 10 = a.
Proof.
  intros Ha. replace (a + 10 * b) with (a + b * 10) by lia. rewrite Z.mod_add by lia. apply Z.mod_small. lia.
Qed.

Lemma fmt_frac_print p : forall v acc, 0 <= v ->
  fmt_frac p v true acc = (46 :: padn p (v mod 10 ^ Z.of_nat p) ++ acc, v / 10 ^ Z.of_nat p).
Proof.
  induction p as [|p IH]; intros v acc Hv.
  - simpl. rewrite Z.div_1_r. reflexivity.
  - cbn [fmt_frac orb]. rewrite IH by (apply Z.div_pos; lia).
    rewrite <- div_pow10_succ by lia. f_equal. f_equal.
    cbn [padn]. rewrite (mod_pow10_succ v p Hv).
    pose proof (Z.mod_pos_bound v 10 ltac:(lia)) as Hm.
    rewrite div10_add, mod10_add by lia.
    rewrite <- app_assoc. reflexivity.
Qed.

Lemma fmt_frac_spec p : forall v acc, 0 <= v ->
  fmt_frac p v false acc = (frac_text p (v mod 10 ^ Z.of_nat p) ++ acc, v / 10 ^ Z.of_nat p).
Proof.
  induction p as [|p IH]; intros v acc Hv.
  - simpl. rewrite Z.mod_1_r, Z.div_1_r. reflexivity.
  - cbn [fmt_frac orb]. rewrite (mod_pow10_succ v p Hv), (div_pow10_succ v p Hv).
    pose proof (Z.mod_pos_bound v 10 ltac:(lia)) as Hm.
    pose proof (Z.mod_pos_bound (v / 10) (10 ^ Z.of_nat p) ltac:(apply pow10_pos; lia)) as Hm2.
    set (r' := (v / 10) mod 10 ^ Z.of_nat p) in *.
    assert (Hdiv : (v mod 10 + 10 * r') / 10 = r') by (apply div10_add; lia).
    assert (Hmod : (v mod 10 + 10 * r') mod 10 = v mod 10) by (apply mod10_add; lia).
    destruct (v mod 10 =? 0) eqn:E.
    + apply Z.eqb_eq in E. cbn [negb]. rewrite IH by (apply Z.div_pos; lia). fold r'.
      f_equal. unfold frac_text. rewrite E. cbn [Z.add].
      destruct (r' =? 0) eqn:E2.
      * apply Z.eqb_eq in E2. rewrite E2. reflexivity.
      * apply Z.eqb_neq in E2. replace (10 * r' =? 0) with false by lia.
        cbn [fracd]. replace (10 * r' mod 10) with 0 by (rewrite Z.mul_comm, Z.mod_mul; lia).
        cbn [Z.eqb]. replace (10 * r' / 10) with r' by (rewrite Z.mul_comm, Z.div_mul; lia). reflexivity.
    + apply Z.eqb_neq in E. cbn [negb]. rewrite fmt_frac_print by (apply Z.div_pos; lia). fold r'.
      f_equal. unfold frac_text. replace (v mod 10 + 10 * r' =? 0) with false by lia.
      cbn [fracd padn]. rewrite Hmod, Hdiv. replace (v mod 10 =? 0) with false by lia.
      cbn [app]. rewrite <- app_assoc. reflexivity.
Qed.

Lemma padn_spec k : forall r a, 0 <= r < 10 ^ Z.of_nat k ->
  forallb is_digit (padn k r) = true /\ length (padn k r) = k /\ digits_val a (padn k r) = a * 10 ^ Z.of_nat k + r.
Proof.
  induction k as [|k IH]; intros r a Hr.
  - change (10 ^ Z.of_nat 0) with 1 in *. simpl. repeat split; lia.
  - rewrite pow10_succ in *. cbn [padn].
    pose proof (Z.mod_pos_bound r 10 ltac:(lia)) as Hm.
    destruct (IH (r / 10) a) as (H1 & H2 & H3).
    { split; [apply Z.div_pos; lia|apply Z.div_lt_upper_bound; lia]. }
    rewrite forallb_app, app_length, digits_val_app, H1, H2, H3. cbn [forallb length digits_val].
    repeat split; [|lia|].
    + rewrite andb_true_r. apply is_digit_spec. lia.
    + pose proof (Z.div_mod r 10 ltac:(lia)). lia.
Qed.

(* the printed fraction D of r (0 < r < 10^p): digits, 1 <= |D| <= p, D * 10^(p-|D|) = r *)
Lemma fracd_spec p : forall r, 0 < r < 10 ^ Z.of_nat p ->
  let D := fracd p r in
  forallb is_digit D = true /\ (1 <= length D <= p)%nat /\
  digits_val 0 D * 10 ^ (Z.of_nat p - Z.of_nat (length D)) = r.
Proof.
  induction p as [|p IH]; intros r Hr.
  - change (10 ^ Z.of_nat 0) with 1 in Hr. lia.
  - cbn zeta. cbn [fracd]. destruct (r mod 10 =? 0) eqn:E.
    + apply Z.eqb_eq in E. rewrite pow10_succ in Hr.
      pose proof (Z.div_mod r 10 ltac:(lia)) as Hdm.
      destruct (IH (r / 10)) as (H1 & H2 & H3).
      { split; [|apply Z.div_lt_upper_bound; lia]. apply Z.div_str_pos. lia. }
      cbv zeta in H1, H2, H3. repeat split; try assumption; try lia.
      replace (Z.of_nat (S p) - Z.of_nat (length (fracd p (r / 10))))
        with (Z.succ (Z.of_nat p - Z.of_nat (length (fracd p (r / 10))))) by lia.
      rewrite Z.pow_succ_r by lia. lia.
    + destruct (padn_spec (S p) r 0 ltac:(lia)) as (H1 & H2 & H3).
      rewrite H2. repeat split; try assumption; try lia.
      rewrite H3, Z.sub_diag. change (10 ^ 0) with 1. lia.
Qed.

(* ------------------------------------------------------------------ one segment of ParseDuration *)

Lemma strip_char_hit k t : strip_char k (k :: t) = Some t.
Proof. unfold strip_char. rewrite Z.eqb_refl. reflexivity. Qed.

Lemma strip_char_miss k c t : c <> k -> strip_char k (c :: t) = None.
Proof. intros H. unfold strip_char. replace (c =? k) with false by lia. reflexivity. Qed.

Definition unit_ok (U : list Z) : Prop := U <> [] /\ forallb (fun c => negb (num_char c)) U = true.
Definition rest_ok (rest : list Z) : Prop := match rest with [] => True | c :: _ => num_char c = true end.

Lemma len_dec_pos v : (1 <= length (dec v))%nat.
Proof. pose proof (dec_nonempty v). destruct (dec v); [congruence|simpl; lia]. Qed.

Lemma neqb_len_app (a b : list Z) : (1 <= length a)%nat -> Nat.eqb (length (a ++ b)) (length b) = false.
Proof. intros H. apply Nat.eqb_neq. rewrite app_length. lia. Qed.

Lemma unit_head U : unit_ok U -> exists u0 U', U = u0 :: U' /\ num_char u0 = false.
Proof.
  intros [Hne Hall]. destruct U as [|u0 U']; [congruence|]. exists u0, U'. split; [reflexivity|].
  simpl in Hall. apply andb_true_iff in Hall as [H _]. apply negb_true_iff in H. exact H.
Qed.

Lemma num_char_false c : num_char c = false -> c <> 46 /\ is_digit c = false.
Proof. unfold num_char. intros H. apply orb_false_iff in H as [H1 H2]. split; [lia|exact H2]. Qed.

Lemma span_unit U rest : unit_ok U -> rest_ok rest ->
  span (fun c => negb (num_char c)) (U ++ rest) = (U, rest).
Proof.
  intros [_ Hall] Hr. apply span_all; [exact Hall|]. destruct rest as [|c r]; [exact I|].
  simpl in Hr. rewrite Hr. reflexivity.
Qed.

Lemma wrapu64_small z : 0 <= z < two64 -> wrapu64 z = z.
Proof. intros. unfold wrapu64. apply Z.mod_small. lia. Qed.

(* a segment without fraction *)
Lemma seg_plain fuel d v U unit rest :
  0 <= d -> 0 <= v -> dec_range v -> unit_ok U -> unit_of U = Some unit -> 0 < unit -> rest_ok rest ->
  d + v * unit <= two63 ->
  pd_loop (S fuel) d (dec v ++ U ++ rest) = pd_loop fuel (d + v * unit) rest.
Proof.
  intros Hd Hv Hr HU Hunit Hup Hrest Hsum.
  destruct (unit_head U HU) as (u0 & U' & EU & Hu0). destruct (num_char_false u0 Hu0) as [Hu46 Hudig].
  destruct (dec_head v Hr) as (c0 & r0 & Edec & Hc0 & _).
  assert (Hnc : num_char c0 = true).
  { unfold num_char. replace (is_digit c0) with true by (symmetry; apply is_digit_spec; exact Hc0). apply orb_true_r. }
  assert (Hvu : v * unit <= two63) by lia.
  assert (Hvle : v <= two63 / unit) by (apply Z.div_le_lower_bound; lia).
  assert (Hli : leading_int 0 (dec v ++ U ++ rest) = Some (v, U ++ rest)).
  { rewrite leading_int_digits; [rewrite (dec_val v Hr); reflexivity|lia|apply dec_digits, Hr| |rewrite (dec_val v Hr)].
    - rewrite EU. simpl. exact Hudig.
    - assert (0 < unit) by lia. nia. }
  remember (dec v ++ U ++ rest) as s eqn:Es.
  assert (Es' : s = c0 :: (r0 ++ U ++ rest)) by (rewrite Es, Edec; reflexivity).
  rewrite Es' at 1. cbn [pd_loop]. rewrite Hnc. cbn [negb]. rewrite <- Es'. rewrite Hli.
  clear Es'. subst s. rewrite (neqb_len_app (dec v) (U ++ rest) (len_dec_pos v)).
  rewrite EU at 1. cbn [app]. rewrite (strip_char_miss 46 u0 _ Hu46).
  cbn [negb andb].
  rewrite (span_unit U rest HU Hrest). rewrite EU at 1. rewrite Hunit.
  replace (v >? two63 / unit) with false by lia.
  change (0 >? 0) with false. cbn [andb]. cbn iota.
  unfold two63, two64 in *. rewrite wrapu64_small by (unfold two64; lia).
  replace (d + v * unit >? 9223372036854775808) with false by lia. reflexivity.
Qed.

(* a segment with the fraction r of p digits, unit 10^p *)
Lemma seg_frac fuel d v (p : nat) r U rest :
  0 <= d -> 0 <= v -> dec_range v -> (p <= 9)%nat -> 0 <= r < 10 ^ Z.of_nat p ->
  unit_ok U -> unit_of U = Some (10 ^ Z.of_nat p) -> rest_ok rest ->
  d + v * 10 ^ Z.of_nat p + r <= two63 ->
  pd_loop (S fuel) d (dec v ++ frac_text p r ++ U ++ rest) = pd_loop fuel (d + v * 10 ^ Z.of_nat p + r) rest.
Proof.
  intros Hd Hv Hr Hp Hrr HU Hunit Hrest Hsum.
  assert (Hup : 0 < 10 ^ Z.of_nat p) by (apply pow10_pos; lia).
  unfold frac_text. destruct (r =? 0) eqn:Er0.
  { apply Z.eqb_eq in Er0. subst r. cbn [app]. rewrite Z.add_0_r.
    apply seg_plain; try assumption. lia. }
  apply Z.eqb_neq in Er0.
  destruct (fracd_spec p r ltac:(lia)) as (HDd & HDl & HDv). cbv zeta in HDd, HDl, HDv.
  set (D := fracd p r) in *.
  set (k := Z.of_nat (length D)) in *.
  assert (Hk : 1 <= k <= Z.of_nat p) by (unfold k; lia).
  set (f := digits_val 0 D) in *.
  assert (Hq : 0 < 10 ^ (Z.of_nat p - k)) by (apply pow10_pos; lia).
  assert (Hf : 0 < f) by nia.
  assert (Hp9 : 10 ^ Z.of_nat p <= 10 ^ 9) by (apply pow10_le; lia).
  destruct (unit_head U HU) as (u0 & U' & EU & Hu0). destruct (num_char_false u0 Hu0) as [Hu46 Hudig].
  destruct (dec_head v Hr) as (c0 & r0 & Edec & Hc0 & _).
  assert (Hnc : num_char c0 = true).
  { unfold num_char. replace (is_digit c0) with true by (symmetry; apply is_digit_spec; exact Hc0). apply orb_true_r. }
  set (unit := 10 ^ Z.of_nat p) in *.
  assert (Hvu : v * unit <= two63) by lia.
  assert (Hvle : v <= two63 / unit) by (apply Z.div_le_lower_bound; lia).
  assert (Hli : leading_int 0 (dec v ++ (46 :: D) ++ U ++ rest) = Some (v, (46 :: D) ++ U ++ rest)).
  { rewrite leading_int_digits; [rewrite (dec_val v Hr); reflexivity|lia|apply dec_digits, Hr| |rewrite (dec_val v Hr)].
    - simpl. reflexivity.
    - nia. }
  assert (Hlf : leading_fraction 0 (1, 0) false (D ++ U ++ rest) = (f, (10 ^ k, 0), U ++ rest)).
  { assert (HsnD : starts_nondigit (U ++ rest)) by (rewrite EU; simpl; exact Hudig).
    assert (HfD : digits_val 0 D <= 922337203685477580).
    { fold f. assert (10 ^ 9 < 922337203685477580) by reflexivity. assert (f <= r) by nia. lia. }
    change (1, 0) with (10 ^ 0, 0). rewrite leading_fraction_digits by (try assumption; lia). reflexivity. }
  assert (Hfrac : frac_ns f unit (10 ^ k, 0) = r).
  { unfold unit. rewrite frac_ns_exact; try lia. }
  remember (dec v ++ (46 :: D) ++ U ++ rest) as s eqn:Es.
  assert (Es' : s = c0 :: (r0 ++ (46 :: D) ++ U ++ rest)) by (rewrite Es, Edec; reflexivity).
  rewrite Es' at 1. cbn [pd_loop]. rewrite Hnc. cbn [negb]. rewrite <- Es'. rewrite Hli.
  clear Es'. subst s. rewrite (neqb_len_app (dec v) _ (len_dec_pos v)).
  cbn [app]. rewrite strip_char_hit. rewrite Hlf.
  rewrite (neqb_len_app D (U ++ rest)) by lia.
  cbn [negb andb]. rewrite (span_unit U rest HU Hrest). rewrite EU at 1. rewrite Hunit. fold unit.
  replace (v >? two63 / unit) with false by lia.
  replace (f >? 0) with true by lia. rewrite Hfrac.
  unfold two63, two64 in *. rewrite wrapu64_small by (unfold two64; lia).
  replace (v * unit + r >? 9223372036854775808) with false by lia. cbn [andb]. cbn iota.
  rewrite wrapu64_small by (unfold two64; lia).
  replace (d + (v * unit + r) >? 9223372036854775808) with false by lia.
  f_equal. lia.
Qed.

(* ------------------------------------------------------------------ the text of Duration.String *)

Definition txt_ns := [110; 115].
Definition txt_us := [194; 181; 115].
Definition txt_ms := [109; 115].
Definition txt_s := [115].
Definition txt_m := [109].
Definition txt_h := [104].

Lemma fmt_ns u : 0 < u < 1000 -> dur_format_u u = dec u ++ txt_ns.
Proof.
  intros H. unfold dur_format_u, t_second. replace (u <? 1000000000) with true by lia.
  replace (u =? 0) with false by lia. replace (u <? 1000) with true by lia. reflexivity.
Qed.

Lemma fmt_us u : 1000 <= u < 1000000 ->
  dur_format_u u = dec (u / 1000) ++ frac_text 3 (u mod 1000) ++ txt_us.
Proof.
  intros H. unfold dur_format_u, t_second. replace (u <? 1000000000) with true by lia.
  replace (u =? 0) with false by lia. replace (u <? 1000) with false by lia.
  replace (u <? 1000000) with true by lia. rewrite fmt_frac_spec by lia.
  change (10 ^ Z.of_nat 3) with 1000. reflexivity.
Qed.

Lemma fmt_ms u : 1000000 <= u < 1000000000 ->
  dur_format_u u = dec (u / 1000000) ++ frac_text 6 (u mod 1000000) ++ txt_ms.
Proof.
  intros H. unfold dur_format_u, t_second. replace (u <? 1000000000) with true by lia.
  replace (u =? 0) with false by lia. replace (u <? 1000) with false by lia.
  replace (u <? 1000000) with false by lia. rewrite fmt_frac_spec by lia.
  change (10 ^ Z.of_nat 6) with 1000000. reflexivity.
Qed.

Definition sec_text (u : Z) : list Z :=
  dec (u / 1000000000 mod 60) ++ frac_text 9 (u mod 1000000000) ++ txt_s.

Lemma fmt_sec u : 1000000000 <= u ->
  dur_format_u u =
  let u2 := u / 1000000000 / 60 in
  let u3 := u2 / 60 in
  if u2 >? 0 then
    if u3 >? 0 then dec u3 ++ txt_h ++ dec (u2 mod 60) ++ txt_m ++ sec_text u
    else dec (u2 mod 60) ++ txt_m ++ sec_text u
  else sec_text u.
Proof.
  intros H. unfold dur_format_u, t_second. replace (u <? 1000000000) with false by lia.
  rewrite fmt_frac_spec by lia. change (10 ^ Z.of_nat 9) with 1000000000.
  cbv zeta. unfold fmt_int, sec_text, txt_s, txt_m, txt_h.
  destruct (u / 1000000000 / 60 >? 0); [|reflexivity].
  destruct (u / 1000000000 / 60 / 60 >? 0); cbn [app]; reflexivity.
Qed.

(* ------------------------------------------------------------------ ParseDuration (String u) = u *)

Lemma unit_ok_ns : unit_ok txt_ns. Proof. split; [discriminate|reflexivity]. Qed.
Lemma unit_ok_us : unit_ok txt_us. Proof. split; [discriminate|reflexivity]. Qed.
Lemma unit_ok_ms : unit_ok txt_ms. Proof. split; [discriminate|reflexivity]. Qed.
Lemma unit_ok_s : unit_ok txt_s. Proof. split; [discriminate|reflexivity]. Qed.
Lemma unit_ok_m : unit_ok txt_m. Proof. split; [discriminate|reflexivity]. Qed.
Lemma unit_ok_h : unit_ok txt_h. Proof. split; [discriminate|reflexivity]. Qed.

Lemma pd_loop_nil fuel d : pd_loop fuel d [] = Some d.
Proof. destruct fuel; reflexivity. Qed.

Lemma rest_ok_dec v t : dec_range v -> rest_ok (dec v ++ t).
Proof.
  intros Hr. destruct (dec_head v Hr) as (c & r & E & Hc & _). rewrite E. simpl.
  unfold num_char. replace (is_digit c) with true by (symmetry; apply is_digit_spec; exact Hc). apply orb_true_r.
Qed.

Lemma dr n : 0 <= n <= two64 -> dec_range n.
Proof. apply dec_range_u64. Qed.

(* number of segments of the text *)
Definition segs (u : Z) : nat :=
  if u <? 60000000000 then 1 else if u <? 3600000000000 then 2 else 3.

Ltac pw := change (10 ^ Z.of_nat 3) with 1000 in *; change (10 ^ Z.of_nat 6) with 1000000 in *;
           change (10 ^ Z.of_nat 9) with 1000000000 in *.
Ltac side :=
  first [ assumption | exact I | apply unit_ok_ns | apply unit_ok_us | apply unit_ok_ms | apply unit_ok_s
        | apply unit_ok_m | apply unit_ok_h | (apply dr; unfold two64; lia)
        | (apply rest_ok_dec, dr; unfold two64; lia)
        | (unfold sec_text; apply rest_ok_dec, dr; unfold two64; lia)
        | reflexivity
        | (pw; unfold two63, two64, t_hour, t_minute in *; lia) ].

Lemma pd_format fuel u : 0 < u < two63 -> (segs u <= fuel)%nat -> pd_loop fuel 0 (dur_format_u u) = Some u.
Proof.
  intros Hu Hf. unfold two63 in Hu.
  assert (Hseg1 : exists f1, fuel = S f1).
  { unfold segs in Hf. destruct fuel; [|eauto]. destruct (u <? 60000000000); [lia|]. destruct (u <? 3600000000000); lia. }
  destruct Hseg1 as [f1 ->].
  destruct (Z.ltb_spec u 1000) as [H1|H1].
  { rewrite fmt_ns by lia. rewrite <- (app_nil_r txt_ns).
    rewrite (seg_plain f1 0 u txt_ns 1 []) by side.
    rewrite pd_loop_nil. f_equal. lia. }
  destruct (Z.ltb_spec u 1000000) as [H2|H2].
  { rewrite fmt_us by lia. pose proof (Z.div_mod u 1000 ltac:(lia)) as Hdm.
    pose proof (Z.mod_pos_bound u 1000 ltac:(lia)) as Hmb.
    assert (0 <= u / 1000) by (apply Z.div_pos; lia).
    rewrite <- (app_nil_r txt_us).
    rewrite (seg_frac f1 0 (u / 1000) 3 (u mod 1000) txt_us []) by side.
    rewrite pd_loop_nil. pw. f_equal. lia. }
  destruct (Z.ltb_spec u 1000000000) as [H3|H3].
  { rewrite fmt_ms by lia. pose proof (Z.div_mod u 1000000 ltac:(lia)) as Hdm.
    pose proof (Z.mod_pos_bound u 1000000 ltac:(lia)) as Hmb.
    assert (0 <= u / 1000000) by (apply Z.div_pos; lia).
    rewrite <- (app_nil_r txt_ms).
    rewrite (seg_frac f1 0 (u / 1000000) 6 (u mod 1000000) txt_ms []) by side.
    rewrite pd_loop_nil. pw. f_equal. lia. }
  (* one second and more *)
  rewrite fmt_sec by lia. cbv zeta.
  set (u1 := u / 1000000000). set (r := u mod 1000000000).
  set (u2 := u1 / 60). set (sec := u1 mod 60). set (u3 := u2 / 60). set (mn := u2 mod 60).
  pose proof (Z.div_mod u 1000000000 ltac:(lia)) as Hd1. fold u1 r in Hd1.
  pose proof (Z.mod_pos_bound u 1000000000 ltac:(lia)) as Hb1. fold r in Hb1.
  pose proof (Z.div_mod u1 60 ltac:(lia)) as Hd2. fold u2 sec in Hd2.
  pose proof (Z.mod_pos_bound u1 60 ltac:(lia)) as Hb2. fold sec in Hb2.
  pose proof (Z.div_mod u2 60 ltac:(lia)) as Hd3. fold u3 mn in Hd3.
  pose proof (Z.mod_pos_bound u2 60 ltac:(lia)) as Hb3. fold mn in Hb3.
  assert (Hu1 : 0 <= u1) by (apply Z.div_pos; lia).
  assert (Hu2 : 0 <= u2) by (apply Z.div_pos; lia).
  assert (Hu3 : 0 <= u3) by (apply Z.div_pos; lia).
  assert (Hsecseg : forall f d, 0 <= d -> d + sec * 1000000000 + r <= 9223372036854775808 ->
            pd_loop (S f) d (sec_text u) = Some (d + sec * 1000000000 + r)).
  { intros f d Hd Hs. unfold sec_text. fold u1 sec r. rewrite <- (app_nil_r txt_s).
    rewrite (seg_frac f d sec 9 r txt_s []) by side.
    rewrite pd_loop_nil. reflexivity. }
  assert (Hrs : rest_ok (sec_text u)).
  { unfold sec_text. fold u1 sec. apply rest_ok_dec, dr. unfold two64. lia. }
  destruct (u2 >? 0) eqn:E2.
  2:{ rewrite Hsecseg by lia. f_equal. lia. }
  assert (Hge2 : 60000000000 <= u) by lia.
  destruct (u3 >? 0) eqn:E3.
  - assert (Hge3 : 3600000000000 <= u) by lia.
    assert (Hf3 : exists f3, f1 = S (S f3)).
    { unfold segs in Hf. replace (u <? 60000000000) with false in Hf by lia.
      replace (u <? 3600000000000) with false in Hf by lia. destruct f1 as [|[|f3]]; try lia. eauto. }
    destruct Hf3 as [f3 ->].
    rewrite (seg_plain (S (S f3)) 0 u3 txt_h t_hour) by side.
    rewrite (seg_plain (S f3) (0 + u3 * t_hour) mn txt_m t_minute) by side.
    rewrite Hsecseg by (unfold t_hour, t_minute; lia). f_equal. unfold t_hour, t_minute. lia.
  - assert (Hf2 : exists f2, f1 = S f2).
    { unfold segs in Hf. replace (u <? 60000000000) with false in Hf by lia.
      destruct (u <? 3600000000000); destruct f1; try lia; eauto. }
    destruct Hf2 as [f2 ->].
    rewrite (seg_plain (S f2) 0 mn txt_m t_minute) by side.
    rewrite Hsecseg by (unfold t_minute; lia). f_equal. unfold t_minute. lia.
Qed.

(* ------------------------------------------------------------------ shape of the text *)

(* what follows the first number: '.', or the first byte of a unit; never a digit, never 'd' *)
Definition tail_ok (t : list Z) : Prop :=
  exists c r, t = c :: r /\ is_digit c = false /\ c <> 100.

Lemma tail_ok_frac p r U t : (exists c U', U = c :: U' /\ is_digit c = false /\ c <> 100) ->
  tail_ok (frac_text p r ++ U ++ t).
Proof.
  intros (c & U' & -> & Hc & Hc100). unfold frac_text. destruct (r =? 0).
  - exists c, (U' ++ t). repeat split; assumption.
  - exists 46, (fracd p r ++ (c :: U') ++ t). repeat split; try reflexivity; lia.
Qed.

Lemma format_shape u : 0 < u < two63 ->
  exists x t, dur_format_u u = dec x ++ t /\ dec_range x /\ tail_ok t.
Proof.
  intros Hu. unfold two63 in Hu.
  destruct (Z.ltb_spec u 1000) as [H1|H1].
  { rewrite fmt_ns by lia. exists u, txt_ns. split; [reflexivity|]. split; [apply dr; unfold two64; lia|].
    exists 110, [115]. repeat split; try reflexivity; lia. }
  destruct (Z.ltb_spec u 1000000) as [H2|H2].
  { rewrite fmt_us by lia. assert (0 <= u / 1000 <= u) by (split; [apply Z.div_pos|apply Z.div_le_upper_bound]; lia).
    exists (u / 1000), (frac_text 3 (u mod 1000) ++ txt_us). split; [reflexivity|]. split; [apply dr; unfold two64; lia|].
    rewrite <- (app_nil_r txt_us). apply tail_ok_frac. exists 194, [181; 115]. repeat split; try reflexivity; lia. }
  destruct (Z.ltb_spec u 1000000000) as [H3|H3].
  { rewrite fmt_ms by lia. assert (0 <= u / 1000000 <= u) by (split; [apply Z.div_pos|apply Z.div_le_upper_bound]; lia).
    exists (u / 1000000), (frac_text 6 (u mod 1000000) ++ txt_ms). split; [reflexivity|]. split; [apply dr; unfold two64; lia|].
    rewrite <- (app_nil_r txt_ms). apply tail_ok_frac. exists 109, [115]. repeat split; try reflexivity; lia. }
  rewrite fmt_sec by lia. cbv zeta.
  set (u1 := u / 1000000000). set (u2 := u1 / 60). set (u3 := u2 / 60).
  assert (Hu1 : 0 <= u1 <= u) by (split; [apply Z.div_pos|apply Z.div_le_upper_bound]; lia).
  assert (Hu2 : 0 <= u2 <= u) by (split; [apply Z.div_pos|apply Z.div_le_upper_bound]; lia).
  assert (Hu3 : 0 <= u3 <= u) by (split; [apply Z.div_pos|apply Z.div_le_upper_bound]; lia).
  pose proof (Z.mod_pos_bound u1 60 ltac:(lia)) as Hb2. pose proof (Z.mod_pos_bound u2 60 ltac:(lia)) as Hb3.
  assert (Hsec : exists x t, sec_text u = dec x ++ t /\ dec_range x /\ tail_ok t).
  { unfold sec_text. fold u1. exists (u1 mod 60), (frac_text 9 (u mod 1000000000) ++ txt_s).
    split; [reflexivity|]. split; [apply dr; unfold two64; lia|].
    rewrite <- (app_nil_r txt_s). apply tail_ok_frac. exists 115, []. repeat split; try reflexivity; lia. }
  destruct (u2 >? 0); [|exact Hsec].
  destruct (u3 >? 0).
  - exists u3, (txt_h ++ dec (u2 mod 60) ++ txt_m ++ sec_text u). split; [reflexivity|]. split; [apply dr; unfold two64; lia|].
    exists 104, (dec (u2 mod 60) ++ txt_m ++ sec_text u). repeat split; try reflexivity; lia.
  - exists (u2 mod 60), (txt_m ++ sec_text u). split; [reflexivity|]. split; [apply dr; unfold two64; lia|].
    exists 109, (sec_text u). repeat split; try reflexivity; lia.
Qed.

Lemma segs_le_length u : 0 < u < two63 -> (segs u <= length (dur_format_u u))%nat.
Proof.
  intros Hu. unfold two63 in Hu. unfold segs.
  destruct (Z.ltb_spec u 60000000000) as [H1|H1].
  { destruct (format_shape u) as (x & t & E & _ & _); [unfold two63; lia|].
    rewrite E, app_length. pose proof (len_dec_pos x). lia. }
  rewrite fmt_sec by lia. cbv zeta.
  set (u1 := u / 1000000000). set (u2 := u1 / 60). set (u3 := u2 / 60).
  assert (H60 : 60 <= u1) by (apply Z.div_le_lower_bound; lia).
  assert (H1' : 1 <= u2) by (apply Z.div_le_lower_bound; lia).
  replace (u2 >? 0) with true by lia.
  destruct (Z.ltb_spec u 3600000000000) as [H2|H2].
  - destruct (u3 >? 0); rewrite !app_length; pose proof (len_dec_pos (u2 mod 60));
      unfold sec_text; rewrite !app_length; pose proof (len_dec_pos (u / 1000000000 mod 60)); simpl; lia.
  - assert (H3600 : 3600 <= u1) by (apply Z.div_le_lower_bound; lia).
    assert (H60' : 60 <= u2) by (apply Z.div_le_lower_bound; lia).
    assert (H1'' : 1 <= u3) by (apply Z.div_le_lower_bound; lia).
    replace (u3 >? 0) with true by lia.
    rewrite !app_length. pose proof (len_dec_pos u3). pose proof (len_dec_pos (u2 mod 60)).
    unfold sec_text; rewrite !app_length; pose proof (len_dec_pos (u / 1000000000 mod 60)); simpl; lia.
Qed.

(* ------------------------------------------------------------------ ParseDuration on the whole text *)

Lemma strip_digit_head k x t : dec_range x -> k < 48 -> strip_char k (dec x ++ t) = None.
Proof.
  intros Hr Hk. destruct (dec_head x Hr) as (c & r & E & Hc & _). rewrite E. cbn [app].
  apply strip_char_miss. lia.
Qed.

Lemma strip_digit_head0 k x : dec_range x -> k < 48 -> strip_char k (dec x) = None.
Proof. intros Hr Hk. rewrite <- (app_nil_r (dec x)). apply strip_digit_head; assumption. Qed.

Lemma not_zero_text x t : tail_ok t -> str_eqb (dec x ++ t) [48] = false.
Proof.
  intros (c & r & -> & _). destruct (str_eqb (dec x ++ c :: r) [48]) eqn:E; [|reflexivity].
  apply list_eqb_eq in E. apply (f_equal (@length Z)) in E. rewrite app_length in E.
  pose proof (len_dec_pos x). simpl in E. lia.
Qed.

Lemma parse_duration_pos s :
  strip_char 45 s = None -> strip_char 43 s = None -> str_eqb s [48] = false -> s <> [] ->
  parse_duration s =
  match pd_loop (length s) 0 s with None => None | Some d => if d >? two63 - 1 then None else Some d end.
Proof.
  intros H1 H2 H3 H4. unfold parse_duration. rewrite H1, H2, H3. destruct s; [congruence|reflexivity].
Qed.

Lemma parse_duration_neg s :
  str_eqb s [48] = false -> s <> [] ->
  parse_duration (45 :: s) = match pd_loop (length s) 0 s with None => None | Some d => Some (- d) end.
Proof.
  intros H3 H4. unfold parse_duration. rewrite strip_char_hit, H3. destruct s; [congruence|reflexivity].
Qed.

Lemma parse_duration_format u : 0 < u < two63 ->
  parse_duration (dur_format_u u) = Some u /\ parse_duration (45 :: dur_format_u u) = Some (- u).
Proof.
  intros Hu. pose proof (pd_format (length (dur_format_u u)) u Hu (segs_le_length u Hu)) as Hpd.
  destruct (format_shape u Hu) as (x & t & E & Hr & Ht).
  assert (Hne : dur_format_u u <> []).
  { destruct (dec_head x Hr) as (c & r & Ed & _). rewrite E, Ed. discriminate. }
  assert (H45 : strip_char 45 (dur_format_u u) = None) by (rewrite E; apply strip_digit_head; [assumption|lia]).
  assert (H43 : strip_char 43 (dur_format_u u) = None) by (rewrite E; apply strip_digit_head; [assumption|lia]).
  assert (H0 : str_eqb (dur_format_u u) [48] = false) by (rewrite E; apply not_zero_text, Ht).
  split.
  - rewrite parse_duration_pos by assumption. rewrite Hpd.
    unfold two63 in *. replace (u >? 9223372036854775808 - 1) with false by lia. reflexivity.
  - rewrite parse_duration_neg by assumption. rewrite Hpd. reflexivity.
Qed.

(* ------------------------------------------------------------------ the days prefix *)

Lemma re_days_none x t : dec_range x -> tail_ok t ->
  re_days (dec x ++ t) = None /\ re_days (45 :: dec x ++ t) = None.
Proof.
  intros Hr (c & r & -> & Hc & Hc100).
  assert (Hsp : span is_digit (dec x ++ c :: r) = (dec x, c :: r)).
  { apply span_digits; [apply dec_digits, Hr|exact Hc]. }
  pose proof (dec_nonempty x) as Hne.
  split; unfold re_days.
  - rewrite strip_digit_head by (try assumption; lia). rewrite Hsp.
    destruct (dec x) as [|? ?]; [congruence|]. rewrite strip_char_miss by exact Hc100. reflexivity.
  - rewrite strip_char_hit, Hsp.
    destruct (dec x) as [|? ?]; [congruence|]. rewrite strip_char_miss by exact Hc100. reflexivity.
Qed.

Lemma re_days_hit (neg : bool) days body : dec_range days ->
  re_days ((if neg then [45] else []) ++ (dec days ++ [100]) ++ body) =
  Some ((if neg then [45] else []) ++ dec days, body).
Proof.
  intros Hr.
  assert (Hsp : span is_digit (dec days ++ 100 :: body) = (dec days, 100 :: body)).
  { apply span_digits; [apply dec_digits, Hr|reflexivity]. }
  pose proof (dec_nonempty days) as Hne.
  rewrite <- app_assoc. cbn [app]. unfold re_days. destruct neg; cbn [app].
  - rewrite strip_char_hit, Hsp. destruct (dec days) as [|? ?]; [congruence|]. rewrite strip_char_hit. reflexivity.
  - rewrite strip_digit_head by (try assumption; lia). rewrite Hsp.
    destruct (dec days) as [|? ?]; [congruence|]. rewrite strip_char_hit. reflexivity.
Qed.

Lemma parse_int_clamp_dec (neg : bool) days : 0 <= days < two63 ->
  parse_int_clamp ((if neg then [45] else []) ++ dec days) = if neg then - days else days.
Proof.
  intros Hd. assert (Hr : dec_range days) by (apply dr; unfold two63, two64 in *; lia).
  unfold parse_int_clamp. destruct neg; cbn [app].
  - rewrite strip_char_hit, (dec_val days Hr). replace (days >? two63) with false by lia. reflexivity.
  - rewrite strip_digit_head0 by (try assumption; lia).
    rewrite (dec_val days Hr). replace (days >? two63 - 1) with false by lia. reflexivity.
Qed.

(* ------------------------------------------------------------------ the round trip *)

Definition mag_text (neg : bool) (a : Z) : list Z :=
  (if neg then [45] else []) ++
  (if a / t_day >? 0 then dec (a / t_day) ++ [100] else []) ++
  (if a mod t_day =? 0 then [] else dur_format_u (a mod t_day)).

Lemma unmarshal_mag (neg : bool) a : 0 <= a < two63 -> (neg = true -> 0 < a) ->
  dur_unmarshal (mag_text neg a) = Some (if neg then - a else a).
Proof.
  intros Ha Hneg. unfold mag_text.
  pose proof (Z.div_mod a t_day ltac:(unfold t_day; lia)) as Hdm.
  pose proof (Z.mod_pos_bound a t_day ltac:(unfold t_day; lia)) as Hmb.
  assert (Hdays : 0 <= a / t_day) by (apply Z.div_pos; unfold t_day; lia).
  remember (a / t_day) as days eqn:Edays. remember (a mod t_day) as nd eqn:End.
  assert (Hday24 : days * 24 * t_hour = days * t_day) by (unfold t_hour, t_day; lia).
  assert (Hdr : 0 <= days < two63) by (unfold two63, t_day in *; nia).
  assert (Hbody : (if nd =? 0 then [] else dur_format_u nd) = [] /\ nd = 0 \/
                  (if nd =? 0 then [] else dur_format_u nd) = dur_format_u nd /\ 0 < nd).
  { destruct (nd =? 0) eqn:E; [left; split; [reflexivity|lia]|right; split; [reflexivity|lia]]. }
  unfold dur_unmarshal.
  destruct (days >? 0) eqn:Ed.
  - (* with a days prefix *)
    rewrite re_days_hit by (apply dr; unfold two63, two64 in *; lia).
    rewrite parse_int_clamp_dec by exact Hdr.
    assert (Hfin : forall ndv, ndv = nd ->
      Some (if neg then wrap64 (- wrap64 (ndv + wrap64 (days * 24 * t_hour))) else wrap64 (ndv + wrap64 (days * 24 * t_hour)))
      = Some (if neg then - a else a)).
    { intros ndv ->. rewrite Hday24. unfold two63, t_day in *.
      rewrite (wrap64_id (days * 86400000000000)) by (unfold in_int64, two63; lia).
      rewrite (wrap64_id (nd + days * 86400000000000)) by (unfold in_int64, two63; lia).
      destruct neg; [rewrite wrap64_id by (unfold in_int64, two63; lia)|]; f_equal; lia. }
    destruct neg.
    + replace (- days <? 0) with true by lia. replace (wrap64 (- - days)) with days
        by (rewrite Z.opp_involutive, wrap64_id; [reflexivity|unfold in_int64; unfold two63 in *; lia]).
      destruct Hbody as [[-> Hz]|[-> Hp]].
      * apply (Hfin 0). lia.
      * destruct (parse_duration_format nd) as [Hpd _]; [unfold two63, t_day in *; lia|].
        destruct (dur_format_u nd) eqn:Ef.
        { destruct (format_shape nd) as (x & t & E & _ & _); [unfold two63, t_day in *; lia|].
          rewrite Ef in E. pose proof (dec_nonempty x). destruct (dec x); [congruence|discriminate]. }
        rewrite Hpd. apply (Hfin nd). reflexivity.
    + replace (days <? 0) with false by lia.
      destruct Hbody as [[-> Hz]|[-> Hp]].
      * apply (Hfin 0). lia.
      * destruct (parse_duration_format nd) as [Hpd _]; [unfold two63, t_day in *; lia|].
        destruct (dur_format_u nd) eqn:Ef.
        { destruct (format_shape nd) as (x & t & E & _ & _); [unfold two63, t_day in *; lia|].
          rewrite Ef in E. pose proof (dec_nonempty x). destruct (dec x); [congruence|discriminate]. }
        rewrite Hpd. apply (Hfin nd). reflexivity.
  - (* less than one day: a = nd *)
    assert (Hd0 : days = 0) by lia. assert (Hand : a = nd) by lia.
    cbn [app]. destruct Hbody as [[-> Hz]|[-> Hp]].
    + (* zero *)
      assert (Ha0 : a = 0) by lia. destruct neg; [specialize (Hneg eq_refl); lia|].
      rewrite Ha0. reflexivity.
    + destruct (format_shape nd) as (x & t & E & Hr & Ht); [unfold two63 in *; lia|].
      destruct (re_days_none x t Hr Ht) as [Hn1 Hn2].
      destruct (parse_duration_format nd) as [Hp1 Hp2]; [unfold two63 in *; lia|].
      assert (Hn1' : re_days (dur_format_u nd) = None) by (rewrite E; exact Hn1).
      assert (Hn2' : re_days (45 :: dur_format_u nd) = None) by (rewrite E; exact Hn2).
      assert (Hne : dur_format_u nd <> []).
      { rewrite E. pose proof (dec_nonempty x). destruct (dec x); [congruence|discriminate]. }
      destruct neg; cbn [app].
      * rewrite Hn2'. cbv iota beta zeta. rewrite Hp2. change (wrap64 (0 * 24 * t_hour)) with 0.
        rewrite Z.add_0_r, wrap64_id by (unfold in_int64; unfold two63 in *; lia). f_equal. lia.
      * rewrite Hn1'. cbv iota beta zeta.
        assert (Hm : match dur_format_u nd with [] => Some 0 | _ :: _ => parse_duration (dur_format_u nd) end = Some nd).
        { destruct (dur_format_u nd) eqn:Ef; [congruence|]. exact Hp1. }
        rewrite Hm. change (wrap64 (0 * 24 * t_hour)) with 0.
        rewrite Z.add_0_r, wrap64_id by (unfold in_int64; unfold two63 in *; lia). f_equal. lia.
Qed.

Lemma dur_marshal_mag d : - two63 < d < two63 ->
  dur_marshal d = mag_text (d <? 0) (Z.abs d).
Proof.
  intros Hd. unfold dur_marshal, mag_text.
  assert (Hd1 : (if d <? 0 then wrap64 (- d) else d) = Z.abs d).
  { destruct (Z.ltb_spec d 0); [rewrite wrap64_id by (unfold in_int64; lia)|]; lia. }
  rewrite Hd1.
  rewrite Z.quot_div_nonneg, Z.rem_mod_nonneg by (unfold t_day; lia).
  f_equal. f_equal.
  destruct (Z.abs d mod t_day =? 0) eqn:E; [reflexivity|].
  unfold dur_string.
  pose proof (Z.mod_pos_bound (Z.abs d) t_day ltac:(unfold t_day; lia)).
  replace (Z.abs d mod t_day <? 0) with false by lia. reflexivity.
Qed.

Theorem dur_roundtrip d : - two63 < d < two63 -> dur_unmarshal (dur_marshal d) = Some d.
Proof.
  intros Hd. rewrite dur_marshal_mag by exact Hd.
  rewrite unmarshal_mag by (try lia; intros H; apply Z.ltb_lt in H; lia).
  f_equal. destruct (Z.ltb_spec d 0); lia.
Qed.

(* the single int64 that is not covered: the faithful model shows the failure *)
Lemma dur_min_int64_refuted :
  dur_marshal (- two63) = [45;45;50;51;104;52;55;109;49;54;46;56;53;52;55;55;53;56;48;56;115] /\
  dur_unmarshal (dur_marshal (- two63)) = None.
Proof. vm_compute. split; reflexivity. Qed.

Example dur_examples :
  dur_marshal 0 = [] /\ dur_marshal 1500000 = [49;46;53;109;115] /\
  dur_marshal (- (3 * t_day + t_hour + 1)) = [45;51;100;49;104;48;109;48;46;48;48;48;48;48;48;48;48;49;115] /\
  dur_unmarshal [45;51;100;49;104;48;109;48;46;48;48;48;48;48;48;48;48;49;115] = Some (- (3 * t_day + t_hour + 1)) /\
  dur_unmarshal [49;46;53;104] = Some 5400000000000 /\ dur_unmarshal [53] = None.
Proof. vm_compute. repeat split. Qed.
