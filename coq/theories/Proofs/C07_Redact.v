(* Proofs for C07, part 1: redactCredentials on the heap model (uses C11's freshness of the clone). *)
From Coq Require Import List ZArith Bool Lia Arith.
Require Import MTX.Lib.Heap MTX.Model.C11_Clone MTX.Proofs.C11_Clone MTX.Model.C07_Redact.
Import ListNotations.

(* ------------------------------------------------------------------ set_nth *)

Lemma length_set_nth {A} (l : list A) : forall i x, length (set_nth l i x) = length l.
Proof. induction l as [|y t IH]; intros [|i] x; simpl; auto. Qed.

Lemma nth_error_set_nth_same {A} (l : list A) : forall i x, i < length l -> nth_error (set_nth l i x) i = Some x.
Proof. induction l as [|y t IH]; intros [|i] x Hl; simpl in *; try lia; auto. apply IH. lia. Qed.

Lemma nth_error_set_nth_other {A} (l : list A) : forall i j x, i <> j -> nth_error (set_nth l i x) j = nth_error l j.
Proof. induction l as [|y t IH]; intros [|i] [|j] x Hij; simpl; auto; try congruence. Qed.

Lemma nth_error_lt {A} (l : list A) i x : nth_error l i = Some x -> i < length l.
Proof. intros H. apply nth_error_Some. congruence. Qed.

(* ------------------------------------------------------------------ one assignment *)

Lemma slot_set_other h s z a : a <> s_addr s -> nth_error (slot_set h s z) a = nth_error h a.
Proof.
  intros Ha. unfold slot_set. destruct (nth_error h (s_addr s)) as [c|]; [|reflexivity].
  destruct (nth_error c (s_elem s)) as [[z0|k o|fs|d]|]; destruct (s_fld s) as [j|]; try reflexivity.
  - apply nth_error_write_other. congruence.
  - destruct (nth_error fs j) as [[b [z0|k o|fs'|d]]|]; try reflexivity. apply nth_error_write_other. congruence.
Qed.

Lemma slot_get_set_same h s z0 z : slot_get h s = Some z0 -> slot_get (slot_set h s z) s = Some z.
Proof.
  unfold slot_get, slot_set. destruct (nth_error h (s_addr s)) as [c|] eqn:Hc; [|discriminate].
  pose proof (nth_error_lt _ _ _ Hc) as Hl.
  destruct (nth_error c (s_elem s)) as [[z1|k o|fs|d]|] eqn:He; destruct (s_fld s) as [j|]; try discriminate.
  - intros _. rewrite nth_error_write_same by exact Hl.
    rewrite nth_error_set_nth_same by (eapply nth_error_lt; eauto). reflexivity.
  - destruct (nth_error fs j) as [[b [z1|k o|fs'|d]]|] eqn:Hf; try discriminate. intros _.
    rewrite nth_error_write_same by exact Hl.
    rewrite nth_error_set_nth_same by (eapply nth_error_lt; eauto).
    rewrite nth_error_set_nth_same by (eapply nth_error_lt; eauto). reflexivity.
Qed.

(* after an assignment of z, every slot reads z or what it read before *)
Lemma slot_get_set_any h t z s y : slot_get (slot_set h t z) s = Some y -> y = z \/ slot_get h s = Some y.
Proof.
  destruct (Nat.eq_dec (s_addr s) (s_addr t)) as [Ea|Ea].
  2:{ intros H. right. unfold slot_get in *. rewrite slot_set_other in H by exact Ea. exact H. }
  unfold slot_set. destruct (nth_error h (s_addr t)) as [c|] eqn:Hc; [|now right].
  pose proof (nth_error_lt _ _ _ Hc) as Hl.
  destruct (nth_error c (s_elem t)) as [[z1|k o|fs|d]|] eqn:He; destruct (s_fld t) as [j|] eqn:Ef; try (now right).
  - (* the pointee of a credential pointer *)
    unfold slot_get. rewrite Ea, nth_error_write_same by exact Hl. rewrite Hc.
    destruct (Nat.eq_dec (s_elem s) (s_elem t)) as [Ee|Ee].
    + rewrite Ee, nth_error_set_nth_same by (eapply nth_error_lt; eauto). rewrite He.
      destruct (s_fld s) as [j'|]; [discriminate|]. intros H; inversion H. now left.
    + rewrite nth_error_set_nth_other by congruence. now right.
  - (* a user's field *)
    destruct (nth_error fs j) as [[b [z1|k o|fs'|d]]|] eqn:Hf; try (now right).
    unfold slot_get. rewrite Ea, nth_error_write_same by exact Hl. rewrite Hc.
    destruct (Nat.eq_dec (s_elem s) (s_elem t)) as [Ee|Ee].
    + rewrite Ee, nth_error_set_nth_same by (eapply nth_error_lt; eauto). rewrite He.
      destruct (s_fld s) as [j'|]; [|discriminate].
      destruct (Nat.eq_dec j' j) as [->|Ej].
      * rewrite nth_error_set_nth_same by (eapply nth_error_lt; eauto). intros H; inversion H. now left.
      * rewrite nth_error_set_nth_other by congruence. now right.
    + rewrite nth_error_set_nth_other by congruence. now right.
Qed.

Definition harmless (z : Z) : Prop := z = tok_empty \/ z = tok_redacted.

Lemma redact_step_done h t z : slot_get (redact_step h t) t = Some z -> harmless z.
Proof.
  unfold redact_step. destruct (slot_get h t) as [z0|] eqn:Hg; [|congruence].
  destruct (Z.eqb_spec z0 tok_empty) as [->|Hne].
  - rewrite Hg. intros H; inversion H. now left.
  - rewrite (slot_get_set_same h t z0 tok_redacted Hg). intros H; inversion H. now right.
Qed.

Lemma redact_step_keeps h t s z : slot_get (redact_step h t) s = Some z -> harmless z \/ slot_get h s = Some z.
Proof.
  unfold redact_step. destruct (slot_get h t) as [z0|]; [|now right].
  destruct (z0 =? tok_empty)%Z; [now right|]. intros H. apply slot_get_set_any in H.
  destruct H as [->|H]; [left; now right|now right].
Qed.

Lemma redact_fold ss : forall h D,
  (forall s z, In s D -> slot_get h s = Some z -> harmless z) ->
  forall s z, In s (D ++ ss) -> slot_get (fold_left redact_step ss h) s = Some z -> harmless z.
Proof.
  induction ss as [|t ss IH]; intros h D HD s z Hin Hg.
  - rewrite app_nil_r in Hin. simpl in Hg. eauto.
  - simpl in Hg. apply (IH (redact_step h t) (D ++ [t])) with (s := s); [|rewrite <- app_assoc; exact Hin|exact Hg].
    intros s' z' Hin' Hg'. apply in_app_or in Hin'. destruct Hin' as [Hin'|[<-|[]]].
    + apply redact_step_keeps in Hg'. destruct Hg' as [Hh|Hg']; [exact Hh|eauto].
    + now apply redact_step_done in Hg'.
Qed.

(* ------------------------------------------------------------------ the shape is not changed *)

Definition sval (p p' : value) : Prop := match p, p' with VScalar _, VScalar _ => True | x, y => x = y end.
Definition sfield (f f' : bool * value) : Prop := fst f = fst f' /\ sval (snd f) (snd f').

Definition shal (v v' : value) : Prop :=
  match v, v' with
  | VScalar _, VScalar _ => True
  | VStruct fs, VStruct fs' => Forall2 sfield fs fs'
  | x, y => x = y
  end.

Definition hsim (h h' : heap) : Prop := Forall2 (Forall2 shal) h h'.

Lemma sfield_refl f : sfield f f.
Proof. split; [reflexivity|]. unfold sval. destruct (snd f); auto. Qed.

Lemma Forall2_refl {A} (R : A -> A -> Prop) : (forall x, R x x) -> forall l, Forall2 R l l.
Proof. intros H l. induction l; constructor; auto. Qed.

Lemma shal_refl v : shal v v.
Proof. destruct v; simpl; auto. apply Forall2_refl. apply sfield_refl. Qed.

Lemma hsim_refl h : hsim h h.
Proof. apply Forall2_refl. intros c. apply Forall2_refl. apply shal_refl. Qed.

Lemma Forall2_set_nth {A} (R : A -> A -> Prop) : forall l i x y,
  (forall u, R u u) -> nth_error l i = Some x -> R x y -> Forall2 R l (set_nth l i y).
Proof.
  induction l as [|u t IH]; intros [|i] x y Hr Hn Hxy; simpl in *; try discriminate.
  - inversion Hn; subst. constructor; [exact Hxy|now apply Forall2_refl].
  - constructor; [apply Hr|]. eapply IH; eauto.
Qed.

Lemma Forall2_write h : forall a c c', nth_error h a = Some c -> Forall2 shal c c' -> hsim h (write h a c').
Proof.
  induction h as [|x t IH]; intros [|a] c c' Hn Hcc; simpl in *; try discriminate.
  - inversion Hn; subst. constructor; [exact Hcc|apply hsim_refl].
  - constructor; [apply Forall2_refl, shal_refl|]. eapply IH; eauto.
Qed.

Lemma slot_set_hsim h s z : hsim h (slot_set h s z).
Proof.
  unfold slot_set. destruct (nth_error h (s_addr s)) as [c|] eqn:Hc; [|apply hsim_refl].
  destruct (nth_error c (s_elem s)) as [[z1|k o|fs|d]|] eqn:He; destruct (s_fld s) as [j|]; try apply hsim_refl.
  - eapply Forall2_write; [exact Hc|]. eapply Forall2_set_nth; [apply shal_refl|exact He|]. simpl. exact I.
  - destruct (nth_error fs j) as [[b [z1|k o|fs'|d]]|] eqn:Hf; try apply hsim_refl.
    eapply Forall2_write; [exact Hc|]. eapply Forall2_set_nth; [apply shal_refl|exact He|].
    simpl. eapply Forall2_set_nth; [apply sfield_refl|exact Hf|]. split; simpl; [reflexivity|exact I].
Qed.

Lemma redact_step_hsim h s : hsim h (redact_step h s).
Proof.
  unfold redact_step. destruct (slot_get h s); [|apply hsim_refl].
  destruct (z =? tok_empty)%Z; [apply hsim_refl|apply slot_set_hsim].
Qed.

Lemma F2_length {A B} (R : A -> B -> Prop) l l' : Forall2 R l l' -> length l = length l'.
Proof. induction 1; simpl; auto. Qed.

Lemma hsim_nth h h' a : hsim h h' ->
  match nth_error h a, nth_error h' a with
  | Some c, Some c' => Forall2 shal c c'
  | None, None => True
  | _, _ => False
  end.
Proof.
  intros H. revert a. induction H as [|c c' t t' Hc Ht IH]; intros [|a]; simpl; auto. apply IH.
Qed.

Lemma ptr_slot_shal p p' : sval p p' -> ptr_slot p = ptr_slot p'.
Proof. unfold sval. destruct p, p'; simpl; intros H; try (inversion H; subst); reflexivity. Qed.

Lemma cred_slots_shal v v' : shal v v' -> cred_slots v = cred_slots v'.
Proof.
  destruct v as [z|k o|fs|d], v' as [z'|k' o'|fs'|d']; simpl; intros H; try (inversion H; subst; reflexivity); try reflexivity.
  destruct H as [|[b p] [b' p'] t t' [_ Hp] Ht]; [reflexivity|].
  destruct Ht as [|[b2 q] [b2' q'] t2 t2' [_ Hq] Ht2]; [reflexivity|].
  simpl in *. now rewrite (ptr_slot_shal p p' Hp), (ptr_slot_shal q q' Hq).
Qed.

Lemma pass_slots_hsim h h' v : hsim h h' -> pass_slots h v = pass_slots h' v.
Proof.
  intros H. unfold pass_slots.
  destruct v as [z|k o|fs|d]; try reflexivity.
  destruct fs as [|[b1 us] [|[b2 pd] [|[b3 ps] [|]]]]; try reflexivity.
  f_equal; [|f_equal].
  - unfold user_slots. destruct us as [z|k [a|]|fs|d]; try reflexivity. destruct k; try reflexivity.
    pose proof (hsim_nth h h' a H) as Hn.
    destruct (nth_error h a) as [c|], (nth_error h' a) as [c'|]; try contradiction; [|reflexivity].
    now rewrite (F2_length _ _ _ Hn).
  - unfold path_slots. destruct ps as [z|k [a|]|fs|d]; try reflexivity. destruct k; try reflexivity.
    pose proof (hsim_nth h h' a H) as Hn.
    destruct (nth_error h a) as [c|], (nth_error h' a) as [c'|]; try contradiction; [|reflexivity].
    induction Hn as [|x x' t t' Hx Ht IH]; [reflexivity|]. simpl. rewrite IH. f_equal.
    destruct x as [z|k [b|]|fs|d], x' as [z'|k' [b'|]|fs'|d']; simpl in Hx; try (inversion Hx; subst); try reflexivity.
    destruct k'; try reflexivity.
    pose proof (hsim_nth h h' b' H) as Hb.
    destruct (nth_error h b') as [cb|], (nth_error h' b') as [cb'|]; try contradiction; [|reflexivity].
    destruct Hb as [|y y' u u' Hy Hu]; [reflexivity|]. destruct Hu; [|reflexivity]. now apply cred_slots_shal.
Qed.

Lemma fold_slots c ss : forall h, pass_slots (fold_left redact_step ss h) c = pass_slots h c.
Proof.
  induction ss as [|t ss IH]; intros h; [reflexivity|]. simpl. rewrite IH.
  symmetry. apply pass_slots_hsim. apply redact_step_hsim.
Qed.

Lemma redact_in_slots h c : pass_slots (redact_in h c) c = pass_slots h c.
Proof. apply fold_slots. Qed.

(* ------------------------------------------------------------------ C07_no_password_in_view *)

Theorem no_password_in_view fuel h v h2 c : redact fuel h v = Some (h2, c) ->
  forall s z, In s (pass_slots h2 c) -> slot_get h2 s = Some z -> harmless z.
Proof.
  unfold redact. destruct (deep_clone true fuel h v) as [[h1 c1]|]; [|discriminate].
  intros H; inversion H; subst. intros s z Hin Hg. rewrite redact_in_slots in Hin.
  unfold redact_in in Hg. apply (redact_fold (pass_slots h1 c) h1 [] ltac:(intros ? ? []) s z); assumption.
Qed.

(* the same without the clone: the post-condition on the value itself (used for the refutation) *)
Theorem redact_in_harmless h c : forall s z, In s (pass_slots h c) -> slot_get (redact_in h c) s = Some z -> harmless z.
Proof.
  intros s z Hin Hg. unfold redact_in in Hg.
  apply (redact_fold (pass_slots h c) h [] ltac:(intros ? ? []) s z); assumption.
Qed.

(* ------------------------------------------------------------------ C07_live_untouched *)

Lemma slots_reach h c s : In s (pass_slots h c) -> reach h c (s_addr s).
Proof.
  unfold pass_slots. destruct c as [z|k o|fs|d]; try contradiction.
  destruct fs as [|[b1 us] [|[b2 pd] [|[b3 ps] [|]]]]; try contradiction.
  intros Hin. apply in_app_or in Hin. destruct Hin as [Hin|Hin]; [|apply in_app_or in Hin; destruct Hin as [Hin|Hin]].
  - apply reach_field with (b := b1) (f := us); [left; reflexivity|].
    unfold user_slots in Hin. destruct us as [z|[] [a|]|fs|d]; try contradiction.
    destruct (nth_error h a); [|contradiction]. apply in_map_iff in Hin. destruct Hin as (i & <- & _). apply reach_here.
  - apply reach_field with (b := b2) (f := pd); [right; left; reflexivity|].
    assert (Hc : forall v, In s (cred_slots v) -> reach h v (s_addr s)).
    { intros v Hv. unfold cred_slots in Hv. destruct v as [z|k o|fs|d]; try contradiction.
      destruct fs as [|[bp p] [|[bq q] t]]; try contradiction.
      apply in_app_or in Hv. destruct Hv as [Hv|Hv].
      - apply reach_field with (b := bp) (f := p); [left; reflexivity|].
        destruct p as [z|[] [a|]|fs|d]; try contradiction.
        destruct Hv as [<-|[]]. apply reach_here.
      - apply reach_field with (b := bq) (f := q); [right; left; reflexivity|].
        destruct q as [z|[] [a|]|fs|d]; try contradiction.
        destruct Hv as [<-|[]]. apply reach_here. }
    now apply Hc.
  - apply reach_field with (b := b3) (f := ps); [right; right; left; reflexivity|].
    unfold path_slots in Hin. destruct ps as [z|[] [a|]|fs|d]; try contradiction.
    destruct (nth_error h a) as [c|] eqn:Ha; [|contradiction].
    apply in_flat_map in Hin. destruct Hin as (pv & Hpv & Hin).
    destruct pv as [z|[] [b|]|fs|d]; try contradiction.
    destruct (nth_error h b) as [[|ps [|]]|] eqn:Hb; try contradiction.
    eapply reach_cell; [exact Ha|exact Hpv|]. eapply reach_cell; [exact Hb|left; reflexivity|].
    unfold cred_slots in Hin. destruct ps as [z|k o|fs|d]; try contradiction.
    destruct fs as [|[bp p] [|[bq q] t]]; try contradiction.
    apply in_app_or in Hin. destruct Hin as [Hv|Hv].
    + apply reach_field with (b := bp) (f := p); [left; reflexivity|].
      destruct p as [z|[] [a'|]|fs|d]; try contradiction.
      destruct Hv as [<-|[]]. apply reach_here.
    + apply reach_field with (b := bq) (f := q); [right; left; reflexivity|].
      destruct q as [z|[] [a'|]|fs|d]; try contradiction.
      destruct Hv as [<-|[]]. apply reach_here.
Qed.

Lemma redact_step_low n h s a : n <= s_addr s -> a < n -> nth_error (redact_step h s) a = nth_error h a.
Proof.
  intros Hn Ha. unfold redact_step. destruct (slot_get h s); [|reflexivity].
  destruct (z =? tok_empty)%Z; [reflexivity|]. apply slot_set_other. lia.
Qed.

Lemma redact_fold_low n ss : forall h a, Forall (fun s => n <= s_addr s) ss -> a < n ->
  nth_error (fold_left redact_step ss h) a = nth_error h a.
Proof.
  induction ss as [|t ss IH]; intros h a Hall Ha; [reflexivity|].
  inversion Hall; subst. simpl. rewrite IH by assumption. now apply redact_step_low with (n := n).
Qed.

Theorem live_untouched fuel h v h2 c : wf h v -> redact fuel h v = Some (h2, c) ->
  forall p, read h2 v p = read h v p.
Proof.
  unfold redact. intros Hwf H. destruct (deep_clone true fuel h v) as [[h1 c1]|] eqn:Hc; [|discriminate].
  inversion H; subst. intros p.
  destruct (deep_clone_extends _ _ _ _ _ _ Hc) as (e & ->).
  apply read_orig_frame with (e := e); [exact Hwf|]. intros a Ha. unfold redact_in.
  apply redact_fold_low with (n := length h); [|exact Ha].
  apply Forall_forall. intros s Hs. apply slots_reach in Hs.
  pose proof (clone_fresh _ _ _ _ _ Hc _ Hs). lia.
Qed.

(* the view shares no cell with the live configuration *)
Theorem view_disjoint fuel h v h2 c : wf h v -> redact fuel h v = Some (h2, c) ->
  forall a, reach h v a -> a < length h /\ (forall x, In x (pass_slots h2 c) -> s_addr x <> a).
Proof.
  unfold redact. intros Hwf H. destruct (deep_clone true fuel h v) as [[h1 c1]|] eqn:Hc; [|discriminate].
  inversion H; subst. intros a Ha. split; [now apply Hwf|]. intros x Hx. rewrite redact_in_slots in Hx.
  apply slots_reach in Hx. pose proof (clone_fresh _ _ _ _ _ Hc _ Hx). specialize (Hwf a Ha). lia.
Qed.
