(* Proofs about Model/C42_Template.v *)
From Coq Require Import List ZArith Lia Bool ZifyBool Arith.
Require Import MTX.Model.C42_Template.
Import ListNotations.
Local Open Scope Z_scope.

(* ---------------- prefixes ---------------- *)

Lemma prefixb_app p : forall s, prefixb p (p ++ s) = true.
Proof. induction p as [|x p IH]; intros s; simpl; [reflexivity|]. now rewrite Z.eqb_refl, IH. Qed.

Lemma prefixb_spec p : forall s, prefixb p s = true -> exists t, s = p ++ t.
Proof.
  induction p as [|x p IH]; intros s H; [exists s; reflexivity|].
  destruct s as [|y s]; [discriminate|]. simpl in H. apply andb_true_iff in H. destruct H as [H1 H2].
  apply Z.eqb_eq in H1. subst y. destruct (IH s H2) as [t ->]. exists t. reflexivity.
Qed.

Lemma skipn_app_exact {A} (a b : list A) : skipn (length a) (a ++ b) = b.
Proof. induction a; simpl; auto. Qed.

(* ---------------- strings.ReplaceAll ---------------- *)

Lemma ra_cons0 old new c r :
  ra old new 0 (c :: r) =
  if prefixb old (c :: r) then new ++ ra old new (length old - 1) r else c :: ra old new 0 r.
Proof. reflexivity. Qed.

Lemma ra_skip old new u : forall s, ra old new (length u) (u ++ s) = ra old new 0 s.
Proof. induction u as [|c u IH]; intros s; [reflexivity|]. simpl. apply IH. Qed.

Lemma ra_match old new s : old <> [] -> ra old new 0 (old ++ s) = new ++ ra old new 0 s.
Proof.
  intros Hne. destruct old as [|c o']; [congruence|].
  change ((c :: o') ++ s) with (c :: (o' ++ s)). rewrite ra_cons0.
  change (c :: o' ++ s) with ((c :: o') ++ s). rewrite prefixb_app. f_equal.
  replace (length (c :: o') - 1)%nat with (length o') by (simpl; lia). apply ra_skip.
Qed.

Lemma ra_nomatch old new c s :
  prefixb old (c :: s) = false -> ra old new 0 (c :: s) = c :: ra old new 0 s.
Proof. intros H. rewrite ra_cons0, H. reflexivity. Qed.

Definition dollar_free (s : bytes) : Prop := Forall (fun c => c <> 36) s.

Lemma ra_dfree o' new u : dollar_free u -> forall s,
  ra (36 :: o') new 0 (u ++ s) = u ++ ra (36 :: o') new 0 s.
Proof.
  induction u as [|c u IH]; intros Hu s; [reflexivity|].
  inversion Hu as [|? ? Hc Hr]; subst. change ((c :: u) ++ s) with (c :: (u ++ s)).
  rewrite ra_nomatch.
  - rewrite IH by exact Hr. reflexivity.
  - cbn [prefixb]. assert (36 =? c = false) as -> by lia. reflexivity.
Qed.

(* ---------------- decimal numerals ---------------- *)

Definition all_digits (s : bytes) : Prop := Forall (fun c => 48 <= c <= 57) s.

Fixpoint valf (a : Z) (s : bytes) : Z :=
  match s with [] => a | c :: r => valf (a * 10 + (c - 48)) r end.

Lemma valf_app s : forall a t, valf a (s ++ t) = valf (valf a s) t.
Proof. induction s as [|c s IH]; intros a t; simpl; [reflexivity | apply IH]. Qed.

Lemma valf_mono s : forall a, 0 <= a -> all_digits s -> a <= valf a s.
Proof.
  induction s as [|c s IH]; intros a Ha Hs; simpl; [lia|].
  inversion Hs; subst. specialize (IH (a * 10 + (c - 48)) ltac:(lia) H2). lia.
Qed.

Lemma dec_fuel_app f : forall n acc, dec_fuel f n acc = dec_fuel f n [] ++ acc.
Proof.
  induction f as [|f IH]; intros n acc; cbn [dec_fuel]; [reflexivity|].
  destruct (n <? 10); [reflexivity|].
  rewrite IH. rewrite (IH _ [48 + n mod 10]). rewrite <- app_assoc. reflexivity.
Qed.

Lemma dec_fuel_digits f : forall n acc, 0 <= n -> all_digits acc -> all_digits (dec_fuel f n acc).
Proof.
  induction f as [|f IH]; intros n acc Hn Ha; cbn [dec_fuel]; [exact Ha|].
  destruct (n <? 10) eqn:E.
  - constructor; [lia | exact Ha].
  - apply IH; [apply Z.div_pos; lia|]. constructor; [|exact Ha].
    pose proof (Z.mod_pos_bound n 10 ltac:(lia)). lia.
Qed.

Lemma dec_fuel_val f : forall n, 0 <= n < 10 ^ Z.of_nat f -> valf 0 (dec_fuel f n []) = n.
Proof.
  induction f as [|f IH]; intros n Hn.
  - simpl in *. lia.
  - cbn [dec_fuel]. destruct (n <? 10) eqn:E; [cbn [valf]; lia|].
    rewrite dec_fuel_app, valf_app. rewrite IH.
    + cbn [valf]. pose proof (Z.div_mod n 10 ltac:(lia)). lia.
    + rewrite Nat2Z.inj_succ, Z.pow_succ_r in Hn by lia.
      split; [apply Z.div_pos; lia|]. apply Z.div_lt_upper_bound; lia.
Qed.

Lemma nat_lt_pow10 k : 0 <= Z.of_nat k < 10 ^ Z.of_nat (S k).
Proof.
  split; [lia|]. rewrite Nat2Z.inj_succ, Z.pow_succ_r by lia.
  pose proof (Z.pow_gt_lin_r 10 (Z.of_nat k) ltac:(lia) ltac:(lia)). lia.
Qed.

Lemma val_dec k : valf 0 (dec k) = Z.of_nat k.
Proof. unfold dec. apply dec_fuel_val. apply nat_lt_pow10. Qed.

Lemma dec_digits k : all_digits (dec k).
Proof. unfold dec. apply dec_fuel_digits; [lia | constructor]. Qed.

Lemma dec_prefix_le k j t : dec j = dec k ++ t -> (k <= j)%nat.
Proof.
  intros H. pose proof (val_dec j) as Hj. rewrite H, valf_app, val_dec in Hj.
  assert (all_digits t) as Ht.
  { pose proof (dec_digits j) as Hd. rewrite H in Hd. apply Forall_app in Hd. tauto. }
  pose proof (valf_mono t (Z.of_nat k) ltac:(lia) Ht). lia.
Qed.

(* a run of digits that is a prefix of a ++ X, where X is empty or starts with a non-digit, is a prefix of a *)
Definition no_digit_start (x : bytes) : Prop :=
  match x with [] => True | d :: _ => is_digit d = false end.

Lemma digits_prefix_split p : forall a x t,
  all_digits p -> no_digit_start x -> a ++ x = p ++ t -> exists t', a = p ++ t'.
Proof.
  induction p as [|c p IH]; intros a x t Hp Hx H; [exists a; reflexivity|].
  inversion Hp as [|? ? Hc Hr]; subst.
  destruct a as [|c' a].
  - simpl in H. subst x. simpl in Hx. unfold is_digit in Hx. lia.
  - simpl in H. inversion H; subst c'. destruct (IH a x t Hr Hx H2) as [t' ->]. exists t'. reflexivity.
Qed.

Lemma dec_dollar_free k : dollar_free (dec k).
Proof. eapply Forall_impl; [|apply dec_digits]. simpl. intros c Hc. lia. Qed.

(* ---------------- items ---------------- *)

Definition flatten : list item -> bytes := flatten_with pat.

Definition item_bytes (it : item) : bytes := match it with Lit c => [c] | Tok t => pat t | Val v => v end.

Lemma flatten_cons it its : flatten (it :: its) = item_bytes it ++ flatten its.
Proof. destruct it; reflexivity. Qed.

Definition tokid_eqb (a b : tokid) : bool :=
  match a, b with
  | TG i, TG j => Nat.eqb i j
  | TPath, TPath | TQuery, TQuery => true
  | _, _ => false
  end.

Lemma tokid_eqb_eq a b : tokid_eqb a b = true <-> a = b.
Proof.
  destruct a, b; simpl; split; intros H; try discriminate; try reflexivity.
  - apply Nat.eqb_eq in H. now subst.
  - inversion H. apply Nat.eqb_refl.
Qed.

Definition subst1 (k : tokid) (r : bytes) (it : item) : item :=
  match it with Tok t => if tokid_eqb t k then Val r else Tok t | _ => it end.
Definition subst (k : tokid) (r : bytes) (its : list item) : list item := map (subst1 k r) its.

Definition val_ok (it : item) : Prop := match it with Val v => dollar_free v | _ => True end.

Definition idx_ok (k : tokid) (its : list item) : Prop :=
  match k with TG kk => forall j, In (Tok (TG j)) its -> (j <= kk)%nat | _ => True end.

(* every placeholder is a dollar, then G or M, then bytes without a dollar *)
Lemma pat_shape t : exists b tl, pat t = 36 :: b :: tl /\ (b = 71 \/ b = 77) /\ dollar_free (b :: tl).
Proof.
  destruct t as [k| |].
  - exists 71, (dec k). split; [reflexivity|]. split; [now left|].
    constructor; [lia | apply dec_dollar_free].
  - exists 77, [84; 88; 95; 80; 65; 84; 72]. split; [reflexivity|]. split; [now right|].
    repeat constructor; lia.
  - exists 77, [84; 88; 95; 81; 85; 69; 82; 89]. split; [reflexivity|]. split; [now right|].
    repeat constructor; lia.
Qed.

Lemma pat_nonempty t : pat t <> [].
Proof. destruct (pat_shape t) as (b & tl & -> & _). discriminate. Qed.

Lemma flatten_no_digit_start rest j :
  head_ok (Tok (TG j)) rest = true -> no_digit_start (flatten rest).
Proof.
  destruct rest as [|it rest]; [intros _; exact I|].
  destruct it as [d| |]; simpl; try discriminate.
  intros H. apply negb_true_iff in H. exact H.
Qed.

Lemma no_match_at_tok k j rest :
  j <> k -> idx_ok k (Tok j :: rest) -> head_ok (Tok j) rest = true ->
  prefixb (pat k) (pat j ++ flatten rest) = false.
Proof.
  intros Hne Hidx Hh.
  destruct k as [kk| |], j as [jj| |]; try reflexivity; try congruence.
  (* both group placeholders *)
  destruct (prefixb (pat (TG kk)) (pat (TG jj) ++ flatten rest)) eqn:E; [|reflexivity]. exfalso.
  apply prefixb_spec in E. destruct E as [t E]. simpl in E. inversion E as [E'].
  destruct (digits_prefix_split (dec kk) (dec jj) (flatten rest) t (dec_digits kk)
              (flatten_no_digit_start rest jj Hh) E') as [t' Ht'].
  apply dec_prefix_le in Ht'.
  assert (jj <= kk)%nat by (apply Hidx; now left).
  assert (jj = kk) by lia. congruence.
Qed.

Lemma no_match_at_dollar k rest :
  head_ok (Lit 36) rest = true -> prefixb (pat k) (36 :: flatten rest) = false.
Proof.
  intros Hh. destruct (pat_shape k) as (b & tl & -> & Hb & _).
  destruct rest as [|it rest]; [reflexivity|].
  destruct it as [d| |]; simpl in Hh; try discriminate.
  rewrite flatten_cons. simpl. destruct Hb; subst b; lia.
Qed.

Lemma ra_items k r : forall its,
  guard its = true -> Forall val_ok its -> idx_ok k its ->
  ra (pat k) r 0 (flatten its) = flatten (subst k r its).
Proof.
  induction its as [|it its IH]; intros Hg Hv Hi; [reflexivity|].
  simpl in Hg. apply andb_true_iff in Hg. destruct Hg as [Hh Hg].
  inversion Hv as [|? ? Hv1 Hv2]; subst.
  assert (idx_ok k its) as Hi'.
  { destruct k; simpl in *; auto. }
  specialize (IH Hg Hv2 Hi').
  unfold subst. cbn [map]. fold (subst k r its). rewrite !flatten_cons.
  destruct (pat_shape k) as (kb & ktl & Hk & _ & _).
  destruct it as [c|t|v].
  - (* literal byte *)
    cbn [subst1 item_bytes app]. rewrite ra_nomatch; [now rewrite IH|].
    destruct (Z.eq_dec c 36) as [->|Hc].
    + apply (no_match_at_dollar k its Hh).
    + rewrite Hk. cbn [prefixb]. assert (36 =? c = false) as -> by lia. reflexivity.
  - (* placeholder *)
    cbn [subst1 item_bytes]. destruct (tokid_eqb t k) eqn:Et.
    + apply tokid_eqb_eq in Et. subst t. cbn [item_bytes]. rewrite ra_match by apply pat_nonempty. now rewrite IH.
    + assert (t <> k) as Hne by (intros ->; rewrite (proj2 (tokid_eqb_eq k k) eq_refl) in Et; discriminate).
      pose proof (no_match_at_tok k t its Hne Hi Hh) as Hn.
      destruct (pat_shape t) as (b & tl & Ht & _ & Hfree).
      cbn [item_bytes]. rewrite Ht in *.
      change ((36 :: b :: tl) ++ flatten its) with (36 :: ((b :: tl) ++ flatten its)) in *.
      rewrite ra_nomatch by exact Hn. rewrite Hk. rewrite ra_dfree by exact Hfree. rewrite <- Hk, IH. reflexivity.
  - (* inserted value *)
    cbn [subst1 item_bytes]. rewrite Hk. rewrite ra_dfree by exact Hv1. rewrite <- Hk, IH. reflexivity.
Qed.

(* substitutions keep the guard *)
Lemma head_ok_map f it rest :
  (forall c, f (Lit c) = Lit c) -> (forall v, f (Val v) = Val v) ->
  (forall t, f (Tok t) = Tok t \/ exists v, f (Tok t) = Val v) ->
  head_ok it rest = true -> head_ok (f it) (map f rest) = true.
Proof.
  intros HL HV HT H.
  destruct it as [c|t|v].
  - rewrite HL. cbn [head_ok] in *. destruct (c =? 36); [|reflexivity].
    destruct rest as [|[d|t'|v'] rest]; try discriminate; cbn [map]; [reflexivity | now rewrite HL].
  - destruct (HT t) as [->|[v ->]]; [|reflexivity].
    destruct t as [j| |]; try reflexivity. cbn [head_ok] in *.
    destruct rest as [|[d|t'|v'] rest]; try discriminate; cbn [map]; [reflexivity | now rewrite HL].
  - rewrite HV. reflexivity.
Qed.

Lemma guard_map f its :
  (forall c, f (Lit c) = Lit c) -> (forall v, f (Val v) = Val v) ->
  (forall t, f (Tok t) = Tok t \/ exists v, f (Tok t) = Val v) ->
  guard its = true -> guard (map f its) = true.
Proof.
  intros HL HV HT. induction its as [|it its IH]; intros H; [reflexivity|].
  simpl in *. apply andb_true_iff in H. destruct H as [H1 H2].
  rewrite (head_ok_map f it its HL HV HT H1), (IH H2). reflexivity.
Qed.

Lemma guard_subst k r its : guard its = true -> guard (subst k r its) = true.
Proof.
  apply guard_map; try reflexivity.
  intros t. simpl. destruct (tokid_eqb t k); [right; eauto | now left].
Qed.

Lemma val_ok_subst k r its : dollar_free r -> Forall val_ok its -> Forall val_ok (subst k r its).
Proof.
  intros Hr H. unfold subst. apply Forall_forall. intros x Hx. apply in_map_iff in Hx.
  destruct Hx as (it & <- & Hit). rewrite Forall_forall in H. specialize (H it Hit).
  destruct it as [c|t|v]; simpl; auto. destruct (tokid_eqb t k); simpl; auto.
Qed.

Lemma in_subst_tok t k r its : In (Tok t) (subst k r its) -> In (Tok t) its /\ t <> k.
Proof.
  unfold subst. intros H. apply in_map_iff in H. destruct H as (it & Hf & Hit).
  destruct it as [c|t'|v]; simpl in Hf; try discriminate.
  destruct (tokid_eqb t' k) eqn:E; [discriminate|]. inversion Hf; subst t'. split; [exact Hit|].
  intros ->. rewrite (proj2 (tokid_eqb_eq k k) eq_refl) in E. discriminate.
Qed.

(* ---------------- the descending chain over the group placeholders ---------------- *)

Definition subst_g1 (ms : list bytes) (it : item) : item :=
  match it with Tok (TG j) => Val (nth j ms []) | _ => it end.
Definition subst_g (ms : list bytes) (its : list item) : list item := map (subst_g1 ms) its.

Lemma subst_g_absorb ms k its : subst_g ms (subst (TG k) (nth k ms []) its) = subst_g ms its.
Proof.
  unfold subst_g, subst. rewrite map_map. apply map_ext. intros [c|t|v]; simpl; try reflexivity.
  destruct (tokid_eqb t (TG k)) eqn:E; [|reflexivity].
  apply tokid_eqb_eq in E. subst t. reflexivity.
Qed.

Lemma subst_g_id ms its : (forall j, ~ In (Tok (TG j)) its) -> subst_g ms its = its.
Proof.
  induction its as [|it its IH]; intros H; [reflexivity|]. unfold subst_g in *. cbn [map].
  rewrite IH by (intros j Hj; apply (H j); now right). f_equal.
  destruct it as [c|[j| |]|v]; try reflexivity. exfalso. apply (H j). now left.
Qed.

Lemma guard_subst_g ms its : guard its = true -> guard (subst_g ms its) = true.
Proof.
  apply guard_map; try reflexivity. intros [j| |]; simpl; [right; eauto | now left | now left].
Qed.

Lemma nth_dollar_free ms k : Forall dollar_free ms -> dollar_free (nth k ms []).
Proof.
  intros H. destruct (Nat.lt_ge_cases k (length ms)) as [Hlt|Hge].
  - rewrite Forall_forall in H. apply H. now apply nth_In.
  - rewrite nth_overflow by exact Hge. constructor.
Qed.

Lemma val_ok_subst_g ms its : Forall dollar_free ms -> Forall val_ok its -> Forall val_ok (subst_g ms its).
Proof.
  intros Hms H. unfold subst_g. apply Forall_forall. intros x Hx. apply in_map_iff in Hx.
  destruct Hx as (it & <- & Hit). rewrite Forall_forall in H. specialize (H it Hit).
  destruct it as [c|[j| |]|v]; simpl; auto. now apply nth_dollar_free.
Qed.

Lemma chain_items ms : Forall dollar_free ms -> forall i its,
  guard its = true -> Forall val_ok its ->
  (forall j, In (Tok (TG j)) its -> (1 <= j <= i)%nat) ->
  chain_g ms i (flatten its) = flatten (subst_g ms its).
Proof.
  intros Hms. induction i as [|i IH]; intros its Hg Hv Hr.
  - simpl. rewrite subst_g_id; [reflexivity|]. intros j Hj. specialize (Hr j Hj). lia.
  - cbn [chain_g]. unfold replace_all. change (pat_g (S i)) with (pat (TG (S i))).
    rewrite ra_items; try assumption.
    + rewrite IH.
      * now rewrite subst_g_absorb.
      * now apply guard_subst.
      * apply val_ok_subst; [now apply nth_dollar_free | exact Hv].
      * intros j Hj. apply in_subst_tok in Hj. destruct Hj as [Hj Hne].
        specialize (Hr j Hj). assert (j <> S i) by congruence. lia.
    + simpl. intros j Hj. specialize (Hr j Hj). lia.
Qed.

(* ---------------- tokenise ---------------- *)

Lemma find_g_spec n s k : find_g n s = Some k -> (1 <= k <= n)%nat /\ prefixb (pat_g k) s = true.
Proof.
  induction n as [|n IH]; cbn [find_g]; [discriminate|].
  destruct (prefixb (pat_g (S n)) s) eqn:E.
  - intros H; inversion H; subst. split; [lia | exact E].
  - intros H. destruct (IH H) as [H1 H2]. split; [lia | exact H2].
Qed.

Lemma token_at_spec c s t :
  token_at c s = Some t ->
  prefixb (pat t) s = true /\
  match t with
  | TG k => (1 <= k <= ngroups c)%nat
  | TPath => use_path c = true
  | TQuery => use_query c = true
  end.
Proof.
  unfold token_at.
  destruct (use_path c && prefixb pat_path s) eqn:E1.
  - intros H; inversion H; subst. apply andb_true_iff in E1. tauto.
  - destruct (use_query c && prefixb pat_query s) eqn:E2.
    + intros H; inversion H; subst. apply andb_true_iff in E2. tauto.
    + destruct (find_g (ngroups c) s) as [k|] eqn:E3; [|discriminate].
      intros H; inversion H; subst. apply find_g_spec in E3. tauto.
Qed.

Lemma tokenise_flatten c : forall s skip, flatten (tokenise c skip s) = skipn skip s.
Proof.
  induction s as [|x r IH]; intros skip; [now destruct skip|].
  destruct skip as [|k]; cbn [tokenise skipn]; [|apply IH].
  destruct (token_at c (x :: r)) as [t|] eqn:E.
  - apply token_at_spec in E. destruct E as [E _]. apply prefixb_spec in E. destruct E as [rest E].
    rewrite flatten_cons, IH. simpl item_bytes.
    destruct (pat t) as [|p0 ptl] eqn:Ep; [exfalso; now apply (pat_nonempty t)|].
    simpl in E. inversion E; subst.
    replace (length (p0 :: ptl) - 1)%nat with (length ptl) by (simpl; lia).
    now rewrite skipn_app_exact.
  - rewrite flatten_cons, IH. reflexivity.
Qed.

Lemma tokenise_items c : forall s skip it,
  In it (tokenise c skip s) ->
  match it with
  | Lit _ => True
  | Tok (TG k) => (1 <= k <= ngroups c)%nat
  | Tok TPath => use_path c = true
  | Tok TQuery => use_query c = true
  | Val _ => False
  end.
Proof.
  induction s as [|x r IH]; intros skip it H; [destruct H|].
  destruct skip as [|k]; cbn [tokenise] in H; [|exact (IH _ _ H)].
  destruct (token_at c (x :: r)) as [t|] eqn:E.
  - destruct H as [<-|H]; [|exact (IH _ _ H)]. apply token_at_spec in E. destruct E as [_ E]. exact E.
  - destruct H as [<-|H]; [exact I | exact (IH _ _ H)].
Qed.

Lemma tokenise_val_ok c s skip : Forall val_ok (tokenise c skip s).
Proof.
  apply Forall_forall. intros it H. apply tokenise_items in H. destruct it; simpl; auto. destruct H.
Qed.

(* ---------------- the two resolvers ---------------- *)

Lemma flatten_with_ext f g its :
  (forall t, In (Tok t) its -> f t = g t) -> flatten_with f its = flatten_with g its.
Proof.
  induction its as [|it its IH]; intros H; [reflexivity|].
  unfold flatten_with in *. cbn [map concat]. rewrite IH by (intros t Ht; apply H; now right).
  f_equal. destruct it; try reflexivity. apply H. now left.
Qed.

Lemma flatten_subst_all ms path q its :
  flatten (subst TQuery q (subst TPath path (subst_g ms its))) = flatten_with (value ms path q) its.
Proof.
  unfold flatten, flatten_with, subst, subst_g. rewrite !map_map. f_equal. apply map_ext.
  intros [c|[j| |]|v]; reflexivity.
Qed.

Lemma subst_absent k r its : ~ In (Tok k) its -> subst k r its = its.
Proof.
  induction its as [|it its IH]; intros H; [reflexivity|]. unfold subst in *. cbn [map].
  rewrite IH by (intros Hj; apply H; now right). f_equal.
  destruct it as [c|t|v]; try reflexivity. simpl. destruct (tokid_eqb t k) eqn:E; [|reflexivity].
  apply tokid_eqb_eq in E. subst t. exfalso. apply H. now left.
Qed.

Lemma subst_g_subst_comm ms k r its :
  match k with TG _ => False | _ => True end ->
  subst_g ms (subst k r its) = subst k r (subst_g ms its).
Proof.
  intros Hk. unfold subst_g, subst. rewrite !map_map. apply map_ext.
  intros [c|[j| |]|v]; destruct k; try destruct Hk; reflexivity.
Qed.

Lemma source_equals_single_pass t ms q :
  template_ok (src_cfg ms) t = true -> Forall dollar_free ms ->
  resolve_source t ms q = single_pass_source t ms q.
Proof.
  intros Hok Hms. unfold resolve_source, single_pass_source, single_pass, template_ok in *.
  set (its := tokenise (src_cfg ms) 0 t) in *.
  assert (t = flatten its) as Ht by (unfold its; now rewrite tokenise_flatten).
  rewrite Ht at 1.
  rewrite (chain_items ms Hms (length ms - 1) its Hok (tokenise_val_ok _ _ _)).
  - unfold replace_all. change pat_query with (pat TQuery).
    rewrite ra_items.
    + rewrite <- (flatten_subst_all ms [] q its). f_equal. f_equal.
      symmetry. apply subst_absent. intros Hin.
      unfold subst_g in Hin. apply in_map_iff in Hin. destruct Hin as (it & Hf & Hit).
      destruct it as [c|[j| |]|v]; try discriminate.
      apply (tokenise_items (src_cfg ms) t 0) in Hit. simpl in Hit. discriminate.
    + now apply guard_subst_g.
    + apply val_ok_subst_g; [exact Hms | apply tokenise_val_ok].
    + exact I.
  - intros j Hj. apply (tokenise_items (src_cfg ms) t 0) in Hj. exact Hj.
Qed.

Lemma dest_equals_single_pass t path ms :
  template_ok (dst_cfg ms) t = true -> dollar_free path -> Forall dollar_free ms ->
  resolve_dest t path ms = single_pass_dest t path ms.
Proof.
  intros Hok Hpath Hms. unfold resolve_dest, single_pass_dest, single_pass, template_ok in *.
  set (its := tokenise (dst_cfg ms) 0 t) in *.
  assert (t = flatten its) as Ht by (unfold its; now rewrite tokenise_flatten).
  rewrite Ht at 1. unfold replace_all. change pat_path with (pat TPath).
  rewrite ra_items; [|exact Hok | apply tokenise_val_ok | exact I].
  rewrite (chain_items ms Hms (length ms - 1)).
  - rewrite <- (flatten_subst_all ms path [] its). f_equal.
    rewrite subst_g_subst_comm by exact I.
    symmetry. apply subst_absent. intros Hin. apply in_subst_tok in Hin. destruct Hin as [Hin _].
    unfold subst_g in Hin. apply in_map_iff in Hin. destruct Hin as (it & Hf & Hit).
    destruct it as [c|[j| |]|v]; try discriminate.
    apply (tokenise_items (dst_cfg ms) t 0) in Hit. simpl in Hit. discriminate.
  - now apply guard_subst.
  - apply val_ok_subst; [exact Hpath | apply tokenise_val_ok].
  - intros j Hj. apply in_subst_tok in Hj. destruct Hj as [Hj _].
    apply (tokenise_items (dst_cfg ms) t 0) in Hj. exact Hj.
Qed.

(* ---------------- corollaries ---------------- *)

Lemma tokenise_skip c u : forall s, tokenise c (length u) (u ++ s) = tokenise c 0 s.
Proof. induction u as [|x u IH]; intros s; [reflexivity|]. simpl. apply IH. Qed.

(* the query is inserted verbatim, whatever it contains *)
Lemma query_inert ms q : Forall dollar_free ms -> resolve_source pat_query ms q = q.
Proof.
  intros Hms. rewrite source_equals_single_pass by (try exact Hms; reflexivity).
  unfold single_pass_source, single_pass, flatten_with. simpl. apply app_nil_r.
Qed.

Lemma find_g_exact n k : (1 <= k <= n)%nat -> find_g n (pat_g k) = Some k.
Proof.
  induction n as [|n IH]; intros Hk; [lia|]. cbn [find_g].
  destruct (Nat.eq_dec k (S n)) as [->|Hne].
  - rewrite <- (app_nil_r (pat_g (S n))) at 2. now rewrite prefixb_app.
  - destruct (prefixb (pat_g (S n)) (pat_g k)) eqn:E; [|apply IH; lia]. exfalso.
    apply prefixb_spec in E. destruct E as [t E]. simpl in E. inversion E as [E'].
    apply dec_prefix_le in E'. lia.
Qed.

Lemma tokenise_tok c t s :
  token_at c (pat t ++ s) = Some t -> tokenise c 0 (pat t ++ s) = Tok t :: tokenise c 0 s.
Proof.
  intros Ht. pose proof (pat_nonempty t) as Hne.
  remember (pat t) as pt eqn:Ep. destruct pt as [|p0 ptl]; [congruence|].
  change ((p0 :: ptl) ++ s) with (p0 :: (ptl ++ s)) in *. cbn [tokenise]. rewrite Ht. f_equal.
  rewrite <- Ep. replace (length (p0 :: ptl) - 1)%nat with (length ptl) by (simpl; lia).
  apply tokenise_skip.
Qed.

Lemma tokenise_one_group c k :
  (1 <= k <= ngroups c)%nat -> tokenise c 0 (pat_g k) = [Tok (TG k)].
Proof.
  intros Hk.
  assert (token_at c (pat_g k) = Some (TG k)) as Ht.
  { unfold token_at. replace (prefixb pat_path (pat_g k)) with false by reflexivity.
    replace (prefixb pat_query (pat_g k)) with false by reflexivity.
    rewrite !andb_false_r. now rewrite find_g_exact. }
  pose proof (tokenise_tok c (TG k) []) as H. rewrite app_nil_r in H. exact (H Ht).
Qed.

(* $G<k> alone is group k, for every k up to the number of groups: multi-digit indices included *)
Lemma multidigit_source ms q k :
  (1 <= k <= length ms - 1)%nat -> Forall dollar_free ms -> resolve_source (pat_g k) ms q = nth k ms [].
Proof.
  intros Hk Hms.
  assert (tokenise (src_cfg ms) 0 (pat_g k) = [Tok (TG k)]) as Ht by (apply tokenise_one_group; exact Hk).
  rewrite source_equals_single_pass; [|unfold template_ok; now rewrite Ht | exact Hms].
  unfold single_pass_source, single_pass. rewrite Ht. unfold flatten_with. simpl. apply app_nil_r.
Qed.

Lemma multidigit_dest ms path k :
  (1 <= k <= length ms - 1)%nat -> dollar_free path -> Forall dollar_free ms ->
  resolve_dest (pat_g k) path ms = nth k ms [].
Proof.
  intros Hk Hp Hms.
  assert (tokenise (dst_cfg ms) 0 (pat_g k) = [Tok (TG k)]) as Ht by (apply tokenise_one_group; exact Hk).
  rewrite dest_equals_single_pass; [|unfold template_ok; now rewrite Ht | exact Hp | exact Hms].
  unfold single_pass_dest, single_pass. rewrite Ht. unfold flatten_with. simpl. apply app_nil_r.
Qed.

(* boolean form of the preconditions *)
Lemma dollar_freeb_spec s : dollar_freeb s = true -> dollar_free s.
Proof.
  unfold dollar_freeb, dollar_free. intros H. rewrite forallb_forall in H. apply Forall_forall.
  intros c Hc. specialize (H c Hc). lia.
Qed.

(* ---------------- the full statement is false of the code: witnesses ---------------- *)

(* $$G1 with the group value MTX_QUERY (a valid path name): the chain builds $MTX_QUERY and replaces it *)
Definition w1_t : bytes := [36; 36; 71; 49].
Definition w1_ms : list bytes := [[77;84;88;95;81;85;69;82;89]; [77;84;88;95;81;85;69;82;89]].
Definition w1_q : bytes := [115; 61; 49].

Lemma source_refuted_stray_dollar :
  Forall dollar_free w1_ms /\ resolve_source w1_t w1_ms w1_q = [115; 61; 49] /\
  single_pass_source w1_t w1_ms w1_q = [36; 77;84;88;95;81;85;69;82;89].
Proof. split; [repeat constructor; lia | split; vm_compute; reflexivity]. Qed.

(* $G1$G11 with 11 groups, group 11 = 0: the chain builds $G10 and inserts group 10 *)
Definition w2_t : bytes := [36; 71; 49; 36; 71; 49; 49].
Definition w2_ms : list bytes := [[119]; [97]; [98]; [99]; [100]; [101]; [102]; [103]; [104]; [105]; [106]; [48]].

Lemma source_refuted_adjacent :
  Forall dollar_free w2_ms /\ resolve_source w2_t w2_ms [] = [106] /\
  single_pass_source w2_t w2_ms [] = [97; 48].
Proof. split; [repeat constructor; lia | split; vm_compute; reflexivity]. Qed.

(* destinations: $$MTX_PATH with the path name G1 *)
Definition w3_t : bytes := [36; 36; 77; 84; 88; 95; 80; 65; 84; 72].
Definition w3_ms : list bytes := [[71; 49]; [71; 49]].

Lemma dest_refuted_stray_dollar :
  dollar_free [71; 49] /\ Forall dollar_free w3_ms /\ resolve_dest w3_t [71; 49] w3_ms = [71; 49] /\
  single_pass_dest w3_t [71; 49] w3_ms = [36; 71; 49].
Proof. split; [|split]; [repeat constructor; lia | repeat constructor; lia | split; vm_compute; reflexivity]. Qed.

Lemma source_full_statement_refuted :
  ~ (forall t ms q, Forall dollar_free ms -> resolve_source t ms q = single_pass_source t ms q).
Proof.
  intros H. destruct source_refuted_adjacent as (Hf & H1 & H2).
  specialize (H w2_t w2_ms [] Hf). rewrite H1, H2 in H. discriminate.
Qed.

Lemma dest_full_statement_refuted :
  ~ (forall t path ms, dollar_free path -> Forall dollar_free ms ->
                       resolve_dest t path ms = single_pass_dest t path ms).
Proof.
  intros H. destruct dest_refuted_stray_dollar as (Hp & Hf & H1 & H2).
  specialize (H w3_t [71; 49] w3_ms Hp Hf). rewrite H1, H2 in H. discriminate.
Qed.
