(* Proofs about Model/C35_SessionConc.v: the lock / ownership discipline is sound (no schedule of a pool of
   well-formed handler programs reaches a panic, a fatal unlock or an unprotected access; the mutex holder is never
   blocked), the session's handlers are well-formed, the neighbouring statement orders are not and do panic. *)
From Coq Require Import List ZArith Bool Arith Lia.
Require Import MTX.Model.C35_PreAuth MTX.Model.C35_SessionConc.
Import ListNotations.
Local Open Scope nat_scope.

(* ---- lists ---------------------------------------------------------------------------------------------------- *)

Lemma nth_error_upd_same : forall A (l : list A) i x y, nth_error l i = Some y -> nth_error (upd i x l) i = Some x.
Proof. induction l as [|a l IH]; intros [|i] x y H; simpl in *; try discriminate; eauto. Qed.

Lemma nth_error_upd_other : forall A (l : list A) i j x, i <> j -> nth_error (upd i x l) j = nth_error l j.
Proof.
  induction l as [|a l IH]; intros [|i] [|j] x H; simpl in *; try reflexivity; try congruence.
  apply IH. congruence.
Qed.

Lemma nth_error_upd_inv : forall A (l : list A) i j x y z,
  nth_error l i = Some z -> nth_error (upd i x l) j = Some y -> (j = i /\ y = x) \/ (j <> i /\ nth_error l j = Some y).
Proof.
  intros A l i j x y z Hi Hj. destruct (Nat.eq_dec j i) as [->|Hne].
  - left. rewrite (nth_error_upd_same _ _ _ _ _ Hi) in Hj. split; congruence.
  - right. rewrite nth_error_upd_other in Hj by congruence. auto.
Qed.

(* ---- the invariant ---------------------------------------------------------------------------------------------- *)

Record thread_ok (g : sess) (i : nat) (t : thread) : Prop := {
  ok_wf : wf (t_holds t) (t_abs t) (t_ops t) = true;
  ok_alt : forall alt, t_alt t = Some alt -> wf false abs0 alt = true /\ t_holds t = false /\ t_abs t = abs0;
  ok_lock : t_holds t = true <-> g_lock g = LThread i;
  ok_on : t_holds t = true -> t_on t = true /\ t_res t = None;
  ok_k : a_k (t_abs t) = true -> t_holds t = true /\ g_setup g = false;
  ok_ki : a_ki (t_abs t) = true -> t_holds t = true /\ g_st g = SIdle;
  ok_tok : forall s, a_tok (t_abs t) = Some s -> s <> SIdle /\ g_st g = s;
  ok_tp : a_tok (t_abs t) = Some SPublish -> g_ready g = false;
  ok_tr : a_tok (t_abs t) = Some SRead -> g_tracks g = None;
  ok_kt : forall n, a_kt (t_abs t) = Some n -> n < ntracks g;
  ok_rdy : a_rdy (t_abs t) = true -> g_ready g = true;
  ok_kn : a_kn (t_abs t) = true -> g_st g <> SIdle
}.

Definition ginv (g : sess) : Prop :=
  (g_st g <> SPublish -> g_ready g = false) /\ (g_st g <> SRead -> g_tracks g = None).

Definition Inv (g : sess) (ts : list thread) : Prop :=
  (forall i t, nth_error ts i = Some t -> thread_ok g i t) /\
  (forall i j ti tj, nth_error ts i = Some ti -> nth_error ts j = Some tj -> i <> j ->
     a_tok (t_abs ti) <> None -> a_tok (t_abs tj) = None) /\
  (forall i, g_lock g = LThread i -> exists t, nth_error ts i = Some t) /\
  ginv g.

(* how one statement of goroutine i (state ti before it) may change the fields the invariant talks about *)
Inductive gch (g : sess) (i : nat) (ti : thread) : sess -> Prop :=
| gch_same g' : g_lock g' = g_lock g -> g_setup g' = g_setup g -> g_ready g' = g_ready g -> g_st g' = g_st g ->
                g_tracks g' = g_tracks g -> gch g i ti g'
| gch_lock : g_lock g = LFree -> gch g i ti (set_lock g (LThread i))
| gch_unlock : g_lock g = LThread i -> gch g i ti (set_lock g LFree)
| gch_setup : a_k (t_abs ti) = true -> gch g i ti (set_setup g)
| gch_st s : a_ki (t_abs ti) = true -> s <> SIdle -> gch g i ti (set_st g s)
| gch_tracks k : a_tok (t_abs ti) = Some SRead -> gch g i ti (set_tracks g k)
| gch_ready : a_tok (t_abs ti) = Some SPublish -> gch g i ti (set_ready g).

Lemma ntracks_eq g g' : g_tracks g' = g_tracks g -> ntracks g' = ntracks g.
Proof. unfold ntracks. intros ->. reflexivity. Qed.

Ltac crush :=
  simpl in *; intros;
  solve [ auto | congruence | tauto | intuition congruence | intuition (try congruence; eauto)
        ].

(* the other goroutines' view survives *)
Lemma frame : forall g i ti g' j tj,
  thread_ok g i ti -> gch g i ti g' -> j <> i -> thread_ok g j tj ->
  (a_tok (t_abs ti) <> None -> a_tok (t_abs tj) = None) ->
  thread_ok g' j tj.
Proof.
  intros g i ti g' j tj Hi Hch Hne Hj Huniq.
  destruct Hi as [_ _ HiL _ HiK HiKi HiTok HiTp HiTr _ _ _].
  destruct Hj as [Hwf Halt HjL Hon HjK HjKi HjTok HjTp HjTr HjKt HjRdy HjKn].
  assert (Hfree : g_lock g = LFree \/ g_lock g = LThread i -> t_holds tj = false).
  { intros H. destruct (t_holds tj) eqn:E; auto. destruct HjL as [H1 _]. specialize (H1 eq_refl).
    destruct H; congruence. }
  destruct Hch as [g' E1 E2 E3 E4 E5 | HF | HL | Hk | s Hki Hs | k Ht | Ht].
  - constructor; rewrite ?E1, ?E2, ?E3, ?E4, ?E5, ?(ntracks_eq _ _ E5); auto.
  - (* i locks: the lock was free, so j does not hold it *)
    assert (Hh : t_holds tj = false) by auto.
    constructor; simpl; auto.
    split; intros H; [congruence | inversion H; congruence].
  - assert (Hh : t_holds tj = false) by auto.
    constructor; simpl; auto.
    split; intros H; congruence.
  - (* i closes setupReceived under the lock: j, which does not hold the lock, knows nothing about it *)
    destruct (HiK Hk) as [Hih _]. apply HiL in Hih.
    assert (Hh : t_holds tj = false) by auto.
    constructor; simpl; auto.
    intros H. destruct (HjK H). congruence.
  - (* i moves the state away from idle under the lock: nobody owned anything *)
    destruct (HiKi Hki) as [Hih Hidle]. apply HiL in Hih.
    assert (Hh : t_holds tj = false) by auto.
    assert (Hnt : a_tok (t_abs tj) = None).
    { destruct (a_tok (t_abs tj)) as [s'|] eqn:E; auto. destruct (HjTok s' eq_refl). congruence. }
    constructor; simpl; auto.
    + intros H. destruct (HjKi H). congruence.
    + intros s' H. congruence.
  - (* i, owner of the read token, installs the stream *)
    assert (Hnt : a_tok (t_abs tj) = None) by (apply Huniq; congruence).
    assert (Hnone : g_tracks g = None) by auto.
    constructor; simpl; auto.
    + intros H. congruence.
    + intros n Hn. specialize (HjKt n Hn). unfold ntracks in HjKt. rewrite Hnone in HjKt. lia.
  - (* i, owner of the publish token, closes publishReady *)
    assert (Hnt : a_tok (t_abs tj) = None) by (apply Huniq; congruence).
    constructor; simpl; auto.
    intros H. congruence.
Qed.

Lemma ginv_gch : forall g i ti g', thread_ok g i ti -> ginv g -> gch g i ti g' -> ginv g'.
Proof.
  intros g i ti g' Hi [G1 G2] Hch.
  destruct Hi as [_ _ _ _ _ HiKi HiTok _ _ _ _ _].
  destruct Hch as [g' E1 E2 E3 E4 E5 | HF | HL | Hk | s Hki Hs | k Ht | Ht]; unfold ginv; simpl; auto.
  - rewrite E3, E4, E5. auto.
  - destruct (HiKi Hki) as [_ Hidle]. split; intros _; [apply G1 | apply G2]; congruence.
  - destruct (HiTok _ Ht) as [_ Hst]. split; auto. intros H. congruence.
  - destruct (HiTok _ Ht) as [_ Hst]. split; auto. intros H. congruence.
Qed.

(* ---- one statement ------------------------------------------------------------------------------------------------ *)

Ltac solve_gch :=
  first [ solve [apply gch_same; simpl; auto; destruct_holds_in_goal]
        | solve [apply gch_lock; simpl; auto]
        | solve [apply gch_unlock; simpl; auto]
        | solve [apply gch_setup; simpl; auto]
        | solve [apply gch_st; simpl; auto; congruence]
        | solve [apply gch_tracks; simpl; auto]
        | solve [apply gch_ready; simpl; auto] ]
with destruct_holds_in_goal := idtac.

Definition ghost_after (t t' : thread) : ghost :=
  match t_ops t, t_res t' with
  | o :: _, None => learn (t_holds t) (t_abs t) o
  | _, _ => a_set (t_abs t) false false
  end.

Definition exec_post (c : cfg) (g : sess) (i : nat) (t : thread) (ch : nat) : Prop :=
  match exec c g i t ch with
  | XPanic | XUnprotected => False
  | XBlocked => t_holds t = false
  | XOk g' t' =>
      gch g i t g' /\ thread_ok g' i (t_set_abs t' (ghost_after t t')) /\
      (a_tok (ghost_after t t') = a_tok (t_abs t) \/ a_tok (ghost_after t t') = None \/ a_ki (t_abs t) = true)
  end.

Lemma tok_is_true a s : tok_is a s = true -> a_tok a = Some s.
Proof. unfold tok_is. destruct (a_tok a) as [[]|]; destruct s; simpl; congruence. Qed.
Lemma kt_is_true a n : kt_is a n = true -> a_kt a = Some n.
Proof. unfold kt_is. destruct (a_kt a); try discriminate. intros H. apply Nat.eqb_eq in H. congruence. Qed.

Lemma st_eqb_eq a b : st_eqb a b = true <-> a = b.
Proof. destruct a, b; simpl; split; congruence. Qed.
Lemma st_eqb_neq a b : st_eqb a b = false <-> a <> b.
Proof. destruct a, b; simpl; split; congruence. Qed.
Lemma pick3_0 ch a b c : pick3 ch a b c = Some 0 -> a = true.
Proof. destruct ch as [|[|[|ch]]], a, b, c; simpl; congruence. Qed.
Lemma pick3_1 ch a b c : pick3 ch a b c = Some 1 -> b = true.
Proof. destruct ch as [|[|[|ch]]], a, b, c; simpl; congruence. Qed.

Ltac break_exec Hres :=
  repeat (lazymatch goal with
          | |- match ?E with _ => _ end =>
              match E with
              | context [match ?x with _ => _ end] => destruct x eqn:?
              end
          end; simpl; rewrite ?Hres; simpl).

Lemma exec_sound : forall c g i t ch,
  thread_ok g i t -> ginv g -> t_alt t = None -> t_on t = true -> t_res t = None -> exec_post c g i t ch.
Proof.
  intros c g i t ch Hok [G1 G2] Halt Hon Hres.
  pose proof Hok as Hok0.
  destruct Hok as [Hwf _ HL _ HK HKi HTok HTp HTr HKt HRdy HKn].
  unfold exec_post, exec, ghost_after.
  destruct (t_ops t) as [|o r] eqn:Eops.
  { simpl in Hwf. destruct (t_holds t); simpl in *; congruence. }
  simpl in Hwf. apply andb_prop in Hwf. destruct Hwf as [Hreq Hrest].
  destruct o; simpl in Hreq, Hrest.
  all: destruct (t_holds t) eqn:Eh; simpl in Hreq; try discriminate.
  all: repeat match goal with H : _ && _ = true |- _ => apply andb_prop in H; destruct H end.
  all: repeat match goal with
              | H : tok_is _ _ = true |- _ => apply tok_is_true in H
              | H : kt_is _ _ = true |- _ => apply kt_is_true in H
              | H : negb _ = true |- _ => apply negb_true_iff in H
              | H : st_eqb _ _ = false |- _ => apply st_eqb_neq in H
              end.
  all: try (assert (Hlk : g_lock g = LThread i) by (apply HL; reflexivity)).
  all: try match goal with st : sstate |- _ => destruct st end.
  all: unfold ret; simpl; rewrite ?Hres, ?Eh, ?Hlk; simpl.
  all: break_exec Hres.
  all: rewrite ?Hres, ?Eh; simpl.
  all: repeat match goal with
              | H : st_eqb _ _ = true |- _ => apply st_eqb_eq in H
              | H : st_eqb _ _ = false |- _ => apply st_eqb_neq in H
              | H : pick3 _ _ _ _ = Some 0 |- _ => apply pick3_0 in H
              | H : pick3 _ _ _ _ = Some 1 |- _ => apply pick3_1 in H
              | H : (_ <? _) = false |- _ => apply Nat.ltb_ge in H
              | H : (_ <? _) = true |- _ => apply Nat.ltb_lt in H
              | H : (_ <=? _) = false |- _ => apply Nat.leb_gt in H
              | H : (_ <=? _) = true |- _ => apply Nat.leb_le in H
              end.
  all: try reflexivity.
  all: try solve [exfalso; crush].
  all: try solve [exfalso; match goal with H : a_kt _ = Some _ |- _ => apply HKt in H; lia end].
  all: try (split; [ solve_gch | split; [ constructor; simpl; try assumption; try crush | simpl; auto ] ]).
  - apply negb_false_iff in Heqb. apply st_eqb_eq in Heqb. apply HKn; auto.
  - intros n0 E. inversion E; subst.
    match goal with H : (_ <=? _) = false |- _ => apply Nat.leb_gt in H; lia end.
  - intros n0 Hn. apply HKt in Hn. unfold ntracks in Hn. rewrite HTr in Hn by assumption. lia.
Qed.

