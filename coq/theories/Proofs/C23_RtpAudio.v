(* Proofs about the Opus (rtpsimpleaudio) and G.711 / LPCM (rtplpcm) packetizer models (Model/C23_RtpAudio.v):
   payload size, sequence numbers, per-packet timestamps, and the stateless decoder giving the unit back. *)
From Coq Require Import List ZArith Bool Lia Arith.
Require Import MTX.Lib.IntWrap MTX.Model.C23_RtpH264 MTX.Model.C23_RtpH265 MTX.Model.C23_RtpAudio.
Require Import MTX.Proofs.C23_RtpH264 MTX.Proofs.C23_RtpH264Seq.
Import ListNotations.
Local Open Scope Z_scope.

(* what every encoder call guarantees about sequence numbers and SSRC (enc_post without "Timestamp = 0") *)
Definition enc_post0 (e : enc) (pkts : list packet) (e' : enc) : Prop :=
  seq_chain e.(e_seq) pkts /\ e'.(e_seq) = adv e.(e_seq) (length pkts)
  /\ Forall (fun p => p.(p_ssrc) = e.(e_ssrc)) pkts
  /\ e'.(e_max) = e.(e_max) /\ e'.(e_ssrc) = e.(e_ssrc).

Lemma enc_post_post0 e pkts e' : enc_post e pkts e' -> enc_post0 e pkts e'.
Proof.
  intros (A1 & A2 & A3 & A4 & A5). repeat split; try assumption.
  rewrite Forall_forall in *. intros p Hp. apply (A3 p Hp).
Qed.

Lemma enc_post0_nil e : enc_post0 e [] e.
Proof. unfold enc_post0. cbn. repeat split; constructor. Qed.

Lemma enc_post0_cons e p r e' :
  p.(p_seq) = e.(e_seq) -> p.(p_ssrc) = e.(e_ssrc) -> enc_post0 (bump e) r e' -> enc_post0 e (p :: r) e'.
Proof.
  intros Hs Hss (A1 & A2 & A3 & A4 & A5). unfold enc_post0. cbn [seq_chain length adv bump e_seq e_max e_ssrc] in *.
  repeat split; try assumption. constructor; assumption.
Qed.

Lemma wrapu32_add a b : wrapu32 (wrapu32 a + wrapu32 b) = wrapu32 (a + b).
Proof. unfold wrapu32, two32. rewrite <- Zplus_mod. reflexivity. Qed.

Lemma wrapu32_add_l a b : wrapu32 (wrapu32 a + b) = wrapu32 (a + b).
Proof. unfold wrapu32, two32. rewrite Zplus_mod_idemp_l. reflexivity. Qed.

(* ------------------------------------------------------------------ Opus *)

(* start time of every packet: running sum of the durations *)
Fixpoint starts (acc : Z) (ds : list Z) : list Z :=
  match ds with [] => [] | d :: r => acc :: starts (acc + d) r end.

Lemma opus_loop_spec : forall frames e pts,
  let r := opus_loop e pts frames in
  map p_payload (fst r) = frames
  /\ map p_ts (fst r) = map wrapu32 (starts pts (map opus_duration frames))
  /\ Forall (fun p => p.(p_marker) = false) (fst r)
  /\ enc_post0 e (fst r) (snd r).
Proof.
  induction frames as [|f fr IH]; intros e pts.
  - cbn. repeat split; constructor.
  - cbn [opus_loop]. specialize (IH (bump e) (pts + opus_duration f)).
    destruct (opus_loop (bump e) (pts + opus_duration f) fr) as [ps e1]. cbn [fst snd] in *.
    destruct IH as (I1 & I2 & I3 & I4). cbn [map starts p_payload p_ts]. rewrite I1, I2.
    split; [reflexivity|]. split; [reflexivity|]. split.
    + constructor; [reflexivity|exact I3].
    + apply enc_post0_cons; [reflexivity|reflexivity|exact I4].
Qed.

Theorem opus_encode_ok e frames : exists pkts e', opus_encode e frames = inl (Ok (pkts, e')).
Proof. unfold opus_encode. destruct (opus_loop e 0 frames) as [p e']. exists p, e'. reflexivity. Qed.

(* one packet per Opus packet, carrying it unchanged *)
Theorem opus_encode_payloads e frames pkts e' :
  opus_encode e frames = inl (Ok (pkts, e')) -> map p_payload pkts = frames.
Proof.
  unfold opus_encode. intros H. injection H as H. pose proof (opus_loop_spec frames e 0) as (A & _).
  rewrite H in A. exact A.
Qed.

(* the size bound holds exactly when every Opus packet fits: RTP/Opus cannot fragment *)
Theorem opus_encode_size e frames pkts e' :
  opus_encode e frames = inl (Ok (pkts, e')) ->
  (Forall (fun f => blen f <= e.(e_max)) frames <-> Forall (fun p => blen p.(p_payload) <= e.(e_max)) pkts).
Proof.
  intros H. apply opus_encode_payloads in H. rewrite <- H. rewrite Forall_map. tauto.
Qed.

Theorem opus_encode_post e frames pkts e' :
  opus_encode e frames = inl (Ok (pkts, e')) -> enc_post0 e pkts e' /\ length pkts = length frames.
Proof.
  unfold opus_encode. intros H. injection H as H. pose proof (opus_loop_spec frames e 0) as (A & _ & _ & D).
  rewrite H in A, D. cbn [fst snd] in *. split; [exact D|]. rewrite <- A, map_length. reflexivity.
Qed.

(* packet i starts at the sum of the durations (48 kHz units) of the Opus packets before it *)
Theorem opus_encode_ts e frames pkts e' :
  opus_encode e frames = inl (Ok (pkts, e')) ->
  map p_ts pkts = map wrapu32 (starts 0 (map opus_duration frames))
  /\ Forall (fun p => p.(p_marker) = false) pkts.
Proof.
  unfold opus_encode. intros H. injection H as H. pose proof (opus_loop_spec frames e 0) as (_ & B & C & _).
  rewrite H in B, C. split; assumption.
Qed.

Lemma simple_decode_stamp delta p : simple_decode (stamp delta p) = simple_decode p.
Proof. reflexivity. Qed.

Lemma simple_run_payloads delta pkts :
  Forall (fun p => p.(p_payload) <> []) pkts ->
  simple_run (map (stamp delta) pkts) = map (fun p => DOk [p.(p_payload)]) pkts.
Proof.
  induction 1 as [|p r Hp _ IH]; [reflexivity|]. unfold simple_run in *. cbn [map]. rewrite IH. f_equal.
  rewrite simple_decode_stamp. unfold simple_decode. destruct (p_payload p); [congruence|reflexivity].
Qed.

(* decode (encode unit) = unit: the stateless decoder returns Opus packet i for RTP packet i *)
Theorem opus_roundtrip e frames pkts e' delta :
  Forall (fun f => f <> []) frames -> opus_encode e frames = inl (Ok (pkts, e')) ->
  simple_run (map (stamp delta) pkts) = map (fun f => DOk [f]) frames.
Proof.
  intros Hne H. apply opus_encode_payloads in H. subst frames.
  rewrite simple_run_payloads by (rewrite Forall_map in Hne; exact Hne).
  rewrite map_map. reflexivity.
Qed.

(* the precondition of the size bound is necessary: an Opus packet longer than the maximum goes out as it is *)
Theorem opus_oversized_goes_out :
  exists e frames pkts e', opus_encode e frames = inl (Ok (pkts, e'))
    /\ exists p, In p pkts /\ blen p.(p_payload) > e.(e_max).
Proof.
  exists (mkenc 4 7 0), [[8; 1; 2; 3; 4; 5]]. eexists. eexists. split; [vm_compute; reflexivity|].
  eexists. split; [left; reflexivity|]. vm_compute. reflexivity.
Qed.

(* ------------------------------------------------------------------ G.711 / LPCM *)

Lemma lpcm_max_payload_spec max ss :
  0 < ss <= max ->
  let mp := lpcm_max_payload max ss in
  0 < mp <= max /\ mp = (max / ss) * ss /\ 1 <= max / ss /\ Z.quot mp ss = max / ss.
Proof.
  intros H. unfold lpcm_max_payload. rewrite Z.quot_div_nonneg by lia.
  assert (H1 : 1 <= max / ss) by (apply Z.div_le_lower_bound; lia).
  pose proof (Z.mul_div_le max ss ltac:(lia)) as H2.
  repeat split; try nia.
  rewrite Z.quot_div_nonneg by nia. apply Z.div_mul. lia.
Qed.

(* the loop with S k packets to go, when k full packets plus a non-empty rest remain *)
Lemma lpcm_loop_spec : forall k ss mp T samples e,
  (0 < mp)%nat -> (k * mp < length samples <= S k * mp)%nat ->
  let r := lpcm_loop (S k) ss mp (wrapu32 T) samples e in
  let q := Z.quot (Z.of_nat mp) ss in
  concat (map p_payload (fst r)) = samples
  /\ map (fun p => length p.(p_payload)) (fst r) = repeat mp k ++ [(length samples - k * mp)%nat]
  /\ (forall i d, (i <= k)%nat -> p_ts (nth i (fst r) d) = wrapu32 (T + Z.of_nat i * q))
  /\ Forall (fun p => p.(p_marker) = false) (fst r)
  /\ enc_post0 e (fst r) (snd r).
Proof.
  induction k as [|k IH]; intros ss mp T samples e Hmp Hlen r q.
  - subst r. cbn [lpcm_loop].
    assert (Hps : (if (length samples <? mp)%nat then length samples else mp) = length samples).
    { destruct (length samples <? mp)%nat eqn:E; [reflexivity|]. apply Nat.ltb_ge in E. lia. }
    rewrite Hps, firstn_all. cbn [fst snd map concat p_payload repeat app].
    rewrite app_nil_r. split; [reflexivity|]. split; [|split; [|split]].
    + f_equal. lia.
    + intros i d Hi. assert (i = 0%nat) by lia. subst i. cbn [nth p_ts]. f_equal. lia.
    + constructor; [reflexivity|constructor].
    + apply enc_post0_cons; [reflexivity|reflexivity|apply enc_post0_nil].
  - subst r. remember (S k) as k1 eqn:Ek1. cbn [lpcm_loop].
    assert (Hps : (if (length samples <? mp)%nat then length samples else mp) = mp).
    { destruct (length samples <? mp)%nat eqn:E; [|reflexivity]. apply Nat.ltb_lt in E. nia. }
    rewrite Hps. rewrite wrapu32_add. fold q.
    specialize (IH ss mp (T + q) (skipn mp samples) (bump e) Hmp).
    assert (Hsk : length (skipn mp samples) = (length samples - mp)%nat) by apply skipn_length.
    rewrite Ek1 in *. specialize (IH ltac:(rewrite Hsk; nia)).
    cbv zeta in IH. fold q in IH.
    destruct (lpcm_loop (S k) ss mp (wrapu32 (T + q)) (skipn mp samples) (bump e)) as [ps e1].
    cbn [fst snd] in *. destruct IH as (I1 & I2 & I3 & I4 & I5).
    cbn [map concat p_payload]. split; [|split; [|split; [|split]]].
    + rewrite I1. apply firstn_skipn.
    + rewrite I2, firstn_length, Hsk. cbn [repeat app]. f_equal; [lia|]. f_equal. f_equal. lia.
    + intros i d Hi. destruct i as [|i].
      * cbn [nth p_ts]. f_equal. lia.
      * cbn [nth]. rewrite I3 by lia. f_equal. lia.
    + constructor; [reflexivity|exact I4].
    + apply enc_post0_cons; [reflexivity|reflexivity|exact I5].
Qed.

(* everything about one Encode call, under the encoder's own precondition: a sample of all channels fits *)
Theorem lpcm_encode_spec ss e samples :
  0 < ss <= e.(e_max) ->
  let mp := lpcm_max_payload e.(e_max) ss in
  exists pkts e', lpcm_encode ss e samples = inl (Ok (pkts, e'))
    /\ concat (map p_payload pkts) = samples
    /\ Forall (fun p => 0 < blen p.(p_payload) <= mp) pkts
    /\ (forall i d, (S i < length pkts)%nat -> blen (p_payload (nth i pkts d)) = mp)
    /\ (forall i d, (i < length pkts)%nat -> p_ts (nth i pkts d) = wrapu32 (Z.of_nat i * (e.(e_max) / ss)))
    /\ Forall (fun p => p.(p_marker) = false) pkts
    /\ enc_post0 e pkts e'
    /\ (samples <> [] -> (1 <= length pkts)%nat).
Proof.
  intros Hss mp. pose proof (lpcm_max_payload_spec _ _ Hss) as (Hmp & Hmpq & Hq & Hquot). fold mp in Hmp, Hmpq, Hquot.
  unfold lpcm_encode. fold mp.
  destruct (ss <=? 0) eqn:E1; [apply Z.leb_le in E1; lia|].
  destruct (mp <=? 0) eqn:E2; [apply Z.leb_le in E2; lia|]. cbn [orb].
  pose proof (packet_count_spec mp (blen samples) ltac:(lia) (blen_nonneg samples)) as (P1 & P2 & P3).
  set (pc := packet_count mp (blen samples)) in *.
  destruct (Z.to_nat pc) as [|k] eqn:Ek.
  - (* no samples: no packets *)
    assert (Hs : samples = []).
    { destruct samples; [reflexivity|]. rewrite blen_cons in *. pose proof (blen_nonneg samples). nia. }
    subst samples. cbn [lpcm_loop]. exists [], e.
    split; [reflexivity|]. split; [reflexivity|]. split; [constructor|].
    split; [cbn; intros; lia|]. split; [cbn; intros; lia|]. split; [constructor|].
    split; [apply enc_post0_nil|congruence].
  - assert (Hpc : pc = Z.of_nat (S k)) by lia.
    assert (Hpos : 0 < blen samples).
    { destruct samples; [cbn in *; nia|]. rewrite blen_cons. pose proof (blen_nonneg samples). lia. }
    specialize (P2 Hpos).
    assert (Hmpn : Z.of_nat (Z.to_nat mp) = mp) by lia.
    pose proof (lpcm_loop_spec k ss (Z.to_nat mp) 0 samples e ltac:(lia)) as HL.
    assert (Hrange : (k * Z.to_nat mp < length samples <= S k * Z.to_nat mp)%nat).
    { unfold blen in *. split.
      - apply Nat2Z.inj_lt. rewrite Nat2Z.inj_mul, Hmpn. nia.
      - apply Nat2Z.inj_le. rewrite Nat2Z.inj_mul, Hmpn. nia. }
    specialize (HL Hrange). cbv zeta in HL. rewrite Hmpn, Hquot in HL.
    change (wrapu32 0) with 0 in HL.
    destruct (lpcm_loop (S k) ss (Z.to_nat mp) 0 samples e) as [pkts e'] eqn:EL. cbn [fst snd] in HL.
    destruct HL as (L1 & L2 & L3 & L4 & L5).
    assert (Hlen : length pkts = S k).
    { rewrite <- (map_length (fun p => length (p_payload p))), L2, app_length, repeat_length. cbn. lia. }
    exists pkts, e'.
    split; [reflexivity|]. split; [exact L1|]. split; [|split; [|split; [|split; [exact L4|split; [exact L5|intros _; lia]]]]].
    + rewrite Forall_forall. intros p Hp.
      assert (Hin : In (length (p_payload p)) (repeat (Z.to_nat mp) k ++ [(length samples - k * Z.to_nat mp)%nat])).
      { rewrite <- L2. apply in_map_iff. exists p. split; [reflexivity|exact Hp]. }
      unfold blen. apply in_app_or in Hin. destruct Hin as [Hin|[Hin|[]]].
      * apply repeat_spec in Hin. lia.
      * lia.
    + intros i d Hi. rewrite Hlen in Hi.
      assert (Hn : nth i (map (fun p => length (p_payload p)) pkts) (length (p_payload d)) = Z.to_nat mp).
      { rewrite L2, app_nth1 by (rewrite repeat_length; lia).
        rewrite (nth_indep _ _ (Z.to_nat mp)) by (rewrite repeat_length; lia). apply nth_repeat. }
      pose proof (map_nth (fun p => length (p_payload p)) pkts d i) as Hm. cbv beta in Hm.
      rewrite Hm in Hn. unfold blen. lia.
    + intros i d Hi. rewrite Hlen in Hi. rewrite L3 by lia. f_equal.
Qed.

(* ---- the consequences, one by one ---- *)

Lemma inl_ok_pair {A B C} (x y : A) (u v : B) : @inl (res (A * B)) C (Ok (x, u)) = inl (Ok (y, v)) -> x = y /\ u = v.
Proof. intros H. injection H as H1 H2. split; assumption. Qed.

Theorem lpcm_encode_size ss e samples pkts e' :
  0 < ss <= e.(e_max) -> lpcm_encode ss e samples = inl (Ok (pkts, e')) ->
  Forall (fun p => blen p.(p_payload) <= e.(e_max)) pkts.
Proof.
  intros Hss H. destruct (lpcm_encode_spec ss e samples Hss) as (pk & e2 & H2 & _ & F & _).
  rewrite H in H2. apply inl_ok_pair in H2. destruct H2 as [-> ->].
  pose proof (lpcm_max_payload_spec _ _ Hss) as (Hmp & _).
  rewrite Forall_forall in *. intros p Hp. specialize (F p Hp). cbv zeta in Hmp. lia.
Qed.

(* sample-aligned: when the unit holds whole samples, so does every packet *)
Theorem lpcm_encode_aligned ss e samples pkts e' :
  0 < ss <= e.(e_max) -> lpcm_encode ss e samples = inl (Ok (pkts, e')) ->
  (blen samples) mod ss = 0 -> Forall (fun p => (blen p.(p_payload)) mod ss = 0) pkts.
Proof.
  intros Hss H Hal. destruct (lpcm_encode_spec ss e samples Hss) as (pk & e2 & H2 & Hc & _ & Hfull & _).
  rewrite H in H2. apply inl_ok_pair in H2. destruct H2 as [<- <-].
  pose proof (lpcm_max_payload_spec _ _ Hss) as (_ & Hmpq & _). cbv zeta in Hmpq, Hfull.
  set (mp := lpcm_max_payload (e_max e) ss) in *.
  assert (Hmpm : mp mod ss = 0) by (rewrite Hmpq; apply Z.mod_mul; lia).
  (* all packets but the last have mp bytes; the last one has the rest *)
  assert (Hgen : forall l : list packet,
            (forall i d, (S i < length l)%nat -> blen (p_payload (nth i l d)) = mp) ->
            (blen (concat (map p_payload l))) mod ss = 0 -> Forall (fun p => (blen (p_payload p)) mod ss = 0) l).
  { induction l as [|p [|p2 r] IH]; intros Hf Hm.
    - constructor.
    - constructor; [|constructor]. cbn [map concat] in Hm. rewrite app_nil_r in Hm. exact Hm.
    - assert (Hp : blen (p_payload p) = mp) by (apply (Hf 0%nat p); cbn; lia).
      constructor; [rewrite Hp; exact Hmpm|]. apply IH.
      + intros i d Hi. apply (Hf (S i) d). cbn [length] in *. lia.
      + change (map p_payload (p :: p2 :: r)) with (p_payload p :: map p_payload (p2 :: r)) in Hm.
        cbn [concat] in Hm. rewrite blen_app, Hp in Hm.
        rewrite <- Z.add_mod_idemp_l, Hmpm, Z.add_0_l in Hm by lia. exact Hm. }
  apply Hgen; [exact Hfull|rewrite Hc; exact Hal].
Qed.

(* timestamps: packet i starts i * (PayloadMaxSize / sampleSize) samples after the first (mod 2^32) *)
Theorem lpcm_encode_ts ss e samples pkts e' :
  0 < ss <= e.(e_max) -> lpcm_encode ss e samples = inl (Ok (pkts, e')) ->
  (forall i d, (i < length pkts)%nat -> p_ts (nth i pkts d) = wrapu32 (Z.of_nat i * (e.(e_max) / ss)))
  /\ Forall (fun p => p.(p_marker) = false) pkts.
Proof.
  intros Hss H. destruct (lpcm_encode_spec ss e samples Hss) as (pk & e2 & H2 & _ & _ & _ & T & M & _).
  rewrite H in H2. apply inl_ok_pair in H2. destruct H2 as [<- <-]. split; assumption.
Qed.

Theorem lpcm_encode_post ss e samples pkts e' :
  0 < ss <= e.(e_max) -> lpcm_encode ss e samples = inl (Ok (pkts, e')) -> enc_post0 e pkts e'.
Proof.
  intros Hss H. destruct (lpcm_encode_spec ss e samples Hss) as (pk & e2 & H2 & _ & _ & _ & _ & _ & P & _).
  rewrite H in H2. apply inl_ok_pair in H2. destruct H2 as [<- <-]. exact P.
Qed.

Theorem lpcm_encode_total ss e samples :
  0 < ss <= e.(e_max) -> exists pkts e', lpcm_encode ss e samples = inl (Ok (pkts, e')).
Proof.
  intros Hss. destruct (lpcm_encode_spec ss e samples Hss) as (pk & e2 & H2 & _). exists pk, e2. exact H2.
Qed.

(* the samples of a decoded unit: concatenation of what the decoder returns for every packet *)
Fixpoint joined (outs : list dout) : option bytes :=
  match outs with
  | [] => Some []
  | DOk l :: r => match joined r with Some x => Some (concat l ++ x) | None => None end
  | _ :: _ => None
  end.

(* decode (encode samples) = samples: no packet is empty, and the payloads joined are the unit *)
Theorem lpcm_roundtrip ss e samples pkts e' delta :
  0 < ss <= e.(e_max) -> lpcm_encode ss e samples = inl (Ok (pkts, e')) ->
  joined (simple_run (map (stamp delta) pkts)) = Some samples /\ (samples <> [] -> (1 <= length pkts)%nat).
Proof.
  intros Hss H. destruct (lpcm_encode_spec ss e samples Hss) as (pk & e2 & H2 & Hc & F & _ & _ & _ & _ & Hn).
  rewrite H in H2. apply inl_ok_pair in H2. destruct H2 as [<- <-]. split; [|exact Hn].
  rewrite simple_run_payloads.
  - rewrite <- Hc. clear. induction pkts as [|p r IH]; [reflexivity|].
    cbn [map joined concat]. rewrite IH. rewrite app_nil_r. reflexivity.
  - rewrite Forall_forall in *. intros p Hp. specialize (F p Hp). intros E. rewrite E in F. cbn in F. lia.
Qed.

(* outside the precondition: a sample that does not fit makes the encoder divide by zero *)
Theorem lpcm_sample_must_fit ss e samples : e.(e_max) < ss -> 0 <= e.(e_max) -> lpcm_encode ss e samples = inl Panic.
Proof.
  intros H H0. unfold lpcm_encode, lpcm_max_payload. rewrite Z.quot_small by lia.
  destruct (ss <=? 0); reflexivity.
Qed.
