(* Proofs about Model/C12_ApiEdit.v *)
From Coq Require Import List ZArith Bool Lia Arith.
Require Import MTX.Model.C12_ApiEdit.
Import ListNotations.
Local Open Scope Z_scope.

(* ---- field maps ---------------------------------------------------------------------------------------------- *)
Lemma get_set_same k v m : get k (set k v m) = Some v.
Proof.
  induction m as [|[k' v'] r IH]; simpl.
  - now rewrite Z.eqb_refl.
  - destruct (k' =? k) eqn:E; simpl; [now rewrite Z.eqb_refl|now rewrite E].
Qed.

Lemma get_set_other k k' v m : k' <> k -> get k' (set k v m) = get k' m.
Proof.
  intros Hne. induction m as [|[k0 v0] r IH]; simpl.
  - destruct (k =? k') eqn:E; [apply Z.eqb_eq in E; congruence|reflexivity].
  - destruct (k0 =? k) eqn:E; simpl.
    + apply Z.eqb_eq in E. subst k0.
      destruct (k =? k') eqn:E2; [apply Z.eqb_eq in E2; congruence|reflexivity].
    + now rewrite IH.
Qed.

Lemma get_app k a b : get k (a ++ b) = match get k a with Some v => Some v | None => get k b end.
Proof. induction a as [|[k' v'] r IH]; simpl; [reflexivity|]. now destruct (k' =? k). Qed.

(* the value a patch gives to a field: its last occurrence (a decoded request has each field at most once) *)
Definition patch_val (k : Z) (p : fmap) : option Z := get k (rev p).

Lemma get_overlay k p : forall m,
  get k (overlay p m) = match patch_val k p with Some v => Some v | None => get k m end.
Proof.
  unfold overlay, patch_val. induction p as [|[k0 v0] p IH]; intros m; simpl; [reflexivity|].
  rewrite IH, get_app. destruct (get k (rev p)); [reflexivity|]. simpl.
  destruct (k0 =? k) eqn:E.
  - apply Z.eqb_eq in E. subst. apply get_set_same.
  - apply get_set_other. intros ->. now rewrite Z.eqb_refl in E.
Qed.

Lemma get_In k v m : get k m = Some v -> In (k, v) m.
Proof.
  induction m as [|[k' v'] r IH]; simpl; [discriminate|].
  destruct (k' =? k) eqn:E; [|auto]. apply Z.eqb_eq in E. intros [= ->]. subst. now left.
Qed.

Lemma get_none_notin k m : get k m = None -> ~ In k (map fst m).
Proof.
  induction m as [|[k' v'] r IH]; simpl; [tauto|].
  destruct (k' =? k) eqn:E; [discriminate|]. apply Z.eqb_neq in E. intros H [H1|H1]; [congruence|tauto].
Qed.

Lemma patch_val_nodup k p : NoDup (map fst p) -> patch_val k p = get k p.
Proof.
  unfold patch_val. induction p as [|[k0 v0] p IH]; simpl; [reflexivity|].
  intros Hnd. inversion Hnd as [|x l Hnot Hnd' Heq]; subst.
  rewrite get_app, IH by assumption. simpl. destruct (k0 =? k) eqn:E.
  - apply Z.eqb_eq in E. subst. destruct (get k p) eqn:G; [|reflexivity].
    exfalso. apply Hnot. apply get_In in G. change k with (fst (k, z)). now apply in_map.
  - now destruct (get k p).
Qed.

(* ---- name maps -------------------------------------------------------------------------------------------------- *)
Section PMapLemmas.
  Context {A : Type}.
  Implicit Types ps : list (Z * A).

  Lemma pget_pset_same n a ps : pget n (pset n a ps) = Some a.
  Proof.
    induction ps as [|[n' a'] r IH]; simpl.
    - now rewrite Z.eqb_refl.
    - destruct (n' =? n) eqn:E; simpl; [now rewrite Z.eqb_refl|now rewrite E].
  Qed.

  Lemma pget_pset_other n n' a ps : n' <> n -> pget n' (pset n a ps) = pget n' ps.
  Proof.
    intros Hne. induction ps as [|[n0 a0] r IH]; simpl.
    - destruct (n =? n') eqn:E; [apply Z.eqb_eq in E; congruence|reflexivity].
    - destruct (n0 =? n) eqn:E; simpl.
      + apply Z.eqb_eq in E. subst n0. destruct (n =? n') eqn:E2; [apply Z.eqb_eq in E2; congruence|reflexivity].
      + now rewrite IH.
  Qed.

  Lemma pget_pdel_same n ps : pget n (pdel n ps) = None.
  Proof.
    unfold pdel. induction ps as [|[n' a'] r IH]; simpl; [reflexivity|].
    destruct (n' =? n) eqn:E; simpl; [exact IH|now rewrite E].
  Qed.

  Lemma pget_pdel_other n n' ps : n' <> n -> pget n' (pdel n ps) = pget n' ps.
  Proof.
    intros Hne. unfold pdel. induction ps as [|[n0 a0] r IH]; simpl; [reflexivity|].
    destruct (n0 =? n) eqn:E; simpl.
    - apply Z.eqb_eq in E. subst n0. destruct (n =? n') eqn:E2; [apply Z.eqb_eq in E2; congruence|exact IH].
    - now rewrite IH.
  Qed.

  Lemma pget_In n a ps : pget n ps = Some a -> In (n, a) ps.
  Proof.
    induction ps as [|[n' a'] r IH]; simpl; [discriminate|].
    destruct (n' =? n) eqn:E; [|auto]. apply Z.eqb_eq in E. intros [= ->]. subst. now left.
  Qed.
End PMapLemmas.

Lemma pget_map {A B} (f : A -> B) n (ps : list (Z * A)) :
  pget n (map (fun e => (fst e, f (snd e))) ps) = option_map f (pget n ps).
Proof. induction ps as [|[n' a] r IH]; simpl; [reflexivity|]. now destruct (n' =? n). Qed.

Lemma pmem_map {A B} (f : A -> B) n (ps : list (Z * A)) :
  pmem n (map (fun e => (fst e, f (snd e))) ps) = pmem n ps.
Proof. unfold pmem. rewrite pget_map. now destruct (pget n ps). Qed.

Lemma pdel_map {A B} (f : A -> B) n (ps : list (Z * A)) :
  pdel n (map (fun e => (fst e, f (snd e))) ps) = map (fun e => (fst e, f (snd e))) (pdel n ps).
Proof.
  unfold pdel. induction ps as [|[n' a] r IH]; simpl; [reflexivity|].
  destruct (n' =? n); simpl; now rewrite IH.
Qed.

Lemma pset_map {A B} (f : A -> B) n a (ps : list (Z * A)) :
  pset n (f a) (map (fun e => (fst e, f (snd e))) ps) = map (fun e => (fst e, f (snd e))) (pset n a ps).
Proof.
  induction ps as [|[n' a'] r IH]; simpl; [reflexivity|].
  destruct (n' =? n); simpl; [reflexivity|now rewrite IH].
Qed.

Lemma In_snd_pset {A} n (a : A) ps x : In x (map snd (pset n a ps)) -> x = a \/ In x (map snd ps).
Proof.
  induction ps as [|[n' a'] r IH]; simpl.
  - intros [H|[]]; auto.
  - destruct (n' =? n); simpl; intros [H|H]; auto. destruct (IH H); auto.
Qed.

Lemma NoDup_snd_pset {A} n (a : A) ps : NoDup (map snd ps) -> ~ In a (map snd ps) -> NoDup (map snd (pset n a ps)).
Proof.
  induction ps as [|[n' a'] r IH]; simpl; intros Hnd Hnot.
  - constructor; [tauto|constructor].
  - inversion Hnd as [|x l Hx Hnd' Heq]; subst. destruct (n' =? n); simpl.
    + constructor; [tauto|assumption].
    + constructor.
      * intros Hin. apply In_snd_pset in Hin. destruct Hin as [->|Hin]; tauto.
      * apply IH; tauto.
Qed.

Lemma In_snd_pdel {A} n ps (x : A) : In x (map snd (pdel n ps)) -> In x (map snd ps).
Proof.
  unfold pdel. induction ps as [|[n' a'] r IH]; simpl; [tauto|].
  destruct (n' =? n); simpl; [auto|]. intros [H|H]; auto.
Qed.

Lemma NoDup_snd_pdel {A} n (ps : list (Z * A)) : NoDup (map snd ps) -> NoDup (map snd (pdel n ps)).
Proof.
  unfold pdel. induction ps as [|[n' a'] r IH]; simpl; intros Hnd; [constructor|].
  inversion Hnd as [|x l Hx Hnd' Heq]; subst. destruct (n' =? n); simpl; [auto|].
  constructor; [|auto]. intros Hin. apply Hx. exact (In_snd_pdel n r a' Hin).
Qed.

(* ---- memory ------------------------------------------------------------------------------------------------------- *)
Lemma cell_app_l h x a : (a < length h)%nat -> cell (h ++ x) a = cell h a.
Proof. intros H. unfold cell. now rewrite app_nth1. Qed.

Lemma cell_app_new h c : cell (h ++ [c]) (length h) = c.
Proof. unfold cell. rewrite app_nth2 by lia. now rewrite Nat.sub_diag. Qed.

Lemma length_upd a c h : length (upd a c h) = length h.
Proof. revert a. induction h as [|x r IH]; intros [|a]; simpl; auto. Qed.

Lemma cell_upd_same a c h : (a < length h)%nat -> cell (upd a c h) a = c.
Proof.
  unfold cell. revert a. induction h as [|x r IH]; intros [|a]; simpl; intros H; try lia; [reflexivity|].
  apply IH. lia.
Qed.

Lemma cell_upd_other a b c h : a <> b -> cell (upd a c h) b = cell h b.
Proof.
  unfold cell. revert a b. induction h as [|x r IH]; intros [|a] [|b]; simpl; intros H; try reflexivity; try congruence.
  apply IH. congruence.
Qed.

Lemma view_stable h h' c : (forall a, In a (addrs c) -> cell h' a = cell h a) -> view_of h' c = view_of h c.
Proof.
  intros H. unfold view_of. f_equal. apply map_ext_in. intros [n a] Hin. simpl. f_equal. apply H.
  unfold addrs. change a with (snd (n, a)). now apply in_map.
Qed.

(* ---- Clone (deep) ------------------------------------------------------------------------------------------------ *)
Lemma clone_paths_spec h0 ps : forall h h' ps',
  clone_paths h0 h ps = (h', ps') ->
  h' = h ++ map (fun e => cell h0 (snd e)) ps /\
  ps' = combine (map fst ps) (seq (length h) (length ps)).
Proof.
  induction ps as [|[n a] r IH]; intros h h' ps'; simpl.
  - intros [= <- <-]. now rewrite app_nil_r.
  - destruct (clone_paths h0 (h ++ [cell h0 a]) r) as [h1 r1] eqn:E. intros [= <- <-].
    destruct (IH _ _ _ E) as [-> ->]. rewrite app_length. simpl. rewrite <- app_assoc. simpl.
    split; [reflexivity|]. now rewrite Nat.add_1_r.
Qed.

Lemma combine_seq_view (h : heap) (cells : list fmap) : forall (names : list Z) (pre : heap),
  length names = length cells ->
  map (fun e => (fst e, cell (pre ++ cells ++ h) (snd e))) (combine names (seq (length pre) (length cells)))
  = combine names cells.
Proof.
  induction cells as [|c cs IH]; intros [|n ns] pre Hlen; simpl in *; try reflexivity; try discriminate.
  f_equal.
  - f_equal. unfold cell. rewrite app_nth2 by lia. now rewrite Nat.sub_diag.
  - specialize (IH ns (pre ++ [c])). rewrite app_length in IH. simpl in IH. rewrite Nat.add_1_r in IH.
    rewrite <- app_assoc in IH. simpl in IH. apply IH. lia.
Qed.

Lemma combine_map_fst_snd {A B C} (f : A * B -> C) (l : list (A * B)) :
  combine (map fst l) (map f l) = map (fun e => (fst e, f e)) l.
Proof. induction l as [|[a b] r IH]; simpl; [reflexivity|]. now rewrite IH. Qed.

Lemma map_snd_combine_seq {A} (names : list A) s n : length names = n -> map snd (combine names (seq s n)) = seq s n.
Proof.
  revert names s. induction n as [|n IH]; intros [|x names] s Hlen; simpl in *; try reflexivity; try discriminate.
  f_equal. apply IH. lia.
Qed.

(* what Clone gives: the same view, fresh distinct cells, nothing existing touched *)
Lemma clone_deep_spec w h1 c1 : clone Deep w = (h1, c1) ->
  view_of h1 c1 = abs w /\
  wf_root h1 c1 /\
  (exists x, h1 = mem w ++ x) /\
  (forall a, In a (addrs c1) -> (length (mem w) <= a)%nat).
Proof.
  unfold clone. destruct (clone_paths (mem w) (mem w) (cp (live w))) as [h ps] eqn:E. intros [= <- <-].
  destruct (clone_paths_spec _ _ _ _ _ E) as [-> ->].
  set (cells := map (fun e => cell (mem w) (snd e)) (cp (live w))).
  assert (Hlen : length (map fst (cp (live w))) = length cells) by (unfold cells; now rewrite !map_length).
  assert (Hlen' : length (cp (live w)) = length cells) by (unfold cells; now rewrite map_length).
  repeat split.
  - unfold view_of, abs, view_of. simpl. f_equal. rewrite Hlen'.
    pose proof (combine_seq_view [] cells (map fst (cp (live w))) (mem w) Hlen) as H.
    rewrite app_nil_r in H. rewrite H. unfold cells. now rewrite combine_map_fst_snd.
  - unfold addrs. simpl. rewrite map_snd_combine_seq by now rewrite map_length. apply seq_NoDup.
  - unfold addrs. simpl. rewrite map_snd_combine_seq by now rewrite map_length.
    intros a Ha. apply in_seq in Ha. rewrite app_length. fold cells. lia.
  - now exists cells.
  - unfold addrs. simpl. rewrite map_snd_combine_seq by now rewrite map_length.
    intros a Ha. apply in_seq in Ha. lia.
Qed.

(* ---- one conf method on a well-formed candidate ------------------------------------------------------------------- *)
Lemma wf_root_bound h c a : wf_root h c -> In a (addrs c) -> (a < length h)%nat.
Proof. intros [_ H]. apply H. Qed.

Lemma pget_addr n a c : pget n (cp c) = Some a -> In a (addrs c).
Proof. intros H. apply pget_In in H. unfold addrs. change a with (snd (n, a)). now apply in_map. Qed.

Lemma view_patch_cell h c n a x : wf_root h c -> pget n (cp c) = Some a ->
  vp (view_of (upd a x h) c) = pset n x (vp (view_of h c)).
Proof.
  intros [Hnd Hb] Hget. unfold view_of. simpl.
  assert (Ha : (a < length h)%nat) by (apply Hb; eapply pget_addr; eauto).
  unfold addrs in Hnd. revert Hnd Hget. induction (cp c) as [|[n' a'] r IH]; simpl; [discriminate|].
  intros Hnd Hget. inversion Hnd as [|y l Hy Hnd' Heq]; subst.
  destruct (n' =? n) eqn:E.
  - injection Hget as ->. apply Z.eqb_eq in E. subst n'. rewrite cell_upd_same by assumption. f_equal.
    apply map_ext_in. intros [n2 a2] Hin. simpl. f_equal. apply cell_upd_other.
    intros ->. apply Hy. change a2 with (snd (n2, a2)). now apply in_map.
  - f_equal.
    + f_equal. apply cell_upd_other. intros ->. apply Hy. apply pget_In in Hget.
      change a' with (snd (n, a')). now apply in_map.
    + now apply IH.
Qed.

Definition apply_rel (h : heap) (c : croot) (r : heap * croot + outcome) (s : view + outcome) : Prop :=
  match r, s with
  | inl (h2, c2), inl v2 =>
      view_of h2 c2 = v2 /\ wf_root h2 c2 /\ (length h <= length h2)%nat /\
      (forall a, (a < length h)%nat -> ~ In a (addrs c) -> cell h2 a = cell h a)
  | inr e, inr e' => e = e'
  | _, _ => False
  end.

Lemma view_app h x c : wf_root h c -> view_of (h ++ x) c = view_of h c.
Proof. intros Hwf. apply view_stable. intros a Ha. apply cell_app_l. eapply wf_root_bound; eauto. Qed.

Lemma apply_refines h c o : wf_root h c -> apply_rel h c (apply h c o) (spec_apply (view_of h c) o).
Proof.
  intros Hwf. pose proof Hwf as [Hnd Hb].
  assert (Hfresh : ~ In (length h) (addrs c)) by (intros Hin; apply Hb in Hin; lia).
  assert (Hnew : forall n p, apply_rel h c
            (inl (h ++ [overlay p []], {| cg := cg c; cd := cd c; cp := pset n (length h) (cp c) |}))
            (inl {| vg := vg (view_of h c); vd := vd (view_of h c); vp := pset n (overlay p []) (vp (view_of h c)) |})).
  { intros n p. simpl. repeat split.
    - unfold view_of. simpl. f_equal. set (h' := h ++ [overlay p []]).
      replace (pset n (overlay p []) (map (fun e => (fst e, cell h (snd e))) (cp c)))
        with (pset n (cell h' (length h)) (map (fun e => (fst e, cell h' (snd e))) (cp c))).
      + symmetry. apply (pset_map (fun a => cell h' a)).
      + unfold h'. rewrite cell_app_new. f_equal. apply map_ext_in. intros [n' a'] Hin. simpl. f_equal.
        apply cell_app_l. apply Hb. unfold addrs. change a' with (snd (n', a')). now apply in_map.
    - unfold addrs. simpl. apply NoDup_snd_pset; assumption.
    - unfold addrs. simpl. intros a Ha. apply In_snd_pset in Ha. rewrite app_length. simpl.
      destruct Ha as [->|Ha]; [lia|]. apply Hb in Ha. lia.
    - rewrite app_length. lia.
    - intros a Ha _. now apply cell_app_l. }
  destruct o as [p|p|n p|n p|n p|n|]; cbn [apply spec_apply vg vd vp view_of].
  - simpl. repeat split; auto.
  - simpl. repeat split; auto.
  - rewrite pmem_map. destruct (pmem n (cp c)); [reflexivity|]. apply Hnew.
  - rewrite pget_map. destruct (pget n (cp c)) as [a|] eqn:G; cbn [option_map]; [|reflexivity].
    assert (Ha : In a (addrs c)) by (eapply pget_addr; eauto).
    cbn [apply_rel]. repeat split; auto.
    + unfold view_of at 1. f_equal. apply (view_patch_cell h c n a); assumption.
    + intros b Hb'. rewrite length_upd. now apply Hb.
    + rewrite length_upd. lia.
    + intros b _ Hnot. apply cell_upd_other. intros ->. tauto.
  - apply Hnew.
  - rewrite pmem_map. destruct (pmem n (cp c)); [|reflexivity].
    cbn [apply_rel]. repeat split; auto.
    + unfold view_of. simpl. f_equal. now rewrite pdel_map.
    + unfold addrs. simpl. now apply NoDup_snd_pdel.
    + unfold addrs. simpl. intros a Ha. apply In_snd_pdel in Ha. now apply Hb.
  - reflexivity.
Qed.

(* ---- doAPIConfig* ---------------------------------------------------------------------------------------------------- *)
Section WithOracle.
  Variable valid : view -> bool.

  Definition try_rel (w : world) (h : heap) (c : option croot) (out : outcome) (o : op) : Prop :=
    (exists x, h = mem w ++ x) /\
    match c with
    | Some c' => wf_root h c' /\ out = OOk /\ spec_step valid (abs w) o = (view_of h c', OOk)
    | None => out <> OOk /\ spec_step valid (abs w) o = (abs w, out)
    end.

  Lemma upd_fresh_app h x a v : (length h <= a)%nat -> exists y, upd a v (h ++ x) = h ++ y.
  Proof.
    revert a. induction h as [|e r IH]; intros a Ha; simpl.
    - eexists; reflexivity.
    - destruct a as [|a]; [simpl in Ha; lia|]. simpl in Ha. destruct (IH a ltac:(lia)) as [y Hy].
      exists y. simpl. now rewrite Hy.
  Qed.

  Lemma try_edit_spec w o h c out : wf w -> try_edit valid Deep w o = (h, c, out) -> try_rel w h c out o.
  Proof.
    intros Hwf. unfold try_edit.
    assert (Hbad : o = Bad -> (mem w, @None croot, OInvalid) = (h, c, out) -> try_rel w h c out o).
    { intros -> [= <- <- <-]. split; [exists []; now rewrite app_nil_r|]. split; [discriminate|reflexivity]. }
    destruct (clone Deep w) as [h1 c1] eqn:Ec.
    destruct (clone_deep_spec _ _ _ Ec) as (Hview & Hwf1 & [x Hx] & Hfresh).
    pose proof (apply_refines h1 c1 o Hwf1) as Hrel. rewrite Hview in Hrel.
    assert (Hmain : match apply h1 c1 o with
                    | inl (h2, c2) => if valid (view_of h2 c2) then (h2, Some c2, OOk) else (h2, None, OInvalid)
                    | inr e => (h1, None, e)
                    end = (h, c, out) -> o <> Bad -> try_rel w h c out o).
    { intros H Hnb. unfold try_rel, spec_step.
      destruct (apply h1 c1 o) as [[h2 c2]|e] eqn:Ea; destruct (spec_apply (abs w) o) as [v2|e'] eqn:Es;
        simpl in Hrel; try contradiction.
      - destruct Hrel as (Hv & Hwf2 & Hlen & Hkeep). subst v2.
        assert (Hext : exists y, h2 = mem w ++ y).
        { destruct o; simpl in Ea; try discriminate.
          - injection Ea as <- _. eauto.
          - injection Ea as <- _. eauto.
          - destruct (pmem n (cp c1)); [discriminate|]. injection Ea as <- _. subst h1. rewrite <- app_assoc. eauto.
          - destruct (pget n (cp c1)) as [a|] eqn:G; [|discriminate]. injection Ea as <- _. subst h1.
            apply upd_fresh_app. apply Hfresh. eapply pget_addr; eauto.
          - injection Ea as <- _. subst h1. rewrite <- app_assoc. eauto.
          - destruct (pmem n (cp c1)); [|discriminate]. injection Ea as <- _. eauto. }
        destruct (valid (view_of h2 c2)); injection H as <- <- <-; split; auto.
        split; [discriminate|reflexivity].
      - subst e'. injection H as <- <- <-. split; [eauto|]. split; [|reflexivity].
        destruct o; simpl in Ea; try discriminate.
        + destruct (pmem n (cp c1)); [|discriminate]. injection Ea as <-. discriminate.
        + destruct (pget n (cp c1)); [discriminate|]. injection Ea as <-. discriminate.
        + destruct (pmem n (cp c1)); [discriminate|]. injection Ea as <-. discriminate.
        + congruence. }
    destruct o; try (intros H; apply Hmain; [exact H|discriminate]).
    intros H. now apply Hbad.
  Qed.

  (* cells of a well-formed configuration are not touched by anything an edit does *)
  Lemma wf_root_ext h x c : wf_root h c -> wf_root (h ++ x) c /\ view_of (h ++ x) c = view_of h c.
  Proof.
    intros Hwf. split; [|now apply view_app]. destruct Hwf as [Hnd Hb]. split; [assumption|].
    intros a Ha. apply Hb in Ha. rewrite app_length. lia.
  Qed.

  Lemma edit_refines w o w' out : wf w -> edit valid Deep w o = (w', out) ->
    wf w' /\ (abs w', out) = spec_step valid (abs w) o.
  Proof.
    intros Hwf. unfold edit. destruct (try_edit valid Deep w o) as [[h c] out0] eqn:E. intros [= <- <-].
    destruct (try_edit_spec _ _ _ _ _ Hwf E) as [[x ->] Hc]. destruct c as [c'|].
    - destruct Hc as (Hwf' & -> & Hs). split; [exact Hwf'|]. now rewrite Hs.
    - destruct Hc as (Hne & Hs). destruct (wf_root_ext (mem w) x (live w) Hwf) as [Hwf' Hv].
      split; [exact Hwf'|]. rewrite Hs. unfold abs at 1. simpl. now rewrite Hv.
  Qed.

  Lemma run_refines ops : forall w w' outs, wf w -> run valid Deep w ops = (w', outs) ->
    wf w' /\ (abs w', outs) = spec_run valid (abs w) ops.
  Proof.
    induction ops as [|o r IH]; intros w w' outs Hwf; simpl.
    - intros [= <- <-]. auto.
    - destruct (edit valid Deep w o) as [w1 out] eqn:E1. destruct (run valid Deep w1 r) as [w2 outs2] eqn:E2.
      intros [= <- <-]. destruct (edit_refines _ _ _ _ Hwf E1) as [Hwf1 H1].
      destruct (IH _ _ _ Hwf1 E2) as [Hwf2 H2]. split; [exact Hwf2|].
      rewrite <- H1. rewrite <- H2. reflexivity.
  Qed.

  (* ---- the request loop with reads ------------------------------------------------------------------------------------ *)
  Definition cinv (s : core) : Prop :=
    wf (cw s) /\ wf_root (mem (cw s)) (published s) /\
    match pending s with None => published s = live (cw s) | Some c => c = published s end.

  Lemma cstep_refines s l s' evs : cinv s -> cstep valid Deep FromPublished s l = Some (s', evs) ->
    cinv s' /\
    evs = spec_events valid (view_of (mem (cw s)) (published s)) [l] /\
    view_of (mem (cw s')) (published s') =
      match l with LEdit o => fst (spec_step valid (view_of (mem (cw s)) (published s)) o) | _ => view_of (mem (cw s)) (published s) end.
  Proof.
    intros (Hwf & Hwfp & Hp). destruct l as [o| |]; simpl.
    - destruct (pending s) eqn:Ep; [discriminate|]. rewrite Hp.
      destruct (try_edit valid Deep (cw s) o) as [[h c] out] eqn:E. intros [= <- <-].
      destruct (try_edit_spec _ _ _ _ _ Hwf E) as [[x Hx] Hc]. fold (abs (cw s)). simpl.
      destruct c as [c'|].
      + destruct Hc as (Hwf' & -> & Hs). rewrite Hs. subst h.
        destruct (wf_root_ext (mem (cw s)) x (live (cw s)) Hwf) as [Hwfl _].
        split; [|split; reflexivity]. unfold cinv, wf. simpl. auto.
      + destruct Hc as (Hne & Hs). rewrite Hs. subst h.
        destruct (wf_root_ext (mem (cw s)) x (live (cw s)) Hwf) as [Hwfl Hv].
        split; [|split; [reflexivity|exact Hv]]. unfold cinv, wf. simpl. auto.
    - destruct (pending s) as [c|] eqn:Ep; [|discriminate]. intros [= <- <-]. subst c.
      unfold cinv, wf. simpl. auto.
    - intros [= <- <-]. unfold cinv. auto.
  Qed.

  Lemma spec_events_cons v l r :
    spec_events valid v (l :: r) =
    spec_events valid v [l] ++
    spec_events valid (match l with LEdit o => fst (spec_step valid v o) | _ => v end) r.
  Proof. destruct l; simpl; [destruct (spec_step valid v o)|reflexivity|reflexivity]. reflexivity. Qed.

  Lemma crun_refines ls : forall s s' evs, cinv s -> crun valid Deep FromPublished s ls = Some (s', evs) ->
    evs = spec_events valid (view_of (mem (cw s)) (published s)) ls.
  Proof.
    induction ls as [|l r IH]; intros s s' evs Hinv; simpl crun.
    - now intros [= <- <-].
    - destruct (cstep valid Deep FromPublished s l) as [[s1 e1]|] eqn:E1; [|discriminate].
      destruct (crun valid Deep FromPublished s1 r) as [[s2 e2]|] eqn:E2; [|discriminate].
      intros [= <- <-]. destruct (cstep_refines _ _ _ _ Hinv E1) as (Hinv1 & He1 & Hv1).
      rewrite spec_events_cons, <- He1. f_equal. rewrite <- Hv1. eapply IH; eauto.
  Qed.
End WithOracle.

Lemma cinv_init w : wf w -> cinv (core_init w).
Proof. intros Hwf. unfold cinv, core_init. simpl. auto. Qed.

(* ---- loading -------------------------------------------------------------------------------------------------------------- *)
Lemma load_wf v : wf (load v).
Proof.
  unfold wf, wf_root, load, addrs. simpl.
  rewrite map_snd_combine_seq by now rewrite map_length. split; [apply seq_NoDup|].
  intros a Ha. apply in_seq in Ha. rewrite map_length. lia.
Qed.

Lemma load_abs v : abs (load v) = v.
Proof.
  destruct v as [g d ps]. unfold abs, view_of, load. simpl. f_equal.
  pose proof (combine_seq_view [] (map snd ps) (map fst ps) [] ltac:(now rewrite !map_length)) as H.
  simpl in H. rewrite app_nil_r, map_length in H. rewrite H.
  clear H. induction ps as [|[n c] r IH]; simpl; [reflexivity|]. now rewrite IH.
Qed.

(* ---- exactness, stated on what the API reads before and after one edit ---------------------------------------------- *)
Lemma get_overlay_nil f p : get f (overlay p []) = patch_val f p.
Proof. rewrite get_overlay. now destruct (patch_val f p). Qed.

Lemma inl_inj {A B} (a b : A) : @inl A B a = inl b -> a = b.
Proof. congruence. Qed.

Section Exact.
  Variable valid : view -> bool.

  Lemma spec_step_rejected v o v' out : spec_step valid v o = (v', out) -> out <> OOk -> v' = v.
  Proof.
    unfold spec_step. destruct (spec_apply v o) as [v2|e]; [|now intros [= <- <-]].
    destruct (valid v2); intros [= <- <-]; [congruence|reflexivity].
  Qed.

  Lemma spec_step_ok v o v' : spec_step valid v o = (v', OOk) -> spec_apply v o = inl v' /\ valid v' = true.
  Proof.
    unfold spec_step. destruct (spec_apply v o) as [v2|e] eqn:E.
    - destruct (valid v2) eqn:V; intros [= <-]; auto.
    - intros [= <- ->]. destruct o; simpl in E; try discriminate.
      + destruct (pmem n (vp v)); discriminate.
      + destruct (pget n (vp v)); discriminate.
      + destruct (pmem n (vp v)); discriminate.
  Qed.

  Lemma edit_ok_candidate w o w' : wf w -> edit valid Deep w o = (w', OOk) ->
    spec_apply (abs w) o = inl (abs w') /\ valid (abs w') = true.
  Proof. intros Hwf E. destruct (edit_refines valid _ _ _ _ Hwf E) as [_ H]. now apply spec_step_ok. Qed.

  Lemma invalid_unchanged w o w' out : wf w -> edit valid Deep w o = (w', out) -> out <> OOk -> abs w' = abs w.
  Proof. intros Hwf E Hne. destruct (edit_refines valid _ _ _ _ Hwf E) as [_ H]. symmetry in H. eapply spec_step_rejected; eauto. Qed.

  Lemma patch_global_exact w p w' : wf w -> edit valid Deep w (PatchGlobal p) = (w', OOk) ->
    (forall f, get f (vg (abs w')) = match patch_val f p with Some v => Some v | None => get f (vg (abs w)) end) /\
    vd (abs w') = vd (abs w) /\ vp (abs w') = vp (abs w).
  Proof.
    intros Hwf E. destruct (edit_ok_candidate _ _ _ Hwf E) as [H _]. cbn [spec_apply] in H. apply inl_inj in H. rewrite <- H. simpl.
    split; [intros f; apply get_overlay|auto].
  Qed.

  Lemma patch_defaults_exact w p w' : wf w -> edit valid Deep w (PatchDefaults p) = (w', OOk) ->
    (forall f, get f (vd (abs w')) = match patch_val f p with Some v => Some v | None => get f (vd (abs w)) end) /\
    vg (abs w') = vg (abs w) /\ vp (abs w') = vp (abs w).
  Proof.
    intros Hwf E. destruct (edit_ok_candidate _ _ _ Hwf E) as [H _]. cbn [spec_apply] in H. apply inl_inj in H. rewrite <- H. simpl.
    split; [intros f; apply get_overlay|auto].
  Qed.

  Lemma patch_exact w n p w' : wf w -> edit valid Deep w (Patch n p) = (w', OOk) ->
    exists c c', pget n (vp (abs w)) = Some c /\ pget n (vp (abs w')) = Some c' /\
      (forall f, get f c' = match patch_val f p with Some v => Some v | None => get f c end) /\
      (forall n', n' <> n -> pget n' (vp (abs w')) = pget n' (vp (abs w))) /\
      vg (abs w') = vg (abs w) /\ vd (abs w') = vd (abs w).
  Proof.
    intros Hwf E. destruct (edit_ok_candidate _ _ _ Hwf E) as [H _]. cbn [spec_apply] in H.
    destruct (pget n (vp (abs w))) as [c|] eqn:G; [|discriminate]. apply inl_inj in H. rewrite <- H. simpl.
    exists c, (overlay p c). repeat split; auto.
    - apply pget_pset_same.
    - intros f. apply get_overlay.
    - intros n' Hne. now apply pget_pset_other.
  Qed.

  Lemma patch_missing_fails w n p w' out : wf w -> pget n (vp (abs w)) = None ->
    edit valid Deep w (Patch n p) = (w', out) -> out = ONotFound /\ abs w' = abs w.
  Proof.
    intros Hwf G E. destruct (edit_refines valid _ _ _ _ Hwf E) as [_ H]. unfold spec_step in H. cbn [spec_apply] in H.
    rewrite G in H. split; congruence.
  Qed.

  Lemma add_existing_fails w n p w' out : wf w -> pmem n (vp (abs w)) = true ->
    edit valid Deep w (Add n p) = (w', out) -> out = OExists /\ abs w' = abs w.
  Proof.
    intros Hwf G E. destruct (edit_refines valid _ _ _ _ Hwf E) as [_ H]. unfold spec_step in H. cbn [spec_apply] in H.
    rewrite G in H. split; congruence.
  Qed.

  Lemma add_exact w n p w' : wf w -> edit valid Deep w (Add n p) = (w', OOk) ->
    pget n (vp (abs w)) = None /\
    (exists c', pget n (vp (abs w')) = Some c' /\ forall f, get f c' = patch_val f p) /\
    (forall n', n' <> n -> pget n' (vp (abs w')) = pget n' (vp (abs w))) /\
    vg (abs w') = vg (abs w) /\ vd (abs w') = vd (abs w).
  Proof.
    intros Hwf E. destruct (edit_ok_candidate _ _ _ Hwf E) as [H _]. cbn [spec_apply] in H. unfold pmem in H.
    destruct (pget n (vp (abs w))) as [c|] eqn:G; [discriminate|]. apply inl_inj in H. rewrite <- H. simpl.
    split; [reflexivity|]. split; [|split; [|auto]].
    - exists (overlay p []). split; [apply pget_pset_same|intros f; apply get_overlay_nil].
    - intros n' Hne. now apply pget_pset_other.
  Qed.

  Lemma replace_exact name_f w n p w' : wf w -> edit valid Deep w (Replace n p) = (w', OOk) ->
    (exists c', pget n (vp (abs w')) = Some c' /\ forall f, get f c' = patch_val f p) /\
    (exists e, effective name_f (abs w') n = Some e /\ get name_f e = Some n /\
       forall f, f <> name_f ->
         get f e = match patch_val f p with Some v => Some v | None => get f (vd (abs w)) end) /\
    (forall n', n' <> n -> pget n' (vp (abs w')) = pget n' (vp (abs w))) /\
    vg (abs w') = vg (abs w) /\ vd (abs w') = vd (abs w).
  Proof.
    intros Hwf E. destruct (edit_ok_candidate _ _ _ Hwf E) as [H _]. cbn [spec_apply] in H. apply inl_inj in H. rewrite <- H.
    unfold effective. simpl. rewrite pget_pset_same. split; [|split; [|split; [|auto]]].
    - exists (overlay p []). split; [reflexivity|intros f; apply get_overlay_nil].
    - eexists. split; [reflexivity|]. split; [apply get_set_same|].
      intros f Hne. rewrite get_set_other by assumption. rewrite get_overlay.
      assert (Hp : patch_val f (overlay p []) = patch_val f p).
      { (* the cell has each field once, with the value the request gave last *)
        unfold patch_val at 1. 
        assert (Hnd : forall q m, NoDup (map fst m) -> NoDup (map fst (overlay q m))).
        { clear. unfold overlay. induction q as [|[k v] q IH]; intros m Hm; simpl; [exact Hm|]. apply IH.
          clear IH. induction m as [|[k' v'] r IHm]; simpl.
          - constructor; [tauto|constructor].
          - inversion Hm as [|y l Hy Hm' Heq]; subst. destruct (k' =? k) eqn:Ek; simpl.
            + apply Z.eqb_eq in Ek. subst. now constructor.
            + constructor; [|auto]. intros Hin. apply Hy.
              clear - Hin Ek. induction r as [|[k2 v2] r IHr]; simpl in *.
              * destruct Hin as [->|[]]. now rewrite Z.eqb_refl in Ek.
              * destruct (k2 =? k) eqn:E2; simpl in Hin; [apply Z.eqb_eq in E2; subst; exact Hin|].
                destruct Hin as [Hin|Hin]; auto. }
        fold (patch_val f (overlay p [])). rewrite patch_val_nodup by (apply Hnd; constructor).
        apply get_overlay_nil. }
      now rewrite Hp.
    - intros n' Hne. now apply pget_pset_other.
  Qed.

  Lemma delete_missing_fails w n w' out : wf w -> pmem n (vp (abs w)) = false ->
    edit valid Deep w (Delete n) = (w', out) -> out = ONotFound /\ abs w' = abs w.
  Proof.
    intros Hwf G E. destruct (edit_refines valid _ _ _ _ Hwf E) as [_ H]. unfold spec_step in H. cbn [spec_apply] in H.
    rewrite G in H. split; congruence.
  Qed.

  Lemma delete_exact w n w' : wf w -> edit valid Deep w (Delete n) = (w', OOk) ->
    pmem n (vp (abs w)) = true /\ pget n (vp (abs w')) = None /\
    (forall n', n' <> n -> pget n' (vp (abs w')) = pget n' (vp (abs w))) /\
    vg (abs w') = vg (abs w) /\ vd (abs w') = vd (abs w).
  Proof.
    intros Hwf E. destruct (edit_ok_candidate _ _ _ Hwf E) as [H _]. cbn [spec_apply] in H.
    destruct (pmem n (vp (abs w))) eqn:G; [|discriminate]. apply inl_inj in H. rewrite <- H. simpl.
    repeat split; auto; [apply pget_pdel_same|]. intros n' Hne. now apply pget_pdel_other.
  Qed.

  (* a request the handler could not decode never reaches the configuration *)
  Lemma bad_unchanged w w' out : edit valid Deep w Bad = (w', out) -> out = OInvalid /\ w' = w.
  Proof. unfold edit. simpl. intros [= <- <-]. split; [reflexivity|now destruct w]. Qed.

  (* every path's effective configuration: the fields that are set, the defaults for the others, its own name *)
  Lemma effective_exact name_f v n e : effective name_f v n = Some e ->
    exists c, pget n (vp v) = Some c /\ get name_f e = Some n /\
      forall f, f <> name_f -> get f e = match patch_val f c with Some x => Some x | None => get f (vd v) end.
  Proof.
    unfold effective. destruct (pget n (vp v)) as [c|]; [|discriminate]. intros [= <-]. exists c.
    split; [reflexivity|]. split; [apply get_set_same|]. intros f Hne. rewrite get_set_other by assumption. apply get_overlay.
  Qed.

  (* history form, from a configuration loaded from a file *)
  Lemma refines_from_load v ops : 
    let '(w', outs) := run valid Deep (load v) ops in (abs w', outs) = spec_run valid v ops.
  Proof.
    destruct (run valid Deep (load v) ops) as [w' outs] eqn:E.
    destruct (run_refines valid ops _ _ _ (load_wf v) E) as [_ H]. now rewrite load_abs in H.
  Qed.

  Lemma reads_from_load v ls s' evs :
    crun valid Deep FromPublished (core_init (load v)) ls = Some (s', evs) -> evs = spec_events valid v ls.
  Proof.
    intros H. pose proof (crun_refines valid ls _ _ _ (cinv_init _ (load_wf v)) H) as R.
    change (view_of (mem (cw (core_init (load v)))) (published (core_init (load v)))) with (abs (load v)) in R.
    now rewrite load_abs in R.
  Qed.
End Exact.

(* ---- what goes wrong without an independent clone / when reads come from the running configuration ------------------ *)
Definition ex_world : world := load {| vg := [(1, 10)]; vd := [(2, 20); (3, 30)]; vp := [(100, [(2, 21)])] |}.

Lemma shallow_clone_refuted :
  exists valid w o w', edit valid ShallowIface w o = (w', OInvalid) /\ wf w /\ abs w' <> abs w.
Proof.
  exists (fun _ => false), ex_world, (Patch 100 [(2, 22)]). eexists. split; [vm_compute; reflexivity|].
  split; [apply load_wf|]. vm_compute. discriminate.
Qed.

Lemma running_read_refuted :
  exists valid v ls s' evs, crun valid Deep FromRunning (core_init (load v)) ls = Some (s', evs) /\
    evs <> spec_events valid v ls.
Proof.
  exists (fun _ => true), (abs ex_world), [LEdit (Add 101 [(3, 31)]); LRead; LReload; LRead]. eexists. eexists.
  split; [vm_compute; reflexivity|]. vm_compute. discriminate.
Qed.
