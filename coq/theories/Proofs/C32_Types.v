(* Proofs about Model/C32_Moq.v, part 2: length-prefixed strings, namespace, parameters, properties *)
From Coq Require Import List ZArith Lia Bool ZifyBool.
Require Import MTX.Lib.IntWrap MTX.Model.C32_Moq MTX.Proofs.C32_Varint.
Import ListNotations.
Local Open Scope Z_scope.

(* ---- boolean well-formedness ---- *)
Definition u64b (v : Z) : bool := (0 <=? v) && (v <? two64).
Definition wf_strb (s : bytes) : bool := len s <? two63.
Definition wf_nsb (ns : list bytes) : bool := (len ns <=? max_field_count) && forallb wf_strb ns.
Definition wf_tokenb (t : token) : bool :=
  (t.(tk_alias) =? alias_use_value) && u64b t.(tk_type) && (len t.(tk_value) <? two63 - 18).
Definition wf_paramsb (ps : list token) : bool := (len ps <? two63) && forallb wf_tokenb ps.
Definition wf_propsb (ts : list Z) : bool := forallb u64b ts.

Lemma u64b_spec v : u64b v = true <-> u64 v.
Proof. unfold u64b, u64. lia. Qed.

Lemma u64_len {A} (l : list A) : len l < two63 -> u64 (len l).
Proof. unfold u64, two63, two64. pose proof (len_nonneg l). lia. Qed.

(* ---- length-prefixed strings ---- *)
Lemma lenstr_roundtrip s rest : wf_strb s = true -> dec_lenstr (enc_lenstr s ++ rest) = Ok s rest.
Proof.
  unfold wf_strb. intros Hs. assert (Hl : len s < two63) by lia.
  unfold dec_lenstr, enc_lenstr. rewrite <- app_assoc.
  rewrite varint_roundtrip by (apply u64_len; exact Hl). cbn [bind].
  rewrite len_app. pose proof (len_nonneg rest).
  destruct (Z.ltb_spec (len s + len rest) (len s)); [lia|].
  rewrite slice_to_app by reflexivity. rewrite to_int_small by exact Hl.
  rewrite slice_from_app by reflexivity. reflexivity.
Qed.

Lemma dec_lenstr_safe buf : Forall is_byte buf -> len buf < two63 -> safe (dec_lenstr buf) (length buf).
Proof.
  intros Hb Hlt. unfold dec_lenstr.
  destruct (dec_varint_inv buf Hb) as [E|(l & b1 & E & Hl & Hb1 & Hlen)]; rewrite E; cbn [bind]; [exact I|].
  destruct (Z.ltb_spec (len b1) l) as [L|L]; [exact I|].
  unfold u64 in Hl. apply safe_slice_to; [unfold len in *; lia|].
  assert (l < two63) by (unfold len, two63 in *; lia).
  rewrite to_int_small by assumption.
  apply safe_slice_from; [unfold len in *; lia|]. cbn [safe]. split; [|apply Forall_skipn; exact Hb1].
  rewrite skipn_length. lia.
Qed.

(* ---- namespace ---- *)
Lemma dec_ns_fields_step n buf :
  dec_ns_fields (S n) buf =
  (let* (p, b2) := dec_lenstr buf in
   let* (parts, b3) := dec_ns_fields n b2 in Ok (p :: parts) b3).
Proof.
  cbn [dec_ns_fields]. unfold dec_lenstr. destruct (dec_varint buf) as [l b1| | |]; cbn [bind]; try reflexivity.
  destruct (len b1 <? l); [reflexivity|].
  unfold slice_to, slice_from.
  destruct ((0 <=? l) && (l <=? len b1)); [|reflexivity].
  destruct ((0 <=? to_int l) && (to_int l <=? len b1)); reflexivity.
Qed.

Lemma ns_fields_roundtrip ns : forall rest, forallb wf_strb ns = true ->
  dec_ns_fields (length ns) (concat (map enc_lenstr ns) ++ rest) = Ok ns rest.
Proof.
  induction ns as [|s ns IH]; intros rest Hwf; [reflexivity|].
  cbn [forallb] in Hwf. apply andb_prop in Hwf. destruct Hwf as [Hs Hns].
  cbn [length map concat]. rewrite dec_ns_fields_step, <- app_assoc.
  rewrite lenstr_roundtrip by exact Hs. cbn [bind]. rewrite IH by exact Hns. reflexivity.
Qed.

Theorem namespace_roundtrip ns rest : wf_nsb ns = true ->
  dec_namespace (enc_namespace ns ++ rest) = Ok ns rest.
Proof.
  unfold wf_nsb, max_field_count. intros Hwf. apply andb_prop in Hwf. destruct Hwf as [Hn Hs].
  unfold dec_namespace, enc_namespace. rewrite <- app_assoc.
  rewrite varint_roundtrip by (apply u64_len; unfold two63; lia). cbn [bind].
  unfold max_field_count, alloc.
  destruct (Z.gtb_spec (len ns) 32); [lia|]. destruct (Z.leb_spec (len ns) 32); [|lia].
  rewrite to_nat_len. apply ns_fields_roundtrip. exact Hs.
Qed.

Lemma dec_ns_fields_safe n : forall buf, Forall is_byte buf -> len buf < two63 -> safe (dec_ns_fields n buf) (length buf).
Proof.
  induction n as [|n IH]; intros buf Hb Hlt; [cbn; split; [lia|exact Hb]|].
  rewrite dec_ns_fields_step.
  eapply safe_bind; [apply dec_lenstr_safe; assumption|].
  intros p b2 Hl Hb2. eapply safe_bind; [apply IH; [exact Hb2|unfold len in *; lia]|].
  intros parts b3 Hl3 Hb3. cbn. split; [lia|exact Hb3].
Qed.

Lemma dec_namespace_safe buf : Forall is_byte buf -> len buf < two63 -> safe (dec_namespace buf) (length buf).
Proof.
  intros Hb Hlt. unfold dec_namespace.
  destruct (dec_varint_inv buf Hb) as [E|(c & b1 & E & Hc & Hb1 & Hlen)]; rewrite E; cbn [bind]; [exact I|].
  destruct (Z.gtb_spec c max_field_count) as [G|G]; [exact I|].
  unfold alloc. destruct (Z.leb_spec c max_field_count); [|lia].
  eapply safe_mono; [apply dec_ns_fields_safe; [exact Hb1|unfold len in *; lia]|lia].
Qed.

(* ---- parameters ---- *)
Lemma token_roundtrip t rest : wf_tokenb t = true -> dec_token (enc_token t ++ rest) = Ok t rest.
Proof.
  unfold wf_tokenb, alias_use_value. intros Hwf.
  destruct t as [al tt tv]. cbn [tk_alias tk_type tk_value] in *.
  assert (Hal : al = 3) by lia. subst al.
  assert (Htt : u64 tt) by (apply u64b_spec; lia).
  assert (Htv : len tv < two63 - 18) by lia.
  unfold dec_token, enc_token. cbn [tk_alias tk_type tk_value].
  set (inner := enc_varint 3 ++ enc_varint tt ++ tv).
  assert (Hin : len inner < two63).
  { subst inner. rewrite !len_app, !enc_varint_len.
    pose proof (varint_len_range 3). pose proof (varint_len_range tt). lia. }
  assert (Hinner : dec_varint inner = Ok 3 (enc_varint tt ++ tv))
    by (subst inner; apply varint_roundtrip; unfold u64, two64; lia).
  clearbody inner.
  rewrite <- app_assoc. rewrite varint_roundtrip by (apply u64_len; exact Hin). cbn [bind].
  pose proof (len_nonneg rest).
  destruct (Z.ltb_spec (len (inner ++ rest)) (len inner)) as [L|_]; [rewrite len_app in L; lia|].
  rewrite slice_to_app by reflexivity.
  rewrite Hinner. cbn [bind]. unfold alias_use_value. cbn [Z.eqb Pos.eqb negb].
  rewrite varint_roundtrip by exact Htt. cbn [bind].
  rewrite to_int_small by exact Hin.
  rewrite (app_assoc (enc_varint (len inner)) inner rest).
  rewrite slice_from_app; [reflexivity|].
  rewrite !len_app. lia.
Qed.

Lemma dec_token_safe buf : Forall is_byte buf -> len buf < two63 -> safe (dec_token buf) (length buf).
Proof.
  intros Hb Hlt. unfold dec_token.
  destruct (dec_varint_inv buf Hb) as [E|(le & b1 & E & Hle & Hb1 & Hlen)]; rewrite E; cbn [bind]; [exact I|].
  destruct (Z.ltb_spec (len b1) le) as [L|L]; [exact I|].
  unfold u64 in Hle. apply safe_slice_to; [unfold len in *; lia|].
  set (inner := firstn (Z.to_nat le) b1).
  assert (Hinner : Forall is_byte inner) by (apply Forall_firstn; exact Hb1).
  destruct (dec_varint_inv inner Hinner) as [E2|(al & b2 & E2 & _ & Hb2 & _)]; rewrite E2; cbn [bind]; [exact I|].
  destruct (negb (al =? alias_use_value)); [exact I|].
  destruct (dec_varint_inv b2 Hb2) as [E3|(tt & b3 & E3 & _ & Hb3 & _)]; rewrite E3; cbn [bind]; [exact I|].
  assert (le < two63) by (unfold len, two63 in *; lia).
  rewrite to_int_small by assumption.
  assert (Hn : 0 <= len buf - len b1 + le <= len buf) by (unfold len in *; lia).
  apply safe_slice_from; [exact Hn|]. cbn [safe]. split; [apply skipn_length_le|apply Forall_skipn; exact Hb].
Qed.

Lemma wrap_delta prev : prev = 0 \/ prev = type_authorization_token ->
  u64 (wrapu64 (type_authorization_token - prev)) /\
  wrapu64 (prev + wrapu64 (type_authorization_token - prev)) = type_authorization_token.
Proof.
  unfold type_authorization_token, wrapu64, u64.
  intros [-> | ->].
  - change (3 - 0) with 3. rewrite (Z.mod_small 3 two64) by (unfold two64; lia).
    change (0 + 3) with 3. rewrite (Z.mod_small 3 two64) by (unfold two64; lia). unfold two64; lia.
  - change (3 - 3) with 0. rewrite (Z.mod_small 0 two64) by (unfold two64; lia).
    change (3 + 0) with 3. rewrite (Z.mod_small 3 two64) by (unfold two64; lia). unfold two64; lia.
Qed.

Lemma params_roundtrip ps : forall fuel prev rest,
  prev = 0 \/ prev = type_authorization_token ->
  forallb wf_tokenb ps = true -> (length ps <= fuel)%nat ->
  dec_params fuel (len ps) prev (enc_params prev ps ++ rest) = Ok ps rest.
Proof.
  induction ps as [|p ps IH]; intros fuel prev rest Hprev Hwf Hfuel.
  - destruct fuel; reflexivity.
  - cbn [forallb] in Hwf. apply andb_prop in Hwf. destruct Hwf as [Hp Hps].
    destruct fuel as [|fuel]; [cbn in Hfuel; lia|].
    cbn [dec_params enc_params]. rewrite len_cons. pose proof (len_nonneg ps).
    destruct (Z.eqb_spec (1 + len ps) 0); [lia|].
    destruct (wrap_delta prev Hprev) as [Hd Hc].
    rewrite <- !app_assoc. rewrite varint_roundtrip by exact Hd. cbn [bind]. rewrite Hc.
    rewrite Z.eqb_refl. rewrite token_roundtrip by exact Hp. cbn [bind].
    replace (1 + len ps - 1) with (len ps) by lia.
    rewrite IH; [reflexivity|right; reflexivity|exact Hps|cbn in Hfuel; lia].
Qed.

Lemma enc_params_length prev ps : (length ps <= length (enc_params prev ps))%nat.
Proof.
  revert prev. induction ps as [|p ps IH]; intros prev; [cbn; lia|].
  cbn [enc_params length]. rewrite !app_length. specialize (IH type_authorization_token).
  pose proof (enc_varint_length_pos (wrapu64 (type_authorization_token - prev))). lia.
Qed.

Theorem parameters_roundtrip ps rest : wf_paramsb ps = true ->
  dec_parameters (len ps) (enc_parameters ps ++ rest) = Ok ps rest.
Proof.
  unfold wf_paramsb. intros Hwf. apply andb_prop in Hwf. destruct Hwf as [Hn Hps].
  unfold dec_parameters, enc_parameters. pose proof (len_nonneg ps).
  rewrite wrapu64_id by (unfold two63, two64 in *; lia).
  apply params_roundtrip; [left; reflexivity|exact Hps|].
  rewrite app_length. pose proof (enc_params_length 0 ps). lia.
Qed.

Lemma dec_params_safe fuel : forall count cur buf, Forall is_byte buf -> len buf < two63 -> (length buf < fuel)%nat ->
  safe (dec_params fuel count cur buf) (length buf).
Proof.
  induction fuel as [|fuel IH]; intros count cur buf Hb Hlt Hf; [lia|].
  cbn [dec_params]. destruct (count =? 0); [cbn; split; [lia|exact Hb]|].
  destruct (dec_varint_inv buf Hb) as [E|(d & b1 & E & Hd & Hb1 & Hlen)]; rewrite E; cbn [bind]; [exact I|].
  destruct (wrapu64 (cur + d) =? type_authorization_token); [|exact I].
  eapply safe_bind; [apply dec_token_safe; [exact Hb1|unfold len in *; lia]|].
  intros t b2 Hl2 Hb2. eapply safe_bind; [apply IH; [exact Hb2|unfold len in *; lia|lia]|].
  intros ts b3 Hl3 Hb3. cbn. split; [lia|exact Hb3].
Qed.

Lemma dec_parameters_safe count buf : Forall is_byte buf -> len buf < two63 -> safe (dec_parameters count buf) (length buf).
Proof. intros Hb Hlt. unfold dec_parameters. apply dec_params_safe; [exact Hb|exact Hlt|lia]. Qed.

(* ---- properties ---- *)
Lemma wrap_delta_prop prev : prev = 0 \/ prev = timestamp_property_type ->
  u64 (wrapu64 (timestamp_property_type - prev)) /\
  wrapu64 (prev + wrapu64 (timestamp_property_type - prev)) = timestamp_property_type.
Proof.
  unfold timestamp_property_type, wrapu64, u64.
  intros [-> | ->].
  - change (6 - 0) with 6. rewrite (Z.mod_small 6 two64) by (unfold two64; lia).
    change (0 + 6) with 6. rewrite (Z.mod_small 6 two64) by (unfold two64; lia). unfold two64; lia.
  - change (6 - 6) with 0. rewrite (Z.mod_small 0 two64) by (unfold two64; lia).
    change (6 + 0) with 6. rewrite (Z.mod_small 6 two64) by (unfold two64; lia). unfold two64; lia.
Qed.

Lemma dec_props_cons fuel cur b tl :
  dec_props (S fuel) cur (b :: tl) =
  (let* (d, b1) := dec_varint (b :: tl) in
   let cur' := wrapu64 (cur + d) in
   if cur' =? timestamp_property_type then
     let* (t, b2) := dec_varint b1 in
     let* (ts, b3) := dec_props fuel cur' b2 in Ok (t :: ts) b3
   else if cur' mod 2 =? 1 then
     let* (l, b2) := dec_varint b1 in
     let n2 := len b1 - len b2 in
     if wrapu64 (len b1 - n2) <? l then Err
     else slice_from (n2 + to_int l) b1 (fun b3 => dec_props fuel cur' b3)
   else
     let* (skip, b2) := dec_varint b1 in dec_props fuel cur' b2).
Proof. reflexivity. Qed.

Lemma props_roundtrip ts : forall fuel prev,
  prev = 0 \/ prev = timestamp_property_type ->
  forallb u64b ts = true -> (length ts <= fuel)%nat ->
  dec_props fuel prev (enc_props prev ts) = Ok ts [].
Proof.
  induction ts as [|t ts IH]; intros fuel prev Hprev Hwf Hfuel.
  - destruct fuel; reflexivity.
  - cbn [forallb] in Hwf. apply andb_prop in Hwf. destruct Hwf as [Ht Hts].
    apply u64b_spec in Ht.
    destruct fuel as [|fuel]; [cbn in Hfuel; lia|].
    cbn [enc_props].
    destruct (wrap_delta_prop prev Hprev) as [Hd Hc].
    destruct (enc_varint_cons (wrapu64 (timestamp_property_type - prev))) as (b & tl & Eb).
    rewrite Eb. cbn [app]. rewrite dec_props_cons.
    change (b :: tl ++ enc_varint t ++ enc_props timestamp_property_type ts)
      with ((b :: tl) ++ enc_varint t ++ enc_props timestamp_property_type ts).
    rewrite <- Eb. rewrite varint_roundtrip by exact Hd. cbn [bind]. cbv zeta. rewrite Hc.
    rewrite Z.eqb_refl. rewrite varint_roundtrip by exact Ht. cbn [bind].
    rewrite IH; [reflexivity|right; reflexivity|exact Hts|cbn in Hfuel; lia].
Qed.

Theorem properties_roundtrip ts : wf_propsb ts = true ->
  dec_properties (enc_properties ts) = Ok ts [].
Proof.
  unfold wf_propsb, dec_properties, enc_properties. intros Hwf.
  apply props_roundtrip; [left; reflexivity|exact Hwf|].
  assert (H : forall prev, (length ts <= length (enc_props prev ts))%nat).
  { induction ts as [|t ts IH]; intros prev; [cbn; lia|].
    cbn [forallb] in Hwf. apply andb_prop in Hwf. destruct Hwf as [_ Hts].
    cbn [enc_props length]. rewrite !app_length. specialize (IH Hts timestamp_property_type).
    pose proof (enc_varint_length_pos (wrapu64 (timestamp_property_type - prev))). lia. }
  apply H.
Qed.

Lemma dec_props_safe fuel : forall cur buf, Forall is_byte buf -> len buf < two63 -> (length buf <= fuel)%nat ->
  safe (dec_props fuel cur buf) 0.
Proof.
  induction fuel as [|fuel IH]; intros cur buf Hb Hlt Hf.
  - destruct buf; [cbn; split; [lia|constructor]|cbn in Hf; lia].
  - destruct buf as [|b tl]; [cbn; split; [lia|constructor]|].
    rewrite dec_props_cons.
    destruct (dec_varint_inv (b :: tl) Hb) as [E|(d & b1 & E & Hd & Hb1 & Hlen)]; rewrite E; cbn [bind]; [exact I|].
    cbv zeta. destruct (wrapu64 (cur + d) =? timestamp_property_type).
    + destruct (dec_varint_inv b1 Hb1) as [E2|(t & b2 & E2 & _ & Hb2 & Hlen2)]; rewrite E2; cbn [bind]; [exact I|].
      eapply safe_bind; [apply IH; [exact Hb2|unfold len in *; cbn [length] in *; lia|cbn [length] in *; lia]|].
      intros ts b3 Hl3 Hb3. cbn. split; [lia|exact Hb3].
    + destruct (wrapu64 (cur + d) mod 2 =? 1).
      * destruct (dec_varint_inv b1 Hb1) as [E2|(l & b2 & E2 & Hl & Hb2 & Hlen2)]; rewrite E2; cbn [bind]; [exact I|].
        replace (len b1 - (len b1 - len b2)) with (len b2) by lia.
        rewrite wrapu64_id by (unfold len, two63, two64 in *; cbn [length] in *; lia).
        destruct (Z.ltb_spec (len b2) l) as [L|L]; [exact I|].
        unfold u64 in Hl. assert (l < two63) by (unfold len, two63 in *; cbn [length] in *; lia).
        rewrite to_int_small by assumption.
        apply safe_slice_from; [unfold len in *; lia|].
        apply IH; [apply Forall_skipn; exact Hb1| |]; unfold len in *; rewrite skipn_length; cbn [length] in *; lia.
      * destruct (dec_varint_inv b1 Hb1) as [E2|(t & b2 & E2 & _ & Hb2 & Hlen2)]; rewrite E2; cbn [bind]; [exact I|].
        apply IH; [exact Hb2|unfold len in *; cbn [length] in *; lia|cbn [length] in *; lia].
Qed.

Lemma dec_properties_safe buf : Forall is_byte buf -> len buf < two63 -> safe (dec_properties buf) 0.
Proof. intros Hb Hlt. unfold dec_properties. apply dec_props_safe; [exact Hb|exact Hlt|lia]. Qed.
