(* C03, requester identity: a call site that takes AccessRequest.IP from the source its carrier demands (ip_ok)
   hands the path manager the address of the host the request is attributable to - through any honest chain of trusted
   proxies, against any forged forwarding header; lifted through flow_sound: what gets attached was admitted for the
   ORIGINATOR's address. Each requirement is needed (witnesses). *)
From Coq Require Import List ZArith Bool Lia.
Require Import MTX.Model.C14_PathConf MTX.Model.C03_Auth MTX.Model.C03_Origin MTX.Proofs.C03_Auth.
Require MTX.Model.C43_Hls MTX.Proofs.C43_Hls.
Module GP := MTX.Proofs.C43_Hls.
Import ListNotations.
Local Open Scope Z_scope.

(* the HLS configuration record of C43 with our trusted list and parser: its `cip` is ClientIP under gin_engine *)
Definition as_conf (tr : list G.cidr) (parse : list Z -> option G.addr) : G.config :=
  {| G.always := false; G.cdn_secret := []; G.auth := fun _ _ _ => false; G.nostream := fun _ => false;
     G.trusted := tr; G.parse_ip := parse |}.

Lemma cip_as_conf tr parse n : G.cip (as_conf tr parse) n = G.client_ip (gin_engine tr) parse n.
Proof. reflexivity. Qed.

Lemma items_clean t : G.clean t = true -> G.items t = [t].
Proof. intros H. exact (GP.items_proxy_append [] t H). Qed.

Lemma clean_nonempty t : G.clean t = true -> t <> [].
Proof. intros H. destruct t; [discriminate|discriminate]. Qed.

(* ---- HTTP: ClientIP is the originator's address ---- *)
Lemma client_ip_origin tr parse n who :
  http_origin tr parse n who -> G.client_ip (gin_engine tr) parse n = who.
Proof.
  intros [H|[H|[H|H]]].
  - destruct H as [a [Hp Ht]]. unfold G.client_ip. cbn [G.e_platform gin_engine G.e_trusted G.e_forwarded].
    rewrite Hp, Ht. reflexivity.
  - destruct H as [a [Hp [Hx Hr]]]. unfold G.client_ip. cbn [G.e_platform gin_engine G.e_trusted G.e_forwarded G.e_headers].
    rewrite Hp. destruct (G.is_trusted tr a && true); [|reflexivity].
    cbn [G.first_valid]. rewrite Hx, Hr. reflexivity.
  - destruct H as [x0 [ca [ps [pt [pa [Hp [Ht [Hx [Hcl [Hpc [Hut Hps]]]]]]]]]]].
    rewrite <- cip_as_conf. eapply GP.cip_honest_chain with (x0 := x0) (ca := ca) (ps := ps); cbn [as_conf G.trusted G.parse_ip]; eassumption.
  - destruct H as [ca [pt [pa [Hp [Ht [Hx [Hr [Hcl Hpc]]]]]]]].
    unfold G.client_ip. cbn [G.e_platform gin_engine G.e_trusted G.e_forwarded G.e_headers].
    rewrite Hp, Ht. cbn [andb G.first_valid]. rewrite Hx, Hr. cbn [G.validate_header].
    unfold G.validate_header. destruct who as [|b who'] eqn:Ew; [discriminate|]. rewrite <- Ew in *.
    rewrite (items_clean who Hcl). cbn [rev app G.validate_rev]. rewrite Hpc. cbn [orb]. reflexivity.
Qed.

(* ---- every carrier: the right source yields the originator ---- *)
Theorem site_ip_origin car src tr parse other w who :
  ip_ok car src = true -> attributable car tr parse w who -> site_ip car src tr parse other w = who.
Proof.
  destruct car, src; try discriminate; intros _ Ha; cbn [site_ip attributable] in *.
  - apply client_ip_origin. exact Ha.
  - destruct Ha as [t [a [Hp H]]]. unfold pp_remote. rewrite Hp.
    destruct H as [[Ht Hw]|[[Ht Hw]|[Ht [Hw1 Hw2]]]]; destruct tr as [|c tr']; try rewrite Ht; try rewrite Hw; try rewrite Hw1;
      try (cbn in Ht; discriminate); subst; reflexivity.
  - destruct Ha as [a Hp]. unfold G.peer_text. rewrite Hp. reflexivity.
Qed.

Section Flow.
  Context {Cr : Type}.
  Variable m : str -> str -> option (list str).
  Variable auth : bool -> str -> Cr -> list Z -> bool.      (* the address type is the IP as text *)

  (* a well-formed flow at a site whose IP source fits its carrier, fed with the wire request w (the first, authenticating
     call of the flow carries site_ip ... w): whatever gets attached, the manager admitted the flow's credentials and the
     ORIGINATOR's address for that path and action *)
  Theorem origin_flow_sound (f : flow) (e : env Cr (list Z)) cs0 rl k n car src tr parse other w who :
    flow_ok f = true -> ip_ok car src = true ->
    attributable car tr parse w who ->
    e_ip1 e = site_ip car src tr parse other w ->
    In (Attached k n) (flow_events m auth f e cs0 rl) ->
    n = e_n1 e /\ auth (kind_publish k) n (e_cr1 e) who = true.
  Proof.
    intros Hok Hip Hat He Hin.
    destruct (@flow_sound _ _ m auth f e cs0 rl k n Hok Hin) as [Hn [Ha _]].
    split; [exact Hn|]. rewrite He, (site_ip_origin _ _ _ _ _ _ _ Hip Hat) in Ha. exact Ha.
  Qed.
End Flow.

(* ---- witnesses: each requirement is needed ---- *)

(* hosts: the reverse proxy P = 127.0.0.3 (trusted), a remote client R = 203.0.113.7 *)
Definition w_P : list Z := [49; 50; 55; 46; 48; 46; 48; 46; 51].
Definition w_R : list Z := [50; 48; 51; 46; 48; 46; 49; 49; 51; 46; 55].
Definition w_aP : G.addr := (true, 2130706435).
Definition w_aR : G.addr := (true, 3405803783).
Definition w_tr : list G.cidr := [ {| G.c_v4 := true; G.c_base := 2130706435; G.c_ones := 32 |} ].
Definition w_parse (s : list Z) : option G.addr :=
  if txt_eqb s w_P then Some w_aP else if txt_eqb s w_R then Some w_aR else None.
(* R's request as it arrives through P: peer P, X-Forwarded-For: R *)
Definition w_via : wreq := {| w_net := {| G.n_peer := Some (w_P, w_aP); G.n_hdrs := [(G.h_xff, w_R)] |}; w_pp := None |}.
(* R connects itself and claims to be P *)
Definition w_forged : wreq := {| w_net := {| G.n_peer := Some (w_R, w_aR); G.n_hdrs := [(G.h_xff, w_P)] |}; w_pp := None |}.
(* R connects itself to a TCP server and sends a PROXY header naming P *)
Definition w_forged_pp : wreq := {| w_net := {| G.n_peer := Some (w_R, w_aR); G.n_hdrs := [] |}; w_pp := Some w_P |}.
(* the permission "only from the proxy's address" (e.g. ips: [127.0.0.3] meant for a local service) *)
Definition w_auth_P : bool -> str -> Z -> list Z -> bool := fun _ _ _ ip => txt_eqb ip w_P.

Lemma w_via_attributable : attributable CHttp w_tr w_parse w_via w_R.
Proof.
  cbn [attributable]. right. right. left. exists [], w_aR, [], w_P, w_aP. repeat split; try reflexivity. constructor.
Qed.

(* a HTTP site that reads the TCP peer (http.Request.RemoteAddr) instead of ClientIP: behind the trusted proxy the
   manager is asked about the PROXY's address; a remote client the manager refuses becomes a reader *)
Lemma origin_peer_source_refuted :
  exists (e : env Z (list Z)) cs0 n,
    ip_ok CHttp SPeer = false /\
    attributable CHttp w_tr w_parse w_via w_R /\
    e_ip1 e = site_ip CHttp SPeer w_tr w_parse [] w_via /\
    flow_ok (FSingle KReader false false) = true /\
    In (Attached KReader n) (flow_events w_m_none w_auth_P (FSingle KReader false false) e cs0 []) /\
    w_auth_P false n (e_cr1 e) w_R = false /\
    site_ip CHttp SClient w_tr w_parse [] w_via = w_R.
Proof.
  exists (ENV w_cam w_cam 0 0 w_P w_P None), [(w_cam, 1)], w_cam.
  split; [reflexivity|]. split; [exact w_via_attributable|]. vm_compute. repeat split; auto.
Qed.

(* an engine on which SetTrustedProxies was never called trusts every peer: a forged header is believed *)
Lemma origin_trust_all_refuted :
  attributable CHttp [] w_parse w_forged w_R /\
  G.client_ip (gin_engine gin_trust_all) w_parse (w_net w_forged) = w_P /\
  G.client_ip (gin_engine []) w_parse (w_net w_forged) = w_R.
Proof.
  split; [|split; vm_compute; reflexivity].
  cbn [attributable]. left. exists w_aR. split; reflexivity.
Qed.

(* a PROXY-protocol listener that used the header of ANY peer (policy USE for everybody) would believe it as well;
   the installed one does not *)
Definition pp_remote_use_all (n : G.netreq) (pp : option (list Z)) : list Z :=
  match G.n_peer n with None => [] | Some (t, _) => match pp with Some src => src | None => t end end.

Lemma origin_pp_use_all_refuted :
  attributable CTcp w_tr w_parse w_forged_pp w_R /\
  pp_remote_use_all (w_net w_forged_pp) (w_pp w_forged_pp) = w_P /\
  site_ip CTcp SPeer w_tr w_parse [] w_forged_pp = w_R.
Proof.
  split; [|split; vm_compute; reflexivity].
  cbn [attributable]. exists w_R, w_aR. split; [reflexivity|]. left. split; reflexivity.
Qed.

(* non-vacuity: all four ways a HTTP request can be attributable, the three TCP ones *)
Definition w_Q : list Z := [49; 50; 55; 46; 48; 46; 48; 46; 52].            (* 127.0.0.4, a second trusted proxy *)
Definition w_tr2 : list G.cidr := w_tr ++ [ {| G.c_v4 := true; G.c_base := 2130706436; G.c_ones := 32 |} ].
Definition w_parse2 (s : list Z) : option G.addr := if txt_eqb s w_Q then Some (true, 2130706436) else w_parse s.
Definition sep : list Z := [44; 32].

Lemma origin_examples :
  let net p h := {| w_net := {| G.n_peer := Some p; G.n_hdrs := h |}; w_pp := None |} in
  (* forged list sent by R, then R -> Q -> P: "127.0.0.3, 203.0.113.7, 127.0.0.4" *)
  site_ip CHttp SClient w_tr2 w_parse2 [] (net (w_P, w_aP) [(G.h_xff, w_P ++ sep ++ w_R ++ sep ++ w_Q)]) = w_R /\
  site_ip CHttp SClient w_tr2 w_parse2 [] (net (w_P, w_aP) []) = w_P /\
  site_ip CHttp SClient w_tr2 w_parse2 [] (net (w_P, w_aP) [(G.h_xreal, w_R)]) = w_R /\
  site_ip CHttp SClient w_tr2 w_parse2 [] w_forged = w_R /\
  site_ip CTcp SPeer w_tr w_parse [] {| w_net := {| G.n_peer := Some (w_P, w_aP); G.n_hdrs := [] |}; w_pp := Some w_R |} = w_R /\
  site_ip CTcp SPeer [] w_parse [] {| w_net := {| G.n_peer := Some (w_P, w_aP); G.n_hdrs := [] |}; w_pp := Some w_R |} = w_P /\
  site_ip CDirect SPeer w_tr w_parse [] w_forged_pp = w_R.
Proof. vm_compute. repeat split. Qed.
