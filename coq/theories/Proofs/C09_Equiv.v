(* C09: without variables below the prefix the value is kept; the canonical variables of a value load as that value. *)
From Coq Require Import List ZArith Bool Lia.
Require Import MTX.Model.C09_Env MTX.Model.C09_EnvSpec MTX.Proofs.C09_Strings MTX.Proofs.C09_Restrict.
Import ListNotations.
Local Open Scope Z_scope.

Definition wt_opt (t : ty) (o : option value) : bool := match o with None => true | Some v => wt t v end.

Lemma vapp_nil l : vapp l VNil = l.
Proof. induction l as [|v l IH]; simpl; [reflexivity|rewrite IH; reflexivity]. Qed.

Lemma ptr_ok_not_ptr t : ptr_ok t = true -> is_ptr t = false.
Proof. destruct t; simpl; intros H; try reflexivity; discriminate. Qed.

Section Keep.
Variable OR : oracles.
Notation loadp := (loadp OR false).
Notation load_fields := (load_fields OR false).
Notation load_val := (load_val OR false).

Definition PK (t : ty) := forall p o, wf_ty t = true -> is_ptr t = false -> wt_opt t o = true ->
  (o = None -> ptr_ok t = true) -> loadp t [] p o = Ok o.
Definition PKv (t : ty) := forall p v, wf_ty t = true -> wt t v = true -> load_val t [] p v = Ok v.
Definition PKf (fs : fields) := forall p vs, wf_fields fs = true -> wts fs vs = true -> load_fields fs [] p vs = Ok vs.

Lemma PKv_of_PK t : is_ptr t = false -> PK t -> PKv t.
Proof.
  intros Ht H p v Hwf Hwt. rewrite load_val_nonptr by exact Ht.
  rewrite H; [reflexivity|exact Hwf|exact Ht|exact Hwt|discriminate].
Qed.

Lemma load_elems_keep fs p : PKf fs -> wf_fields fs = true ->
  forall l i, vall (fun vs => wts fs vs) l = true -> load_elems (fun q vs => load_fields fs [] q vs) p i l = Ok l.
Proof.
  intros H Hwf l. induction l as [|v l IH]; intros i Hl; simpl; [reflexivity|].
  destruct v; simpl in Hl; try discriminate. apply andb_true_iff in Hl as [Hv Hl].
  rewrite H by assumption. simpl. rewrite IH by exact Hl. reflexivity.
Qed.

Lemma keep_all : (forall t, PK t /\ PKv t) /\ (forall fs, PKf fs).
Proof.
  apply ty_fields_ind.
  - split; [|apply PKv_of_PK; [reflexivity|]]; intros p o _ _ _ _; reflexivity.
  - split; [|apply PKv_of_PK; [reflexivity|]]; intros p o _ _ _ _; reflexivity.
  - split; [|apply PKv_of_PK; [reflexivity|]]; intros p o _ _ _ _; reflexivity.
  - split; [|apply PKv_of_PK; [reflexivity|]]; intros p o _ _ _ _; reflexivity.
  - split; [|apply PKv_of_PK; [reflexivity|]]; intros p o _ _ _ _; reflexivity.
  - intros k. split; [|apply PKv_of_PK; [reflexivity|]]; intros p o _ _ _ _; reflexivity.
  - split; [|apply PKv_of_PK; [reflexivity|]]; intros p o _ _ _ _; reflexivity.
  - split; [|apply PKv_of_PK; [reflexivity|]]; intros p o _ _ _ _; reflexivity.
  - split; [|apply PKv_of_PK; [reflexivity|]]; intros p o _ _ _ _; reflexivity.
  - (* TStructs *) intros fs IH.
    assert (H : PK (TStructs fs)).
    { intros p o Hwf _ Hwt _. rewrite loadp_structs_eq. cbn [lookup]. unfold structs_body.
      simpl in Hwf. apply andb_true_iff in Hwf as [Hwf _].
      destruct o as [v|]; [|reflexivity].
      destruct v; simpl in Hwt; try discriminate.
      destruct o as [l|].
      - rewrite (load_elems_keep fs p IH Hwf l 0 Hwt). cbn [bind]. unfold loop_fuel. simpl. rewrite vapp_nil. reflexivity.
      - reflexivity. }
    split; [exact H|apply PKv_of_PK; [reflexivity|exact H]].
  - (* TStruct *) intros fs IH.
    assert (H : PK (TStruct fs)).
    { intros p o Hwf _ Hwt Hn. destruct o as [v|]; [|specialize (Hn eq_refl); discriminate].
      destruct v; simpl in Hwt; try discriminate. simpl in Hwf. apply andb_true_iff in Hwf as [Hwf _].
      simpl. rewrite IH by assumption. reflexivity. }
    split; [exact H|apply PKv_of_PK; [reflexivity|exact H]].
  - (* THook *) intros fs IH.
    split; [|apply PKv_of_PK; [reflexivity|]]; intros p o _ _ _ _; reflexivity.
  - (* TMap *) intros e IH.
    split; [|apply PKv_of_PK; [reflexivity|]]; intros p o _ _ _ _; reflexivity.
  - (* TPtr *) intros t [IH _]. split.
    + intros p o _ Hp. discriminate.
    + intros p v Hwf Hwt. simpl in Hwf. apply andb_true_iff in Hwf as [Hok Hwf].
      destruct v; simpl in Hwt; try discriminate. rewrite load_val_ptr.
      rewrite IH; [reflexivity|exact Hwf|apply ptr_ok_not_ptr; exact Hok|destruct o; [exact Hwt|reflexivity]|intros _; exact Hok].
  - (* TBad *) split; [intros p o Hwf; discriminate|intros p v Hwf; discriminate].
  - (* FNil *) intros p vs _ Hwt. destruct vs; [reflexivity|discriminate].
  - (* FCons *) intros tag t [_ IHt] fs IHf p vs Hwf Hwt.
    destruct vs as [|v vs]; [discriminate|]. simpl in Hwf, Hwt.
    apply andb_true_iff in Hwf as [Hwf Hwff]. apply andb_true_iff in Hwf as [_ Hwft].
    apply andb_true_iff in Hwt as [Hwtv Hwtf].
    rewrite load_fields_cons_eq, IHt by assumption. cbn [bind]. rewrite IHf by assumption. reflexivity.
Qed.

(* unset variables leave the (file's) value *)
Theorem loadp_keep t E p o :
  wf_ty t = true -> is_ptr t = false -> wt_opt t o = true -> (o = None -> ptr_ok t = true) ->
  R p E = [] -> loadp t E p o = Ok o.
Proof.
  intros Hwf Hp Hwt Hn HR. rewrite loadp_restrict, HR. apply keep_all; assumption.
Qed.

Theorem load_val_keep t E p x v :
  wf_ty t = true -> wt t v = true -> R (sub p x) E = [] -> load_val t E (sub p x) v = Ok v.
Proof.
  intros Hwf Hwt HR.
  assert (H : load_val t E (sub p x) v = load_val t (R (sub p x) E) (sub p x) v).
  { destruct t; try (rewrite !load_val_nonptr by reflexivity; rewrite (loadp_restrict OR _ E); reflexivity).
    destruct v; try reflexivity. rewrite !load_val_ptr, (loadp_restrict OR _ E). reflexivity. }
  rewrite H, HR. apply keep_all; assumption.
Qed.

End Keep.
(* ------------------------------------------------------------------ auxiliary facts by induction on the type *)
Definition keys (E : env) : list str := map fst E.

Lemma keys_app a b : keys (a ++ b) = keys a ++ keys b.
Proof. apply map_app. Qed.

Lemma under_sub_neq p x k : under (sub p x) k = true -> k <> p.
Proof.
  intros H. apply under_sub_prefix in H. apply has_prefix_spec in H as [s Hs]. intros ->.
  apply (f_equal (@length Z)) in Hs. rewrite !app_length in Hs. simpl in Hs. lia.
Qed.

Section Aux.
Variable OR : oracles.
Notation env_of := (env_of OR).
Notation env_of_fields := (env_of_fields OR).
Notation zero := (zero OR).
Notation zeros := (zeros OR).

(* the zero value is well-typed *)
Lemma zero_wt_all : (forall t, wf_ty t = true -> wt t (zero t) = true) /\ (forall fs, wf_fields fs = true -> wts fs (zeros fs) = true).
Proof.
  apply ty_fields_ind; try (intros; reflexivity); try (intros; discriminate).
  - intros fs IH Hwf. simpl in Hwf. apply andb_true_iff in Hwf as [Hwf _]. simpl. apply IH. exact Hwf.
  - intros tag t IHt fs IHf Hwf. simpl in Hwf. apply andb_true_iff in Hwf as [Hwf Hwff].
    apply andb_true_iff in Hwf as [_ Hwft].
    change (wt t (zero t) && wts fs (zeros fs) = true). rewrite IHt, IHf by assumption. reflexivity.
Qed.

(* where the variables of a value live *)
Definition PKeys (t : ty) := forall q v k, In k (keys (env_of t q v)) -> under q k = true.
Definition PKeysF (fs : fields) := forall p vs k, In k (keys (env_of_fields fs p vs)) ->
  exists N, In N (field_names fs) /\ under (sub p N) k = true.

Lemma elems_keys fs : PKeysF fs -> forall q l i k,
  In k (keys (elems_env (fun q vs => env_of_fields fs q vs) q i l)) ->
  exists j, i <= j < i + Z.of_nat (vlen l) /\ under (sub q (dec j)) k = true.
Proof.
  intros H q l. induction l as [|v l IH]; intros i k Hin; simpl in Hin; [contradiction|].
  assert (Hr : forall k, In k (keys (elems_env (fun q vs => env_of_fields fs q vs) q (i + 1) l)) ->
               exists j, i <= j < i + Z.of_nat (vlen (VCons v l)) /\ under (sub q (dec j)) k = true).
  { intros k' Hk'. destruct (IH _ _ Hk') as [j [Hj Hu]]. exists j. split; [cbn [vlen]; lia|exact Hu]. }
  destruct v; try (apply Hr; exact Hin).
  rewrite keys_app in Hin. apply in_app_or in Hin as [Hin|Hin]; [|apply Hr; exact Hin].
  destruct (H _ _ _ Hin) as [N [_ Hu]]. exists i. split; [cbn [vlen]; lia|]. apply under_sub in Hu. exact Hu.
Qed.

Fixpoint MIn (k : str) (x : value) (m : ments) : Prop :=
  match m with
  | MNil => False
  | MCons k' v r => (k' = k /\ v = VPtr (Some x)) \/ MIn k x r
  end.

Lemma ments_keys e : PKeys e -> forall q m k,
  In k (keys (ments_env (fun q x => env_of e q x) q m)) ->
  exists k0 x, MIn k0 x m /\ under (sub q (upper k0)) k = true.
Proof.
  intros H q m. induction m as [|k0 v m IH]; intros k Hin; simpl in Hin; [contradiction|].
  assert (Hr : In k (keys (ments_env (fun q x => env_of e q x) q m)) ->
               exists k1 x, MIn k1 x (MCons k0 v m) /\ under (sub q (upper k1)) k = true).
  { intros Hk. destruct (IH _ Hk) as [k1 [x [Hm Hu]]]. exists k1, x. split; [right; exact Hm|exact Hu]. }
  destruct v; try (apply Hr; exact Hin). destruct o as [x|]; [|apply Hr; exact Hin].
  rewrite keys_app in Hin. apply in_app_or in Hin as [Hin|Hin]; [|apply Hr; exact Hin].
  exists k0, x. split; [left; split; reflexivity|]. apply (H _ _ _ Hin).
Qed.

Lemma keys_all : (forall t, PKeys t) /\ (forall fs, PKeysF fs).
Proof.
  apply ty_fields_ind.
  - intros q v k H. destruct v; simpl in H; try contradiction. destruct H as [<-|[]]. apply under_refl.
  - intros q v k H. destruct v; simpl in H; try contradiction. destruct H as [<-|[]]. apply under_refl.
  - intros q v k H. destruct v; simpl in H; try contradiction. destruct H as [<-|[]]. apply under_refl.
  - intros q v k H. destruct v; simpl in H; try contradiction. destruct H as [<-|[]]. apply under_refl.
  - intros q v k H. destruct v; simpl in H; try contradiction. destruct H as [<-|[]]. apply under_refl.
  - intros c q v k H. destruct v; simpl in H; try contradiction. destruct H as [<-|[]]. apply under_refl.
  - intros q v k H. destruct v as [| | | | | |[l|]| | | | | | | |]; simpl in H; try contradiction. destruct H as [<-|[]]. apply under_refl.
  - intros q v k H. destruct v as [| | | | | | |[l|]| | | | | | |]; simpl in H; try contradiction. destruct H as [<-|[]]. apply under_refl.
  - intros q v k H. destruct v as [| | | | | | | |[l|]| | | | | |]; simpl in H; try contradiction. destruct H as [<-|[]]. apply under_refl.
  - (* TStructs *) intros fs IH q v k H. destruct v as [| | | | | | | | |[l|]| | | | |]; simpl in H; try contradiction.
    destruct l as [|v l].
    + destruct H as [<-|[]]. apply under_refl.
    + destruct (elems_keys fs IH q (VCons v l) 0 k H) as [j [_ Hu]]. apply under_sub in Hu. exact Hu.
  - (* TStruct *) intros fs IH q v k H. destruct v; simpl in H; try contradiction.
    destruct (IH _ _ _ H) as [N [_ Hu]]. apply under_sub in Hu. exact Hu.
  - (* THook *) intros fs IH q v k H. destruct v as [| | | | | | | | | | |[vs|]| | |]; simpl in H; try contradiction.
    destruct (IH _ _ _ H) as [N [_ Hu]]. apply under_sub in Hu. exact Hu.
  - (* TMap *) intros e IH q v k H. destruct v as [| | | | | | | | | | | |[m|]| |]; simpl in H; try contradiction.
    destruct (ments_keys e IH q m k H) as [k0 [x [_ Hu]]]. apply under_sub in Hu. exact Hu.
  - (* TPtr *) intros t IH q v k H. destruct v as [| | | | | | | | | | | | |[x|]|]; simpl in H; try contradiction.
    apply (IH _ _ _ H).
  - intros q v k H. destruct v; simpl in H; contradiction.
  - intros p vs k H. destruct vs; simpl in H; contradiction.
  - intros tag t IHt fs IHf p vs k H. destruct vs as [|v vs]; simpl in H; [contradiction|].
    rewrite keys_app in H. apply in_app_or in H as [H|H].
    + exists (fname tag). split; [left; reflexivity|]. apply (IHt _ _ _ H).
    + destruct (IHf _ _ _ H) as [N [HN Hu]]. exists N. split; [right; exact HN|exact Hu].
Qed.

(* a value with has_vars has at least one variable *)
Lemma has_vars_all : (forall t q v, has_vars t v = true -> env_of t q v <> []) /\
                     (forall fs p vs, has_vars_fields fs vs = true -> env_of_fields fs p vs <> []).
Proof.
  apply ty_fields_ind.
  - intros q v H; destruct v; simpl in *; try discriminate.
  - intros q v H; destruct v; simpl in *; try discriminate.
  - intros q v H; destruct v; simpl in *; try discriminate.
  - intros q v H; destruct v; simpl in *; try discriminate.
  - intros q v H; destruct v; simpl in *; try discriminate.
  - intros c q v H; destruct v; simpl in *; try discriminate.
  - intros q v H; destruct v as [| | | | | |[l|]| | | | | | | |]; simpl in *; try discriminate.
  - intros q v H; destruct v as [| | | | | | |[l|]| | | | | | |]; simpl in *; try discriminate.
  - intros q v H; destruct v as [| | | | | | | |[l|]| | | | | |]; simpl in *; try discriminate.
  - (* TStructs *) intros fs IH q v H. destruct v as [| | | | | | | | |[l|]| | | | |]; simpl in H; try discriminate.
    simpl. destruct l as [|v l]; [discriminate|].
    assert (G : forall l i, vany (fun vs => has_vars_fields fs vs) l = true ->
                elems_env (fun q vs => env_of_fields fs q vs) q i l <> []).
    { clear - IH. intros l. induction l as [|v l IHl]; intros i Hv; simpl in Hv; [discriminate|].
      destruct v; simpl; try (apply IHl; exact Hv).
      apply orb_true_iff in Hv as [Hv|Hv].
      - intros Hc. apply app_eq_nil in Hc as [Hc _]. exact (IH _ _ Hv Hc).
      - intros Hc. apply app_eq_nil in Hc as [_ Hc]. exact (IHl _ Hv Hc). }
    apply G. exact H.
  - intros fs IH q v H. destruct v; simpl in *; try discriminate. apply IH. exact H.
  - intros fs IH q v H. destruct v as [| | | | | | | | | | |[vs|]| | |]; simpl in *; try discriminate. apply IH. exact H.
  - (* TMap *) intros e IH q v H. destruct v as [| | | | | | | | | | | |[m|]| |]; simpl in *; try discriminate.
    induction m as [|k0 v m IHm]; simpl in *; [discriminate|].
    destruct v; try (apply IHm; exact H). destruct o as [x|]; [|apply IHm; exact H].
    apply orb_true_iff in H as [H|H].
    + intros Hc. apply app_eq_nil in Hc as [Hc _]. exact (IH _ _ H Hc).
    + intros Hc. apply app_eq_nil in Hc as [_ Hc]. exact (IHm H Hc).
  - intros t IH q v H. destruct v as [| | | | | | | | | | | | |[x|]|]; simpl in *; try discriminate. apply IH. exact H.
  - intros q v H. destruct v; simpl in H; discriminate.
  - intros p vs H. destruct vs; simpl in H; discriminate.
  - intros tag t IHt fs IHf p vs H. destruct vs as [|v vs]; simpl in *; [discriminate|].
    apply orb_true_iff in H as [H|H].
    + intros Hc. apply app_eq_nil in Hc as [Hc _]. exact (IHt _ _ H Hc).
    + intros Hc. apply app_eq_nil in Hc as [_ Hc]. exact (IHf _ _ H Hc).
Qed.

(* ------------------------------------------------------------------ blocks of variables under distinct labels *)
Definition blocks_ok (p : str) (bl : list (str * env)) : Prop :=
  forall a e, In (a, e) bl -> no_us a = true /\ forall k, In k (keys e) -> under (sub p a) k = true.

Lemma concat_keys (bl : list (str * env)) k :
  In k (keys (concat (map snd bl))) -> exists c ec, In (c, ec) bl /\ In k (keys ec).
Proof.
  induction bl as [|[c ec] bl IH]; simpl; intros H; [contradiction|].
  rewrite keys_app in H. apply in_app_or in H as [H|H].
  - exists c, ec. split; [left; reflexivity|exact H].
  - destruct (IH H) as [c' [ec' [Hin Hk]]]. exists c', ec'. split; [right; exact Hin|exact Hk].
Qed.

Lemma blocks_select p bl : blocks_ok p bl -> NoDup (map fst bl) ->
  forall a e, In (a, e) bl -> R (sub p a) (concat (map snd bl)) = e.
Proof.
  induction bl as [|[b eb] bl IH]; intros Hok Hnd a e Hin; [contradiction|].
  simpl. rewrite R_app. inversion Hnd as [|? ? Hnotin Hnd']; subst.
  assert (Hok' : blocks_ok p bl) by (intros c ec Hc; apply Hok; right; exact Hc).
  destruct Hin as [Heq|Hin].
  - inversion Heq; subst. destruct (Hok a e (or_introl eq_refl)) as [Ha Hk].
    rewrite (R_all _ _ Hk). rewrite R_none; [apply app_nil_r|].
    intros k Hin. destruct (concat_keys bl k Hin) as [c [ec [Hc Hkc]]].
    destruct (Hok' c ec Hc) as [Hcn Hcu].
    apply (under_other p c a k Hcn Ha); [|apply Hcu; exact Hkc].
    intros ->. apply Hnotin. apply in_map_iff. exists (a, ec). split; [reflexivity|exact Hc].
  - destruct (Hok b eb (or_introl eq_refl)) as [Hb Hkb]. destruct (Hok' a e Hin) as [Ha _].
    rewrite R_none; [simpl; apply IH; assumption|].
    intros k Hk. apply (under_other p b a k Hb Ha); [|apply Hkb; exact Hk].
    intros ->. apply Hnotin. apply in_map_iff. exists (a, e). split; [reflexivity|exact Hin].
Qed.

Lemma mem_str_In s l : mem_str s l = true <-> In s l.
Proof.
  induction l as [|a l IH]; simpl; [split; [discriminate|contradiction]|].
  rewrite orb_true_iff, IH, str_eqb_eq. reflexivity.
Qed.

Lemma nodup_str_NoDup l : nodup_str l = true -> NoDup l.
Proof.
  induction l as [|a l IH]; simpl; intros H; [constructor|].
  apply andb_true_iff in H as [H1 H2]. constructor; [|apply IH; exact H2].
  intros Hin. apply mem_str_In in Hin. rewrite Hin in H1. discriminate.
Qed.

(* struct fields *)
Fixpoint fblocks (fs : fields) (p : str) (vs : vals) : list (str * env) :=
  match fs, vs with
  | FCons tag ft r, VCons v vr => (fname tag, env_of ft (sub p (fname tag)) v) :: fblocks r p vr
  | _, _ => []
  end.

Fixpoint fenv (fs : fields) (E : env) (p : str) (vs : vals) : Prop :=
  match fs, vs with
  | FCons tag ft r, VCons v vr => R (sub p (fname tag)) E = env_of ft (sub p (fname tag)) v /\ fenv r E p vr
  | _, _ => True
  end.

Lemma fblocks_concat fs p : forall vs, env_of_fields fs p vs = concat (map snd (fblocks fs p vs)).
Proof. induction fs as [|tag ft fs IH]; intros [|v vs]; simpl; try reflexivity. rewrite IH. reflexivity. Qed.

Lemma fblocks_names fs p : forall vs, wts fs vs = true -> map fst (fblocks fs p vs) = field_names fs.
Proof.
  induction fs as [|tag ft fs IH]; intros [|v vs] H; simpl in *; try reflexivity; try discriminate.
  apply andb_true_iff in H as [_ H]. rewrite IH by exact H. reflexivity.
Qed.

Lemma fblocks_ok fs p : wf_fields fs = true -> forall vs, blocks_ok p (fblocks fs p vs).
Proof.
  induction fs as [|tag ft fs IH]; intros Hwf [|v vs] a e Hin; simpl in Hin; try contradiction.
  simpl in Hwf. apply andb_true_iff in Hwf as [Hwf Hwff]. apply andb_true_iff in Hwf as [Hn _].
  destruct Hin as [Heq|Hin]; [|apply (IH Hwff vs); exact Hin].
  inversion Heq; subst. split; [exact Hn|]. intros k Hk. apply (proj1 keys_all _ _ _ _ Hk).
Qed.

Lemma fenv_of_blocks fs E p : forall vs,
  (forall a e, In (a, e) (fblocks fs p vs) -> R (sub p a) E = e) -> fenv fs E p vs.
Proof.
  induction fs as [|tag ft fs IH]; intros [|v vs] H; simpl; try exact I.
  split; [apply H; left; reflexivity|apply IH; intros a e Hin; apply H; right; exact Hin].
Qed.

Lemma fenv_of_R fs E p vs : wf_fields fs = true -> nodup_str (field_names fs) = true -> wts fs vs = true ->
  R p E = env_of_fields fs p vs -> fenv fs E p vs.
Proof.
  intros Hwf Hnd Hwt HR. apply fenv_of_blocks. intros a e Hin.
  rewrite <- R_R_sub, HR, fblocks_concat.
  apply blocks_select; [apply fblocks_ok; exact Hwf| |exact Hin].
  rewrite fblocks_names by exact Hwt. apply nodup_str_NoDup. exact Hnd.
Qed.

(* list items *)
Fixpoint eblocks (fs : fields) (p : str) (i : Z) (l : vals) : list (str * env) :=
  match l with
  | VNil => []
  | VCons (VStruct e) r => (dec i, env_of_fields fs (sub p (dec i)) e) :: eblocks fs p (i + 1) r
  | VCons _ r => eblocks fs p (i + 1) r
  end.

Fixpoint BH (fs : fields) (E : env) (p : str) (i : Z) (l : vals) : Prop :=
  match l with
  | VNil => True
  | VCons (VStruct e) r => R (sub p (dec i)) E = env_of_fields fs (sub p (dec i)) e /\ BH fs E p (i + 1) r
  | VCons _ r => BH fs E p (i + 1) r
  end.

Lemma eblocks_concat fs p : forall l i,
  elems_env (fun q vs => env_of_fields fs q vs) p i l = concat (map snd (eblocks fs p i l)).
Proof.
  induction l as [|v l IH]; intros i; simpl; [reflexivity|]. destruct v; try apply IH. simpl. rewrite IH. reflexivity.
Qed.

Lemma eblocks_labels fs p : forall l i a e, In (a, e) (eblocks fs p i l) -> exists j, i <= j /\ a = dec j.
Proof.
  induction l as [|v l IH]; intros i a e Hin; simpl in Hin; [contradiction|].
  assert (Hr : In (a, e) (eblocks fs p (i + 1) l) -> exists j, i <= j /\ a = dec j).
  { intros H. destruct (IH _ _ _ H) as [j [Hj Ha]]. exists j. split; [lia|exact Ha]. }
  destruct v; try (apply Hr; exact Hin). destruct Hin as [Heq|Hin]; [|apply Hr; exact Hin].
  inversion Heq; subst. exists i. split; [lia|reflexivity].
Qed.

Lemma eblocks_nodup fs p : forall l i, 0 <= i -> NoDup (map fst (eblocks fs p i l)).
Proof.
  induction l as [|v l IH]; intros i Hi; simpl; [constructor|].
  destruct v; try (apply IH; lia). simpl. constructor; [|apply IH; lia].
  intros Hin. apply in_map_iff in Hin as [[a e] [Ha Hin]]. simpl in Ha. subst a.
  destruct (eblocks_labels fs p l (i + 1) _ _ Hin) as [j [Hj Hd]]. apply dec_inj in Hd; lia.
Qed.

Lemma eblocks_ok fs p : forall l i, 0 <= i -> blocks_ok p (eblocks fs p i l).
Proof.
  induction l as [|v l IH]; intros i Hi a e Hin; simpl in Hin; [contradiction|].
  destruct v; try (apply (IH (i + 1)); [lia|exact Hin]). destruct Hin as [Heq|Hin]; [|apply (IH (i + 1)); [lia|exact Hin]].
  inversion Heq; subst. split; [apply dec_no_us; exact Hi|].
  intros k Hk. destruct (proj2 keys_all _ _ _ _ Hk) as [N [_ Hu]]. apply under_sub in Hu. exact Hu.
Qed.

Lemma BH_of_blocks fs E p : forall l i,
  (forall a e, In (a, e) (eblocks fs p i l) -> R (sub p a) E = e) -> BH fs E p i l.
Proof.
  induction l as [|v l IH]; intros i H; simpl; [exact I|].
  destruct v; try (apply IH; intros a e Hin; apply H; simpl; exact Hin).
  split; [apply H; left; reflexivity|apply IH; intros a e Hin; apply H; right; exact Hin].
Qed.

Lemma BH_of_R fs E p l :
  R p E = elems_env (fun q vs => env_of_fields fs q vs) p 0 l -> BH fs E p 0 l.
Proof.
  intros HR. apply BH_of_blocks. intros a e Hin. rewrite <- R_R_sub, HR, eblocks_concat.
  apply blocks_select; [apply eblocks_ok; lia|apply eblocks_nodup; lia|exact Hin].
Qed.

(* map entries *)
Fixpoint mblocks (e : ty) (p : str) (m : ments) : list (str * env) :=
  match m with
  | MNil => []
  | MCons k (VPtr (Some x)) r => (upper k, env_of e (sub p (upper k)) x) :: mblocks e p r
  | MCons _ _ r => mblocks e p r
  end.

Fixpoint MBH (e : ty) (E : env) (p : str) (m : ments) : Prop :=
  match m with
  | MNil => True
  | MCons k (VPtr (Some x)) r => R (sub p (upper k)) E = env_of e (sub p (upper k)) x /\ MBH e E p r
  | MCons _ _ r => MBH e E p r
  end.

Lemma mblocks_concat e p : forall m, ments_env (fun q x => env_of e q x) p m = concat (map snd (mblocks e p m)).
Proof.
  induction m as [|k v m IH]; simpl; [reflexivity|]. destruct v; try apply IH. destruct o; [|apply IH].
  simpl. rewrite IH. reflexivity.
Qed.

Lemma mblocks_labels e p : forall m a ea, In (a, ea) (mblocks e p m) -> exists k, In k (mkeys m) /\ a = upper k.
Proof.
  induction m as [|k v m IH]; intros a ea Hin; simpl in Hin; [contradiction|].
  assert (Hr : In (a, ea) (mblocks e p m) -> exists k', In k' (mkeys (MCons k v m)) /\ a = upper k').
  { intros H. destruct (IH _ _ H) as [k' [Hk Ha]]. exists k'. split; [right; exact Hk|exact Ha]. }
  destruct v; try (apply Hr; exact Hin). destruct o; [|apply Hr; exact Hin].
  destruct Hin as [Heq|Hin]; [|apply Hr; exact Hin]. inversion Heq; subst. exists k. split; [left; reflexivity|reflexivity].
Qed.

Definition keys_ok (m : ments) : Prop := forall k, In k (mkeys m) -> key_ok k = true.

Lemma key_ok_inj a b : key_ok a = true -> key_ok b = true -> upper a = upper b -> a = b.
Proof.
  unfold key_ok. intros Ha Hb H. apply andb_true_iff in Ha as [_ Ha]. apply andb_true_iff in Hb as [_ Hb].
  apply str_eqb_eq in Ha, Hb. rewrite <- Ha, <- Hb, H. reflexivity.
Qed.

Lemma mblocks_nodup e p : forall m, keys_ok m -> NoDup (mkeys m) -> NoDup (map fst (mblocks e p m)).
Proof.
  induction m as [|k v m IH]; intros Hok Hnd; simpl; [constructor|].
  inversion Hnd as [|? ? Hnotin Hnd']; subst.
  assert (Hok' : keys_ok m) by (intros k' Hk'; apply Hok; right; exact Hk').
  destruct v; try (apply IH; assumption). destruct o; [|apply IH; assumption].
  simpl. constructor; [|apply IH; assumption].
  intros Hin. apply in_map_iff in Hin as [[a ea] [Ha Hin]]. simpl in Ha. subst a.
  destruct (mblocks_labels e p m _ _ Hin) as [k' [Hk' Hu]].
  apply key_ok_inj in Hu; [subst; contradiction|apply Hok; left; reflexivity|apply Hok'; exact Hk'].
Qed.

Lemma mblocks_ok e p : forall m, keys_ok m -> blocks_ok p (mblocks e p m).
Proof.
  induction m as [|k v m IH]; intros Hok a ea Hin; simpl in Hin; [contradiction|].
  assert (Hok' : keys_ok m) by (intros k' Hk'; apply Hok; right; exact Hk').
  destruct v; try (apply (IH Hok'); exact Hin). destruct o; [|apply (IH Hok'); exact Hin].
  destruct Hin as [Heq|Hin]; [|apply (IH Hok'); exact Hin]. inversion Heq; subst. split.
  - specialize (Hok k (or_introl eq_refl)). unfold key_ok in Hok.
    apply andb_true_iff in Hok as [Hok _]. apply andb_true_iff in Hok as [Hok _]. apply andb_true_iff in Hok as [_ Hok]. exact Hok.
  - intros k' Hk'. apply (proj1 keys_all _ _ _ _ Hk').
Qed.

Lemma MBH_of_blocks e E p : forall m,
  (forall a ea, In (a, ea) (mblocks e p m) -> R (sub p a) E = ea) -> MBH e E p m.
Proof.
  induction m as [|k v m IH]; intros H; simpl; [exact I|].
  destruct v; try (apply IH; intros a ea Hin; apply H; simpl; exact Hin).
  destruct o; [|apply IH; intros a ea Hin; apply H; simpl; exact Hin].
  split; [apply H; left; reflexivity|apply IH; intros a ea Hin; apply H; right; exact Hin].
Qed.

Lemma MBH_of_R e E p m : keys_ok m -> NoDup (mkeys m) ->
  R p E = ments_env (fun q x => env_of e q x) p m -> MBH e E p m.
Proof.
  intros Hok Hnd HR. apply MBH_of_blocks. intros a ea Hin. rewrite <- R_R_sub, HR, mblocks_concat.
  apply blocks_select; [apply mblocks_ok; exact Hok|apply mblocks_nodup; assumption|exact Hin].
Qed.

(* ------------------------------------------------------------------ dom is reflexive on expressible values *)
Lemma dom_list_refl (f : vals -> vals -> bool) (g h : vals -> bool) z :
  (forall vs, g vs = true -> h vs = true -> f vs vs = true) ->
  forall l, vall g l = true -> vall h l = true -> dom_list f z l l = true.
Proof.
  intros H l. induction l as [|v l IH]; intros Hg Hh; simpl; [reflexivity|].
  destruct v; simpl in Hg, Hh; try discriminate.
  apply andb_true_iff in Hg as [Hg1 Hg2]. apply andb_true_iff in Hh as [Hh1 Hh2].
  rewrite H, IH by assumption. reflexivity.
Qed.

Lemma dom_ments_refl (f : value -> value -> bool) (g : value -> bool) (h : str -> value -> bool) z :
  (forall k x, g x = true -> h k x = true -> f x x = true) ->
  forall m, mall_opt g m = true -> mall h m = true -> dom_ments f z m m = true.
Proof.
  intros H m. induction m as [|k v m IH]; intros Hg Hh; simpl; [reflexivity|].
  destruct v; simpl in Hg, Hh; try discriminate. destruct o as [x|]; [|discriminate].
  apply andb_true_iff in Hg as [Hg1 Hg2]. apply andb_true_iff in Hh as [Hh1 Hh2].
  rewrite str_eqb_refl, (H k x), IH by assumption. reflexivity.
Qed.

Lemma dom_refl_all :
  (forall t v, wt t v = true -> expressible OR t v = true -> dom OR t v v = true) /\
  (forall fs vs, wts fs vs = true -> expressible_fields OR fs vs = true -> dom_fields OR fs vs vs = true).
Proof.
  apply ty_fields_ind.
  - intros v Hw _; destruct v; simpl in *; try discriminate; reflexivity.
  - intros v Hw _; destruct v; simpl in *; try discriminate; reflexivity.
  - intros v Hw _; destruct v; simpl in *; try discriminate; reflexivity.
  - intros v Hw _; destruct v; simpl in *; try discriminate; reflexivity.
  - intros v Hw _; destruct v; simpl in *; try discriminate; reflexivity.
  - intros k v Hw _; destruct v; simpl in *; try discriminate; reflexivity.
  - intros v Hw _; destruct v as [| | | | | |[l|]| | | | | | | |]; simpl in *; try discriminate; reflexivity.
  - intros v Hw _; destruct v as [| | | | | | |[l|]| | | | | | |]; simpl in *; try discriminate; reflexivity.
  - intros v Hw _; destruct v as [| | | | | | | |[l|]| | | | | |]; simpl in *; try discriminate; reflexivity.
  - (* TStructs *) intros fs IH v Hw He. destruct v as [| | | | | | | | |[l|]| | | | |]; simpl in *; try discriminate; [|reflexivity].
    destruct l as [|v l]; [reflexivity|].
    apply (dom_list_refl _ (fun vs => wts fs vs) (fun vs => expressible_fields OR fs vs && has_vars_fields fs vs)); try assumption.
    intros vs H1 H2. apply andb_true_iff in H2 as [H2 _]. apply IH; assumption.
  - intros fs IH v Hw He. destruct v; simpl in *; try discriminate. apply IH; assumption.
  - intros fs IH v Hw He. destruct v as [| | | | | | | | | | |[vs|]| | |]; simpl in *; try discriminate; [|reflexivity].
    apply andb_true_iff in He as [He _]. apply IH; assumption.
  - (* TMap *) intros e IH v Hw He. destruct v as [| | | | | | | | | | | |[m|]| |]; simpl in *; try discriminate; [|reflexivity].
    destruct m as [|k v m]; [reflexivity|]. apply andb_true_iff in He as [_ He].
    apply (dom_ments_refl _ (fun x => wt e x) (fun k x => key_ok k && expressible OR e x && has_vars e x)); try assumption.
    intros k' x H1 H2. apply andb_true_iff in H2 as [H2 _]. apply andb_true_iff in H2 as [_ H2]. apply IH; assumption.
  - intros t IH v Hw He. destruct v as [| | | | | | | | | | | | |[x|]|]; simpl in *; try discriminate; [|reflexivity].
    apply IH; assumption.
  - intros v Hw _. destruct v; simpl in Hw; discriminate.
  - intros vs Hw _. destruct vs; simpl in *; try discriminate; reflexivity.
  - intros tag t IHt fs IHf vs Hw He. destruct vs as [|v vs]; simpl in *; try discriminate.
    apply andb_true_iff in Hw as [Hw1 Hw2]. apply andb_true_iff in He as [He1 He2].
    rewrite IHt, IHf by assumption. reflexivity.
Qed.

End Aux.

(* ------------------------------------------------------------------ the main theorem *)
Lemma lookup_single E p txt : R p E = [(p, txt)] -> lookup E p = Some txt.
Proof. intros H. rewrite <- lookup_R, H. simpl. rewrite str_eqb_refl. reflexivity. Qed.

Lemma lookup_nil E p : R p E = [] -> lookup E p = None.
Proof. intros H. rewrite <- lookup_R, H. reflexivity. Qed.

Lemma lookup_below E p : (forall k, In k (keys (R p E)) -> k <> p) -> lookup E p = None.
Proof. intros H. rewrite <- lookup_R. apply lookup_not_in. intros Hin. exact (H p Hin eq_refl). Qed.

Lemma keys_R_sub q E k : In k (keys (R q E)) -> In k (keys E).
Proof.
  unfold keys, R. intros H. apply in_map_iff in H as [[k' v] [Hk Hin]]. apply filter_In in Hin as [Hin _].
  apply in_map_iff. exists (k', v). split; assumption.
Qed.

Lemma hkwp_of_block E q ev q' :
  R q E = ev -> ev <> [] -> (forall k, In k (keys ev) -> has_prefix q' k = true) -> has_key_with_prefix E q' = true.
Proof.
  intros HR Hne Hk. destruct ev as [|[k v] ev]; [contradiction|].
  apply hkwp_in. exists k. split; [apply (keys_R_sub q); rewrite HR; left; reflexivity|apply Hk; left; reflexivity].
Qed.

Fixpoint mapp (a b : ments) : ments := match a with MNil => b | MCons k v r => MCons k v (mapp r b) end.

Lemma mapp_assoc a b c : mapp (mapp a b) c = mapp a (mapp b c).
Proof. induction a as [|k v a IH]; simpl; [reflexivity|rewrite IH; reflexivity]. Qed.

Lemma mlookup_mapp k a b : mlookup k a = None -> mlookup k (mapp a b) = mlookup k b.
Proof.
  induction a as [|k' v a IH]; simpl; intros H; [reflexivity|].
  destruct (str_eqb k' k); [discriminate|apply IH; exact H].
Qed.

Lemma mset_mapp k v a b : mlookup k a = None -> mset k v (mapp a b) = mapp a (mset k v b).
Proof.
  induction a as [|k' v' a IH]; simpl; intros H; [reflexivity|].
  destruct (str_eqb k' k); [discriminate|rewrite IH by exact H; reflexivity].
Qed.

Lemma mlookup_mapp_one k a k' v : mlookup k a = None -> k' <> k -> mlookup k (mapp a (MCons k' v MNil)) = None.
Proof. intros H Hn. rewrite mlookup_mapp by exact H. simpl. rewrite str_eqb_neq by exact Hn. reflexivity. Qed.

Lemma sequence_parse_uint l : forallb uint32 l = true -> sequence (map parse_uint32 (map dec l)) = Some l.
Proof.
  induction l as [|z l IH]; simpl; intros H; [reflexivity|]. apply andb_true_iff in H as [Hz Hl].
  rewrite parse_uint32_dec, IH by assumption. reflexivity.
Qed.

Lemma ostr_eqb_eq a b : ostr_eqb a b = true -> a = b.
Proof.
  destruct a, b; simpl; intros H; try discriminate; [|reflexivity]. apply str_eqb_eq in H. subst. reflexivity.
Qed.

Section Main.
Variable OR : oracles.
Notation loadp := (loadp OR false).
Notation load_fields := (load_fields OR false).
Notation load_val := (load_val OR false).
Notation env_of := (env_of OR).
Notation env_of_fields := (env_of_fields OR).
Notation zero := (zero OR).
Notation zeros := (zeros OR).

Definition PM (t : ty) := forall E p o v, wf_ty t = true -> is_ptr t = false -> wt t v = true -> wt_opt t o = true ->
  expressible OR t v = true -> dominated OR t o v = true -> (o = None -> ptr_ok t = true) ->
  R p E = env_of t p v -> loadp t E p o = Ok (Some v).
Definition PMv (t : ty) := forall E p x d v, wf_ty t = true -> wt t v = true -> wt t d = true ->
  expressible OR t v = true -> dom OR t d v = true ->
  R (sub p x) E = env_of t (sub p x) v -> load_val t E (sub p x) d = Ok v.
Definition PMf (fs : fields) := forall E p dvs vs, wf_fields fs = true -> wts fs vs = true -> wts fs dvs = true ->
  expressible_fields OR fs vs = true -> dom_fields OR fs dvs vs = true -> fenv OR fs E p vs ->
  load_fields fs E p dvs = Ok vs.

Lemma PMv_of_PM t : is_ptr t = false -> PM t -> PMv t.
Proof.
  intros Ht H E p x d v Hwf Hwt Hwd Hex Hdom HR. rewrite load_val_nonptr by exact Ht.
  rewrite (H E (sub p x) (Some d) v); try assumption; [reflexivity|discriminate].
Qed.

Lemma sequence_fparse l :
  forallb (fun f => ostr_eqb (fparse OR f) (Some f) && no_comma f && negb (is_nil f)) l = true ->
  sequence (map (fparse OR) l) = Some l.
Proof.
  induction l as [|f l IH]; simpl; intros H; [reflexivity|]. apply andb_true_iff in H as [Hf Hl].
  apply andb_true_iff in Hf as [Hf _]. apply andb_true_iff in Hf as [Hf _]. apply ostr_eqb_eq in Hf.
  rewrite Hf, IH by exact Hl. reflexivity.
Qed.

(* ---- list items ---- *)
Section Elems.
Variable fs : fields.
Hypothesis IHf : PMf fs.
Hypothesis Hwf : wf_fields fs = true.
Hypothesis Hnd : nodup_str (field_names fs) = true.
Variable E : env.
Variable p : str.
Let ld := fun q vs => load_fields fs E q vs.

Lemma elem_load i e de : 0 <= i ->
  wts fs e = true -> wts fs de = true -> expressible_fields OR fs e = true -> dom_fields OR fs de e = true ->
  R (sub p (dec i)) E = env_of_fields fs (sub p (dec i)) e -> ld (sub p (dec i)) de = Ok e.
Proof.
  intros Hi Hwe Hwd Hex Hdom HR. unfold ld. apply IHf; try assumption.
  apply fenv_of_R; assumption.
Qed.

Lemma elem_found i e : has_vars_fields fs e = true ->
  R (sub p (dec i)) E = env_of_fields fs (sub p (dec i)) e -> has_key_with_prefix E (sub p (dec i)) = true.
Proof.
  intros Hv HR. apply (hkwp_of_block E (sub p (dec i)) _ _ HR).
  - apply (proj2 (has_vars_all OR)). exact Hv.
  - intros k Hk. destruct (proj2 (keys_all OR) _ _ _ _ Hk) as [N [_ Hu]]. apply under_sub_prefix in Hu.
    apply has_prefix_app_l in Hu. exact Hu.
Qed.

Lemma elems_main : forall l dl i fuel,
  0 <= i ->
  dom_list (fun a b => dom_fields OR fs a b) (zeros fs) dl l = true ->
  vall (fun vs => expressible_fields OR fs vs && has_vars_fields fs vs) l = true ->
  vall (fun vs => wts fs vs) l = true -> vall (fun vs => wts fs vs) dl = true ->
  BH OR fs E p i l ->
  has_key_with_prefix E (sub p (dec (i + Z.of_nat (vlen l)))) = false ->
  (vlen l < fuel)%nat ->
  exists l1 l2, load_elems ld p i dl = Ok l1 /\
                discover ld (zeros fs) E p fuel (i + Z.of_nat (vlen dl)) = Ok l2 /\ vapp l1 l2 = l.
Proof.
  induction l as [|v l IH]; intros dl i fuel Hi Hdom Hex Hwl Hwd Hbh Hend Hfuel.
  - destruct dl as [|dv dl]; [|destruct dv; discriminate].
    exists VNil, VNil. split; [reflexivity|]. split; [|reflexivity].
    destruct fuel as [|fuel]; [simpl in Hfuel; lia|]. simpl. simpl in Hend. rewrite Hend. reflexivity.
  - destruct v; simpl in Hex, Hwl; try discriminate.
    apply andb_true_iff in Hex as [Hex1 Hex]. apply andb_true_iff in Hex1 as [Hexe Hhv].
    apply andb_true_iff in Hwl as [Hwe Hwl]. destruct Hbh as [HR Hbh].
    assert (Hend' : has_key_with_prefix E (sub p (dec (i + 1 + Z.of_nat (vlen l)))) = false).
    { replace (i + 1 + Z.of_nat (vlen l)) with (i + Z.of_nat (vlen (VCons (VStruct vs) l))); [exact Hend|].
      cbn [vlen]. lia. }
    destruct fuel as [|fuel]; [simpl in Hfuel; lia|]. cbn [vlen] in Hfuel.
    destruct dl as [|dv dl].
    + simpl in Hdom. apply andb_true_iff in Hdom as [Hd1 Hdom].
      destruct (IH VNil (i + 1) fuel) as [l1 [l2 [H1 [H2 H3]]]]; try assumption; try lia; try reflexivity.
      simpl in H1. inversion H1; subst l1. simpl in H3. subst l2.
      exists VNil, (VCons (VStruct vs) l). split; [reflexivity|]. split; [|reflexivity].
      cbn [vlen Z.of_nat]. rewrite Z.add_0_r. cbn [discover].
      rewrite (elem_found i vs Hhv HR).
      rewrite (elem_load i vs (zeros fs) Hi Hwe (proj2 (zero_wt_all OR) fs Hwf) Hexe Hd1 HR). cbn [bind].
      cbn [vlen Z.of_nat] in H2. rewrite Z.add_0_r in H2. rewrite H2. reflexivity.
    + destruct dv; simpl in Hdom, Hwd; try discriminate.
      apply andb_true_iff in Hdom as [Hd1 Hdom]. apply andb_true_iff in Hwd as [Hwd1 Hwd].
      destruct (IH dl (i + 1) (S fuel)) as [l1 [l2 [H1 [H2 H3]]]]; try assumption; try lia.
      exists (VCons (VStruct vs) l1), l2. split; [|split].
      * cbn [load_elems]. rewrite (elem_load i vs vs0 Hi Hwe Hwd1 Hexe Hd1 HR). cbn [bind]. rewrite H1. reflexivity.
      * replace (i + Z.of_nat (vlen (VCons (VStruct vs0) dl))) with (i + 1 + Z.of_nat (vlen dl)); [exact H2|].
        cbn [vlen]. lia.
      * simpl. rewrite H3. reflexivity.
Qed.

Lemma elems_keys_strict q : forall l i k,
  In k (keys (elems_env (fun q vs => env_of_fields fs q vs) q i l)) ->
  exists j N, i <= j < i + Z.of_nat (vlen l) /\ under (sub (sub q (dec j)) N) k = true.
Proof.
  induction l as [|v l IH]; intros i k Hin; simpl in Hin; [contradiction|].
  assert (Hr : In k (keys (elems_env (fun q vs => env_of_fields fs q vs) q (i + 1) l)) ->
               exists j N, i <= j < i + Z.of_nat (vlen (VCons v l)) /\ under (sub (sub q (dec j)) N) k = true).
  { intros Hk. destruct (IH _ _ Hk) as [j [N [Hj Hu]]]. exists j, N. split; [cbn [vlen]; lia|exact Hu]. }
  destruct v; try (apply Hr; exact Hin).
  rewrite keys_app in Hin. apply in_app_or in Hin as [Hin|Hin]; [|apply Hr; exact Hin].
  destruct (proj2 (keys_all OR) _ _ _ _ Hin) as [N [_ Hu]]. exists i, N. split; [cbn [vlen]; lia|exact Hu].
Qed.

Lemma no_next_index l :
  R p E = elems_env (fun q vs => env_of_fields fs q vs) p 0 l ->
  has_key_with_prefix E (sub p (dec (Z.of_nat (vlen l)))) = false.
Proof.
  intros HR. unfold sub. rewrite <- hkwp_R, HR. apply hkwp_false. intros k Hk.
  destruct (elems_keys_strict p l 0 k Hk) as [j [N [Hj Hu]]].
  apply under_sub_prefix in Hu. apply has_prefix_spec in Hu as [s Hs]. subst k. unfold sub.
  rewrite <- !app_assoc. simpl. rewrite has_prefix_app. cbn [has_prefix]. unfold US at 1 2. rewrite Z.eqb_refl.
  cbn [andb]. apply dec_not_prefix. lia.
Qed.

End Elems.

(* ---- map entries ---- *)
Definition ments_of (mo : option ments) : ments := match mo with Some m => m | None => MNil end.

Section MapFold.
Variable e : ty.
Hypothesis IHe : PMv e.
Hypothesis Hwfe : wf_ty e = true.
Variable E : env.
Variable p : str.
Notation step := (map_step OR e E p).

Lemma map_step_at K cur kk :
  has_prefix (p ++ [US]) kk = true -> cut_us (skipn (length p + 1) kk) = K -> K <> [] ->
  str_eqb K (upper K) = true ->
  step (Ok cur) kk =
  match cur with
  | None => Panic
  | Some (VMap mo) =>
      let m := ments_of mo in
      let nv := match mlookup (lower K) m with Some (VPtr (Some x)) => x | _ => zero e end in
      bind (load_val e E (sub p K) nv) (fun x => Ok (Some (VMap (Some (mset (lower K) (VPtr (Some x)) m)))))
  | Some _ => Stuck
  end.
Proof.
  intros H1 H2 H3 H4. unfold map_step. cbn [bind]. rewrite H1, H2. destruct K as [|c K]; [contradiction|].
  rewrite H4. cbn [negb]. destruct cur as [[]|]; reflexivity.
Qed.

Lemma key_ok_parts k : key_ok k = true ->
  upper k <> [] /\ no_us (upper k) = true /\ str_eqb (upper k) (upper (upper k)) = true /\ lower (upper k) = k.
Proof.
  unfold key_ok. intros H. apply andb_true_iff in H as [H H4]. apply andb_true_iff in H as [H H3].
  apply andb_true_iff in H as [H1 H2]. repeat split.
  - intros Hn. rewrite Hn in H1. discriminate.
  - exact H2.
  - rewrite str_eqb_sym. exact H3.
  - apply str_eqb_eq. exact H4.
Qed.

Section Block.
Variable k : str.
Variable x : value.
Variable A : ments.
Hypothesis Hk : key_ok k = true.
Hypothesis Hwx : wt e x = true.
Hypothesis Hex : expressible OR e x = true.
Hypothesis HR : R (sub p (upper k)) E = env_of e (sub p (upper k)) x.
Hypothesis HA : mlookup k A = None.

Lemma step_key kk mo Bx B nv :
  under (sub p (upper k)) kk = true ->
  ments_of mo = mapp A Bx ->
  mset k (VPtr (Some x)) Bx = MCons k (VPtr (Some x)) B ->
  match mlookup k Bx with Some (VPtr (Some dx)) => dx | _ => zero e end = nv ->
  dom OR e nv x = true -> wt e nv = true ->
  step (Ok (Some (VMap mo))) kk = Ok (Some (VMap (Some (mapp A (MCons k (VPtr (Some x)) B))))).
Proof.
  intros Hu Hmo HB Hnv Hdom Hwn. destruct (key_ok_parts k Hk) as [K1 [K2 [K3 K4]]].
  rewrite (map_step_at (upper k)); [|apply (under_sub_prefix _ _ _ Hu)|apply under_label; assumption|exact K1|exact K3].
  cbv zeta. rewrite K4, Hmo, (mlookup_mapp _ _ _ HA), Hnv.
  rewrite (IHe E p (upper k) nv x); try assumption. cbn [bind].
  rewrite (mset_mapp _ _ _ _ HA), HB. reflexivity.
Qed.

Lemma block_fold : forall ks, ks <> [] -> (forall kk, In kk ks -> under (sub p (upper k)) kk = true) ->
  forall mo Bx B nv,
  ments_of mo = mapp A Bx ->
  mset k (VPtr (Some x)) Bx = MCons k (VPtr (Some x)) B ->
  match mlookup k Bx with Some (VPtr (Some dx)) => dx | _ => zero e end = nv ->
  dom OR e nv x = true -> wt e nv = true ->
  fold_left step ks (Ok (Some (VMap mo))) = Ok (Some (VMap (Some (mapp A (MCons k (VPtr (Some x)) B))))).
Proof.
  induction ks as [|kk ks IH]; intros Hne Hks mo Bx B nv Hmo HB Hnv Hdom Hwn; [contradiction|].
  cbn [fold_left]. rewrite (step_key kk mo Bx B nv); try assumption; [|apply Hks; left; reflexivity].
  destruct ks as [|kk' ks]; [reflexivity|].
  apply (IH ltac:(discriminate) (fun kk0 H => Hks kk0 (or_intror H)) _ (MCons k (VPtr (Some x)) B) B x).
  - reflexivity.
  - simpl. rewrite str_eqb_refl. reflexivity.
  - simpl. rewrite str_eqb_refl. reflexivity.
  - apply (proj1 (dom_refl_all OR)); assumption.
  - exact Hwx.
Qed.

End Block.

Lemma map_main : forall m A dr mo,
  ments_of mo = mapp A dr ->
  dom_ments (fun a b => dom OR e a b) (zero e) dr m = true ->
  mall (fun k x => key_ok k && expressible OR e x && has_vars e x) m = true ->
  mall_opt (fun x => wt e x) m = true -> mall_opt (fun x => wt e x) dr = true ->
  NoDup (mkeys m) -> (forall k, In k (mkeys m) -> mlookup k A = None) ->
  MBH OR e E p m ->
  (m = MNil -> mo <> None) ->
  fold_left step (keys (ments_env (fun q x => env_of e q x) p m)) (Ok (Some (VMap mo))) =
  Ok (Some (VMap (Some (mapp A m)))).
Proof.
  induction m as [|k v m IH]; intros A dr mo Hmo Hdom Hex Hwm Hwd Hnd HA Hbh Hne.
  - destruct dr as [|k0 v0 dr]; [|destruct v0; discriminate].
    simpl. destruct mo as [m0|]; [|exfalso; apply (Hne eq_refl); reflexivity].
    simpl in Hmo. subst m0. reflexivity.
  - destruct v; simpl in Hex; try discriminate. destruct o as [x|]; [|discriminate].
    apply andb_true_iff in Hex as [Hex1 Hex]. apply andb_true_iff in Hex1 as [Hex1 Hhv].
    apply andb_true_iff in Hex1 as [Hk Hexx].
    simpl in Hwm. apply andb_true_iff in Hwm as [Hwx Hwm].
    destruct Hbh as [HR Hbh]. inversion Hnd as [|? ? Hnotin Hnd']; subst.
    cbn [ments_env]. unfold keys. rewrite map_app, fold_left_app. fold (keys (env_of e (sub p (upper k)) x)).
    assert (HAk : mlookup k A = None) by (apply HA; left; reflexivity).
    assert (Hks : forall kk, In kk (keys (env_of e (sub p (upper k)) x)) -> under (sub p (upper k)) kk = true)
      by (intros kk Hin; apply (proj1 (keys_all OR) _ _ _ _ Hin)).
    assert (Hkne : keys (env_of e (sub p (upper k)) x) <> []).
    { intros Hc. apply (proj1 (has_vars_all OR) e (sub p (upper k)) x Hhv). unfold keys in Hc.
      apply map_eq_nil in Hc. exact Hc. }
    assert (HA' : forall k', In k' (mkeys m) -> mlookup k' (mapp A (MCons k (VPtr (Some x)) MNil)) = None).
    { intros k' Hk'. apply mlookup_mapp_one; [apply HA; right; exact Hk'|]. intros ->. contradiction. }
    destruct dr as [|k0 v0 dr].
    + simpl in Hdom. apply andb_true_iff in Hdom as [Hd1 Hdom].
      rewrite (block_fold k x A Hk Hwx Hexx HR HAk _ Hkne Hks mo MNil MNil (zero e)); try assumption; try reflexivity;
        [|apply (proj1 (zero_wt_all OR)); exact Hwfe].
      fold (keys (ments_env (fun q x0 => env_of e q x0) p m)).
      rewrite (IH (mapp A (MCons k (VPtr (Some x)) MNil)) MNil); try assumption; try exact HA';
        try (intros _; discriminate); try reflexivity.
      all: simpl; rewrite ?mapp_assoc; reflexivity.
    + destruct v0; simpl in Hdom; try discriminate.
      apply andb_true_iff in Hdom as [Hd1 Hdom]. apply andb_true_iff in Hd1 as [Hkk Hd1].
      apply str_eqb_eq in Hkk. subst k0.
      assert (Hwn : wt e (match o with Some dx => dx | None => zero e end) = true).
      { simpl in Hwd. destruct o as [dx|].
        - apply andb_true_iff in Hwd as [Hwd _]. exact Hwd.
        - apply (proj1 (zero_wt_all OR)). exact Hwfe. }
      assert (Hwd' : mall_opt (fun x => wt e x) dr = true).
      { simpl in Hwd. destruct o; [apply andb_true_iff in Hwd as [_ Hwd]|]; exact Hwd. }
      rewrite (block_fold k x A Hk Hwx Hexx HR HAk _ Hkne Hks mo (MCons k (VPtr o) dr) dr
                 (match o with Some dx => dx | None => zero e end)); try assumption.
      * fold (keys (ments_env (fun q x0 => env_of e q x0) p m)).
        rewrite (IH (mapp A (MCons k (VPtr (Some x)) MNil)) dr); try assumption; try exact HA';
          try (intros _; discriminate).
        all: simpl; rewrite ?mapp_assoc; reflexivity.
      * simpl. rewrite str_eqb_refl. reflexivity.
      * simpl. rewrite str_eqb_refl. destruct o; reflexivity.
Qed.

End MapFold.

(* ---- helpers for the induction ---- *)
Lemma keep_case t E p o v :
  wf_ty t = true -> is_ptr t = false -> wt_opt t o = true -> (o = None -> ptr_ok t = true) ->
  R p E = [] -> o = Some v -> loadp t E p o = Ok (Some v).
Proof. intros Hwf Hp Hwo Hn HR ->. apply loadp_keep; assumption. Qed.

Lemma sum_ge p ev : (forall k, In k (keys ev) -> has_prefix (p ++ [US]) k = true) ->
  (length ev <= fold_right (fun (kv : str * str) acc => if has_prefix (p ++ [US]) (fst kv) then (length (fst kv) + acc)%nat else acc) O ev)%nat.
Proof.
  induction ev as [|[k v] ev IH]; simpl; intros H; [lia|].
  rewrite (H k (or_introl eq_refl)). specialize (IH (fun k' Hk' => H k' (or_intror Hk'))).
  assert (1 <= length k)%nat.
  { pose proof (H k (or_introl eq_refl)) as Hk. apply has_prefix_spec in Hk as [s Hs]. subst k.
    rewrite !app_length. simpl. lia. }
  lia.
Qed.

Lemma elems_len fs q : forall l i,
  vall (fun vs => expressible_fields OR fs vs && has_vars_fields fs vs) l = true ->
  (vlen l <= length (elems_env (fun q vs => env_of_fields fs q vs) q i l))%nat.
Proof.
  induction l as [|v l IH]; intros i H; simpl; [lia|].
  destruct v; simpl in H; try discriminate. apply andb_true_iff in H as [H1 H2]. apply andb_true_iff in H1 as [_ Hv].
  rewrite app_length. specialize (IH (i + 1) H2).
  pose proof (proj2 (has_vars_all OR) fs (sub q (dec i)) vs Hv) as Hne.
  destruct (env_of_fields fs (sub q (dec i)) vs); [contradiction|]. simpl. lia.
Qed.

Lemma fuel_enough fs E p l :
  R p E = elems_env (fun q vs => env_of_fields fs q vs) p 0 l ->
  vall (fun vs => expressible_fields OR fs vs && has_vars_fields fs vs) l = true ->
  (vlen l < loop_fuel E p)%nat.
Proof.
  intros HR Hv. rewrite <- loop_fuel_R. unfold loop_fuel. rewrite HR.
  pose proof (elems_len fs p l 0 Hv) as H1.
  pose proof (sum_ge p (elems_env (fun q vs => env_of_fields fs q vs) p 0 l)) as H2.
  assert (H3 : forall k, In k (keys (elems_env (fun q vs => env_of_fields fs q vs) p 0 l)) -> has_prefix (p ++ [US]) k = true).
  { intros k Hk. destruct (elems_keys OR fs (proj2 (keys_all OR) fs) p l 0 k Hk) as [j [_ Hu]].
    apply (under_sub_prefix _ _ _ Hu). }
  specialize (H2 H3). lia.
Qed.

Lemma no_comma_decs l : forallb uint32 l = true -> forallb no_comma (map dec l) = true.
Proof.
  induction l as [|z l IH]; simpl; intros H; [reflexivity|]. apply andb_true_iff in H as [Hz Hl].
  unfold uint32 in Hz. apply andb_true_iff in Hz as [Hz _]. apply Z.leb_le in Hz.
  rewrite dec_no_comma, IH by assumption. reflexivity.
Qed.

Lemma no_comma_floats l :
  forallb (fun f => ostr_eqb (fparse OR f) (Some f) && no_comma f && negb (is_nil f)) l = true ->
  forallb no_comma l = true.
Proof.
  induction l as [|f l IH]; simpl; intros H; [reflexivity|]. apply andb_true_iff in H as [Hf Hl].
  apply andb_true_iff in Hf as [Hf _]. apply andb_true_iff in Hf as [_ Hf]. rewrite Hf, IH by exact Hl. reflexivity.
Qed.

Lemma keys_ok_of_mall (h : str -> value -> bool) m :
  (forall k x, h k x = true -> key_ok k = true) -> mall h m = true -> keys_ok m.
Proof.
  intros Hh. induction m as [|k v m IH]; simpl; intros H k' Hk'; [contradiction|].
  destruct v; try discriminate. destruct o; [|discriminate]. apply andb_true_iff in H as [H1 H2].
  destruct Hk' as [<-|Hk']; [apply (Hh _ _ H1)|apply IH; assumption].
Qed.

Ltac leaf_start :=
  intros E p o v Hwf Hp Hwt Hwo Hex Hdom Hn HR; destruct v; simpl in Hwt; try discriminate; simpl in HR.

Lemma main_all : (forall t, PM t /\ PMv t) /\ (forall fs, PMf fs).
Proof.
  apply ty_fields_ind.
  - (* TBool *) split; [|apply PMv_of_PM; [reflexivity|]]; leaf_start;
      apply lookup_single in HR; simpl; rewrite HR; destruct b; reflexivity.
  - (* TInt *) split; [|apply PMv_of_PM; [reflexivity|]]; leaf_start;
      apply lookup_single in HR; simpl; rewrite HR; simpl in Hex; rewrite parse_int32_print by exact Hex; reflexivity.
  - (* TUint *) split; [|apply PMv_of_PM; [reflexivity|]]; leaf_start;
      apply lookup_single in HR; simpl; rewrite HR; simpl in Hex; rewrite parse_uint32_dec by exact Hex; reflexivity.
  - (* TFloat *) split; [|apply PMv_of_PM; [reflexivity|]]; leaf_start;
      apply lookup_single in HR; simpl; rewrite HR; simpl in Hex; apply ostr_eqb_eq in Hex; rewrite Hex; reflexivity.
  - (* TStr *) split; [|apply PMv_of_PM; [reflexivity|]]; leaf_start;
      apply lookup_single in HR; simpl; rewrite HR; reflexivity.
  - (* TCustom *) intros k. split; [|apply PMv_of_PM; [reflexivity|]]; leaf_start;
      apply lookup_single in HR; simpl; rewrite HR; simpl in Hex; apply ostr_eqb_eq in Hex; rewrite Hex; reflexivity.
  - (* TStrs *) split; [|apply PMv_of_PM; [reflexivity|]]; leaf_start.
    all: destruct o0 as [l|]; simpl in HR.
    all: try (apply keep_case; try assumption; unfold dominated in Hdom; destruct o as [d|]; [|discriminate];
              destruct d; simpl in Hdom; try discriminate; destruct o; [discriminate|reflexivity]).
    all: apply lookup_single in HR; simpl; rewrite HR; destruct l as [|a l]; [reflexivity|]; simpl in Hex;
         apply andb_true_iff in Hex as [Hc Hne];
         destruct (join_comma (a :: l)) eqn:Ej;
         [exfalso; apply (join_nonempty (a :: l)); [discriminate|intros Hq; inversion Hq; subst; discriminate|exact Ej]|];
         rewrite <- Ej, split_join; [reflexivity|discriminate|exact Hc].
  - (* TUints *) split; [|apply PMv_of_PM; [reflexivity|]]; leaf_start.
    all: destruct o0 as [l|]; simpl in HR.
    all: try (apply keep_case; try assumption; unfold dominated in Hdom; destruct o as [d|]; [|discriminate];
              destruct d; simpl in Hdom; try discriminate; destruct o; [discriminate|reflexivity]).
    all: apply lookup_single in HR; simpl; rewrite HR; destruct l as [|a l]; [reflexivity|]; simpl in Hex;
         destruct (join_comma (map dec (a :: l))) eqn:Ej;
         [exfalso; apply (join_nonempty (map dec (a :: l))); [discriminate|intros Hq; inversion Hq as [Hq']; exact (dec_nonempty a Hq')|exact Ej]|];
         rewrite <- Ej, split_join; [|discriminate|apply no_comma_decs; exact Hex];
         rewrite sequence_parse_uint by exact Hex; reflexivity.
  - (* TFloats *) split; [|apply PMv_of_PM; [reflexivity|]]; leaf_start.
    all: destruct o0 as [l|]; simpl in HR.
    all: try (apply keep_case; try assumption; unfold dominated in Hdom; destruct o as [d|]; [|discriminate];
              destruct d; simpl in Hdom; try discriminate; destruct o; [discriminate|reflexivity]).
    all: apply lookup_single in HR; simpl; rewrite HR; destruct l as [|a l]; [reflexivity|];
         pose proof (no_comma_floats _ Hex) as Hc; pose proof (sequence_fparse _ Hex) as Hs;
         simpl in Hex; apply andb_true_iff in Hex as [Ha _]; apply andb_true_iff in Ha as [_ Ha];
         destruct (join_comma (a :: l)) eqn:Ej;
         [exfalso; apply (join_nonempty (a :: l)); [discriminate|intros Hq; inversion Hq; subst; discriminate|exact Ej]|];
         rewrite <- Ej, split_join; [|discriminate|exact Hc]; rewrite Hs; reflexivity.
  - (* TStructs *) intros fs IH.
    assert (H : PM (TStructs fs)).
    { leaf_start. simpl in Hwf. apply andb_true_iff in Hwf as [Hwff Hnd].
      destruct o0 as [l|]; simpl in HR.
      2: { apply keep_case; try assumption; [simpl; rewrite Hwff, Hnd; reflexivity|].
           unfold dominated in Hdom. destruct o as [d|]; [|discriminate].
           destruct d; simpl in Hdom; try discriminate. destruct o; [discriminate|reflexivity]. }
      destruct l as [|v0 l].
      { apply lookup_single in HR. rewrite loadp_structs_eq, HR. reflexivity. }
      assert (Hlk : lookup E p = None).
      { apply lookup_below. intros k Hk. rewrite HR in Hk.
        destruct (elems_keys OR fs (proj2 (keys_all OR) fs) p _ 0 k Hk) as [j [_ Hu]]. apply (under_sub_neq _ _ _ Hu). }
      rewrite loadp_structs_eq, Hlk. unfold structs_body.
      pose proof (BH_of_R OR fs E p _ HR) as Hbh.
      pose proof (no_next_index fs E p _ HR) as Hend.
      pose proof (fuel_enough fs E p _ HR Hex) as Hfuel.
      unfold dominated in Hdom. destruct o as [d|].
      - destruct d; simpl in Hwo; try discriminate. simpl in Hdom.
        destruct (elems_main fs IH Hwff Hnd E p (VCons v0 l) (match o with Some dl => dl | None => VNil end) 0 (loop_fuel E p))
          as [l1 [l2 [H1 [H2 H3]]]]; try assumption; try lia.
        { destruct o; [exact Hwo|reflexivity]. }
        rewrite H1. cbn [bind]. rewrite Z.add_0_l in H2. rewrite H2. cbn [bind].
        destruct o as [dl|]; [rewrite H3; reflexivity|].
        simpl in H1. inversion H1; subst l1. simpl in H3. subst l2. reflexivity.
      - apply andb_true_iff in Hdom as [_ Hdom]. simpl in Hdom.
        destruct (elems_main fs IH Hwff Hnd E p (VCons v0 l) VNil 0 (loop_fuel E p))
          as [l1 [l2 [H1 [H2 H3]]]]; try assumption; try lia; try reflexivity.
        simpl in H1. inversion H1; subst l1. simpl in H3. subst l2.
        change (0 + Z.of_nat (vlen VNil)) with 0 in H2. rewrite H2. reflexivity. }
    split; [exact H|apply PMv_of_PM; [reflexivity|exact H]].
  - (* TStruct *) intros fs IH.
    assert (H : PM (TStruct fs)).
    { leaf_start. simpl in Hwf. apply andb_true_iff in Hwf as [Hwff Hnd].
      destruct o as [d|]; [|specialize (Hn eq_refl); discriminate].
      destruct d; simpl in Hwo; try discriminate. unfold dominated in Hdom. simpl in Hdom, Hex.
      simpl. rewrite (IH E p vs0 vs); try assumption; [reflexivity|]. apply fenv_of_R; assumption. }
    split; [exact H|apply PMv_of_PM; [reflexivity|exact H]].
  - (* THook *) intros fs IH.
    assert (H : PM (THook fs)).
    { leaf_start. simpl in Hwf. apply andb_true_iff in Hwf as [Hwff Hnd].
      destruct o0 as [vs|]; simpl in HR.
      2: { apply keep_case; try assumption; [simpl; rewrite Hwff, Hnd; reflexivity|].
           unfold dominated in Hdom. destruct o as [d|]; [|discriminate].
           destruct d; simpl in Hdom; try discriminate. destruct o; [discriminate|reflexivity]. }
      simpl in Hex. apply andb_true_iff in Hex as [Hex Hhv].
      assert (Hlk : lookup E p = None).
      { apply lookup_below. intros k Hk. rewrite HR in Hk.
        destruct (proj2 (keys_all OR) fs p vs k Hk) as [N [_ Hu]]. apply (under_sub_neq _ _ _ Hu). }
      assert (Hhk : has_key_with_prefix E (p ++ [US]) = true).
      { apply (hkwp_of_block E p _ _ HR); [apply (proj2 (has_vars_all OR)); exact Hhv|].
        intros k Hk. destruct (proj2 (keys_all OR) fs p vs k Hk) as [N [_ Hu]]. apply (under_sub_prefix _ _ _ Hu). }
      destruct o as [d|]; [|specialize (Hn eq_refl); discriminate].
      destruct d; simpl in Hwo; try discriminate. unfold dominated in Hdom. simpl in Hdom.
      simpl. rewrite Hlk, Hhk.
      rewrite (IH E p (match o with Some dvs => dvs | None => zeros fs end) vs); try assumption; [reflexivity| |apply fenv_of_R; assumption].
      destruct o; [exact Hwo|apply (proj2 (zero_wt_all OR)); exact Hwff]. }
    split; [exact H|apply PMv_of_PM; [reflexivity|exact H]].
  - (* TMap *) intros e [_ IHe].
    assert (H : PM (TMap e)).
    { leaf_start. simpl in Hwf. apply andb_true_iff in Hwf as [Hnp Hwfe].
      destruct o0 as [m|]; simpl in HR.
      2: { apply keep_case; try assumption; [simpl; rewrite Hnp, Hwfe; reflexivity|].
           unfold dominated in Hdom. destruct o as [d|]; [|discriminate].
           destruct d; simpl in Hdom; try discriminate. destruct o; [discriminate|reflexivity]. }
      destruct o as [d|]; [|specialize (Hn eq_refl); discriminate].
      destruct d; simpl in Hwo; try discriminate. unfold dominated in Hdom.
      simpl in Hex. apply andb_true_iff in Hex as [Hndk Hex].
      destruct m as [|k0 v0 m].
      { simpl in HR. apply keep_case; try assumption; [simpl; rewrite Hnp, Hwfe; reflexivity|].
        simpl in Hdom. destruct o as [[|]|]; try discriminate. reflexivity. }
      rewrite loadp_map_eq.
      rewrite <- (fold_skip (map_step OR e E p) p E (fun acc k => map_step_skip OR e E p acc k)).
      rewrite HR.
      change (map fst (ments_env (fun q x => env_of e q x) p (MCons k0 v0 m))) with
             (keys (ments_env (fun q x => env_of e q x) p (MCons k0 v0 m))).
      rewrite (map_main e IHe Hwfe E p (MCons k0 v0 m) MNil (ments_of o) o); try assumption; try reflexivity.
      - destruct o; [exact Hwo|reflexivity].
      - apply nodup_str_NoDup. exact Hndk.
      - apply MBH_of_R; [|apply nodup_str_NoDup; exact Hndk|exact HR].
        apply (keys_ok_of_mall _ _ (fun k x Hh => proj1 (proj1 (andb_true_iff _ _)
                 (proj1 (proj1 (andb_true_iff _ _) Hh)))) Hex).
      - intros Hc. discriminate. }
    split; [exact H|apply PMv_of_PM; [reflexivity|exact H]].
  - (* TPtr *) intros t [IH _]. split.
    + intros E p o v _ Hp. discriminate.
    + intros E p x d v Hwf Hwt Hwd Hex Hdom HR. simpl in Hwf. apply andb_true_iff in Hwf as [Hok Hwf].
      destruct v; simpl in Hwt; try discriminate. destruct d; simpl in Hwd; try discriminate.
      destruct o as [y|]; simpl in HR.
      * rewrite load_val_ptr. simpl in Hex, Hdom.
        assert (Hwo' : wt_opt t o0 = true) by (destruct o0; [exact Hwd|reflexivity]).
        assert (Hdom' : dominated OR t o0 y = true) by (unfold dominated; destruct o0; exact Hdom).
        rewrite (IH E (sub p x) o0 y Hwf (ptr_ok_not_ptr t Hok) Hwt Hwo' Hex Hdom' (fun _ => Hok) HR). reflexivity.
      * simpl in Hdom. destruct o0; [discriminate|].
        apply load_val_keep; [simpl; rewrite Hok, Hwf; reflexivity|reflexivity|exact HR].
  - (* TBad *) split; [intros E p o v Hwf; discriminate|intros E p x d v Hwf; discriminate].
  - (* FNil *) intros E p dvs vs _ Hwv Hwd _ _ _. destruct vs, dvs; try discriminate. reflexivity.
  - (* FCons *) intros tag t [_ IHt] fs IHf E p dvs vs Hwf Hwv Hwd Hex Hdom Hfe.
    destruct vs as [|v vs]; [discriminate|]. destruct dvs as [|d dvs]; [discriminate|].
    simpl in Hwf, Hwv, Hwd, Hex, Hdom. destruct Hfe as [HR Hfe].
    apply andb_true_iff in Hwf as [Hwf Hwff]. apply andb_true_iff in Hwf as [_ Hwft].
    apply andb_true_iff in Hwv as [Hwv1 Hwv2]. apply andb_true_iff in Hwd as [Hwd1 Hwd2].
    apply andb_true_iff in Hex as [Hex1 Hex2]. apply andb_true_iff in Hdom as [Hd1 Hd2].
    rewrite load_fields_cons_eq, (IHt E p (fname tag) d v) by assumption. cbn [bind].
    rewrite (IHf E p dvs vs) by assumption. reflexivity.
Qed.

End Main.
(* END *)
