(* C20b: proofs about Model/C20b_SessionHooks.v. *)
From Coq Require Import List Bool ZArith Lia.
Require Import MTX.Lib.Trace MTX.Model.C20b_SiteTypes MTX.Model.C20b_SessionHooks.
Import ListNotations.

(* ---- generic facts --------------------------------------------------------------------------------------------------- *)
Lemma lstate_eqb_refl a : lstate_eqb a a = true.
Proof. destruct a; reflexivity. Qed.

Lemma lstate_eqb_eq a b : lstate_eqb a b = true <-> a = b.
Proof. destruct a, b; simpl; split; intros H; try reflexivity; try discriminate. Qed.

Lemma existsb_app_false {A} (f : A -> bool) a b :
  existsb f a = false -> existsb f b = false -> existsb f (a ++ b) = false.
Proof. intros Ha Hb. rewrite existsb_app, Ha, Hb. reflexivity. Qed.

Lemma no_panic_not_in t : existsb is_panic t = false -> ~ In HPanic t.
Proof.
  intros H Hin. assert (existsb is_panic t = true) as C.
  { apply existsb_exists. exists HPanic. split; [exact Hin|reflexivity]. }
  congruence.
Qed.

(* pairs_okb in readable terms *)
Lemma pairs_okb_spec c t :
  pairs_okb c t = true ->
  alternates hcls t /\ ~ In HPanic t /\ (c = true -> alternates_closed hcls t).
Proof.
  unfold pairs_okb. intros H. apply andb_true_iff in H. destruct H as [Hp Hm].
  apply negb_true_iff in Hp.
  destruct (mon_run (alt_mon hcls) false t) as [o|] eqn:E; [|discriminate].
  split; [apply alt_from_iff; eexists; exact E|].
  split; [apply no_panic_not_in; exact Hp|].
  intros ->. unfold alternates_closed. rewrite E. apply negb_true_iff in Hm. subst. reflexivity.
Qed.

(* from a run of the monitor to pairs_okb *)
Lemma pairs_okb_intro c t b' :
  existsb is_panic t = false -> mon_run (alt_mon hcls) false t = Some b' -> (c = true -> b' = false) ->
  pairs_okb c t = true.
Proof.
  intros Hp Hm Hc. unfold pairs_okb. rewrite Hp, Hm. simpl.
  destruct c; [rewrite (Hc eq_refl)|]; reflexivity.
Qed.

(* the log lines alternate when the calls do *)
Lemma log_trace_off u t b : mon_run (alt_mon lcls) b (log_trace false u t) = Some b.
Proof.
  induction t as [|e t IH]; [reflexivity|].
  unfold log_trace. cbn [flat_map]. rewrite mon_run_app. fold (log_trace false u t).
  destruct e, u; cbn; exact IH.
Qed.

Lemma log_trace_on u t : forall b b',
  mon_run (alt_mon hcls) b t = Some b' -> mon_run (alt_mon lcls) b (log_trace true u t) = Some b'.
Proof.
  induction t as [|e t IH]; intros b b' H; [exact H|].
  cbn [mon_run] in H. destruct (alt_mon hcls b e) as [b1|] eqn:E; [|discriminate].
  unfold log_trace. cbn [flat_map]. rewrite mon_run_app. fold (log_trace true u t).
  specialize (IH _ _ H).
  destruct e, b, u; cbn in E; inversion E; subst; cbn; exact IH.
Qed.

Lemma log_trace_run s u t b b' :
  mon_run (alt_mon hcls) b t = Some b' ->
  mon_run (alt_mon lcls) b (log_trace s u t) = Some (if s then b' else b).
Proof. intros H. destruct s; [apply log_trace_on, H|apply log_trace_off]. Qed.

Lemma log_trace_pairs s u c t :
  pairs_okb c t = true ->
  alternates lcls (log_trace s u t) /\ (c = true -> alternates_closed lcls (log_trace s u t)).
Proof.
  unfold pairs_okb. intros H. apply andb_true_iff in H. destruct H as [_ Hm].
  destruct (mon_run (alt_mon hcls) false t) as [o|] eqn:E; [|discriminate].
  pose proof (log_trace_run s u t false o E) as HL.
  split; [apply alt_from_iff; eexists; exact HL|].
  intros ->. apply negb_true_iff in Hm. subst. unfold alternates_closed. rewrite HL. destruct s; reflexivity.
Qed.

(* ---- shape (a) ------------------------------------------------------------------------------------------------------ *)
Section BracketProofs.
  Variable E : Type.
  Variable cls : E -> option bool.

  Lemma mon_run_skip b (body : list E) :
    Forall (fun e => cls e = None) body -> mon_run (alt_mon cls) b body = Some b.
  Proof.
    induction 1 as [|e l He _ IH]; [reflexivity|].
    cbn [mon_run]. unfold alt_mon at 1. rewrite He. exact IH.
  Qed.

  Lemma count_skip k (body : list E) :
    Forall (fun e => cls e = None) body -> count_cls cls k body = 0%nat.
  Proof.
    unfold count_cls. induction 1 as [|e l He _ IH]; [reflexivity|].
    cbn [filter]. unfold is_cls at 1. rewrite He. exact IH.
  Qed.

  Lemma count_app k (a b : list E) : count_cls cls k (a ++ b) = (count_cls cls k a + count_cls cls k b)%nat.
  Proof. unfold count_cls. rewrite filter_app, app_length. reflexivity. Qed.

  (* any execution "open; body; close" whose body does not touch the hook: exactly one start, exactly one stop,
     the stop is the last event, the pair is closed *)
  Lemma bracket_pairs (o c : E) (body : list E) :
    cls o = Some true -> cls c = Some false -> Forall (fun e => cls e = None) body ->
    alternates_closed cls (bracket o c body) /\
    count_cls cls true (bracket o c body) = 1%nat /\
    count_cls cls false (bracket o c body) = 1%nat /\
    last (bracket o c body) o = c /\
    hd_error (bracket o c body) = Some o.
  Proof.
    intros Ho Hc Hb. unfold bracket. repeat split.
    - unfold alternates_closed. cbn [mon_run]. unfold alt_mon at 1. rewrite Ho.
      rewrite mon_run_app, (mon_run_skip true body Hb). cbn [mon_run]. unfold alt_mon. rewrite Hc. reflexivity.
    - change (o :: body ++ [c]) with ([o] ++ body ++ [c]). rewrite !count_app, (count_skip true body Hb).
      unfold count_cls, is_cls. cbn [filter]. rewrite Ho, Hc. reflexivity.
    - change (o :: body ++ [c]) with ([o] ++ body ++ [c]). rewrite !count_app, (count_skip false body Hb).
      unfold count_cls, is_cls. cbn [filter]. rewrite Ho, Hc. reflexivity.
    - change (o :: body ++ [c]) with ((o :: body) ++ [c]). apply last_last.
  Qed.

  Lemma shape_a_pairs sh (o c : E) (body : list E) (panics : bool) :
    cls o = Some true -> cls c = Some false -> Forall (fun e => cls e = None) body ->
    sh = ShDefer \/ panics = false ->
    exec_shape_a sh o c body panics = bracket o c body.
  Proof.
    intros _ _ _ [->| ->]; [reflexivity|]. destruct sh; reflexivity.
  Qed.

  (* the straight-line form leaves the pair open when the body panics *)
  Lemma shape_straight_panic_open (o c : E) (body : list E) :
    cls o = Some true -> Forall (fun e => cls e = None) body ->
    mon_run (alt_mon cls) false (exec_shape_a ShStraight o c body true) = Some true.
  Proof.
    intros Ho Hb. cbn [exec_shape_a mon_run]. unfold alt_mon at 1. rewrite Ho. apply mon_run_skip, Hb.
  Qed.
End BracketProofs.

(* ---- finite enumerations --------------------------------------------------------------------------------------------- *)
Definition all_b : list bool := [true; false].
Definition all_l : list lstate := [LInitial; LPrePlay; LPlay; LPreRecord; LRecord].
Definition all_h : list hkind := [HkAnnounce; HkSetup; HkPlay; HkRecord; HkPause; HkClose].
Definition all_sess : list sess :=
  map (fun x => mk_sess (fst x) (fst (snd x)) (snd (snd x))) (list_prod all_b (list_prod all_b all_b)).
Definition all_rst : list rst :=
  map (fun x => mk_rst (fst x) (fst (snd x)) (snd (snd x))) (list_prod all_l (list_prod all_sess all_b)).
Definition all_call : list call :=
  map (fun x => mk_call (fst x) (fst (snd x)) (fst (snd (snd x))) (snd (snd (snd x))))
      (list_prod all_h (list_prod all_b (list_prod all_b all_l))).

Lemma in_all_b b : In b all_b. Proof. destruct b; simpl; auto. Qed.
Lemma in_all_l l : In l all_l. Proof. destruct l; simpl; auto 6. Qed.
Lemma in_all_h h : In h all_h. Proof. destruct h; simpl; auto 7. Qed.
Lemma in_all_sess s : In s all_sess.
Proof.
  destruct s as [a b c]. unfold all_sess.
  apply (in_map (fun x => mk_sess (fst x) (fst (snd x)) (snd (snd x))) _ (a, (b, c))).
  repeat apply in_prod; apply in_all_b.
Qed.
Lemma in_all_rst st : In st all_rst.
Proof.
  destruct st as [l s c]. unfold all_rst.
  apply (in_map (fun x => mk_rst (fst x) (fst (snd x)) (snd (snd x))) _ (l, (s, c))).
  apply in_prod; [apply in_all_l|]. apply in_prod; [apply in_all_sess|apply in_all_b].
Qed.
Lemma in_all_call c : In c all_call.
Proof.
  destruct c as [h ok d p]. unfold all_call.
  apply (in_map (fun x => mk_call (fst x) (fst (snd x)) (fst (snd (snd x))) (snd (snd (snd x)))) _ (h, (ok, (d, p)))).
  apply in_prod; [apply in_all_h|]. apply in_prod; [apply in_all_b|]. apply in_prod; [apply in_all_b|apply in_all_l].
Qed.

(* ---- RTSP session: any library that keeps the contract ---------------------------------------------------------------- *)
(* invariant between the machine state and the monitor state b (a pair is open):
   open <-> the library session is in Play; open -> the field is set; read side -> s.path is set; closed -> not open *)
Definition rinvb (st : rst) (b : bool) : bool :=
  if r_closed st then negb b
  else Bool.eqb b (lstate_eqb (r_l st) LPlay) && (negb b || s_hook (r_s st)) &&
       (negb (lstate_eqb (r_l st) LPrePlay || lstate_eqb (r_l st) LPlay) || s_path (r_s st)).

Definition step_goodb (st : rst) (b : bool) (c : call) : bool :=
  implb (rinvb st b && negb (r_closed st) && lib_contract (c_h c) (r_l st) (rt_status st c) (c_post c))
        (negb (existsb is_panic (snd (rt_step st c))) &&
         match mon_run (alt_mon hcls) b (snd (rt_step st c)) with
         | Some b' => rinvb (fst (rt_step st c)) b'
         | None => false
         end).

Lemma step_good_all :
  forallb (fun st => forallb (fun b => forallb (step_goodb st b) all_call) all_b) all_rst = true.
Proof. vm_compute. reflexivity. Qed.

Lemma step_good st b c :
  rinvb st b = true -> r_closed st = false ->
  lib_contract (c_h c) (r_l st) (rt_status st c) (c_post c) = true ->
  existsb is_panic (snd (rt_step st c)) = false /\
  exists b', mon_run (alt_mon hcls) b (snd (rt_step st c)) = Some b' /\ rinvb (fst (rt_step st c)) b' = true.
Proof.
  intros Hi Hc Hl.
  pose proof step_good_all as H.
  rewrite forallb_forall in H. specialize (H st (in_all_rst st)).
  rewrite forallb_forall in H. specialize (H b (in_all_b b)).
  rewrite forallb_forall in H. specialize (H c (in_all_call c)).
  unfold step_goodb in H. rewrite Hi, Hc, Hl in H. cbn [negb andb implb] in H.
  apply andb_true_iff in H. destruct H as [Hp Hm]. apply negb_true_iff in Hp.
  split; [exact Hp|].
  destruct (mon_run (alt_mon hcls) b (snd (rt_step st c))) as [b'|]; [|discriminate].
  exists b'. split; [reflexivity|exact Hm].
Qed.

Section AnyLibrary.
  (* the library: which (handler, state before, handler status, state after) combinations it can produce *)
  Variable lib : hkind -> lstate -> bool -> lstate -> bool.
  Hypothesis lib_keeps_contract :
    forall h pre ok post, lib h pre ok post = true -> lib_contract h pre ok post = true.

  Lemma rt_run_good cs : forall st b,
    rinvb st b = true -> rt_valid lib st cs = true ->
    existsb is_panic (rt_trace st cs) = false /\
    exists b', mon_run (alt_mon hcls) b (rt_trace st cs) = Some b' /\ rinvb (rt_final st cs) b' = true.
  Proof.
    induction cs as [|c r IH]; intros st b Hi Hv.
    - split; [reflexivity|]. exists b. split; [reflexivity|exact Hi].
    - cbn [rt_valid] in Hv. apply andb_true_iff in Hv. destruct Hv as [Hv Hr].
      apply andb_true_iff in Hv. destruct Hv as [Hc Hl]. apply negb_true_iff in Hc.
      destruct (step_good st b c Hi Hc (lib_keeps_contract _ _ _ _ Hl)) as [Hp [b1 [Hm Hi1]]].
      destruct (IH _ _ Hi1 Hr) as [Hp2 [b2 [Hm2 Hi2]]].
      unfold rt_trace, rt_final. rewrite trace_cons, final_cons. split.
      + apply existsb_app_false; assumption.
      + exists b2. rewrite mon_run_app, Hm. split; assumption.
  Qed.

  Lemma rt_closed_iff cs : forall st,
    r_closed (rt_final st cs) = r_closed st || existsb (fun c => hkind_eqb (c_h c) HkClose) cs.
  Proof.
    induction cs as [|c r IH]; intros st.
    - unfold rt_final, final. simpl. rewrite orb_false_r. reflexivity.
    - unfold rt_final. rewrite final_cons. fold (rt_final (fst (rt_step st c)) r). rewrite IH.
      unfold rt_step. destruct (handler (c_h c) (r_l st) (c_ok c) (c_dmx c) (r_s st)) as [[s' ev] ok].
      cbn [fst r_closed existsb]. rewrite orb_assoc. reflexivity.
  Qed.

  Theorem rtsp_reader_pairs_any_library cs :
    rt_valid lib rst0 cs = true ->
    pairs_okb (existsb (fun c => hkind_eqb (c_h c) HkClose) cs) (rt_trace rst0 cs) = true.
  Proof.
    intros Hv. destruct (rt_run_good cs rst0 false eq_refl Hv) as [Hp [b' [Hm Hi]]].
    apply (pairs_okb_intro _ _ b' Hp Hm). intros Hc.
    unfold rinvb in Hi. rewrite rt_closed_iff in Hi. cbn [rst0 r_closed orb] in Hi. rewrite Hc in Hi.
    apply negb_true_iff in Hi. exact Hi.
  Qed.
End AnyLibrary.

(* ---- the gortsplib automaton keeps the contract ----------------------------------------------------------------------- *)
Lemma gortsplib_keeps_contract h pre ok post :
  gortsplib h pre ok post = true -> lib_contract h pre ok post = true.
Proof. destruct h, pre, ok, post; vm_compute; intros H; try reflexivity; discriminate H. Qed.

Lemma rt_status_post st h ok d p1 p2 : rt_status st (mk_call h ok d p1) = rt_status st (mk_call h ok d p2).
Proof. reflexivity. Qed.

Lemma gs_calls_valid ops : forall st, rt_valid gortsplib st (gs_calls st ops) = true.
Proof.
  induction ops as [|o r IH]; intros st; [reflexivity|].
  cbn [gs_calls]. destruct (r_closed st || negb (gl_accepts (op_kind o) (r_l st))) eqn:E; [apply IH|].
  apply orb_false_elim in E. destruct E as [Hc Ha]. apply negb_false_iff in Ha.
  cbn [rt_valid]. rewrite Hc, IH. cbn [negb andb]. rewrite andb_true_r.
  cbn [c_h c_post]. unfold gortsplib. rewrite Ha.
  match goal with |- context [lstate_eqb ?a ?b] => change b with a end.
  rewrite lstate_eqb_refl. reflexivity.
Qed.

Lemma op_kind_close o : hkind_eqb (op_kind o) HkClose = is_close o.
Proof. destruct o; reflexivity. Qed.

Lemma gs_calls_close ops : forall st,
  r_closed st = false -> existsb is_close ops = true ->
  existsb (fun c => hkind_eqb (c_h c) HkClose) (gs_calls st ops) = true.
Proof.
  induction ops as [|o r IH]; intros st Hc Hin; [discriminate|].
  cbn [existsb] in Hin. cbn [gs_calls]. rewrite Hc. cbn [orb].
  destruct (gl_accepts (op_kind o) (r_l st)) eqn:Ha; cbn [negb].
  - cbn [existsb c_h]. rewrite op_kind_close. destruct (is_close o) eqn:Eo; [reflexivity|].
    cbn [orb] in *. apply IH; [|exact Hin].
    unfold rt_step. cbn [c_h c_ok c_dmx c_post].
    destruct (handler (op_kind o) (r_l st) (op_ok o) (op_dmx o) (r_s st)) as [[s' ev] ok].
    cbn [fst r_closed]. rewrite Hc, op_kind_close, Eo. reflexivity.
  - destruct o; cbn in Ha; try discriminate Ha; cbn [is_close orb] in Hin; apply IH; assumption.
Qed.

Theorem rtsp_reader_pairs_gortsplib ops :
  pairs_okb (existsb is_close ops) (gs_trace ops) = true.
Proof.
  unfold gs_trace.
  pose proof (rtsp_reader_pairs_any_library gortsplib gortsplib_keeps_contract (gs_calls rst0 ops)
                (gs_calls_valid ops rst0)) as H.
  destruct (existsb is_close ops) eqn:E.
  - rewrite (gs_calls_close ops rst0 eq_refl E) in H. exact H.
  - apply pairs_okb_spec in H. destruct H as [Ha [Hp _]].
    apply alt_from_iff in Ha. destruct Ha as [b' Hb].
    eapply pairs_okb_intro; [|exact Hb|discriminate].
    destruct (existsb is_panic (rt_trace rst0 (gs_calls rst0 ops))) eqn:Ep; [|reflexivity].
    exfalso. apply Hp. apply existsb_exists in Ep. destruct Ep as [e [Hin He]]. destruct e; try discriminate. exact Hin.
Qed.

(* ---- RTSP session with the API kick ------------------------------------------------------------------------------------ *)
Definition all_op : list op :=
  [OAnnounce true; OAnnounce false; OSetup true; OSetup false; OPlay;
   ORecord true true; ORecord true false; ORecord false true; ORecord false false; OPause; OClose].
Definition all_kop : list kop := KKick :: map KOp all_op.
Definition all_kst : list kst := map (fun x => mk_kst (fst x) (snd x)) (list_prod all_rst all_b).

Lemma in_all_kop o : In o all_kop.
Proof. destruct o as [[[]|[]| |[] []| |]|]; simpl; auto 14. Qed.
Lemma in_all_kst st : In st all_kst.
Proof.
  destruct st as [r k]. unfold all_kst. apply (in_map (fun x => mk_kst (fst x) (snd x)) _ (r, k)).
  apply in_prod; [apply in_all_rst|apply in_all_b].
Qed.

Definition kinvb (st : kst) (b : bool) : bool :=
  if k_kicked st || r_closed (k_r st) then negb b else rinvb (k_r st) b.

(* a step from a state that was not kicked *)
Definition kstep_goodb (st : kst) (b : bool) (o : kop) : bool :=
  implb (kinvb st b && negb (k_kicked st))
        (negb (existsb is_panic (snd (ks_step st o))) &&
         match mon_run (alt_mon hcls) b (snd (ks_step st o)) with
         | Some b' => kinvb (fst (ks_step st o)) b'
         | None => false
         end).
(* a quiet step (kick / end of session) from a kicked state: no event, still kicked or closed *)
Definition kquiet_goodb (st : kst) (o : kop) : bool :=
  implb (k_kicked st && kop_quiet o)
        (match snd (ks_step st o) with [] => true | _ => false end && k_kicked (fst (ks_step st o))).

Lemma kstep_good_all :
  forallb (fun st => forallb (fun b => forallb (kstep_goodb st b) all_kop) all_b) all_kst = true.
Proof. vm_compute. reflexivity. Qed.
Lemma kquiet_good_all : forallb (fun st => forallb (kquiet_goodb st) all_kop) all_kst = true.
Proof. vm_compute. reflexivity. Qed.

Definition kflag_goodb (st : kst) (o : kop) : bool :=
  match o with
  | KKick => true
  | KOp _ => implb (negb (k_kicked st)) (negb (k_kicked (fst (ks_step st o))))
  end.
Lemma kflag_good_all : forallb (fun st => forallb (kflag_goodb st) all_kop) all_kst = true.
Proof. vm_compute. reflexivity. Qed.

(* a request never sets the kicked flag *)
Lemma ks_op_not_kicked st o : k_kicked st = false -> k_kicked (fst (ks_step st (KOp o))) = false.
Proof.
  intros Hk. pose proof kflag_good_all as H.
  rewrite forallb_forall in H. specialize (H st (in_all_kst st)).
  rewrite forallb_forall in H. specialize (H (KOp o) (in_all_kop (KOp o))).
  unfold kflag_goodb in H. rewrite Hk in H. cbn [negb implb] in H. apply negb_true_iff in H. exact H.
Qed.

Lemma quiet_all_quiet_after r : forallb kop_quiet r = true -> quiet_after_kick r = true.
Proof.
  induction r as [|o r IH]; [reflexivity|]. cbn [forallb]. intros H. apply andb_true_iff in H. destruct H as [Ho Hr].
  destruct o as [o|]; [|exact Hr]. destruct o; try discriminate Ho. cbn [quiet_after_kick]. apply IH, Hr.
Qed.

Lemma ks_quiet_tail r : forall st,
  k_kicked st = true -> forallb kop_quiet r = true ->
  trace ks_step st r = [] /\ k_kicked (final ks_step st r) = true.
Proof.
  induction r as [|o r IH]; intros st Hk Hq; [split; [reflexivity|exact Hk]|].
  cbn [forallb] in Hq. apply andb_true_iff in Hq. destruct Hq as [Ho Hr].
  pose proof kquiet_good_all as H.
  rewrite forallb_forall in H. specialize (H st (in_all_kst st)).
  rewrite forallb_forall in H. specialize (H o (in_all_kop o)).
  unfold kquiet_goodb in H. rewrite Hk, Ho in H. cbn [andb implb] in H.
  apply andb_true_iff in H. destruct H as [He Hk1].
  destruct (snd (ks_step st o)) eqn:Ev; [|discriminate].
  rewrite trace_cons, final_cons, Ev. destruct (IH _ Hk1 Hr) as [Ht Hf]. rewrite Ht. split; [reflexivity|exact Hf].
Qed.

Lemma ks_run_good ops : forall st b,
  kinvb st b = true -> k_kicked st = false -> quiet_after_kick ops = true ->
  existsb is_panic (trace ks_step st ops) = false /\
  exists b', mon_run (alt_mon hcls) b (trace ks_step st ops) = Some b' /\ kinvb (final ks_step st ops) b' = true.
Proof.
  induction ops as [|o r IH]; intros st b Hi Hk Hq.
  - split; [reflexivity|]. exists b. split; [reflexivity|exact Hi].
  - pose proof kstep_good_all as H.
    rewrite forallb_forall in H. specialize (H st (in_all_kst st)).
    rewrite forallb_forall in H. specialize (H b (in_all_b b)).
    rewrite forallb_forall in H. specialize (H o (in_all_kop o)).
    unfold kstep_goodb in H. rewrite Hi, Hk in H. cbn [negb andb implb] in H.
    apply andb_true_iff in H. destruct H as [Hp Hm]. apply negb_true_iff in Hp.
    destruct (mon_run (alt_mon hcls) b (snd (ks_step st o))) as [b1|] eqn:Em; [|discriminate].
    rewrite trace_cons, final_cons.
    destruct (k_kicked (fst (ks_step st o))) eqn:Ek1.
    + (* this step was the kick: the rest is quiet *)
      assert (forallb kop_quiet r = true) as Hqr.
      { destruct o as [o|]; [|exact Hq]. rewrite (ks_op_not_kicked st o Hk) in Ek1. discriminate. }
      destruct (ks_quiet_tail r _ Ek1 Hqr) as [Ht Hf]. rewrite Ht, app_nil_r. split; [exact Hp|].
      exists b1. split; [exact Em|].
      (* the tail keeps the state kicked, and the monitor state is what the invariant after the kick step says *)
      unfold kinvb in *. rewrite Hf. rewrite Ek1 in Hm. cbn [orb] in *. exact Hm.
    + assert (quiet_after_kick r = true) as Hqr.
      { destruct o as [o|]; [destruct o; exact Hq|]. apply quiet_all_quiet_after. exact Hq. }
      destruct (IH _ _ Hm Ek1 Hqr) as [Hp2 [b2 [Hm2 Hi2]]]. split.
      * apply existsb_app_false; assumption.
      * exists b2. rewrite mon_run_app, Em. split; assumption.
Qed.

Theorem rtsp_kick_pairs_partial ops :
  quiet_after_kick ops = true ->
  pairs_okb (k_kicked (ks_final ops) || r_closed (k_r (ks_final ops))) (ks_trace ops) = true.
Proof.
  intros Hq. destruct (ks_run_good ops kst0 false eq_refl eq_refl Hq) as [Hp [b' [Hm Hi]]].
  apply (pairs_okb_intro _ _ b' Hp Hm). intros Hc. unfold kinvb in Hi. unfold ks_final in Hc. rewrite Hc in Hi.
  apply negb_true_iff in Hi. exact Hi.
Qed.

(* the guard is needed: a PAUSE handled after (or while) the kick runs onClose stops the hook twice;
   a PLAY handled after a kick in PrePlay dereferences the nil s.path *)
Definition kick_witness : list kop := [KOp (OSetup true); KOp OPlay; KKick; KOp OPause].
Definition kick_witness2 : list kop := [KOp (OSetup true); KKick; KOp OPlay].

Lemma rtsp_kick_refuted :
  ks_trace kick_witness = [HStart; HStop; HStop] /\ pairs_okb false (ks_trace kick_witness) = false /\
  ks_trace kick_witness2 = [HPanic] /\ pairs_okb false (ks_trace kick_witness2) = false.
Proof. vm_compute. repeat split. Qed.

(* ---- RTSP conn --------------------------------------------------------------------------------------------------------- *)
Lemma cn_requests r : forall h, forallb is_crequest r = true -> run_from cn_step h r = (h, []).
Proof.
  induction r as [|o r IH]; intros h H; [reflexivity|].
  cbn [forallb] in H. apply andb_true_iff in H. destruct H as [Ho Hr]. destruct o; try discriminate.
  cbn [run_from cn_step]. rewrite (IH h Hr). reflexivity.
Qed.

Lemma cn_requests_trace r h : forallb is_crequest r = true -> trace cn_step h r = [] /\ final cn_step h r = h.
Proof. intros H. unfold trace, final. rewrite (cn_requests r h H). split; reflexivity. Qed.

Lemma cn_closed_requests r : forallb is_crequest r = true -> existsb (fun o => match o with CClose => true | _ => false end) r = false.
Proof.
  induction r as [|o r IH]; [reflexivity|]. cbn [forallb existsb]. intros H. apply andb_true_iff in H.
  destruct H as [Ho Hr]. destruct o; try discriminate. apply IH, Hr.
Qed.

Theorem rtsp_conn_pairs ops :
  cn_valid ops = true -> pairs_okb (cn_closed ops) (cn_trace ops) = true.
Proof.
  destruct ops as [|o r]; [reflexivity|]. destruct o; try discriminate. cbn [cn_valid]. intros H.
  unfold cn_trace, cn_closed. rewrite trace_cons. cbn [cn_step fst snd existsb orb].
  apply orb_true_iff in H. destruct H as [H|H].
  - destruct (cn_requests_trace r true H) as [Ht _]. rewrite Ht, (cn_closed_requests r H). reflexivity.
  - destruct (rev r) as [|l r'] eqn:Er; [discriminate|]. destruct l; try discriminate.
    assert (r = rev r' ++ [CClose]) as ->.
    { rewrite <- (rev_involutive r), Er. reflexivity. }
    assert (forallb is_crequest (rev r') = true) as Hr.
    { apply forallb_forall. intros x Hx. rewrite forallb_forall in H. apply H. apply in_rev. exact Hx. }
    rewrite trace_app. destruct (cn_requests_trace (rev r') true Hr) as [Ht Hf]. rewrite Ht, Hf.
    rewrite existsb_app. cbn. rewrite orb_true_r. reflexivity.
Qed.

(* ---- HLS session --------------------------------------------------------------------------------------------------------- *)
Lemma hl_pre cdn pre : forall st,
  h_reg st = false -> forallb hop_other pre = true ->
  trace (hl_step cdn) st pre = [] /\ final (hl_step cdn) st pre = st.
Proof.
  induction pre as [|o r IH]; intros st Hr H; [split; reflexivity|].
  cbn [forallb] in H. apply andb_true_iff in H. destruct H as [Ho Hrest].
  rewrite trace_cons, final_cons.
  assert (hl_step cdn st o = (st, [])) as E.
  { destruct o; try discriminate Ho; unfold hl_step; rewrite Hr; reflexivity. }
  rewrite E. cbn [fst snd app]. apply IH; assumption.
Qed.

(* after the hook is set: the pair is open exactly while the muxer still reaches the session *)
Lemma hl_post cdn post : forall rg,
  forallb hop_other post = true -> hl_destroy_last post = true ->
  existsb is_panic (trace (hl_step cdn) (mk_hst rg true) post) = false /\
  mon_run (alt_mon hcls) rg (trace (hl_step cdn) (mk_hst rg true) post) =
    Some (if existsb hl_closes post then false else rg).
Proof.
  induction post as [|o r IH]; intros rg Ho Hd; [split; reflexivity|].
  cbn [forallb] in Ho. apply andb_true_iff in Ho. destruct Ho as [Ho Hrest].
  rewrite trace_cons. destruct o; try discriminate Ho.
  - (* HRemove *)
    assert (hl_destroy_last r = true) as Hd' by exact Hd.
    destruct (IH false Hrest Hd') as [Hp Hm].
    destruct rg; cbn [hl_step h_reg h_hook fst snd app existsb hl_closes hop_is orb is_panic].
    + split; [exact Hp|]. cbn [mon_run alt_mon hcls]. rewrite Hm. destruct (existsb hl_closes r); reflexivity.
    + split; [exact Hp|]. rewrite Hm. destruct (existsb hl_closes r); reflexivity.
  - (* HDestroy: the last operation *)
    cbn [hl_destroy_last] in Hd. destruct r; [|discriminate].
    destruct rg; cbn; split; reflexivity.
  - (* HKick *)
    assert (hl_destroy_last r = true) as Hd' by exact Hd.
    destruct (IH false Hrest Hd') as [Hp Hm].
    destruct rg; cbn [hl_step h_reg h_hook fst snd app existsb hl_closes hop_is orb is_panic].
    + split; [exact Hp|]. cbn [mon_run alt_mon hcls]. rewrite Hm. destruct (existsb hl_closes r); reflexivity.
    + split; [exact Hp|]. rewrite Hm. destruct (existsb hl_closes r); reflexivity.
Qed.

Theorem hls_reader_pairs_partial cdn pre post :
  forallb hop_other pre = true -> forallb hop_other post = true -> hl_destroy_last post = true ->
  pairs_okb (existsb hl_closes post) (hl_trace cdn (pre ++ [HReg; HSetHook] ++ post)) = true.
Proof.
  intros Hpre Hpost Hd. unfold hl_trace.
  rewrite trace_app. destruct (hl_pre cdn pre (mk_hst false false) eq_refl Hpre) as [Ht Hf]. rewrite Ht, Hf.
  cbn [app]. rewrite !trace_cons. cbn [hl_step fst snd h_reg h_hook app].
  destruct (hl_post cdn post true Hpost Hd) as [Hp Hm].
  eapply pairs_okb_intro.
  - cbn [existsb is_panic orb]. exact Hp.
  - cbn [mon_run alt_mon hcls]. exact Hm.
  - intros ->. reflexivity.
Qed.

(* both guards are needed *)
Definition hls_witness_early : list hop := [HReg; HRemove; HSetHook].
Definition hls_witness_double : list hop := [HReg; HSetHook; HDestroy; HKick].

Lemma hls_reader_pairs_refuted :
  hl_program_order hls_witness_early = true /\ hl_trace false hls_witness_early = [HPanic; HStart] /\
  pairs_okb true (hl_trace false hls_witness_early) = false /\
  hl_program_order hls_witness_double = true /\ hl_trace false hls_witness_double = [HStart; HStop; HStop] /\
  pairs_okb false (hl_trace false hls_witness_double) = false.
Proof. vm_compute. repeat split. Qed.

(* ---- readable statements (used by Props/C20b.v) ------------------------------------------------------------------------- *)
Lemma in_close_existsb ops : In OClose ops -> existsb is_close ops = true.
Proof. intros H. apply existsb_exists. exists OClose. split; [exact H|reflexivity]. Qed.

Lemma reader_pairs_all_sequences (ops : list op) :
  alternates hcls (gs_trace ops) /\
  ~ In HPanic (gs_trace ops) /\
  (In OClose ops -> alternates_closed hcls (gs_trace ops)) /\
  (forall start_on stop_on,
     alternates lcls (log_trace start_on stop_on (gs_trace ops)) /\
     (In OClose ops -> alternates_closed lcls (log_trace start_on stop_on (gs_trace ops)))).
Proof.
  pose proof (rtsp_reader_pairs_gortsplib ops) as H.
  destruct (pairs_okb_spec _ _ H) as [Ha [Hp Hc]].
  split; [exact Ha|]. split; [exact Hp|]. split.
  - intros Hin. apply Hc, in_close_existsb, Hin.
  - intros s u. destruct (log_trace_pairs s u _ _ H) as [La Lc]. split; [exact La|].
    intros Hin. apply Lc, in_close_existsb, Hin.
Qed.

Lemma reader_pairs_any_library
      (lib : hkind -> lstate -> bool -> lstate -> bool)
      (Hlib : forall h pre ok post, lib h pre ok post = true -> lib_contract h pre ok post = true)
      (cs : list call) :
  rt_valid lib rst0 cs = true ->
  alternates hcls (rt_trace rst0 cs) /\
  ~ In HPanic (rt_trace rst0 cs) /\
  ((exists c, In c cs /\ c_h c = HkClose) -> alternates_closed hcls (rt_trace rst0 cs)).
Proof.
  intros Hv. pose proof (rtsp_reader_pairs_any_library lib Hlib cs Hv) as H.
  destruct (pairs_okb_spec _ _ H) as [Ha [Hp Hc]].
  split; [exact Ha|]. split; [exact Hp|].
  intros [c [Hin Hk]]. apply Hc. apply existsb_exists. exists c. split; [exact Hin|]. rewrite Hk. reflexivity.
Qed.

Lemma kick_pairs_partial (ops : list kop) :
  quiet_after_kick ops = true ->
  alternates hcls (ks_trace ops) /\ ~ In HPanic (ks_trace ops) /\
  (existsb kop_ends ops = true -> alternates_closed hcls (ks_trace ops)).
Proof.
  intros Hq. pose proof (rtsp_kick_pairs_partial ops Hq) as H.
  destruct (pairs_okb_spec _ _ H) as [Ha [Hp Hc]].
  split; [exact Ha|]. split; [exact Hp|].
  intros He. apply Hc. clear - He.
  (* an ending operation leaves the machine kicked or closed *)
  unfold ks_final.
  assert (forall ops st, (k_kicked st || r_closed (k_r st) = true \/ existsb kop_ends ops = true) ->
                         k_kicked (final ks_step st ops) || r_closed (k_r (final ks_step st ops)) = true) as G.
  { clear. induction ops as [|o r IH]; intros st [H|H]; try exact H; try discriminate H.
    - rewrite final_cons. apply IH. left.
      pose proof kquiet_good_all as _.
      assert (forallb (fun st => forallb (fun o =>
                implb (k_kicked st || r_closed (k_r st))
                      (k_kicked (fst (ks_step st o)) || r_closed (k_r (fst (ks_step st o))))) all_kop) all_kst = true) as K
        by (vm_compute; reflexivity).
      rewrite forallb_forall in K. specialize (K st (in_all_kst st)).
      rewrite forallb_forall in K. specialize (K o (in_all_kop o)). rewrite H in K. exact K.
    - rewrite final_cons. apply IH. cbn [existsb] in H. apply orb_true_iff in H. destruct H as [H|H]; [left|right; exact H].
      assert (forallb (fun st => forallb (fun o =>
                implb (kop_ends o) (k_kicked (fst (ks_step st o)) || r_closed (k_r (fst (ks_step st o))))) all_kop) all_kst = true) as K
        by (vm_compute; reflexivity).
      rewrite forallb_forall in K. specialize (K st (in_all_kst st)).
      rewrite forallb_forall in K. specialize (K o (in_all_kop o)). rewrite H in K. exact K. }
  apply G. right. exact He.
Qed.

Lemma conn_pairs (ops : list cop) :
  cn_valid ops = true ->
  alternates hcls (cn_trace ops) /\ ~ In HPanic (cn_trace ops) /\
  (In CClose ops -> alternates_closed hcls (cn_trace ops)).
Proof.
  intros Hv. pose proof (rtsp_conn_pairs ops Hv) as H.
  destruct (pairs_okb_spec _ _ H) as [Ha [Hp Hc]].
  split; [exact Ha|]. split; [exact Hp|]. intros Hin. apply Hc. unfold cn_closed.
  apply existsb_exists. exists CClose. split; [exact Hin|reflexivity].
Qed.

Lemma hls_pairs_partial cdn (pre post : list hop) :
  forallb hop_other pre = true -> forallb hop_other post = true -> hl_destroy_last post = true ->
  let t := hl_trace cdn (pre ++ [HReg; HSetHook] ++ post) in
  alternates hcls t /\ ~ In HPanic t /\ (existsb hl_closes post = true -> alternates_closed hcls t).
Proof.
  intros H1 H2 H3 t. pose proof (hls_reader_pairs_partial cdn pre post H1 H2 H3) as H.
  destruct (pairs_okb_spec _ _ H) as [Ha [Hp Hc]]. split; [exact Ha|]. split; [exact Hp|exact Hc].
Qed.

(* refutations in readable form *)
Lemma not_alternates_of_okb t : pairs_okb false t = false -> existsb is_panic t = false -> ~ alternates hcls t.
Proof.
  unfold pairs_okb. intros H Hp Ha. rewrite Hp in H. cbn [negb andb] in H.
  apply alt_from_iff in Ha. destruct Ha as [b Hb]. rewrite Hb in H. discriminate.
Qed.
