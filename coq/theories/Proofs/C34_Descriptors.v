(* C34 — proofs about Model/C34_Descriptors.v: print/parse inverses and rejection lemmas. *)
From Coq Require Import List ZArith Bool Lia ZifyBool String.
Require Import MTX.Lib.Base64 MTX.Model.C34_Descriptors.
Import ListNotations.
Local Open Scope Z_scope.

(* ---- helpers ------------------------------------------------------------------------------ *)

Lemma beqb_refl : forall a, beqb a a = true.
Proof. induction a as [|x a IH]; simpl; [reflexivity|]. rewrite Z.eqb_refl, IH. reflexivity. Qed.

Lemma beqb_eq : forall a b, beqb a b = true <-> a = b.
Proof.
  induction a as [|x a IH]; intros [|y b]; simpl; split; intros H; try reflexivity; try discriminate.
  - apply andb_true_iff in H. destruct H as [H1 H2]. apply Z.eqb_eq in H1. apply IH in H2. congruence.
  - inversion H; subst. rewrite Z.eqb_refl. simpl. apply beqb_refl.
Qed.

Lemma beqb_neq : forall a b, a <> b -> beqb a b = false.
Proof. intros a b H. destruct (beqb a b) eqn:E; [apply beqb_eq in E; contradiction|reflexivity]. Qed.

Lemma strip_prefix_app : forall p s, strip_prefix p (p ++ s) = Some s.
Proof. induction p as [|x p IH]; intros s; simpl; [reflexivity|]. rewrite Z.eqb_refl. apply IH. Qed.

Lemma strip_prefix_self : forall p, strip_prefix p p = Some [].
Proof. intros p. rewrite <- (app_nil_r p) at 2. apply strip_prefix_app. Qed.

Lemma strip_prefix_some : forall p s r, strip_prefix p s = Some r -> s = p ++ r.
Proof.
  induction p as [|x p IH]; intros s r H; simpl in H.
  - inversion H. reflexivity.
  - destruct s as [|y s]; [discriminate|]. destruct (x =? y) eqn:E; [|discriminate].
    apply Z.eqb_eq in E. subst. simpl. f_equal. apply IH. exact H.
Qed.

Lemma no_byte_cons : forall c x s, no_byte c (x :: s) = true <-> x <> c /\ no_byte c s = true.
Proof. intros c x s. unfold no_byte. simpl. rewrite andb_true_iff. split; intros [H1 H2]; split; try assumption; lia. Qed.

Lemma no_byte_app : forall c a b, no_byte c (a ++ b) = no_byte c a && no_byte c b.
Proof. intros c a b. unfold no_byte. apply forallb_app. Qed.

Lemma split_on_nonnil : forall sep s, split_on sep s <> [].
Proof.
  intros sep s. induction s as [|c r IH]; simpl; [discriminate|].
  destruct (c =? sep); [discriminate|]. destruct (split_on sep r); discriminate.
Qed.

Lemma split_on_nosep : forall sep a, no_byte sep a = true -> split_on sep a = [a].
Proof.
  intros sep a. induction a as [|c a IH]; intros H; [reflexivity|].
  apply no_byte_cons in H. destruct H as [Hc Ha]. simpl.
  replace (c =? sep) with false by lia. rewrite (IH Ha). reflexivity.
Qed.

Lemma split_on_app : forall sep a r, no_byte sep a = true -> split_on sep (a ++ sep :: r) = a :: split_on sep r.
Proof.
  intros sep a r. induction a as [|c a IH]; intros H.
  - simpl. rewrite Z.eqb_refl. reflexivity.
  - apply no_byte_cons in H. destruct H as [Hc Ha]. simpl.
    replace (c =? sep) with false by lia. rewrite (IH Ha). reflexivity.
Qed.

Lemma join_cons2 : forall sep a b r, join sep (a :: b :: r) = a ++ sep :: join sep (b :: r).
Proof. reflexivity. Qed.

Lemma split_join : forall sep parts, parts <> [] -> Forall (fun p => no_byte sep p = true) parts ->
  split_on sep (join sep parts) = parts.
Proof.
  intros sep parts. induction parts as [|a r IH]; intros Hne HF; [contradiction|].
  inversion_clear HF as [|? ? Ha Hr]. destruct r as [|b r].
  - simpl. apply split_on_nosep. exact Ha.
  - rewrite join_cons2, split_on_app by exact Ha. f_equal. apply IH; [discriminate|exact Hr].
Qed.

Lemma cut1_app : forall sep a r, no_byte sep a = true -> cut1 sep (a ++ sep :: r) = Some (a, r).
Proof.
  intros sep a r. induction a as [|c a IH]; intros H.
  - simpl. rewrite Z.eqb_refl. reflexivity.
  - apply no_byte_cons in H. destruct H as [Hc Ha]. simpl.
    replace (c =? sep) with false by lia. rewrite (IH Ha). reflexivity.
Qed.

Lemma cut1_none : forall sep a, no_byte sep a = true -> cut1 sep a = None.
Proof.
  intros sep a. induction a as [|c a IH]; intros H; [reflexivity|].
  apply no_byte_cons in H. destruct H as [Hc Ha]. simpl.
  replace (c =? sep) with false by lia. rewrite (IH Ha). reflexivity.
Qed.

Lemma trim_suffix_app : forall suf s, trim_suffix suf (s ++ suf) = s.
Proof. intros suf s. unfold trim_suffix. rewrite rev_app_distr, strip_prefix_app. apply rev_involutive. Qed.

Definition ends_with (suf s : list Z) : bool := has_prefix (rev suf) (rev s).

Lemma trim_suffix_none : forall suf s, ends_with suf s = false -> trim_suffix suf s = s.
Proof.
  intros suf s H. unfold trim_suffix. unfold ends_with, has_prefix in H.
  destruct (strip_prefix (rev suf) (rev s)); [discriminate|reflexivity].
Qed.

Lemma map_last_snoc : forall {A} (f : A -> A) l x, map_last f (l ++ [x]) = l ++ [f x].
Proof.
  intros A f l x. induction l as [|y l IH]; [reflexivity|].
  change ((y :: l) ++ [x]) with (y :: (l ++ [x])). cbn [map_last].
  remember (l ++ [x]) as t eqn:E. destruct t as [|a t]; [destruct l; discriminate|]. rewrite IH. reflexivity.
Qed.

(* ---- SRT stream id: legacy syntax --------------------------------------------------------- *)

Definition no_colon (s : list Z) : Prop := no_byte c_colon s = true.
Definition no_comma (s : list Z) : Prop := no_byte c_comma s = true.

(* the field written last in the legacy form *)
Definition legacy_last (p u s q : list Z) : list Z :=
  if is_nil q then (if is_nil u && is_nil s then p else s) else q.

Lemma action_no_colon : forall m, no_byte c_colon (action_str m) = true.
Proof. intros [|]; reflexivity. Qed.

Lemma legacy_action_str : forall m, legacy_action (action_str m) = Some m.
Proof. intros [|]; reflexivity. Qed.

Lemma legacy_not_std : forall m rest, strip_prefix s_std_prefix (action_str m ++ rest) = None.
Proof. intros [|] rest; reflexivity. Qed.

(* what unmarshal_legacy does with a list of colon-free parts, given what trimming does to the last one *)
Lemma unmarshal_legacy_join : forall parts, parts <> [] -> Forall no_colon parts ->
  unmarshal_legacy (join c_colon parts) =
  (let n := Z.of_nat (List.length parts) in
   if (n <? 2) || (5 <? n) then SidErr ErrSyntax else
   match map_last (trim_suffix s_feedbackplay) parts with
   | a :: p :: rest =>
       match legacy_action a with
       | None => SidErr ErrSyntax
       | Some m =>
           match rest with
           | [] => SidOk (mkSid m p [] [] [])
           | [q] => SidOk (mkSid m p q [] [])
           | [u; s] => SidOk (mkSid m p [] u s)
           | [u; s; q] => SidOk (mkSid m p q u s)
           | _ => SidErr ErrSyntax
           end
       end
   | _ => SidErr ErrSyntax
   end).
Proof. intros parts Hne HF. unfold unmarshal_legacy. rewrite split_join by assumption. reflexivity. Qed.

Lemma legacy_fields_shape : forall m p u s q,
  exists front, legacy_fields m p u s q = front ++ [legacy_last p u s q] /\
  forall x, front ++ [x] =
    action_str m :: (if is_nil q
                     then (if is_nil u && is_nil s then [x] else [p; u; x])
                     else (if is_nil u && is_nil s then [p; x] else [p; u; s; x])).
Proof.
  intros m p u s q. unfold legacy_fields, legacy_last.
  destruct (is_nil q) eqn:Eq; destruct (is_nil u && is_nil s) eqn:Ec.
  - exists [action_str m]. split; reflexivity.
  - exists [action_str m; p; u]. split; reflexivity.
  - exists [action_str m; p]. destruct q; [discriminate|]. split; reflexivity.
  - exists [action_str m; p; u; s]. destruct q; [discriminate|]. split; reflexivity.
Qed.

Lemma is_nil_true : forall {A} (l : list A), is_nil l = true -> l = [].
Proof. intros A [|x l] H; [reflexivity|discriminate]. Qed.

Lemma legacy_fields_no_colon : forall m p u s q,
  no_colon p -> no_colon u -> no_colon s -> no_colon q -> Forall no_colon (legacy_fields m p u s q).
Proof.
  intros m p u s q Hp Hu Hs Hq. unfold legacy_fields.
  constructor; [apply action_no_colon|]. constructor; [exact Hp|].
  apply Forall_app. split.
  - destruct (is_nil u && is_nil s); repeat constructor; assumption.
  - destruct (is_nil q); repeat constructor; assumption.
Qed.

(* general form: whatever the last field is, it comes back with one "#feedbackplay" suffix removed *)
Lemma streamid_legacy_general : forall m p u s q,
  no_colon p -> no_colon u -> no_colon s -> no_colon q ->
  stream_id_unmarshal (print_legacy m p u s q) =
  (let t := trim_suffix s_feedbackplay in
   SidOk (if is_nil q
          then (if is_nil u && is_nil s then mkSid m (t p) [] [] [] else mkSid m p [] u (t s))
          else (if is_nil u && is_nil s then mkSid m p (t q) [] [] else mkSid m p (t q) u s))).
Proof.
  intros m p u s q Hp Hu Hs Hq.
  unfold stream_id_unmarshal, print_legacy.
  assert (Hnot : strip_prefix s_std_prefix (join c_colon (legacy_fields m p u s q)) = None).
  { unfold legacy_fields. rewrite join_cons2. apply legacy_not_std. }
  rewrite Hnot.
  rewrite unmarshal_legacy_join;
    [|unfold legacy_fields; discriminate|apply legacy_fields_no_colon; assumption].
  cbv zeta. remember (trim_suffix s_feedbackplay) as t eqn:Et. clear Et.
  unfold legacy_fields.
  destruct (is_nil q) eqn:Eq; destruct (is_nil u && is_nil s) eqn:Ec.
  - cbn. rewrite legacy_action_str. reflexivity.
  - cbn. rewrite legacy_action_str. reflexivity.
  - destruct q; [discriminate|]. cbn. rewrite legacy_action_str. reflexivity.
  - destruct q; [discriminate|]. cbn. rewrite legacy_action_str. reflexivity.
Qed.

Lemma streamid_legacy : forall m p u s q,
  no_colon p -> no_colon u -> no_colon s -> no_colon q ->
  ends_with s_feedbackplay (legacy_last p u s q) = false ->
  stream_id_unmarshal (print_legacy m p u s q) = SidOk (mkSid m p q u s).
Proof.
  intros m p u s q Hp Hu Hs Hq Hfb.
  rewrite streamid_legacy_general by assumption. cbv zeta.
  unfold legacy_last in Hfb.
  destruct (is_nil q) eqn:Eq; destruct (is_nil u && is_nil s) eqn:Ec;
    rewrite (trim_suffix_none _ _ Hfb).
  - apply is_nil_true in Eq. apply andb_true_iff in Ec. destruct Ec as [E1 E2].
    apply is_nil_true in E1. apply is_nil_true in E2. subst. reflexivity.
  - apply is_nil_true in Eq. subst. reflexivity.
  - apply andb_true_iff in Ec. destruct Ec as [E1 E2].
    apply is_nil_true in E1. apply is_nil_true in E2. subst. reflexivity.
  - reflexivity.
Qed.

Lemma join_snoc_app : forall sep front x y, join sep (front ++ [x]) ++ y = join sep (front ++ [x ++ y]).
Proof.
  intros sep front x y. induction front as [|a front IH]; [reflexivity|].
  change ((a :: front) ++ [x]) with (a :: (front ++ [x])).
  change ((a :: front) ++ [x ++ y]) with (a :: (front ++ [x ++ y])).
  remember (front ++ [x]) as t1 eqn:E1. destruct t1 as [|b1 t1]; [destruct front; discriminate|].
  remember (front ++ [x ++ y]) as t2 eqn:E2. destruct t2 as [|b2 t2]; [destruct front; discriminate|].
  rewrite !join_cons2. rewrite <- IH, <- app_assoc. reflexivity.
Qed.

Lemma fb_no_colon : no_colon s_feedbackplay.
Proof. reflexivity. Qed.

(* players that append "#feedbackplay" to the stream id: the suffix is removed, nothing else changes, and here no
   condition on the last field is needed *)
Lemma streamid_legacy_feedbackplay : forall m p u s q,
  no_colon p -> no_colon u -> no_colon s -> no_colon q ->
  stream_id_unmarshal (print_legacy m p u s q ++ s_feedbackplay) = SidOk (mkSid m p q u s).
Proof.
  intros m p u s q Hp Hu Hs Hq.
  assert (Hx : forall x, no_colon x -> no_colon (x ++ s_feedbackplay)).
  { intros x Hx. unfold no_colon in *. rewrite no_byte_app, Hx. reflexivity. }
  pose proof (action_no_colon m) as Ha.
  assert (Hgo : forall front x, Forall no_colon (action_str m :: front ++ [x]) ->
            stream_id_unmarshal (join c_colon ((action_str m :: front) ++ [x]) ++ s_feedbackplay) =
            unmarshal_legacy (join c_colon ((action_str m :: front) ++ [x ++ s_feedbackplay])) /\
            Forall no_colon ((action_str m :: front) ++ [x ++ s_feedbackplay])).
  { intros front x HF. rewrite join_snoc_app. split.
    - unfold stream_id_unmarshal.
      change ((action_str m :: front) ++ [x ++ s_feedbackplay]) with (action_str m :: (front ++ [x ++ s_feedbackplay])).
      remember (front ++ [x ++ s_feedbackplay]) as t eqn:E. destruct t as [|b t]; [destruct front; discriminate|].
      rewrite join_cons2, legacy_not_std. reflexivity.
    - change ((action_str m :: front) ++ [x ++ s_feedbackplay]) with (action_str m :: (front ++ [x ++ s_feedbackplay])).
      inversion_clear HF as [|? ? H1 H2]. constructor; [exact H1|].
      apply Forall_app in H2. destruct H2 as [H2 H3]. apply Forall_app. split; [exact H2|].
      inversion_clear H3 as [|? ? H4 _]. constructor; [apply Hx; exact H4|constructor]. }
  unfold print_legacy, legacy_fields.
  destruct (is_nil q) eqn:Eq; destruct (is_nil u && is_nil s) eqn:Ec.
  - apply is_nil_true in Eq. apply andb_true_iff in Ec. destruct Ec as [E1 E2].
    apply is_nil_true in E1. apply is_nil_true in E2. subst.
    destruct (Hgo [] p) as [H1 H2]; [repeat constructor; assumption|].
    cbn [app] in *. rewrite H1, unmarshal_legacy_join by (assumption || discriminate).
    cbn [List.length map_last]. rewrite trim_suffix_app. cbn. rewrite legacy_action_str. reflexivity.
  - apply is_nil_true in Eq. subst.
    destruct (Hgo [p; u] s) as [H1 H2]; [repeat constructor; assumption|].
    cbn [app] in *. rewrite H1, unmarshal_legacy_join by (assumption || discriminate).
    cbn [List.length map_last]. rewrite trim_suffix_app. cbn. rewrite legacy_action_str. reflexivity.
  - apply andb_true_iff in Ec. destruct Ec as [E1 E2].
    apply is_nil_true in E1. apply is_nil_true in E2. subst.
    destruct (Hgo [p] q) as [H1 H2]; [repeat constructor; assumption|].
    cbn [app] in *. rewrite H1, unmarshal_legacy_join by (assumption || discriminate).
    cbn [List.length map_last]. rewrite trim_suffix_app. cbn. rewrite legacy_action_str. reflexivity.
  - destruct (Hgo [p; u; s] q) as [H1 H2]; [repeat constructor; assumption|].
    cbn [app] in *. rewrite H1, unmarshal_legacy_join by (assumption || discriminate).
    cbn [List.length map_last]. rewrite trim_suffix_app. cbn. rewrite legacy_action_str. reflexivity.
Qed.

(* acceptance of the legacy syntax, exactly *)
Lemma legacy_accept_iff : forall raw, has_prefix s_std_prefix raw = false ->
  ((exists s, stream_id_unmarshal raw = SidOk s) <->
   (2 <= Z.of_nat (List.length (split_on c_colon raw)) <= 5 /\
    legacy_action (hd [] (split_on c_colon raw)) <> None)).
Proof.
  intros raw Hp. unfold stream_id_unmarshal. unfold has_prefix in Hp.
  destruct (strip_prefix s_std_prefix raw); [discriminate|]. clear Hp.
  unfold unmarshal_legacy.
  set (parts := split_on c_colon raw).
  destruct ((Z.of_nat (List.length parts) <? 2) || (5 <? Z.of_nat (List.length parts))) eqn:En.
  - split; [intros [s Hs]; discriminate|]. intros [H _]. lia.
  - destruct parts as [|a [|p rest]]; [simpl in En; discriminate|simpl in En; discriminate|].
    assert (Hml : exists rest', map_last (trim_suffix s_feedbackplay) (a :: p :: rest) = a :: rest' /\
                                List.length rest' = S (List.length rest) /\ rest' <> []).
    { cbn [map_last]. destruct rest as [|x rest].
      - eexists. split; [reflexivity|]. split; [reflexivity|discriminate].
      - exists (p :: map_last (trim_suffix s_feedbackplay) (x :: rest)). split; [reflexivity|].
        split; [|discriminate]. simpl. f_equal.
        clear. revert x. induction rest as [|y rest IH]; intros x; [reflexivity|].
        cbn [map_last]. cbn [map_last] in IH. simpl. simpl in IH. rewrite IH. reflexivity. }
    destruct Hml as [rest' [Hml [Hlen Hne]]]. rewrite Hml. cbn [hd].
    destruct rest' as [|p' rest']; [contradiction|].
    destruct (legacy_action a) as [m|].
    + split; [intros _; split; [lia|discriminate]|]. intros _.
      simpl in En, Hlen.
      destruct rest' as [|x1 [|x2 [|x3 [|x4 r]]]]; try (eexists; reflexivity).
      simpl in Hlen. lia.
    + split; [intros [s Hs]; discriminate|]. intros [_ H]. contradiction.
Qed.

Lemma legacy_unknown_action : forall raw, has_prefix s_std_prefix raw = false ->
  legacy_action (hd [] (split_on c_colon raw)) = None -> stream_id_unmarshal raw = SidErr ErrSyntax.
Proof.
  intros raw Hp Ha.
  destruct (stream_id_unmarshal raw) as [s|e] eqn:E.
  - exfalso. pose proof (proj1 (legacy_accept_iff raw Hp) (ex_intro _ s E)) as [_ H]. contradiction.
  - unfold stream_id_unmarshal in E. unfold has_prefix in Hp.
    destruct (strip_prefix s_std_prefix raw); [discriminate|].
    unfold unmarshal_legacy in E.
    destruct ((Z.of_nat (List.length (split_on c_colon raw)) <? 2) || (5 <? Z.of_nat (List.length (split_on c_colon raw))));
      [congruence|].
    destruct (map_last (trim_suffix s_feedbackplay) (split_on c_colon raw)) as [|a [|p rest]]; try congruence.
    destruct (legacy_action a); [|congruence].
    destruct rest as [|x1 [|x2 [|x3 [|x4 r]]]]; congruence.
Qed.

(* a colon inside a field changes the reading: the form is ambiguous by construction *)
Lemma streamid_legacy_colon_refuted :
  exists m p u s q, no_colon p /\ no_colon u /\ no_colon s /\ ~ no_colon q /\
    stream_id_unmarshal (print_legacy m p u s q) <> SidOk (mkSid m p q u s).
Proof.
  exists MRead, (B "cam"%string), [], [], (B "a:b"%string).
  repeat split; try reflexivity; try discriminate.
Qed.

Lemma streamid_legacy_feedbackplay_refuted :
  exists m p u s q, no_colon p /\ no_colon u /\ no_colon s /\ no_colon q /\
    stream_id_unmarshal (print_legacy m p u s q) <> SidOk (mkSid m p q u s).
Proof.
  exists MPublish, (B "cam"%string), (B "user"%string), (B "pw#feedbackplay"%string), [].
  repeat split; try reflexivity; try discriminate.
Qed.

(* ---- SRT stream id: standard syntax ----------------------------------------------------------- *)

Definition no_eq (s : list Z) : Prop := no_byte c_eq s = true.

(* the meaning of a list of (key, value) items: later items win, an unknown mode is an error *)
Fixpoint std_pairs (items : list (list Z * list Z)) (s : stream_id) : sid_result :=
  match items with
  | [] => SidOk s
  | (k, v) :: r =>
      if beqb k k_u then std_pairs r (mkSid (sid_mode_of s) (sid_path s) (sid_query s) v (sid_pass s))
      else if beqb k k_r then std_pairs r (mkSid (sid_mode_of s) v (sid_query s) (sid_user s) (sid_pass s))
      else if beqb k k_s then std_pairs r (mkSid (sid_mode_of s) (sid_path s) (sid_query s) (sid_user s) v)
      else if beqb k k_m then
        if beqb v s_request then std_pairs r (mkSid MRead (sid_path s) (sid_query s) (sid_user s) (sid_pass s))
        else if beqb v s_publish then std_pairs r (mkSid MPublish (sid_path s) (sid_query s) (sid_user s) (sid_pass s))
        else SidErr ErrUnsupportedMode
      else std_pairs r s
  end.

Definition item_ok (it : list Z * list Z) : Prop := no_eq (fst it) /\ no_comma (fst it) /\ no_comma (snd it).

Lemma std_items_pairs : forall items s, Forall item_ok items ->
  std_items (map (fun '(k, v) => kv k v) items) s = std_pairs items s.
Proof.
  induction items as [|[k v] r IH]; intros s HF; [reflexivity|].
  inversion_clear HF as [|? ? Hk Hr]. destruct Hk as [Hk _]. simpl in Hk.
  cbn [map std_items std_pairs]. unfold kv at 1. rewrite cut1_app by exact Hk.
  destruct (beqb k k_u); [apply IH; exact Hr|].
  destruct (beqb k k_r); [apply IH; exact Hr|].
  destruct (beqb k k_s); [apply IH; exact Hr|].
  destruct (beqb k k_m).
  - destruct (beqb v s_request); [apply IH; exact Hr|].
    destruct (beqb v s_publish); [apply IH; exact Hr|reflexivity].
  - apply IH; exact Hr.
Qed.

Lemma streamid_std_items : forall items, items <> [] -> Forall item_ok items ->
  stream_id_unmarshal (print_std_items items) = std_pairs items sid_zero.
Proof.
  intros items Hne HF. unfold stream_id_unmarshal, print_std_items.
  rewrite strip_prefix_app, split_join.
  - apply std_items_pairs. exact HF.
  - destruct items; [contradiction|discriminate].
  - apply Forall_map. eapply Forall_impl; [|exact HF]. intros [k v] [_ [Hk Hv]]. simpl in Hk, Hv.
    unfold kv, no_comma in *. rewrite no_byte_app, Hk. simpl. exact Hv.
Qed.

Lemma mode_str_ok : forall m s,
  (if beqb (mode_str m) s_request then SidOk (mkSid MRead (sid_path s) (sid_query s) (sid_user s) (sid_pass s))
   else if beqb (mode_str m) s_publish then SidOk (mkSid MPublish (sid_path s) (sid_query s) (sid_user s) (sid_pass s))
   else SidErr ErrUnsupportedMode) = SidOk (mkSid m (sid_path s) (sid_query s) (sid_user s) (sid_pass s)).
Proof. intros [|] s; reflexivity. Qed.

Lemma streamid_std : forall m r u s, no_comma r -> no_comma u -> no_comma s ->
  stream_id_unmarshal (print_std m r u s) = SidOk (mkSid m r [] u s).
Proof.
  intros m r u s Hr Hu Hs.
  change (print_std m r u s) with (print_std_items [(k_m, mode_str m); (k_r, r); (k_u, u); (k_s, s)]).
  rewrite streamid_std_items.
  - destruct m; reflexivity.
  - discriminate.
  - repeat constructor; simpl; try assumption; destruct m; reflexivity.
Qed.

(* any order of the four keys gives the same result (shown for all 24 orders through the general lemma: here the
   reverse order, as used by some encoders) *)
Lemma streamid_std_reordered : forall m r u s, no_comma r -> no_comma u -> no_comma s ->
  stream_id_unmarshal (print_std_items [(k_s, s); (k_u, u); (k_r, r); (k_m, mode_str m)]) = SidOk (mkSid m r [] u s).
Proof.
  intros m r u s Hr Hu Hs. rewrite streamid_std_items.
  - destruct m; reflexivity.
  - discriminate.
  - repeat constructor; simpl; try assumption; destruct m; reflexivity.
Qed.

Lemma streamid_std_bad_mode : forall v rest, no_comma v -> v <> s_request -> v <> s_publish ->
  Forall item_ok rest ->
  stream_id_unmarshal (print_std_items ((k_m, v) :: rest)) = SidErr ErrUnsupportedMode.
Proof.
  intros v rest Hv H1 H2 HF. rewrite streamid_std_items.
  - cbn [std_pairs]. change (beqb k_m k_u) with false. change (beqb k_m k_r) with false.
    change (beqb k_m k_s) with false. change (beqb k_m k_m) with true. cbv iota.
    rewrite (beqb_neq _ _ H1), (beqb_neq _ _ H2). reflexivity.
  - discriminate.
  - constructor; [|exact HF]. repeat split; try reflexivity. exact Hv.
Qed.

(* an item without '=' is an error (first item shown; `tail` is empty or starts with ',') *)
Lemma streamid_std_missing_eq : forall item tail, no_eq item -> no_comma item ->
  (tail = [] \/ exists t, tail = c_comma :: t) ->
  stream_id_unmarshal (s_std_prefix ++ item ++ tail) = SidErr ErrInvalidValue.
Proof.
  intros item tail He Hc Ht. unfold stream_id_unmarshal. rewrite strip_prefix_app.
  destruct Ht as [Ht|[t Ht]]; subst tail.
  - rewrite app_nil_r, split_on_nosep by exact Hc. cbn [std_items]. rewrite cut1_none by exact He. reflexivity.
  - rewrite split_on_app by exact Hc. cbn [std_items]. rewrite cut1_none by exact He. reflexivity.
Qed.

(* ---- WHIP Link header ------------------------------------------------------------------------ *)

Lemma read_quoted_loop_quote : forall s acc rest,
  read_quoted_loop (quote_credential s ++ c_dquote :: rest) false acc = Some (rev acc ++ s, rest).
Proof.
  induction s as [|c s IH]; intros acc rest.
  - simpl. rewrite app_nil_r. reflexivity.
  - cbn [quote_credential flat_map]. fold (quote_credential s).
    destruct (c =? c_bslash) eqn:E1; [|destruct (c =? c_dquote) eqn:E2].
    + apply Z.eqb_eq in E1. subst c. cbn [orb app read_quoted_loop].
      change (c_bslash =? c_bslash) with true. cbv iota.
      rewrite IH. simpl. rewrite <- app_assoc. reflexivity.
    + apply Z.eqb_eq in E2. subst c. cbn [orb app read_quoted_loop].
      change (c_bslash =? c_bslash) with true. change (c_dquote =? c_bslash) with false.
      change (c_dquote =? c_dquote) with true. cbv iota.
      rewrite IH. simpl. rewrite <- app_assoc. reflexivity.
    + cbn [orb app read_quoted_loop]. rewrite E1, E2.
      rewrite IH. simpl. rewrite <- app_assoc. reflexivity.
Qed.

Lemma quote_roundtrip : forall s rest,
  read_quoted ([c_dquote] ++ quote_credential s ++ [c_dquote] ++ rest) = Some (s, rest).
Proof.
  intros s rest. cbn [app read_quoted]. change (c_dquote =? c_dquote) with true. cbv iota.
  apply (read_quoted_loop_quote s [] rest).
Qed.

(* a quoted string that is never closed is rejected, whatever it contains *)
Lemma read_quoted_loop_unterminated : forall s acc, read_quoted_loop (quote_credential s) false acc = None.
Proof.
  induction s as [|c s IH]; intros acc; [reflexivity|].
  cbn [quote_credential flat_map]. fold (quote_credential s).
  destruct (c =? c_bslash) eqn:E1; [|destruct (c =? c_dquote) eqn:E2].
  - apply Z.eqb_eq in E1. subst c. cbn [orb app read_quoted_loop].
    change (c_bslash =? c_bslash) with true. cbv iota. apply IH.
  - apply Z.eqb_eq in E2. subst c. cbn [orb app read_quoted_loop].
    change (c_bslash =? c_bslash) with true. change (c_dquote =? c_bslash) with false.
    change (c_dquote =? c_dquote) with true. cbv iota. apply IH.
  - cbn [orb app read_quoted_loop]. rewrite E1, E2. apply IH.
Qed.

Lemma read_quoted_unterminated : forall s, read_quoted (c_dquote :: quote_credential s) = None.
Proof. intros s. cbn [read_quoted]. change (c_dquote =? c_dquote) with true. cbv iota. apply read_quoted_loop_unterminated. Qed.

Lemma read_quoted_needs_quote : forall c r, c <> c_dquote -> read_quoted (c :: r) = None.
Proof. intros c r H. cbn [read_quoted]. replace (c =? c_dquote) with false by lia. reflexivity. Qed.

Definition c_gt := 62.

Lemma cut_unfold : forall n s,
  cut n s = match strip_prefix n s with
            | Some r => Some ([], r)
            | None => match s with
                      | [] => None
                      | c :: r => match cut n r with Some (a, b) => Some (c :: a, b) | None => None end
                      end
            end.
Proof. intros n [|c s]; reflexivity. Qed.

Lemma cut_rel : forall url rest, no_byte c_gt url = true -> cut s_rel (url ++ s_rel ++ rest) = Some (url, rest).
Proof.
  intros url rest. induction url as [|c url IH]; intros H.
  - cbn [app]. rewrite cut_unfold, strip_prefix_app. reflexivity.
  - apply no_byte_cons in H. destruct H as [Hc Hu].
    cbn [app]. rewrite cut_unfold. unfold s_rel at 1. cbn [strip_prefix].
    replace (62 =? c) with false by (unfold c_gt in Hc; lia).
    rewrite (IH Hu). reflexivity.
Qed.

(* what comes back: without a username nothing but the URL is written *)
Definition link_normal (s : ice_server) : ice_server :=
  if is_nil (ice_user s) then mkIce (ice_url s) [] None else mkIce (ice_url s) (ice_user s) (Some (cred_str (ice_cred s))).

Lemma link_roundtrip1 : forall s, no_byte c_gt (ice_url s) = true ->
  link_unmarshal1 (link_marshal1 s) = Some (link_normal s).
Proof.
  intros [url user cred] Hurl. cbn [ice_url] in Hurl.
  unfold link_unmarshal1, link_marshal1, link_normal. cbn [ice_url ice_user ice_cred].
  rewrite strip_prefix_app, cut_rel by exact Hurl.
  destruct user as [|c user]; [reflexivity|].
  cbn [is_nil]. set (u := c :: user).
  assert (Hne : is_nil (s_username_eq ++ [c_dquote] ++ quote_credential u ++ [c_dquote] ++ s_credential_eq ++
                        [c_dquote] ++ quote_credential (cred_str cred) ++ [c_dquote] ++ s_credtype) = false) by reflexivity.
  rewrite Hne, strip_prefix_app, quote_roundtrip.
  unfold u at 1. cbn [is_nil].
  rewrite strip_prefix_app, quote_roundtrip.
  rewrite strip_prefix_self. reflexivity.
Qed.

Lemma link_roundtrip : forall l, Forall (fun s => no_byte c_gt (ice_url s) = true) l ->
  link_unmarshal (link_marshal l) = Some (map link_normal l).
Proof.
  induction l as [|s l IH]; intros HF; [reflexivity|].
  inversion_clear HF as [|? ? Hs Hl]. cbn [link_marshal map link_unmarshal].
  rewrite link_roundtrip1 by exact Hs. fold (link_marshal l). rewrite (IH Hl). reflexivity.
Qed.

(* with a username, username and credential come back exactly, whatever bytes they contain *)
Lemma link_roundtrip_creds : forall url user cred, no_byte c_gt url = true -> user <> [] ->
  link_unmarshal [link_marshal1 (mkIce url user (Some cred))] = Some [mkIce url user (Some cred)].
Proof.
  intros url user cred Hurl Hne. cbn [link_unmarshal]. rewrite link_roundtrip1 by exact Hurl.
  unfold link_normal. cbn [ice_user ice_url ice_cred cred_str]. destruct user; [contradiction|reflexivity].
Qed.

(* the precondition on the URL is needed: a URL that contains the text that ends the URL is cut short *)
Lemma link_url_refuted :
  exists s, link_unmarshal1 (link_marshal1 s) <> Some (link_normal s).
Proof.
  exists (mkIce (B "stun:h>; rel=""ice-server""x"%string) [] None). vm_compute. discriminate.
Qed.

(* ---- HTTP Authorization ----------------------------------------------------------------------- *)

Lemma http_bearer_app : forall pre l, http_bearer pre = None -> http_bearer (pre ++ l) = http_bearer l.
Proof.
  induction pre as [|a pre IH]; intros l H; [reflexivity|].
  cbn [app http_bearer] in *. destruct (strip_prefix s_bearer_sp a).
  - destruct (split_on c_colon l0) as [|? [|? [|? ?]]]; discriminate.
  - apply IH. exact H.
Qed.

Lemma basic_not_bearer : forall x, strip_prefix s_bearer_sp (s_basic_sp ++ x) = None.
Proof. reflexivity. Qed.

Lemma parse_basic_print : forall u p, Forall is_byte u -> Forall is_byte p -> no_colon u ->
  parse_basic_auth (print_basic u p) = Some (u, p).
Proof.
  intros u p Hu Hp Hc. unfold parse_basic_auth, print_basic.
  set (e := b64_encode (u ++ c_colon :: p)).
  assert (Hlen : (Z.of_nat (List.length (s_basic_sp ++ e)) <? 6) = false).
  { rewrite app_length. change (List.length s_basic_sp) with 6%nat. lia. }
  rewrite Hlen. change (firstn 6 (s_basic_sp ++ e)) with s_basic_sp.
  change (skipn 6 (s_basic_sp ++ e)) with e.
  change (beqb (map ascii_lower s_basic_sp) s_basic_sp_lower) with true. cbn [orb negb].
  unfold e. rewrite b64_decode_encode.
  - apply cut1_app. exact Hc.
  - apply Forall_app. split; [exact Hu|]. constructor; [unfold is_byte, c_colon; lia|exact Hp].
Qed.

Lemma http_basic : forall u p others, Forall is_byte u -> Forall is_byte p -> no_colon u ->
  http_bearer others = None ->
  http_credentials (print_basic u p :: others) = mkCred u p [].
Proof.
  intros u p others Hu Hp Hc Hb. unfold http_credentials. cbn [http_bearer].
  unfold print_basic at 1. rewrite basic_not_bearer, Hb.
  cbn [basic_auth]. unfold print_basic at 1. cbn [app is_nil].
  fold (s_basic_sp ++ b64_encode (u ++ c_colon :: p)). fold (print_basic u p).
  rewrite parse_basic_print by assumption. reflexivity.
Qed.

Lemma http_bearer_pair : forall pre post u p, http_bearer pre = None -> no_colon u -> no_colon p ->
  http_credentials (pre ++ print_bearer_pair u p :: post) = mkCred u p [].
Proof.
  intros pre post u p Hpre Hu Hp. unfold http_credentials.
  rewrite http_bearer_app by exact Hpre. cbn [http_bearer]. unfold print_bearer_pair.
  rewrite strip_prefix_app, split_on_app by exact Hu. rewrite split_on_nosep by exact Hp. reflexivity.
Qed.

Fixpoint count_byte (c : Z) (s : list Z) : Z :=
  match s with [] => 0 | x :: r => (if x =? c then 1 else 0) + count_byte c r end.

Lemma split_on_length : forall sep s, Z.of_nat (List.length (split_on sep s)) = count_byte sep s + 1.
Proof.
  intros sep s. induction s as [|c r IH]; [reflexivity|].
  cbn [split_on count_byte]. destruct (c =? sep).
  - cbn [List.length]. lia.
  - pose proof (split_on_nonnil sep r) as Hne. destruct (split_on sep r) as [|h t]; [contradiction|].
    cbn [List.length] in *. lia.
Qed.

Lemma http_bearer_token : forall pre post t, http_bearer pre = None -> count_byte c_colon t <> 1 ->
  http_credentials (pre ++ print_bearer_token t :: post) = mkCred [] [] t.
Proof.
  intros pre post t Hpre Hc. unfold http_credentials.
  rewrite http_bearer_app by exact Hpre. cbn [http_bearer]. unfold print_bearer_token.
  rewrite strip_prefix_app.
  pose proof (split_on_length c_colon t) as Hl.
  destruct (split_on c_colon t) as [|a [|b [|c r]]]; try reflexivity.
  cbn [List.length] in Hl. lia.
Qed.

(* no Authorization value at all: empty credentials *)
Lemma http_none : http_credentials [] = cred_empty.
Proof. reflexivity. Qed.

(* ---- RTSP Authorization ------------------------------------------------------------------------ *)

Lemma rtsp_basic_partial : forall d u p, Forall is_byte u -> Forall is_byte p -> no_colon u -> no_colon p ->
  rtsp_credentials (rtsp_header_unmarshal d (rtsp_print_basic u p)) = mkCred u p [].
Proof.
  intros d u p Hu Hp Hcu Hcp. unfold rtsp_print_basic, rtsp_header_unmarshal.
  change (s_basic_sp ++ b64_encode (u ++ c_colon :: p)) with (s_basic ++ 32 :: b64_encode (u ++ c_colon :: p)).
  rewrite cut1_app by reflexivity. rewrite beqb_refl.
  rewrite b64_decode_encode.
  - rewrite split_on_app by exact Hcu. rewrite split_on_nosep by exact Hcp. reflexivity.
  - apply Forall_app. split; [exact Hu|]. constructor; [unfold is_byte, c_colon; lia|exact Hp].
Qed.

(* full strength (any password, as RFC 7617 and the HTTP side allow) is false of the gortsplib parser *)
Lemma rtsp_basic_refuted : exists d u p, Forall is_byte u /\ Forall is_byte p /\ no_colon u /\
  rtsp_credentials (rtsp_header_unmarshal d (rtsp_print_basic u p)) <> mkCred u p [].
Proof.
  exists RErr, (B "user"%string), (B "a:b"%string). split; [|split; [|split]].
  - repeat constructor; unfold is_byte; lia.
  - repeat constructor; unfold is_byte; lia.
  - reflexivity.
  - vm_compute. discriminate.
Qed.

Lemma rtsp_digest_user : forall u x, rtsp_credentials (RAuth RDigest u x) = mkCred u [] [].
Proof. reflexivity. Qed.

Lemma rtsp_unparsable_empty : rtsp_credentials RErr = cred_empty.
Proof. reflexivity. Qed.
