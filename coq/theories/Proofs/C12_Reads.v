(* Proofs about the read side of the configuration API (Model/C12_Reads.v). *)
From Coq Require Import List ZArith Bool Lia.
Require Import MTX.Model.C12_ApiEdit MTX.Model.C12_FileReload MTX.Model.C12_Reads.
Require Import MTX.Proofs.C12_ApiEdit MTX.Proofs.C12_FileReload.
Import ListNotations.
Local Open Scope Z_scope.

Section Scribble.
  Variable wr_c : fmap -> fmap.

  Lemma scribble_spec l : forall h, NoDup l -> (forall a, In a l -> (a < length h)%nat) ->
    length (scribble wr_c h l) = length h /\
    (forall a, ~ In a l -> cell (scribble wr_c h l) a = cell h a) /\
    (forall a, In a l -> cell (scribble wr_c h l) a = wr_c (cell h a)).
  Proof.
    induction l as [|x r IH]; intros h Hnd Hb; simpl.
    - repeat split; auto. intros a [].
    - inversion Hnd as [|? ? Hx Hr]; subst.
      assert (Hb' : forall a, In a r -> (a < length (upd x (wr_c (cell h x)) h))%nat)
        by (intros a Ha; rewrite length_upd; apply Hb; now right).
      destruct (IH (upd x (wr_c (cell h x)) h) Hr Hb') as [Hl [Hout Hin]].
      unfold scribble in *. simpl. split; [now rewrite Hl, length_upd|]. split.
      + intros a Ha. rewrite Hout by (intros C; apply Ha; now right).
        apply cell_upd_other. intros ->. apply Ha. now left.
      + intros a [<-|Ha].
        * rewrite Hout by exact Hx. apply cell_upd_same. apply Hb. now left.
        * rewrite Hin by exact Ha. f_equal. apply cell_upd_other. intros ->. contradiction.
  Qed.
End Scribble.

Section Reads.
  Variable name_f : Z.
  Variable wr_g wr_d wr_c : fmap -> fmap.

  (* a GET handler that works on Conf.Clone() of the snapshot: whatever it writes into its copy, the running
     configuration is what it was, and the answer is the running configuration with those writes *)
  Lemma read_world_deep w e w' r : wf w -> read_world name_f Deep wr_g wr_d wr_c w e = (w', r) ->
    wf w' /\ abs w' = abs w /\ r = project name_f (written wr_g wr_d wr_c (abs w)) e.
  Proof.
    intros Hwf. unfold read_world. destruct (clone Deep w) as [h1 c1] eqn:E. intros [= <- <-].
    destruct (clone_deep_spec _ _ _ E) as [Hv [Hwf1 [[x Hx] Hfresh]]].
    destruct Hwf1 as [Hnd1 Hb1].
    destruct (scribble_spec wr_c (addrs c1) h1 Hnd1 Hb1) as [Hl [Hout Hin]].
    destruct Hwf as [Hnd Hb].
    assert (Hkeep : forall a, In a (addrs (live w)) -> cell (scribble wr_c h1 (addrs c1)) a = cell (mem w) a).
    { intros a Ha. rewrite Hout.
      - rewrite Hx. apply cell_app_l. now apply Hb.
      - intros C. apply Hfresh in C. apply Hb in Ha. lia. }
    split; [|split].
    - split; simpl; [exact Hnd|]. intros a Ha. rewrite Hl, Hx, app_length. apply Hb in Ha. lia.
    - unfold abs. simpl. now apply view_stable.
    - f_equal. rewrite <- Hv. unfold written, view_of. simpl. f_equal. rewrite map_map.
      apply map_ext_in. intros [n a] Hi. simpl. f_equal. apply Hin.
      unfold addrs. change a with (snd (n, a)). now apply in_map.
  Qed.

  (* a handler whose copy shares the path cells with the running configuration changes it by reading *)
  Lemma read_world_shallow_refuted :
    exists w e (f : fmap -> fmap), wf w /\
      abs (fst (read_world name_f ShallowIface (fun m => m) (fun m => m) f w e)) <> abs w.
  Proof.
    exists (load {| vg := []; vd := []; vp := [(1, [(2, 3)])] |}), EGlobal, (fun _ => [(2, 9)]).
    split; [apply load_wf|]. vm_compute. discriminate.
  Qed.

  Variable valid : view -> bool.

  Lemma rstep_refines st o st' out : wf_opt st -> rstep name_f Deep wr_g wr_d wr_c valid st o = (st', out) ->
    wf_opt st' /\ (abs_opt st', out) = rspec_step name_f wr_g wr_d wr_c valid (abs_opt st) o.
  Proof.
    intros Hwf. destruct o as [h|e]; simpl.
    - destruct (hstep valid st h) as [st1 o1] eqn:E. intros [= <- <-].
      destruct (hstep_refines valid _ _ _ _ Hwf E) as [Hwf1 H1]. rewrite <- H1. auto.
    - destruct st as [w|]; simpl.
      + destruct (read_world name_f Deep wr_g wr_d wr_c w e) as [w1 r] eqn:E. intros [= <- <-].
        destruct (read_world_deep _ _ _ _ Hwf E) as [Hwf1 [Ha ->]]. simpl. split; [exact Hwf1|]. now rewrite Ha.
      + intros [= <- <-]. simpl. auto.
  Qed.

  Lemma rrun_refines ops : forall st st' outs, wf_opt st ->
    rrun name_f Deep wr_g wr_d wr_c valid st ops = (st', outs) ->
    wf_opt st' /\ (abs_opt st', outs) = rspec_run name_f wr_g wr_d wr_c valid (abs_opt st) ops.
  Proof.
    induction ops as [|o r IH]; intros st st' outs Hwf; simpl.
    - intros [= <- <-]. auto.
    - destruct (rstep name_f Deep wr_g wr_d wr_c valid st o) as [st1 out] eqn:E1.
      destruct (rrun name_f Deep wr_g wr_d wr_c valid st1 r) as [st2 outs2] eqn:E2.
      intros [= <- <-]. destruct (rstep_refines _ _ _ _ Hwf E1) as [Hwf1 H1].
      destruct (IH _ _ _ Hwf1 E2) as [Hwf2 H2]. split; [exact Hwf2|].
      rewrite <- H1. rewrite <- H2. reflexivity.
  Qed.
End Reads.

(* ---- values behind slices / pointers of the global part ------------------------------------------------------------ *)
Lemma length_swrite a v s : length (swrite a v s) = length s.
Proof. revert a; induction s as [|x r IH]; intros [|a]; simpl; auto. Qed.

Lemma sread_swrite_other a b v s : a <> b -> sread (swrite a v s) b = sread s b.
Proof.
  unfold sread. revert a b; induction s as [|x r IH]; intros [|a] [|b] H; simpl; auto; try congruence.
Qed.

Lemma redact_fold_outside red empty l : forall s,
  length (fold_left (redact_at red empty) l s) = length s /\
  forall a, ~ In a l -> sread (fold_left (redact_at red empty) l s) a = sread s a.
Proof.
  induction l as [|x r IH]; intros s; simpl; [auto|].
  destruct (IH (redact_at red empty s x)) as [Hl Ho].
  assert (Hlen : length (redact_at red empty s x) = length s)
    by (unfold redact_at; destruct (sread s x =? empty); [reflexivity|apply length_swrite]).
  split; [now rewrite Hl|]. intros a Ha. rewrite Ho by (intros C; apply Ha; now right).
  unfold redact_at. destruct (sread s x =? empty); [reflexivity|].
  apply sread_swrite_other. intros ->. apply Ha. now left.
Qed.

Lemma sread_app_l s x a : (a < length s)%nat -> sread (s ++ x) a = sread s a.
Proof. intros H. unfold sread. now apply app_nth1. Qed.

(* a handler that redacts a Conf.Clone() leaves every credential of the running configuration as it was *)
Lemma read_creds_clone red empty s locs : (forall a, In a locs -> (a < length s)%nat) ->
  creds (fst (read_creds CClone red empty s locs)) locs = creds s locs.
Proof.
  intros Hb. unfold read_creds, copy_locs, creds. simpl. apply map_ext_in. intros a Ha.
  destruct (redact_fold_outside red empty (seq (length s) (length locs)) (s ++ map (sread s) locs)) as [_ Ho].
  rewrite Ho.
  - apply sread_app_l. now apply Hb.
  - intros C. apply in_seq in C. apply Hb in Ha. lia.
Qed.

(* a handler that redacts a struct copy (shared backing array) overwrites them *)
Lemma read_creds_struct_refuted :
  exists red empty s locs, (forall a, In a locs -> (a < length s)%nat) /\
    creds (fst (read_creds CStruct red empty s locs)) locs <> creds s locs.
Proof.
  exists 9, 0, [0; 5; 7], [0%nat; 1%nat; 2%nat]. split.
  - intros a Ha. simpl in *. lia.
  - vm_compute. discriminate.
Qed.
