(* C40 — proofs about Model/C40_CoreLoop.v: reachable-state invariant, progress, termination measure, the refuted
   variant (the code before 90f555e). *)
From Coq Require Import List Arith Bool Lia.
Require Import MTX.Model.C40_CoreLoop.
Import ListNotations.

Definition waiter (c : co_pc) : option hid :=
  match c with CoAnswer h _ _ | CoRefuse h _ => Some h | _ => None end.
Definition closing (c : co_pc) : bool := match c with CoApiClosing _ | CoRefuse _ _ => true | _ => false end.
Definition past_exit (c : co_pc) : bool :=
  match c with
  | CoWClose | CoCloseRes _ true | CoApiClosing true | CoRefuse _ true | CoRest true | CoDone => true
  | _ => false
  end.
Definition past_wclose (c : co_pc) : bool :=
  match c with
  | CoCloseRes _ true | CoApiClosing true | CoRefuse _ true | CoRest true | CoDone => true
  | _ => false
  end.
Definition api_gone (c : co_pc) : bool := match c with CoRest true | CoDone => true | _ => false end.

Record KInv (s : kstate) : Prop := {
  i_none : forall h, nh s <= h -> hd s h = HdNone;
  i_some : forall h, h < nh s -> hd s h <> HdNone;
  i_wait : forall h, hd s h = HdWait <-> waiter (co s) = Some h;
  i_live : forall h, hd_live (hd s h) = true -> api_up s = true;
  i_ac : ac s = AcNone <-> closing (co s) = false;
  i_acdone : ac s = AcDone -> forall h, hd_live (hd s h) = false;
  i_tr : ac s = AcTracker \/ ac s = AcDone -> tr_open s = false;
  i_exit : past_exit (co s) = true -> kctx s = true /\ wterm s = true;
  i_wterm : wt s = WtDone -> wterm s = true;
  i_finca : forall ca, co s = CoCloseRes ca true -> ca = true;
  i_gone : api_gone (co s) = true -> api_up s = false;
  i_wdone : past_wclose (co s) = true -> wt s = WtDone;
}.

Lemma kinv_init : KInv kinit.
Proof.
  constructor; simpl; try tauto; try discriminate; try (intros; discriminate); try (intros; reflexivity).
  - intros h H. lia.
  - intros h. split; discriminate.
  - intros [H|H]; discriminate.
Qed.

Lemma none_live_spec s : none_live s = true <-> forall h, h < nh s -> hd_live (hd s h) = false.
Proof.
  unfold none_live. rewrite forallb_forall. split.
  - intros H h Hh. specialize (H h). rewrite in_seq in H. specialize (H ltac:(lia)).
    now apply negb_true_iff in H.
  - intros H h Hin. apply in_seq in Hin. apply negb_true_iff. apply H. lia.
Qed.

Lemma hset_same f h v : hset f h v h = v.
Proof. unfold hset. now rewrite Nat.eqb_refl. Qed.
Lemma hset_other f h v x : x <> h -> hset f h v x = f x.
Proof. unfold hset. intros H. apply Nat.eqb_neq in H. now rewrite H. Qed.

(* a handler index that is in some state other than HdNone has been started *)
Lemma live_lt s h : KInv s -> hd s h <> HdNone -> h < nh s.
Proof. intros I H. destruct (le_lt_dec (nh s) h) as [Hle|Hlt]; [|assumption]. now apply (i_none s I) in Hle. Qed.

Ltac hsplit x h :=
  destruct (Nat.eq_dec x h) as [?|?];
  [subst; rewrite ?hset_same in * | rewrite ?hset_other in * by assumption].

Ltac kinv_fields I :=
  pose proof (i_none _ I) as Inone; pose proof (i_some _ I) as Isome; pose proof (i_wait _ I) as Iwait;
  pose proof (i_live _ I) as Ilive; pose proof (i_ac _ I) as Iac; pose proof (i_acdone _ I) as Iacdone;
  pose proof (i_tr _ I) as Itr; pose proof (i_exit _ I) as Iexit; pose proof (i_wterm _ I) as Iwterm;
  pose proof (i_finca _ I) as Ifinca; pose proof (i_gone _ I) as Igone; pose proof (i_wdone _ I) as Iwdone.

(* the generic finisher for one field of the invariant after a step *)
Ltac fin :=
  simpl in *;
  try solve [ tauto | discriminate | congruence | intuition (try discriminate; try congruence; auto) ].

Lemma kinv_step refuse s l s' : KInv s -> kstep refuse s l = Some s' -> KInv s'.
Proof.
  intros I. kinv_fields I. destruct s as [co0 ac0 wt0 hd0 nh0 ctx0 intr0 wterm0 up0 tr0]. simpl in *.
  destruct l; simpl.
  - (* QSpawn *)
    destruct up0, tr0; simpl; try discriminate. intros [= <-].
    assert (Hn : hd0 nh0 = HdNone) by (apply Inone; lia).
    constructor; simpl.
    + intros h Hh. rewrite hset_other by lia. apply Inone. lia.
    + intros h Hh. hsplit h nh0. { destruct k; discriminate. } apply Isome. lia.
    + intros h. hsplit h nh0.
      * split; [destruct k; discriminate|]. intros Hw. apply Iwait in Hw. simpl in Hw. congruence.
      * apply Iwait.
    + reflexivity.
    + exact Iac.
    + intros Ha. specialize (Itr (or_intror Ha)). discriminate.
    + intros Ha. specialize (Itr Ha). discriminate.
    + exact Iexit.
    + exact Iwterm.
    + exact Ifinca.
    + intros Hg. apply Igone in Hg. discriminate.
    + exact Iwdone.
  - (* QFileChanged *)
    destruct wt0; try discriminate. intros [= <-]. constructor; simpl; auto.
    + discriminate.
    + intros Hp. apply Iwdone in Hp. discriminate.
  - (* QInterrupt *)
    intros [= <-]. constructor; simpl; auto.
  - (* QCancel *)
    intros [= <-]. constructor; simpl; auto. intros Hp. destruct (Iexit Hp). auto.
  - (* QHBody *)
    destruct (hd0 h) eqn:Eh; try discriminate. intros [= <-].
    assert (Hlt : h < nh0) by (apply (live_lt _ h I); simpl; congruence).
    constructor; simpl; auto.
    + intros x Hx. rewrite hset_other by lia. auto.
    + intros x Hx. hsplit x h; [destruct ok; discriminate|auto].
    + intros x. hsplit x h; [|apply Iwait]. split; [destruct ok; discriminate|].
      intros Hw. apply Iwait in Hw. simpl in Hw. congruence.
    + intros x. hsplit x h; [|apply Ilive]. intros _. apply (Ilive h). now rewrite Eh.
    + intros Ha x. specialize (Iacdone Ha h). rewrite Eh in Iacdone. discriminate.
  - (* QHEsc *)
    destruct (hd0 h) eqn:Eh; try discriminate. destruct ctx0; try discriminate. intros [= <-].
    constructor; simpl; auto.
    + intros x Hx. hsplit x h; [|auto]. rewrite Inone in Eh by assumption. discriminate.
    + intros x Hx. hsplit x h; [discriminate|auto].
    + intros x. hsplit x h; [|apply Iwait]. split; [discriminate|]. intros Hw. apply Iwait in Hw. simpl in Hw. congruence.
    + intros x. hsplit x h; [|apply Ilive]. intros _. apply (Ilive h). now rewrite Eh.
    + intros Ha x. specialize (Iacdone Ha h). rewrite Eh in Iacdone. discriminate.
  - (* QHRet *)
    destruct (hd0 h) eqn:Eh; try discriminate. intros [= <-].
    constructor; simpl; auto.
    + intros x Hx. hsplit x h; [|auto]. rewrite Inone in Eh by assumption. discriminate.
    + intros x Hx. hsplit x h; [discriminate|auto].
    + intros x. hsplit x h; [|apply Iwait]. split; [discriminate|]. intros Hw. apply Iwait in Hw. simpl in Hw. congruence.
    + intros x. hsplit x h; [discriminate|apply Ilive].
    + intros Ha x. hsplit x h; [reflexivity|auto].
  - (* QCoRecv *)
    destruct co0; try discriminate. destruct (hd0 h) eqn:Eh; try discriminate. simpl. intros [= <-].
    constructor; simpl; auto; try discriminate.
    + intros x Hx. hsplit x h; [|auto]. rewrite Inone in Eh by assumption. discriminate.
    + intros x Hx. hsplit x h; [discriminate|auto].
    + intros x. hsplit x h; [tauto|]. split.
      * intros Hw. apply Iwait in Hw. discriminate.
      * intros [= ->]. contradiction.
    + intros x. hsplit x h; [|apply Ilive]. intros _. apply (Ilive h). now rewrite Eh.
    + intros Ha x. specialize (Iacdone Ha h). rewrite Eh in Iacdone. discriminate.
  - (* QCoAns *)
    destruct co0; try discriminate. destruct (hd0 h) eqn:Eh; try discriminate. simpl. intros [= <-].
    assert (Hac : ac0 = AcNone) by (apply Iac; reflexivity).
    constructor; simpl; auto.
    + intros x Hx. hsplit x h; [|auto]. rewrite Inone in Eh by assumption. discriminate.
    + intros x Hx. hsplit x h; [discriminate|auto].
    + intros x. hsplit x h.
      * split; [discriminate|]. destruct ok; discriminate.
      * split.
        -- intros Hw. apply Iwait in Hw. simpl in Hw. congruence.
        -- destruct ok; discriminate.
    + intros x. hsplit x h; [|apply Ilive]. intros _. apply (Ilive h). now rewrite Eh.
    + destruct ok; simpl; tauto.
    + rewrite Hac. discriminate.
    + destruct ok; simpl; discriminate.
    + destruct ok; intros ca0; discriminate.
    + destruct ok; discriminate.
    + destruct ok; discriminate.
  - (* QCoConf *)
    destruct co0; try discriminate. destruct wt0; try discriminate. intros [= <-].
    constructor; simpl; auto.
    + intros x. rewrite Iwait. simpl. destruct loaded; simpl; tauto.
    + destruct loaded; simpl; tauto.
    + destruct loaded; simpl; discriminate.
    + discriminate.
    + destruct loaded; intros ca0; discriminate.
    + destruct loaded; discriminate.
    + destruct loaded; discriminate.
  - (* QCoIntr *)
    destruct co0; try discriminate. destruct intr0; try discriminate. intros [= <-].
    constructor; simpl; auto; try discriminate.
  - (* QCoCtx *)
    destruct co0; try discriminate. destruct ctx0; try discriminate. intros [= <-].
    constructor; simpl; auto; try discriminate.
  - (* QCoExit *)
    destruct co0; try discriminate. intros [= <-].
    constructor; simpl; auto; try discriminate.
  - (* QCoWClosed *)
    destruct co0; try discriminate. destruct wt0; try discriminate. intros [= <-].
    constructor; simpl; auto; try discriminate.
    intros ca [= ->]. reflexivity.
  - (* QCoCloseApi *)
    destruct co0; try discriminate.
    assert (Hac : ac0 = AcNone) by (apply Iac; reflexivity).
    destruct (up0 && ca) eqn:Eu; intros [= <-].
    + constructor; simpl; auto; try discriminate;
        try solve [split; discriminate | intros [H|H]; discriminate | destruct fin; simpl; auto].
    + constructor; simpl; auto; try discriminate; try solve [destruct fin; simpl; auto].
      destruct fin; simpl; [|discriminate]. intros _. specialize (Ifinca ca eq_refl). subst ca.
      rewrite andb_true_r in Eu. exact Eu.
  - (* QCoRefRecv *)
    destruct co0; try discriminate. destruct refuse; simpl; try discriminate.
    destruct (hd0 h) eqn:Eh; try discriminate. simpl. intros [= <-].
    constructor; simpl; auto; try discriminate.
    + intros x Hx. hsplit x h; [|auto]. rewrite Inone in Eh by assumption. discriminate.
    + intros x Hx. hsplit x h; [discriminate|auto].
    + intros x. hsplit x h; [tauto|]. split.
      * intros Hw. apply Iwait in Hw. discriminate.
      * intros [= ->]. contradiction.
    + intros x. hsplit x h; [|apply Ilive]. intros _. apply (Ilive h). now rewrite Eh.
    + intros Ha x. specialize (Iacdone Ha h). rewrite Eh in Iacdone. discriminate.
  - (* QCoRefAns *)
    destruct co0; try discriminate. destruct (hd0 h) eqn:Eh; try discriminate. simpl. intros [= <-].
    constructor; simpl; auto; try discriminate.
    + intros x Hx. hsplit x h; [|auto]. rewrite Inone in Eh by assumption. discriminate.
    + intros x Hx. hsplit x h; [discriminate|auto].
    + intros x. hsplit x h.
      * split; discriminate.
      * split; [|discriminate]. intros Hw. apply Iwait in Hw. simpl in Hw. congruence.
    + intros x. hsplit x h; [|apply Ilive]. intros _. apply (Ilive h). now rewrite Eh.
    + intros Ha x. specialize (Iacdone Ha h). rewrite Eh in Iacdone. discriminate.
  - (* QCoApiClosed *)
    destruct co0; try discriminate. destruct ac0; try discriminate. intros [= <-].
    specialize (Iacdone eq_refl).
    constructor; simpl; auto; try discriminate;
      try solve [ intros x Hl; rewrite Iacdone in Hl; discriminate | tauto | intros [H|H]; discriminate
                | destruct fin; simpl; auto ].
  - (* QCoRest *)
    destruct co0; try discriminate.
    assert (Hac : ac0 = AcNone) by (apply Iac; reflexivity).
    destruct fin.
    + intros [= <-]. constructor; simpl; auto; try discriminate.
    + destruct created.
      * destruct up0 eqn:Eup.
        -- intros [= <-]. constructor; simpl; auto; try discriminate.
        -- intros [= <-]. constructor; simpl; auto; try discriminate;
             try solve [ intros x Hl; apply Ilive in Hl; discriminate | rewrite Hac; intros [H|H]; discriminate ].
      * intros [= <-]. constructor; simpl; auto; try discriminate.
  - (* QAcShutdown *)
    destruct ac0; try discriminate. intros [= <-].
    constructor; simpl; auto; try discriminate;
      try solve [ split; [discriminate|]; intros Hc; apply Iac in Hc; discriminate ].
  - (* QAcDone *)
    destruct ac0; try discriminate. destruct (none_live _) eqn:En; try discriminate. intros [= <-].
    pose proof (proj1 (none_live_spec _) En) as En'. simpl in En'.
    constructor; simpl; auto; try discriminate;
      try solve [ split; [discriminate|]; intros Hc; apply Iac in Hc; discriminate
                | intros _ x; destruct (le_lt_dec nh0 x) as [Hle|Hlt]; [now rewrite Inone|auto] ].
  - (* QWtTerm *)
    destruct wt0; try discriminate; destruct wterm0; try discriminate; intros [= <-];
      constructor; simpl; auto; try discriminate.
Qed.

Lemma kinv_reachable refuse s : kreachable refuse s -> KInv s.
Proof. induction 1; [exact kinv_init|eapply kinv_step; eauto]. Qed.

Lemma kinv_run refuse ls : forall s s', KInv s -> krun refuse s ls = Some s' -> KInv s'.
Proof.
  induction ls as [|l r IH]; intros s s' I; simpl.
  - now intros [= <-].
  - destruct (kstep refuse s l) as [s1|] eqn:E; [|discriminate]. intros H. eapply IH; [|exact H]. eapply kinv_step; eauto.
Qed.

Lemma kreachable_run refuse ls : forall s s', kreachable refuse s -> krun refuse s ls = Some s' -> kreachable refuse s'.
Proof.
  induction ls as [|l r IH]; intros s s' R; simpl.
  - now intros [= <-].
  - destruct (kstep refuse s l) as [s1|] eqn:E; [|discriminate]. intros H. eapply IH; [|exact H]. econstructor; eauto.
Qed.

Lemma krun_app refuse a : forall s b, krun refuse s (a ++ b) =
  match krun refuse s a with Some s1 => krun refuse s1 b | None => None end.
Proof. induction a as [|l r IH]; intros s b; simpl; [reflexivity|]. destruct (kstep refuse s l); [apply IH|reflexivity]. Qed.

(* ---- the measure decreases at every internal step ------------------------------------------------------------------ *)
Lemma ksum_ext n f g : (forall i, i < n -> f i = g i) -> ksum n f = ksum n g.
Proof. induction n as [|n IH]; intros H; simpl; [reflexivity|]. rewrite IH by (intros; apply H; lia). rewrite H by lia. reflexivity. Qed.

Lemma ksum_hset n f h v : h < n ->
  ksum n (fun x => w_hd (hset f h v x)) + w_hd (f h) = ksum n (fun x => w_hd (f x)) + w_hd v.
Proof.
  induction n as [|n IH]; intros Hh; [lia|]. simpl. destruct (Nat.eq_dec h n) as [->|Hne].
  - rewrite hset_same. rewrite (ksum_ext n (fun x => w_hd (hset f n v x)) (fun x => w_hd (f x))).
    + lia.
    + intros i Hi. rewrite hset_other by lia. reflexivity.
  - rewrite (hset_other f h v n) by lia. specialize (IH ltac:(lia)). lia.
Qed.

Lemma kmeasure_hd s h v : h < nh s -> kmeasure (with_hd s h v) + w_hd (hd s h) = kmeasure s + w_hd v.
Proof. intros Hh. unfold kmeasure, with_hd. simpl. pose proof (ksum_hset (nh s) (hd s) h v Hh). lia. Qed.

Lemma kmeasure_step refuse s l s' :
  KInv s -> kinternal l = true -> kstep refuse s l = Some s' -> kmeasure s' < kmeasure s.
Proof.
  intros I Hint Hs.
  assert (Hlt : forall h, hd s h <> HdNone -> h < nh s) by (intros h; apply live_lt; exact I).
  destruct l; simpl in Hint; try discriminate; simpl in Hs.
  - (* QHBody *)
    destruct (hd s h) eqn:Eh; try discriminate. injection Hs as <-.
    pose proof (kmeasure_hd s h (if ok then HdSend else HdWrite RsBad) ltac:(apply Hlt; congruence)) as M.
    rewrite Eh in M. destruct ok; simpl in M; lia.
  - (* QHEsc *)
    destruct (hd s h) eqn:Eh; try discriminate. destruct (kctx s); try discriminate. injection Hs as <-.
    pose proof (kmeasure_hd s h (HdWrite RsCtx) ltac:(apply Hlt; congruence)) as M. rewrite Eh in M. simpl in M. lia.
  - (* QHRet *)
    destruct (hd s h) eqn:Eh; try discriminate. injection Hs as <-.
    pose proof (kmeasure_hd s h (HdDone r) ltac:(apply Hlt; congruence)) as M. rewrite Eh in M. simpl in M. lia.
  - (* QCoRecv *)
    destruct (co s) eqn:Ec; try discriminate. destruct (hd s h) eqn:Eh; try discriminate. simpl in Hs. injection Hs as <-.
    pose proof (kmeasure_hd s h HdWait ltac:(apply Hlt; congruence)) as M. rewrite Eh in M. simpl in M.
    unfold kmeasure in *. simpl in *. rewrite Ec in M |- *. simpl in *. lia.
  - (* QCoAns *)
    destruct (co s) eqn:Ec; try discriminate. destruct (hd s h) eqn:Eh; try discriminate. simpl in Hs. injection Hs as <-.
    pose proof (kmeasure_hd s h (HdWrite (if ok then RsOk else RsRej)) ltac:(apply Hlt; congruence)) as M.
    rewrite Eh in M. simpl in M. unfold kmeasure in *. simpl in *. rewrite Ec in M |- *. simpl in *.
    destruct ok; simpl in *; lia.
  - (* QCoConf *)
    destruct (co s) eqn:Ec; try discriminate. destruct (wt s) eqn:Ew; try discriminate. injection Hs as <-.
    unfold kmeasure. simpl. rewrite Ec, Ew. destruct loaded; simpl; lia.
  - (* QCoIntr *)
    destruct (co s) eqn:Ec; try discriminate. destruct (intr s); try discriminate. injection Hs as <-.
    unfold kmeasure. simpl. rewrite Ec. simpl. lia.
  - (* QCoCtx *)
    destruct (co s) eqn:Ec; try discriminate. destruct (kctx s); try discriminate. injection Hs as <-.
    unfold kmeasure. simpl. rewrite Ec. simpl. lia.
  - (* QCoExit *)
    destruct (co s) eqn:Ec; try discriminate. injection Hs as <-.
    unfold kmeasure. simpl. rewrite Ec. simpl. lia.
  - (* QCoWClosed *)
    destruct (co s) eqn:Ec; try discriminate. destruct (wt s) eqn:Ew; try discriminate. injection Hs as <-.
    unfold kmeasure. simpl. rewrite Ec, Ew. simpl. lia.
  - (* QCoCloseApi *)
    destruct (co s) eqn:Ec; try discriminate.
    assert (Hac : ac s = AcNone) by (apply (i_ac s I); rewrite Ec; reflexivity).
    destruct (api_up s && ca); injection Hs as <-; unfold kmeasure; simpl; rewrite Ec, Hac; destruct fin; simpl; lia.
  - (* QCoRefRecv *)
    destruct (co s) eqn:Ec; try discriminate. destruct refuse; simpl in Hs; try discriminate.
    destruct (hd s h) eqn:Eh; try discriminate. simpl in Hs. injection Hs as <-.
    pose proof (kmeasure_hd s h HdWait ltac:(apply Hlt; congruence)) as M. rewrite Eh in M. simpl in M.
    unfold kmeasure in *. simpl in *. rewrite Ec in M |- *. destruct fin; simpl in *; lia.
  - (* QCoRefAns *)
    destruct (co s) eqn:Ec; try discriminate. destruct (hd s h) eqn:Eh; try discriminate. simpl in Hs. injection Hs as <-.
    pose proof (kmeasure_hd s h (HdWrite RsRefused) ltac:(apply Hlt; congruence)) as M. rewrite Eh in M. simpl in M.
    unfold kmeasure in *. simpl in *. rewrite Ec in M |- *. destruct fin; simpl in *; lia.
  - (* QCoApiClosed *)
    destruct (co s) eqn:Ec; try discriminate. destruct (ac s) eqn:Ea; try discriminate. injection Hs as <-.
    unfold kmeasure. simpl. rewrite Ec, Ea. destruct fin; simpl; lia.
  - (* QCoRest *)
    destruct (co s) eqn:Ec; try discriminate. destruct fin.
    + injection Hs as <-. unfold kmeasure. simpl. rewrite Ec. simpl. lia.
    + destruct created; [destruct (api_up s)|]; injection Hs as <-; unfold kmeasure; simpl; rewrite Ec; simpl; lia.
  - (* QAcShutdown *)
    destruct (ac s) eqn:Ea; try discriminate. injection Hs as <-. unfold kmeasure. simpl. rewrite Ea. simpl. lia.
  - (* QAcDone *)
    destruct (ac s) eqn:Ea; try discriminate. destruct (none_live s); try discriminate. injection Hs as <-.
    unfold kmeasure. simpl. rewrite Ea. simpl. lia.
  - (* QWtTerm *)
    destruct (wt s) eqn:Ew; try discriminate; destruct (wterm s); try discriminate; injection Hs as <-;
      unfold kmeasure; simpl; rewrite Ew; simpl; lia.
Qed.

(* ---- progress -------------------------------------------------------------------------------------------------------- *)
Definition kcan_step (refuse : bool) (s : kstate) : Prop :=
  exists l s', kinternal l = true /\ kstep refuse s l = Some s'.

Lemma forallb_false_ex {A} (f : A -> bool) l : forallb f l = false -> exists x, In x l /\ f x = false.
Proof.
  induction l as [|a r IH]; simpl; [discriminate|]. destruct (f a) eqn:E; simpl.
  - intros H. destruct (IH H) as [x [Hin Hx]]. eauto.
  - intros _. eauto.
Qed.

Lemma find_live s :
  (exists h, h < nh s /\ hd_live (hd s h) = true) \/ (forall h, h < nh s -> hd_live (hd s h) = false).
Proof.
  destruct (none_live s) eqn:E.
  - right. now apply none_live_spec.
  - left. unfold none_live in E. apply forallb_false_ex in E. destruct E as [h [Hin Hf]].
    apply in_seq in Hin. apply negb_false_iff in Hf. exists h. split; [lia|exact Hf].
Qed.

Lemma not_live_answered s : KInv s -> (forall h, h < nh s -> hd_live (hd s h) = false) -> all_answered s.
Proof.
  intros I H h Hh. specialize (H h Hh). pose proof (i_some s I h Hh) as Hs.
  destruct (hd s h); try discriminate; [contradiction|eauto].
Qed.

Lemma live_handler_step refuse s h : KInv s -> hd_live (hd s h) = true -> waiter (co s) = None ->
  (co s = CoIdle \/ (refuse = true /\ exists fin, co s = CoApiClosing fin)) -> kcan_step refuse s.
Proof.
  intros I Hl Hw Hco. destruct (hd s h) eqn:Eh; try discriminate.
  - exists (QHBody h true). eexists. split; [reflexivity|]. simpl. rewrite Eh. reflexivity.
  - destruct Hco as [Hc|[-> [fin Hc]]].
    + exists (QCoRecv h true true). eexists. split; [reflexivity|]. simpl. rewrite Hc, Eh. reflexivity.
    + exists (QCoRefRecv h). eexists. split; [reflexivity|]. simpl. rewrite Hc, Eh. reflexivity.
  - apply (i_wait s I) in Eh. congruence.
  - exists (QHRet h). eexists. split; [reflexivity|]. simpl. rewrite Eh. reflexivity.
Qed.

Lemma kprogress s : KInv s -> kquiescent s \/ kcan_step true s.
Proof.
  intros I. destruct (co s) eqn:Ec.
  - (* CoIdle *)
    destruct (kctx s) eqn:Ek.
    { right. exists QCoCtx. eexists. split; [reflexivity|]. simpl. rewrite Ec, Ek. reflexivity. }
    destruct (intr s) eqn:Ei.
    { right. exists QCoIntr. eexists. split; [reflexivity|]. simpl. rewrite Ec, Ei. reflexivity. }
    destruct (wt s) eqn:Ew.
    2:{ right. exists (QCoConf true true). eexists. split; [reflexivity|]. simpl. rewrite Ec, Ew. reflexivity. }
    all: destruct (find_live s) as [[h [Hh Hl]]|Hnone];
      [ right; apply (live_handler_step true s h I Hl); [rewrite Ec; reflexivity|left; exact Ec]
      | left; split; [now apply not_live_answered|]; split;
        [apply (i_ac s I); rewrite Ec; reflexivity| right; repeat split; auto; rewrite Ew; discriminate] ].
  - (* CoAnswer *)
    right. assert (Hw : hd s h = HdWait) by (apply (i_wait s I); rewrite Ec; reflexivity).
    exists QCoAns. eexists. split; [reflexivity|]. simpl. rewrite Ec, Hw. reflexivity.
  - (* CoCloseRes *)
    right. exists QCoCloseApi. simpl. rewrite Ec. destruct (api_up s && ca); eexists; split; reflexivity.
  - (* CoApiClosing *)
    right. destruct (ac s) eqn:Ea.
    + apply (i_ac s I) in Ea. rewrite Ec in Ea. discriminate.
    + exists QAcShutdown. eexists. split; [reflexivity|]. simpl. rewrite Ea. reflexivity.
    + destruct (find_live s) as [[h [Hh Hl]]|Hnone].
      * apply (live_handler_step true s h I Hl); [rewrite Ec; reflexivity|right; eauto].
      * exists QAcDone. eexists. split; [reflexivity|]. simpl. rewrite Ea.
        apply none_live_spec in Hnone. rewrite Hnone. reflexivity.
    + exists QCoApiClosed. eexists. split; [reflexivity|]. simpl. rewrite Ec, Ea. reflexivity.
  - (* CoRefuse *)
    right. assert (Hw : hd s h = HdWait) by (apply (i_wait s I); rewrite Ec; reflexivity).
    exists QCoRefAns. eexists. split; [reflexivity|]. simpl. rewrite Ec, Hw. reflexivity.
  - (* CoRest *)
    right. exists (QCoRest true true). simpl. rewrite Ec. destruct fin; [|destruct (api_up s)]; eexists; split; reflexivity.
  - (* CoExit *)
    right. exists QCoExit. eexists. split; [reflexivity|]. simpl. rewrite Ec. reflexivity.
  - (* CoWClose *)
    right. destruct (wt s) eqn:Ew.
    + exists QWtTerm. eexists. split; [reflexivity|]. simpl. rewrite Ew.
      destruct (i_exit s I) as [_ ->]; [rewrite Ec|]; reflexivity.
    + exists QWtTerm. eexists. split; [reflexivity|]. simpl. rewrite Ew.
      destruct (i_exit s I) as [_ ->]; [rewrite Ec|]; reflexivity.
    + exists QCoWClosed. eexists. split; [reflexivity|]. simpl. rewrite Ec, Ew. reflexivity.
  - (* CoDone *)
    left. assert (Hup : api_up s = false) by (apply (i_gone s I); rewrite Ec; reflexivity).
    split; [|split; [apply (i_ac s I); rewrite Ec; reflexivity|left; exact Ec]].
    apply not_live_answered; [exact I|]. intros h _. destruct (hd_live (hd s h)) eqn:El; [|reflexivity].
    apply (i_live s I) in El. congruence.
Qed.

(* a state in which no internal step is enabled is quiescent: whatever the scheduler did before *)
Lemma kstuck_quiescent s : KInv s -> (forall l, kinternal l = true -> kstep true s l = None) -> kquiescent s.
Proof.
  intros I H. destruct (kprogress s I) as [Q|[l [s' [Hi Hs]]]]; [exact Q|]. rewrite (H l Hi) in Hs. discriminate.
Qed.

(* ---- every schedule is finite; quiescence is reached ------------------------------------------------------------------ *)
Lemma kinternal_run_bounded refuse ls : forall s s', KInv s ->
  forallb kinternal ls = true -> krun refuse s ls = Some s' -> length ls + kmeasure s' <= kmeasure s.
Proof.
  induction ls as [|l r IH]; intros s s' I Hall; simpl.
  - intros [= <-]. lia.
  - simpl in Hall. apply andb_true_iff in Hall as [Hl Hr].
    destruct (kstep refuse s l) as [s1|] eqn:E; [|discriminate]. intros H.
    pose proof (kmeasure_step _ _ _ _ I Hl E). pose proof (kinv_step _ _ _ _ I E) as I1.
    specialize (IH _ _ I1 Hr H). lia.
Qed.

Lemma kquiesces_aux n : forall s, kmeasure s <= n -> KInv s ->
  exists ls s', forallb kinternal ls = true /\ krun true s ls = Some s' /\ kquiescent s' /\ nh s' = nh s.
Proof.
  induction n as [|n IH]; intros s Hm I.
  - destruct (kprogress s I) as [Q|[l [s1 [Hi Hs]]]].
    + exists [], s. split; [reflexivity|split; [reflexivity|split; [exact Q|reflexivity]]].
    + pose proof (kmeasure_step _ _ _ _ I Hi Hs). lia.
  - destruct (kprogress s I) as [Q|[l [s1 [Hi Hs]]]].
    + exists [], s. split; [reflexivity|split; [reflexivity|split; [exact Q|reflexivity]]].
    + pose proof (kmeasure_step _ _ _ _ I Hi Hs) as Hlt.
      destruct (IH s1 ltac:(lia) (kinv_step _ _ _ _ I Hs)) as (ls & s' & Hall & Hrun & Q & Hn).
      exists (l :: ls), s'. simpl. rewrite Hi, Hs. split; [exact Hall|split; [exact Hrun|split; [exact Q|]]].
      rewrite Hn. clear - Hi Hs. destruct l; simpl in Hi; try discriminate; simpl in Hs;
        repeat match type of Hs with
               | match ?x with _ => _ end = Some _ => destruct x; try discriminate
               | (if ?x then _ else _) = Some _ => destruct x; try discriminate
               end; try (injection Hs as <-; reflexivity).
Qed.

Lemma kquiesces s : KInv s ->
  exists ls s', forallb kinternal ls = true /\ krun true s ls = Some s' /\ kquiescent s' /\ nh s' = nh s.
Proof. intros I. now apply (kquiesces_aux (kmeasure s)). Qed.

(* ---- shutdown ------------------------------------------------------------------------------------------------------------- *)
Lemma kstep_ctx refuse s l s' : kstep refuse s l = Some s' -> kctx s = true -> kctx s' = true.
Proof.
  intros Hs Hc. destruct l; simpl in Hs;
    repeat match type of Hs with
           | match ?x with _ => _ end = Some _ => destruct x eqn:?; try discriminate
           | (if ?x then _ else _) = Some _ => destruct x eqn:?; try discriminate
           end; try (injection Hs as <-; simpl; auto).
Qed.

Lemma krun_ctx refuse ls : forall s s', krun refuse s ls = Some s' -> kctx s = true -> kctx s' = true.
Proof.
  induction ls as [|l r IH]; intros s s'; simpl; [now intros [= <-]|].
  destruct (kstep refuse s l) as [s1|] eqn:E; [|discriminate]. intros H Hc. eapply IH; eauto. eapply kstep_ctx; eauto.
Qed.

Lemma kquiescent_shutdown s : KInv s -> kquiescent s -> kctx s = true -> kterminated s.
Proof.
  intros I (Ha & Hac & [Hd|(Hc & Hk & _)]) Hctx; [|congruence].
  repeat split; auto.
  - apply (i_wdone s I). rewrite Hd. reflexivity.
  - apply (i_gone s I). rewrite Hd. reflexivity.
Qed.

Lemma kshutdown_any_schedule s ls s' : KInv s -> kctx s = true -> krun true s ls = Some s' ->
  (forall l, kinternal l = true -> kstep true s' l = None) -> kterminated s'.
Proof.
  intros I Hc Hrun Hstuck. pose proof (kinv_run _ _ _ _ I Hrun) as I'.
  apply kquiescent_shutdown; auto; [now apply kstuck_quiescent|]. eapply krun_ctx; eauto.
Qed.

(* every started request is answered: from any reachable state some schedule of internal steps returns all of them,
   and no schedule can avoid it for ever (kinternal_run_bounded + kstuck_quiescent) *)
Lemma kevery_request_answered s : KInv s ->
  exists ls s', forallb kinternal ls = true /\ krun true s ls = Some s' /\
                forall h, h < nh s -> exists r, hd s' h = HdDone r.
Proof.
  intros I. destruct (kquiesces s I) as (ls & s' & Hall & Hrun & (Ha & _) & Hn).
  exists ls, s'. split; [exact Hall|split; [exact Hrun|]]. intros h Hh. apply Ha. lia.
Qed.

(* ---- the code before 90f555e (refuse = false) ------------------------------------------------------------------------ *)
(* two configuration requests; the first is accepted and its configuration needs a new API server; after the answer
   Core.run goes into api.Close(): Shutdown returns (time-out: the connection of the second request is not idle), the
   tracker waits for the handler of the second request, which waits for Core.run *)
Definition kstuck_trace : list klabel :=
  [QSpawn KdEdit; QSpawn KdEdit; QHBody 0 true; QHBody 1 true; QCoRecv 0 true true; QCoAns; QHRet 0; QCoCloseApi;
   QAcShutdown].

Definition kstuck : kstate :=
  Eval vm_compute in match krun false kinit kstuck_trace with Some s => s | None => kinit end.

Lemma kstuck_run : krun false kinit kstuck_trace = Some kstuck.
Proof. vm_compute. reflexivity. Qed.

Lemma kstuck_reachable : kreachable false kstuck.
Proof. eapply kreachable_run; [apply kreach_init|exact kstuck_run]. Qed.

Lemma kstuck_shape :
  co kstuck = CoApiClosing false /\ ac kstuck = AcTracker /\ hd kstuck 0 = HdDone RsOk /\ hd kstuck 1 = HdSend /\
  kctx kstuck = false /\ nh kstuck = 2.
Proof. vm_compute. repeat split. Qed.

Lemma kstuck_not_quiescent : ~ kquiescent kstuck.
Proof. intros [Ha _]. destruct (Ha 1 ltac:(vm_compute; lia)) as [r Hr]. vm_compute in Hr. discriminate. Qed.

Lemma kstuck_no_step : forall l, kinternal l = true -> kstep false kstuck l = None.
Proof.
  intros l Hi. destruct l; simpl in Hi; try discriminate; try reflexivity.
  - destruct h as [|[|h]]; reflexivity.
  - destruct h as [|[|h]]; reflexivity.
  - destruct h as [|[|h]]; reflexivity.
Qed.

(* the same schedule with the refusal: the second request is answered "terminated", api.Close() returns, the
   resources are re-created and Core.run is back in its select *)
Definition kunstuck_trace : list klabel :=
  kstuck_trace ++ [QCoRefRecv 1; QCoRefAns; QHRet 1; QAcDone; QCoApiClosed; QCoRest true true].

Lemma kunstuck :
  match krun true kinit kunstuck_trace with
  | Some s => co s = CoIdle /\ hd s 0 = HdDone RsOk /\ hd s 1 = HdDone RsRefused /\ ac s = AcNone /\ api_up s = true
              /\ tr_open s = true
  | None => False
  end.
Proof. vm_compute. repeat split. Qed.
