(* Proofs about the rtph265 encoder model (Model/C23_RtpH265.v): payload size bound, totality, sequence
   numbers / SSRC / timestamps. The round trip is in C23_RtpH265Rt.v. *)
From Coq Require Import List ZArith Bool Lia Arith.
Require Import MTX.Lib.IntWrap MTX.Model.C23_RtpH264 MTX.Model.C23_RtpH265.
Require Import MTX.Proofs.C23_RtpH264 MTX.Proofs.C23_RtpH264Seq.
Import ListNotations.
Local Open Scope Z_scope.

Lemma inl_ok_inj {A B} (x y : A) : @inl (res A) B (Ok x) = inl (Ok y) -> x = y.
Proof. intros H. injection H as H. exact H. Qed.

Lemma len_agg5_snoc batch n : len_agg5 (batch ++ [n]) None = len_agg5 batch (Some n).
Proof. unfold len_agg5. rewrite len_agg_list_app. cbn [len_agg_list]. lia. Qed.

Lemma concat_stap_blen nalus : blen (concat (map stap_entry nalus)) = len_agg_list nalus.
Proof.
  induction nalus as [|n r IH]; [reflexivity|].
  cbn [map concat]. rewrite blen_app, IH. unfold stap_entry. rewrite !blen_cons. cbn [len_agg_list]. lia.
Qed.

Lemma agg5_payload_len nalus : blen (agg5_payload nalus) = len_agg5 nalus None.
Proof.
  unfold agg5_payload, len_agg5. destruct (min_ids nalus 255 255) as [layer tid].
  rewrite !blen_cons, concat_stap_blen. lia.
Qed.

(* ------------------------------------------------------------------ size bound *)

Lemma frag5_loop_fits k avail h0 h1 typ start marker body e :
  (length body <= k * avail)%nat ->
  Forall (fits (Z.of_nat avail + 3)) (fst (frag5_loop k avail h0 h1 typ start marker body e)).
Proof.
  revert start body e. induction k as [|k IH]; intros start body e Hlen; [constructor|].
  cbn [frag5_loop].
  destruct (frag5_loop k avail h0 h1 typ 0 marker
              (skipn (if match k with O => true | S _ => false end then length body else avail) body) (bump e))
    as [r e'] eqn:Er.
  cbn [fst]. constructor.
  - unfold fits. cbn [p_payload]. rewrite !blen_cons. unfold blen. rewrite firstn_length.
    destruct k; lia.
  - specialize (IH 0 (skipn (if match k with O => true | S _ => false end then length body else avail) body) (bump e)).
    rewrite Er in IH. apply IH. rewrite skipn_length. destruct k; lia.
Qed.

Lemma write_fragmented5_fits e nalu marker pkts e' :
  4 <= e.(e_max) -> write_fragmented5 e nalu marker = Ok (pkts, e') -> Forall (fits e.(e_max)) pkts.
Proof.
  intros Hmax. unfold write_fragmented5.
  destruct (e_max e - 3 <=? 0) eqn:E; [discriminate|]. apply Z.leb_gt in E.
  remember (blen nalu - 2) as le eqn:Hle0.
  destruct nalu as [|b0 [|b1 body]]; [discriminate|discriminate|]. intros H. injection H as H1.
  rewrite !blen_cons in Hle0.
  pose proof (packet_count_spec (e_max e - 3) le ltac:(lia)
                ltac:(pose proof (blen_nonneg body); lia)) as (Hle & _ & Hpc).
  set (pc := packet_count (e_max e - 3) le) in *.
  match type of H1 with frag5_loop ?k ?a ?i ?j ?t ?s ?m ?bd ?ee = _ =>
    pose proof (frag5_loop_fits k a i j t s m bd ee) as HF end.
  rewrite H1 in HF. cbn [fst] in HF.
  replace (Z.of_nat (Z.to_nat (e_max e - 3)) + 3) with (e_max e) in HF by lia.
  apply HF. unfold blen in Hle0.
  assert (Hpc' : Z.of_nat (Z.to_nat pc) = pc) by (apply Z2Nat.id; exact Hpc).
  assert (Hav : Z.of_nat (Z.to_nat (e_max e - 3)) = e_max e - 3) by (apply Z2Nat.id; lia).
  apply Nat2Z.inj_le. rewrite Nat2Z.inj_mul, Hpc', Hav. lia.
Qed.

Definition batch5_ok (max : Z) (batch : list bytes) : Prop :=
  (length batch = 1)%nat \/ len_agg5 batch None <= max.

Lemma write_batch5_fits e batch marker pkts e' :
  4 <= e.(e_max) -> batch5_ok e.(e_max) batch ->
  write_batch5 e batch marker = inl (Ok (pkts, e')) -> Forall (fits e.(e_max)) pkts.
Proof.
  intros Hmax Hok. unfold write_batch5.
  assert (Hagg : forall b, len_agg5 b None <= e_max e ->
            write_aggregated5 e b marker = inl (Ok (pkts, e')) -> Forall (fits (e_max e)) pkts).
  { intros b Hl. unfold write_aggregated5. destruct (existsb _ b); [discriminate|].
    intros H. apply inl_ok_inj, pair_equal_spec in H. destruct H as [H _]. subst pkts.
    constructor; [|constructor]. unfold fits. cbn [p_payload]. rewrite agg5_payload_len. exact Hl. }
  destruct batch as [|n [|n2 r]].
  - destruct Hok as [Hl|Hl]; [simpl in Hl; lia|]. apply Hagg, Hl.
  - destruct (blen n <? e_max e) eqn:E.
    + intros H. apply inl_ok_inj in H. unfold write_single in H. apply pair_equal_spec in H. destruct H as [H _].
      subst pkts. constructor; [|constructor]. unfold fits. cbn. apply Z.ltb_lt in E. lia.
    + intros H. injection H as H. eapply write_fragmented5_fits; eassumption.
  - destruct Hok as [Hl|Hl]; [simpl in Hl; lia|]. apply Hagg, Hl.
Qed.

(* ------------------------------------------------------------------ sequence numbers, SSRC, timestamps *)

Lemma frag5_loop_post k avail h0 h1 typ start marker body e :
  enc_post e (fst (frag5_loop k avail h0 h1 typ start marker body e))
             (snd (frag5_loop k avail h0 h1 typ start marker body e))
  /\ length (fst (frag5_loop k avail h0 h1 typ start marker body e)) = k.
Proof.
  revert start body e. induction k as [|k IH]; intros start body e.
  - cbn. unfold enc_post. cbn. repeat split; constructor.
  - cbn [frag5_loop].
    match goal with |- context [frag5_loop k ?a ?b ?b' ?c ?d ?m ?bd ?ee] =>
      specialize (IH d bd ee); destruct (frag5_loop k a b b' c d m bd ee) as [r0 e1] end.
    cbn [fst snd] in *. destruct IH as [(A1 & A2 & A3 & A4 & A5) AL]. unfold enc_post. cbn [seq_chain length adv p_seq].
    cbn [bump e_seq e_max e_ssrc] in *. repeat split; try assumption; try congruence;
      try (constructor; [cbn; split; reflexivity|exact A3]); try (cbn [length]; congruence).
Qed.

Lemma write_batch5_post e batch marker pkts e' :
  write_batch5 e batch marker = inl (Ok (pkts, e')) -> enc_post e pkts e'.
Proof.
  assert (Hone : forall m pl, enc_post e [mkpkt (e_seq e) 0 m (e_ssrc e) pl] (bump e)).
  { intros. unfold enc_post. cbn. repeat split; try reflexivity. constructor; [split; reflexivity|constructor]. }
  assert (Hagg : forall b, write_aggregated5 e b marker = inl (Ok (pkts, e')) -> enc_post e pkts e').
  { intros b. unfold write_aggregated5. destruct (existsb _ b); [discriminate|].
    intros H. apply inl_ok_inj, pair_equal_spec in H. destruct H; subst. apply Hone. }
  unfold write_batch5. destruct batch as [|n [|n2 r]]; [apply Hagg| |apply Hagg].
  destruct (blen n <? e_max e).
  - unfold write_single. intros H. apply inl_ok_inj, pair_equal_spec in H. destruct H; subst. apply Hone.
  - unfold write_fragmented5. destruct (e_max e - 3 <=? 0); [discriminate|].
    destruct n as [|b0 [|b1 body]]; [discriminate|discriminate|]. intros H. apply inl_ok_inj in H.
    match type of H with frag5_loop ?k ?a ?i ?j ?t ?s ?m ?bd ?ee = _ =>
      pose proof (frag5_loop_post k a i j t s m bd ee) as [HP _] end.
    rewrite H in HP. exact HP.
Qed.

Lemma enc5_loop_post : forall au e batch pkts e',
  enc5_loop e au batch = inl (Ok (pkts, e')) -> enc_post e pkts e'.
Proof.
  induction au as [|nalu r IH]; intros e batch pkts e'.
  - cbn [enc5_loop]. apply write_batch5_post.
  - cbn [enc5_loop]. match goal with |- context [if ?c then _ else _] => destruct c end.
    + apply IH.
    + destruct batch as [|b0 br]; [apply IH|].
      destruct (write_batch5 e (b0 :: br) false) as [[[pk1 e1]|]|?] eqn:E1; try discriminate.
      destruct (enc5_loop e1 r [nalu]) as [[[pk2 e2]|]|?] eqn:E2; try discriminate.
      intros H. apply inl_ok_inj, pair_equal_spec in H. destruct H; subst.
      eapply enc_post_app; [eapply write_batch5_post; exact E1|eapply IH; exact E2].
Qed.

Theorem h265_encode_post e au pkts e' : h265_encode e au = inl (Ok (pkts, e')) -> enc_post e pkts e'.
Proof. apply enc5_loop_post. Qed.

Theorem h265_encode_seq e au pkts e' :
  0 <= e.(e_seq) < 65536 -> h265_encode e au = inl (Ok (pkts, e')) ->
  (forall i d, (i < length pkts)%nat -> p_seq (nth i pkts d) = (e.(e_seq) + Z.of_nat i) mod 65536)
  /\ e'.(e_seq) = (e.(e_seq) + Z.of_nat (length pkts)) mod 65536
  /\ (forall p, In p pkts -> p.(p_ssrc) = e.(e_ssrc) /\ p.(p_ts) = 0).
Proof.
  intros Hs H. apply h265_encode_post in H. destruct H as (A1 & A2 & A3 & _ & _).
  split; [|split].
  - intros i d Hi. rewrite (seq_chain_nth _ _ A1 i d Hi). apply adv_closed. exact Hs.
  - rewrite A2. apply adv_closed. exact Hs.
  - rewrite Forall_forall in A3. exact A3.
Qed.

Lemma h265_encode_run_post : forall aus e pkss e',
  h265_encode_run e aus = Some (pkss, e') -> enc_post e (concat pkss) e'.
Proof.
  induction aus as [|au r IH]; intros e pkss e'.
  - cbn. intros H. injection H as <- <-. unfold enc_post. cbn. repeat split; constructor.
  - cbn [h265_encode_run].
    destruct (h265_encode e au) as [[[pk1 e1]|]|?] eqn:E1; try discriminate.
    destruct (h265_encode_run e1 r) as [[rest e2]|] eqn:E2; [|discriminate].
    intros H. injection H as <- <-. cbn [concat].
    eapply enc_post_app; [eapply h265_encode_post; exact E1|eapply IH; exact E2].
Qed.

Theorem h265_encode_run_seq e aus pkss e' :
  0 <= e.(e_seq) < 65536 -> h265_encode_run e aus = Some (pkss, e') ->
  forall i d, (i < length (concat pkss))%nat ->
    p_seq (nth i (concat pkss) d) = (e.(e_seq) + Z.of_nat i) mod 65536.
Proof.
  intros Hs H i d Hi. apply h265_encode_run_post in H. destruct H as (A1 & _).
  rewrite (seq_chain_nth _ _ A1 i d Hi). apply adv_closed. exact Hs.
Qed.

(* ------------------------------------------------------------------ size, whole access unit *)

Lemma enc5_loop_fits : forall au e batch pkts e',
  4 <= e.(e_max) -> batch = [] \/ batch5_ok e.(e_max) batch ->
  enc5_loop e au batch = inl (Ok (pkts, e')) -> Forall (fits e.(e_max)) pkts.
Proof.
  induction au as [|nalu r IH]; intros e batch pkts e' Hmax Hok.
  - cbn [enc5_loop]. destruct Hok as [->|Hok].
    + (* the empty access unit: a two-byte aggregation packet *)
      cbn. intros H. apply inl_ok_inj, pair_equal_spec in H. destruct H as [H _]. subst pkts.
      constructor; [|constructor]. unfold fits. cbn. lia.
    + apply write_batch5_fits; assumption.
  - cbn [enc5_loop]. destruct (len_agg5 batch (Some nalu) <=? e_max e) eqn:E.
    + apply IH; [assumption|]. right. right. rewrite len_agg5_snoc. apply Z.leb_le. exact E.
    + destruct batch as [|b0 br].
      * apply IH; [assumption|]. right. left. reflexivity.
      * destruct Hok as [Hok|Hok]; [discriminate|].
        destruct (write_batch5 e (b0 :: br) false) as [[[pk1 e1]|]|?] eqn:E1; try discriminate.
        destruct (enc5_loop e1 r [nalu]) as [[[pk2 e2]|]|?] eqn:E2; try discriminate.
        intros H. apply inl_ok_inj, pair_equal_spec in H. destruct H; subst.
        pose proof (write_batch5_post _ _ _ _ _ E1) as (_ & _ & _ & Hm & _).
        apply Forall_app. split.
        -- eapply write_batch5_fits; eassumption.
        -- rewrite <- Hm. eapply IH; [rewrite Hm; assumption| |exact E2]. right. left. reflexivity.
Qed.

Theorem h265_encode_size e au pkts e' :
  4 <= e.(e_max) -> h265_encode e au = inl (Ok (pkts, e')) ->
  forall p, In p pkts -> blen p.(p_payload) <= e.(e_max).
Proof.
  intros Hmax H p Hin. unfold h265_encode in H.
  pose proof (enc5_loop_fits au e [] pkts e' Hmax (or_introl eq_refl) H) as HF.
  rewrite Forall_forall in HF. exact (HF p Hin).
Qed.

(* ------------------------------------------------------------------ totality *)

Definition len2 (n : bytes) : Prop := 2 <= blen n.

Lemma existsb_short_false batch : Forall len2 batch -> existsb (fun n => blen n <? 2) batch = false.
Proof.
  induction 1 as [|n r Hn _ IH]; [reflexivity|]. cbn [existsb]. rewrite IH.
  unfold len2 in Hn. destruct (blen n <? 2) eqn:E; [apply Z.ltb_lt in E; lia|reflexivity].
Qed.

Lemma write_batch5_total e batch marker :
  4 <= e.(e_max) -> Forall len2 batch -> exists r, write_batch5 e batch marker = inl (Ok r).
Proof.
  intros Hmax Hall. unfold write_batch5.
  assert (Hagg : exists r, write_aggregated5 e batch marker = inl (Ok r)).
  { unfold write_aggregated5. rewrite (existsb_short_false _ Hall). eexists; reflexivity. }
  destruct batch as [|n [|n2 r]]; try exact Hagg.
  destruct (blen n <? e_max e) eqn:E; [eexists; reflexivity|]. apply Z.ltb_ge in E.
  unfold write_fragmented5. destruct (e_max e - 3 <=? 0) eqn:E2; [apply Z.leb_le in E2; lia|].
  inversion Hall as [|? ? Hn _]; subst. unfold len2 in Hn.
  destruct n as [|b0 [|b1 body]]; [cbn in Hn; lia|cbn in Hn; lia|eexists; reflexivity].
Qed.

Lemma enc5_loop_total : forall au e batch,
  4 <= e.(e_max) -> Forall len2 batch -> Forall len2 au -> exists r, enc5_loop e au batch = inl (Ok r).
Proof.
  induction au as [|nalu r IH]; intros e batch Hmax Hb Ha.
  - cbn [enc5_loop]. apply write_batch5_total; assumption.
  - inversion Ha as [|? ? Hn Hr]; subst.
    cbn [enc5_loop]. match goal with |- context [if ?c then _ else _] => destruct c end.
    + apply IH; try assumption. apply Forall_app. split; [assumption|constructor; [assumption|constructor]].
    + destruct batch as [|b0 br].
      * apply IH; try assumption. constructor; [assumption|constructor].
      * destruct (write_batch5_total e (b0 :: br) false Hmax Hb) as [[pk1 e1] E1]. rewrite E1.
        pose proof (write_batch5_post _ _ _ _ _ E1) as (_ & _ & _ & Hm & _).
        destruct (IH e1 [nalu] ltac:(lia) ltac:(constructor; [assumption|constructor]) Hr) as [[pk2 e2] E2].
        rewrite E2. eexists; reflexivity.
Qed.

(* the encoder neither fails nor returns an error when PayloadMaxSize >= 4 and every NAL unit has its
   two-byte header *)
Theorem h265_encode_total e au :
  4 <= e.(e_max) -> Forall len2 au -> exists pkts e', h265_encode e au = inl (Ok (pkts, e')).
Proof.
  intros Hmax Ha. destruct (enc5_loop_total au e [] Hmax ltac:(constructor) Ha) as [[pk e'] H].
  exists pk, e'. exact H.
Qed.
