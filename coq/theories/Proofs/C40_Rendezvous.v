(* Proofs for C40: reachable-state invariant of the rendezvous model, progress (no deadlock), a measure that every
   internal step decreases (hence quiescence / shutdown termination), and the refutation of the variant without the
   pa.ctx.Done() escape branches. *)
From Coq Require Import List Arith Bool Lia.
Require Import MTX.Model.C40_Rendezvous.
Import ListNotations.

(* ---- small libraries -------------------------------------------------------------------------------------------- *)

Lemma upd_same {A} (f : nat -> A) i v : upd f i v i = v.
Proof. unfold upd. now rewrite Nat.eqb_refl. Qed.

Lemma upd_other {A} (f : nat -> A) i j v : j <> i -> upd f i v j = f j.
Proof. unfold upd. intros H. destruct (Nat.eqb_spec j i); congruence. Qed.

Lemma memb_In c l : memb c l = true <-> In c l.
Proof.
  unfold memb. rewrite existsb_exists. split.
  - intros [x [Hx He]]. apply Nat.eqb_eq in He. now subst.
  - intros H. exists c. split; [exact H|apply Nat.eqb_refl].
Qed.

Lemma memb_false c l : memb c l = false <-> ~ In c l.
Proof. rewrite <- memb_In. destruct (memb c l); split; congruence. Qed.

Lemma nodupb_NoDup l : nodupb l = true <-> NoDup l.
Proof.
  induction l as [|c r IH]; simpl.
  - split; [constructor|reflexivity].
  - rewrite andb_true_iff, negb_true_iff, memb_false, IH. split.
    + intros [H1 H2]. now constructor.
    + intros H. inversion H; subst. now split.
Qed.

Lemma minus_In x l a : In x (minus l a) <-> In x l /\ ~ In x a.
Proof. unfold minus. rewrite filter_In, negb_true_iff, memb_false. tauto. Qed.

Lemma NoDup_app2 {A} (l1 l2 : list A) :
  NoDup l1 -> NoDup l2 -> (forall x, In x l1 -> ~ In x l2) -> NoDup (l1 ++ l2).
Proof.
  induction l1 as [|a r IH]; simpl; intros H1 H2 H; [exact H2|].
  inversion H1; subst. constructor.
  - rewrite in_app_iff. intros [Hi|Hi]; [tauto|]. apply (H a); auto.
  - apply IH; auto.
Qed.

Lemma NoDup_app_l {A} (l1 l2 : list A) : NoDup (l1 ++ l2) -> NoDup l1.
Proof.
  induction l1 as [|a r IH]; simpl; intros H; [constructor|].
  inversion H; subst. constructor; [|auto]. rewrite in_app_iff in *. tauto.
Qed.

Lemma NoDup_app_r {A} (l1 l2 : list A) : NoDup (l1 ++ l2) -> NoDup l2.
Proof. induction l1 as [|a r IH]; simpl; intros H; [exact H|]. inversion H; auto. Qed.

Lemma NoDup_snoc {A} (l : list A) c : NoDup l -> ~ In c l -> NoDup (l ++ [c]).
Proof.
  intros H1 H2. apply NoDup_app2; auto.
  - constructor; [intros []|constructor].
  - intros x Hx [He|[]]. subst. tauto.
Qed.

(* the callers waiting for an answer of a path after a request (or a timer) was taken with script sc *)
Lemma serve_In w sc x :
  forallb (fun c => memb c w) (answers sc) = true ->
  (In x (minus w (answers sc) ++ answers sc) <-> In x w).
Proof.
  intros Hs. rewrite forallb_forall in Hs. rewrite in_app_iff, minus_In. split.
  - intros [[H _]|H]; [exact H|]. apply memb_In. now apply Hs.
  - intros H. destruct (memb x (answers sc)) eqn:E.
    + right. now apply memb_In.
    + left. split; [exact H|]. now apply memb_false.
Qed.

Lemma serve_NoDup w sc :
  NoDup w -> nodupb (answers sc) = true -> NoDup (minus w (answers sc) ++ answers sc).
Proof.
  intros Hw Ha. apply NoDup_app2.
  - unfold minus. now apply NoDup_filter.
  - now apply nodupb_NoDup.
  - intros x Hx. apply minus_In in Hx. tauto.
Qed.

Lemma sum_upto_ext n f g : (forall i, i < n -> f i = g i) -> sum_upto n f = sum_upto n g.
Proof.
  induction n as [|k IH]; simpl; intros H; [reflexivity|].
  rewrite IH, H; auto.
Qed.

Lemma sum_upto_upd_out {A} n (f : nat -> A) (w : A -> nat) i v :
  n <= i -> sum_upto n (fun j => w (upd f i v j)) = sum_upto n (fun j => w (f j)).
Proof. intros H. apply sum_upto_ext. intros j Hj. rewrite upd_other; [reflexivity|lia]. Qed.

Lemma sum_upto_upd_in {A} n (f : nat -> A) (w : A -> nat) i v :
  i < n -> sum_upto n (fun j => w (upd f i v j)) + w (f i) = sum_upto n (fun j => w (f j)) + w v.
Proof.
  induction n as [|k IH]; simpl; intros H; [lia|].
  destruct (Nat.eq_dec i k) as [->|Hne].
  - rewrite upd_same. rewrite sum_upto_upd_out by lia. lia.
  - rewrite (upd_other f i k) by congruence. assert (Hi : i < k) by lia. specialize (IH Hi). lia.
Qed.

Lemma in_mid_iff {A} (x c : A) h r : x <> c -> (In x (h ++ c :: r) <-> In x (h ++ r)).
Proof. intros Hne. rewrite !in_app_iff. simpl. split; intros [H|H]; auto. destruct H; [congruence|auto]. Qed.

(* ---- the invariant ------------------------------------------------------------------------------------------------ *)

(* the caller whose request the path manager is processing *)
Definition pm_owner (x : pm_pc) : option cid :=
  match x with PmHandle c | PmAnswer c _ => Some c | _ => None end.

(* the path a caller refers to *)
Definition c_ref (c : c_pc) : option pid :=
  match c with
  | CAtPa p | CWaitPa p | CDone (DPaTerm p) | CDone (DPaTermAns p) => Some p
  | _ => None
  end.
Definition pm_ref (x : pm_pc) : option pid :=
  match x with PmAnswer _ (RPath p) => Some p | _ => None end.

Definition waiting (x : path_st) : list cid := held x ++ answers (script x).

Record Inv (s : state) : Prop := {
  I_nc : forall c, nc s <= c -> callers s c = CNone;
  I_nc2 : forall c, c < nc s -> callers s c <> CNone;
  I_np : forall p, np s <= p -> paths s p = dead_path;
  I_pmh : forall c, callers s c = CWaitPm <-> pm_owner (pm s) = Some c;
  I_wait : forall c p, callers s c = CWaitPa p <-> In c (waiting (paths s p));
  I_nodup : forall p, NoDup (waiting (paths s p));
  I_script : forall p, ppc (paths s p) <> PaRun -> script (paths s p) = [];
  I_held : forall p, ppc (paths s p) = PaTNotReady \/ ppc (paths s p) = PaDead -> held (paths s p) = [];
  I_term : forall p, ppc (paths s p) <> PaRun -> pa_done s p = true;
  I_ret : forall c p, callers s c = CDone (DPaTerm p) \/ callers s c = CDone (DPaTermAns p) -> pa_done s p = true;
  I_ref : forall c p, c_ref (callers s c) = Some p -> p < np s;
  I_pmref : forall p, pm_ref (pm s) = Some p -> p < np s;
  I_retpm : forall c, callers s c = CDone DPmTerm -> pm_ctx s = true;
  I_pmwait : forall p ps, pm s = PmWait p ps -> pctx (paths s p) = true;
  I_done : pm s = PmDone -> pm_ctx s = true;
  I_cl : pm_ctx s = true <-> closer s <> ClIdle;
}.

Lemma inv_init : Inv init.
Proof.
  constructor; simpl; intros; try reflexivity; try lia; try discriminate; try (now constructor).
  all: try (split; [discriminate|]).
  all: try (intros [H|[r H]]; discriminate).
  all: try (intros []).
  all: try (destruct H; discriminate).
  all: try congruence.
Qed.

(* inversion of `step _ s l = Some s'`: case analysis on everything the step function looks at *)
Ltac step_inv H :=
  repeat match type of H with
         | context [match ?x with _ => _ end] => destruct x eqn:?; try discriminate H
         end;
  try (injection H as H; subst).

Ltac simp_state :=
  unfold set_pm, set_caller, set_path, pa_done, pa_escape, waiting, new_path, is_dead in *;
  cbn [pm_ctx pm np paths nc callers closer ppc pctx held script with_pc with_ctx with_script with_held
       answers pm_calls app pm_owner c_ref pm_ref] in *.

Ltac upd_cases :=
  unfold upd in *;
  repeat match goal with
         | |- context [Nat.eqb ?a ?b] => destruct (Nat.eqb_spec a b); subst
         | H : context [Nat.eqb ?a ?b] |- _ => destruct (Nat.eqb_spec a b); subst
         end.

Ltac easy_fields HI :=
  destruct HI as [Hnc Hnc2 Hnp Hpmh Hwait Hnodup Hscript Hheld Hterm Hret Href Hpmref Hretpm Hpmwait Hdone Hcl].

Ltac rew_pm :=
  repeat match goal with
         | H : pm ?s = _ |- _ =>
             progress (try rewrite H in *)
         end.

Ltac iff_solve :=
  let Hx := fresh "Hx" in
  split; intros Hx;
  try discriminate Hx; try congruence;
  match goal with
  | Hpmh : forall c, callers ?s c = CWaitPm <-> _, Hwait : forall c p, callers ?s c = CWaitPa p <-> _ |- _ =>
      try (apply Hwait in Hx; congruence);
      try (apply Hpmh in Hx; simp_state; congruence);
      try (apply Hwait; exact Hx);
      try (apply Hpmh; simp_state; congruence)
  end.

Ltac use_bounds :=
  try (match goal with
       | Hnc : forall c, nc ?s <= c -> callers ?s c = CNone, H : _ <= ?c |- _ =>
           let Hb := fresh in assert (Hb : nc s <= c) by lia; specialize (Hnc c Hb); congruence
       end);
  try (match goal with
       | Hnp : forall p, np ?s <= p -> paths ?s p = dead_path, H : _ <= ?p |- _ =>
           let Hb := fresh in assert (Hb : np s <= p) by lia;
           specialize (Hnp p Hb); rewrite Hnp in *; simpl in *; solve [congruence | reflexivity | auto]
       end).

Ltac path_facts :=
  try match goal with
  | Hnodup : forall p, NoDup (waiting (paths ?s p)), Hwait : forall c p, callers ?s c = CWaitPa p <-> _,
    Hp : ppc (paths ?s ?p) = _ |- _ =>
       let Hnd := fresh "Hnd" in let Hw := fresh "Hw" in
       pose proof (Hnodup p) as Hnd; pose proof (fun c => Hwait c p) as Hw; unfold waiting in Hnd, Hw;
       repeat match goal with Hs : script (paths s p) = _ |- _ => rewrite Hs in Hnd, Hw end;
       repeat match goal with Hs : held (paths s p) = _ |- _ => rewrite Hs in Hnd, Hw end;
       cbn [answers app] in Hnd, Hw; try rewrite app_nil_r in Hnd, Hw
  end.

Ltac auto_inv0 :=
  rew_pm;
  constructor; simp_state; rew_pm; simp_state; intros; upd_cases; simp_state; eauto; try lia; try congruence;
  use_bounds; try iff_solve; try solve [intuition congruence];
  try (match goal with Hscript : forall p, ppc _ <> PaRun -> _ |- script _ = [] => apply Hscript; congruence end);
  try (match goal with Hterm : forall p, ppc _ <> PaRun -> _ = true |- _ || _ = true => apply Hterm; congruence end);
  try (match goal with |- _ < S _ => apply Nat.lt_lt_succ_r; solve [eauto] end);
  try (match goal with
       | Href : forall c p, c_ref (callers ?s c) = Some p -> p < np ?s, Hc : callers ?s ?c = _ |- ?p < np ?s =>
           apply (Href c); rewrite Hc; simp_state; congruence
       end).

Ltac auto_inv HI := easy_fields HI; auto_inv0.

Lemma inv_spawn esc s k s' : Inv s -> step esc s (LSpawn k) = Some s' -> Inv s'.
Proof.
  intros HI H. simpl in H. step_inv H. easy_fields HI.
  assert (Hn : callers s (nc s) = CNone) by (apply Hnc; lia).
  constructor; simp_state; intros; upd_cases; eauto; try lia; try congruence.
  - apply Hnc; lia.
  - apply Hnc2; lia.
  - split; [discriminate|]. intros Hx. apply Hpmh in Hx. congruence.
  - split; [discriminate|]. intros Hx. apply Hwait in Hx. congruence.
  - destruct H; discriminate.
  - discriminate.
Qed.

Lemma inv_spawnat esc s p s' : Inv s -> step esc s (LSpawnAt p) = Some s' -> Inv s'.
Proof.
  intros HI H. simpl in H. step_inv H. easy_fields HI.
  assert (Hn : callers s (nc s) = CNone) by (apply Hnc; lia).
  constructor; simp_state; intros; upd_cases; simp_state; eauto; try lia; try congruence.
  - apply Hnc; lia.
  - apply Hnc2; lia.
  - split; [discriminate|]. intros Hx. apply Hpmh in Hx. congruence.
  - split; [discriminate|]. intros Hx. apply Hwait in Hx. congruence.
  - destruct H; discriminate.
  - injection H as <-. now apply Nat.ltb_lt.
Qed.

Lemma inv_create esc s isc s' : Inv s -> step esc s (LCreate isc) = Some s' -> Inv s'.
Proof.
  intros HI H. simpl in H. step_inv H. all: auto_inv HI.
  all: try match goal with Ha : answers _ = [] |- _ => rewrite Ha in * end.
  all: try (apply Hwait in Hx; rewrite (Hnp (np s)) in Hx by lia; destruct Hx).
  all: try (destruct Hx).
  all: try (constructor).
  all: exfalso; assert (Hlt : np s < np s); [|lia];
    destruct H as [H|H]; apply (Href c); rewrite H; reflexivity.
Qed.

Lemma inv_cancel esc s s' : Inv s -> step esc s LCancel = Some s' -> Inv s'.
Proof. intros HI H. simpl in H. step_inv H. auto_inv HI. Qed.

Lemma inv_pmrecv esc s c s' : Inv s -> step esc s (LPmRecv c) = Some s' -> Inv s'.
Proof. intros HI H. simpl in H. step_inv H. all: auto_inv HI. Qed.

Lemma inv_pmhandled esc s h s' : Inv s -> step esc s (LPmHandled h) = Some s' -> Inv s'.
Proof.
  intros HI H. simpl in H. step_inv H. all: auto_inv HI.
  - injection H as <-. now apply Nat.ltb_lt.
  - apply Hwait in Hx. rewrite (Hnp (np s)) in Hx by lia. destruct Hx.
  - rewrite Heql in Hx. destruct Hx.
  - rewrite Heql. constructor.
  - exfalso. assert (Hlt : np s < np s); [|lia].
    destruct H as [H|H]; apply (Href c0); rewrite H; reflexivity.
  - injection H as <-. lia.
Qed.

Lemma inv_pmans esc s  s' : Inv s -> step esc s (LPmAns) = Some s' -> Inv s'.
Proof. intros HI H. simpl in H. step_inv H. all: auto_inv HI. Qed.

Lemma inv_pmreload esc s c s' : Inv s -> step esc s (LPmReload c) = Some s' -> Inv s'.
Proof. intros HI H. simpl in H. step_inv H. all: auto_inv HI. Qed.

Lemma inv_pmclosehd esc s  s' : Inv s -> step esc s (LPmCloseHd) = Some s' -> Inv s'.
Proof. intros HI H. simpl in H. step_inv H. all: auto_inv HI. Qed.

Lemma inv_pmcloseend esc s  s' : Inv s -> step esc s (LPmCloseEnd) = Some s' -> Inv s'.
Proof. intros HI H. simpl in H. step_inv H. all: auto_inv HI. Qed.

Lemma inv_pmwaitdone esc s  s' : Inv s -> step esc s (LPmWaitDone) = Some s' -> Inv s'.
Proof. intros HI H. simpl in H. step_inv H. all: auto_inv HI. Qed.

Lemma inv_pmstop esc s  s' : Inv s -> step esc s (LPmStop) = Some s' -> Inv s'.
Proof. intros HI H. simpl in H. step_inv H. all: auto_inv HI. Qed.

Lemma inv_cescpm esc s c s' : Inv s -> step esc s (LCEscPm c) = Some s' -> Inv s'.
Proof. intros HI H. simpl in H. step_inv H. all: auto_inv HI. Qed.

Lemma inv_cescpa esc s c s' : Inv s -> step esc s (LCEscPa c) = Some s' -> Inv s'.
Proof. intros HI H. simpl in H. step_inv H. all: auto_inv HI. Qed.

Lemma inv_timer esc s p sc s' : Inv s -> step esc s (LTimer p sc) = Some s' -> Inv s'.
Proof.
  intros HI H. simpl in H. step_inv H. all: easy_fields HI; path_facts; auto_inv0.
  all: unfold wf_script in Heqb; apply andb_true_iff in Heqb; destruct Heqb as [Hb Hcnt];
    apply andb_true_iff in Hb; destruct Hb as [Hndb Hincl].
  - apply serve_In; auto. now apply Hw.
  - apply Hw. apply serve_In in Hx; auto.
  - apply serve_NoDup; auto.
Qed.

Lemma inv_parecv esc s c sc s' : Inv s -> step esc s (LPaRecv c sc) = Some s' -> Inv s'.
Proof.
  intros HI H. simpl in H. step_inv H. all: easy_fields HI; path_facts; auto_inv0.
  all: unfold wf_script in Heqb; apply andb_true_iff in Heqb; destruct Heqb as [Hb Hcnt];
    apply andb_true_iff in Hb; destruct Hb as [Hndb Hincl].
  all: assert (Hnotin : ~ In c (held (paths s p))) by (intros Hi; apply Hw in Hi; congruence).
  - apply serve_In; auto. apply in_app_iff. right. now left.
  - apply serve_In; auto. apply in_app_iff. left. now apply Hw.
  - apply serve_In in Hx; auto. apply in_app_iff in Hx. destruct Hx as [Hx|[Hx|[]]]; [now apply Hw|congruence].
  - apply serve_NoDup; auto. apply NoDup_snoc; auto.
Qed.

Lemma inv_paans esc s p s' : Inv s -> step esc s (LPaAns p) = Some s' -> Inv s'.
Proof.
  intros HI H. simpl in H. step_inv H. all: easy_fields HI; path_facts; auto_inv0.
  - exfalso. apply NoDup_remove_2 in Hnd. contradiction.
  - apply Hw in Hx. apply in_mid_iff in Hx; auto.
  - apply Hw. apply in_mid_iff; auto.
  - now apply NoDup_remove_1 in Hnd.
Qed.

Lemma inv_papm esc s p cl s' : Inv s -> step esc s (LPaPm p cl) = Some s' -> Inv s'.
Proof.
  intros HI H. simpl in H. step_inv H. all: easy_fields HI; path_facts; auto_inv0.
Qed.

Lemma inv_papmesc esc s p s' : Inv s -> step esc s (LPaPmEsc p) = Some s' -> Inv s'.
Proof.
  intros HI H. simpl in H. step_inv H. all: easy_fields HI; path_facts; auto_inv0.
Qed.

Lemma inv_pactx esc s p s' : Inv s -> step esc s (LPaCtx p) = Some s' -> Inv s'.
Proof.
  intros HI H. simpl in H. step_inv H. all: easy_fields HI; path_facts; auto_inv0.
Qed.

Lemma inv_patrempm esc s p s' : Inv s -> step esc s (LPaTRemPm p) = Some s' -> Inv s'.
Proof.
  intros HI H. simpl in H. step_inv H. all: easy_fields HI; path_facts; auto_inv0.
Qed.

Lemma inv_patremesc esc s p s' : Inv s -> step esc s (LPaTRemEsc p) = Some s' -> Inv s'.
Proof.
  intros HI H. simpl in H. step_inv H. all: easy_fields HI; path_facts; auto_inv0.
Qed.

Lemma inv_patans esc s p s' : Inv s -> step esc s (LPaTAns p) = Some s' -> Inv s'.
Proof.
  intros HI H. simpl in H. step_inv H. all: easy_fields HI; path_facts; auto_inv0.
  - exfalso. inversion Hnd; subst. contradiction.
  - apply Hw in Hx. destruct Hx as [Hx|Hx]; [congruence|exact Hx].
  - apply Hw. right. exact Hx.
  - inversion Hnd; auto.
Qed.

Lemma inv_patfin esc s p nr s' : Inv s -> step esc s (LPaTFin p nr) = Some s' -> Inv s'.
Proof.
  intros HI H. simpl in H. step_inv H. all: easy_fields HI; path_facts; auto_inv0.
Qed.

Lemma inv_patnrpm esc s p s' : Inv s -> step esc s (LPaTNrPm p) = Some s' -> Inv s'.
Proof.
  intros HI H. simpl in H. step_inv H. all: easy_fields HI; path_facts; auto_inv0.
Qed.

Lemma inv_patnresc esc s p s' : Inv s -> step esc s (LPaTNrEsc p) = Some s' -> Inv s'.
Proof.
  intros HI H. simpl in H. step_inv H. all: easy_fields HI; path_facts; auto_inv0.
Qed.

Lemma inv_cldone esc s  s' : Inv s -> step esc s (LClDone) = Some s' -> Inv s'.
Proof.
  intros HI H. simpl in H. step_inv H. all: easy_fields HI; path_facts; auto_inv0.
Qed.

Lemma inv_step esc s l s' : Inv s -> step esc s l = Some s' -> Inv s'.
Proof.
  intros HI H. destruct l.
  - eapply inv_spawn; eauto.
  - eapply inv_spawnat; eauto.
  - eapply inv_create; eauto.
  - eapply inv_timer; eauto.
  - eapply inv_cancel; eauto.
  - eapply inv_pmrecv; eauto.
  - eapply inv_pmhandled; eauto.
  - eapply inv_pmans; eauto.
  - eapply inv_pmreload; eauto.
  - eapply inv_pmclosehd; eauto.
  - eapply inv_pmcloseend; eauto.
  - eapply inv_pmwaitdone; eauto.
  - eapply inv_pmstop; eauto.
  - eapply inv_cescpm; eauto.
  - eapply inv_cescpa; eauto.
  - eapply inv_parecv; eauto.
  - eapply inv_paans; eauto.
  - eapply inv_papm; eauto.
  - eapply inv_papmesc; eauto.
  - eapply inv_pactx; eauto.
  - eapply inv_patrempm; eauto.
  - eapply inv_patremesc; eauto.
  - eapply inv_patans; eauto.
  - eapply inv_patfin; eauto.
  - eapply inv_patnrpm; eauto.
  - eapply inv_patnresc; eauto.
  - eapply inv_cldone; eauto.
Qed.

Lemma inv_reachable esc s : reachable esc s -> Inv s.
Proof. induction 1; [apply inv_init|eapply inv_step; eauto]. Qed.

Lemma inv_run esc ls : forall s s', Inv s -> run esc s ls = Some s' -> Inv s'.
Proof.
  induction ls as [|l r IH]; simpl; intros s s' HI H.
  - now injection H as <-.
  - destruct (step esc s l) eqn:E; [|discriminate]. eapply IH; [|exact H]. eapply inv_step; eauto.
Qed.

Lemma reachable_run esc ls : forall s s', reachable esc s -> run esc s ls = Some s' -> reachable esc s'.
Proof.
  induction ls as [|l r IH]; simpl; intros s s' HR H.
  - now injection H as <-.
  - destruct (step esc s l) eqn:E; [|discriminate]. eapply IH; [|exact H]. eapply reach_step; eauto.
Qed.

(* ---- the measure ------------------------------------------------------------------------------------------------ *)

Lemma caller_lt s c : Inv s -> callers s c <> CNone -> c < nc s.
Proof. intros HI H. destruct (le_lt_dec (nc s) c) as [Hle|]; [|assumption]. now apply (I_nc s HI) in Hle. Qed.

Lemma path_lt s p : Inv s -> ppc (paths s p) <> PaDead -> p < np s.
Proof.
  intros HI H. destruct (le_lt_dec (np s) p) as [Hle|]; [|assumption].
  apply (I_np s HI) in Hle. rewrite Hle in H. now elim H.
Qed.

Lemma measure_set_pm s x : measure (set_pm s x) + w_pm (pm s) = measure s + w_pm x.
Proof. unfold measure, set_pm; simpl. lia. Qed.

Lemma measure_set_caller s c x :
  c < nc s -> measure (set_caller s c x) + w_caller (callers s c) = measure s + w_caller x.
Proof.
  intros H. unfold measure, set_caller; simpl.
  pose proof (sum_upto_upd_in (nc s) (callers s) w_caller c x H). lia.
Qed.

Lemma measure_set_path s p x :
  p < np s -> measure (set_path s p x) + w_path (paths s p) = measure s + w_path x.
Proof.
  intros H. unfold measure, set_path; simpl.
  pose proof (sum_upto_upd_in (np s) (paths s) w_path p x H). lia.
Qed.

Lemma measure_set_path_same s p x : w_path x = w_path (paths s p) -> measure (set_path s p x) = measure s.
Proof.
  intros Hw. unfold measure, set_path; simpl. f_equal. f_equal. f_equal.
  apply sum_upto_ext. intros i _. unfold upd. destruct (Nat.eqb_spec i p); subst; auto.
Qed.

Lemma wf_script_calls w sc : wf_script w sc = true -> pm_calls sc <= 3.
Proof.
  unfold wf_script, max_pm_calls. intros H. apply andb_true_iff in H. destruct H as [_ H]. now apply Nat.leb_le in H.
Qed.

Ltac msr :=
  repeat match goal with
         | |- context [measure (set_pm ?s ?x)] =>
             let H := fresh in pose proof (measure_set_pm s x) as H; revert H; generalize (measure (set_pm s x))
         | |- context [measure (set_caller ?s ?c ?x)] =>
             let H := fresh in
             assert (H : measure (set_caller s c x) + w_caller (callers s c) = measure s + w_caller x)
               by (apply measure_set_caller; simpl; apply caller_lt; [assumption|simpl; congruence]);
             revert H; generalize (measure (set_caller s c x))
         | |- context [measure (set_path ?s ?p ?x)] =>
             let H := fresh in
             assert (H : measure (set_path s p x) + w_path (paths s p) = measure s + w_path x)
               by (apply measure_set_path; simpl; apply path_lt; [assumption|simpl; congruence]);
             revert H; generalize (measure (set_path s p x))
         end.

Ltac rew_eqs :=
  repeat match goal with
         | H : callers _ _ = _ |- _ => rewrite H in *; clear H
         | H : pm _ = _ |- _ => rewrite H in *; clear H
         | H : ppc (paths _ _) = _ |- _ => rewrite H in *; clear H
         | H : script (paths _ _) = _ |- _ => rewrite H in *; clear H
         | H : held (paths _ _) = _ |- _ => rewrite H in *; clear H
         | H : closer _ = _ |- _ => rewrite H in *; clear H
         end.

Lemma measure_step esc s l s' :
  Inv s -> internal l = true -> step esc s l = Some s' -> measure s' < measure s.
Proof.
  intros HI Hint H. destruct l; try discriminate Hint; clear Hint; simpl in H; step_inv H.
  all: try (match goal with H : wf_script _ _ = true |- _ => apply wf_script_calls in H end).
  all: try (msr; intros; simp_state; unfold w_path in *; simp_state; rew_eqs; simpl in *; lia).
  - (* createPath *)
    unfold measure; cbn [pm_ctx pm np paths nc callers closer sum_upto].
    rewrite sum_upto_upd_out by lia. rewrite upd_same. rewrite Heqp.
    generalize (sum_upto (np s) (fun j => w_path (paths s j))).
    generalize (sum_upto (nc s) (fun c0 => w_caller (callers s c0))). intros a b.
    apply Nat.leb_le in Heqb. unfold max_pm_calls in Heqb.
    unfold w_path, new_path; cbn [ppc script w_pm]. lia.
  - (* pa.close() *)
    rewrite measure_set_path_same by reflexivity.
    pose proof (measure_set_pm s (PmWait p l)) as Hm. rewrite Heqp in Hm. cbn [w_pm length] in Hm. lia.
  - destruct k; msr; intros; rew_eqs; simpl in *; lia.
  - unfold measure; simpl. rewrite Heqc. simpl. lia.
Qed.

(* ---- progress ----------------------------------------------------------------------------------------------------- *)

Definition can_step (s : state) : Prop := exists l s', internal l = true /\ step true s l = Some s'.

Lemma bounded_search (P : nat -> Prop) n :
  (forall i, P i \/ ~ P i) -> (forall i, i < n -> P i) \/ (exists i, i < n /\ ~ P i).
Proof.
  intros Hdec. induction n as [|k IH].
  - left. intros i Hi. lia.
  - destruct IH as [IH|[i [Hi Hn]]].
    + destruct (Hdec k) as [Hk|Hk].
      * left. intros i Hi. destruct (Nat.eq_dec i k); [subst; auto|apply IH; lia].
      * right. exists k. split; [lia|auto].
    + right. exists i. split; [lia|auto].
Qed.

Lemma pa_quiet_dec s p : pa_quiet s p \/ ~ pa_quiet s p.
Proof.
  unfold pa_quiet. destruct (ppc (paths s p)); try (right; intros [[H _]|H]; discriminate).
  - destruct (script (paths s p)); [|right; intros [[_ [H _]]|H]; discriminate].
    destruct (pa_done s p); [right; intros [[_ [_ H]]|H]; discriminate|left; left; auto].
  - left; right; reflexivity.
Qed.

Lemma c_quiet_dec s c : c_quiet s c \/ ~ c_quiet s c.
Proof.
  unfold c_quiet. destruct (callers s c); try (left; exact I); try (right; intros []).
  destruct (in_dec Nat.eq_dec c (held (paths s p))); [left|right]; auto.
Qed.

Ltac do_step l :=
  exists l; eexists; split; [reflexivity|]; simpl; simp_state;
  repeat match goal with
         | H : _ = _ |- _ => rewrite H
         end; simpl; try rewrite Nat.eqb_refl; try reflexivity.

Lemma path_step s p :
  Inv s -> pm s = PmIdle \/ pm_ctx s = true \/ pctx (paths s p) = true -> ~ pa_quiet s p -> can_step s.
Proof.
  intros HI Hpm Hnq. unfold pa_quiet in Hnq.
  assert (Hesc : pm s = PmIdle \/ pa_escape true s p = true).
  { unfold pa_escape. destruct Hpm as [H|[H|H]]; [left; auto|right; rewrite H; auto|right; rewrite H; simpl; apply orb_true_r]. }
  clear Hpm.
  destruct (ppc (paths s p)) eqn:Epc.
  - destruct (script (paths s p)) as [|[c|k] sc] eqn:Esc.
    + destruct (pa_done s p) eqn:Ed; [|exfalso; apply Hnq; left; auto].
      exists (LPaCtx p). eexists. split; [reflexivity|]. simpl. rewrite Epc, Esc, Ed. reflexivity.
    + assert (Hc : callers s c = CWaitPa p).
      { apply (I_wait s HI). unfold waiting. rewrite Esc. simpl. apply in_app_iff. right. now left. }
      exists (LPaAns p). eexists. split; [reflexivity|]. simpl. rewrite Epc, Esc, Hc, Nat.eqb_refl. reflexivity.
    + destruct Hesc as [Hi|He].
      * exists (LPaPm p false). eexists. split; [reflexivity|]. simpl. rewrite Epc, Esc, Hi. reflexivity.
      * exists (LPaPmEsc p). eexists. split; [reflexivity|]. simpl. rewrite Epc, Esc, He. reflexivity.
  - destruct Hesc as [Hi|He].
    + exists (LPaTRemPm p). eexists. split; [reflexivity|]. simpl. rewrite Epc, Hi. reflexivity.
    + exists (LPaTRemEsc p). eexists. split; [reflexivity|]. simpl. rewrite Epc, He. reflexivity.
  - destruct (held (paths s p)) as [|c r] eqn:Eh.
    + exists (LPaTFin p false). eexists. split; [reflexivity|]. simpl. rewrite Epc, Eh. reflexivity.
    + assert (Hc : callers s c = CWaitPa p).
      { apply (I_wait s HI). unfold waiting. rewrite Eh. now left. }
      exists (LPaTAns p). eexists. split; [reflexivity|]. simpl. rewrite Epc, Eh, Hc, Nat.eqb_refl. reflexivity.
  - destruct Hesc as [Hi|He].
    + exists (LPaTNrPm p). eexists. split; [reflexivity|]. simpl. rewrite Epc, Hi. reflexivity.
    + exists (LPaTNrEsc p). eexists. split; [reflexivity|]. simpl. rewrite Epc, He. reflexivity.
  - exfalso. apply Hnq. right. reflexivity.
Qed.

Lemma caller_step s c :
  Inv s -> pm s = PmIdle \/ pm s = PmDone -> (forall p, pa_quiet s p) -> ~ c_quiet s c -> can_step s.
Proof.
  intros HI Hpm Hq Hnq. unfold c_quiet in Hnq.
  destruct (callers s c) as [|k| |p|p|r] eqn:Ec; try (exfalso; apply Hnq; exact I).
  - destruct Hpm as [Hi|Hd].
    + destruct k as [|ps].
      * exists (LPmRecv c). eexists. split; [reflexivity|]. simpl. rewrite Hi, Ec. reflexivity.
      * exists (LPmReload c). eexists. split; [reflexivity|]. simpl. rewrite Hi, Ec. reflexivity.
    + pose proof (I_done s HI Hd) as Hctx.
      exists (LCEscPm c). eexists. split; [reflexivity|]. simpl. rewrite Ec, Hctx. reflexivity.
  - exfalso. apply (I_pmh s HI) in Ec. destruct Hpm as [H|H]; rewrite H in Ec; discriminate.
  - destruct (Hq p) as [[Hpc [Hsc Hd]]|Hdead].
    + exists (LPaRecv c []). eexists. split; [reflexivity|]. simpl. rewrite Ec, Hpc, Hsc. reflexivity.
    + assert (Hd : pa_done s p = true).
      { apply (I_term s HI). congruence. }
      exists (LCEscPa c). eexists. split; [reflexivity|]. simpl. rewrite Ec, Hd. reflexivity.
  - exfalso. apply Hnq. apply (I_wait s HI) in Ec. unfold waiting in Ec.
    destruct (Hq p) as [[Hpc [Hsc Hd]]|Hdead].
    + rewrite Hsc in Ec. simpl in Ec. now rewrite app_nil_r in Ec.
    + rewrite (I_held s HI p), (I_script s HI p) in Ec by (auto; congruence). destruct Ec.
Qed.

Lemma all_paths_quiet s : Inv s -> (forall p, p < np s -> pa_quiet s p) -> forall p, pa_quiet s p.
Proof.
  intros HI H p. destruct (le_lt_dec (np s) p) as [Hle|Hlt]; [|auto].
  right. now rewrite (I_np s HI p Hle).
Qed.

Lemma all_callers_quiet s : Inv s -> (forall c, c < nc s -> c_quiet s c) -> forall c, c_quiet s c.
Proof.
  intros HI H c. destruct (le_lt_dec (nc s) c) as [Hle|Hlt]; [|auto].
  unfold c_quiet. now rewrite (I_nc s HI c Hle).
Qed.

Lemma progress s : Inv s -> quiescent s \/ can_step s.
Proof.
  intros HI. destruct (pm s) as [|c|c r|ps|p ps|] eqn:Epm.
  - (* main select *)
    destruct (pm_ctx s) eqn:Ectx.
    { right. exists LPmStop. eexists. split; [reflexivity|]. simpl. rewrite Epm, Ectx. reflexivity. }
    destruct (bounded_search (pa_quiet s) (np s) (pa_quiet_dec s)) as [Hpq|[p [_ Hp]]];
      [|right; eapply path_step; eauto].
    pose proof (all_paths_quiet s HI Hpq) as Hpq'.
    destruct (bounded_search (c_quiet s) (nc s) (c_quiet_dec s)) as [Hcq|[c [_ Hc]]];
      [|right; eapply caller_step; eauto].
    left. repeat split; auto.
    + left. auto.
    + apply all_callers_quiet; auto.
    + intros Hcl. assert (Hx : pm_ctx s = true) by (apply (I_cl s HI); congruence). congruence.
  - right. exists (LPmHandled HErr). eexists. split; [reflexivity|]. simpl. rewrite Epm. reflexivity.
  - right. assert (Hc : callers s c = CWaitPm) by (apply (I_pmh s HI); rewrite Epm; reflexivity).
    exists LPmAns. eexists. split; [reflexivity|]. simpl. rewrite Epm, Hc. reflexivity.
  - right. destruct ps as [|p ps].
    + exists LPmCloseEnd. eexists. split; [reflexivity|]. simpl. rewrite Epm. reflexivity.
    + exists LPmCloseHd. eexists. split; [reflexivity|]. simpl. rewrite Epm. reflexivity.
  - (* pa.wait() *)
    right. pose proof (I_pmwait s HI p ps Epm) as Hctx.
    destruct (ppc (paths s p)) eqn:Epc;
      try (apply (path_step s p HI); [auto|];
           unfold pa_quiet, pa_done; rewrite Epc, Hctx, orb_true_r; intros [[H1 [H2 H3]]|H1]; discriminate).
    exists LPmWaitDone. eexists. split; [reflexivity|]. simpl. rewrite Epm. unfold is_dead. rewrite Epc. reflexivity.
  - (* the path manager has terminated *)
    pose proof (I_done s HI Epm) as Ectx.
    destruct (bounded_search (pa_quiet s) (np s) (pa_quiet_dec s)) as [Hpq|[p [_ Hp]]];
      [|right; eapply path_step; eauto].
    pose proof (all_paths_quiet s HI Hpq) as Hpq'.
    destruct (bounded_search (c_quiet s) (nc s) (c_quiet_dec s)) as [Hcq|[c [_ Hc]]];
      [|right; eapply caller_step; eauto].
    destruct (closer s) eqn:Ecl.
    + exfalso. apply (I_cl s HI) in Ectx. congruence.
    + right. exists LClDone. eexists. split; [reflexivity|]. simpl. rewrite Ecl, Epm.
      assert (Hall : forallb (fun p => is_dead (paths s p)) (seq 0 (np s)) = true).
      { apply forallb_forall. intros p _. unfold is_dead.
        destruct (Hpq' p) as [[_ [_ Hd]]|Hd]; [|now rewrite Hd].
        unfold pa_done in Hd. rewrite Ectx in Hd. discriminate. }
      rewrite Hall. reflexivity.
    + left. repeat split; auto.
      * right. exact Epm.
      * apply all_callers_quiet; auto.
      * unfold cl_quiet. congruence.
Qed.

(* ---- consequences -------------------------------------------------------------------------------------------------- *)

Definition all_internal (ls : list label) : bool := forallb internal ls.

(* every schedule of internal steps is finite: at most `measure s` steps *)
Lemma internal_run_bounded ls : forall s s',
  Inv s -> all_internal ls = true -> run true s ls = Some s' -> length ls + measure s' <= measure s.
Proof.
  induction ls as [|l r IH]; simpl; intros s s' HI Hint H.
  - injection H as <-. lia.
  - apply andb_true_iff in Hint. destruct Hint as [Hl Hr].
    destruct (step true s l) as [s1|] eqn:E; [|discriminate].
    pose proof (measure_step true s l s1 HI Hl E) as Hm.
    specialize (IH s1 s' (inv_step true s l s1 HI E) Hr H). lia.
Qed.

(* ... and some schedule of internal steps reaches a quiescent state *)
Lemma quiesces_aux n : forall s, measure s <= n -> Inv s ->
  exists ls s', all_internal ls = true /\ run true s ls = Some s' /\ quiescent s'.
Proof.
  induction n as [|n IH]; intros s Hm HI.
  - destruct (progress s HI) as [Hq|[l [s1 [Hl E]]]].
    + exists [], s. split; [reflexivity|split; [reflexivity|exact Hq]].
    + pose proof (measure_step true s l s1 HI Hl E). lia.
  - destruct (progress s HI) as [Hq|[l [s1 [Hl E]]]].
    + exists [], s. split; [reflexivity|split; [reflexivity|exact Hq]].
    + pose proof (measure_step true s l s1 HI Hl E) as Hlt.
      destruct (IH s1) as [ls [s' [Hi [Hr Hq]]]]; [lia|eapply inv_step; eauto|].
      exists (l :: ls), s'. split; [|split; [|exact Hq]].
      * simpl. now rewrite Hl, Hi.
      * simpl. now rewrite E.
Qed.

Lemma quiesces s : Inv s ->
  exists ls s', all_internal ls = true /\ run true s ls = Some s' /\ quiescent s' /\ length ls <= measure s.
Proof.
  intros HI. destruct (quiesces_aux (measure s) s (le_n _) HI) as [ls [s' [Hi [Hr Hq]]]].
  exists ls, s'. split; [exact Hi|split; [exact Hr|split; [exact Hq|]]].
  pose proof (internal_run_bounded ls s s' HI Hi Hr). lia.
Qed.

Lemma quiescent_shutdown s : Inv s -> quiescent s -> pm_ctx s = true -> all_terminated s.
Proof.
  intros HI [Hpm [Hpa [Hc Hcl]]] Hctx.
  assert (Hdead : forall p, ppc (paths s p) = PaDead).
  { intros p. destruct (Hpa p) as [[_ [_ Hd]]|Hd]; [|exact Hd]. unfold pa_done in Hd. rewrite Hctx in Hd. discriminate. }
  repeat split.
  - destruct Hpm as [[_ H]|H]; [congruence|exact H].
  - exact Hdead.
  - intros c Hlt. specialize (Hc c). unfold c_quiet in Hc. pose proof (I_nc2 s HI c Hlt) as Hne.
    destruct (callers s c) eqn:Ec; try contradiction; try congruence.
    + rewrite (I_held s HI p) in Hc by auto. destruct Hc.
    + eauto.
  - unfold cl_quiet in Hcl. apply (I_cl s HI) in Hctx. destruct (closer s); congruence.
Qed.

Lemma step_nc esc s l s' : step esc s l = Some s' -> nc s <= nc s'.
Proof. intros H. destruct l; simpl in H; step_inv H; simpl; lia. Qed.

Lemma run_nc esc ls : forall s s', run esc s ls = Some s' -> nc s <= nc s'.
Proof.
  induction ls as [|l r IH]; simpl; intros s s' H.
  - injection H as <-. lia.
  - destruct (step esc s l) eqn:E; [|discriminate]. apply step_nc in E. apply IH in H. lia.
Qed.

Lemma step_pm_ctx esc s l s' : step esc s l = Some s' -> pm_ctx s = true -> pm_ctx s' = true.
Proof. intros H Hc. destruct l; simpl in H; step_inv H; simpl; auto. Qed.

Lemma run_pm_ctx esc ls : forall s s', run esc s ls = Some s' -> pm_ctx s = true -> pm_ctx s' = true.
Proof.
  induction ls as [|l r IH]; simpl; intros s s' H Hc.
  - now injection H as <-.
  - destruct (step esc s l) eqn:E; [|discriminate]. eapply IH; eauto. eapply step_pm_ctx; eauto.
Qed.

(* shutdown: pathManager.close() (if not called yet) followed by internal steps only *)
Definition shutdown_labels (s : state) : list label := match closer s with ClIdle => [LCancel] | _ => [] end.

Lemma shutdown_from_ctx s : Inv s -> pm_ctx s = true ->
  exists ls s', all_internal ls = true /\ run true s ls = Some s' /\ all_terminated s'.
Proof.
  intros HI Hctx. destruct (quiesces s HI) as [ls [s' [Hi [Hr [Hq _]]]]].
  exists ls, s'. split; [exact Hi|split; [exact Hr|]].
  apply quiescent_shutdown; auto; [eapply inv_run; eauto|eapply run_pm_ctx; eauto].
Qed.

Lemma shutdown_completes s : Inv s ->
  exists ls s', all_internal ls = true /\ run true s (shutdown_labels s ++ ls) = Some s' /\ all_terminated s'.
Proof.
  intros HI. unfold shutdown_labels. destruct (closer s) eqn:Ecl.
  - destruct (step true s LCancel) as [s1|] eqn:E; [|simpl in E; rewrite Ecl in E; discriminate].
    pose proof (inv_step true s LCancel s1 HI E) as HI1.
    assert (Hctx : pm_ctx s1 = true) by (simpl in E; rewrite Ecl in E; injection E as <-; reflexivity).
    destruct (shutdown_from_ctx s1 HI1 Hctx) as [ls [s' [Hi [Hr Ht]]]].
    exists ls, s'. split; [exact Hi|split; [|exact Ht]].
    cbn [app run]. rewrite E. exact Hr.
  - apply shutdown_from_ctx; auto. apply (I_cl s HI); congruence.
  - apply shutdown_from_ctx; auto. apply (I_cl s HI); congruence.
Qed.

(* a started call returns: after shutdown, and, unless it is a request on hold, already without it *)
Lemma every_call_returns s c : Inv s -> c < nc s ->
  exists ls s' r, all_internal ls = true /\ run true s (shutdown_labels s ++ ls) = Some s' /\ callers s' c = CDone r.
Proof.
  intros HI Hc. destruct (shutdown_completes s HI) as [ls [s' [Hi [Hr Ht]]]].
  destruct Ht as [_ [_ [Hall _]]].
  destruct (Hall c) as [r Hr']; [pose proof (run_nc _ _ _ _ Hr); lia|].
  exists ls, s', r. auto.
Qed.

(* pctx of an existing path is only ever set by pa.close() in doClosePath *)
Lemma pctx_frame esc s l s' p :
  step esc s l = Some s' -> l <> LPmCloseHd -> p < np s -> pctx (paths s' p) = pctx (paths s p).
Proof.
  intros H Hl Hp. destruct l; simpl in H; step_inv H; try congruence; simp_state; unfold upd;
    try (destruct (Nat.eqb_spec p (np s)); [lia|reflexivity]);
    repeat match goal with |- context [Nat.eqb ?a ?b] => destruct (Nat.eqb_spec a b); subst end; reflexivity.
Qed.

Lemma terminated_needs_ctx s c : Inv s ->
  match callers s c with
  | CDone DPmTerm => pm_ctx s = true
  | CDone (DPaTerm p) | CDone (DPaTermAns p) => pm_ctx s = true \/ pctx (paths s p) = true
  | _ => True
  end.
Proof.
  intros HI. destruct (callers s c) as [| | | | |[]] eqn:Ec; auto.
  - apply (I_retpm s HI c Ec).
  - apply orb_true_iff. apply (I_ret s HI c p). auto.
  - apply orb_true_iff. apply (I_ret s HI c p). auto.
Qed.


(* whatever the scheduler does after pm.ctx was cancelled: when no internal step is left, everything has terminated *)
Lemma shutdown_any_schedule s ls s' :
  Inv s -> pm_ctx s = true -> run true s ls = Some s' ->
  (forall l, internal l = true -> step true s' l = None) -> all_terminated s'.
Proof.
  intros HI Hctx Hr Hstuck.
  pose proof (inv_run true ls s s' HI Hr) as HI'.
  destruct (progress s' HI') as [Hq|[l [s2 [Hl E]]]].
  - apply quiescent_shutdown; auto. eapply run_pm_ctx; eauto.
  - rewrite (Hstuck l Hl) in E. discriminate.
Qed.

Lemma no_deadlock s : reachable true s ->
  (quiescent s \/ exists l s', internal l = true /\ step true s l = Some s')
  /\ (exists ls s', forallb internal ls = true /\ run true s (shutdown_labels s ++ ls) = Some s' /\ all_terminated s').
Proof.
  intros HR. pose proof (inv_reachable true s HR) as HI. split.
  - apply progress; auto.
  - apply shutdown_completes; auto.
Qed.
