(* C40, HLS level: the enabledness test of the correspondence check (Check.C40.hsettled) is complete. *)
From Coq Require Import List Arith Bool Lia.
Require Import MTX.Model.C40_HlsLoop MTX.Proofs.C40_HlsLoop MTX.Check.C40.
Import ListNotations.
Import HL.

Definition hrep (l : label) : label :=
  match l with
  | LPmNotified _ => LPmNotified false | LHsDrain _ => LHsDrain false
  | LPaServeAdd m _ => LPaServeAdd m false | LMxExitDone m _ => LMxExitDone m false
  | x => x
  end.

Lemma nth_error_lt {A} (l : list A) n x : nth_error l n = Some x -> n < length l.
Proof. intros H. apply nth_error_Some. congruence. Qed.

Lemma hrep_enabled s l s' : internal l = true -> step true s l = Some s' ->
  In (hrep l) (hcandidates s) /\ henabledb s (hrep l) = true /\ hinvolves (hrep l) = hinvolves l.
Proof.
  intros Hi H. unfold hcandidates, henabledb.
  destruct l; try discriminate Hi; simpl hrep.
  all: try (split; [simpl; tauto|split; [rewrite H; reflexivity|reflexivity]]).
  - (* LPmRecvNotify *)
    split; [|split; [rewrite H; reflexivity|reflexivity]].
    apply in_or_app. right. apply in_or_app. left. apply in_map. apply in_seq.
    unfold step in H. destruct (pm s); try discriminate. destruct (nth_error (pas s) p) eqn:E; [|discriminate].
    apply nth_error_lt in E. lia.
  - (* LPmNotified *)
    split; [simpl; tauto|]. split; [|reflexivity].
    unfold step in *. destruct (pm s); try discriminate. reflexivity.
  - (* LHsDrain *)
    split; [simpl; tauto|]. split; [|reflexivity].
    unfold step in *. destruct (hs s); try discriminate. destruct (hq s); try discriminate. reflexivity.
  - (* LPmServeAdd *)
    split; [|split; [rewrite H; reflexivity|reflexivity]].
    apply in_or_app. right. apply in_or_app. right. apply in_flat_map. exists m. split; [|simpl; tauto].
    apply in_seq. unfold step in H. destruct (pm s); try discriminate.
    destruct (nth_error (mxs s) m) eqn:E; [|discriminate]. apply nth_error_lt in E. lia.
  - (* LPaServeAdd *)
    unfold step in H. destruct (nth_error (mxs s) m) as [x|] eqn:E; [|discriminate].
    split; [|split; [|reflexivity]].
    + apply in_or_app. right. apply in_or_app. right. apply in_flat_map. exists m. split; [|simpl; tauto].
      apply in_seq. apply nth_error_lt in E. lia.
    + unfold step. rewrite E. destruct x; try discriminate. destruct (is_idle _); [reflexivity|discriminate].
  - (* LMxExitDone *)
    unfold step in H. destruct (nth_error (mxs s) m) as [x|] eqn:E; [|discriminate].
    split; [|split; [|reflexivity]].
    + apply in_or_app. right. apply in_or_app. right. apply in_flat_map. exists m. split; [|simpl; tauto].
      apply in_seq. apply nth_error_lt in E. lia.
    + unfold step. rewrite E. destruct x; try discriminate. destruct (is_idle _); [reflexivity|discriminate].
Qed.

Theorem hsettled_sound s fr l s' :
  hsettled s fr = true -> internal l = true -> step true s l = Some s' ->
  exists q, In q (hinvolves l) /\ existsb (hfroz_eqb q) fr = true.
Proof.
  intros Hs Hi Hst. destruct (hrep_enabled s l s' Hi Hst) as (Hin & Hen & Hinv).
  unfold hsettled in Hs. rewrite forallb_forall in Hs. specialize (Hs _ Hin).
  rewrite Hen, Hinv in Hs. simpl in Hs. apply existsb_exists in Hs. destruct Hs as (q & Hq & Hf).
  exists q. split; assumption.
Qed.
