(* C40: the variant of the protocol without the pa.ctx.Done() escape branches reaches a deadlock. *)
From Coq Require Import List Arith Bool Lia.
Require Import MTX.Model.C40_Rendezvous MTX.Proofs.C40_Rendezvous.
Import ListNotations.

(* ---- the variant without the pa.ctx.Done() escape branches deadlocks ---------------------------------------------- *)

(* a publisher's request is being handled by path 0 (next: setPathReady, then the answer); a reload closes path 0 *)
Definition refuted_trace : list label :=
  [LSpawn KCall; LPmRecv 0; LPmHandled (HNew []); LPmAns; LPaRecv 0 [APm KReady; AAns 0];
   LSpawn (KReload [0]); LPmReload 1; LPmCloseHd].

Definition stuck : state := match run false init refuted_trace with Some s => s | None => init end.

Lemma refuted_run : run false init refuted_trace = Some stuck.
Proof. vm_compute. reflexivity. Qed.

Lemma stuck_reachable : reachable false stuck.
Proof. eapply reachable_run; [apply reach_init|apply refuted_run]. Qed.

Lemma stuck_no_step l : internal l = true -> step false stuck l = None.
Proof.
  intros H. destruct l; try discriminate H; try (vm_compute; reflexivity);
    try (destruct c as [|[|c]]; vm_compute; reflexivity);
    try (destruct p as [|p]; vm_compute; reflexivity).
Qed.

Lemma stuck_shape :
  pm stuck = PmWait 0 [] /\ ppc (paths stuck 0) = PaRun /\ script (paths stuck 0) = [APm KReady; AAns 0]
  /\ pctx (paths stuck 0) = true /\ pm_ctx stuck = false /\ callers stuck 0 = CWaitPa 0.
Proof. vm_compute. repeat split. Qed.

Lemma stuck_not_quiescent : ~ quiescent stuck.
Proof. intros [[[H _]|H] _]; vm_compute in H; discriminate. Qed.

(* the same schedule in the real protocol: the path escapes through <-pa.ctx.Done() and everything winds down *)
Definition escape_trace : list label :=
  refuted_trace ++ [LPaPmEsc 0; LPaAns 0; LPaCtx 0; LPaTRemEsc 0; LPaTFin 0 true; LPaTNrEsc 0; LPmWaitDone; LPmCloseEnd].

Definition wound_down : state := match run true init escape_trace with Some s => s | None => init end.

Lemma same_schedule_with_escape :
  run true init escape_trace = Some wound_down
  /\ pm wound_down = PmIdle /\ ppc (paths wound_down 0) = PaDead /\ callers wound_down 0 = CDone DPaAns.
Proof. vm_compute. repeat split. Qed.
