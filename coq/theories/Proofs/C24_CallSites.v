(* The call-site table of the model is the inventory of the current sources, and every class of call site yields the
   exact conversion of the quantity the table names. *)
From Coq Require Import String List ZArith Lia Bool.
Require Import MTX.Lib.IntWrap MTX.Model.C24_MulDiv MTX.Proofs.C24_MulDiv MTX.Model.C24_TsOut MTX.Proofs.C24_TsOut.
Require Import MTX.Model.C24_CallSites MTXGen.C24_Calls.
Import ListNotations.
Local Open Scope Z_scope.

(* the tie: same sites, same order, same value / rate expressions *)
Lemma call_table_tied : map cs_key call_table = call_sites.
Proof. vm_compute. reflexivity. Qed.

Lemma call_table_counted : Z.of_nat (length call_table) = call_site_count.
Proof. vm_compute. reflexivity. Qed.

(* the sites that derive per-frame timestamps (QFrame: x + i*spf; QAccum: running position) are exactly these *)
Definition per_frame_sites : list (string * string) := [
  ("internal/playback/segment_fmp4.go segmentFMP4ReadDurationFromParts", "durationMp4ToGo");
  ("internal/protocols/mpegts/from_stream.go FromStream", "multiplyAndDivide");
  ("internal/protocols/rtmp/from_stream.go FromStream", "timestampToDuration");
  ("internal/protocols/rtmp/from_stream.go FromStream", "timestampToDuration");
  ("internal/protocols/rtmp/from_stream.go FromStream", "timestampToDuration");
  ("internal/protocols/rtmp/from_stream.go FromStream", "timestampToDuration");
  ("internal/recorder/format_mpegts.go (*formatMPEGTS).initialize", "multiplyAndDivide")]%string.
Lemma call_table_frame_sites :
  map (fun s => (cs_where s, cs_callee s)) (filter (fun s => is_frame (cs_qty s)) call_table) = per_frame_sites.
Proof. vm_compute. reflexivity. Qed.

(* for EVERY class of the table (hence every row), all values of the variables, all rate pairs the code base passes
   (time.Second with a rate in 1..2^32, or two rates whose product is below 2^62): when the quantity and its exact
   conversion are representable, the call's result is the exact conversion of the quantity the row names *)
Lemma call_site_exact q x y i spf to from :
  scale_ok to from \/ scale_rates to from ->
  in_int64 x -> in_int64 (i * spf) -> in_int64 (qty_value q x y i spf) ->
  in_int64 (Z.quot (qty_value q x y i spf * to) from) ->
  site_result muldiv_w q x y i spf to from = Z.quot (qty_value q x y i spf * to) from.
Proof.
  intros Hs Hx Hm Hq Hr. unfold site_result.
  assert (qty_value_w q x y i spf = qty_value q x y i spf) as ->.
  { destruct q; cbn [qty_value_w qty_value] in *; try reflexivity.
    - rewrite (wrap64_id (i * spf)) by assumption. apply wrap64_id. assumption.
    - apply wrap64_id. assumption.
    - apply wrap64_id. assumption. }
  destruct Hs as [Hs|Hs]; [apply muldiv_exact | apply muldiv_exact_rates]; assumption.
Qed.

Lemma call_table_rows_exact : Forall (fun s => forall x y i spf to from,
  scale_ok to from \/ scale_rates to from ->
  in_int64 x -> in_int64 (i * spf) -> in_int64 (qty_value (cs_qty s) x y i spf) ->
  in_int64 (Z.quot (qty_value (cs_qty s) x y i spf * to) from) ->
  site_result muldiv_w (cs_qty s) x y i spf to from = Z.quot (qty_value (cs_qty s) x y i spf * to) from) call_table.
Proof. apply Forall_forall. intros s _ x y i spf to from. apply call_site_exact. Qed.

(* a QFrame row converted as "conversion of x plus i conversions of spf" is NOT the conversion of the row's quantity *)
Lemma frame_row_split_refuted : exists x i spf to from,
  scale_rates to from /\
  wrap64 (muldiv_w x to from + wrap64 (i * muldiv_w spf to from)) <> Z.quot (qty_value (QFrame "") x 0 i spf * to) from.
Proof. exists 441007, 2, 1536, 90000, 44100. split; [unfold scale_rates, two32; lia | vm_compute; discriminate]. Qed.

(* a QDiff row converted as the difference of two conversions is NOT the conversion of the distance *)
Lemma diff_row_split_refuted : exists x y to from,
  scale_ok to from /\
  muldiv_w x to from - muldiv_w y to from <> Z.quot (qty_value QDiff x y 0 0 * to) from.
Proof. exists 10, 5, 1000000000, 90000. split; [unfold scale_ok, two32, nanos; lia | vm_compute; discriminate]. Qed.
