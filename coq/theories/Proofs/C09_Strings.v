(* C09: lemmas on byte strings, prefixes, decimal numerals, split/join. *)
From Coq Require Import List ZArith Bool Lia.
Require Import MTX.Model.C09_Env MTX.Model.C09_EnvSpec.
Import ListNotations.
Local Open Scope Z_scope.

(* ------------------------------------------------------------------ equality, prefixes *)
Lemma str_eqb_refl s : str_eqb s s = true.
Proof. induction s as [|c s IH]; simpl; [reflexivity|]. rewrite Z.eqb_refl, IH. reflexivity. Qed.

Lemma str_eqb_eq a : forall b, str_eqb a b = true <-> a = b.
Proof.
  induction a as [|x a IH]; intros [|y b]; simpl; split; intros H; try reflexivity; try discriminate.
  - apply andb_true_iff in H as [H1 H2]. apply Z.eqb_eq in H1. apply IH in H2. subst. reflexivity.
  - inversion H; subst. rewrite Z.eqb_refl. apply str_eqb_refl.
Qed.

Lemma str_eqb_neq a b : a <> b -> str_eqb a b = false.
Proof. intros H. destruct (str_eqb a b) eqn:E; [apply str_eqb_eq in E; contradiction|reflexivity]. Qed.

Lemma str_eqb_sym a b : str_eqb a b = str_eqb b a.
Proof.
  destruct (str_eqb a b) eqn:E.
  - apply str_eqb_eq in E. subst. symmetry. apply str_eqb_refl.
  - destruct (str_eqb b a) eqn:E2; [|reflexivity]. apply str_eqb_eq in E2. subst. rewrite str_eqb_refl in E. discriminate.
Qed.

Lemma has_prefix_spec p : forall k, has_prefix p k = true <-> exists s, k = p ++ s.
Proof.
  induction p as [|x p IH]; intros k; simpl.
  - split; [intros _; exists k; reflexivity|reflexivity].
  - destruct k as [|y k].
    + split; [discriminate|intros [s Hs]; discriminate].
    + split.
      * intros H. apply andb_true_iff in H as [H1 H2]. apply Z.eqb_eq in H1. apply IH in H2 as [s Hs].
        exists s. subst. reflexivity.
      * intros [s Hs]. inversion Hs; subst. rewrite Z.eqb_refl. apply IH. exists s. reflexivity.
Qed.

Lemma has_prefix_app p a b : has_prefix (p ++ a) (p ++ b) = has_prefix a b.
Proof. induction p as [|x p IH]; simpl; [reflexivity|]. rewrite Z.eqb_refl. exact IH. Qed.

Lemma has_prefix_self p s : has_prefix p (p ++ s) = true.
Proof. apply has_prefix_spec. exists s. reflexivity. Qed.

Lemma has_prefix_app_l p a k : has_prefix (p ++ a) k = true -> has_prefix p k = true.
Proof.
  intros H. apply has_prefix_spec in H as [s Hs]. apply has_prefix_spec. exists (a ++ s).
  rewrite Hs, app_assoc. reflexivity.
Qed.

Lemma has_prefix_false_app_l p a k : has_prefix p k = false -> has_prefix (p ++ a) k = false.
Proof.
  intros H. destruct (has_prefix (p ++ a) k) eqn:E; [|reflexivity].
  apply has_prefix_app_l in E. congruence.
Qed.

(* ------------------------------------------------------------------ under *)
Lemma under_spec q k : under q k = true <-> k = q \/ exists s, k = q ++ US :: s.
Proof.
  unfold under. rewrite orb_true_iff, str_eqb_eq, has_prefix_spec. split.
  - intros [H|[s Hs]]; [left; exact H|right; exists s; rewrite Hs, <- app_assoc; reflexivity].
  - intros [H|[s Hs]]; [left; exact H|right; exists s; rewrite Hs, <- app_assoc; reflexivity].
Qed.

Lemma under_refl q : under q q = true.
Proof. apply under_spec. left. reflexivity. Qed.

Lemma under_sub_prefix p x k : under (sub p x) k = true -> has_prefix (p ++ [US]) k = true.
Proof.
  intros H. apply under_spec in H. apply has_prefix_spec. unfold sub in *.
  destruct H as [H|[s Hs]].
  - exists x. rewrite H, <- app_assoc. reflexivity.
  - exists (x ++ US :: s). rewrite Hs, <- !app_assoc. reflexivity.
Qed.

Lemma under_sub p x k : under (sub p x) k = true -> under p k = true.
Proof. intros H. unfold under. rewrite (under_sub_prefix _ _ _ H). apply orb_true_r. Qed.

Lemma prefix_under p k : has_prefix (p ++ [US]) k = true -> under p k = true.
Proof. intros H. unfold under. rewrite H. apply orb_true_r. Qed.

Lemma not_under_no_prefix p k : under p k = false -> has_prefix (p ++ [US]) k = false.
Proof. unfold under. intros H. apply orb_false_iff in H as [_ H]. exact H. Qed.

Lemma skipn_sub p s : skipn (length p + 1) (p ++ US :: s) = s.
Proof.
  induction p as [|c p IH]; simpl; [reflexivity|exact IH].
Qed.

(* the label that follows the prefix *)
Lemma cut_us_label a : no_us a = true -> forall s, (s = [] \/ exists r, s = US :: r) -> cut_us (a ++ s) = a.
Proof.
  induction a as [|c a IH]; simpl; intros Ha s Hs.
  - destruct Hs as [->|[r ->]]; reflexivity.
  - apply andb_true_iff in Ha as [Hc Ha]. apply negb_true_iff in Hc. rewrite Hc. f_equal. apply IH; assumption.
Qed.

Lemma under_label p a k :
  no_us a = true -> under (sub p a) k = true -> cut_us (skipn (length p + 1) k) = a.
Proof.
  intros Ha H. apply under_spec in H. unfold sub in H. destruct H as [H|[s Hs]].
  - subst k. rewrite skipn_sub. rewrite <- (app_nil_r a) at 1. apply cut_us_label; [exact Ha|left; reflexivity].
  - subst k. rewrite <- app_assoc. simpl. rewrite skipn_sub. apply cut_us_label; [exact Ha|right; eexists; reflexivity].
Qed.

Lemma under_label_inj p a b k :
  no_us a = true -> no_us b = true -> under (sub p a) k = true -> under (sub p b) k = true -> a = b.
Proof.
  intros Ha Hb H1 H2. rewrite <- (under_label p a k Ha H1). apply (under_label p b k Hb H2).
Qed.

Lemma under_other p a b k :
  no_us a = true -> no_us b = true -> a <> b -> under (sub p a) k = true -> under (sub p b) k = false.
Proof.
  intros Ha Hb Hab H1. destruct (under (sub p b) k) eqn:E; [|reflexivity].
  exfalso. apply Hab. eapply under_label_inj; eassumption.
Qed.

(* ------------------------------------------------------------------ environments *)
Definition R (p : str) (E : env) : env := filter (fun kv => under p (fst kv)) E.

Lemma lookup_filter (f : str -> bool) E k :
  f k = true -> lookup (filter (fun kv => f (fst kv)) E) k = lookup E k.
Proof.
  intros Hk. induction E as [|[k' v] E IH]; simpl; [reflexivity|].
  destruct (f k') eqn:Ef; simpl.
  - destruct (str_eqb k' k); [reflexivity|exact IH].
  - destruct (str_eqb k' k) eqn:Ek; [|exact IH]. apply str_eqb_eq in Ek. subst. congruence.
Qed.

Lemma lookup_R p E : lookup (R p E) p = lookup E p.
Proof. apply (lookup_filter (under p)). apply under_refl. Qed.

Lemma hkwp_filter (f : str -> bool) E q :
  (forall k, has_prefix q k = true -> f k = true) ->
  has_key_with_prefix (filter (fun kv => f (fst kv)) E) q = has_key_with_prefix E q.
Proof.
  intros H. unfold has_key_with_prefix. induction E as [|[k v] E IH]; simpl; [reflexivity|].
  destruct (f k) eqn:Ef; simpl.
  - rewrite IH. reflexivity.
  - rewrite IH. destruct (has_prefix q k) eqn:Eq; [|reflexivity]. rewrite (H _ Eq) in Ef. discriminate.
Qed.

Lemma hkwp_R p x E : has_key_with_prefix (R p E) (p ++ US :: x) = has_key_with_prefix E (p ++ US :: x).
Proof.
  apply (hkwp_filter (under p)). intros k H. apply prefix_under.
  replace (p ++ US :: x) with ((p ++ [US]) ++ x) in H by (rewrite <- app_assoc; reflexivity).
  apply has_prefix_app_l in H. exact H.
Qed.

Lemma filter_filter_sub {A} (f g : A -> bool) l :
  (forall a, g a = true -> f a = true) -> filter g (filter f l) = filter g l.
Proof.
  intros H. induction l as [|a l IH]; simpl; [reflexivity|].
  destruct (f a) eqn:Ef; simpl.
  - rewrite IH. reflexivity.
  - rewrite IH. destruct (g a) eqn:Eg; [|reflexivity]. rewrite (H _ Eg) in Ef. discriminate.
Qed.

Lemma R_R_sub p x E : R (sub p x) (R p E) = R (sub p x) E.
Proof. apply filter_filter_sub. intros [k v]. simpl. apply under_sub. Qed.

Lemma R_app q a b : R q (a ++ b) = R q a ++ R q b.
Proof. apply filter_app. Qed.

Lemma R_all q a : (forall k, In k (map fst a) -> under q k = true) -> R q a = a.
Proof.
  induction a as [|[k v] a IH]; simpl; intros H; [reflexivity|].
  rewrite (H k (or_introl eq_refl)). f_equal. apply IH. intros k' Hk'. apply H. right. exact Hk'.
Qed.

Lemma R_none q a : (forall k, In k (map fst a) -> under q k = false) -> R q a = [].
Proof.
  induction a as [|[k v] a IH]; simpl; intros H; [reflexivity|].
  rewrite (H k (or_introl eq_refl)). apply IH. intros k' Hk'. apply H. right. exact Hk'.
Qed.

Lemma R_nil_no_under p E : R p E = [] -> forall k, In k (map fst E) -> under p k = false.
Proof.
  induction E as [|[k v] E IH]; simpl; intros H k' Hk'; [contradiction|].
  destruct (under p k) eqn:Eu; [discriminate|]. destruct Hk' as [<-|Hk']; [exact Eu|apply IH; assumption].
Qed.

Lemma hkwp_in E q : has_key_with_prefix E q = true <-> exists k, In k (map fst E) /\ has_prefix q k = true.
Proof.
  unfold has_key_with_prefix. rewrite existsb_exists. split.
  - intros [[k v] [Hin H]]. exists k. split; [apply in_map_iff; exists (k, v); auto|exact H].
  - intros [k [Hin H]]. apply in_map_iff in Hin as [[k' v] [Hk Hin]]. simpl in Hk. subst. exists (k, v). auto.
Qed.

Lemma hkwp_false E q : (forall k, In k (map fst E) -> has_prefix q k = false) -> has_key_with_prefix E q = false.
Proof.
  intros H. destruct (has_key_with_prefix E q) eqn:Eh; [|reflexivity].
  apply hkwp_in in Eh as [k [Hin Hp]]. rewrite (H k Hin) in Hp. discriminate.
Qed.

Lemma lookup_not_in E k : ~ In k (map fst E) -> lookup E k = None.
Proof.
  induction E as [|[k' v] E IH]; simpl; intros H; [reflexivity|].
  rewrite str_eqb_neq by (intros ->; apply H; left; reflexivity). apply IH. intros Hin. apply H. right. exact Hin.
Qed.

(* ------------------------------------------------------------------ decimal numerals *)
Lemma is_digit_spec c : is_digit c = true <-> 48 <= c <= 57.
Proof. unfold is_digit. rewrite andb_true_iff, !Z.leb_le. reflexivity. Qed.

Lemma digits_val_app s : forall a t, digits_val a (s ++ t) = digits_val (digits_val a s) t.
Proof. induction s as [|c s IH]; intros a t; simpl; [reflexivity|apply IH]. Qed.

Lemma digits_val_mono s : forall a, 0 <= a -> forallb is_digit s = true -> a <= digits_val a s.
Proof.
  induction s as [|c s IH]; intros a Ha H; simpl; [lia|].
  simpl in H. apply andb_true_iff in H as [Hc Hs]. apply is_digit_spec in Hc.
  specialize (IH (a * 10 + (c - 48)) ltac:(lia) Hs). lia.
Qed.

Lemma dec_fuel_val f : forall n, 0 <= n < 10 ^ Z.of_nat f -> digits_val 0 (dec_fuel f n) = n.
Proof.
  induction f as [|f IH]; intros n Hn.
  - simpl in Hn. simpl. lia.
  - cbn [dec_fuel]. destruct (n <? 10) eqn:E.
    + cbn [digits_val]. lia.
    + apply Z.ltb_ge in E. rewrite digits_val_app, IH.
      * cbn [digits_val]. pose proof (Z.div_mod n 10 ltac:(lia)). lia.
      * rewrite Nat2Z.inj_succ, Z.pow_succ_r in Hn by lia. split; [apply Z.div_pos; lia|].
        apply Z.div_lt_upper_bound; lia.
Qed.

Lemma dec_fuel_digits f : forall n, 0 <= n -> forallb is_digit (dec_fuel f n) = true.
Proof.
  induction f as [|f IH]; intros n Hn; [reflexivity|].
  cbn [dec_fuel]. destruct (n <? 10) eqn:E.
  - apply Z.ltb_lt in E. cbn [forallb]. rewrite andb_true_r. apply is_digit_spec. lia.
  - apply Z.ltb_ge in E. rewrite forallb_app, IH by (apply Z.div_pos; lia). cbn [forallb]. rewrite andb_true_r.
    apply is_digit_spec. pose proof (Z.mod_pos_bound n 10 ltac:(lia)). lia.
Qed.

Lemma dec_fuel_nonempty f n : dec_fuel (S f) n <> [].
Proof.
  cbn [dec_fuel]. destruct (n <? 10); [discriminate|]. intros H. apply app_eq_nil in H as [_ H]. discriminate.
Qed.

Lemma dec_range n : 0 <= n -> n < 10 ^ Z.of_nat (S (Z.to_nat (Z.log2 n))).
Proof.
  intros Hn. destruct (Z.eq_dec n 0) as [->|Hz]; [simpl; lia|].
  assert (Hpos : 0 < n) by lia.
  pose proof (Z.log2_spec n Hpos) as [_ Hlt]. pose proof (Z.log2_nonneg n) as Hl.
  rewrite Nat2Z.inj_succ, Z2Nat.id by lia.
  eapply Z.lt_le_trans; [exact Hlt|]. apply Z.pow_le_mono_l. lia.
Qed.

Lemma dec_val n : 0 <= n -> digits_val 0 (dec n) = n.
Proof. intros Hn. unfold dec. apply dec_fuel_val. split; [exact Hn|apply dec_range; exact Hn]. Qed.

Lemma dec_digits n : 0 <= n -> forallb is_digit (dec n) = true.
Proof. intros Hn. apply dec_fuel_digits. exact Hn. Qed.

Lemma dec_nonempty n : dec n <> [].
Proof. apply dec_fuel_nonempty. Qed.

Lemma dec_inj a b : 0 <= a -> 0 <= b -> dec a = dec b -> a = b.
Proof. intros Ha Hb H. rewrite <- (dec_val a Ha), <- (dec_val b Hb), H. reflexivity. Qed.

Lemma digits_no (c0 : Z) s : (c0 < 48 \/ 57 < c0) -> forallb is_digit s = true -> forallb (fun c => negb (c =? c0)) s = true.
Proof.
  intros Hc H. apply forallb_forall. intros c Hin. rewrite forallb_forall in H. specialize (H c Hin).
  apply is_digit_spec in H. apply negb_true_iff. apply Z.eqb_neq. lia.
Qed.

Lemma dec_no_us n : 0 <= n -> no_us (dec n) = true.
Proof. intros Hn. apply digits_no; [unfold US; lia|apply dec_digits; exact Hn]. Qed.

Lemma dec_no_comma n : 0 <= n -> no_comma (dec n) = true.
Proof. intros Hn. apply digits_no; [unfold COMMA; lia|apply dec_digits; exact Hn]. Qed.

(* a run of digits that is a prefix of  b ++ c :: s  with c not a digit is a prefix of b *)
Lemma digit_prefix a : forall b c s, forallb is_digit a = true -> is_digit c = false ->
  has_prefix a (b ++ c :: s) = true -> exists r, b = a ++ r.
Proof.
  induction a as [|x a IH]; intros b c s Ha Hc H.
  - exists b. reflexivity.
  - simpl in Ha. apply andb_true_iff in Ha as [Hx Ha]. destruct b as [|y b]; simpl in H.
    + apply andb_true_iff in H as [H _]. apply Z.eqb_eq in H. subst. congruence.
    + apply andb_true_iff in H as [H1 H2]. apply Z.eqb_eq in H1. subst.
      destruct (IH b c s Ha Hc H2) as [r Hr]. exists r. subst. reflexivity.
Qed.

(* index n is not discovered through the variables of an item j < n *)
Lemma dec_not_prefix j n s : 0 <= j < n -> has_prefix (dec n) (dec j ++ US :: s) = false.
Proof.
  intros Hj. destruct (has_prefix (dec n) (dec j ++ US :: s)) eqn:E; [|reflexivity]. exfalso.
  destruct (digit_prefix (dec n) (dec j) US s) as [r Hr]; [apply dec_digits; lia|reflexivity|exact E|].
  assert (Hd : forallb is_digit r = true).
  { pose proof (dec_digits j ltac:(lia)) as Hdj. rewrite Hr, forallb_app in Hdj. apply andb_true_iff in Hdj. tauto. }
  pose proof (dec_val j ltac:(lia)) as Hv. rewrite Hr, digits_val_app, dec_val in Hv by lia.
  pose proof (digits_val_mono r n ltac:(lia) Hd). lia.
Qed.

(* ------------------------------------------------------------------ numbers: parse after print *)
Lemma parse_uint32_dec z : uint32 z = true -> parse_uint32 (dec z) = Some z.
Proof.
  unfold uint32. intros H. apply andb_true_iff in H as [H1 H2]. apply Z.leb_le in H1. apply Z.ltb_lt in H2.
  unfold parse_uint32. destruct (dec z) eqn:E; [exfalso; exact (dec_nonempty z E)|]. rewrite <- E.
  rewrite dec_digits, dec_val by lia. apply Z.ltb_lt in H2. rewrite H2. reflexivity.
Qed.

Lemma dec_head_digit n : 0 <= n -> exists c r, dec n = c :: r /\ 48 <= c <= 57.
Proof.
  intros Hn. destruct (dec n) as [|c r] eqn:E; [exfalso; exact (dec_nonempty n E)|].
  exists c, r. split; [reflexivity|]. pose proof (dec_digits n Hn) as Hd. rewrite E in Hd. simpl in Hd.
  apply andb_true_iff in Hd as [Hc _]. apply is_digit_spec. exact Hc.
Qed.

Lemma parse_int32_print z : int32 z = true -> parse_int32 (print_int z) = Some z.
Proof.
  unfold int32. intros H. apply andb_true_iff in H as [H1 H2]. apply Z.leb_le in H1. apply Z.ltb_lt in H2.
  unfold print_int. destruct (z <? 0) eqn:Ez.
  - apply Z.ltb_lt in Ez. unfold parse_int32.
    destruct (dec (- z)) eqn:E; [exfalso; exact (dec_nonempty _ E)|]. rewrite <- E.
    rewrite dec_digits, dec_val by lia.
    replace (- z <=? 2147483648) with true by (symmetry; apply Z.leb_le; lia). f_equal. lia.
  - apply Z.ltb_ge in Ez. destruct (dec_head_digit z Ez) as [c [r [E Hc]]]. unfold parse_int32. rewrite E.
    assert (c <> 43 /\ c <> 45) as [Hc1 Hc2] by lia.
    destruct c as [|c|c]; try lia.
    do 6 (destruct c as [c|c|]; try lia; try (rewrite <- E; rewrite dec_digits, dec_val by lia;
      replace (z <? 2147483648) with true by (symmetry; apply Z.ltb_lt; lia); reflexivity)).
Qed.

(* ------------------------------------------------------------------ split after join *)
Lemma split_comma_nocomma a : no_comma a = true -> forall r, split_comma (a ++ COMMA :: r) = a :: split_comma r.
Proof.
  induction a as [|c a IH]; simpl; intros Ha r.
  - reflexivity.
  - apply andb_true_iff in Ha as [Hc Ha]. apply negb_true_iff in Hc. rewrite Hc. rewrite IH by exact Ha. reflexivity.
Qed.

Lemma split_comma_single a : no_comma a = true -> split_comma a = [a].
Proof.
  induction a as [|c a IH]; simpl; intros Ha; [reflexivity|].
  apply andb_true_iff in Ha as [Hc Ha]. apply negb_true_iff in Hc. rewrite Hc, IH by exact Ha. reflexivity.
Qed.

Lemma split_join l : l <> [] -> forallb no_comma l = true -> split_comma (join_comma l) = l.
Proof.
  induction l as [|a l IH]; intros Hne H; [contradiction|].
  simpl in H. apply andb_true_iff in H as [Ha Hl]. destruct l as [|b l].
  - simpl. apply split_comma_single. exact Ha.
  - change (join_comma (a :: b :: l)) with (a ++ COMMA :: join_comma (b :: l)).
    rewrite split_comma_nocomma by exact Ha. f_equal. apply IH; [discriminate|exact Hl].
Qed.

Lemma join_nonempty l : l <> [] -> l <> [[]] -> join_comma l <> [].
Proof.
  destruct l as [|a [|b l]]; intros H1 H2; simpl.
  - contradiction.
  - intros ->. apply H2. reflexivity.
  - intros H. apply app_eq_nil in H as [_ H]. discriminate.
Qed.

Lemma bind_ok_id {A} (r : result A) : bind r (fun a => Ok a) = r.
Proof. destruct r; reflexivity. Qed.
