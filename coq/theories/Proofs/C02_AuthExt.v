(* Proofs about Model/C02_AuthExt.v: token selection, the http and jwt decisions, the posted JSON body, the
   permission-claim forms. *)
From Coq Require Import List ZArith Bool Lia ZifyBool Arith.
Require Import MTX.Lib.Utf8 MTX.Lib.Json MTX.Model.C01_Auth MTX.Model.C02_AuthExt.
Import ListNotations.
Local Open Scope Z_scope.

(* ====================================================================================== *)
(* 1. getToken                                                                             *)

(* which requests may carry the token in the query string *)
Definition query_allowed_spec (in_http_query : bool) (r : xreq) : Prop :=
  x_proto r = p_rtsp \/ x_proto r = p_rtmp \/
  (in_http_query = true /\
   (x_proto r = p_hls \/ x_proto r = p_webrtc \/ x_action r = a_playback \/ x_action r = a_api \/
    x_action r = a_metrics \/ x_action r = a_pprof)).

Lemma query_allowed_iff inq r : query_allowed inq r = true <-> query_allowed_spec inq r.
Proof.
  unfold query_allowed, query_allowed_spec, is_http.
  rewrite !orb_true_iff, andb_true_iff, !orb_true_iff, !list_eqb_eq. tauto.
Qed.

(* the token found in a query string: the single "token" parameter, else the single "jwt" parameter, of a query that
   url.ParseQuery accepts *)
Definition query_token_spec (q t : list Z) : Prop :=
  let ps := snd (parse_query q) in
  (fst (parse_query q) = false /\ values k_token ps = [t]) \/
  (fst (parse_query q) = false /\ length (values k_token ps) <> 1%nat /\ values k_jwt ps = [t]) \/
  ((fst (parse_query q) = true \/
    (length (values k_token ps) <> 1%nat /\ length (values k_jwt ps) <> 1%nat)) /\ t = []).

Lemma query_token_iff q t : query_token q = t <-> query_token_spec q t.
Proof.
  unfold query_token, query_token_spec. destruct (parse_query q) as [err ps]. cbn [fst snd].
  destruct err.
  - split.
    + intros <-. right. right. split; [left; reflexivity|reflexivity].
    + intros [[E _]|[[E _]|[_ ->]]]; try discriminate. reflexivity.
  - destruct (values k_token ps) as [|v [|v' vs]] eqn:Et.
    + destruct (values k_jwt ps) as [|w [|w' ws]] eqn:Ej.
      * split.
        -- intros <-. right. right. split; [right; cbn; lia|reflexivity].
        -- intros [[_ E]|[(_ & _ & E)|[_ ->]]]; try discriminate. reflexivity.
      * split.
        -- intros <-. right. left. repeat split. cbn. lia.
        -- intros [[_ E]|[(_ & _ & E)|[[E|[_ E]] _]]]; try discriminate.
           ++ injection E as <-. reflexivity.
           ++ cbn in E. lia.
      * split.
        -- intros <-. right. right. split; [right; cbn; lia|reflexivity].
        -- intros [[_ E]|[(_ & _ & E)|[_ ->]]]; try discriminate. reflexivity.
    + split.
      * intros <-. left. split; reflexivity.
      * intros [[_ E]|[(_ & E & _)|[[E|[E _]] _]]]; try discriminate.
        -- injection E as <-. reflexivity.
        -- cbn in E. lia.
        -- cbn in E. lia.
    + destruct (values k_jwt ps) as [|w [|w' ws]] eqn:Ej.
      * split.
        -- intros <-. right. right. split; [right; cbn; lia|reflexivity].
        -- intros [[_ E]|[(_ & _ & E)|[_ ->]]]; try discriminate. reflexivity.
      * split.
        -- intros <-. right. left. repeat split. cbn. lia.
        -- intros [[_ E]|[(_ & _ & E)|[[E|[_ E]] _]]]; try discriminate.
           ++ injection E as <-. reflexivity.
           ++ cbn in E. lia.
      * split.
        -- intros <-. right. right. split; [right; cbn; lia|reflexivity].
        -- intros [[_ E]|[(_ & _ & E)|[_ ->]]]; try discriminate. reflexivity.
Qed.

(* precedence: token field, else password, else (where allowed) the query parameter, else nothing *)
Theorem token_precedence inq r t :
  get_token inq r = t <->
  (x_token r <> [] /\ t = x_token r) \/
  (x_token r = [] /\ x_pass r <> [] /\ t = x_pass r) \/
  (x_token r = [] /\ x_pass r = [] /\ query_allowed_spec inq r /\ query_token_spec (x_query r) t) \/
  (x_token r = [] /\ x_pass r = [] /\ ~ query_allowed_spec inq r /\ t = []).
Proof.
  unfold get_token. destruct (x_token r) as [|c tk] eqn:Et.
  - destruct (x_pass r) as [|d pw] eqn:Ep.
    + destruct (query_allowed inq r) eqn:Eq.
      * apply query_allowed_iff in Eq. rewrite query_token_iff. split.
        -- intros H. right. right. left. auto.
        -- intros [[N _]|[(_ & N & _)|[(_ & _ & _ & H)|(_ & _ & N & _)]]]; try congruence; try tauto.
      * assert (Nq : ~ query_allowed_spec inq r) by (intros H; apply query_allowed_iff in H; congruence).
        split.
        -- intros <-. right. right. right. auto.
        -- intros [[N _]|[(_ & N & _)|[(_ & _ & H & _)|(_ & _ & _ & ->)]]]; try congruence; try tauto.
    + split.
      * intros <-. right. left. repeat split; congruence.
      * intros [[N _]|[(_ & _ & ->)|[(_ & N & _)|(_ & N & _)]]]; try congruence.
  - split.
    + intros <-. left. split; congruence.
    + intros [[_ ->]|[(N & _)|[(N & _)|(N & _)]]]; try congruence.
Qed.

(* ---- url.ParseQuery on a query assembled from clean keys and values -------------------- *)

Definition clean_char (c : Z) : bool :=
  negb ((c =? 38) || (c =? 59) || (c =? 61) || (c =? 37) || (c =? 43)).     (* none of & ; = % + *)
Definition clean (s : list Z) : bool := forallb clean_char s.

Fixpoint encode_pairs (ps : list (list Z * list Z)) : list Z :=
  match ps with
  | [] => []
  | [(k, v)] => k ++ 61 :: v
  | (k, v) :: r => k ++ 61 :: v ++ 38 :: encode_pairs r
  end.

Lemma unescape_clean s : clean s = true -> unescape s = Some s.
Proof.
  induction s as [|c s IH]; [reflexivity|]. cbn [clean forallb]. rewrite andb_true_iff. intros [Hc Hs].
  unfold clean_char in Hc. cbn [unescape].
  destruct (c =? 37) eqn:E37; [lia|]. rewrite (IH Hs). destruct (c =? 43) eqn:E43; [lia|reflexivity].
Qed.

Lemma cut_clean k v : clean k = true -> cut 61 (k ++ 61 :: v) = (k, v, true).
Proof.
  induction k as [|c k IH]; cbn [clean forallb app cut].
  - intros _. rewrite Z.eqb_refl. reflexivity.
  - rewrite andb_true_iff. intros [Hc Hk]. unfold clean_char in Hc.
    destruct (c =? 61) eqn:E; [lia|]. rewrite (IH Hk). reflexivity.
Qed.

Lemma existsb_app {A} (f : A -> bool) a b : existsb f (a ++ b) = existsb f a || existsb f b.
Proof. induction a; cbn; [reflexivity|]. rewrite IHa, orb_assoc. reflexivity. Qed.

Lemma clean_no c s : clean s = true -> clean_char c = false -> existsb (Z.eqb c) s = false.
Proof.
  induction s as [|d s IH]; [reflexivity|]. cbn [clean forallb existsb]. rewrite andb_true_iff.
  intros [Hd Hs] Hc. rewrite (IH Hs Hc), orb_false_r.
  destruct (c =? d) eqn:E; [|reflexivity]. apply Z.eqb_eq in E. subst. congruence.
Qed.

Lemma parse_piece_clean k v : clean k = true -> clean v = true ->
  parse_piece (k ++ 61 :: v) = (false, Some (k, v)).
Proof.
  intros Hk Hv. unfold parse_piece.
  rewrite existsb_app. cbn [existsb]. rewrite (clean_no 59 k Hk eq_refl), (clean_no 59 v Hv eq_refl). cbn [orb].
  change (59 =? 61) with false. cbn [orb].
  destruct (k ++ 61 :: v) eqn:E; [destruct k; discriminate|]. rewrite <- E.
  rewrite (cut_clean k v Hk), (unescape_clean k Hk), (unescape_clean v Hv). reflexivity.
Qed.

Lemma split_amp_piece p : forall cur rest, existsb (Z.eqb 38) p = false ->
  split_amp (p ++ 38 :: rest) cur = (rev cur ++ p) :: split_amp rest [].
Proof.
  induction p as [|c p IH]; intros cur rest Hp; cbn [app split_amp].
  - rewrite Z.eqb_refl, app_nil_r. reflexivity.
  - cbn [existsb] in Hp. apply orb_false_iff in Hp. destruct Hp as [Hc Hp].
    rewrite Z.eqb_sym in Hc. rewrite Hc. rewrite (IH (c :: cur) rest Hp). cbn [rev]. rewrite <- app_assoc. reflexivity.
Qed.

Lemma split_amp_last p : forall cur, existsb (Z.eqb 38) p = false -> split_amp p cur = [rev cur ++ p].
Proof.
  induction p as [|c p IH]; intros cur Hp; cbn [split_amp].
  - rewrite app_nil_r. reflexivity.
  - cbn [existsb] in Hp. apply orb_false_iff in Hp. destruct Hp as [Hc Hp].
    rewrite Z.eqb_sym in Hc. rewrite Hc. rewrite (IH (c :: cur) Hp). cbn [rev]. rewrite <- app_assoc. reflexivity.
Qed.

Definition clean_pair (p : list Z * list Z) : bool := clean (fst p) && clean (snd p).

Lemma piece_no_amp k v : clean k = true -> clean v = true -> existsb (Z.eqb 38) (k ++ 61 :: v) = false.
Proof.
  intros Hk Hv. rewrite existsb_app. cbn [existsb].
  rewrite (clean_no 38 k Hk eq_refl), (clean_no 38 v Hv eq_refl). reflexivity.
Qed.

Lemma split_encode ps : forallb clean_pair ps = true -> ps <> [] ->
  split_amp (encode_pairs ps) [] = map (fun p => fst p ++ 61 :: snd p) ps.
Proof.
  induction ps as [|[k v] ps IH]; [congruence|]. cbn [forallb]. rewrite andb_true_iff. unfold clean_pair at 1.
  cbn [fst snd]. rewrite andb_true_iff. intros [[Hk Hv] Hps] _.
  destruct ps as [|q ps].
  - cbn [encode_pairs map fst snd]. rewrite split_amp_last by (apply piece_no_amp; assumption). reflexivity.
  - change (encode_pairs ((k, v) :: q :: ps)) with (k ++ 61 :: v ++ 38 :: encode_pairs (q :: ps)).
    replace (k ++ 61 :: v ++ 38 :: encode_pairs (q :: ps)) with ((k ++ 61 :: v) ++ 38 :: encode_pairs (q :: ps))
      by (rewrite <- app_assoc; reflexivity).
    rewrite split_amp_piece by (apply piece_no_amp; assumption).
    rewrite IH by (assumption || discriminate). reflexivity.
Qed.

Theorem parse_query_clean ps : forallb clean_pair ps = true -> parse_query (encode_pairs ps) = (false, ps).
Proof.
  intros Hc. destruct ps as [|p0 ps0] eqn:Eps; [reflexivity|]. rewrite <- Eps in *.
  assert (Hne : ps <> []) by (rewrite Eps; discriminate).
  unfold parse_query.
  destruct (encode_pairs ps) eqn:Ee.
  { exfalso. rewrite Eps in Ee. destruct p0 as [k v]. destruct ps0; cbn [encode_pairs] in Ee; destruct k; discriminate. }
  rewrite <- Ee. rewrite (split_encode ps Hc Hne). clear Ee Eps Hne.
  induction ps as [|[k v] ps IH]; [reflexivity|].
  cbn [forallb] in Hc. rewrite andb_true_iff in Hc. destruct Hc as [Hp Hps]. unfold clean_pair in Hp.
  cbn [fst snd] in Hp. rewrite andb_true_iff in Hp. destruct Hp as [Hk Hv].
  cbn [map fold_right fst snd]. rewrite (IH Hps). rewrite (parse_piece_clean k v Hk Hv). reflexivity.
Qed.

(* ====================================================================================== *)
(* 2. http and jwt decisions                                                               *)

Section Decision.
Variable rx : list Z -> list Z -> bool.

Theorem http_iff post ex r u :
  authenticate_http rx post ex r = Granted u <->
  (excluded rx ex r = true /\ u = []) \/
  (excluded rx ex r = false /\ u = x_user r /\
   exists st, post (http_body r (get_token false r)) = Some st /\ 200 <= st <= 299).
Proof.
  unfold authenticate_http. destruct (excluded rx ex r) eqn:Ex.
  - split.
    + intros [= <-]. left. auto.
    + intros [[_ ->]|[N _]]; [reflexivity|discriminate].
  - destruct (post (http_body r (get_token false r))) as [st|] eqn:Ep.
    + destruct ((200 <=? st) && (st <=? 299)) eqn:Es.
      * split.
        -- intros [= <-]. right. repeat split. exists st. split; [reflexivity|lia].
        -- intros [[N _]|(_ & -> & _)]; [discriminate|reflexivity].
      * split; [discriminate|]. intros [[N _]|(_ & _ & st' & [= <-] & Hr)]; [discriminate|lia].
    + split; [discriminate|]. intros [[N _]|(_ & _ & st' & N & _)]; discriminate.
Qed.

(* a POST is made exactly when the request is not excluded, and it carries http_body *)
Theorem http_posted_iff ex r b :
  http_posted rx ex r = Some b <-> excluded rx ex r = false /\ b = http_body r (get_token false r).
Proof.
  unfold http_posted. destruct (excluded rx ex r).
  - split; [discriminate|intros [N _]; discriminate].
  - split; [intros [= <-]; auto|intros [_ ->]; reflexivity].
Qed.

Variable jwt_parse : list Z -> option (list Z * option (list Z)).
Variable dec_perms : list Z -> option (list perm).
Variable dec_str : list Z -> option (list Z).

Theorem jwt_iff ex jwks_ok inq r u :
  authenticate_jwt rx jwt_parse dec_perms dec_str ex jwks_ok inq r = Granted u <->
  (excluded rx ex r = true /\ u = []) \/
  (excluded rx ex r = false /\ jwks_ok = true /\
   let tok := get_token (in_query_flag true inq) r in
   tok <> [] /\
   exists raw ps, jwt_parse tok = Some (u, Some raw) /\ claim_perms dec_perms dec_str raw = Some ps /\
                  matches_permission rx ps (x_action r) (x_path r) = true).
Proof.
  unfold authenticate_jwt. cbv zeta. destruct (excluded rx ex r) eqn:Ex.
  - split.
    + intros [= <-]. left. auto.
    + intros [[_ ->]|[N _]]; [reflexivity|discriminate].
  - destruct jwks_ok; cbn [negb].
    2:{ split; [discriminate|]. intros [[N _]|(_ & N & _)]; discriminate. }
    destruct (get_token (in_query_flag true inq) r) as [|c tk] eqn:Et.
    { split; [discriminate|]. intros [[N _]|(_ & _ & N & _)]; [discriminate|congruence]. }
    destruct (jwt_parse (c :: tk)) as [[sub [raw|]]|] eqn:Ep.
    + destruct (claim_perms dec_perms dec_str raw) as [ps|] eqn:Ec.
      * destruct (matches_permission rx ps (x_action r) (x_path r)) eqn:Em.
        -- split.
           ++ intros [= <-]. right. repeat split; [discriminate|]. exists raw, ps. auto.
           ++ intros [[N _]|(_ & _ & _ & raw' & ps' & [= <- <-] & _)]; [discriminate|reflexivity].
        -- split; [discriminate|]. intros [[N _]|(_ & _ & _ & raw' & ps' & [= <- <-] & E2 & E3)]; [discriminate|].
           congruence.
      * split; [discriminate|]. intros [[N _]|(_ & _ & _ & raw' & ps' & [= <- <-] & E2 & _)]; [discriminate|congruence].
    + split; [discriminate|]. intros [[N _]|(_ & _ & _ & raw' & ps' & N & _)]; discriminate.
    + split; [discriminate|]. intros [[N _]|(_ & _ & _ & raw' & ps' & N & _)]; discriminate.
Qed.

(* denied requests ask for credentials iff asking is enabled and no user, password or token (from any source) came *)
Theorem http_ask post ex r a : authenticate_http rx post ex r = Denied a ->
  (a = true <-> x_ask r = true /\ x_user r = [] /\ x_pass r = [] /\ get_token false r = []).
Proof.
  unfold authenticate_http, ask_flag. destruct (excluded rx ex r); [discriminate|].
  destruct (post _) as [st|]; [destruct (_ && _); [discriminate|]|];
    intros [= <-]; rewrite !andb_true_iff, !list_eqb_eq; tauto.
Qed.

Theorem jwt_ask ex jwks_ok inq r a :
  authenticate_jwt rx jwt_parse dec_perms dec_str ex jwks_ok inq r = Denied a ->
  (a = true <-> x_ask r = true /\ x_user r = [] /\ x_pass r = [] /\ get_token (in_query_flag true inq) r = []).
Proof.
  unfold authenticate_jwt, ask_flag. cbv zeta. destruct (excluded rx ex r); [discriminate|].
  set (tok := get_token (in_query_flag true inq) r).
  assert (G : forall b, Denied (x_ask r && list_eqb (x_user r) [] && list_eqb (x_pass r) [] && list_eqb tok []) = Denied b ->
              (b = true <-> x_ask r = true /\ x_user r = [] /\ x_pass r = [] /\ tok = [])).
  { intros b [= <-]. rewrite !andb_true_iff, !list_eqb_eq. tauto. }
  destruct (negb jwks_ok); [apply G|].
  destruct tok as [|c tk] eqn:Et; [apply G|]. rewrite <- Et in *.
  destruct (jwt_parse tok) as [[sub [raw|]]|]; try apply G.
  destruct (claim_perms dec_perms dec_str raw) as [ps|]; try apply G.
  destruct (matches_permission rx ps (x_action r) (x_path r)); [discriminate|apply G].
Qed.

(* ---- the forms of the permission claim -------------------------------------------------- *)

(* array form: the raw value decodes as a permission list *)
Lemma claim_array raw ps : dec_perms raw = Some ps -> claim_perms dec_perms dec_str raw = Some ps.
Proof. unfold claim_perms. intros ->. reflexivity. Qed.

(* string form: the raw value is not a permission list but a JSON string whose content is one *)
Lemma claim_string raw s : dec_perms raw = None -> dec_str raw = Some s ->
  claim_perms dec_perms dec_str raw = dec_perms s.
Proof. unfold claim_perms. intros -> ->. reflexivity. Qed.

(* anything else is rejected *)
Lemma claim_garbage raw : dec_perms raw = None ->
  (dec_str raw = None \/ exists s, dec_str raw = Some s /\ dec_perms s = None) ->
  claim_perms dec_perms dec_str raw = None.
Proof. unfold claim_perms. intros -> [->|(s & -> & ->)]; reflexivity. Qed.

Theorem claim_forms arr str ps :
  dec_perms arr = Some ps -> dec_perms str = None -> dec_str str = Some arr ->
  claim_perms dec_perms dec_str arr = Some ps /\ claim_perms dec_perms dec_str str = Some ps.
Proof. intros Ha Hs Hd. split; [apply claim_array; exact Ha|]. rewrite (claim_string str arr Hs Hd). exact Ha. Qed.

(* a verified token without the claim, or with an undecodable claim, is rejected *)
Theorem jwt_missing_claim ex inq r tok sub :
  get_token (in_query_flag true inq) r = tok -> jwt_parse tok = Some (sub, None) ->
  excluded rx ex r = false ->
  forall u, authenticate_jwt rx jwt_parse dec_perms dec_str ex true inq r <> Granted u.
Proof.
  intros Ht Hp Hex u H. apply jwt_iff in H. destruct H as [[N _]|(_ & _ & _ & raw & ps & E & _)]; [congruence|].
  rewrite Ht in E. congruence.
Qed.

End Decision.

(* ---- issuer / audience: the parser options of authenticateJWT ------------------------------ *)

Lemma opt_issuer_spec c s : s <> [] -> (opt_ok c (WithIssuer s) = true <-> jc_iss c = s).
Proof.
  intros Hs. unfold opt_ok. destruct s as [|x s']; [congruence|].
  destruct (jc_iss c) as [|y i'] eqn:Ei.
  - split; [discriminate|]. intros N. discriminate.
  - apply list_eqb_eq.
Qed.

Lemma existsb_eqb_in s auds : existsb (fun a => list_eqb a s) auds = true <-> In s auds.
Proof.
  rewrite existsb_exists. split.
  - intros (a & Hin & E). apply list_eqb_eq in E. subst. exact Hin.
  - intros Hin. exists s. split; [exact Hin|apply list_eqb_refl].
Qed.

Lemma opt_audience_spec c s : s <> [] -> (opt_ok c (WithAudience s) = true <-> In s (jc_aud c)).
Proof.
  intros Hs. unfold opt_ok. destruct (jc_aud c) as [|a [|b l]] eqn:Ea.
  - split; [discriminate|]. intros [].
  - destruct a as [|x a'].
    + split; [discriminate|]. intros [E|[]]. congruence.
    + apply existsb_eqb_in.
  - destruct a; apply existsb_eqb_in.
Qed.

(* which options are passed *)
Lemma parser_opts_in issuer audience o :
  In o (parser_opts issuer audience) <->
  (o = WithIssuer issuer /\ issuer <> []) \/ (o = WithAudience audience /\ audience <> []).
Proof.
  unfold parser_opts. destruct issuer as [|x i]; destruct audience as [|y a]; cbn [app In]; split.
  - intros [].
  - intros [[_ N]|[_ N]]; congruence.
  - intros [<-|[]]. right. split; [reflexivity|discriminate].
  - intros [[_ N]|[-> _]]; [congruence|]. left. reflexivity.
  - intros [<-|[]]. left. split; [reflexivity|discriminate].
  - intros [[-> _]|[_ N]]; [|congruence]. left. reflexivity.
  - intros [<-|[<-|[]]]; [left|right]; (split; [reflexivity|discriminate]).
  - intros [[-> _]|[-> _]]; [left|right; left]; reflexivity.
Qed.

(* the options accept the claims iff each configured setting is satisfied - independently of the other *)
Lemma parser_opts_ok c issuer audience :
  forallb (opt_ok c) (parser_opts issuer audience) = true <->
  (issuer = [] \/ jc_iss c = issuer) /\ (audience = [] \/ In audience (jc_aud c)).
Proof.
  rewrite forallb_forall. split.
  - intros H. split.
    + destruct issuer as [|x i] eqn:Ei; [left; reflexivity|right]. rewrite <- Ei in *.
      apply opt_issuer_spec; [congruence|]. apply H. apply parser_opts_in. left. split; [reflexivity|congruence].
    + destruct audience as [|y a] eqn:Ea; [left; reflexivity|right]. rewrite <- Ea in *.
      apply opt_audience_spec; [congruence|]. apply H. apply parser_opts_in. right. split; [reflexivity|congruence].
  - intros [Hi Ha] o Ho. apply parser_opts_in in Ho. destruct Ho as [[-> Ne]|[-> Ne]].
    + apply opt_issuer_spec; [exact Ne|]. destruct Hi; congruence.
    + apply opt_audience_spec; [exact Ne|]. destruct Ha; congruence.
Qed.

Lemma parse_with_claims_iff jwt_verify issuer audience tok sub raw :
  parse_with_claims jwt_verify (parser_opts issuer audience) tok = Some (sub, raw) <->
  exists c, jwt_verify tok = Some c /\ sub = jc_sub c /\ raw = jc_raw c /\
            (issuer = [] \/ jc_iss c = issuer) /\ (audience = [] \/ In audience (jc_aud c)).
Proof.
  unfold parse_with_claims. destruct (jwt_verify tok) as [c|].
  - destruct (forallb (opt_ok c) (parser_opts issuer audience)) eqn:Ef.
    + apply parser_opts_ok in Ef. split.
      * intros [= <- <-]. exists c. tauto.
      * intros (c' & [= <-] & -> & -> & _). reflexivity.
    + split; [discriminate|]. intros (c' & [= <-] & _ & _ & H). apply parser_opts_ok in H. congruence.
  - split; [discriminate|]. intros (c' & N & _). discriminate.
Qed.

Section Configured.
Variable rx : list Z -> list Z -> bool.
Variable jwt_verify : list Z -> option jclaims.
Variable dec_perms : list Z -> option (list perm).
Variable dec_str : list Z -> option (list Z).

Theorem jwt_cfg_iff issuer audience ex jwks_ok inq r u :
  authenticate_jwt_cfg rx jwt_verify dec_perms dec_str issuer audience ex jwks_ok inq r = Granted u <->
  (excluded rx ex r = true /\ u = []) \/
  (excluded rx ex r = false /\ jwks_ok = true /\
   let tok := get_token (in_query_flag true inq) r in
   tok <> [] /\
   exists c raw ps, jwt_verify tok = Some c /\ u = jc_sub c /\
                    (issuer = [] \/ jc_iss c = issuer) /\ (audience = [] \/ In audience (jc_aud c)) /\
                    jc_raw c = Some raw /\ claim_perms dec_perms dec_str raw = Some ps /\
                    matches_permission rx ps (x_action r) (x_path r) = true).
Proof.
  unfold authenticate_jwt_cfg. rewrite jwt_iff. cbv zeta. split.
  - intros [H|(Ex & Jk & Nt & raw & ps & Hp & Hc & Hm)]; [left; exact H|right].
    apply parse_with_claims_iff in Hp. destruct Hp as (c & Hv & Hs & Hr & Hi & Ha).
    repeat split; try assumption. exists c, raw, ps. repeat split; auto.
  - intros [H|(Ex & Jk & Nt & c & raw & ps & Hv & Hs & Hi & Ha & Hr & Hc & Hm)]; [left; exact H|right].
    repeat split; try assumption. exists raw, ps. repeat split; try assumption.
    apply parse_with_claims_iff. exists c. repeat split; auto.
Qed.

(* each configured setting is enforced whatever the other one is *)
Theorem jwt_cfg_wrong_issuer issuer audience ex jwks_ok inq r c :
  issuer <> [] -> excluded rx ex r = false ->
  jwt_verify (get_token (in_query_flag true inq) r) = Some c -> jc_iss c <> issuer ->
  forall u, authenticate_jwt_cfg rx jwt_verify dec_perms dec_str issuer audience ex jwks_ok inq r <> Granted u.
Proof.
  intros Ni Ex Hv Hw u H. apply jwt_cfg_iff in H. cbv zeta in H.
  destruct H as [[N _]|(_ & _ & _ & c' & raw & ps & Hv' & _ & Hi & _)]; [congruence|].
  rewrite Hv in Hv'. injection Hv' as <-. destruct Hi; congruence.
Qed.

Theorem jwt_cfg_wrong_audience issuer audience ex jwks_ok inq r c :
  audience <> [] -> excluded rx ex r = false ->
  jwt_verify (get_token (in_query_flag true inq) r) = Some c -> ~ In audience (jc_aud c) ->
  forall u, authenticate_jwt_cfg rx jwt_verify dec_perms dec_str issuer audience ex jwks_ok inq r <> Granted u.
Proof.
  intros Na Ex Hv Hw u H. apply jwt_cfg_iff in H. cbv zeta in H.
  destruct H as [[N _]|(_ & _ & _ & c' & raw & ps & Hv' & _ & _ & Ha & _)]; [congruence|].
  rewrite Hv in Hv'. injection Hv' as <-. destruct Ha; [congruence|contradiction].
Qed.

(* settings that are not configured do not restrict: a token granted under (issuer, audience) is granted under ("", "") *)
Theorem jwt_cfg_unset_monotone issuer audience ex jwks_ok inq r u :
  authenticate_jwt_cfg rx jwt_verify dec_perms dec_str issuer audience ex jwks_ok inq r = Granted u ->
  authenticate_jwt_cfg rx jwt_verify dec_perms dec_str [] [] ex jwks_ok inq r = Granted u.
Proof.
  rewrite !jwt_cfg_iff. cbv zeta.
  intros [H|(Ex & Jk & Nt & c & raw & ps & Hv & Hs & _ & _ & Hr)]; [left; exact H|right].
  repeat split; try assumption. exists c, raw, ps. repeat split; try tauto; left; reflexivity.
Qed.

Theorem jwt_cfg_ask issuer audience ex jwks_ok inq r a :
  authenticate_jwt_cfg rx jwt_verify dec_perms dec_str issuer audience ex jwks_ok inq r = Denied a ->
  (a = true <-> x_ask r = true /\ x_user r = [] /\ x_pass r = [] /\ get_token (in_query_flag true inq) r = []).
Proof. unfold authenticate_jwt_cfg. apply jwt_ask. Qed.

End Configured.

(* ====================================================================================== *)
(* 3. the posted JSON body decodes to the request's fields                                 *)

Definition lit_null : list Z := [110; 117; 108; 108].

Definition parse_val (s : list Z) : option (jval * list Z) :=
  if has_prefix lit_null s then Some (JNull, skipn 4 s)
  else match parse_string s with Some (v, r) => Some (JStr v, r) | None => None end.

(* "key":value ( ,"key":value )* }   with string or null values, no white space (what json.Marshal emits) *)
Fixpoint parse_mem (fuel : nat) (s : list Z) : option (list (list Z * jval) * list Z) :=
  match fuel with
  | O => None
  | S f =>
    match parse_string s with
    | None => None
    | Some (k, s1) =>
      match s1 with
      | c1 :: s2 =>
        if c1 =? 58 then
          match parse_val s2 with
          | None => None
          | Some (v, s3) =>
            match s3 with
            | c2 :: s4 =>
                if c2 =? 125 then Some ([(k, v)], s4)
                else if c2 =? 44 then
                  match parse_mem f s4 with
                  | Some (ms, rest) => Some ((k, v) :: ms, rest)
                  | None => None
                  end
                else None
            | [] => None
            end
          end
        else None
      | [] => None
      end
    end
  end.

Definition parse_obj (s : list Z) : option (list (list Z * jval) * list Z) :=
  match s with
  | c :: r => if c =? 123 then
                match r with
                | c' :: r' => if c' =? 125 then Some ([], r') else parse_mem (length s) r
                | [] => None
                end
              else None
  | [] => None
  end.

Definition san_val (v : jval) : jval := match v with JStr s => JStr (sanitize s) | JNull => JNull end.
Definition san_member (m : list Z * jval) : list Z * jval := (sanitize (fst m), san_val (snd m)).
Definition bytes_val (v : jval) : Prop := match v with JStr s => Utf8.bytes s | JNull => True end.
Definition bytes_member (m : list Z * jval) : Prop := Utf8.bytes (fst m) /\ bytes_val (snd m).

Lemma json_string_head s t : exists r, json_string s ++ t = 34 :: r.
Proof. unfold json_string. cbn [app]. eauto. Qed.

Lemma parse_val_enc v tail : bytes_val v -> parse_val (enc_val v ++ tail) = Some (san_val v, tail).
Proof.
  destruct v as [s|]; cbn [enc_val bytes_val san_val]; intros Hb.
  - unfold parse_val. destruct (json_string_head s tail) as [r Er]. rewrite Er.
    change (has_prefix lit_null (34 :: r)) with false. cbn iota. rewrite <- Er.
    rewrite (parse_json_string s tail Hb). reflexivity.
  - reflexivity.
Qed.

Lemma parse_mem_enc ms : forall fuel tail, ms <> [] -> Forall bytes_member ms -> (length ms <= fuel)%nat ->
  parse_mem fuel (enc_members ms ++ tail) = Some (map san_member ms, tail).
Proof.
  induction ms as [|[k v] ms IH]; intros fuel tail Hne Hb Hf; [congruence|].
  inversion Hb as [|? ? [Hk Hv] Hb']; subst. cbn [fst snd] in Hk, Hv.
  destruct fuel as [|f]; [cbn [length] in Hf; lia|].
  destruct ms as [|m ms'].
  - cbn [enc_members]. rewrite <- !app_assoc. cbn [parse_mem].
    rewrite (parse_json_string k _ Hk). cbn [app]. rewrite Z.eqb_refl.
    rewrite (parse_val_enc v _ Hv). cbn [app]. rewrite Z.eqb_refl. reflexivity.
  - change (enc_members ((k, v) :: m :: ms')) with (json_string k ++ [58] ++ enc_val v ++ [44] ++ enc_members (m :: ms')).
    rewrite <- !app_assoc. cbn [parse_mem].
    rewrite (parse_json_string k _ Hk). cbn [app]. rewrite Z.eqb_refl.
    rewrite (parse_val_enc v _ Hv). cbn [app]. change (44 =? 125) with false. cbn iota. rewrite Z.eqb_refl.
    rewrite (IH f tail) by (try discriminate; try assumption; cbn [length] in *; lia).
    reflexivity.
Qed.

Lemma enc_members_len ms : (length ms <= length (enc_members ms))%nat.
Proof.
  induction ms as [|[k v] ms IH]; [cbn; lia|]. destruct ms as [|m ms'].
  - cbn [enc_members length]. rewrite !app_length. cbn [length]. lia.
  - change (enc_members ((k, v) :: m :: ms')) with (json_string k ++ [58] ++ enc_val v ++ [44] ++ enc_members (m :: ms')).
    rewrite !app_length. cbn [length] in *. lia.
Qed.

Definition req_bytes (r : xreq) (tok : list Z) : Prop :=
  Utf8.bytes (x_ipstr r) /\ Utf8.bytes (x_user r) /\ Utf8.bytes (x_pass r) /\ Utf8.bytes tok /\ Utf8.bytes (x_action r) /\
  Utf8.bytes (x_path r) /\ Utf8.bytes (x_proto r) /\ match x_id r with Some u => Utf8.bytes u | None => True end /\
  Utf8.bytes (x_query r) /\ Utf8.bytes (x_agent r).

Lemma bytes_lit (s : list Z) : forallb (fun c => (0 <=? c) && (c <? 256)) s = true -> Utf8.bytes s.
Proof.
  intros H. unfold Utf8.bytes. apply Forall_forall. intros c Hc. rewrite forallb_forall in H. specialize (H c Hc).
  unfold is_byte. lia.
Qed.

(* the JSON the auth server receives is an object whose ten members, in order, are the request's fields
   (each string as encoding/json transmits it: ill-formed UTF-8 replaced by U+FFFD, nothing else changed) *)
Theorem http_body_decodes r tok : req_bytes r tok ->
  parse_obj (http_body r tok) =
  Some ([ ([105; 112], JStr (sanitize (x_ipstr r)));
          ([117; 115; 101; 114], JStr (sanitize (x_user r)));
          ([112; 97; 115; 115; 119; 111; 114; 100], JStr (sanitize (x_pass r)));
          ([116; 111; 107; 101; 110], JStr (sanitize tok));
          ([97; 99; 116; 105; 111; 110], JStr (sanitize (x_action r)));
          ([112; 97; 116; 104], JStr (sanitize (x_path r)));
          ([112; 114; 111; 116; 111; 99; 111; 108], JStr (sanitize (x_proto r)));
          ([105; 100], match x_id r with Some u => JStr (sanitize u) | None => JNull end);
          ([113; 117; 101; 114; 121], JStr (sanitize (x_query r)));
          ([117; 115; 101; 114; 65; 103; 101; 110; 116], JStr (sanitize (x_agent r))) ], []).
Proof.
  intros (H1 & H2 & H3 & H4 & H5 & H6 & H7 & H8 & H9 & H10).
  unfold http_body, parse_obj. rewrite Z.eqb_refl.
  destruct (enc_members (body_fields r tok)) as [|c' r'] eqn:Ee.
  { exfalso. unfold body_fields in Ee. cbn [enc_members] in Ee. unfold json_string in Ee. discriminate. }
  assert (Hc : (c' =? 125) = false).
  { unfold body_fields in Ee. cbn [enc_members] in Ee. unfold json_string in Ee. cbn [app] in Ee.
    injection Ee as <- _. reflexivity. }
  rewrite Hc. rewrite <- Ee. rewrite <- (app_nil_r (enc_members (body_fields r tok))).
  rewrite parse_mem_enc.
  - unfold body_fields. cbn [map san_member san_val fst snd].
    destruct (x_id r); reflexivity.
  - unfold body_fields. discriminate.
  - unfold body_fields.
    repeat (apply Forall_cons; [split; cbn [fst snd bytes_val]; [apply bytes_lit; reflexivity|try assumption]|]);
      [|apply Forall_nil].
    revert H8. destruct (x_id r); intros H8; [exact H8|exact I].
  - rewrite app_nil_r. pose proof (enc_members_len (body_fields r tok)). cbn [length]. lia.
Qed.

(* with well-formed UTF-8 fields nothing is altered at all *)
Corollary http_body_exact r tok : req_bytes r tok ->
  valid_utf8 (x_user r) = true -> valid_utf8 (x_pass r) = true -> valid_utf8 tok = true ->
  valid_utf8 (x_path r) = true -> valid_utf8 (x_query r) = true ->
  exists ms, parse_obj (http_body r tok) = Some (ms, []) /\
    In ([117; 115; 101; 114], JStr (x_user r)) ms /\
    In ([112; 97; 115; 115; 119; 111; 114; 100], JStr (x_pass r)) ms /\
    In ([116; 111; 107; 101; 110], JStr tok) ms /\
    In ([112; 97; 116; 104], JStr (x_path r)) ms /\
    In ([113; 117; 101; 114; 121], JStr (x_query r)) ms.
Proof.
  intros Hb Vu Vp Vt Vpath Vq. pose proof Hb as (H1 & H2 & H3 & H4 & H5 & H6 & H7 & H8 & H9 & H10).
  eexists. split; [apply http_body_decodes; exact Hb|].
  rewrite (sanitize_valid _ H2 Vu), (sanitize_valid _ H3 Vp), (sanitize_valid _ H4 Vt),
          (sanitize_valid _ H6 Vpath), (sanitize_valid _ H9 Vq).
  cbn [In]. repeat split; tauto.
Qed.
