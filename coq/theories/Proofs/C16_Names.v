(* C16, manager level: proofs over Model/C16_Names.v.
   With the wait of doClosePath (for every configuration), after every schedule: while an instance of the
   name is tearing down there is no other instance, so at most one instance exists - and therefore at most
   one is occupied, at most one publisher is attached to the name and at most one stream exists.
   Every instance state is a state of the path loop reachable from its creation (so the per-instance
   theorems of Proofs/PathSM*.v apply to it).  The variants that do not wait are refuted by witness. *)
From Coq Require Import List ZArith Bool Lia.
Require Import MTX.Lib.Trace MTX.Model.PathSM MTX.Model.C16_Names.
Import ListNotations.
Local Open Scope Z_scope.

Definition nfinal (wp : pconf -> bool) := final (nstep wp).
Definition ntrace (wp : pconf -> bool) := trace (nstep wp).

Definition NInv (ns : nstate) : Prop :=
  n_dying ns = [] \/ (n_live ns = None /\ exists x, n_dying ns = [x]).

Section Waits.
  Variable wp : pconf -> bool.
  Hypothesis wp_all : forall cf, wp cf = true.

  Lemma blocked_false_nil ns : blocked wp ns = false -> n_dying ns = [].
  Proof.
    unfold blocked. destruct (n_dying ns) as [|x r]; [reflexivity|].
    simpl. rewrite wp_all. discriminate.
  Qed.

  Lemma blocked_cons ns x r : n_dying ns = x :: r -> blocked wp ns = true.
  Proof. intros H. unfold blocked. rewrite H. simpl. rewrite wp_all. reflexivity. Qed.

  Lemma mgr_continue_dying ns : n_dying (fst (mgr_continue wp ns)) = n_dying ns.
  Proof.
    unfold mgr_continue. destruct (n_todo ns && negb (blocked wp ns)); [|reflexivity].
    destruct (n_conf ns); [destruct (n_live ns)|]; reflexivity.
  Qed.

  Lemma mgr_continue_blocked ns : blocked wp ns = true -> mgr_continue wp ns = (ns, []).
  Proof. intros H. unfold mgr_continue. rewrite H, andb_false_r. reflexivity. Qed.

  Lemma mgr_continue_inv ns : NInv ns -> NInv (fst (mgr_continue wp ns)).
  Proof.
    intros [H | [Hl [x Hx]]].
    - left. rewrite mgr_continue_dying. exact H.
    - rewrite mgr_continue_blocked by (eapply blocked_cons; exact Hx).
      right. split; [exact Hl | exists x; exact Hx].
  Qed.

  Lemma on_live_dying o ns : n_dying (fst (on_live o ns)) = n_dying ns.
  Proof. unfold on_live. destruct (n_live ns) as [x|]; [|reflexivity]. destruct (step (i_st x) o). reflexivity. Qed.

  Lemma on_live_none o ns : n_live ns = None -> on_live o ns = (ns, []).
  Proof. intros H. unfold on_live. rewrite H. reflexivity. Qed.

  Lemma handle_req_dying o ns : n_dying (fst (handle_req o ns)) = n_dying ns.
  Proof.
    unfold handle_req. destruct (negb (creates o)); [reflexivity|].
    destruct (n_conf ns) as [cf|]; [|reflexivity].
    destruct (n_live ns) as [x|] eqn:El.
    - pose proof (on_live_dying o ns) as H. destruct (on_live o ns). exact H.
    - simpl. pose proof (on_live_dying o (fst (create cf ns))) as H. unfold create in *. simpl in *.
      destruct (on_live o _). simpl in *. exact H.
  Qed.

  Lemma close_live_inv ns : n_dying ns = [] -> NInv (close_live ns).
  Proof.
    intros H. unfold close_live. destruct (n_live ns) as [x|] eqn:El.
    - right. simpl. split; [reflexivity|]. rewrite H. eexists. reflexivity.
    - left. exact H.
  Qed.

  Lemma ninv_set_conf v ns : NInv ns -> NInv (set_conf v ns).
  Proof. intros H. exact H. Qed.
  Lemma ninv_set_todo v ns : NInv ns -> NInv (set_todo v ns).
  Proof. intros H. exact H. Qed.

  Lemma handle_reload_inv k ns : n_dying ns = [] -> NInv (fst (handle_reload wp k ns)).
  Proof.
    intros H. destruct k as [| |cf'| |cf']; simpl.
    - left. exact H.
    - left. rewrite on_live_dying. exact H.
    - destruct (n_conf ns); [|left; exact H].
      apply mgr_continue_inv, ninv_set_todo, ninv_set_conf, close_live_inv, H.
    - destruct (n_conf ns); [|left; exact H].
      simpl. apply ninv_set_conf, close_live_inv, H.
    - destruct (n_conf ns); [left; exact H|].
      apply mgr_continue_inv. left. exact H.
  Qed.

  Lemma tick_list_nil i : tick_list i [] = ([], []).
  Proof. reflexivity. Qed.

  Lemma tick_list_one i x : fst (tick_list i [x]) = [] \/ exists x', fst (tick_list i [x]) = [x'].
  Proof.
    simpl. destruct (i_id x =? i).
    - destruct (i_pend x) as [|e [|e' p]]; [left; reflexivity | left; reflexivity | right; eexists; reflexivity].
    - right. eexists. reflexivity.
  Qed.

  Lemma nstep_inv ns sc : NInv ns -> NInv (fst (nstep wp ns sc)).
  Proof.
    intros HI. destruct sc as [m | i o | i]; simpl.
    - destruct (blocked wp ns) eqn:Eb; [exact HI|].
      apply blocked_false_nil in Eb. destruct m as [o | k].
      + left. rewrite handle_req_dying. exact Eb.
      + apply handle_reload_inv, Eb.
    - assert (Hgone : forall ns', NInv ns' -> NInv (fst (gone i o ns'))) by (intros ns' H; exact H).
      assert (Hlive : NInv (fst (on_live o ns))).
      { destruct HI as [H | [Hl [x Hx]]].
        - left. rewrite on_live_dying. exact H.
        - rewrite on_live_none by exact Hl. right. split; [exact Hl | exists x; exact Hx]. }
      destruct o; try exact HI;
        (destruct (n_live ns) as [x|]; [destruct (i_id x =? i); [exact Hlive | apply Hgone, HI] | apply Hgone, HI]).
    - destruct (tick_list i (n_dying ns)) as [d ev1] eqn:Et.
      assert (Hd : NInv (set_dying d ns)).
      { destruct HI as [H | [Hl [x Hx]]].
        - rewrite H in Et. simpl in Et. injection Et as <- <-. left. reflexivity.
        - rewrite Hx in Et. pose proof (tick_list_one i x) as Ht. rewrite Et in Ht. simpl in Ht.
          destruct Ht as [-> | [x' ->]].
          + left. reflexivity.
          + right. split; [exact Hl | exists x'; reflexivity]. }
      pose proof (mgr_continue_inv _ Hd) as Hc.
      destruct (mgr_continue wp (set_dying d ns)) as [ns2 ev2]. exact Hc.
  Qed.

  Lemma ninit_inv cf : NInv (ninit cf).
  Proof. left. reflexivity. Qed.

  Lemma ninv_always cf scs : NInv (nfinal wp (ninit cf) scs).
  Proof. unfold nfinal. apply invariant_lift; [intros s o; apply nstep_inv | apply ninit_inv]. Qed.

  Lemma ninv_instances ns : NInv ns -> (length (instances ns) <= 1)%nat.
  Proof.
    unfold instances. intros [H | [Hl [x Hx]]].
    - rewrite H. destruct (n_live ns); simpl; lia.
    - rewrite Hl, Hx. simpl. lia.
  Qed.

  Lemma flat_map_le1 {A B} (f : A -> list B) (l : list A) :
    (length l <= 1)%nat -> (forall a, length (f a) <= 1)%nat -> (length (flat_map f l) <= 1)%nat.
  Proof.
    intros Hl Hf. destruct l as [|a [|b r]]; simpl in *; [lia | rewrite app_nil_r; apply Hf | lia].
  Qed.

  Lemma filter_len_le {A} (f : A -> bool) (l : list A) : (length (filter f l) <= length l)%nat.
  Proof. induction l as [|a r IH]; simpl; [lia|]. destruct (f a); simpl; lia. Qed.

  (* the theorem: after every schedule *)
  Theorem c16_name_one_instance cf scs :
    let ns := nfinal wp (ninit cf) scs in
    (n_dying ns <> [] -> n_live ns = None) /\
    (length (n_dying ns) <= 1)%nat /\
    (length (instances ns) <= 1)%nat /\
    (length (filter occupied (instances ns)) <= 1)%nat /\
    (length (attached_pubs ns) <= 1)%nat /\
    (length (streams ns) <= 1)%nat.
  Proof.
    intros ns. pose proof (ninv_always cf scs) as HI. fold ns in HI.
    pose proof (ninv_instances ns HI) as Hn.
    split; [|split; [|split; [exact Hn|split; [|split]]]].
    - intros Hd. destruct HI as [H | [Hl _]]; [contradiction | exact Hl].
    - destruct HI as [H | [_ [x Hx]]]; [rewrite H | rewrite Hx]; simpl; lia.
    - pose proof (filter_len_le occupied (instances ns)). lia.
    - unfold attached_pubs. apply flat_map_le1; [exact Hn|]. intros x. destruct (s_source (i_st x)); simpl; lia.
    - unfold streams. apply flat_map_le1; [exact Hn|]. intros x. destruct (s_stream (i_st x)); simpl; lia.
  Qed.
End Waits.

(* ---- every instance state is a reachable state of the path loop ----------------------------------- *)
Definition reachable (s : pstate) : Prop := exists cf ops, s = final step (init_state cf) ops.
Definition NReach (ns : nstate) : Prop := forall x, In x (instances ns) -> reachable (i_st x).

Lemma reachable_init cf : reachable (init_state cf).
Proof. exists cf, []. reflexivity. Qed.

Lemma reachable_step s o : reachable s -> reachable (fst (step s o)).
Proof.
  intros [cf [ops ->]]. exists cf, (ops ++ [o]). rewrite final_app, final_cons. reflexivity.
Qed.

Lemma in_instances ns x : In x (instances ns) <-> n_live ns = Some x \/ In x (n_dying ns).
Proof.
  unfold instances. rewrite in_app_iff. destruct (n_live ns) as [y|]; simpl; split; intros H.
  - destruct H as [[-> | []] | H]; [left; reflexivity | right; exact H].
  - destruct H as [H | H]; [injection H as ->; left; left; reflexivity | right; exact H].
  - destruct H as [[] | H]. right. exact H.
  - destruct H as [H | H]; [discriminate | right; exact H].
Qed.

Lemma nreach_same ns ns' :
  n_live ns' = n_live ns -> n_dying ns' = n_dying ns -> NReach ns -> NReach ns'.
Proof.
  intros Hl Hd H x Hx. apply H. apply in_instances in Hx. apply in_instances. rewrite <- Hl, <- Hd. exact Hx.
Qed.

Lemma nreach_create cf ns : NReach ns -> NReach (fst (create cf ns)).
Proof.
  intros H x Hx. apply in_instances in Hx. simpl in Hx. destruct Hx as [Hx | Hx].
  - injection Hx as <-. apply reachable_init.
  - apply H, in_instances. right. exact Hx.
Qed.

Lemma nreach_mgr_continue wp ns : NReach ns -> NReach (fst (mgr_continue wp ns)).
Proof.
  intros H. unfold mgr_continue. destruct (n_todo ns && negb (blocked wp ns)); [|exact H].
  destruct (n_conf ns) as [cf|]; [destruct (n_live ns) eqn:El|].
  - simpl. eapply nreach_same; [| |exact H]; reflexivity.
  - apply nreach_create, H.
  - simpl. eapply nreach_same; [| |exact H]; reflexivity.
Qed.

Lemma nreach_on_live o ns : NReach ns -> NReach (fst (on_live o ns)).
Proof.
  intros H. unfold on_live. destruct (n_live ns) as [y|] eqn:El; [|exact H].
  destruct (step (i_st y) o) as [s' evs] eqn:Es. simpl.
  intros x Hx. apply in_instances in Hx. simpl in Hx. destruct Hx as [Hx | Hx].
  - injection Hx as <-. simpl. replace s' with (fst (step (i_st y) o)) by (rewrite Es; reflexivity).
    apply reachable_step, H, in_instances. left. exact El.
  - apply H, in_instances. right. exact Hx.
Qed.

Lemma nreach_close_live ns : NReach ns -> NReach (close_live ns).
Proof.
  intros H. unfold close_live. destruct (n_live ns) as [y|] eqn:El; [|exact H].
  intros x Hx. apply in_instances in Hx. simpl in Hx. destruct Hx as [Hx | Hx]; [discriminate|].
  apply in_app_iff in Hx. destruct Hx as [Hx | [<- | []]].
  - apply H, in_instances. right. exact Hx.
  - simpl. apply H, in_instances. left. exact El.
Qed.

Lemma tick_list_in i l x : In x (fst (tick_list i l)) -> exists y, In y l /\ i_st x = i_st y.
Proof.
  induction l as [|a r IH]; simpl; [intros []|].
  destruct (i_id a =? i).
  - destruct (i_pend a) as [|e [|e' p]]; simpl; intros Hx.
    + exists x. split; [right; exact Hx | reflexivity].
    + exists x. split; [right; exact Hx | reflexivity].
    + destruct Hx as [<- | Hx]; [exists a; split; [left; reflexivity | reflexivity] | exists x; split; [right; exact Hx | reflexivity]].
  - destruct (tick_list i r) as [r' ev]. simpl in *. intros [<- | Hx].
    + exists a. split; [left; reflexivity | reflexivity].
    + destruct (IH Hx) as [y [Hy E]]. exists y. split; [right; exact Hy | exact E].
Qed.

Lemma nstep_reach wp ns sc : NReach ns -> NReach (fst (nstep wp ns sc)).
Proof.
  intros H. destruct sc as [m | i o | i]; simpl.
  - destruct (blocked wp ns); [exact H|]. destruct m as [o | k].
    + unfold handle_req. destruct (negb (creates o)); [exact H|].
      destruct (n_conf ns) as [cf|]; [|exact H].
      destruct (n_live ns) as [y|] eqn:El.
      * pose proof (nreach_on_live o ns H) as H1. destruct (on_live o ns). exact H1.
      * pose proof (nreach_on_live o _ (nreach_create cf ns H)) as H1. unfold create in *. simpl in *.
        destruct (on_live o _). exact H1.
    + destruct k as [| |cf'| |cf']; simpl.
      * exact H.
      * apply nreach_on_live, H.
      * destruct (n_conf ns); [|exact H]. apply nreach_mgr_continue.
        eapply nreach_same; [| |apply nreach_close_live, H]; reflexivity.
      * destruct (n_conf ns); [|exact H]. simpl.
        eapply nreach_same; [| |apply nreach_close_live, H]; reflexivity.
      * destruct (n_conf ns); [exact H|]. apply nreach_mgr_continue.
        eapply nreach_same; [| |exact H]; reflexivity.
  - pose proof (nreach_on_live o ns H) as Hl.
    destruct o; try exact H;
      (destruct (n_live ns) as [y|]; [destruct (i_id y =? i); [exact Hl | exact H] | exact H]).
  - destruct (tick_list i (n_dying ns)) as [d ev1] eqn:Et.
    assert (Hd : NReach (set_dying d ns)).
    { intros x Hx. apply in_instances in Hx. simpl in Hx. destruct Hx as [Hx | Hx].
      - apply H, in_instances. left. exact Hx.
      - replace d with (fst (tick_list i (n_dying ns))) in Hx by (rewrite Et; reflexivity).
        destruct (tick_list_in _ _ _ Hx) as [y [Hy E]]. rewrite E. apply H, in_instances. right. exact Hy. }
    pose proof (nreach_mgr_continue wp _ Hd) as Hc.
    destruct (mgr_continue wp (set_dying d ns)). exact Hc.
Qed.

Theorem c16_name_instances_reachable wp cf scs x :
  In x (instances (nfinal wp (ninit cf) scs)) -> reachable (i_st x).
Proof.
  revert x. change (NReach (nfinal wp (ninit cf) scs)). unfold nfinal.
  apply invariant_lift; [intros s o; apply nstep_reach|].
  intros x Hx. apply in_instances in Hx. simpl in Hx. destruct Hx as [Hx | []].
  injection Hx as <-. apply reachable_init.
Qed.

(* ---- the variants that do not wait ------------------------------------------------------------------ *)
Definition pub_conf (override : bool) (maxr : Z) : pconf :=
  mkConf false false override maxr false false false false false false false.

(* publisher 1 attached, one reader; a reload that changes maxReaders; publisher 2 arrives *)
Definition race_sched : list sched :=
  [SHandle (MReq (AddPublisher 1 1 true)); SHandle (MReq (AddReader 2 1));
   SHandle (MReload (RRecreate (pub_conf false 5)));
   SHandle (MReq (AddPublisher 3 2 true))].

Lemma race_static_only :
  let ns := nfinal wait_static_only (ninit (pub_conf false 0)) race_sched in
  attached_pubs ns = [(1, 2); (0, 1)] /\ streams ns = [(1, 0); (0, 0)] /\
  In (NEv 1 (EAnswer 3 (AStream 0))) (ntrace wait_static_only (ninit (pub_conf false 0)) race_sched) /\
  ~ In (NEv 0 (EPubClosed 1)) (ntrace wait_static_only (ninit (pub_conf false 0)) race_sched).
Proof.
  vm_compute. repeat split; try reflexivity.
  - right. right. right. right. right. right. right. right. right. left. reflexivity.
  - intros H. repeat (destruct H as [H | H]; [discriminate|]). exact H.
Qed.

Lemma race_waits :
  let ns := nfinal wait_always (ninit (pub_conf false 0)) race_sched in
  attached_pubs ns = [(0, 1)] /\ n_live ns = None /\
  ntrace wait_always (ninit (pub_conf false 0)) race_sched =
    [NEv 0 (EOpen HAvail); NEv 0 (EOpen HOnline); NEv 0 (EPathReady 0); NEv 0 (EAnswer 1 (AStream 0));
     NEv 0 (EAnswer 2 (AStream 0))].
Proof. vm_compute. repeat split; reflexivity. Qed.
