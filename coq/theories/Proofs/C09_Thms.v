(* C09: the statements used by Props/C09.v, in terms of load_env / env_of. *)
From Coq Require Import List ZArith Bool Lia.
Require Import MTX.Model.C09_Env MTX.Model.C09_EnvSpec MTX.Proofs.C09_Strings MTX.Proofs.C09_Restrict MTX.Proofs.C09_Equiv.
Import ListNotations.
Local Open Scope Z_scope.

Section Thms.
Variable OR : oracles.

Lemma load_env_restrict t E p d : load_env OR false t E p d = load_env OR false t (below p E) p d.
Proof.
  unfold load_env. destruct t; try (rewrite !load_val_nonptr by reflexivity; rewrite (loadp_restrict OR _ E); reflexivity).
  destruct d; try reflexivity. rewrite !load_val_ptr, (loadp_restrict OR _ E). reflexivity.
Qed.

(* variables outside the prefix change nothing *)
Theorem unrelated_untouched t E E' p d :
  below p E = below p E' -> load_env OR false t E p d = load_env OR false t E' p d.
Proof. intros H. rewrite (load_env_restrict t E), (load_env_restrict t E'), H. reflexivity. Qed.

(* no variable below the prefix: the previous (file) value is kept *)
Theorem unset_keeps_file t E p d :
  wf_ty t = true -> wt t d = true -> below p E = [] -> load_env OR false t E p d = Ok d.
Proof.
  intros Hwf Hwt HR. rewrite load_env_restrict, HR. unfold load_env. apply (proj1 (keep_all OR)); assumption.
Qed.

(* the variables below the prefix are the canonical spelling of v: v is loaded, whatever the previous value d
   (up to dom) and whatever else the environment contains *)
Theorem env_equiv t E p d v :
  wf_ty t = true -> is_ptr t = false -> wt t v = true -> wt t d = true ->
  expressible OR t v = true -> dom OR t d v = true ->
  below p E = env_of OR t p v ->
  load_env OR false t E p d = Ok v.
Proof.
  intros Hwf Hp Hwv Hwd Hex Hdom HR. unfold load_env. rewrite load_val_nonptr by exact Hp.
  rewrite (proj1 (proj1 (main_all OR) t) E p (Some d) v); try assumption; [reflexivity|discriminate].
Qed.

Lemma below_env_of t p v : below p (env_of OR t p v) = env_of OR t p v.
Proof. apply R_all. intros k Hk. apply (proj1 (keys_all OR) t p v k Hk). Qed.

Theorem env_equiv_exact t p d v :
  wf_ty t = true -> is_ptr t = false -> wt t v = true -> wt t d = true ->
  expressible OR t v = true -> dom OR t d v = true ->
  load_env OR false t (env_of OR t p v) p d = Ok v.
Proof. intros. apply env_equiv; try assumption. apply below_env_of. Qed.

(* field by field: a parameter whose variables are set takes the variables' value, the others keep the file's *)
Theorem struct_pointwise : forall fs E p dvs vs,
  wf_fields fs = true -> wts fs dvs = true -> field_rel OR fs E p dvs vs ->
  load_env OR false (TStruct fs) E p (VStruct dvs) = Ok (VStruct vs).
Proof.
  intros fs E p dvs vs Hwf Hwd Hrel.
  assert (H : load_fields OR false fs E p dvs = Ok vs).
  { revert dvs vs Hwf Hwd Hrel. induction fs as [|tag ft fs IH]; intros dvs vs Hwf Hwd Hrel.
    - destruct dvs, vs; try contradiction. reflexivity.
    - destruct dvs as [|d dvs]; [contradiction|]. destruct vs as [|v vs]; [contradiction|].
      simpl in Hwf, Hwd. apply andb_true_iff in Hwf as [Hwf Hwff]. apply andb_true_iff in Hwf as [_ Hwft].
      apply andb_true_iff in Hwd as [Hwd1 Hwd2]. destruct Hrel as [Hhead Hrel].
      rewrite load_fields_cons_eq.
      assert (Hv : load_val OR false ft E (sub p (fname tag)) d = Ok v).
      { destruct Hhead as [[HR ->]|[Hwv [Hex [Hdom HR]]]].
        - apply load_val_keep; assumption.
        - apply (proj2 (proj1 (main_all OR) ft)); assumption. }
      rewrite Hv. cbn [bind]. rewrite (IH dvs vs) by assumption. reflexivity. }
  unfold load_env, load_val. simpl. rewrite H. reflexivity.
Qed.

End Thms.

(* ---- the pinned loader (Unmarshaler sub-key probe without separator) breaks "unset keeps the file's value" ---- *)
Definition pin_oracles : oracles :=
  {| cparse := fun _ s => match s with [] => None | _ => Some s end; ctext := fun _ c => c; czero := fun _ => [];
     fparse := fun s => Some s; fzero := [48] |}.
Definition pin_p : str := [77; 84; 88; 95; 65; 85; 84; 72; 77; 69; 84; 72; 79; 68].          (* MTX_AUTHMETHOD *)
Definition pin_E : env := [(pin_p ++ [83], [98; 97; 115; 105; 99])].                      (* MTX_AUTHMETHODS=basic *)
Definition pin_d : value := VCustom [105; 110; 116; 101; 114; 110; 97; 108].              (* internal *)

Theorem pinned_refuted :
  exists OR t E p d, wf_ty t = true /\ wt t d = true /\ filter (fun kv => under p (fst kv)) E = [] /\
    load_env OR true t E p d <> Ok d /\ load_env OR false t E p d = Ok d.
Proof.
  exists pin_oracles, (TCustom 0), pin_E, pin_p, pin_d. vm_compute. repeat split; try reflexivity. discriminate.
Qed.
