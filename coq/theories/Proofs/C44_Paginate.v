(* Proofs about Model/C44_Paginate.v *)
From Coq Require Import List ZArith Lia Bool ZifyBool.
Require Import MTX.Lib.IntWrap MTX.Model.C44_Paginate.
Import ListNotations.
Local Open Scope Z_scope.

(* ---------------- generic list chunking (nat) ---------------- *)

Lemma firstn_add {A} (a b : nat) (l : list A) :
  firstn (a + b) l = firstn a l ++ firstn b (skipn a l).
Proof.
  revert l; induction a as [|a IH]; intros l; simpl; [reflexivity|].
  destruct l as [|x l]; simpl; [now destruct b|]. now rewrite IH.
Qed.

Definition chunk {A} (k : nat) (xs : list A) (p : nat) : list A := firstn k (skipn (p * k) xs).

Lemma concat_chunks {A} (k n : nat) (xs : list A) :
  concat (map (chunk k xs) (seq 0 n)) = firstn (n * k) xs.
Proof.
  induction n as [|n IH]; [reflexivity|].
  rewrite seq_S, map_app, concat_app, IH. simpl. rewrite app_nil_r.
  unfold chunk. rewrite (Nat.add_comm k), firstn_add. reflexivity.
Qed.

Lemma chunk_length {A} k (xs : list A) p : (length (chunk k xs p) <= k)%nat.
Proof. unfold chunk. rewrite firstn_length. lia. Qed.

Lemma chunk_past_end {A} k (xs : list A) p : (length xs <= p * k)%nat -> chunk k xs p = [].
Proof. intros H. unfold chunk. rewrite skipn_all2 by exact H. now destruct k. Qed.

(* ---------------- parse_uint31 ---------------- *)

Definition all_digits (s : list Z) : Prop := Forall (fun c => 48 <= c <= 57) s.
Fixpoint dec_value (acc : Z) (s : list Z) : Z :=
  match s with [] => acc | c :: r => dec_value (acc * 10 + (c - 48)) r end.

Lemma digits_val_spec s : forall acc v,
  digits_val acc s = Some v <-> all_digits s /\ v = dec_value acc s.
Proof.
  induction s as [|c r IH]; intros acc v; simpl.
  - split; [intros H; inversion H; split; [constructor|reflexivity] | intros [_ ->]; reflexivity].
  - unfold is_digit. destruct (48 <=? c) eqn:E1; destruct (c <=? 57) eqn:E2; simpl;
      try (split; [discriminate | intros [H _]; inversion H; subst; lia]).
    rewrite IH. split; intros [H1 H2]; split; try assumption.
    + constructor; [lia|assumption].
    + now inversion H1.
Qed.

Lemma parse_uint31_spec s v :
  parse_uint31 s = Some v <-> s <> [] /\ all_digits s /\ v = dec_value 0 s /\ v < two31.
Proof.
  unfold parse_uint31. destruct s as [|c r]; [split; [discriminate | intros [H _]; congruence]|].
  destruct (digits_val 0 (c :: r)) as [w|] eqn:E.
  - apply digits_val_spec in E. destruct E as [Hd ->].
    destruct (Z.ltb_spec (dec_value 0 (c :: r)) two31) as [El|El].
    + split; [intros H; inversion H; subst; repeat split; try assumption; discriminate|].
      intros (_ & _ & -> & _); reflexivity.
    + split; [discriminate | intros (_ & _ & -> & H); lia].
  - split; [discriminate|]. intros (_ & Hd & -> & _).
    assert (digits_val 0 (c :: r) = Some (dec_value 0 (c :: r))) as H by (apply digits_val_spec; auto).
    congruence.
Qed.

Lemma dec_value_nonneg s : forall acc, 0 <= acc -> all_digits s -> 0 <= dec_value acc s.
Proof.
  induction s as [|c r IH]; intros acc Ha Hd; simpl; [exact Ha|].
  inversion Hd; subst. apply IH; [lia|assumption].
Qed.

Lemma parse_uint31_range s v : parse_uint31 s = Some v -> 0 <= v < two31.
Proof.
  intros H. apply parse_uint31_spec in H. destruct H as (_ & Hd & -> & Hlt).
  split; [apply dec_value_nonneg; [lia|exact Hd] | exact Hlt].
Qed.

(* ---------------- paginate2 without wrap-around ---------------- *)

Definition ceil_div (len ipp : Z) : Z := Z.quot len ipp + (if Z.rem len ipp =? 0 then 0 else 1).

Lemma paginate2_exact len ipp page :
  0 < len < 2 ^ 62 -> 0 < ipp < two31 -> 0 <= page -> (page + 1) * ipp < 2 ^ 63 ->
  paginate2 len ipp page =
    Page (ceil_div len ipp) (Z.min (page * ipp) len) (Z.min ((page + 1) * ipp) len).
Proof.
  intros Hl Hi Hp Hb. unfold paginate2, two31 in *.
  assert (len =? 0 = false) as -> by lia.
  assert (0 <= page * ipp < 2 ^ 63) by nia.
  assert (0 <= (page + 1) * ipp < 2 ^ 63) by nia.
  assert (page + 1 < 2 ^ 63) by nia.
  assert (0 <= Z.quot len ipp <= len).
  { split; [apply Z.quot_pos; lia|]. apply Z.quot_le_upper_bound; nia. }
  rewrite (wrap64_id (page + 1)) by (unfold in_int64, two63; lia).
  rewrite (wrap64_id (page * ipp)) by (unfold in_int64, two63; lia).
  rewrite (wrap64_id ((page + 1) * ipp)) by (unfold in_int64, two63; lia).
  rewrite wrap64_id by (unfold in_int64, two63; destruct (Z.rem len ipp =? 0); lia).
  assert ((0 <=? Z.min (page * ipp) len) && (Z.min (page * ipp) len <=? Z.min ((page + 1) * ipp) len) = true) as ->.
  { apply andb_true_intro; split; apply Z.leb_le; lia. }
  reflexivity.
Qed.

Lemma paginate2_no_panic len ipp page :
  0 <= len < 2 ^ 62 -> 0 < ipp < two31 -> 0 <= page < two31 -> paginate2 len ipp page <> Panics.
Proof.
  intros Hl Hi Hp. destruct (Z.eq_dec len 0) as [->|Hn]; [discriminate|].
  rewrite paginate2_exact by (unfold two31 in *; nia). discriminate.
Qed.

Lemma ceil_div_spec len ipp : 0 <= len -> 0 < ipp ->
  len <= ceil_div len ipp * ipp < len + ipp.
Proof.
  intros Hl Hi. unfold ceil_div.
  pose proof (Z.quot_rem' len ipp) as E. pose proof (Z.rem_bound_pos len ipp Hl Hi) as B.
  destruct (Z.rem len ipp =? 0) eqn:R; nia.
Qed.

(* ---------------- pages as chunks ---------------- *)

Lemma page_items_chunk {A} (xs : list A) ipp page :
  Z.of_nat (length xs) < 2 ^ 62 -> 0 < ipp < two31 -> 0 <= page -> (page + 1) * ipp < 2 ^ 63 ->
  page_items xs ipp page = chunk (Z.to_nat ipp) xs (Z.to_nat page).
Proof.
  intros Hl Hi Hp Hb. unfold page_items, chunk.
  destruct xs as [|x xs'] eqn:Ex.
  - simpl. destruct (Z.to_nat page * Z.to_nat ipp)%nat; destruct (Z.to_nat ipp); reflexivity.
  - rewrite <- Ex in *. assert (0 < Z.of_nat (length xs)) by (subst xs; simpl; lia).
    rewrite paginate2_exact by lia.
    set (len := Z.of_nat (length xs)) in *.
    destruct (Z_le_gt_dec len (page * ipp)) as [Hge|Hlt].
    + (* page past the end *)
      rewrite !Z.min_r by nia. rewrite Z.sub_diag. simpl.
      rewrite (skipn_all2 xs) by (unfold len in Hge; nia). now destruct (Z.to_nat ipp).
    + rewrite (Z.min_l (page * ipp)) by lia.
      replace (Z.to_nat (page * ipp)) with (Z.to_nat page * Z.to_nat ipp)%nat by nia.
      destruct (Z_le_gt_dec ((page + 1) * ipp) len) as [Hin|Hout].
      * rewrite Z.min_l by lia. f_equal. nia.
      * rewrite Z.min_r by lia.
        rewrite !firstn_all2; try reflexivity; rewrite skipn_length; unfold len in *; nia.
Qed.

Lemma page_count_exact len ipp : 0 < len < 2 ^ 62 -> 0 < ipp < two31 -> page_count len ipp = ceil_div len ipp.
Proof. intros Hl Hi. unfold page_count. rewrite paginate2_exact by (unfold two31 in *; lia). reflexivity. Qed.

Lemma small_page_ok ipp page : 0 < ipp < two31 -> 0 <= page < two31 -> (page + 1) * ipp < 2 ^ 63.
Proof. unfold two31. intros. nia. Qed.

Lemma pages_concat {A} (xs : list A) ipp :
  Z.of_nat (length xs) < 2 ^ 62 -> 0 < ipp < two31 ->
  concat (map (fun p => page_items xs ipp (Z.of_nat p))
              (seq 0 (Z.to_nat (page_count (Z.of_nat (length xs)) ipp)))) = xs.
Proof.
  intros Hl Hi. destruct xs as [|x xs'] eqn:Ex; [reflexivity|]. rewrite <- Ex in *.
  assert (0 < Z.of_nat (length xs)) as Hpos by (subst xs; simpl; lia).
  rewrite page_count_exact by lia.
  pose proof (ceil_div_spec (Z.of_nat (length xs)) ipp ltac:(lia) ltac:(lia)) as Hc.
  set (n := ceil_div (Z.of_nat (length xs)) ipp) in *.
  assert (0 <= n <= Z.of_nat (length xs)) as Hn.
  { split.
    - destruct (Z_lt_le_dec n 0) as [Hneg|]; [|assumption]. exfalso. nia.
    - destruct (Z_lt_le_dec (Z.of_nat (length xs)) n) as [Hbig|]; [|assumption]. exfalso.
      assert (n - 1 >= Z.of_nat (length xs)) by lia. nia. }
  rewrite map_ext_in with (g := chunk (Z.to_nat ipp) xs).
  - rewrite concat_chunks. apply firstn_all2. nia.
  - intros p Hp. apply in_seq in Hp. rewrite page_items_chunk; unfold two31 in *; try lia.
    + now rewrite Nat2Z.id.
    + nia.
Qed.

Lemma page_size {A} (xs : list A) ipp page :
  Z.of_nat (length xs) < 2 ^ 62 -> 0 < ipp < two31 -> 0 <= page < two31 ->
  Z.of_nat (length (page_items xs ipp page)) <= ipp.
Proof.
  intros. rewrite page_items_chunk by (try apply small_page_ok; try assumption; lia).
  pose proof (chunk_length (Z.to_nat ipp) xs (Z.to_nat page)). lia.
Qed.

Lemma page_past_end {A} (xs : list A) ipp page :
  Z.of_nat (length xs) < 2 ^ 62 -> 0 < ipp < two31 -> 0 <= page < two31 ->
  page_count (Z.of_nat (length xs)) ipp <= page -> page_items xs ipp page = [].
Proof.
  intros Hl Hi Hp Hc. rewrite page_items_chunk by (try apply small_page_ok; try assumption; lia). apply chunk_past_end.
  destruct xs as [|x xs'] eqn:Ex; [simpl; lia|]. rewrite <- Ex in *.
  assert (0 < Z.of_nat (length xs)) as Hpos by (subst xs; simpl; lia).
  rewrite page_count_exact in Hc by lia.
  pose proof (ceil_div_spec (Z.of_nat (length xs)) ipp ltac:(lia) ltac:(lia)). nia.
Qed.

(* ---------------- paginate: rejection ---------------- *)

Definition valid_ipp (s : list Z) : Prop := s = [] \/ exists v, parse_uint31 s = Some v /\ v <> 0.
Definition valid_page (s : list Z) : Prop := s = [] \/ exists v, parse_uint31 s = Some v.

Lemma paginate_rejects_iff len i p :
  0 <= len < 2 ^ 62 -> (paginate len i p = Rejected <-> ~ (valid_ipp i /\ valid_page p)).
Proof.
  intros Hl. unfold paginate, valid_ipp, valid_page.
  assert (forall ipp page, 0 < ipp < two31 -> 0 <= page < two31 -> paginate2 len ipp page <> Rejected) as NR.
  { intros ipp page H1 H2. unfold paginate2. destruct (len =? 0); [discriminate|].
    destruct (_ && _); discriminate. }
  destruct i as [|ic ir].
  - (* default 100 *) simpl (100 =? 0).
    destruct p as [|pc pr].
    + split; [intros H; exfalso; revert H; apply NR; unfold two31; lia | intros H; exfalso; apply H; auto].
    + destruct (parse_uint31 (pc :: pr)) as [v|] eqn:E.
      * pose proof (parse_uint31_range _ _ E).
        split; [intros H'; exfalso; revert H'; apply NR; unfold two31 in *; lia|].
        intros H'; exfalso; apply H'; split; [auto | right; eauto].
      * split; [|reflexivity]. intros _ [_ [Hc|[v Hv]]]; congruence.
  - destruct (parse_uint31 (ic :: ir)) as [v|] eqn:E.
    + pose proof (parse_uint31_range _ _ E) as Rv.
      destruct (v =? 0) eqn:Z0.
      * split; [|reflexivity]. intros _ [[Hc|[w [Hw Hnz]]] _]; [congruence|]. inversion Hw; subst; lia.
      * destruct p as [|pc pr].
        -- split; [intros H'; exfalso; revert H'; apply NR; unfold two31 in *; lia|].
           intros H'; exfalso; apply H'; split; [right; exists v; split; [reflexivity|lia] | auto].
        -- destruct (parse_uint31 (pc :: pr)) as [w|] eqn:Ep.
           ++ pose proof (parse_uint31_range _ _ Ep).
              split; [intros H'; exfalso; revert H'; apply NR; unfold two31 in *; lia|].
              intros H'; exfalso; apply H'; split; [right; exists v; split; [reflexivity|lia] | right; eauto].
           ++ split; [|reflexivity]. intros _ [_ [Hc|[w Hw]]]; congruence.
    + split; [|reflexivity]. intros _ [[Hc|[w [Hw _]]] _]; congruence.
Qed.

Lemma paginate_no_panic len i p : 0 <= len < 2 ^ 62 -> paginate len i p <> Panics.
Proof.
  intros Hl. unfold paginate.
  destruct (match i with [] => Some 100 | _ :: _ => parse_uint31 i end) as [ipp|] eqn:Ei; [|discriminate].
  assert (0 <= ipp < two31) as Ri.
  { destruct i; [inversion Ei; unfold two31; lia | eapply parse_uint31_range; eassumption]. }
  destruct (ipp =? 0) eqn:Z0; [discriminate|].
  destruct (match p with [] => Some 0 | _ :: _ => parse_uint31 p end) as [page|] eqn:Ep; [|discriminate].
  assert (0 <= page < two31) as Rp.
  { destruct p; [inversion Ep; unfold two31; lia | eapply parse_uint31_range; eassumption]. }
  apply paginate2_no_panic; lia.
Qed.
