(* C08 — IPv6 networks: netip.parseIPv6 inverts netip.Addr.appendTo6 for every 128-bit address, and
   IPNetwork.UnmarshalJSON inverts IPNetwork.MarshalJSON for every prefix length 0..128. *)
From Coq Require Import List ZArith Bool Lia Arith.
Require Import MTX.Lib.IntWrap MTX.Model.C08_Scalars MTX.Model.C08_Net6 MTX.Proofs.C08_Dec MTX.Proofs.C08_Codecs.
Import ListNotations.
Local Open Scope Z_scope.

(* ------------------------------------------------------------------ hex groups *)

Definition is_hex (c : Z) : bool := match hexval c with Some _ => true | None => false end.
Definition validg (g : Z) : Prop := 0 <= g < 65536.

Lemma hex_scan_app h : forall r acc off,
  forallb is_hex h = true -> match r with [] => True | c :: _ => hexval c = None end ->
  hex_scan (h ++ r) acc off =
  match hex_scan h acc off with Some (a, o, _) => Some (a, o, r) | None => None end.
Proof.
  induction h as [|c h IH]; intros r acc off Hh Hr.
  - cbn [app hex_scan]. destruct r as [|c r]; [reflexivity|]. cbn [hex_scan]. rewrite Hr. reflexivity.
  - cbn [forallb] in Hh. apply andb_true_iff in Hh as [Hc Hh]. unfold is_hex in Hc.
    cbn [app hex_scan]. destruct (hexval c) as [d|]; [|discriminate].
    destruct (off >? 3); [reflexivity|]. destruct (acc * 16 + d >? 65535); [reflexivity|].
    apply IH; assumption.
Qed.

Definition hex_ok (x : Z) : bool :=
  match hex_scan (hex16 x) 0 0 with
  | Some (a, o, []) => (a =? x) && (1 <=? o) && forallb is_hex (hex16 x)
  | _ => false
  end.

Lemma hex_sweep : forallb hex_ok (map Z.of_nat (seq 0 (Z.to_nat 65536))) = true.
Proof. vm_compute. reflexivity. Qed.

Lemma hex16_spec x : validg x ->
  forallb is_hex (hex16 x) = true /\ exists o, 1 <= o /\ hex_scan (hex16 x) 0 0 = Some (x, o, []).
Proof.
  intros Hx. pose proof (range_forallb (Z.to_nat 65536) _ hex_sweep x ltac:(rewrite Z2Nat.id by lia; exact Hx)) as H.
  unfold hex_ok in H. destruct (hex_scan (hex16 x) 0 0) as [[[a o] [|? ?]]|]; try discriminate.
  apply andb_true_iff in H as [H H3]. apply andb_true_iff in H as [H1 H2].
  apply Z.eqb_eq in H1. apply Z.leb_le in H2. subst a. split; [exact H3|]. exists o. split; [exact H2|reflexivity].
Qed.

Lemma hex16_head x : validg x -> exists c r, hex16 x = c :: r /\ is_hex c = true.
Proof.
  intros Hx. destruct (hex16_spec x Hx) as [Hh [o [Ho Hs]]].
  destruct (hex16 x) as [|c r] eqn:E.
  - cbn in Hs. inversion Hs. lia.
  - exists c, r. split; [reflexivity|]. cbn [forallb] in Hh. apply andb_true_iff in Hh. tauto.
Qed.

Lemma is_hex_chars c : is_hex c = true ->
  (c =? 58) = false /\ (c =? 46) = false /\ (c =? 47) = false /\ (c =? 37) = false.
Proof.
  unfold is_hex, hexval. intros H.
  destruct ((48 <=? c) && (c <=? 57)) eqn:E1; [lia|].
  destruct ((97 <=? c) && (c <=? 102)) eqn:E2; [lia|].
  destruct ((65 <=? c) && (c <=? 70)) eqn:E3; [lia|discriminate].
Qed.

Lemma hexval_colon : hexval 58 = None.
Proof. reflexivity. Qed.

(* ------------------------------------------------------------------ one iteration of the loop *)

Definition gbytes (g : Z) : list Z := [g / 256; g mod 256].

Lemma loop_step_end g f i ell acc : validg g -> i < 16 ->
  v6_loop (S f) (hex16 g) i ell acc = Some ([], i + 2, ell, acc ++ gbytes g).
Proof.
  intros Hg Hi. destruct (hex16_spec g Hg) as [_ [o [Ho Hs]]].
  cbn [v6_loop]. replace (i >=? 16) with false by lia. rewrite Hs.
  replace (o =? 0) with false by lia. reflexivity.
Qed.

Lemma loop_step_colon g f i ell acc c s' : validg g -> i < 16 -> is_hex c = true ->
  v6_loop (S f) (hex16 g ++ 58 :: c :: s') i ell acc = v6_loop f (c :: s') (i + 2) ell (acc ++ gbytes g).
Proof.
  intros Hg Hi Hc. destruct (hex16_spec g Hg) as [Hh [o [Ho Hs]]].
  cbn [v6_loop]. replace (i >=? 16) with false by lia.
  rewrite (hex_scan_app (hex16 g) (58 :: c :: s') 0 0 Hh hexval_colon), Hs.
  replace (o =? 0) with false by lia. cbn [Z.eqb Pos.eqb negb].
  destruct (is_hex_chars c Hc) as [H58 _]. rewrite H58. reflexivity.
Qed.

Lemma loop_step_ell_end g f i acc : validg g -> i < 16 ->
  v6_loop (S f) (hex16 g ++ [58; 58]) i None acc = Some ([], i + 2, Some (i + 2), acc ++ gbytes g).
Proof.
  intros Hg Hi. destruct (hex16_spec g Hg) as [Hh [o [Ho Hs]]].
  cbn [v6_loop]. replace (i >=? 16) with false by lia.
  rewrite (hex_scan_app (hex16 g) [58; 58] 0 0 Hh hexval_colon), Hs.
  replace (o =? 0) with false by lia. reflexivity.
Qed.

Lemma loop_step_ell g f i acc c s' : validg g -> i < 16 ->
  v6_loop (S f) (hex16 g ++ 58 :: 58 :: c :: s') i None acc =
  v6_loop f (c :: s') (i + 2) (Some (i + 2)) (acc ++ gbytes g).
Proof.
  intros Hg Hi. destruct (hex16_spec g Hg) as [Hh [o [Ho Hs]]].
  cbn [v6_loop]. replace (i >=? 16) with false by lia.
  rewrite (hex_scan_app (hex16 g) (58 :: 58 :: c :: s') 0 0 Hh hexval_colon), Hs.
  replace (o =? 0) with false by lia. reflexivity.
Qed.

(* ------------------------------------------------------------------ a colon-separated list of groups *)

Definition gtext (gs : list Z) : list Z := join_colon (map hex16 gs).

Lemma gtext_cons g g' gs : gtext (g :: g' :: gs) = hex16 g ++ 58 :: gtext (g' :: gs).
Proof. unfold gtext, join_colon. cbn [map flat_map app]. reflexivity. Qed.

Lemma gtext_one g : gtext [g] = hex16 g.
Proof. unfold gtext, join_colon. cbn [map flat_map]. apply app_nil_r. Qed.

Lemma gtext_head g gs : validg g -> exists c r, gtext (g :: gs) = c :: r /\ is_hex c = true.
Proof.
  intros Hg. destruct (hex16_head g Hg) as [c [r [E Hc]]].
  destruct gs as [|g' gs]; [rewrite gtext_one|rewrite gtext_cons]; rewrite E; cbn [app]; eauto.
Qed.

Lemma hex16_len x : (1 <= length (hex16 x))%nat.
Proof. unfold hex16. rewrite !app_length. cbn [length]. lia. Qed.

Lemma gtext_length l : (length l <= length (gtext l))%nat.
Proof.
  unfold gtext, join_colon. destruct l as [|x l]; [cbn; lia|].
  cbn [map length]. rewrite app_length.
  assert (length l <= length (flat_map (fun y => 58%Z :: y) (map hex16 l)))%nat; [|pose proof (hex16_len x); lia].
  induction l as [|y l IH]; [cbn; lia|]. cbn [map flat_map length]. rewrite app_length. cbn [length]. lia.
Qed.

Lemma bytes_of_cons g gs : bytes_of (g :: gs) = gbytes g ++ bytes_of gs.
Proof. reflexivity. Qed.

Lemma bytes_of_app a b : bytes_of (a ++ b) = bytes_of a ++ bytes_of b.
Proof. unfold bytes_of. apply flat_map_app. Qed.

Lemma bytes_of_length gs : length (bytes_of gs) = (2 * length gs)%nat.
Proof. induction gs as [|g gs IH]; [reflexivity|]. rewrite bytes_of_cons, app_length, IH. cbn [gbytes length]. lia. Qed.

(* the groups end the text *)
Lemma loop_groups_end gs : forall g f i ell acc,
  Forall validg (g :: gs) -> i + 2 * Z.of_nat (length (g :: gs)) <= 16 -> (length (g :: gs) <= f)%nat ->
  v6_loop f (gtext (g :: gs)) i ell acc =
  Some ([], i + 2 * Z.of_nat (length (g :: gs)), ell, acc ++ bytes_of (g :: gs)).
Proof.
  induction gs as [|g' gs IH]; intros g f i ell acc Hv Hi Hf.
  - inversion Hv as [|? ? Hg _]; subst. cbn [length] in *. destruct f as [|f]; [lia|].
    rewrite gtext_one, loop_step_end by (try assumption; lia).
    rewrite bytes_of_cons. cbn [bytes_of flat_map]. rewrite app_nil_r. reflexivity.
  - inversion Hv as [|? ? Hg Hv']; subst. destruct f as [|f]; [cbn [length] in Hf; lia|].
    inversion Hv' as [|? ? Hg' _]; subst.
    rewrite gtext_cons. destruct (gtext_head g' gs Hg') as [c [r [E Hc]]]. rewrite E.
    rewrite loop_step_colon by (try assumption; cbn [length] in Hi; lia). rewrite <- E.
    rewrite IH; [|assumption|cbn [length] in *; lia|cbn [length] in *; lia].
    rewrite (bytes_of_cons g), <- app_assoc.
    replace (i + 2 + 2 * Z.of_nat (length (g' :: gs))) with (i + 2 * Z.of_nat (length (g :: g' :: gs))) by (cbn [length]; lia).
    reflexivity.
Qed.

(* the groups are followed by "::" and then by the end or by more text *)
Lemma loop_groups_ell gs : forall g f i acc tl,
  Forall validg (g :: gs) -> i + 2 * Z.of_nat (length (g :: gs)) <= 16 ->
  let i' := i + 2 * Z.of_nat (length (g :: gs)) in
  let acc' := acc ++ bytes_of (g :: gs) in
  v6_loop (length (g :: gs) + f) (gtext (g :: gs) ++ 58 :: 58 :: tl) i None acc =
  match tl with
  | [] => Some ([], i', Some i', acc')
  | _ => v6_loop f tl i' (Some i') acc'
  end.
Proof.
  induction gs as [|g' gs IH]; intros g f i acc tl Hv Hi; cbv zeta.
  - inversion Hv as [|? ? Hg _]; subst. cbn [length Nat.add] in *.
    rewrite gtext_one, bytes_of_cons. cbn [bytes_of flat_map]. rewrite app_nil_r.
    destruct tl as [|c s'].
    + rewrite loop_step_ell_end by (try assumption; lia). reflexivity.
    + rewrite loop_step_ell by (try assumption; lia). reflexivity.
  - inversion Hv as [|? ? Hg Hv']; subst. inversion Hv' as [|? ? Hg' _]; subst.
    rewrite gtext_cons. destruct (gtext_head g' gs Hg') as [c [r [E Hc]]].
    rewrite <- app_assoc. cbn [app]. rewrite E. cbn [app length Nat.add].
    rewrite loop_step_colon by (try assumption; cbn [length] in Hi; lia).
    change (c :: r ++ 58 :: 58 :: tl) with ((c :: r) ++ 58 :: 58 :: tl). rewrite <- E.
    pose proof (IH g' f (i + 2) (acc ++ gbytes g) tl Hv') as IH'. cbv zeta in IH'. cbn [length] in IH', Hi |- *.
    change (S (length gs + f)) with (S (length gs) + f)%nat. rewrite IH' by lia. rewrite (bytes_of_cons g), <- app_assoc.
    replace (i + 2 + 2 * Z.of_nat (S (length gs))) with (i + 2 * Z.of_nat (S (S (length gs)))) by lia.
    reflexivity.
Qed.

(* ------------------------------------------------------------------ the zero run *)

Lemma zrun_spec g : (zrun g <= length g)%nat /\ firstn (zrun g) g = repeat 0 (zrun g).
Proof.
  induction g as [|x g [IH1 IH2]]; [split; [apply Nat.le_refl|reflexivity]|].
  cbn [zrun]. destruct (x =? 0) eqn:E.
  - apply Z.eqb_eq in E. subst x. cbn [length firstn repeat]. rewrite IH2. split; [lia|reflexivity].
  - split; [cbn [length]; lia|reflexivity].
Qed.

Definition run_ok (full : list Z) (best : option (nat * nat)) : Prop :=
  match best with
  | None => True
  | Some (s, e) => (s + 2 <= e)%nat /\ (e <= length full)%nat /\ firstn (e - s) (skipn s full) = repeat 0 (e - s)
  end.

Lemma best_run_ok g : forall pre best, run_ok (pre ++ g) best -> run_ok (pre ++ g) (best_run g (length pre) best).
Proof.
  induction g as [|x g IH]; intros pre best Hb; [exact Hb|].
  cbn [best_run].
  replace (pre ++ x :: g) with ((pre ++ [x]) ++ g) in * by (rewrite <- app_assoc; reflexivity).
  replace (S (length pre)) with (length (pre ++ [x])) by (rewrite app_length; cbn [length]; lia).
  apply IH.
  destruct ((2 <=? zrun (x :: g))%nat && _) eqn:E; [|exact Hb].
  apply andb_true_iff in E as [E1 _]. apply Nat.leb_le in E1.
  destruct (zrun_spec (x :: g)) as [Z1 Z2].
  unfold run_ok. rewrite <- app_assoc. cbn [app].
  split; [lia|]. split; [rewrite app_length; lia|].
  replace (length pre + zrun (x :: g) - length pre)%nat with (zrun (x :: g)) by lia.
  rewrite skipn_app, Nat.sub_diag, skipn_all. cbn [app skipn]. exact Z2.
Qed.

Lemma skipn_add {A} m : forall n (l : list A), skipn n (skipn m l) = skipn (m + n) l.
Proof.
  induction m as [|m IH]; intros n l; [reflexivity|].
  destruct l as [|x l]; [cbn [skipn Nat.add]; apply skipn_nil|]. cbn [skipn Nat.add]. apply IH.
Qed.

Lemma run_split full s e : run_ok full (Some (s, e)) ->
  full = firstn s full ++ repeat 0 (e - s) ++ skipn e full.
Proof.
  intros (H1 & H2 & H3).
  rewrite <- (firstn_skipn s full) at 1. f_equal.
  rewrite <- (firstn_skipn (e - s) (skipn s full)) at 1. rewrite H3. f_equal.
  rewrite skipn_add. f_equal. lia.
Qed.

Lemma bytes_of_zeros n : bytes_of (repeat 0 n) = repeat 0 (2 * n).
Proof.
  induction n as [|n IH]; [reflexivity|]. cbn [repeat]. rewrite bytes_of_cons, IH.
  replace (2 * S n)%nat with (S (S (2 * n))) by lia. reflexivity.
Qed.

(* ------------------------------------------------------------------ characters of the text *)

Definition v6_char (c : Z) : bool := is_hex c || (c =? 58).

Lemma gtext_chars gs : Forall validg gs -> forallb v6_char (gtext gs) = true.
Proof.
  intros Hv. unfold gtext, join_colon. destruct gs as [|g gs]; [reflexivity|].
  inversion Hv as [|? ? Hg Hv']; subst. cbn [map]. rewrite forallb_app. apply andb_true_iff. split.
  - destruct (hex16_spec g Hg) as [Hh _]. rewrite forallb_forall in *. intros c Hc. unfold v6_char. rewrite (Hh c Hc). reflexivity.
  - clear Hg Hv. induction gs as [|g' gs IH]; [reflexivity|]. inversion Hv' as [|? ? Hg' Hv'']; subst.
    cbn [map flat_map]. cbn [app forallb]. rewrite forallb_app. rewrite IH by assumption.
    destruct (hex16_spec g' Hg') as [Hh _].
    assert (forallb v6_char (hex16 g') = true) as ->.
    { rewrite forallb_forall in *. intros c Hc. unfold v6_char. rewrite (Hh c Hc). reflexivity. }
    reflexivity.
Qed.

Lemma v6_char_not c : v6_char c = true -> (c =? 46) = false /\ (c =? 47) = false /\ (c =? 37) = false.
Proof.
  unfold v6_char. intros H. apply orb_true_iff in H as [H|H].
  - destruct (is_hex_chars c H) as (_ & A & B & C). auto.
  - apply Z.eqb_eq in H. subst. auto.
Qed.

Lemma addr_kind_v6 s : forallb v6_char s = true -> In 58 s -> addr_kind_of s = AKv6.
Proof.
  induction s as [|c s IH]; intros Hs Hin; [contradiction|].
  cbn [forallb] in Hs. apply andb_true_iff in Hs as [Hc Hs]. cbn [addr_kind_of].
  destruct (v6_char_not c Hc) as (A & _ & C). rewrite A.
  destruct (c =? 58) eqn:E; [reflexivity|]. rewrite C.
  apply IH; [exact Hs|]. destruct Hin as [Hin|Hin]; [lia|exact Hin].
Qed.

Lemma cut_slash_v6 p : forall q, forallb v6_char p = true -> cut_slash (p ++ 47 :: q) = Some (p, q).
Proof.
  induction p as [|c p IH]; intros q Hp; [reflexivity|].
  cbn [forallb] in Hp. apply andb_true_iff in Hp as [Hc Hp]. cbn [app cut_slash].
  destruct (v6_char_not c Hc) as (_ & B & _). rewrite B, IH by exact Hp. reflexivity.
Qed.

Lemma no_percent s : forallb v6_char s = true -> existsb (Z.eqb 37) s = false.
Proof.
  induction s as [|c s IH]; intros Hs; [reflexivity|].
  cbn [forallb] in Hs. apply andb_true_iff in Hs as [Hc Hs]. cbn [existsb].
  destruct (v6_char_not c Hc) as (_ & _ & C). rewrite Z.eqb_sym, C. apply IH, Hs.
Qed.

(* ------------------------------------------------------------------ bytes and groups *)

Definition byte (b : Z) : Prop := 0 <= b <= 255.

Lemma group_split a b : byte a -> byte b -> validg (a * 256 + b) /\ gbytes (a * 256 + b) = [a; b].
Proof.
  unfold byte, validg, gbytes. intros Ha Hb. split; [lia|].
  assert (E1 : (a * 256 + b) / 256 = a) by (rewrite Z.div_add_l by lia; rewrite Z.div_small by lia; lia).
  assert (E2 : (a * 256 + b) mod 256 = b) by (rewrite (Z.add_comm (a * 256) b), Z.mod_add by lia; apply Z.mod_small; lia).
  rewrite E1, E2. reflexivity.
Qed.

Lemma groups_bytes n : forall ip, length ip = (2 * n)%nat -> Forall byte ip ->
  bytes_of (groups_of ip) = ip /\ Forall validg (groups_of ip) /\ length (groups_of ip) = n.
Proof.
  induction n as [|n IH]; intros ip Hl Hb.
  - destruct ip; [|discriminate]. repeat split. constructor.
  - destruct ip as [|a [|b r]]; try (cbn [length] in Hl; lia).
    inversion Hb as [|? ? Ha Hb1]; subst. inversion Hb1 as [|? ? Hbb Hr]; subst.
    destruct (IH r ltac:(cbn [length] in Hl; lia) Hr) as (I1 & I2 & I3).
    destruct (group_split a b Ha Hbb) as [G1 G2].
    cbn [groups_of]. rewrite bytes_of_cons, G2, I1. cbn [length]. repeat split; [constructor; assumption|lia].
Qed.

(* ------------------------------------------------------------------ parse (print ip) = ip *)

Lemma Forall_firstn {A} (P : A -> Prop) n : forall l, Forall P l -> Forall P (firstn n l).
Proof.
  induction n as [|n IH]; intros l H; [constructor|]. destruct l as [|x l]; [constructor|].
  inversion H; subst. cbn [firstn]. constructor; [assumption|apply IH; assumption].
Qed.
Lemma Forall_skipn {A} (P : A -> Prop) n : forall l, Forall P l -> Forall P (skipn n l).
Proof.
  induction n as [|n IH]; intros l H; [exact H|]. destruct l as [|x l]; [constructor|].
  inversion H; subst. cbn [skipn]. apply IH; assumption.
Qed.

Lemma lead_false c r : is_hex c = true ->
  (match c :: r with c1 :: c2 :: _ => (c1 =? 58) && (c2 =? 58) | _ => false end) = false.
Proof. intros Hc. destruct (is_hex_chars c Hc) as [H _]. destruct r; [reflexivity|]. rewrite H. reflexivity. Qed.

Lemma expand_mid (X Y : list Z) n k : k = length X ->
  firstn k (X ++ Y) ++ repeat 0 n ++ skipn k (X ++ Y) = X ++ repeat 0 n ++ Y.
Proof.
  intros ->. rewrite firstn_app, firstn_all, Nat.sub_diag, skipn_app, skipn_all, Nat.sub_diag.
  cbn [firstn skipn app]. rewrite app_nil_r. reflexivity.
Qed.

Theorem ip6_parse_groups g : length g = 8%nat -> Forall validg g ->
  let text := match best_run g 0 None with
              | None => gtext g
              | Some (s, e) => gtext (firstn s g) ++ [58; 58] ++ gtext (skipn e g)
              end in
  parse_ipv6 text = Some (bytes_of g) /\ forallb v6_char text = true /\ In 58 text.
Proof.
  intros Hl Hv. cbv zeta.
  pose proof (best_run_ok g [] None I) as Hrun. cbn [app length] in Hrun.
  destruct (best_run g 0 None) as [[s e]|].
  - (* a run [s, e) of zero groups is written as "::" *)
    pose proof (run_split g s e Hrun) as Hsplit. destruct Hrun as (R1 & R2 & _).
    set (A := firstn s g) in *. set (B := skipn e g) in *.
    assert (HA : Forall validg A) by (apply Forall_firstn, Hv).
    assert (HB : Forall validg B) by (apply Forall_skipn, Hv).
    assert (LA : length A = s) by (unfold A; rewrite firstn_length; lia).
    assert (LB : length B = (8 - e)%nat) by (unfold B; rewrite skipn_length; lia).
    assert (Hbytes : bytes_of g = bytes_of A ++ repeat 0 (2 * (e - s)) ++ bytes_of B).
    { rewrite Hsplit at 1. rewrite !bytes_of_app, bytes_of_zeros. reflexivity. }
    assert (Hchars : forallb v6_char (gtext A ++ [58; 58] ++ gtext B) = true).
    { rewrite !forallb_app, (gtext_chars A HA), (gtext_chars B HB). reflexivity. }
    split; [|split; [exact Hchars|apply in_or_app; right; left; reflexivity]].
    unfold parse_ipv6. rewrite (no_percent _ Hchars). rewrite Hbytes.
    destruct A as [|a A'].
    + (* leading "::" *)
      cbn [gtext join_colon map app]. change (58 =? 58) with true. cbn [andb skipn].
      cbn [length] in LA. subst s.
      destruct B as [|b B'].
      * cbn [gtext join_colon map]. cbn [bytes_of flat_map app]. rewrite app_nil_r.
        cbn [length] in LB. replace (2 * (e - 0))%nat with 16%nat by lia. reflexivity.
      * destruct (gtext_head b B' ltac:(inversion HB; assumption)) as [c [r [E Hc]]].
        change (join_colon (map hex16 (b :: B'))) with (gtext (b :: B')). rewrite E.
        rewrite <- E. rewrite loop_groups_end; [|exact HB|rewrite LB; lia|].
        2:{ pose proof (gtext_length (b :: B')). lia. }
        rewrite LB. assert (Hlt : 0 + 2 * Z.of_nat (8 - e) < 16) by lia. apply Z.ltb_lt in Hlt. rewrite Hlt.
        cbn [Z.to_nat firstn skipn app bytes_of flat_map].
        f_equal. f_equal. f_equal. lia.
    + (* groups, "::", then the end or more groups *)
      destruct (gtext_head a A' ltac:(inversion HA; assumption)) as [c [r [E Hc]]].
      assert (Hlead : (match gtext (a :: A') ++ [58; 58] ++ gtext B with
                       | c1 :: c2 :: _ => (c1 =? 58) && (c2 =? 58) | _ => false end) = false).
      { rewrite E. cbn [app]. apply (lead_false c _ Hc). }
      cbv beta zeta. rewrite Hlead. cbv iota.
      change ([58; 58] ++ gtext B) with (58 :: 58 :: gtext B).
      set (txt := gtext (a :: A') ++ 58 :: 58 :: gtext B).
      assert (Hfuel : exists f, S (length txt) = (length (a :: A') + f)%nat /\ (length B <= f)%nat).
      { exists (S (length txt) - length (a :: A'))%nat. unfold txt. rewrite app_length. cbn [length].
        pose proof (gtext_length (a :: A')). pose proof (gtext_length B). cbn [length] in *. lia. }
      destruct Hfuel as [f [Hf1 Hf2]]. rewrite Hf1. unfold txt.
      pose proof (loop_groups_ell A' a f 0 [] (gtext B) HA) as HL. cbv zeta in HL.
      rewrite HL by (rewrite LA; lia). clear HL. rewrite LA. cbn [app].
      destruct B as [|b B'].
      * cbn [gtext join_colon map]. cbn [length] in LB.
        assert (Hlt : 0 + 2 * Z.of_nat s < 16) by lia. apply Z.ltb_lt in Hlt. rewrite Hlt.
        rewrite firstn_all2, skipn_all2 by (rewrite bytes_of_length, LA; lia).
        replace (Z.to_nat (16 - (0 + 2 * Z.of_nat s))) with (2 * (e - s))%nat by lia.
        change (bytes_of []) with (@nil Z). reflexivity.
      * destruct (gtext_head b B' ltac:(inversion HB; assumption)) as [c' [r' [E' Hc']]].
        rewrite E'. rewrite <- E'.
        rewrite loop_groups_end; [|exact HB|rewrite LB; lia|exact Hf2].
        rewrite LB.
        assert (Hlt : 0 + 2 * Z.of_nat s + 2 * Z.of_nat (8 - e) < 16) by lia. apply Z.ltb_lt in Hlt. rewrite Hlt.
        replace (Z.to_nat (16 - (0 + 2 * Z.of_nat s + 2 * Z.of_nat (8 - e)))) with (2 * (e - s))%nat by lia.
        rewrite expand_mid by (rewrite bytes_of_length, LA; lia). reflexivity.
  - (* no run: eight groups *)
    assert (Hchars : forallb v6_char (gtext g) = true) by (apply gtext_chars, Hv).
    destruct g as [|a [|a2 g']]; try (cbn [length] in Hl; lia).
    split; [|split; [exact Hchars|]].
    2:{ rewrite gtext_cons. apply in_or_app. right. left. reflexivity. }
    unfold parse_ipv6. rewrite (no_percent _ Hchars).
    destruct (gtext_head a (a2 :: g') ltac:(inversion Hv; assumption)) as [c [r [E Hc]]].
    rewrite E. rewrite (lead_false c _ Hc). rewrite <- E.
    rewrite loop_groups_end; [|exact Hv|rewrite Hl; lia|].
    2:{ pose proof (gtext_length (a :: a2 :: g')). lia. }
    rewrite Hl. cbn [Z.of_nat Z.mul Z.add Pos.of_succ_nat Pos.succ Pos.mul Pos.add Z.ltb Z.compare Pos.compare Pos.compare_cont app].
    reflexivity.
Qed.

(* netip.parseIPv6 (Addr.appendTo6 a) = a for every 128-bit address *)
Theorem ip6_parse_string ip : length ip = 16%nat -> Forall byte ip ->
  parse_ipv6 (ip6_string ip) = Some ip /\ forallb v6_char (ip6_string ip) = true /\ In 58 (ip6_string ip).
Proof.
  intros Hl Hb. destruct (groups_bytes 8 ip Hl Hb) as (G1 & G2 & G3).
  pose proof (ip6_parse_groups (groups_of ip) G3 G2) as H. cbv zeta in H. rewrite G1 in H.
  unfold ip6_string. destruct (best_run (groups_of ip) 0 None) as [[s e]|]; exact H.
Qed.

(* ------------------------------------------------------------------ networks *)

Lemma prefix128_sweep :
  forallb (fun k => match dtoi (dec k) 0 with Some v => v =? k | None => false end)
          (map Z.of_nat (seq 0 129)) = true.
Proof. vm_compute. reflexivity. Qed.

Lemma dtoi_dec128 k : 0 <= k <= 128 -> dtoi (dec k) 0 = Some k.
Proof.
  intros Hk. pose proof (range_forallb 129 _ prefix128_sweep k ltac:(lia)) as H. cbv beta in H.
  destruct (dtoi (dec k) 0) as [v|]; [|discriminate]. apply Z.eqb_eq in H. congruence.
Qed.

Lemma net6_wf_spec ip ones : net6_wf ip ones = true ->
  length ip = 16%nat /\ Forall byte ip /\ 0 <= ones <= 128 /\ apply_mask ip ones = ip /\ is4in6 ip = false.
Proof.
  unfold net6_wf. intros H.
  apply andb_true_iff in H as [H H6]. apply andb_true_iff in H as [H H5]. apply andb_true_iff in H as [H H4].
  apply andb_true_iff in H as [H H3]. apply andb_true_iff in H as [H1 H2].
  apply Nat.eqb_eq in H1. apply octet_range in H2. apply str_eqb_eq in H5. apply negb_true_iff in H6.
  repeat split; try assumption; lia.
Qed.

(* IPNetwork.UnmarshalJSON (IPNetwork.MarshalJSON n) = n for an IPv6 network *)
Theorem ipnet6_roundtrip ip ones : net6_wf ip ones = true ->
  ipnet_unmarshal (ipnet6_string ip ones) = NV6 /\ ipnet6_unmarshal (ipnet6_string ip ones) = NF6 ip ones.
Proof.
  intros Hw. destruct (net6_wf_spec ip ones Hw) as (Hl & Hb & Ho & Hm & H4).
  destruct (ip6_parse_string ip Hl Hb) as (Hp & Hc & Hin).
  unfold ipnet6_string. rewrite H4. cbn [app].
  pose proof (cut_slash_v6 (ip6_string ip) (dec ones) Hc) as Hcut.
  pose proof (addr_kind_v6 (ip6_string ip) Hc Hin) as Hk.
  split.
  - unfold ipnet_unmarshal. rewrite Hcut, Hk. reflexivity.
  - unfold ipnet6_unmarshal. rewrite Hcut, Hk, Hp.
    pose proof (dec_nonempty ones) as Hne. destruct (dec ones) as [|m0 mr] eqn:Em; [congruence|]. rewrite <- Em.
    rewrite (dtoi_dec128 ones Ho). replace (ones <=? 128) with true by lia.
    rewrite Hm. unfold net_of_ip16. rewrite H4. reflexivity.
Qed.

Theorem ipnet6_roundtrip_full ip ones : net6_wf ip ones = true ->
  ipnet_unmarshal_full (ipnet6_string ip ones) = NF6 ip ones.
Proof.
  intros Hw. destruct (ipnet6_roundtrip ip ones Hw) as [H1 H2]. unfold ipnet_unmarshal_full. rewrite H1. exact H2.
Qed.

(* an IPv4-mapped 16-byte address (which the decoder never stores) is written as its 4-byte network and
   decodes to the 4-byte form *)
Theorem ipnet6_mapped ip ones :
  length ip = 16%nat -> forallb (fun b => (0 <=? b) && (b <=? 255)) ip = true -> is4in6 ip = true ->
  96 <= ones <= 128 -> apply_mask ip ones = ip ->
  ipnet6_string ip ones = ipnet4_string (skipn 12 ip) (ones - 96) /\
  ipnet_unmarshal_full (ipnet6_string ip ones) = NF4 (skipn 12 ip) (ones - 96).
Proof.
  intros Hl Hb H4 Ho Hm.
  assert (Hs : ipnet6_string ip ones = ipnet4_string (skipn 12 ip) (ones - 96)).
  { unfold ipnet6_string. rewrite H4. f_equal. lia. }
  split; [exact Hs|]. rewrite Hs. unfold ipnet_unmarshal_full.
  rewrite ipnet4_roundtrip; [reflexivity|].
  do 16 (destruct ip as [|? ip]; [discriminate|]). destruct ip; [|discriminate].
  cbn [skipn]. unfold ipnet4_wf. cbn [length Nat.eqb andb].
  cbn [forallb] in Hb. repeat (apply andb_true_iff in Hb as [? Hb]).
  unfold apply_mask in Hm. cbn [length seq combine map] in Hm.
  injection Hm as _ _ _ _ _ _ _ _ _ _ _ _ M12 M13 M14 M15.
  assert (Hmask : apply_mask [z11; z12; z13; z14] (ones - 96) = [z11; z12; z13; z14]).
  { unfold apply_mask. cbn [length seq combine map]. unfold mask_byte in *.
    cbn [Z.of_nat Pos.of_succ_nat Pos.succ] in *.
    replace (ones - 96 - 8 * 0) with (ones - 8 * 12) by lia.
    replace (ones - 96 - 8 * 1) with (ones - 8 * 13) by lia.
    replace (ones - 96 - 8 * 2) with (ones - 8 * 14) by lia.
    replace (ones - 96 - 8 * 3) with (ones - 8 * 15) by lia.
    rewrite M12, M13, M14, M15. reflexivity. }
  rewrite Hmask. apply andb_true_iff; split; [|apply str_eqb_eq; reflexivity].
  cbn [forallb]. repeat (apply andb_true_iff; split); try assumption; try reflexivity; lia.
Qed.

Example net6_examples :
  ip6_string [32;1;13;184;0;0;0;0;0;0;0;0;0;0;0;1] = [50;48;48;49;58;100;98;56;58;58;49] (* 2001:db8::1 *) /\
  ip6_string (repeat 0 16) = [58;58] /\
  (* two runs of equal length: the leftmost is compressed;  1:0:0:2:0:0:3:4 -> 1::2:0:0:3:4 *)
  ip6_string [0;1;0;0;0;0;0;2;0;0;0;0;0;3;0;4] = [49;58;58;50;58;48;58;48;58;51;58;52] /\
  (* a single zero group is not compressed *)
  ip6_string [0;1;0;0;0;2;0;3;0;4;0;5;0;6;0;7] = [49;58;48;58;50;58;51;58;52;58;53;58;54;58;55] /\
  net6_wf [32;1;13;184;0;0;0;0;0;0;0;0;0;0;0;0] 32 = true /\
  ipnet_unmarshal_full [50;48;48;49;58;100;98;56;58;58;49;47;51;50] = NF6 [32;1;13;184;0;0;0;0;0;0;0;0;0;0;0;0] 32 /\
  (* ::ffff:1.2.3.4/120 is stored as 1.2.3.0/24 *)
  ipnet_unmarshal_full [58;58;102;102;102;102;58;49;46;50;46;51;46;52;47;49;50;48] = NF4 [1;2;3;0] 24 /\
  ipnet_unmarshal_full [102;101;56;48;58;58;49;37;101;116;104;48;47;54;52] = NFErr.
Proof. vm_compute. repeat split. Qed.
