(* Proofs about Model/C32_Moq.v, part 3: control messages *)
From Coq Require Import List ZArith Lia Bool ZifyBool.
Require Import MTX.Lib.IntWrap MTX.Model.C32_Moq MTX.Proofs.C32_Varint MTX.Proofs.C32_Types.
Import ListNotations.
Local Open Scope Z_scope.

Definition wf_msgb (m : msg) : bool :=
  match m with
  | MSetup _ p a => wf_strb p && wf_strb a
  | MSubscribe rid ns tn ps => u64b rid && wf_nsb ns && wf_strb tn && wf_paramsb ps
  | MSubscribeOk al ps pr => u64b al && wf_paramsb ps && wf_propsb pr
  | MRequestError code reason => u64b code && wf_strb reason
  | MPublish rid ns tn al ps pr =>
      u64b rid && wf_nsb ns && wf_strb tn && u64b al && wf_paramsb ps && wf_propsb pr
  | MPublishOk ps pr | MRequestOk ps pr => wf_paramsb ps && wf_propsb pr
  end.

(* ---- Setup options ---- *)
Lemma dec_setup_cons fuel prev path auth b tl :
  dec_setup_opts (S fuel) prev path auth (b :: tl) =
  (let* (d, b1) := dec_varint (b :: tl) in
   let cur := wrapu64 (prev + d) in
   if cur mod 2 =? 0 then
     let* (v, b2) := dec_varint b1 in dec_setup_opts fuel cur path auth b2
   else
     let* (l, b2) := dec_varint b1 in
     if len b2 <? l then Err
     else slice_to (to_int l) b2 (fun value =>
          slice_from (to_int l) b2 (fun b3 =>
          if cur =? 1 then dec_setup_opts fuel cur value auth b3
          else if cur =? 5 then dec_setup_opts fuel cur path value b3
          else dec_setup_opts fuel cur path auth b3))).
Proof. reflexivity. Qed.

Lemma setup_step_odd fuel prev path auth d value rest :
  u64 d -> wf_strb value = true -> wrapu64 (prev + d) mod 2 = 1 ->
  dec_setup_opts (S fuel) prev path auth (enc_varint d ++ enc_lenstr value ++ rest) =
  (if wrapu64 (prev + d) =? 1 then dec_setup_opts fuel (wrapu64 (prev + d)) value auth rest
   else if wrapu64 (prev + d) =? 5 then dec_setup_opts fuel (wrapu64 (prev + d)) path value rest
   else dec_setup_opts fuel (wrapu64 (prev + d)) path auth rest).
Proof.
  intros Hd Hv Hodd. unfold wf_strb in Hv. assert (Hl : len value < two63) by lia.
  destruct (enc_varint_cons d) as (b & tl & Eb). rewrite Eb. cbn [app]. rewrite dec_setup_cons.
  change (b :: tl ++ enc_lenstr value ++ rest) with ((b :: tl) ++ enc_lenstr value ++ rest).
  rewrite <- Eb. rewrite varint_roundtrip by exact Hd. cbn [bind]. cbv zeta. rewrite Hodd.
  cbn [Z.eqb Pos.eqb]. unfold enc_lenstr. rewrite <- app_assoc.
  rewrite varint_roundtrip by (apply u64_len; exact Hl). cbn [bind].
  rewrite len_app. pose proof (len_nonneg rest).
  destruct (Z.ltb_spec (len value + len rest) (len value)); [lia|].
  rewrite to_int_small by exact Hl.
  rewrite slice_to_app by reflexivity. rewrite slice_from_app by reflexivity. reflexivity.
Qed.

Lemma wrapu64_small x : 0 <= x < two64 -> wrapu64 x = x.
Proof. apply wrapu64_id. Qed.

Lemma setup_roundtrip fuel p a :
  wf_strb p = true -> wf_strb a = true -> (length (enc_setup_payload p a) <= fuel)%nat ->
  dec_setup_opts fuel 0 [] [] (enc_setup_payload p a) = Ok (p, a) [].
Proof.
  intros Hp Ha Hf. unfold enc_setup_payload in *.
  assert (E1 : wrapu64 (1 - 0) = 1) by (apply wrapu64_id; unfold two64; lia).
  assert (E5 : wrapu64 (5 - 0) = 5) by (apply wrapu64_id; unfold two64; lia).
  assert (E4 : wrapu64 (5 - 1) = 4) by (apply wrapu64_id; unfold two64; lia).
  assert (U1 : u64 1) by (unfold u64, two64; lia).
  assert (U4 : u64 4) by (unfold u64, two64; lia).
  assert (U5 : u64 5) by (unfold u64, two64; lia).
  assert (W1 : wrapu64 (0 + 1) = 1) by (apply wrapu64_id; unfold two64; lia).
  assert (W5 : wrapu64 (0 + 5) = 5) by (apply wrapu64_id; unfold two64; lia).
  assert (W14 : wrapu64 (1 + 4) = 5) by (apply wrapu64_id; unfold two64; lia).
  destruct p as [|p0 p]; destruct a as [|a0 a].
  - destruct fuel; reflexivity.
  - rewrite E5 in *. cbn [app] in *.
    destruct fuel as [|fuel].
    { pose proof (enc_varint_length_pos 5). rewrite app_length in Hf. lia. }
    rewrite <- (app_nil_r (enc_lenstr (a0 :: a))).
    rewrite setup_step_odd by (try assumption; rewrite W5; reflexivity).
    rewrite W5. cbn [Z.eqb Pos.eqb]. destruct fuel; reflexivity.
  - rewrite E1 in *. rewrite app_nil_r in *.
    destruct fuel as [|fuel].
    { pose proof (enc_varint_length_pos 1). rewrite app_length in Hf. lia. }
    rewrite <- (app_nil_r (enc_lenstr (p0 :: p))).
    rewrite setup_step_odd by (try assumption; rewrite W1; reflexivity).
    rewrite W1. cbn [Z.eqb Pos.eqb]. destruct fuel; reflexivity.
  - rewrite E1, E4 in *. rewrite <- app_assoc in *.
    destruct fuel as [|[|fuel]].
    { pose proof (enc_varint_length_pos 1). rewrite app_length in Hf. lia. }
    { pose proof (enc_varint_length_pos 1). pose proof (enc_varint_length_pos 4).
      rewrite !app_length in Hf. lia. }
    rewrite setup_step_odd by (try assumption; rewrite W1; reflexivity).
    rewrite W1. cbn [Z.eqb Pos.eqb].
    rewrite <- (app_nil_r (enc_lenstr (a0 :: a))).
    rewrite setup_step_odd by (try assumption; rewrite W14; reflexivity).
    rewrite W14. cbn [Z.eqb Pos.eqb]. destruct fuel; reflexivity.
Qed.

Lemma dec_setup_opts_safe fuel : forall prev path auth buf,
  Forall is_byte buf -> len buf < two63 -> (length buf <= fuel)%nat ->
  safe (dec_setup_opts fuel prev path auth buf) 0.
Proof.
  induction fuel as [|fuel IH]; intros prev path auth buf Hb Hlt Hf.
  - destruct buf; [cbn; split; [lia|constructor]|cbn in Hf; lia].
  - destruct buf as [|b tl]; [cbn; split; [lia|constructor]|].
    rewrite dec_setup_cons.
    destruct (dec_varint_inv (b :: tl) Hb) as [E|(d & b1 & E & Hd & Hb1 & Hlen)]; rewrite E; cbn [bind]; [exact I|].
    cbv zeta. destruct (wrapu64 (prev + d) mod 2 =? 0).
    + destruct (dec_varint_inv b1 Hb1) as [E2|(t & b2 & E2 & _ & Hb2 & Hlen2)]; rewrite E2; cbn [bind]; [exact I|].
      apply IH; [exact Hb2|unfold len in *; cbn [length] in *; lia|cbn [length] in *; lia].
    + destruct (dec_varint_inv b1 Hb1) as [E2|(l & b2 & E2 & Hl & Hb2 & Hlen2)]; rewrite E2; cbn [bind]; [exact I|].
      destruct (Z.ltb_spec (len b2) l) as [L|L]; [exact I|].
      unfold u64 in Hl. assert (l < two63) by (unfold len, two63 in *; cbn [length] in *; lia).
      rewrite to_int_small by assumption.
      apply safe_slice_to; [unfold len in *; lia|].
      apply safe_slice_from; [unfold len in *; lia|].
      assert (Hs : Forall is_byte (skipn (Z.to_nat l) b2)) by (apply Forall_skipn; exact Hb2).
      assert (Hsl : (length (skipn (Z.to_nat l) b2) <= fuel)%nat)
        by (rewrite skipn_length; cbn [length] in *; lia).
      assert (Hs63 : len (skipn (Z.to_nat l) b2) < two63)
        by (unfold len in *; rewrite skipn_length; cbn [length] in *; lia).
      destruct (wrapu64 (prev + d) =? 1); [apply IH; assumption|].
      destruct (wrapu64 (prev + d) =? 5); apply IH; assumption.
Qed.

Lemma slice_to_all {A} (a : bytes) (k : bytes -> res A) : slice_to (len a) a k = k a.
Proof.
  unfold slice_to. pose proof (len_nonneg a).
  replace ((0 <=? len a) && (len a <=? len a)) with true by lia.
  now rewrite to_nat_len, firstn_all.
Qed.

(* ---- payloads ---- *)
Ltac split_wf H :=
  repeat match type of H with
         | (_ && _) = true => let H1 := fresh H in apply andb_prop in H; destruct H as [H H1]
         end.

Lemma wf_params_len ps : wf_paramsb ps = true -> len ps < two63.
Proof. unfold wf_paramsb. lia. Qed.

Lemma wf_params_u64 ps : wf_paramsb ps = true -> u64 (len ps).
Proof. intros H. apply u64_len, wf_params_len, H. Qed.

Theorem payload_roundtrip m : wf_msgb m = true ->
  dec_payload (kind_of_msg m) (enc_payload m) = Ok m [].
Proof.
  destruct m as [k p a|rid ns tn ps|al ps pr|code reason|rid ns tn al ps pr|ps pr|ps pr];
    cbn [wf_msgb kind_of_msg enc_payload dec_payload]; intros Hwf.
  - apply andb_prop in Hwf. destruct Hwf as [Hp Ha].
    rewrite setup_roundtrip by (try assumption; lia). reflexivity.
  - split_wf Hwf. apply u64b_spec in Hwf.
    rewrite varint_roundtrip by exact Hwf. cbn [bind].
    rewrite namespace_roundtrip by assumption. cbn [bind].
    rewrite lenstr_roundtrip by assumption. cbn [bind].
    rewrite varint_roundtrip by (apply wf_params_u64; assumption). cbn [bind].
    rewrite to_int_small by (apply wf_params_len; assumption).
    rewrite <- (app_nil_r (enc_parameters ps)).
    rewrite parameters_roundtrip by assumption. reflexivity.
  - split_wf Hwf. apply u64b_spec in Hwf.
    rewrite varint_roundtrip by exact Hwf. cbn [bind].
    rewrite varint_roundtrip by (apply wf_params_u64; assumption). cbn [bind].
    rewrite to_int_small by (apply wf_params_len; assumption).
    rewrite parameters_roundtrip by assumption. cbn [bind].
    rewrite properties_roundtrip by assumption. reflexivity.
  - split_wf Hwf. apply u64b_spec in Hwf.
    rewrite varint_roundtrip by exact Hwf. cbn [bind].
    change ([0] ++ enc_lenstr reason) with (enc_varint 0 ++ enc_lenstr reason).
    rewrite varint_roundtrip by (unfold u64, two64; lia). cbn [bind].
    unfold wf_strb in *. assert (Hl : len reason < two63) by lia.
    unfold enc_lenstr.
    rewrite varint_roundtrip by (apply u64_len; exact Hl). cbn [bind].
    destruct (Z.ltb_spec (len reason) (len reason)); [lia|].
    rewrite slice_to_all. rewrite to_nat_len, skipn_all. reflexivity.
  - split_wf Hwf. apply u64b_spec in Hwf. apply u64b_spec in Hwf2.
    rewrite varint_roundtrip by exact Hwf. cbn [bind].
    rewrite namespace_roundtrip by assumption. cbn [bind].
    rewrite lenstr_roundtrip by assumption. cbn [bind].
    rewrite varint_roundtrip by assumption. cbn [bind].
    rewrite varint_roundtrip by (apply wf_params_u64; assumption). cbn [bind].
    rewrite to_int_small by (apply wf_params_len; assumption).
    rewrite parameters_roundtrip by assumption. cbn [bind].
    rewrite properties_roundtrip by assumption. reflexivity.
  - split_wf Hwf.
    rewrite varint_roundtrip by (apply wf_params_u64; assumption). cbn [bind].
    rewrite to_int_small by (apply wf_params_len; assumption).
    rewrite parameters_roundtrip by assumption. cbn [bind].
    rewrite properties_roundtrip by assumption. reflexivity.
  - split_wf Hwf.
    rewrite varint_roundtrip by (apply wf_params_u64; assumption). cbn [bind].
    rewrite to_int_small by (apply wf_params_len; assumption).
    rewrite parameters_roundtrip by assumption. cbn [bind].
    rewrite properties_roundtrip by assumption. reflexivity.
Qed.

Lemma msg_kind_code k : msg_kind_of_code (msg_type_code k) = Some k.
Proof. destruct k as [[]| | | | | |]; reflexivity. Qed.

Lemma msg_type_code_u64 k : u64 (msg_type_code k).
Proof. destruct k as [[]| | | | | |]; unfold u64, two64; cbn; lia. Qed.

(* Read(Marshal(m) ++ rest) = m, rest — when the payload fits the 16-bit length field *)
Theorem msg_roundtrip m rest : wf_msgb m = true -> len (enc_payload m) < 65536 ->
  read_msg (enc_msg m ++ rest) = Ok m rest.
Proof.
  intros Hwf Hlen. unfold read_msg, enc_msg. cbv zeta.
  set (p := enc_payload m) in *. pose proof (len_nonneg p) as Hp0.
  rewrite read_varint_eq, <- !app_assoc.
  rewrite varint_roundtrip by apply msg_type_code_u64. cbn [bind app].
  replace (((len p / 256) mod 256 * 256 + len p mod 256) mod 65536) with (len p)
    by (Z.div_mod_to_equations; lia).
  unfold alloc, max_control_payload. destruct (Z.leb_spec (len p) 65535); [|lia].
  rewrite len_app. pose proof (len_nonneg rest).
  destruct (Z.ltb_spec (len p + len rest) (len p)); [lia|].
  rewrite firstn_len_app, skipn_len_app, msg_kind_code.
  subst p. rewrite payload_roundtrip by exact Hwf. reflexivity.
Qed.

Lemma safe0 {A} (r : res A) n : safe r 0 -> safe r n.
Proof. intros H. eapply safe_mono; [exact H|lia]. Qed.

Lemma dec_payload_safe k buf : Forall is_byte buf -> len buf < two63 ->
  safe (dec_payload k buf) (length buf).
Proof.
  intros Hb Hlt.
  assert (Hparams : forall pc b, Forall is_byte b -> (length b <= length buf)%nat ->
            forall B (f : list token -> bytes -> res B),
            (forall ps r, (length r <= length b)%nat -> Forall is_byte r -> safe (f ps r) (length buf)) ->
            safe (bind (dec_parameters pc b) f) (length buf)).
  { intros pc b Hbb Hbl B f Hf. eapply safe_bind; [apply dec_parameters_safe; [exact Hbb|unfold len in *; lia]|].
    exact Hf. }
  assert (Hprops : forall b, Forall is_byte b -> (length b <= length buf)%nat ->
            forall B (f : list Z -> bytes -> res B),
            (forall ps r, (length r <= 0)%nat -> Forall is_byte r -> safe (f ps r) (length buf)) ->
            safe (bind (dec_properties b) f) (length buf)).
  { intros b Hbb Hbl B f Hf. eapply safe_bind; [apply dec_properties_safe; [exact Hbb|unfold len in *; lia]|].
    exact Hf. }
  destruct k as [sk| | | | | |]; cbn [dec_payload].
  - eapply safe_bind; [apply dec_setup_opts_safe; [exact Hb|exact Hlt|lia]|].
    intros pa r Hr Hbr. cbn. split; [lia|exact Hbr].
  - destruct (dec_varint_inv buf Hb) as [E|(rid & b1 & E & _ & Hb1 & Hl1)]; rewrite E; cbn [bind]; [exact I|].
    eapply safe_bind; [apply dec_namespace_safe; [exact Hb1|unfold len in *; lia]|].
    intros ns b2 Hl2 Hb2.
    eapply safe_bind; [apply dec_lenstr_safe; [exact Hb2|unfold len in *; lia]|].
    intros tn b3 Hl3 Hb3.
    destruct (dec_varint_inv b3 Hb3) as [E4|(pc & b4 & E4 & _ & Hb4 & Hl4)]; rewrite E4; cbn [bind]; [exact I|].
    apply Hparams; [exact Hb4|lia|]. intros ps b5 Hl5 Hb5. cbn. split; [lia|exact Hb5].
  - destruct (dec_varint_inv buf Hb) as [E|(al & b1 & E & _ & Hb1 & Hl1)]; rewrite E; cbn [bind]; [exact I|].
    destruct (dec_varint_inv b1 Hb1) as [E2|(pc & b2 & E2 & _ & Hb2 & Hl2)]; rewrite E2; cbn [bind]; [exact I|].
    apply Hparams; [exact Hb2|lia|]. intros ps b3 Hl3 Hb3.
    apply Hprops; [exact Hb3|lia|]. intros pr b4 Hl4 Hb4. cbn. split; [lia|exact Hb4].
  - destruct (dec_varint_inv buf Hb) as [E|(code & b1 & E & _ & Hb1 & Hl1)]; rewrite E; cbn [bind]; [exact I|].
    destruct (dec_varint_inv b1 Hb1) as [E2|(retry & b2 & E2 & _ & Hb2 & Hl2)]; rewrite E2; cbn [bind]; [exact I|].
    destruct (dec_varint_inv b2 Hb2) as [E3|(l & b3 & E3 & Hl & Hb3 & Hl3)]; rewrite E3; cbn [bind]; [exact I|].
    destruct (Z.ltb_spec (len b3) l) as [L|L]; [exact I|].
    unfold u64 in Hl. apply safe_slice_to; [unfold len in *; lia|].
    cbn. split; [rewrite skipn_length; lia|apply Forall_skipn; exact Hb3].
  - destruct (dec_varint_inv buf Hb) as [E|(rid & b1 & E & _ & Hb1 & Hl1)]; rewrite E; cbn [bind]; [exact I|].
    eapply safe_bind; [apply dec_namespace_safe; [exact Hb1|unfold len in *; lia]|].
    intros ns b2 Hl2 Hb2.
    eapply safe_bind; [apply dec_lenstr_safe; [exact Hb2|unfold len in *; lia]|].
    intros tn b3 Hl3 Hb3.
    destruct (dec_varint_inv b3 Hb3) as [E4|(al & b4 & E4 & _ & Hb4 & Hl4)]; rewrite E4; cbn [bind]; [exact I|].
    destruct (dec_varint_inv b4 Hb4) as [E5|(pc & b5 & E5 & _ & Hb5 & Hl5)]; rewrite E5; cbn [bind]; [exact I|].
    apply Hparams; [exact Hb5|lia|]. intros ps b6 Hl6 Hb6.
    apply Hprops; [exact Hb6|lia|]. intros pr b7 Hl7 Hb7. cbn. split; [lia|exact Hb7].
  - destruct (dec_varint_inv buf Hb) as [E|(pc & b1 & E & _ & Hb1 & Hl1)]; rewrite E; cbn [bind]; [exact I|].
    apply Hparams; [exact Hb1|lia|]. intros ps b2 Hl2 Hb2.
    apply Hprops; [exact Hb2|lia|]. intros pr b3 Hl3 Hb3. cbn. split; [lia|exact Hb3].
  - destruct (dec_varint_inv buf Hb) as [E|(pc & b1 & E & _ & Hb1 & Hl1)]; rewrite E; cbn [bind]; [exact I|].
    apply Hparams; [exact Hb1|lia|]. intros ps b2 Hl2 Hb2.
    apply Hprops; [exact Hb2|lia|]. intros pr b3 Hl3 Hb3. cbn. split; [lia|exact Hb3].
Qed.

(* Read: no panic, every make() within its limit (8 for a varint, 65535 for the payload) *)
Theorem read_msg_safe s : Forall is_byte s -> safe (read_msg s) (length s).
Proof.
  intros Hs. unfold read_msg.
  destruct (read_varint_inv s Hs) as [E|(t & s1 & E & _ & Hs1 & Hl1)]; rewrite E; cbn [bind]; [exact I|].
  destruct s1 as [|b0 [|b1 s2]]; try exact I. cbv zeta.
  set (length := (b0 * 256 + b1) mod 65536).
  assert (Hlen : 0 <= length < 65536) by (subst length; apply Z.mod_pos_bound; lia).
  unfold alloc, max_control_payload. destruct (Z.leb_spec length 65535); [|lia].
  destruct (Z.ltb_spec (len s2) length) as [L|L]; [exact I|].
  destruct (msg_kind_of_code t) as [k|]; [|exact I].
  inversion Hs1 as [|? ? _ Hs1']; subst. inversion Hs1' as [|? ? _ Hs2]; subst.
  eapply safe_bind.
  - apply dec_payload_safe; [apply Forall_firstn; exact Hs2|].
    unfold len. rewrite firstn_length. unfold two63. lia.
  - intros m r _ _. cbn. split; [|apply Forall_skipn; exact Hs2].
    rewrite skipn_length. cbn [List.length] in Hl1. lia.
Qed.
