(* Proofs for C43: the session gate of the HLS server, by an invariant over all request/operation histories. *)
From Coq Require Import List ZArith Bool Lia.
Require Import MTX.Model.C43_Hls.
Import ListNotations.
Local Open Scope Z_scope.

#[local] Arguments cip : simpl never.

(* ---------------------------------------------------------------- small facts ----------------------------------- *)

Lemma bytes_eqb_eq : forall a b, bytes_eqb a b = true <-> a = b.
Proof.
  induction a as [|x a IH]; destruct b as [|y b]; simpl; split; intro H; try congruence; try reflexivity.
  - apply andb_true_iff in H. destruct H as [H1 H2]. apply Z.eqb_eq in H1. apply IH in H2. congruence.
  - inversion H; subst. rewrite Z.eqb_refl. simpl. apply IH. reflexivity.
Qed.

Lemma lookup_mremove : forall q p l, lookup p (mremove q l) = if q =? p then None else lookup p l.
Proof.
  intros q p l. induction l as [|[k m] l IH]; simpl.
  - destruct (q =? p); reflexivity.
  - destruct (k =? q) eqn:Ekq; simpl.
    + apply Z.eqb_eq in Ekq. subst k. rewrite IH. destruct (q =? p); reflexivity.
    + rewrite IH. destruct (k =? p) eqn:Ekp.
      * apply Z.eqb_eq in Ekp. subst k. rewrite Z.eqb_sym in Ekq. rewrite Ekq. reflexivity.
      * reflexivity.
Qed.

Lemma lookup_mset : forall q m p l, lookup p (mset q m l) = if q =? p then Some m else lookup p l.
Proof.
  intros q m p l. unfold mset. simpl. destruct (q =? p) eqn:E; [reflexivity|].
  rewrite lookup_mremove, E. reflexivity.
Qed.

Lemma lookup_map_vals : forall f p l, lookup p (map_vals f l) = option_map f (lookup p l).
Proof.
  intros f p l. induction l as [|[k m] l IH]; simpl; [reflexivity|].
  destruct (k =? p); [reflexivity|exact IH].
Qed.

Lemma memz_false_neq : forall x l, memz x l = false -> forall y, In y l -> x <> y.
Proof.
  intros x l H y Hy Hxy. subst y. unfold memz in H.
  assert (existsb (Z.eqb x) l = true) as H1 by (apply existsb_exists; exists x; split; [exact Hy|apply Z.eqb_refl]).
  congruence.
Qed.

(* ---------------------------------------------------------------- uuid.Parse ------------------------------------ *)

Lemma hex_at_length : forall s offs u, hex_at s offs = Some u -> length u = length offs.
Proof.
  intros s offs. induction offs as [|k r IH]; simpl; intros u H.
  - inversion H. reflexivity.
  - destruct (xtob (byte_at s k) (byte_at s (S k))); [|discriminate].
    destruct (hex_at s r) eqn:E; [|discriminate]. inversion H. simpl. f_equal. apply IH. reflexivity.
Qed.

Lemma parse36_length : forall s u, parse36 s = Some u -> length u = 16%nat.
Proof.
  intros s u H. unfold parse36 in H.
  destruct ((byte_at s 8 =? 45) && (byte_at s 13 =? 45) && (byte_at s 18 =? 45) && (byte_at s 23 =? 45)); [|discriminate].
  apply hex_at_length in H. exact H.
Qed.

Lemma uuid_parse_shape : forall s u, uuid_parse s = Some u ->
  length u = 16%nat /\
  (Z.of_nat (length s) = 36 \/ Z.of_nat (length s) = 45 \/ Z.of_nat (length s) = 38 \/ Z.of_nat (length s) = 32).
Proof.
  intros s u H. unfold uuid_parse in H.
  destruct (Z.of_nat (length s) =? 36) eqn:E36.
  { apply Z.eqb_eq in E36. split; [eapply parse36_length; eauto|lia]. }
  destruct (Z.of_nat (length s) =? 45) eqn:E45.
  { apply Z.eqb_eq in E45. destruct (bytes_eqb (map lower (firstn 9 s)) urn_prefix); [|discriminate].
    split; [eapply parse36_length; eauto|lia]. }
  destruct (Z.of_nat (length s) =? 38) eqn:E38.
  { apply Z.eqb_eq in E38. split; [eapply parse36_length; eauto|lia]. }
  destruct (Z.of_nat (length s) =? 32) eqn:E32; [|discriminate].
  apply Z.eqb_eq in E32. split; [apply hex_at_length in H; exact H|lia].
Qed.

(* ---------------------------------------------------------------- is_cdn ---------------------------------------- *)

Lemma is_cdn_true : forall c hdr, is_cdn c hdr = true -> cdn_secret c <> [] /\ hdr = bearer ++ cdn_secret c.
Proof.
  intros c hdr H. unfold is_cdn in H. apply andb_true_iff in H. destruct H as [H1 H2].
  split.
  - destruct (cdn_secret c); [discriminate|congruence].
  - apply bytes_eqb_eq. exact H2.
Qed.

(* ---------------------------------------------------------------- the invariant --------------------------------- *)

Definition Inv (c : config) (tr : list (op * out)) (st : state) : Prop :=
  forall p m, lookup p (muxers st) = Some m ->
    (forall s, In s (m_sess m) -> backed c tr p (s_id s) (s_secret s) (s_ip s)) /\
    (forall id, m_cdn m = Some id -> cdn_backed c tr p id).

Lemma inv_init : forall c, Inv c [] init.
Proof. intros c p m H. discriminate. Qed.

Lemma backed_snoc : forall c tr p id u ip e,
  backed c tr p id u ip -> kills p id e = false -> backed c (tr ++ [e]) p id u ip.
Proof.
  intros c tr p id u ip e (pre & mid & cred & n & hdr & ccc & vc & Htr & Hn & Hc & Ha & Hk) He.
  exists pre, (mid ++ [e]), cred, n, hdr, ccc, vc. repeat split; try assumption.
  - rewrite Htr, <- app_assoc. reflexivity.
  - apply Forall_app. split; [exact Hk|constructor; [exact He|constructor]].
Qed.

Lemma cdn_backed_snoc : forall c tr p id e,
  cdn_backed c tr p id -> kills p id e = false -> cdn_backed c (tr ++ [e]) p id.
Proof.
  intros c tr p id e (pre & mid & cred & ip & hdr & ccq & ccc & sec & Htr & Hc & Hk) He.
  exists pre, (mid ++ [e]), cred, ip, hdr, ccq, ccc, sec. repeat split; try assumption.
  - rewrite Htr, <- app_assoc. reflexivity.
  - apply Forall_app. split; [exact Hk|constructor; [exact He|constructor]].
Qed.

(* the state is unchanged and the event ends no session that still exists *)
Lemma inv_same : forall c tr st e,
  Inv c tr st -> (forall p id, kills p id e = false) -> Inv c (tr ++ [e]) st.
Proof.
  intros c tr st e HI Hk p m Hl. destruct (HI p m Hl) as [H1 H2]. split.
  - intros s Hs. apply backed_snoc; [apply H1; exact Hs|apply Hk].
  - intros id Hid. apply cdn_backed_snoc; [apply H2; exact Hid|apply Hk].
Qed.

(* a weaker form: only the muxers that exist matter *)
Lemma inv_same_on : forall c tr st e,
  Inv c tr st ->
  (forall p m id, lookup p (muxers st) = Some m -> kills p id e = false) ->
  Inv c (tr ++ [e]) st.
Proof.
  intros c tr st e HI Hk p m Hl. destruct (HI p m Hl) as [H1 H2]. split.
  - intros s Hs. apply backed_snoc; [apply H1; exact Hs|eapply Hk; exact Hl].
  - intros id Hid. apply cdn_backed_snoc; [apply H2; exact Hid|eapply Hk; exact Hl].
Qed.

Lemma attach_inv : forall c tr st p f o x st' e,
  Inv c tr st -> attach c st p f x = (st', o) ->
  (forall q id, kills q id e = false) ->
  (* what f does to the muxer of p: old sessions stay backed, new ones are backed by the new event *)
  (forall m, (lookup p (muxers st) = Some m \/ (lookup p (muxers st) = None /\ m = fresh_muxer false)) ->
     o = x ->
     (forall s, In s (m_sess (f m)) ->
        In s (m_sess m) \/ backed c (tr ++ [e]) p (s_id s) (s_secret s) (s_ip s)) /\
     (forall id, m_cdn (f m) = Some id -> m_cdn m = Some id \/ cdn_backed c (tr ++ [e]) p id)) ->
  Inv c (tr ++ [e]) st'.
Proof.
  intros c tr st p f o x st' e HI Hat Hk Hf. unfold attach in Hat.
  assert (Hkeep : forall q m, lookup q (muxers st) = Some m ->
            (forall s, In s (m_sess m) -> backed c (tr ++ [e]) q (s_id s) (s_secret s) (s_ip s)) /\
            (forall id, m_cdn m = Some id -> cdn_backed c (tr ++ [e]) q id)).
  { intros q m Hl. destruct (HI q m Hl) as [H1 H2]. split.
    - intros s Hs. apply backed_snoc; [apply H1; exact Hs|apply Hk].
    - intros id Hid. apply cdn_backed_snoc; [apply H2; exact Hid|apply Hk]. }
  destruct (lookup p (muxers st)) as [m|] eqn:El.
  - destruct (m_inst m).
    + inversion Hat; subst st' o. intros q m' Hl'. cbn [muxers] in Hl'. rewrite lookup_mset in Hl'.
      destruct (p =? q) eqn:Epq.
      * apply Z.eqb_eq in Epq. subst q. inversion Hl'; subst m'.
        destruct (Hf m (or_introl eq_refl) eq_refl) as [Hs Hc]. destruct (Hkeep p m El) as [K1 K2]. split.
        -- intros s Hin. destruct (Hs s Hin) as [Hold|Hnew]; [apply K1; exact Hold|exact Hnew].
        -- intros id Hid. destruct (Hc id Hid) as [Hold|Hnew]; [apply K2; exact Hold|exact Hnew].
      * apply Hkeep. exact Hl'.
    + inversion Hat; subst st' o. intros q m' Hl'. apply Hkeep. exact Hl'.
  - destruct (always c).
    + inversion Hat; subst st' o. intros q m' Hl'. apply Hkeep. exact Hl'.
    + inversion Hat; subst st' o. intros q m' Hl'. cbn [muxers] in Hl'. rewrite lookup_mset in Hl'.
      destruct (p =? q) eqn:Epq.
      * apply Z.eqb_eq in Epq. subst q. inversion Hl'; subst m'.
        destruct (Hf (fresh_muxer false) (or_intror (conj eq_refl eq_refl)) eq_refl) as [Hs Hc]. split.
        -- intros s Hin. destruct (Hs s Hin) as [Hold|Hnew]; [simpl in Hold; contradiction|exact Hnew].
        -- intros id Hid. destruct (Hc id Hid) as [Hold|Hnew]; [simpl in Hold; discriminate|exact Hnew].
      * apply Hkeep. exact Hl'.
Qed.

Lemma kills_multi : forall q id p cred ip hdr ccq ccc sec x, kills q id (Multi p cred ip hdr ccq ccc sec, x) = false.
Proof. reflexivity. Qed.

Lemma step_inv : forall c tr st o st' x,
  Inv c tr st -> step c st o = (st', x) -> Inv c (tr ++ [(o, x)]) st'.
Proof.
  intros c tr st o st' x HI Hs. destruct o as [p cred n hdr ccq ccc sec|p n hdr ck q|id|ids|p|p|p|p|p]; simpl in Hs.
  - (* Multi *)
    destruct (is_cdn c hdr) eqn:Ecdn.
    + (* CDN *)
      assert (Hcreate : (if nostream c p then (st, ONotFound)
                         else attach c st p (fun m => {| m_auto := m_auto m; m_inst := m_inst m; m_sess := m_sess m;
                                                         m_cdn := Some (next_id st) |}) (OCdnCreated (next_id st))) = (st', x)
                        -> Inv c (tr ++ [(Multi p cred n hdr ccq ccc sec, x)]) st').
      { intro Hc. destruct (nostream c p).
        - inversion Hc; subst. apply inv_same; [exact HI|intros; reflexivity].
        - eapply attach_inv; [exact HI|exact Hc|intros; reflexivity|].
          intros m Hm Hx. subst x. split.
          + intros s Hin. left. exact Hin.
          + intros id Hid. simpl in Hid. inversion Hid; subst id. right.
            exists tr, [], cred, n, hdr, ccq, ccc, sec. repeat split; [exact Ecdn|constructor]. }
      destruct (lookup p (muxers st)) as [m|] eqn:El; [|apply Hcreate; exact Hs].
      destruct (m_cdn m) eqn:Ec; [|apply Hcreate; exact Hs].
      inversion Hs; subst. apply inv_same; [exact HI|intros; reflexivity].
    + destruct ccq; simpl in Hs.
      2:{ inversion Hs; subst. apply inv_same; [exact HI|intros; reflexivity]. }
      destruct (auth c p cred (cip c n)) eqn:Ea; simpl in Hs.
      2:{ inversion Hs; subst. apply inv_same; [exact HI|intros; reflexivity]. }
      destruct (nostream c p).
      { inversion Hs; subst. apply inv_same; [exact HI|intros; reflexivity]. }
      eapply attach_inv; [exact HI|exact Hs|intros; reflexivity|].
      intros m Hm Hx. subst x. split.
      * intros s Hin. simpl in Hin. destruct Hin as [Hnew|Hold].
        -- right. subst s. simpl. exists tr, [], cred, n, hdr, ccc, ccc. repeat split; [exact Ecdn|exact Ea|constructor].
        -- left. apply filter_In in Hold. apply Hold.
      * intros id Hid. left. exact Hid.
  - (* Media *)
    inversion Hs; subst. apply inv_same; [exact HI|intros; reflexivity].
  - (* Kick *)
    inversion Hs; subst. intros p m Hl. cbn [muxers] in Hl. rewrite lookup_map_vals in Hl.
    destruct (lookup p (muxers st)) as [m0|] eqn:El; [|discriminate]. simpl in Hl. inversion Hl; subst m.
    destruct (HI p m0 El) as [H1 H2]. split.
    + intros s Hin. simpl in Hin. apply filter_In in Hin. destruct Hin as [Hin Hne].
      apply backed_snoc; [apply H1; exact Hin|].
      simpl. destruct (existsb (fun e => has_id id (snd e)) (muxers st)); [|reflexivity].
      apply negb_true_iff in Hne. rewrite Z.eqb_sym. exact Hne.
    + intros i Hi. simpl in Hi. destruct (m_cdn m0) as [j|] eqn:Ej; [|discriminate].
      destruct (j =? id) eqn:Eji; [discriminate|]. inversion Hi; subst i.
      apply cdn_backed_snoc; [apply H2; reflexivity|].
      simpl. destruct (existsb (fun e => has_id id (snd e)) (muxers st)); [|reflexivity].
      rewrite Z.eqb_sym. exact Eji.
  - (* Expire *)
    inversion Hs; subst. intros p m Hl. cbn [muxers] in Hl. rewrite lookup_map_vals in Hl.
    destruct (lookup p (muxers st)) as [m0|] eqn:El; [|discriminate]. simpl in Hl. inversion Hl; subst m.
    destruct (HI p m0 El) as [H1 H2]. split.
    + intros s Hin. simpl in Hin. apply filter_In in Hin. destruct Hin as [Hin Hne].
      apply backed_snoc; [apply H1; exact Hin|]. simpl. apply negb_true_iff in Hne. exact Hne.
    + intros i Hi. simpl in Hi. destruct (m_cdn m0) as [j|] eqn:Ej; [|discriminate].
      destruct (memz j ids) eqn:Eji; [discriminate|]. inversion Hi; subst i.
      apply cdn_backed_snoc; [apply H2; reflexivity|]. simpl. exact Eji.
  - (* MuxClose *)
    inversion Hs; subst. intros q m Hl. cbn [muxers] in Hl. rewrite lookup_mremove in Hl.
    destruct (p =? q) eqn:Epq; [discriminate|]. destruct (HI q m Hl) as [H1 H2]. split.
    + intros s Hin. apply backed_snoc; [apply H1; exact Hin|simpl; exact Epq].
    + intros i Hi. apply cdn_backed_snoc; [apply H2; exact Hi|simpl; exact Epq].
  - (* PathReady *)
    destruct (always c && negb (nostream c p) && match lookup p (muxers st) with None => true | Some _ => false end) eqn:E.
    + inversion Hs; subst. intros q m Hl. cbn [muxers] in Hl. rewrite lookup_mset in Hl.
      destruct (p =? q) eqn:Epq.
      * inversion Hl; subst m. split; [intros s Hin; simpl in Hin; contradiction|intros i Hi; simpl in Hi; discriminate].
      * destruct (HI q m Hl) as [H1 H2]. split.
        -- intros s Hin. apply backed_snoc; [apply H1; exact Hin|reflexivity].
        -- intros i Hi. apply cdn_backed_snoc; [apply H2; exact Hi|reflexivity].
    + inversion Hs; subst. apply inv_same; [exact HI|intros; reflexivity].
  - (* PathNotReady *)
    destruct (lookup p (muxers st)) as [m0|] eqn:El.
    + destruct (m_auto m0).
      * inversion Hs; subst. intros q m Hl. cbn [muxers] in Hl. rewrite lookup_mremove in Hl.
        destruct (p =? q) eqn:Epq; [discriminate|]. destruct (HI q m Hl) as [H1 H2]. split.
        -- intros s Hin. apply backed_snoc; [apply H1; exact Hin|simpl; exact Epq].
        -- intros i Hi. apply cdn_backed_snoc; [apply H2; exact Hi|simpl; exact Epq].
      * inversion Hs; subst. apply inv_same; [exact HI|intros; reflexivity].
    + inversion Hs; subst. apply inv_same; [exact HI|intros; reflexivity].
  - (* InstCrash *)
    destruct (lookup p (muxers st)) as [m0|] eqn:El.
    + destruct (m_auto m0).
      * inversion Hs; subst. intros q m Hl. cbn [muxers] in Hl. rewrite lookup_mset in Hl.
        destruct (p =? q) eqn:Epq.
        -- inversion Hl; subst m. split; [intros s Hin; simpl in Hin; contradiction|intros i Hi; simpl in Hi; discriminate].
        -- destruct (HI q m Hl) as [H1 H2]. split.
           ++ intros s Hin. apply backed_snoc; [apply H1; exact Hin|simpl; exact Epq].
           ++ intros i Hi. apply cdn_backed_snoc; [apply H2; exact Hi|simpl; exact Epq].
      * inversion Hs; subst. intros q m Hl. cbn [muxers] in Hl. rewrite lookup_mremove in Hl.
        destruct (p =? q) eqn:Epq; [discriminate|]. destruct (HI q m Hl) as [H1 H2]. split.
        -- intros s Hin. apply backed_snoc; [apply H1; exact Hin|simpl; exact Epq].
        -- intros i Hi. apply cdn_backed_snoc; [apply H2; exact Hi|simpl; exact Epq].
    + inversion Hs; subst. apply inv_same_on; [exact HI|].
      intros q m id Hl. simpl. destruct (p =? q) eqn:Epq; [|reflexivity].
      apply Z.eqb_eq in Epq. subst q. congruence.
  - (* InstRecreate *)
    destruct (lookup p (muxers st)) as [m0|] eqn:El.
    + destruct (m_auto m0 && negb (m_inst m0)).
      * inversion Hs; subst. intros q m Hl. cbn [muxers] in Hl. rewrite lookup_mset in Hl.
        destruct (p =? q) eqn:Epq.
        -- apply Z.eqb_eq in Epq. subst q. inversion Hl; subst m. simpl. destruct (HI p m0 El) as [H1 H2]. split.
           ++ intros s Hin. apply backed_snoc; [apply H1; exact Hin|reflexivity].
           ++ intros i Hi. apply cdn_backed_snoc; [apply H2; exact Hi|reflexivity].
        -- destruct (HI q m Hl) as [H1 H2]. split.
           ++ intros s Hin. apply backed_snoc; [apply H1; exact Hin|reflexivity].
           ++ intros i Hi. apply cdn_backed_snoc; [apply H2; exact Hi|reflexivity].
      * inversion Hs; subst. apply inv_same; [exact HI|intros; reflexivity].
    + inversion Hs; subst. apply inv_same; [exact HI|intros; reflexivity].
Qed.

Lemma exec_inv : forall c ops tr st, Inv c tr st -> Inv c (tr ++ exec c st ops) (final c st ops).
Proof.
  intros c ops. induction ops as [|o r IH]; intros tr st HI; simpl.
  - rewrite app_nil_r. exact HI.
  - destruct (step c st o) as [st1 x] eqn:Es. simpl.
    replace (tr ++ (o, x) :: exec c st1 r) with ((tr ++ [(o, x)]) ++ exec c st1 r) by (rewrite <- app_assoc; reflexivity).
    apply IH. eapply step_inv; eauto.
Qed.

(* an event of the trace was produced by a step from the state reached by the operations before it *)
Lemma exec_split : forall c ops st pre e post,
  exec c st ops = pre ++ e :: post ->
  exists ops1 o ops2, ops = ops1 ++ o :: ops2 /\ pre = exec c st ops1 /\
                      e = (o, snd (step c (final c st ops1) o)).
Proof.
  intros c ops. induction ops as [|o r IH]; intros st pre e post H; simpl in H.
  - destruct pre; discriminate.
  - destruct (step c st o) as [st1 x] eqn:Es. destruct pre as [|a pre'].
    + simpl in H. inversion H; subst. exists [], o, r. simpl. rewrite Es. repeat split.
    + simpl in H. inversion H; subst a. destruct (IH st1 pre' e post H2) as (ops1 & o' & ops2 & Ho & Hp & He).
      exists (o :: ops1), o', ops2. simpl. rewrite Es. simpl. subst r pre'. repeat split. exact He.
Qed.

Lemma reach_inv : forall c ops, Inv c (exec c init ops) (final c init ops).
Proof. intros c ops. apply (exec_inv c ops [] init). apply inv_init. Qed.

(* ---------------------------------------------------------------- the gate -------------------------------------- *)

Lemma media_pass : forall c st p ip hdr ck q,
  media_out c st p ip hdr ck q = OPass ->
  exists m, lookup p (muxers st) = Some m /\ m_inst m = true /\
    ((is_cdn c hdr = true /\ exists id, m_cdn m = Some id) \/
     (is_cdn c hdr = false /\ exists s, In s (m_sess m) /\ uuid_parse (effective ck q) = Some (s_secret s) /\ s_ip s = ip)).
Proof.
  intros c st p ip hdr ck q H. unfold media_out in H.
  destruct (lookup p (muxers st)) as [m|]; [|discriminate]. exists m. split; [reflexivity|].
  destruct (is_cdn c hdr).
  - destruct (m_cdn m) as [id|]; [|discriminate]. destruct (m_inst m); [|discriminate].
    split; [reflexivity|]. left. split; [reflexivity|]. exists id. reflexivity.
  - fold (effective ck q) in H. destruct (uuid_parse (effective ck q)) as [u|]; [|discriminate].
    destruct (find_session u (m_sess m)) as [s|] eqn:Ef; [|discriminate].
    destruct (bytes_eqb (s_ip s) ip) eqn:Eip; [|discriminate]. destruct (m_inst m); [|discriminate].
    split; [reflexivity|]. right. split; [reflexivity|]. exists s.
    unfold find_session in Ef. apply find_some in Ef. destruct Ef as [Hin Hb].
    apply bytes_eqb_eq in Hb. apply bytes_eqb_eq in Eip. repeat split; [exact Hin|congruence|exact Eip].
Qed.

Theorem served_only_if : forall c ops pre post p n hdr ck q,
  exec c init ops = pre ++ (Media p n hdr ck q, OPass) :: post ->
  (is_cdn c hdr = true /\ exists id, cdn_backed c pre p id) \/
  (is_cdn c hdr = false /\ exists id u, uuid_parse (effective ck q) = Some u /\ backed c pre p id u (cip c n)).
Proof.
  intros c ops pre post p n hdr ck q H.
  destruct (exec_split _ _ _ _ _ _ H) as (ops1 & o & ops2 & Hops & Hpre & He).
  injection He as Ho Hx. subst o. simpl in Hx. symmetry in Hx. apply media_pass in Hx.
  destruct Hx as (m & Hl & _ & Hcase).
  pose proof (reach_inv c ops1) as HI. rewrite <- Hpre in HI. destruct (HI p m Hl) as [H1 H2].
  destruct Hcase as [[Hc [id Hid]]|[Hc (s & Hin & Hu & Hip)]].
  - left. split; [exact Hc|]. exists id. apply H2. exact Hid.
  - right. split; [exact Hc|]. exists (s_id s), (s_secret s). split; [exact Hu|]. rewrite <- Hip. apply H1. exact Hin.
Qed.

(* cookie before query *)
Theorem secret_precedence : forall c st p ip hdr v q q',
  media_out c st p ip hdr (Some v) q = media_out c st p ip hdr (Some v) q' /\
  media_out c st p ip hdr None q = media_out c st p ip hdr (Some q) q'.
Proof. intros. split; reflexivity. Qed.

(* a request whose cookie does not parse to a live secret of the path is refused even with the right secret in
   the query *)
Theorem cookie_shadows_query : forall c st p ip hdr v q,
  is_cdn c hdr = false ->
  (forall m s, lookup p (muxers st) = Some m -> In s (m_sess m) -> uuid_parse v <> Some (s_secret s)) ->
  media_out c st p ip hdr (Some v) q <> OPass.
Proof.
  intros c st p ip hdr v q Hc Hno Hp. apply media_pass in Hp. destruct Hp as (m & Hl & _ & [[Hc' _]|[_ (s & Hin & Hu & _)]]).
  - congruence.
  - simpl in Hu. exact (Hno m s Hl Hin Hu).
Qed.

(* the session that serves a request of path p was created by a request for path p: a secret issued only on other
   paths never passes *)
Theorem no_cross_path : forall c ops pre post p n hdr ck q x,
  exec c init ops = pre ++ (Media p n hdr ck q, x) :: post ->
  is_cdn c hdr = false ->
  (forall p' cred n' hdr' ccq ccc sec vc id,
     In (Multi p' cred n' hdr' ccq ccc sec, OCreated vc id) pre ->
     uuid_parse (effective ck q) = Some sec -> p' <> p) ->
  x <> OPass.
Proof.
  intros c ops pre post p n hdr ck q x H Hc Hno Hx. subst x.
  destruct (served_only_if _ _ _ _ _ _ _ _ _ H) as [[Hc' _]|[_ (id & u & Hu & Hb)]]; [congruence|].
  destruct Hb as (pre1 & mid & cred & n' & hdr' & ccc & vc & Hpre & _ & _ & _ & _).
  apply (Hno p cred n' hdr' true ccc u vc id); [|exact Hu|reflexivity].
  rewrite Hpre. apply in_or_app. right. left. reflexivity.
Qed.

(* a session that was kicked, expired, or whose muxer / muxer instance went away no longer serves *)
Theorem closed_sessions_dead : forall c ops pre post p n hdr ck q x,
  exec c init ops = pre ++ (Media p n hdr ck q, x) :: post ->
  is_cdn c hdr = false ->
  (forall pre1 mid cred n' hdr' ccc vc id u,
     pre = pre1 ++ (Multi p cred n' hdr' true ccc u, OCreated vc id) :: mid ->
     cip c n' = cip c n ->
     uuid_parse (effective ck q) = Some u ->
     exists e, In e mid /\ kills p id e = true) ->
  x <> OPass.
Proof.
  intros c ops pre post p n hdr ck q x H Hc Hdead Hx. subst x.
  destruct (served_only_if _ _ _ _ _ _ _ _ _ H) as [[Hc' _]|[_ (id & u & Hu & Hb)]]; [congruence|].
  destruct Hb as (pre1 & mid & cred & n' & hdr' & ccc & vc & Hpre & Hn & _ & _ & Hk).
  destruct (Hdead pre1 mid cred n' hdr' ccc vc id u Hpre Hn Hu) as (e & Hin & Hkill).
  rewrite Forall_forall in Hk. rewrite (Hk e Hin) in Hkill. discriminate.
Qed.

Theorem cdn_closed_sessions_dead : forall c ops pre post p ip hdr ck q x,
  exec c init ops = pre ++ (Media p ip hdr ck q, x) :: post ->
  is_cdn c hdr = true ->
  (forall pre1 mid cred ip' hdr' ccq ccc sec id,
     pre = pre1 ++ (Multi p cred ip' hdr' ccq ccc sec, OCdnCreated id) :: mid ->
     exists e, In e mid /\ kills p id e = true) ->
  x <> OPass.
Proof.
  intros c ops pre post p ip hdr ck q x H Hc Hdead Hx. subst x.
  destruct (served_only_if _ _ _ _ _ _ _ _ _ H) as [[_ (id & Hb)]|[Hc' _]]; [|congruence].
  destruct Hb as (pre1 & mid & cred & ip' & hdr' & ccq & ccc & sec & Hpre & _ & Hk).
  destruct (Hdead pre1 mid cred ip' hdr' ccq ccc sec id Hpre) as (e & Hin & Hkill).
  rewrite Forall_forall in Hk. rewrite (Hk e Hin) in Hkill. discriminate.
Qed.

(* a session is only created for an admitted client that went through the cookie check *)
Theorem created_only_if : forall c ops pre post p cred n hdr ccq ccc sec vc id,
  exec c init ops = pre ++ (Multi p cred n hdr ccq ccc sec, OCreated vc id) :: post ->
  is_cdn c hdr = false /\ ccq = true /\ auth c p cred (cip c n) = true /\ nostream c p = false /\ vc = ccc.
Proof.
  intros c ops pre post p cred n hdr ccq ccc sec vc id H.
  destruct (exec_split _ _ _ _ _ _ H) as (ops1 & o & ops2 & _ & _ & He).
  injection He as Ho Hx. subst o. symmetry in Hx.
  set (st := final c init ops1) in *. simpl in Hx.
  destruct (is_cdn c hdr) eqn:Ecdn.
  - exfalso.
    destruct (lookup p (muxers st)) as [m|] eqn:El.
    + destruct (m_cdn m).
      * simpl in Hx. destruct (m_inst m); discriminate.
      * destruct (nostream c p); [discriminate|]. unfold attach in Hx. rewrite El in Hx.
        destruct (m_inst m); simpl in Hx; discriminate.
    + destruct (nostream c p); [discriminate|]. unfold attach in Hx. rewrite El in Hx.
      destruct (always c); simpl in Hx; discriminate.
  - destruct ccq; simpl in Hx; [|discriminate].
    destruct (auth c p cred (cip c n)); simpl in Hx; [|discriminate].
    destruct (nostream c p); [discriminate|].
    unfold attach in Hx. destruct (lookup p (muxers st)) as [m|].
    + destruct (m_inst m); simpl in Hx; [|discriminate]. inversion Hx. repeat split.
    + destruct (always c); simpl in Hx; [discriminate|]. inversion Hx. repeat split.
Qed.

(* ---------------------------------------------------------------- spellings of one secret ----------------------- *)

Lemma hex_at_app : forall s t offs, (forall k, In k offs -> (S k < length s)%nat) -> hex_at (s ++ t) offs = hex_at s offs.
Proof.
  intros s t offs. induction offs as [|k r IH]; intros Hb; simpl; [reflexivity|].
  assert (Hk : (S k < length s)%nat) by (apply Hb; left; reflexivity).
  unfold byte_at. rewrite !app_nth1 by lia. rewrite IH; [reflexivity|].
  intros j Hj. apply Hb. right. exact Hj.
Qed.

Lemma parse36_app : forall s t, length s = 36%nat -> parse36 (s ++ t) = parse36 s.
Proof.
  intros s t Hl. unfold parse36, byte_at. rewrite !app_nth1 by lia.
  fold (byte_at s 8) (byte_at s 13) (byte_at s 18) (byte_at s 23).
  rewrite hex_at_app; [reflexivity|].
  intros k Hk. rewrite Hl. unfold offs36 in Hk. simpl in Hk.
  repeat (destruct Hk as [Hk|Hk]; [subst k; lia|]). contradiction.
Qed.

(* a canonical 36-byte secret wrapped in ANY two bytes (not only braces) is the same secret *)
Lemma spelling_wrapped : forall s x y, length s = 36%nat -> uuid_parse (x :: s ++ [y]) = uuid_parse s.
Proof.
  intros s x y Hl. unfold uuid_parse. simpl length. rewrite app_length, Hl. simpl.
  apply parse36_app. exact Hl.
Qed.

(* ... and so is urn:uuid: followed by it, with the prefix in any letter case *)
Lemma spelling_urn : forall s pfx, length s = 36%nat -> map lower pfx = urn_prefix ->
  uuid_parse (pfx ++ s) = uuid_parse s.
Proof.
  intros s pfx Hl Hp.
  assert (Hlp : length pfx = 9%nat) by (rewrite <- (map_length lower), Hp; reflexivity).
  unfold uuid_parse. rewrite app_length, Hl, Hlp. simpl Z.of_nat. simpl Z.eqb. cbv iota.
  replace (firstn 9 (pfx ++ s)) with pfx.
  2:{ rewrite <- Hlp. rewrite firstn_app, firstn_all, Nat.sub_diag. simpl. rewrite app_nil_r. reflexivity. }
  rewrite Hp. replace (bytes_eqb urn_prefix urn_prefix) with true by reflexivity.
  replace (skipn 9 (pfx ++ s)) with s.
  2:{ rewrite <- Hlp. rewrite skipn_app, skipn_all, Nat.sub_diag. reflexivity. }
  reflexivity.
Qed.

Lemma xval_lower : forall c, xval (lower c) = xval c.
Proof.
  intro c. unfold xval, lower.
  destruct ((65 <=? c) && (c <=? 90)) eqn:E; [|reflexivity].
  apply andb_true_iff in E. destruct E as [E1 E2]. apply Z.leb_le in E1. apply Z.leb_le in E2.
  replace ((48 <=? c + 32) && (c + 32 <=? 57)) with false by (symmetry; apply andb_false_iff; right; apply Z.leb_gt; lia).
  replace ((65 <=? c + 32) && (c + 32 <=? 70)) with false by (symmetry; apply andb_false_iff; right; apply Z.leb_gt; lia).
  replace ((48 <=? c) && (c <=? 57)) with false by (symmetry; apply andb_false_iff; right; apply Z.leb_gt; lia).
  replace ((97 <=? c) && (c <=? 102)) with false by (symmetry; apply andb_false_iff; left; apply Z.leb_gt; lia).
  replace (65 <=? c) with true by (symmetry; apply Z.leb_le; lia).
  replace (97 <=? c + 32) with true by (symmetry; apply Z.leb_le; lia).
  simpl. destruct (c <=? 70) eqn:E70.
  - apply Z.leb_le in E70. replace (c + 32 <=? 102) with true by (symmetry; apply Z.leb_le; lia). f_equal. lia.
  - apply Z.leb_gt in E70. replace (c + 32 <=? 102) with false by (symmetry; apply Z.leb_gt; lia). reflexivity.
Qed.

Lemma byte_at_lower : forall s k, byte_at (map lower s) k = lower (byte_at s k).
Proof.
  intros s k. unfold byte_at. change (-1) with (lower (-1)) at 1. apply map_nth.
Qed.

Lemma lower_dash : forall c, (lower c =? 45) = (c =? 45).
Proof.
  intro c. unfold lower. destruct ((65 <=? c) && (c <=? 90)) eqn:E; [|reflexivity].
  apply andb_true_iff in E. destruct E as [E1 E2]. apply Z.leb_le in E1. apply Z.leb_le in E2.
  transitivity false; [apply Z.eqb_neq; lia|symmetry; apply Z.eqb_neq; lia].
Qed.

Lemma hex_at_lower : forall s offs, hex_at (map lower s) offs = hex_at s offs.
Proof.
  intros s offs. induction offs as [|k r IH]; simpl; [reflexivity|].
  rewrite !byte_at_lower. unfold xtob. rewrite !xval_lower. rewrite IH. reflexivity.
Qed.

Lemma parse36_lower : forall s, parse36 (map lower s) = parse36 s.
Proof.
  intro s. unfold parse36. rewrite !byte_at_lower, !lower_dash, hex_at_lower. reflexivity.
Qed.

Lemma lower_idem : forall c, lower (lower c) = lower c.
Proof.
  intro c. unfold lower. destruct ((65 <=? c) && (c <=? 90)) eqn:E.
  - apply andb_true_iff in E. destruct E as [E1 E2]. apply Z.leb_le in E1. apply Z.leb_le in E2.
    replace ((65 <=? c + 32) && (c + 32 <=? 90)) with false; [reflexivity|].
    symmetry. apply andb_false_iff. right. apply Z.leb_gt. lia.
  - rewrite E. reflexivity.
Qed.

(* the comparison is case-insensitive: changing upper-case ASCII letters to lower case never changes the result *)
Lemma spelling_case : forall s, uuid_parse (map lower s) = uuid_parse s.
Proof.
  intro s. unfold uuid_parse. rewrite map_length.
  rewrite !skipn_map, firstn_map, !parse36_lower, hex_at_lower, map_map.
  replace (map (fun x => lower (lower x)) (firstn 9 s)) with (map lower (firstn 9 s))
    by (apply map_ext; intro; symmetry; apply lower_idem).
  reflexivity.
Qed.

(* ---------------------------------------------------------------- the IP of a request --------------------------- *)

Lemma cip_untrusted_peer : forall c n, untrusted_peer c n -> cip c n = peer_text n.
Proof.
  intros c n H. unfold cip, client_ip, peer_text, untrusted_peer in *. cbn [e_platform hls_engine].
  destruct (n_peer n) as [[txt a]|]; [|reflexivity]. cbn [e_trusted hls_engine]. rewrite H. reflexivity.
Qed.

Theorem cip_no_trusted_proxies : forall c n, trusted c = [] -> cip c n = peer_text n.
Proof.
  intros c n H. apply cip_untrusted_peer. unfold untrusted_peer. destruct (n_peer n) as [[txt a]|]; [|exact I].
  rewrite H. reflexivity.
Qed.

(* whatever an untrusted peer writes into its headers changes nothing: same outcome, same next state *)
Theorem forged_headers_irrelevant : forall c st peer hs hs',
  untrusted_peer c {| n_peer := peer; n_hdrs := hs |} ->
  (forall p cred hdr ccq ccc sec,
     step c st (Multi p cred {| n_peer := peer; n_hdrs := hs |} hdr ccq ccc sec) =
     step c st (Multi p cred {| n_peer := peer; n_hdrs := hs' |} hdr ccq ccc sec)) /\
  (forall p hdr ck q,
     step c st (Media p {| n_peer := peer; n_hdrs := hs |} hdr ck q) =
     step c st (Media p {| n_peer := peer; n_hdrs := hs' |} hdr ck q)).
Proof.
  intros c st peer hs hs' H.
  assert (E : cip c {| n_peer := peer; n_hdrs := hs |} = cip c {| n_peer := peer; n_hdrs := hs' |}).
  { rewrite !cip_untrusted_peer; [reflexivity| |exact H]. exact H. }
  split; intros; cbn [step]; rewrite E; reflexivity.
Qed.

Theorem served_untrusted_peer : forall c ops pre post p n hdr ck q,
  untrusted_peer c n ->
  exec c init ops = pre ++ (Media p n hdr ck q, OPass) :: post ->
  is_cdn c hdr = false ->
  exists id u, uuid_parse (effective ck q) = Some u /\ backed c pre p id u (peer_text n).
Proof.
  intros c ops pre post p n hdr ck q Hu H Hc.
  destruct (served_only_if _ _ _ _ _ _ _ _ _ H) as [[Hc' _]|[_ Hb]]; [congruence|].
  rewrite (cip_untrusted_peer _ _ Hu) in Hb. exact Hb.
Qed.

(* the default configuration (no trusted proxies): creation and use come from the same TCP peer address *)
Theorem served_same_peer_default : forall c ops pre post p n hdr ck q,
  trusted c = [] ->
  exec c init ops = pre ++ (Media p n hdr ck q, OPass) :: post ->
  is_cdn c hdr = false ->
  exists pre1 mid cred n0 hdr0 ccc vc id u,
    pre = pre1 ++ (Multi p cred n0 hdr0 true ccc u, OCreated vc id) :: mid /\
    peer_text n0 = peer_text n /\ uuid_parse (effective ck q) = Some u /\
    is_cdn c hdr0 = false /\ auth c p cred (peer_text n0) = true /\
    Forall (fun e => kills p id e = false) mid.
Proof.
  intros c ops pre post p n hdr ck q Ht H Hc.
  destruct (served_only_if _ _ _ _ _ _ _ _ _ H) as [[Hc' _]|[_ (id & u & Hu & Hb)]]; [congruence|].
  destruct Hb as (pre1 & mid & cred & n0 & hdr0 & ccc & vc & Hpre & Hn & Hc0 & Ha & Hk).
  rewrite (cip_no_trusted_proxies _ n Ht) in Hn, Ha. rewrite (cip_no_trusted_proxies _ n0 Ht) in Hn.
  exists pre1, mid, cred, n0, hdr0, ccc, vc, id, u. rewrite Hn. repeat split; assumption.
Qed.

(* where the client IP can come from *)
Lemma validate_rev_in : forall parse tr its ip,
  validate_rev parse tr its = Some ip -> In ip its /\ parse ip <> None.
Proof.
  intros parse tr its. induction its as [|it rest IH]; intros ip H; simpl in H; [discriminate|].
  destruct (parse it) as [a|] eqn:Ep; [|discriminate].
  destruct ((match rest with [] => true | _ :: _ => false end) || negb (is_trusted tr a)).
  - inversion H; subst ip. split; [left; reflexivity|congruence].
  - destruct (IH ip H) as [H1 H2]. split; [right; exact H1|exact H2].
Qed.

Lemma validate_header_in : forall parse tr v ip,
  validate_header parse tr v = Some ip -> In ip (items v) /\ parse ip <> None.
Proof.
  intros parse tr v ip H. unfold validate_header in H. destruct v as [|x v']; [discriminate|].
  apply validate_rev_in in H. destruct H as [H1 H2]. split; [apply in_rev; exact H1|exact H2].
Qed.

Lemma first_valid_in : forall parse tr n hs ip,
  first_valid parse tr n hs = Some ip -> exists h, In h hs /\ In ip (items (hdr_val n h)) /\ parse ip <> None.
Proof.
  intros parse tr n hs. induction hs as [|h r IH]; intros ip H; simpl in H; [discriminate|].
  destruct (validate_header parse tr (hdr_val n h)) as [x|] eqn:Ev.
  - inversion H; subst x. apply validate_header_in in Ev. exists h. split; [left; reflexivity|exact Ev].
  - destruct (IH ip H) as (h' & Hin & Hr). exists h'. split; [right; exact Hin|exact Hr].
Qed.

(* ClientIP is the IP of the TCP peer, or - only when that peer is a trusted proxy - an item of X-Forwarded-For or
   X-Real-Ip that is an IP; no other header is ever consulted *)
Theorem cip_cases : forall c n txt a,
  n_peer n = Some (txt, a) ->
  cip c n = txt \/
  (is_trusted (trusted c) a = true /\
   exists h, (h = h_xff \/ h = h_xreal) /\ In (cip c n) (items (hdr_val n h)) /\ parse_ip c (cip c n) <> None).
Proof.
  intros c n txt a Hp. unfold cip, client_ip. cbn [e_platform hls_engine e_trusted e_forwarded e_headers]. rewrite Hp.
  destruct (is_trusted (trusted c) a) eqn:Et; cbn [andb]; [|left; reflexivity].
  destruct (first_valid (parse_ip c) (trusted c) n [h_xff; h_xreal]) as [ip|] eqn:Ef; [|left; reflexivity].
  right. split; [reflexivity|]. apply first_valid_in in Ef. destruct Ef as (h & Hin & Hr).
  exists h. split; [|exact Hr]. simpl in Hin. destruct Hin as [Hh|[Hh|[]]]; [left|right]; congruence.
Qed.

(* ---- strings.Split / TrimSpace on what honest proxies write -------------------------------------------------- *)

Lemma split_comma_cons : forall s, exists h t, split_comma s = h :: t.
Proof.
  induction s as [|c r IH]; simpl; [eauto|]. destruct (c =? 44); [eauto|].
  destruct IH as (h & t & E). rewrite E. eauto.
Qed.

Lemma split_comma_app : forall x t, split_comma (x ++ 44 :: t) = split_comma x ++ split_comma t.
Proof.
  induction x as [|c r IH]; intro t; simpl; [reflexivity|].
  destruct (c =? 44); [rewrite IH; reflexivity|].
  rewrite IH. destruct (split_comma_cons r) as (h & tl & E). rewrite E. reflexivity.
Qed.

Lemma split_comma_nocomma : forall t, forallb (fun c => negb (c =? 44)) t = true -> split_comma t = [t].
Proof.
  induction t as [|c r IH]; simpl; intro H; [reflexivity|].
  apply andb_true_iff in H. destruct H as [H1 H2]. apply negb_true_iff in H1. rewrite H1, (IH H2). reflexivity.
Qed.

Lemma trim_left_nospace : forall t, forallb (fun c => negb (is_space c)) t = true -> trim_left t = t.
Proof.
  intros [|c r] H; simpl; [reflexivity|]. simpl in H. apply andb_true_iff in H. destruct H as [H1 _].
  apply negb_true_iff in H1. rewrite H1. reflexivity.
Qed.

Lemma forallb_rev : forall (f : Z -> bool) l, forallb f l = true -> forallb f (rev l) = true.
Proof.
  intros f l H. rewrite forallb_forall in *. intros x Hx. apply H. apply in_rev. exact Hx.
Qed.

Lemma trim_nospace : forall t, forallb (fun c => negb (is_space c)) t = true -> trim t = t.
Proof.
  intros t H. unfold trim. rewrite (trim_left_nospace t H), (trim_left_nospace (rev t) (forallb_rev _ _ H)).
  apply rev_involutive.
Qed.

Lemma clean_parts : forall t, clean t = true ->
  t <> [] /\ forallb (fun c => negb (c =? 44)) t = true /\ forallb (fun c => negb (is_space c)) t = true.
Proof.
  intros t H. unfold clean in H. apply andb_true_iff in H. destruct H as [H1 H2]. split; [|split].
  - destruct t; [discriminate|congruence].
  - rewrite forallb_forall in *. intros x Hx. specialize (H2 x Hx). apply andb_true_iff in H2. apply H2.
  - rewrite forallb_forall in *. intros x Hx. specialize (H2 x Hx). apply andb_true_iff in H2. apply H2.
Qed.

Definition pref (x : list Z) : list (list Z) := match x with [] => [] | _ :: _ => items x end.

Lemma items_proxy_append : forall x t, clean t = true -> items (proxy_append x t) = pref x ++ [t].
Proof.
  intros x t H. destruct (clean_parts t H) as (_ & Hc & Hs). unfold proxy_append, pref, items.
  destruct x as [|a x'].
  - rewrite (split_comma_nocomma t Hc). simpl. rewrite (trim_nospace t Hs). reflexivity.
  - change ((a :: x') ++ [44; 32] ++ t) with ((a :: x') ++ 44 :: (32 :: t)).
    rewrite split_comma_app, map_app. f_equal.
    assert (E : split_comma (32 :: t) = [32 :: t]) by (apply split_comma_nocomma; simpl; exact Hc).
    rewrite E. simpl map. f_equal. unfold trim. cbn [trim_left is_space Z.eqb orb]. 
    change (rev (trim_left (rev (trim_left t))) = t). apply (trim_nospace t Hs).
Qed.

Lemma proxy_append_nonempty : forall x t, t <> [] -> proxy_append x t <> [].
Proof. intros [|a x] t H; simpl; [exact H|discriminate]. Qed.

Lemma pref_nonempty : forall x, x <> [] -> pref x = items x.
Proof. intros [|a x] H; [congruence|reflexivity]. Qed.

Lemma items_chain : forall ts x0, ts <> [] -> Forall (fun t => clean t = true) ts ->
  items (chain_xff x0 ts) = pref x0 ++ ts.
Proof.
  induction ts as [|t r IH]; intros x0 Hne Hc; [congruence|].
  inversion Hc as [|? ? Ht Hr]; subst. unfold chain_xff. simpl fold_left. fold (chain_xff (proxy_append x0 t) r).
  destruct r as [|t' r'].
  - simpl. apply items_proxy_append. exact Ht.
  - rewrite IH; [|discriminate|exact Hr].
    rewrite pref_nonempty by (apply proxy_append_nonempty; apply (clean_parts t Ht)).
    rewrite (items_proxy_append x0 t Ht), <- app_assoc. reflexivity.
Qed.

Lemma validate_rev_skip : forall parse tr ps rest,
  Forall (fun t => exists a, parse t = Some a /\ is_trusted tr a = true) ps -> rest <> [] ->
  validate_rev parse tr (ps ++ rest) = validate_rev parse tr rest.
Proof.
  intros parse tr ps rest H Hne. induction H as [|t ps' (a & Hp & Ht) _ IH]; [reflexivity|].
  simpl. rewrite Hp, Ht. destruct (ps' ++ rest) eqn:E.
  - apply app_eq_nil in E. destruct E; congruence.
  - simpl. exact IH.
Qed.

(* The client at address ca (written ct) sends ANY X-Forwarded-For x0 (and any other header); the request travels
   through the proxies ps and then the proxy (pt, pa) that connects to the server; every proxy appends the IP of its
   peer; all of them are configured as trusted, the client is not. Then ClientIP is the client's IP. *)
Theorem cip_honest_chain : forall c n x0 ct ca ps pt pa,
  n_peer n = Some (pt, pa) -> is_trusted (trusted c) pa = true ->
  hdr_val n h_xff = chain_xff x0 (ct :: map fst ps) ->
  clean ct = true -> parse_ip c ct = Some ca -> is_trusted (trusted c) ca = false ->
  Forall (fun e => clean (fst e) = true /\ parse_ip c (fst e) = Some (snd e) /\ is_trusted (trusted c) (snd e) = true) ps ->
  cip c n = ct.
Proof.
  intros c n x0 ct ca ps pt pa Hp Ht Hx Hcl Hpc Hut Hps.
  assert (Hit : items (hdr_val n h_xff) = pref x0 ++ ct :: map fst ps).
  { rewrite Hx. apply items_chain; [discriminate|]. constructor; [exact Hcl|].
    rewrite Forall_forall in *. intros t Hin. apply in_map_iff in Hin. destruct Hin as (e & He & Hin). subst t.
    apply (Hps e Hin). }
  assert (Hv : validate_header (parse_ip c) (trusted c) (hdr_val n h_xff) = Some ct).
  { unfold validate_header. destruct (hdr_val n h_xff) as [|b v'] eqn:Ev.
    - exfalso. unfold items in Hit. simpl in Hit. destruct (pref x0); simpl in Hit.
      + inversion Hit as [[Hct Hm]]. destruct (clean_parts ct Hcl) as (Hne & _). apply Hne. rewrite <- Hct. reflexivity.
      + inversion Hit as [[H1 H2]]. symmetry in H2. apply app_eq_nil in H2. destruct H2; discriminate.
    - rewrite Hit, rev_app_distr. simpl rev. rewrite <- app_assoc. simpl app.
      rewrite validate_rev_skip.
      + simpl. rewrite Hpc, Hut. rewrite orb_true_r. reflexivity.
      + rewrite Forall_forall in *. intros t Hin. apply in_rev in Hin. apply in_map_iff in Hin.
        destruct Hin as (e & He & Hin). subst t. destruct (Hps e Hin) as (_ & H1 & H2). exists (snd e). split; assumption.
      + discriminate. }
  unfold cip, client_ip. cbn [e_platform hls_engine e_trusted e_forwarded e_headers]. rewrite Hp, Ht. cbn [andb first_valid].
  rewrite Hv. reflexivity.
Qed.
