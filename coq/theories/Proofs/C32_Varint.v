(* Proofs about Model/C32_Moq.v: round trips (parser-combinator style), canonical varint size,
   no panic, allocation within the protocol limits. *)
From Coq Require Import List ZArith Lia Bool ZifyBool.
Require Import MTX.Lib.IntWrap MTX.Model.C32_Moq.
Import ListNotations.
Local Open Scope Z_scope.

(* ------------------------------------------------------------------------------------------ *)
(* lists and slices *)

Lemma len_app {A} (a b : list A) : len (a ++ b) = len a + len b.
Proof. unfold len. rewrite app_length. lia. Qed.

Lemma len_cons {A} (x : A) (l : list A) : len (x :: l) = 1 + len l.
Proof. unfold len. cbn [length]. lia. Qed.

Lemma len_nil {A} : len (@nil A) = 0.
Proof. reflexivity. Qed.

Lemma len_nonneg {A} (l : list A) : 0 <= len l.
Proof. unfold len. lia. Qed.

Lemma to_nat_len {A} (l : list A) : Z.to_nat (len l) = length l.
Proof. unfold len. lia. Qed.

Lemma firstn_len_app {A} (a b : list A) : firstn (Z.to_nat (len a)) (a ++ b) = a.
Proof.
  rewrite to_nat_len. rewrite firstn_app, Nat.sub_diag, firstn_all. cbn. apply app_nil_r.
Qed.

Lemma skipn_len_app {A} (a b : list A) : skipn (Z.to_nat (len a)) (a ++ b) = b.
Proof.
  rewrite to_nat_len. rewrite skipn_app, Nat.sub_diag, skipn_all. reflexivity.
Qed.

Lemma slice_to_app {A} (a r : bytes) (k : bytes -> res A) n :
  n = len a -> slice_to n (a ++ r) k = k a.
Proof.
  intros ->. unfold slice_to. rewrite len_app.
  pose proof (len_nonneg a). pose proof (len_nonneg r).
  replace ((0 <=? len a) && (len a <=? len a + len r)) with true by lia.
  now rewrite firstn_len_app.
Qed.

Lemma slice_from_app {A} (a r : bytes) (k : bytes -> res A) n :
  n = len a -> slice_from n (a ++ r) k = k r.
Proof.
  intros ->. unfold slice_from. rewrite len_app.
  pose proof (len_nonneg a). pose proof (len_nonneg r).
  replace ((0 <=? len a) && (len a <=? len a + len r)) with true by lia.
  now rewrite skipn_len_app.
Qed.

Lemma take_n_app (a r : bytes) n : n = len a -> take_n n (a ++ r) = Some (a, r).
Proof.
  intros ->. unfold take_n. rewrite len_app.
  pose proof (len_nonneg a). pose proof (len_nonneg r).
  replace ((0 <=? len a) && (len a <=? len a + len r)) with true by lia.
  now rewrite firstn_len_app, skipn_len_app.
Qed.

Lemma to_int_small x : x < two63 -> to_int x = x.
Proof. intros H. unfold to_int. destruct (Z.ltb_spec x two63); [reflexivity|lia]. Qed.

Lemma bind_assoc {A B C} (m : res A) (f : A -> bytes -> res B) (g : B -> bytes -> res C) :
  bind (bind m f) g = bind m (fun v r => bind (f v r) g).
Proof. destruct m; reflexivity. Qed.

(* ------------------------------------------------------------------------------------------ *)
(* safety: a result that is neither Panic nor Overalloc, whose rest is made of bytes and is no
   longer than n *)

Definition is_byte (x : Z) : Prop := 0 <= x < 256.

Definition safe {A} (r : res A) (n : nat) : Prop :=
  match r with
  | Ok _ rest => (length rest <= n)%nat /\ Forall is_byte rest
  | Err => True
  | Panic => False
  | Overalloc _ => False
  end.

Lemma safe_mono {A} (r : res A) n m : safe r n -> (n <= m)%nat -> safe r m.
Proof. destruct r; cbn; intuition lia. Qed.

Lemma safe_bind {A B} (m : res A) (f : A -> bytes -> res B) n n' :
  safe m n -> (forall v r, (length r <= n)%nat -> Forall is_byte r -> safe (f v r) n') -> safe (bind m f) n'.
Proof. destruct m; cbn; auto. intros [H1 H2] H. auto. Qed.

Lemma safe_not_panic {A} (r : res A) n : safe r n -> r <> Panic.
Proof. destruct r; cbn; intros H; [discriminate|discriminate|contradiction|discriminate]. Qed.

Lemma safe_not_overalloc {A} (r : res A) n : safe r n -> forall k, r <> Overalloc k.
Proof. destruct r; cbn; intros H k; [discriminate|discriminate|discriminate|contradiction]. Qed.

Lemma Forall_firstn {A} (P : A -> Prop) n (l : list A) : Forall P l -> Forall P (firstn n l).
Proof. intros H. rewrite <- (firstn_skipn n l) in H. apply Forall_app in H. tauto. Qed.

Lemma Forall_skipn {A} (P : A -> Prop) n (l : list A) : Forall P l -> Forall P (skipn n l).
Proof. intros H. rewrite <- (firstn_skipn n l) in H. apply Forall_app in H. tauto. Qed.

Lemma safe_slice_from {A} n (buf : bytes) (k : bytes -> res A) m :
  0 <= n <= len buf -> safe (k (skipn (Z.to_nat n) buf)) m -> safe (slice_from n buf k) m.
Proof.
  intros Hn Hk. unfold slice_from.
  replace ((0 <=? n) && (n <=? len buf)) with true by lia. auto.
Qed.

Lemma safe_slice_to {A} n (buf : bytes) (k : bytes -> res A) m :
  0 <= n <= len buf -> safe (k (firstn (Z.to_nat n) buf)) m -> safe (slice_to n buf k) m.
Proof.
  intros Hn Hk. unfold slice_to.
  replace ((0 <=? n) && (n <=? len buf)) with true by lia. auto.
Qed.

Lemma skipn_length_le {A} n (l : list A) : (length (skipn n l) <= length l)%nat.
Proof. rewrite skipn_length. lia. Qed.

(* ------------------------------------------------------------------------------------------ *)
(* varint *)

Lemma be_val_be_bytes k : forall v acc, 0 <= v ->
  be_val acc (be_bytes k v) = acc * 256 ^ Z.of_nat k + v mod 256 ^ Z.of_nat k.
Proof.
  induction k as [|k IH]; intros v acc Hv.
  - cbn [be_bytes be_val]. change (256 ^ Z.of_nat 0) with 1. rewrite Z.mod_1_r. lia.
  - cbn [be_bytes be_val]. rewrite IH by exact Hv.
    replace (Z.of_nat (S k)) with (Z.of_nat k + 1) by lia.
    rewrite Z.pow_add_r by lia. change (256 ^ 1) with 256.
    assert (Hp : 0 < 256 ^ Z.of_nat k) by (apply Z.pow_pos_nonneg; lia).
    rewrite (Z.rem_mul_r v (256 ^ Z.of_nat k) 256) by lia. lia.
Qed.

Lemma be_bytes_length k v : length (be_bytes k v) = k.
Proof. induction k as [|k IH]; cbn [be_bytes length]; [reflexivity|now rewrite IH]. Qed.

Lemma len_be_bytes k v : len (be_bytes k v) = Z.of_nat k.
Proof. unfold len. now rewrite be_bytes_length. Qed.

Lemma be_bytes_bytes k v : Forall is_byte (be_bytes k v).
Proof.
  induction k as [|k IH]; cbn [be_bytes]; constructor; [|exact IH].
  unfold is_byte. apply Z.mod_pos_bound. lia.
Qed.

(* every size the switch can produce *)
Lemma varint_size_range b size : varint_size b = Some size -> 1 <= size <= 9.
Proof.
  unfold varint_size.
  repeat match goal with |- context [if ?c then _ else _] => destruct c end;
    intros H; inversion H; lia.
Qed.

(* the switch, on a byte, by ranges *)
Lemma varint_size_byte b : 0 <= b < 256 ->
  varint_size b = Some (if b <? 128 then 1 else if b <? 192 then 2 else if b <? 224 then 3
                        else if b <? 240 then 4 else if b <? 248 then 5 else if b <? 252 then 6
                        else if b <? 254 then 7 else if b <? 255 then 8 else 9).
Proof.
  intros Hb. unfold varint_size.
  repeat match goal with
         | |- context [?x =? ?y] => destruct (Z.eqb_spec x y)
         | |- context [?x <? ?y] => destruct (Z.ltb_spec x y)
         end; try reflexivity; exfalso; Z.div_mod_to_equations; lia.
Qed.

(* decoding one class: first byte b of class size, then size-1 bytes *)
Lemma dec_varint_step b size bs rest :
  varint_size b = Some size -> size <> 1 -> len bs = size - 1 ->
  dec_varint (b :: bs ++ rest) = Ok (be_val (varint_hi size b) bs) rest.
Proof.
  intros Hs H1 Hl. unfold dec_varint. rewrite Hs.
  destruct (Z.eqb_spec size 1) as [E|_]; [contradiction|].
  rewrite len_cons, len_app. pose proof (len_nonneg rest).
  destruct (Z.ltb_spec (1 + (len bs + len rest)) size) as [L|_]; [lia|].
  rewrite take_n_app by lia. reflexivity.
Qed.

Lemma read_varint_eq s : read_varint s = dec_varint s.
Proof.
  destruct s as [|b tl]; [reflexivity|]. unfold read_varint, dec_varint.
  destruct (varint_size b) as [size|] eqn:Hs; [|reflexivity].
  apply varint_size_range in Hs.
  destruct (Z.eqb_spec size 1) as [E|N]; [reflexivity|].
  unfold alloc. destruct (Z.leb_spec (size - 1) 8) as [_|L]; [|lia].
  rewrite len_cons.
  destruct (Z.ltb_spec (len tl) (size - 1)), (Z.ltb_spec (1 + len tl) size); try lia; reflexivity.
Qed.

Definition u64 (v : Z) : Prop := 0 <= v < two64.

(* one multi-byte class: prefix P, M values of the first byte, k following bytes *)
Lemma dec_class (k : nat) (P M size v : Z) rest :
  size = Z.of_nat k + 1 -> size <> 1 -> 0 <= v -> v / 256 ^ Z.of_nat k < M ->
  (forall h, 0 <= h < M -> varint_size (P + h) = Some size /\ varint_hi size (P + h) = h) ->
  dec_varint ((P + v / 256 ^ Z.of_nat k) :: be_bytes k v ++ rest) = Ok v rest.
Proof.
  intros Hsize H1 Hv HM Hcls.
  assert (Hp : 0 < 256 ^ Z.of_nat k) by (apply Z.pow_pos_nonneg; lia).
  assert (Hh : 0 <= v / 256 ^ Z.of_nat k < M) by (split; [apply Z.div_pos; lia|exact HM]).
  destruct (Hcls _ Hh) as [Hs Hhi].
  rewrite (dec_varint_step _ size) by (try assumption; rewrite len_be_bytes; lia).
  rewrite Hhi, be_val_be_bytes by exact Hv.
  f_equal. pose proof (Z.div_mod v (256 ^ Z.of_nat k)). lia.
Qed.

Ltac class_side :=
  let h := fresh "h" in let Hh := fresh "Hh" in
  intros h Hh; split;
  [ rewrite varint_size_byte by lia;
    repeat match goal with |- context [?x <? ?y] => destruct (Z.ltb_spec x y) end;
    try reflexivity; exfalso; lia
  | unfold varint_hi; cbn [Z.eqb Pos.eqb]; Z.div_mod_to_equations; lia ].

Lemma div_small_mod v d : 0 <= v -> 0 < d -> v / d < 256 -> (v / d) mod 256 = v / d.
Proof. intros Hv Hd H. apply Z.mod_small. split; [apply Z.div_pos; lia|exact H]. Qed.

Theorem varint_roundtrip v rest : u64 v -> dec_varint (enc_varint v ++ rest) = Ok v rest.
Proof.
  unfold u64, two64. intros Hv. unfold enc_varint.
  destruct (Z.ltb_spec v (2 ^ 7)) as [C1|C1].
  { cbn [app]. unfold dec_varint. rewrite Z.mod_small by lia.
    rewrite varint_size_byte by lia. destruct (Z.ltb_spec v 128); [reflexivity|lia]. }
  destruct (Z.ltb_spec v (2 ^ 14)) as [C2|C2].
  { change (2 ^ 8) with (256 ^ Z.of_nat 1). rewrite div_small_mod; try lia.
    2:{ change (256 ^ Z.of_nat 1) with 256. Z.div_mod_to_equations; lia. }
    cbn [app]. apply (dec_class 1 128 64 2); try lia.
    - change (256 ^ Z.of_nat 1) with 256. Z.div_mod_to_equations; lia.
    - class_side. }
  destruct (Z.ltb_spec v (2 ^ 21)) as [C3|C3].
  { change (2 ^ 16) with (256 ^ Z.of_nat 2). rewrite div_small_mod; try lia.
    2:{ change (256 ^ Z.of_nat 2) with 65536. Z.div_mod_to_equations; lia. }
    cbn [app]. apply (dec_class 2 192 32 3); try lia.
    - change (256 ^ Z.of_nat 2) with 65536. Z.div_mod_to_equations; lia.
    - class_side. }
  destruct (Z.ltb_spec v (2 ^ 28)) as [C4|C4].
  { change (2 ^ 24) with (256 ^ Z.of_nat 3). rewrite div_small_mod; try lia.
    2:{ change (256 ^ Z.of_nat 3) with 16777216. Z.div_mod_to_equations; lia. }
    cbn [app]. apply (dec_class 3 224 16 4); try lia.
    - change (256 ^ Z.of_nat 3) with 16777216. Z.div_mod_to_equations; lia.
    - class_side. }
  destruct (Z.ltb_spec v (2 ^ 35)) as [C5|C5].
  { change (2 ^ 32) with (256 ^ Z.of_nat 4). rewrite div_small_mod; try lia.
    2:{ change (256 ^ Z.of_nat 4) with 4294967296. Z.div_mod_to_equations; lia. }
    cbn [app]. apply (dec_class 4 240 8 5); try lia.
    - change (256 ^ Z.of_nat 4) with 4294967296. Z.div_mod_to_equations; lia.
    - class_side. }
  destruct (Z.ltb_spec v (2 ^ 42)) as [C6|C6].
  { change (2 ^ 40) with (256 ^ Z.of_nat 5). rewrite div_small_mod; try lia.
    2:{ change (256 ^ Z.of_nat 5) with 1099511627776. Z.div_mod_to_equations; lia. }
    cbn [app]. apply (dec_class 5 248 4 6); try lia.
    - change (256 ^ Z.of_nat 5) with 1099511627776. Z.div_mod_to_equations; lia.
    - class_side. }
  destruct (Z.ltb_spec v (2 ^ 49)) as [C7|C7].
  { change (2 ^ 48) with (256 ^ Z.of_nat 6). rewrite div_small_mod; try lia.
    2:{ change (256 ^ Z.of_nat 6) with 281474976710656. Z.div_mod_to_equations; lia. }
    cbn [app]. apply (dec_class 6 252 2 7); try lia.
    - change (256 ^ Z.of_nat 6) with 281474976710656. Z.div_mod_to_equations; lia.
    - class_side. }
  destruct (Z.ltb_spec v (2 ^ 56)) as [C8|C8].
  { cbn [app]. replace 254 with (254 + v / 256 ^ Z.of_nat 7).
    2:{ change (256 ^ Z.of_nat 7) with 72057594037927936. Z.div_mod_to_equations; lia. }
    apply (dec_class 7 254 1 8); try lia.
    - change (256 ^ Z.of_nat 7) with 72057594037927936. Z.div_mod_to_equations; lia.
    - class_side. }
  { cbn [app]. replace 255 with (255 + v / 256 ^ Z.of_nat 8).
    2:{ change (256 ^ Z.of_nat 8) with 18446744073709551616. Z.div_mod_to_equations; lia. }
    apply (dec_class 8 255 1 9); try lia.
    - change (256 ^ Z.of_nat 8) with 18446744073709551616. Z.div_mod_to_equations; lia.
    - class_side. }
Qed.

Lemma varint_len_range v : 1 <= varint_len v <= 9.
Proof.
  unfold varint_len.
  repeat match goal with |- context [?x <? ?y] => destruct (Z.ltb_spec x y) end; lia.
Qed.

(* MarshalSize is the number of bytes Marshal writes *)
Lemma enc_varint_len v : len (enc_varint v) = varint_len v.
Proof.
  unfold enc_varint, varint_len.
  repeat match goal with |- context [?x <? ?y] => destruct (Z.ltb_spec x y) end;
    rewrite ?len_cons, ?len_be_bytes, ?len_nil; lia.
Qed.

Lemma enc_varint_cons v : exists b tl, enc_varint v = b :: tl.
Proof.
  unfold enc_varint.
  repeat match goal with |- context [?x <? ?y] => destruct (Z.ltb_spec x y) end; eauto.
Qed.

Lemma enc_varint_length_pos v : (1 <= length (enc_varint v))%nat.
Proof. destruct (enc_varint_cons v) as (b & tl & ->). cbn. lia. Qed.

Lemma enc_varint_bytes v : u64 v -> Forall is_byte (enc_varint v).
Proof.
  unfold u64, two64, enc_varint. intros Hv.
  repeat match goal with |- context [?x <? ?y] => destruct (Z.ltb_spec x y) end;
    constructor; try apply be_bytes_bytes; try constructor; unfold is_byte;
    try (Z.div_mod_to_equations; lia).
Qed.

(* the value a class can hold *)
Lemma be_val_bound bs : forall acc, Forall is_byte bs -> 0 <= acc ->
  0 <= be_val acc bs < (acc + 1) * 256 ^ len bs.
Proof.
  induction bs as [|x r IH]; intros acc Hb Ha.
  - cbn [be_val]. change (256 ^ len (@nil Z)) with 1. lia.
  - inversion Hb as [|? ? Hx Hr]; subst. cbn [be_val]. unfold is_byte in Hx.
    specialize (IH (acc * 256 + x) Hr ltac:(lia)).
    rewrite len_cons. pose proof (len_nonneg r).
    rewrite Z.pow_add_r by lia. change (256 ^ 1) with 256.
    assert (0 < 256 ^ len r) by (apply Z.pow_pos_nonneg; lia). nia.
Qed.

Lemma take_n_spec n (l a b : bytes) : take_n n l = Some (a, b) -> l = a ++ b /\ len a = n.
Proof.
  unfold take_n. destruct ((0 <=? n) && (n <=? len l)) eqn:E; [|discriminate].
  intros H; inversion H; subst. split; [symmetry; apply firstn_skipn|].
  unfold len in *. rewrite firstn_length. lia.
Qed.

(* the shape of every successful Unmarshal: size bytes consumed, value below the class bound *)
Lemma dec_varint_ok buf v rest : Forall is_byte buf -> dec_varint buf = Ok v rest ->
  exists size, len buf = size + len rest /\ 1 <= size <= 9 /\ u64 v
               /\ (size <= 8 -> v < 2 ^ (7 * size)).
Proof.
  intros Hb. destruct buf as [|b tl]; [discriminate|]. unfold dec_varint.
  inversion Hb as [|? ? Hb0 Htl]; subst. unfold is_byte in Hb0.
  rewrite varint_size_byte by exact Hb0.
  set (size := if b <? 128 then 1 else _).
  destruct (Z.eqb_spec size 1) as [E1|N1].
  - intros H; inversion H; subst. exists 1. rewrite len_cons. unfold u64, two64.
    subst size. repeat match goal with H : context [?x <? ?y] |- _ => destruct (Z.ltb_spec x y) end; lia.
  - destruct (len (b :: tl) <? size) eqn:EL; [discriminate|].
    destruct (take_n (size - 1) tl) as [[bs r]|] eqn:ET; [|discriminate].
    intros H; inversion H; subst r v. apply take_n_spec in ET. destruct ET as [-> Hl].
    apply Forall_app in Htl. destruct Htl as [Hbs _].
    exists size. rewrite len_cons, len_app.
    assert (Hsz : 2 <= size <= 9).
    { subst size. repeat match goal with |- context [?x <? ?y] => destruct (Z.ltb_spec x y) end; lia. }
    assert (Hhi : 0 <= varint_hi size b /\ (size <= 8 -> (varint_hi size b + 1) * 256 ^ (size - 1) <= 2 ^ (7 * size))
                  /\ (varint_hi size b + 1) * 256 ^ (size - 1) <= two64).
    { unfold two64. subst size. unfold varint_hi.
      repeat match goal with |- context [?x <? ?y] => destruct (Z.ltb_spec x y) end;
        cbn [Z.eqb Pos.eqb Z.sub Z.add Z.mul Z.pow Z.pow_pos Pos.iter Pos.mul Z.opp Z.pos_sub Pos.pred_double Z.succ_double Z.pred_double Z.double];
        try lia; (split; [|split]); try lia; try (Z.div_mod_to_equations; lia). }
    destruct Hhi as (Hh0 & Hh1 & Hh2).
    pose proof (be_val_bound bs (varint_hi size b) Hbs Hh0) as Hbv. rewrite Hl in Hbv.
    unfold u64. repeat split; try lia.
Qed.

(* canonical size: Marshal writes varint_len v bytes, and no encoding of v is shorter *)
Theorem varint_canonical v : u64 v ->
  len (enc_varint v) = varint_len v /\
  forall buf rest, Forall is_byte buf -> dec_varint buf = Ok v rest -> varint_len v <= len buf - len rest.
Proof.
  intros Hv. split; [apply enc_varint_len|].
  intros buf rest Hb Hd. destruct (dec_varint_ok _ _ _ Hb Hd) as (size & Hlen & Hsz & _ & Hbound).
  replace (len buf - len rest) with size by lia.
  unfold varint_len.
  repeat match goal with |- context [?x <? ?y] => destruct (Z.ltb_spec x y) end; try lia;
    destruct (Z.le_gt_cases size 8) as [L8|G8]; try lia; specialize (Hbound L8);
    assert (size = 1 \/ size = 2 \/ size = 3 \/ size = 4 \/ size = 5 \/ size = 6 \/ size = 7 \/ size = 8) as Hc by lia;
    destruct Hc as [->|[->|[->|[->|[->|[->|[->| ->]]]]]]]; cbn in Hbound; lia.
Qed.

(* Unmarshal never panics, never allocates, and consumes at least one byte when it succeeds *)
Lemma dec_varint_inv buf : Forall is_byte buf ->
  dec_varint buf = Err \/
  exists v rest, dec_varint buf = Ok v rest /\ u64 v /\ Forall is_byte rest /\ (length rest < length buf)%nat.
Proof.
  intros Hb. destruct (dec_varint buf) as [v rest| | |n] eqn:E; [right|left; reflexivity|exfalso|exfalso].
  - exists v, rest. destruct (dec_varint_ok _ _ _ Hb E) as (size & Hl & Hs & Hv & _).
    repeat split; try apply Hv; [|unfold len in Hl; lia].
    destruct buf as [|b tl]; [discriminate|]. unfold dec_varint in E.
    inversion Hb as [|? ? _ Htl]; subst.
    destruct (varint_size b) as [sz|]; [|discriminate].
    destruct (sz =? 1); [inversion E; subst; exact Htl|].
    destruct (len (b :: tl) <? sz); [discriminate|].
    destruct (take_n (sz - 1) tl) as [[bs r]|] eqn:ET; [|discriminate].
    inversion E; subst. apply take_n_spec in ET. destruct ET as [-> _].
    apply Forall_app in Htl. tauto.
  - destruct buf as [|b tl]; [discriminate|]. unfold dec_varint in E.
    destruct (varint_size b) as [size|] eqn:Hs; [|discriminate].
    apply varint_size_range in Hs.
    destruct (Z.eqb_spec size 1); [discriminate|].
    rewrite len_cons in E. destruct (Z.ltb_spec (1 + len tl) size) as [L|L]; [discriminate|].
    unfold take_n in E. replace ((0 <=? size - 1) && (size - 1 <=? len tl)) with true in E by lia.
    discriminate.
  - destruct buf as [|b tl]; [discriminate|]. unfold dec_varint in E.
    destruct (varint_size b) as [size|]; [|discriminate].
    destruct (size =? 1); [discriminate|]. destruct (len (b :: tl) <? size); [discriminate|].
    destruct (take_n (size - 1) tl) as [[bs r]|]; discriminate.
Qed.

Lemma read_varint_inv s : Forall is_byte s ->
  read_varint s = Err \/
  exists v rest, read_varint s = Ok v rest /\ u64 v /\ Forall is_byte rest /\ (length rest < length s)%nat.
Proof. rewrite read_varint_eq. apply dec_varint_inv. Qed.
