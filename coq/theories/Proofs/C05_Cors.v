(* Proofs about Model/C05_Cors.v. *)
From Coq Require Import List ZArith Bool Lia.
Require Import MTX.Lib.Utf8 MTX.Model.C05_Cors.
Import ListNotations.
Local Open Scope Z_scope.

(* ---- what a glob pattern means ------------------------------------------------------- *)

(* token level *)
Inductive glob (lax : bool) : list gtok -> list Z -> Prop :=
| G_nil : glob lax [] []
| G_lit c p t : glob lax p t -> glob lax (GLit c :: p) (c :: t)
| G_any x p t : glob lax p t -> glob lax (GAny :: p) (x :: t)
| G_star p t1 t2 : glob lax p t2 -> glob lax (GStar :: p) (t1 ++ t2)
| G_opt p t1 t2 : glob lax p t2 -> glob lax (GOpt :: p) (t1 ++ 46 :: t2)
| G_opt_empty p t : lax = true -> glob lax p t -> glob lax (GOpt :: p) t.

(* character level, on the allowed host name as written in the configuration: '*' (42) stands for any
   characters, every other character matches literally. With lax = true there is one more rule, C_bare:
   a "*." may also match nothing at all - the deliberate upstream behaviour recorded as KNOWN FINDING. *)
Inductive cglob (lax : bool) : list Z -> list Z -> Prop :=
| C_nil : cglob lax [] []
| C_star p t1 t2 : cglob lax p t2 -> cglob lax (42 :: p) (t1 ++ t2)
| C_lit c p t : c <> 42 -> cglob lax p t -> cglob lax (c :: p) (c :: t)
| C_bare p t : lax = true -> cglob lax p t -> cglob lax (42 :: 46 :: p) t.

Lemma some_suffix_spec f t :
  some_suffix f t = true <-> exists t1 t2, t = t1 ++ t2 /\ f t2 = true.
Proof.
  induction t as [|a t IH]; cbn [some_suffix].
  - rewrite orb_false_r. split.
    + intros H. exists [], []. auto.
    + intros (t1 & t2 & E & H). symmetry in E. apply app_eq_nil in E as [-> ->]. exact H.
  - rewrite orb_true_iff, IH. split.
    + intros [H|(t1 & t2 & E & H)].
      * exists [], (a :: t). auto.
      * exists (a :: t1), t2. subst. auto.
    + intros (t1 & t2 & E & H). destruct t1 as [|b t1].
      * left. simpl in E. subst. exact H.
      * right. inversion E; subst. exists t1, t2. auto.
Qed.

Lemma gmatch_spec lax p : forall t, gmatch lax p t = true <-> glob lax p t.
Proof.
  induction p as [|k p IH]; intros t.
  - destruct t; simpl; split; intros H; try discriminate; try constructor; inversion H.
  - destruct k; cbn [gmatch].
    + destruct t as [|x t]; [split; [discriminate|intros H; inversion H]|].
      rewrite andb_true_iff, Z.eqb_eq, IH. split.
      * intros [-> H]. constructor; exact H.
      * intros H. inversion H; subst. auto.
    + destruct t as [|x t]; [split; [discriminate|intros H; inversion H]|].
      rewrite IH. split; [intros H; constructor; exact H|intros H; inversion H; auto].
    + rewrite some_suffix_spec. split.
      * intros (t1 & t2 & -> & H). constructor. apply IH; exact H.
      * intros H. inversion H; subst. eexists _, _. split; [reflexivity|]. apply IH; assumption.
    + rewrite orb_true_iff, andb_true_iff, some_suffix_spec. split.
      * intros [[Hl H]|(t1 & t2 & -> & H)].
        -- apply G_opt_empty; [exact Hl|apply IH; exact H].
        -- unfold starts_dot in H. destruct t2 as [|x t2]; [discriminate|].
           apply andb_true_iff in H as [Hx H]. apply Z.eqb_eq in Hx. subst x.
           apply G_opt. apply IH; exact H.
      * intros H. inversion H; subst.
        -- right. eexists _, _. split; [reflexivity|]. unfold starts_dot. rewrite Z.eqb_refl.
           apply IH; assumption.
        -- left. split; [auto|apply IH; assumption].
Qed.

Lemma glob_cglob_len lax : forall n s t, (length s <= n)%nat ->
  glob lax (tokenize false s) t -> cglob lax s t.
Proof.
  induction n as [|n IH]; intros s t Hl H.
  - destruct s; [|simpl in Hl; lia]. simpl in H. inversion H. constructor.
  - destruct s as [|c r]; [simpl in H; inversion H; constructor|].
    cbn [tokenize] in H. destruct (c =? 42) eqn:Ec.
    + apply Z.eqb_eq in Ec. subst c. destruct r as [|d r'].
      * inversion H as [| | |p t1 t2 H2| |]; subst. inversion H2; subst. apply C_star. constructor.
      * destruct (d =? 46) eqn:Ed.
        -- apply Z.eqb_eq in Ed. subst d. simpl in Hl. inversion H; subst.
           ++ apply C_star. apply C_lit; [lia|]. apply (IH r'); [lia|assumption].
           ++ apply C_bare; [auto|]. apply (IH r'); [lia|assumption].
        -- inversion H; subst. apply C_star. apply (IH (d :: r')); [simpl in *; lia|assumption].
    + cbn [andb] in H. inversion H; subst. apply Z.eqb_neq in Ec.
      apply C_lit; [exact Ec|]. apply (IH r); [simpl in Hl; lia|assumption].
Qed.

Lemma glob_cglob lax s t : glob lax (tokenize false s) t -> cglob lax s t.
Proof. apply (glob_cglob_len lax (length s)). lia. Qed.

Lemma cglob_glob lax s t : cglob lax s t -> glob lax (tokenize false s) t.
Proof.
  induction 1 as [|p t1 t2 H IH|c p t Hc H IH|p t Hl H IH].
  - constructor.
  - cbn [tokenize]. rewrite Z.eqb_refl. destruct p as [|d p'].
    + simpl in IH. inversion IH; subst. apply G_star. constructor.
    + destruct (d =? 46) eqn:Ed.
      * apply Z.eqb_eq in Ed. subst d. cbn [tokenize] in IH.
        replace (46 =? 42) with false in IH by reflexivity. cbn [andb] in IH.
        inversion IH; subst. apply G_opt. assumption.
      * apply G_star. exact IH.
  - cbn [tokenize]. replace (c =? 42) with false by (symmetry; apply Z.eqb_neq; exact Hc).
    cbn [andb]. constructor. exact IH.
  - cbn [tokenize]. rewrite Z.eqb_refl. replace (46 =? 46) with true by reflexivity.
    apply G_opt_empty; assumption.
Qed.

(* the matcher of the model decides the character-level relation *)
Theorem gmatch_cglob lax s t : gmatch lax (tokenize false s) t = true <-> cglob lax s t.
Proof.
  rewrite gmatch_spec. split; [apply glob_cglob|apply cglob_glob].
Qed.

(* the strict reading implies the lax one *)
Lemma cglob_strict_lax s t : cglob false s t -> cglob true s t.
Proof. induction 1; try (constructor; assumption). discriminate. Qed.

(* ---- isOriginAllowed ---------------------------------------------------------------- *)

(* what the property allows to be echoed, with `rel` the reading of a wildcard host name *)
Definition eligible (rel : list Z -> list Z -> Prop) (parse : list Z -> option purl)
           (origin : list Z) (allow : list (list Z)) : Prop :=
  exists a au ou, In a allow /\ parse a = Some au /\ parse origin = Some ou /\
    u_scheme ou <> [] /\ u_scheme au = u_scheme ou /\ eff_port au = eff_port ou /\
    (complete_host au = complete_host ou \/
     (has_star (eff_hostname au) = true /\ rel (eff_hostname au) (eff_hostname ou))).

Lemma existsb_In {A} (f : A -> bool) l : existsb f l = true -> exists x, In x l /\ f x = true.
Proof. apply existsb_exists. Qed.

Lemma wild_match_sound a o : wild_match a o = true ->
  u_scheme a = u_scheme o /\ eff_port a = eff_port o /\ has_star (eff_hostname a) = true /\
  valid_utf8 (eff_hostname a) = true /\ cglob true (eff_hostname a) (eff_hostname o).
Proof.
  unfold wild_match. intros H. repeat (apply andb_true_iff in H as [H ?]).
  apply list_eqb_eq in H. repeat split; auto.
  - apply list_eqb_eq; assumption.
  - apply gmatch_cglob; assumption.
Qed.

Lemma exact_match_sound a o : exact_match a o = true ->
  u_scheme a = u_scheme o /\ complete_host a = complete_host o /\ eff_port a = eff_port o.
Proof.
  unfold exact_match. intros H. repeat (apply andb_true_iff in H as [H ?]).
  repeat split; apply list_eqb_eq; assumption.
Qed.

Lemma echo_inv parse wild origin allow s :
  is_origin_allowed_with parse wild origin allow = Echo s ->
  s = origin /\ origin <> [] /\ exists ou, parse origin = Some ou /\ u_scheme ou <> [] /\
     exists a au, In a allow /\ parse a = Some au /\ (exact_match au ou = true \/ wild au ou = true).
Proof.
  unfold is_origin_allowed_with. destruct allow as [|a0 allow']; [discriminate|].
  set (allow := a0 :: allow').
  destruct (existsb (list_eqb star_str) allow);
  (destruct origin as [|c origin']; [discriminate|]);
  (destruct (parse (c :: origin')) as [ou|] eqn:Po; [|discriminate]);
  (destruct (u_scheme ou) as [|sc sch] eqn:Sc; [discriminate|]);
  (destruct (existsb (entry_matches parse wild ou) allow) eqn:Ex; [|discriminate]);
  intros H; inversion H; subst s;
  (split; [reflexivity|]); (split; [discriminate|]);
  exists ou; (split; [reflexivity|]); (split; [rewrite Sc; discriminate|]);
  apply existsb_In in Ex as (a & Hin & Hm); unfold entry_matches in Hm;
  (destruct (parse a) as [au|] eqn:Pa; [|discriminate]);
  exists a, au; (split; [exact Hin|]); (split; [exact Pa|]);
  apply orb_true_iff in Hm; exact Hm.
Qed.

(* C05_echo_sound_partial *)
Theorem echo_sound_lax parse origin allow s :
  is_origin_allowed parse origin allow = Echo s -> s = origin /\ eligible (cglob true) parse origin allow.
Proof.
  intros H. apply echo_inv in H as (Hs & Hne & ou & Po & Sc & a & au & Hin & Pa & Hm).
  split; [exact Hs|]. exists a, au, ou. repeat (split; [assumption|]).
  destruct Hm as [Hm|Hm].
  - apply exact_match_sound in Hm as (S1 & S2 & S3). repeat (split; [assumption|]). left; exact S2.
  - apply wild_match_sound in Hm as (S1 & S2 & S3 & S4 & S5). repeat (split; [assumption|]). right; auto.
Qed.

(* the finding's class, as a boolean on the inputs: some allowed entry matches the origin only because a
   "*." of its host name matched nothing *)
Definition strict_wild_match (a o : purl) : bool :=
  list_eqb (u_scheme a) (u_scheme o) && list_eqb (eff_port a) (eff_port o)
  && has_star (eff_hostname a) && valid_utf8 (eff_hostname a)
  && gmatch false (tokenize false (eff_hostname a)) (eff_hostname o).

Definition bare_parent_entry (parse : list Z -> option purl) (o : purl) (a_raw : list Z) : bool :=
  match parse a_raw with
  | Some a => wild_match a o && negb (strict_wild_match a o)
  | None => false
  end.

Definition bare_parent_class (parse : list Z -> option purl) (origin : list Z) (allow : list (list Z)) : bool :=
  match parse origin with
  | Some o => existsb (bare_parent_entry parse o) allow
  | None => false
  end.

(* with that class excluded, the full statement holds: '*' = any characters, all else literal *)
Theorem echo_sound_guarded parse origin allow s :
  is_origin_allowed parse origin allow = Echo s ->
  bare_parent_class parse origin allow = false ->
  s = origin /\ eligible (cglob false) parse origin allow.
Proof.
  intros H G. apply echo_inv in H as (Hs & Hne & ou & Po & Sc & a & au & Hin & Pa & Hm).
  split; [exact Hs|]. exists a, au, ou. repeat (split; [assumption|]).
  destruct Hm as [Hm|Hm].
  - apply exact_match_sound in Hm as (S1 & S2 & S3). repeat (split; [assumption|]). left; exact S2.
  - unfold bare_parent_class in G. rewrite Po in G.
    assert (Hb : bare_parent_entry parse ou a = false).
    { destruct (bare_parent_entry parse ou a) eqn:E; [|reflexivity].
      assert (existsb (bare_parent_entry parse ou) allow = true)
        by (apply existsb_exists; exists a; auto). congruence. }
    unfold bare_parent_entry in Hb. rewrite Pa, Hm in Hb. cbn [andb] in Hb.
    apply negb_false_iff in Hb. unfold strict_wild_match in Hb.
    repeat (apply andb_true_iff in Hb as [Hb ?]).
    apply list_eqb_eq in Hb. repeat (split; [try assumption; try (apply list_eqb_eq; assumption)|]).
    right. split; [assumption|]. apply gmatch_cglob; assumption.
Qed.

(* what the class means: a member of it is echoed although no strict reading allows it only if C_bare
   was used, i.e. the lax relation holds and the strict one does not *)
Lemma bare_parent_entry_spec parse o a_raw : bare_parent_entry parse o a_raw = true ->
  exists a, parse a_raw = Some a /\ u_scheme a = u_scheme o /\ eff_port a = eff_port o /\
    cglob true (eff_hostname a) (eff_hostname o) /\ ~ cglob false (eff_hostname a) (eff_hostname o).
Proof.
  unfold bare_parent_entry. destruct (parse a_raw) as [a|]; [|discriminate].
  intros H. apply andb_true_iff in H as [Hw Hs]. exists a. split; [reflexivity|].
  pose proof (wild_match_sound _ _ Hw) as (S1 & S2 & S3 & S4 & S5).
  repeat (split; [assumption|]). intros Hc. apply gmatch_cglob in Hc.
  apply negb_true_iff in Hs. unfold strict_wild_match in Hs.
  rewrite S1, S2, !list_eqb_refl, S3, S4, Hc in Hs. discriminate.
Qed.

(* C05_star_only_if_listed *)
Theorem star_only_if_listed parse wild origin allow :
  is_origin_allowed_with parse wild origin allow = Star -> In star_str allow.
Proof.
  unfold is_origin_allowed_with. destruct allow as [|a0 allow']; [discriminate|].
  set (allow := a0 :: allow').
  destruct (existsb (list_eqb star_str) allow) eqn:Ex.
  - intros _. apply existsb_exists in Ex as (x & Hin & Hx). apply list_eqb_eq in Hx. subst x. exact Hin.
  - destruct origin as [|c o']; [discriminate|].
    destruct (parse (c :: o')) as [ou|]; [|discriminate].
    destruct (u_scheme ou); [discriminate|].
    destruct (existsb (entry_matches parse wild ou) allow); discriminate.
Qed.

(* every result is the origin itself, "*" or nothing *)
Lemma result_cases parse wild origin allow :
  is_origin_allowed_with parse wild origin allow = Echo origin \/
  is_origin_allowed_with parse wild origin allow = Star \/
  is_origin_allowed_with parse wild origin allow = Absent.
Proof.
  unfold is_origin_allowed_with. destruct allow as [|a0 allow']; [auto|].
  set (allow := a0 :: allow').
  destruct (existsb (list_eqb star_str) allow);
  (destruct origin as [|c o']; [auto|]);
  (destruct (parse (c :: o')) as [ou|]; [|auto]);
  (destruct (u_scheme ou); [auto|]);
  (destruct (existsb (entry_matches parse wild ou) allow); auto).
Qed.

(* C05_absent_otherwise *)
Theorem absent_otherwise parse origin allow :
  ~ eligible (cglob true) parse origin allow -> ~ In star_str allow ->
  is_origin_allowed parse origin allow = Absent.
Proof.
  intros Hne Hns.
  destruct (result_cases parse wild_match origin allow) as [H|[H|H]].
  - exfalso. apply Hne. apply (echo_sound_lax parse origin allow origin H).
  - exfalso. apply Hns. apply (star_only_if_listed parse wild_match origin allow H).
  - exact H.
Qed.

(* completeness (not asked by the property, but it pins the model): an eligible origin IS echoed *)
Theorem echo_complete parse origin allow :
  origin <> [] ->
  (exists a au ou, In a allow /\ parse a = Some au /\ parse origin = Some ou /\
     u_scheme ou <> [] /\ u_scheme au = u_scheme ou /\ eff_port au = eff_port ou /\
     (complete_host au = complete_host ou \/
      (has_star (eff_hostname au) = true /\ valid_utf8 (eff_hostname au) = true /\
       cglob true (eff_hostname au) (eff_hostname ou)))) ->
  is_origin_allowed parse origin allow = Echo origin.
Proof.
  intros Hne (a & au & ou & Hin & Pa & Po & Sc & S1 & S2 & Hd).
  unfold is_origin_allowed, is_origin_allowed_with.
  destruct allow as [|a0 allow']; [destruct Hin|]. set (allow := a0 :: allow') in *.
  destruct origin as [|c o']; [congruence|]. rewrite Po.
  destruct (u_scheme ou) as [|sc sch] eqn:E; [congruence|].
  assert (Ex : existsb (entry_matches parse wild_match ou) allow = true).
  { apply existsb_exists. exists a. split; [exact Hin|]. unfold entry_matches. rewrite Pa.
    apply orb_true_iff. destruct Hd as [Hd|(H1 & H2 & H3)].
    - left. unfold exact_match. rewrite S1, Hd, S2, E, !list_eqb_refl. reflexivity.
    - right. unfold wild_match. rewrite S1, S2, E, !list_eqb_refl, H1, H2. cbn [andb].
      apply gmatch_cglob; exact H3. }
  rewrite Ex. reflexivity.
Qed.

(* ---- refutations --------------------------------------------------------------------- *)

Definition str_https_star_example_org : list Z :=   (* https://*.example.org *)
  [104;116;116;112;115;58;47;47;42;46;101;120;97;109;112;108;101;46;111;114;103].
Definition h_star_example_org : list Z := [42;46;101;120;97;109;112;108;101;46;111;114;103].
Definition str_https_example_org : list Z :=        (* https://example.org *)
  [104;116;116;112;115;58;47;47;101;120;97;109;112;108;101;46;111;114;103].
Definition h_example_org : list Z := [101;120;97;109;112;108;101;46;111;114;103].
Definition str_http_evil_443 : list Z :=            (* http://evil.example.org:443 *)
  [104;116;116;112;58;47;47;101;118;105;108;46;101;120;97;109;112;108;101;46;111;114;103;58;52;52;51].
Definition h_evil_443 : list Z := [101;118;105;108;46;101;120;97;109;112;108;101;46;111;114;103;58;52;52;51].
Definition str_ftp_evil_443 : list Z := [102;116;112] ++ skipn 4 str_http_evil_443.   (* ftp://evil.example.org:443 *)
Definition str_https_star_sub : list Z :=           (* https://*.sub.example.org *)
  [104;116;116;112;115;58;47;47;42;46;115;117;98;46;101;120;97;109;112;108;101;46;111;114;103].
Definition h_star_sub : list Z := [42;46;115;117;98;46;101;120;97;109;112;108;101;46;111;114;103].
Definition str_https_subX : list Z :=               (* https://subXexample.org *)
  [104;116;116;112;115;58;47;47;115;117;98;88;101;120;97;109;112;108;101;46;111;114;103].
Definition h_subX : list Z := [115;117;98;88;101;120;97;109;112;108;101;46;111;114;103].

(* what url.Parse returns for these strings (shipped by the driver for the same strings on every run) *)
Definition parse_ex (s : list Z) : option purl :=
  if list_eqb s str_https_star_example_org then Some {| u_scheme := s_https; u_host := h_star_example_org |}
  else if list_eqb s str_https_example_org then Some {| u_scheme := s_https; u_host := h_example_org |}
  else if list_eqb s str_http_evil_443 then Some {| u_scheme := s_http; u_host := h_evil_443 |}
  else if list_eqb s str_ftp_evil_443 then Some {| u_scheme := [102;116;112]; u_host := h_evil_443 |}
  else if list_eqb s str_https_star_sub then Some {| u_scheme := s_https; u_host := h_star_sub |}
  else if list_eqb s str_https_subX then Some {| u_scheme := s_https; u_host := h_subX |}
  else None.

Lemma not_eligible_single rel parse origin a :
  (forall au ou, parse a = Some au -> parse origin = Some ou ->
     u_scheme au = u_scheme ou -> eff_port au = eff_port ou ->
     complete_host au <> complete_host ou /\ ~ rel (eff_hostname au) (eff_hostname ou)) ->
  ~ eligible rel parse origin [a].
Proof.
  intros H (a' & au & ou & Hin & Pa & Po & Sc & S1 & S2 & Hd).
  destruct Hin as [<-|[]]. destruct (H au ou Pa Po S1 S2) as [N1 N2].
  destruct Hd as [Hd|[_ Hd]]; auto.
Qed.

(* the repaired code still echoes the bare parent domain: full statement false, class = KNOWN FINDING *)
Lemma bare_parent_refuted :
  is_origin_allowed parse_ex str_https_example_org [str_https_star_example_org] = Echo str_https_example_org /\
  ~ eligible (cglob false) parse_ex str_https_example_org [str_https_star_example_org] /\
  bare_parent_class parse_ex str_https_example_org [str_https_star_example_org] = true.
Proof.
  split; [vm_compute; reflexivity|]. split; [|vm_compute; reflexivity].
  apply not_eligible_single. intros au ou Pa Po _ _.
  vm_compute in Pa, Po. inversion Pa; inversion Po; subst. split.
  - vm_compute. discriminate.
  - intros Hc. apply gmatch_cglob in Hc. vm_compute in Hc. discriminate.
Qed.

(* the pinned code: scheme ignored (http and even ftp against an https entry), '.' unescaped *)
Lemma v0_refuted :
  (is_origin_allowed_v0 parse_ex str_http_evil_443 [str_https_star_example_org] = Echo str_http_evil_443 /\
   ~ eligible (cglob true) parse_ex str_http_evil_443 [str_https_star_example_org]) /\
  (is_origin_allowed_v0 parse_ex str_ftp_evil_443 [str_https_star_example_org] = Echo str_ftp_evil_443 /\
   ~ eligible (cglob true) parse_ex str_ftp_evil_443 [str_https_star_example_org]) /\
  (is_origin_allowed_v0 parse_ex str_https_subX [str_https_star_sub] = Echo str_https_subX /\
   ~ eligible (cglob true) parse_ex str_https_subX [str_https_star_sub]).
Proof.
  repeat split; try (vm_compute; reflexivity).
  - intros (a' & au & ou & Hin & Pa & Po & Sc & S1 & _). destruct Hin as [<-|[]].
    vm_compute in Pa, Po. inversion Pa; inversion Po; subst. vm_compute in S1. discriminate.
  - intros (a' & au & ou & Hin & Pa & Po & Sc & S1 & _). destruct Hin as [<-|[]].
    vm_compute in Pa, Po. inversion Pa; inversion Po; subst. vm_compute in S1. discriminate.
  - apply not_eligible_single. intros au ou Pa Po _ _.
    vm_compute in Pa, Po. inversion Pa; inversion Po; subst. split.
    + vm_compute. discriminate.
    + intros Hc. apply gmatch_cglob in Hc. vm_compute in Hc. discriminate.
Qed.

(* and the repaired code rejects those three *)
Lemma v0_witnesses_fixed :
  is_origin_allowed parse_ex str_http_evil_443 [str_https_star_example_org] = Absent /\
  is_origin_allowed parse_ex str_ftp_evil_443 [str_https_star_example_org] = Absent /\
  is_origin_allowed parse_ex str_https_subX [str_https_star_sub] = Absent.
Proof. vm_compute. repeat split. Qed.
