(* The writeUnitInner glue composed with ANY packetizer that honours a small contract: sequence numbers / SSRC /
   PayloadMaxSize (enc_post0), a size bound under the encoder's own precondition, a law for the timestamps the
   encoder sets, and a round trip through the format's decoder. Each modelled format instantiates this section
   (Props/C23.v: H.265, Opus, G.711 / LPCM; H.264 was proved directly in C23_RtpGlue.v / C23_RtpGlue2.v). *)
From Coq Require Import List ZArith Bool Lia Arith.
Require Import MTX.Lib.IntWrap MTX.Model.C23_RtpH264 MTX.Model.C23_RtpH265 MTX.Model.C23_RtpGlue.
Require Import MTX.Proofs.C23_RtpH264 MTX.Proofs.C23_RtpH264Seq MTX.Proofs.C23_RtpAudio MTX.Proofs.C23_RtpGlue.
Import ListNotations.
Local Open Scope Z_scope.

Lemma seq_chain_stamp delta s pkts : seq_chain s (map (stamp delta) pkts) <-> seq_chain s pkts.
Proof.
  revert s. induction pkts as [|p r IH]; intros s; [tauto|]. cbn [map seq_chain stamp p_seq]. rewrite IH. tauto.
Qed.

Lemma enc_init_max max ssrc seq0 : max <> 0 -> e_max (enc_init max ssrc seq0) = max.
Proof. intros H. unfold enc_init. cbn [e_max]. destruct (max =? 0) eqn:E; [apply Z.eqb_eq in E; lia|reflexivity]. Qed.

Section GlueGen.
  Variable P : Type.
  Variable encode : enc -> P -> res (list packet * enc) + enc.

  (* ---- the offset: format independent ---- *)
  Theorem glue_offset max avail g pts inp decerr deliv g' out :
    glue_write P encode max avail g pts inp decerr deliv = GOk g' out -> has_enc g' = true ->
    (has_enc g = true -> g'.(g_off) = g.(g_off))
    /\ (has_enc g = false -> exists pkt, first_oversized max inp = Some pkt
                                         /\ g'.(g_off) = wrapu32 (pkt.(p_ts) - wrapu32 pts)
                                         /\ (0 <= pkt.(p_ts) < two32 -> wrapu32 (g'.(g_off) + wrapu32 pts) = pkt.(p_ts))).
  Proof.
    intros H Hg'. apply glue_write_inv in H.
    destruct H as [(A & B & C & D)|(e0 & off0 & He & Hr)].
    { subst g'. unfold has_enc in Hg'. rewrite A in Hg'. discriminate. }
    assert (Hoff : g_off g' = off0).
    { destruct Hr as [(_ & _ & ->)|(p & pkts & e' & _ & _ & _ & ->)]; reflexivity. }
    split.
    - intros Hg. rewrite Hoff. destruct He as [(_ & ->)|(A & _)]; [reflexivity|].
      unfold has_enc in Hg. rewrite A in Hg. discriminate.
    - intros Hg. destruct He as [(A & _)|(_ & _ & pkt & B & _ & C)].
      { unfold has_enc in Hg. rewrite A in Hg. discriminate. }
      exists pkt. rewrite Hoff. split; [exact B|split; [exact C|]]. intros Hr0. subst off0.
      unfold wrapu32 in *. unfold two32 in *. rewrite Zplus_mod_idemp_l.
      replace (p_ts pkt - pts mod 4294967296 + pts mod 4294967296) with (p_ts pkt) by lia.
      apply Z.mod_small. exact Hr0.
  Qed.

  (* ---- contract 1: sequence numbers, SSRC, PayloadMaxSize ---- *)
  Hypothesis Hpost : forall e p pkts e', encode e p = inl (Ok (pkts, e')) -> enc_post0 e pkts e'.

  (* the packets of a re-encoded unit are numbered consecutively (mod 2^16) from the effective encoder's next
     number - the existing encoder's, or the first oversized packet's own number - and carry its SSRC; the
     encoder left in the state continues after them *)
  Theorem glue_seq_gen max avail g pts inp decerr deliv g' out :
    glue_write P encode max avail g pts inp decerr deliv = GOk g' out -> has_enc g' = true ->
    exists e0 off0 e1, effective max avail g pts inp e0 off0 /\ g' = mkg (Some e1) off0
      /\ seq_chain e0.(e_seq) out /\ Forall (fun p => p.(p_ssrc) = e0.(e_ssrc)) out
      /\ e1.(e_seq) = adv e0.(e_seq) (length out) /\ e1.(e_max) = e0.(e_max) /\ e1.(e_ssrc) = e0.(e_ssrc).
  Proof.
    intros H Hg'. apply glue_write_inv in H.
    destruct H as [(A & B & C & D)|(e0 & off0 & He & Hr)].
    { subst g'. unfold has_enc in Hg'. rewrite A in Hg'. discriminate. }
    destruct Hr as [(_ & -> & ->)|(p & pkts & e' & _ & Henc & -> & ->)].
    - exists e0, off0, e0. split; [exact He|]. split; [reflexivity|]. cbn. repeat split; constructor.
    - apply Hpost in Henc. destruct Henc as (A1 & A2 & A3 & A4 & A5).
      exists e0, off0, e'. split; [exact He|]. split; [reflexivity|]. unfold stamp_all.
      rewrite seq_chain_stamp, map_length. repeat split; try assumption.
      rewrite Forall_forall in *. intros q Hq. apply in_map_iff in Hq. destruct Hq as (q0 & <- & Hq0).
      cbn [stamp p_ssrc]. apply A3, Hq0.
  Qed.

  (* ---- contract 2: the size bound, under the encoder's own preconditions (lo <= PayloadMaxSize, pre) ---- *)
  Variable lo : Z.
  Variable pre : Z -> P -> Prop.
  Hypothesis Hsize : forall e p pkts e', lo <= e.(e_max) -> pre e.(e_max) p ->
    encode e p = inl (Ok (pkts, e')) -> Forall (fun q => blen q.(p_payload) <= e.(e_max)) pkts.

  Lemma effective_max max avail g pts inp e0 off0 :
    max <> 0 -> enc_max_ok max g -> Forall (fun p => 0 <= p.(p_seq) < 65536) inp ->
    effective max avail g pts inp e0 off0 -> e_max e0 = max /\ 0 <= e_seq e0 < 65536.
  Proof.
    intros Hmax Hok Hin He. destruct He as [(A & _)|(_ & _ & pkt & B & -> & _)].
    - unfold enc_max_ok in Hok. rewrite A in Hok. exact Hok.
    - split; [apply enc_init_max, Hmax|]. unfold enc_init. cbn [e_seq].
      unfold first_oversized in B. apply find_some in B. destruct B as [B _].
      rewrite Forall_forall in Hin. exact (Hin pkt B).
  Qed.

  Theorem glue_size_gen max avail g pts inp decerr deliv g' out :
    lo <= max -> max <> 0 -> enc_max_ok max g -> Forall (fun p => 0 <= p.(p_seq) < 65536) inp ->
    glue_write P encode max avail g pts inp decerr deliv = GOk g' out -> has_enc g' = true ->
    (forall p, deliv = Some p -> pre max p) ->
    Forall (fun p => blen p.(p_payload) <= max) out /\ enc_max_ok max g'.
  Proof.
    intros Hlo Hmax Hok Hin H Hg' Hpre. apply glue_write_inv in H.
    destruct H as [(A & B & C & D)|(e0 & off0 & He & Hr)].
    { subst g'. unfold has_enc in Hg'. rewrite A in Hg'. discriminate. }
    pose proof (effective_max _ _ _ _ _ _ _ Hmax Hok Hin He) as [Hm Hs].
    destruct Hr as [(_ & -> & ->)|(p & pkts & e' & Hd & Henc & -> & ->)].
    - split; [constructor|]. unfold enc_max_ok. cbn [g_enc]. split; assumption.
    - pose proof (Hsize e0 p pkts e' ltac:(lia) ltac:(rewrite Hm; apply Hpre, Hd) Henc) as Hsz.
      pose proof (Hpost _ _ _ _ Henc) as (_ & A2 & _ & A4 & _).
      split.
      + unfold stamp_all. rewrite Forall_forall in *. intros q Hq. apply in_map_iff in Hq.
        destruct Hq as (q0 & <- & Hq0). cbn [stamp p_payload]. rewrite <- Hm. apply Hsz, Hq0.
      + unfold enc_max_ok. cbn [g_enc]. split; [congruence|]. rewrite A2, adv_closed by exact Hs.
        apply Z.mod_pos_bound. lia.
  Qed.

  (* ---- contract 3: the timestamps the encoder itself sets (offsets inside the unit) ---- *)
  Variable tslaw : Z -> P -> list Z -> Prop.      (* PayloadMaxSize, unit, Timestamp fields set by the encoder *)
  Hypothesis Hts : forall e p pkts e', encode e p = inl (Ok (pkts, e')) -> tslaw e.(e_max) p (map p_ts pkts).

  (* every packet of a re-encoded unit carries rtpTimeOffset + uint32(PTS) + its offset inside the unit (mod 2^32) *)
  Theorem glue_ts_gen max avail g pts inp decerr p g' out :
    max <> 0 -> enc_max_ok max g ->
    glue_write P encode max avail g pts inp decerr (Some p) = GOk g' out -> has_enc g' = true ->
    exists offs, tslaw max p offs
      /\ map p_ts out = map (fun o => wrapu32 (o + wrapu32 (g'.(g_off) + wrapu32 pts))) offs.
  Proof.
    intros Hnz Hok H Hg'. apply glue_write_inv in H.
    destruct H as [(A & B & C & D)|(e0 & off0 & He & Hr)].
    { subst g'. unfold has_enc in Hg'. rewrite A in Hg'. discriminate. }
    assert (He0 : e_max e0 = max).
    { destruct He as [(A & _)|(_ & _ & pkt & B & -> & _)].
      - unfold enc_max_ok in Hok. rewrite A in Hok. apply Hok.
      - apply enc_init_max, Hnz. }
    destruct Hr as [(Hd & _)|(p0 & pkts & e' & Hd & Henc & -> & ->)]; [discriminate|].
    injection Hd as <-. exists (map p_ts pkts). split; [rewrite <- He0; eapply Hts; exact Henc|].
    unfold stamp_all. rewrite !map_map. reflexivity.
  Qed.

  (* ---- contract 4: the format's decoder gives the unit back ---- *)
  Variable D : Type.
  Variable drun : D -> list packet -> list dout * D.
  Variable cleanD : D -> Prop.
  Variable hi : Z.
  Variable okp : Z -> P -> Prop.
  Variable good : P -> list dout -> Prop.
  Hypothesis Hrt : forall e p pkts e' d delta,
    lo <= e.(e_max) < hi -> okp e.(e_max) p -> encode e p = inl (Ok (pkts, e')) -> cleanD d ->
    good p (fst (drun d (map (stamp delta) pkts))) /\ cleanD (snd (drun d (map (stamp delta) pkts)))
    /\ (1 <= length pkts)%nat.

  Theorem glue_roundtrip_gen max avail g pts inp decerr p g' out d :
    lo <= max < hi -> max <> 0 -> enc_max_ok max g ->
    glue_write P encode max avail g pts inp decerr (Some p) = GOk g' out -> has_enc g' = true ->
    okp max p -> cleanD d ->
    good p (fst (drun d out)) /\ cleanD (snd (drun d out)) /\ (1 <= length out)%nat.
  Proof.
    intros Hmax Hnz Hok H Hg' Hp Hc. apply glue_write_inv in H.
    destruct H as [(A & B & C & E)|(e0 & off0 & He & Hr)].
    { subst g'. unfold has_enc in Hg'. rewrite A in Hg'. discriminate. }
    assert (He0 : e_max e0 = max).
    { destruct He as [(A & _)|(_ & _ & pkt & B & -> & _)].
      - unfold enc_max_ok in Hok. rewrite A in Hok. apply Hok.
      - apply enc_init_max, Hnz. }
    destruct Hr as [(Hd & _)|(p0 & pkts & e' & Hd & Henc & -> & _)]; [discriminate|].
    injection Hd as <-. unfold stamp_all.
    destruct (Hrt e0 p pkts e' d (wrapu32 (off0 + wrapu32 pts)) ltac:(lia) ltac:(rewrite He0; exact Hp) Henc Hc)
      as (G1 & G2 & G3).
    rewrite map_length. repeat split; assumption.
  Qed.
End GlueGen.
