(* The history theorems of C23_RtpLife.v instantiated for the other packetizers that never return an error:
   Opus and G.711 / LPCM (H.264 is instantiated in C23_RtpLife.v itself; the rtph265 encoder can return "invalid
   NALU" after having consumed sequence numbers, so only the error-independent theorems - life_offset_fixed,
   life_seq_entries - apply to it). *)
From Coq Require Import List ZArith Bool Lia Arith.
Require Import MTX.Lib.IntWrap MTX.Model.C23_RtpH264 MTX.Model.C23_RtpH265 MTX.Model.C23_RtpAudio
               MTX.Model.C23_RtpGlue MTX.Model.C23_RtpGlueInst MTX.Model.C23_RtpLife.
Require Import MTX.Proofs.C23_RtpH264 MTX.Proofs.C23_RtpH264Seq MTX.Proofs.C23_RtpAudio MTX.Proofs.C23_RtpGlue
               MTX.Proofs.C23_RtpGlueGen MTX.Proofs.C23_RtpInst MTX.Proofs.C23_RtpLife.
Import ListNotations.
Local Open Scope Z_scope.

Lemma opus_noerr e p e' : opus_encode e p <> inr e'.
Proof. unfold opus_encode. discriminate. Qed.

Theorem opus_life_seq_consecutive max avail m evs s e0 :
  s.(l_g).(g_enc) = Some e0 ->
  let all := trace_pkts (list bytes) (life_trace (list bytes) opus_encode max avail m s evs) in
  seq_chain e0.(e_seq) all /\ Forall (fun p => p.(p_ssrc) = e0.(e_ssrc)) all
  /\ exists e1, (life_final (list bytes) opus_encode max avail m s evs).(l_g).(g_enc) = Some e1
       /\ e1.(e_seq) = adv e0.(e_seq) (length all) /\ e1.(e_max) = e0.(e_max) /\ e1.(e_ssrc) = e0.(e_ssrc)
       /\ (life_final (list bytes) opus_encode max avail m s evs).(l_g).(g_off) = s.(l_g).(g_off).
Proof. exact (life_seq_consecutive (list bytes) opus_encode opus_post0 opus_noerr max avail m evs s e0). Qed.

Lemma lpcm_noerr ss e p e' : lpcm_encode ss e p <> inr e'.
Proof. unfold lpcm_encode. destruct ((ss <=? 0) || (lpcm_max_payload (e_max e) ss <=? 0)); discriminate. Qed.

Theorem lpcm_life_seq_consecutive ss max avail m evs s e0 :
  0 < ss -> s.(l_g).(g_enc) = Some e0 ->
  let all := trace_pkts bytes (life_trace bytes (lpcm_encode ss) max avail m s evs) in
  seq_chain e0.(e_seq) all /\ Forall (fun p => p.(p_ssrc) = e0.(e_ssrc)) all
  /\ exists e1, (life_final bytes (lpcm_encode ss) max avail m s evs).(l_g).(g_enc) = Some e1
       /\ e1.(e_seq) = adv e0.(e_seq) (length all) /\ e1.(e_max) = e0.(e_max) /\ e1.(e_ssrc) = e0.(e_ssrc)
       /\ (life_final bytes (lpcm_encode ss) max avail m s evs).(l_g).(g_off) = s.(l_g).(g_off).
Proof.
  intros Hss.
  exact (life_seq_consecutive bytes (lpcm_encode ss) (fun e p pkts e' => lpcm_post0' ss e p pkts e' Hss)
           (lpcm_noerr ss) max avail m evs s e0).
Qed.
