(* Proofs for C27 (model: Model/C27_Fmp4Rec.v; reader walk: moof_loop of Model/C28_SegRead.v). *)
From Coq Require Import List ZArith Bool Lia ZifyBool.
Require Import MTX.Lib.IntWrap MTX.Model.C24_MulDiv MTX.Model.C28_SegRead MTX.Proofs.C28_SegRead
  MTX.Model.C27_Fmp4Rec.
Import ListNotations.
Local Open Scope Z_scope.

(* ---- lists ---- *)
Lemma len_app {A} (a b : list A) : len (a ++ b) = len a + len b.
Proof. unfold len. rewrite app_length. lia. Qed.

Lemma firstn_app_ge {A} (n : nat) (x y : list A) : (length x <= n)%nat ->
  firstn n (x ++ y) = x ++ firstn (n - length x) y.
Proof. intros H. rewrite firstn_app. rewrite (firstn_all2 x) by lia. reflexivity. Qed.

Lemma skipn_app_len {A} (x y : list A) : skipn (length x) (x ++ y) = y.
Proof. rewrite skipn_app, skipn_all, Nat.sub_diag. reflexivity. Qed.

Lemma len_firstn_le {A} (j : Z) (x : list A) : len (firstn (Z.to_nat j) x) <= Z.max 0 j.
Proof. unfold len. rewrite firstn_length. lia. Qed.

Lemma len_enc32 n : len (enc32 n) = 4.
Proof. reflexivity. Qed.

Definition tag4 (t : bytes) : Prop := length t = 4%nat /\ nth 3 t 0 <> 0.
Lemma tag4_moof : tag4 t_moof. Proof. split; [reflexivity|discriminate]. Qed.
Lemma tag4_mdat : tag4 t_mdat. Proof. split; [reflexivity|discriminate]. Qed.
Lemma tag4_ftyp : tag4 t_ftyp. Proof. split; [reflexivity|discriminate]. Qed.
Lemma tag4_moov : tag4 t_moov. Proof. split; [reflexivity|discriminate]. Qed.

Lemma bytes_eqb_refl a : bytes_eqb a a = true.
Proof. induction a as [|x a IH]; simpl; [reflexivity|]. rewrite Z.eqb_refl. exact IH. Qed.

(* ---- a box header that is on disk is found ---- *)
Lemma enc32_decode n : 0 <= n < 4294967296 ->
  n / 16777216 mod 256 * 16777216 + n / 65536 mod 256 * 65536 + n / 256 mod 256 * 256 + n mod 256 = n.
Proof.
  intros H.
  assert (n / 16777216 mod 256 = n / 16777216) as -> by (apply Z.mod_small; split; [apply Z.div_pos; lia|apply Z.div_lt_upper_bound; lia]).
  pose proof (Z.div_mod n 256 ltac:(lia)). pose proof (Z.div_mod (n / 256) 256 ltac:(lia)).
  pose proof (Z.div_mod (n / 256 / 256) 256 ltac:(lia)).
  rewrite !Z.div_div in * by lia. simpl (256 * 256) in *. simpl (65536 * 256) in *.
  pose proof (Z.mod_pos_bound n 256 ltac:(lia)). pose proof (Z.mod_pos_bound (n / 256) 256 ltac:(lia)).
  pose proof (Z.mod_pos_bound (n / 65536) 256 ltac:(lia)).
  assert ((n / 65536) / 256 = n / 16777216) as E by (rewrite Z.div_div by lia; reflexivity).
  lia.
Qed.

Lemma read_full_at pre hdr rest : length hdr = 8%nat ->
  read_full (pre ++ hdr ++ rest) (len pre) 8 = Some hdr.
Proof.
  intros Hh. unfold read_full, flen. change (8 =? 0) with false. cbv iota.
  assert ((0 <=? len pre) && (len pre + 8 <=? len (pre ++ hdr ++ rest)) = true) as ->.
  { rewrite !len_app. unfold len. lia. }
  unfold len. rewrite Nat2Z.id, skipn_app_len. change (Z.to_nat 8) with 8%nat.
  rewrite firstn_app_ge by lia. rewrite Hh, Nat.sub_diag, firstn_O, app_nil_r. reflexivity.
Qed.

Lemma hdr_at_found pre n tag rest : 0 <= n < 4294967296 -> length tag = 4%nat ->
  hdr_at (pre ++ enc32 n ++ tag ++ rest) (len pre) tag = Ok (Some n).
Proof.
  intros Hn Ht. unfold hdr_at.
  destruct tag as [|a [|b [|c [|d [|? ?]]]]]; simpl in Ht; try lia.
  replace (pre ++ enc32 n ++ [a; b; c; d] ++ rest)
    with (pre ++ (enc32 n ++ [a; b; c; d]) ++ rest) by (rewrite <- !app_assoc; reflexivity).
  rewrite read_full_at by reflexivity.
  unfold tag_is, slice_from, be32, index, len, enc32. simpl.
  rewrite !Z.eqb_refl. simpl.
  rewrite enc32_decode by exact Hn. reflexivity.
Qed.

(* ---- a box header that is not (completely) on disk is not found ---- *)
Lemma nth_firstn_skipn (d : bytes) (p i n : nat) : (i < n)%nat ->
  nth i (firstn n (skipn p d)) 0 = nth (p + i) d 0.
Proof.
  intros Hi. revert d. induction p as [|p IH]; intros d.
  - simpl. revert i n Hi. induction d as [|x d IHd]; intros i n Hi.
    + rewrite firstn_nil. destruct i; reflexivity.
    + destruct n; [lia|]. destruct i; simpl; [reflexivity|]. apply IHd. lia.
  - destruct d as [|x d]; simpl.
    + rewrite firstn_nil. destruct i; reflexivity.
    + apply IH.
Qed.

Lemma nth_app_zeros (a : bytes) (z i : nat) : (length a <= i)%nat -> nth i (a ++ repeat 0 z) 0 = 0.
Proof.
  intros H. rewrite app_nth2 by lia.
  generalize (i - length a)%nat. intros k. revert k. induction z as [|z IH]; intros [|k]; simpl; auto.
Qed.

Lemma read_full_nth7 (d : bytes) p buf : read_full d p 8 = Some buf ->
  0 <= p /\ nth 7 buf 0 = nth (Z.to_nat p + 7) d 0.
Proof.
  unfold read_full. change (8 =? 0) with false. cbv iota.
  destruct ((0 <=? p) && (p + 8 <=? flen d)) eqn:Eg; [|discriminate].
  intros H. assert (buf = firstn (Z.to_nat 8) (skipn (Z.to_nat p) d)) as -> by congruence.
  split; [lia|]. apply (nth_firstn_skipn d (Z.to_nat p) 7 (Z.to_nat 8)). lia.
Qed.

Lemma hdr_at_absent (a : bytes) (z : nat) p tag : tag4 tag -> 0 <= p -> len a < p + 8 ->
  hdr_at (a ++ repeat 0 z) p tag = Err \/ hdr_at (a ++ repeat 0 z) p tag = Ok None.
Proof.
  intros [Ht Hn] Hp Ha.
  destruct (hdr_at_cases (a ++ repeat 0 z) p tag) as [H|[H|(buf & s & R & L & T & _ & _)]]; auto.
  exfalso. unfold tag_is, slice_from in T. rewrite L in T. simpl in T.
  injection T as E. apply bytes_eqb_eq in E.
  destruct (read_full_nth7 _ _ _ R) as [_ H7].
  rewrite nth_app_zeros in H7 by (unfold len in Ha; lia).
  assert (nth 3 (skipn 4 buf) 0 = nth 7 buf 0) as H3.
  { unfold len in L. destruct buf as [|b0 [|b1 [|b2 [|b3 [|b4 [|b5 [|b6 [|b7 [|? ?]]]]]]]]]; simpl in L; try lia. reflexivity. }
  assert (skipn 4 buf = tag) as E' by exact E.
  rewrite E' in H3. congruence.
Qed.

(* ---- the walk over a crash image ---- *)
Definition wf_part (p : part) : Prop := part_len p < 4294967296.

Lemma len_box tag pl : length tag = 4%nat -> len (box tag pl) = 8 + len pl.
Proof. intros H. unfold box. rewrite !len_app, len_enc32. unfold len. lia. Qed.
Lemma len_part_bytes p : len (part_bytes p) = part_len p.
Proof. unfold part_bytes, part_len. rewrite len_app, !len_box by reflexivity. lia. Qed.
Lemma parts_bytes_cons p r : parts_bytes (p :: r) = part_bytes p ++ parts_bytes r.
Proof. reflexivity. Qed.

Lemma walk_crash_image (z : nat) : forall ps pre j last fuel,
  Forall wf_part ps -> (length ps < fuel)%nat ->
  moof_loop (pre ++ firstn (Z.to_nat j) (parts_bytes ps) ++ repeat 0 z) fuel (len pre) last
  = Ok (expect_last ps (len pre) j last).
Proof.
  induction ps as [|p0 r IH]; intros pre j last fuel Hwf Hfuel.
  - (* no part left: the next header is absent *)
    destruct fuel as [|fuel]; [lia|]. cbn [moof_loop expect_last parts_bytes map concat].
    rewrite firstn_nil. cbn [app].
    destruct (hdr_at_absent pre z (len pre) t_moof tag4_moof ltac:(unfold len; lia) ltac:(lia)) as [H|H];
      rewrite H; reflexivity.
  - inversion Hwf as [|? ? Hp0 Hr]; subst. unfold wf_part in Hp0.
    destruct fuel as [|fuel]; [simpl in Hfuel; lia|].
    assert (0 <= len (moof_pl p0) /\ 0 <= len (mdat_pl p0)) as [Hm Hd] by (unfold len; lia).
    cbn [expect_last]. rewrite parts_bytes_cons.
    set (pl := moof_pl p0) in *. set (dl := mdat_pl p0) in *.
    destruct (part_len p0 <=? j) eqn:Ec.
    + (* complete part *)
      assert (length (part_bytes p0) <= Z.to_nat j)%nat as Hle.
      { pose proof (len_part_bytes p0) as L. unfold len in L. lia. }
      rewrite firstn_app_ge by exact Hle.
      assert ((Z.to_nat j - length (part_bytes p0))%nat = Z.to_nat (j - part_len p0)) as ->.
      { pose proof (len_part_bytes p0) as L. unfold len in L. lia. }
      set (tail := firstn (Z.to_nat (j - part_len p0)) (parts_bytes r) ++ repeat 0 z).
      assert (pre ++ (part_bytes p0 ++ firstn (Z.to_nat (j - part_len p0)) (parts_bytes r)) ++ repeat 0 z
              = pre ++ enc32 (8 + len pl) ++ t_moof ++ (pl ++ box t_mdat dl ++ tail)) as E1.
      { unfold part_bytes, box, tail. fold pl dl. rewrite <- !app_assoc. reflexivity. }
      assert (pre ++ (part_bytes p0 ++ firstn (Z.to_nat (j - part_len p0)) (parts_bytes r)) ++ repeat 0 z
              = (pre ++ box t_moof pl) ++ enc32 (8 + len dl) ++ t_mdat ++ (dl ++ tail)) as E2.
      { unfold part_bytes, box, tail. fold pl dl. rewrite <- !app_assoc. reflexivity. }
      assert (pre ++ (part_bytes p0 ++ firstn (Z.to_nat (j - part_len p0)) (parts_bytes r)) ++ repeat 0 z
              = (pre ++ part_bytes p0) ++ firstn (Z.to_nat (j - part_len p0)) (parts_bytes r) ++ repeat 0 z) as E3.
      { rewrite <- !app_assoc. reflexivity. }
      cbn [moof_loop].
      rewrite E1 at 1. rewrite hdr_at_found by (try reflexivity; unfold part_len in Hp0; fold pl dl in Hp0; lia).
      unfold seek.
      assert (len pre + 8 + (8 + len pl - 8) = len (pre ++ box t_moof pl)) as Eq.
      { rewrite len_app, len_box by reflexivity. lia. }
      rewrite Eq.
      destruct (len (pre ++ box t_moof pl) <? 0) eqn:En; [unfold len in En; lia|].
      rewrite E2 at 1. rewrite hdr_at_found by (try reflexivity; unfold part_len in Hp0; fold pl dl in Hp0; lia).
      assert (len (pre ++ box t_moof pl) + 8 + (8 + len dl - 8) = len (pre ++ part_bytes p0)) as Eq2.
      { unfold part_bytes. fold pl dl. rewrite !len_app, !len_box by reflexivity. lia. }
      rewrite Eq2.
      destruct (len (pre ++ part_bytes p0) <? 0) eqn:En2; [unfold len in En2; lia|].
      rewrite E3. rewrite (IH (pre ++ part_bytes p0) (j - part_len p0) (len pre) fuel Hr) by (simpl in Hfuel; lia).
      rewrite len_app, len_part_bytes. reflexivity.
    + (* incomplete part: what is on disk of it is a prefix of part_bytes p0 *)
      assert (firstn (Z.to_nat j) (part_bytes p0 ++ parts_bytes r) = firstn (Z.to_nat j) (part_bytes p0)) as Ef.
      { rewrite firstn_app. pose proof (len_part_bytes p0) as L. unfold len in L.
        replace (Z.to_nat j - length (part_bytes p0))%nat with 0%nat by lia. rewrite firstn_O, app_nil_r. reflexivity. }
      rewrite Ef.
      set (A := pre ++ firstn (Z.to_nat j) (part_bytes p0)).
      assert (len A <= len pre + Z.max 0 j) as HA.
      { unfold A. rewrite len_app. pose proof (len_firstn_le j (part_bytes p0)). lia. }
      assert (pre ++ firstn (Z.to_nat j) (part_bytes p0) ++ repeat 0 z = A ++ repeat 0 z) as EA
        by (unfold A; rewrite <- app_assoc; reflexivity).
      destruct (moof_len p0 + 8 <=? j) eqn:Eh.
      * (* moof and mdat header on disk *)
        unfold moof_len in Eh. fold pl in Eh.
        assert (firstn (Z.to_nat j) (part_bytes p0)
                = box t_moof pl ++ enc32 (8 + len dl) ++ t_mdat ++ firstn (Z.to_nat j - length (box t_moof pl) - 8) dl) as Es.
        { unfold part_bytes. fold pl dl.
          pose proof (len_box t_moof pl eq_refl) as L1. unfold len in *.
          rewrite firstn_app_ge by lia. f_equal.
          remember (Z.to_nat j - length (box t_moof pl))%nat as k eqn:Ek.
          assert (8 <= k)%nat as Hk by lia.
          unfold box. rewrite app_assoc.
          rewrite firstn_app_ge by (rewrite app_length; simpl; lia).
          rewrite <- app_assoc. reflexivity. }
        destruct fuel as [|fuel]; [simpl in Hfuel; lia|].
        cbn [moof_loop].
        assert (pre ++ firstn (Z.to_nat j) (part_bytes p0) ++ repeat 0 z
                = pre ++ enc32 (8 + len pl) ++ t_moof ++
                  (pl ++ enc32 (8 + len dl) ++ t_mdat ++ firstn (Z.to_nat j - length (box t_moof pl) - 8) dl ++ repeat 0 z)) as E1.
        { rewrite Es. unfold box. rewrite <- !app_assoc. reflexivity. }
        assert (pre ++ firstn (Z.to_nat j) (part_bytes p0) ++ repeat 0 z
                = (pre ++ box t_moof pl) ++ enc32 (8 + len dl) ++ t_mdat ++
                  (firstn (Z.to_nat j - length (box t_moof pl) - 8) dl ++ repeat 0 z)) as E2.
        { rewrite Es. rewrite <- !app_assoc. reflexivity. }
        rewrite E1 at 1. rewrite hdr_at_found by (try reflexivity; unfold part_len in Hp0; fold pl dl in Hp0; lia).
        unfold seek.
        assert (len pre + 8 + (8 + len pl - 8) = len (pre ++ box t_moof pl)) as Eq.
        { rewrite len_app, len_box by reflexivity. lia. }
        rewrite Eq.
        destruct (len (pre ++ box t_moof pl) <? 0) eqn:En; [unfold len in En; lia|].
        rewrite E2 at 1. rewrite hdr_at_found by (try reflexivity; unfold part_len in Hp0; fold pl dl in Hp0; lia).
        assert (len (pre ++ box t_moof pl) + 8 + (8 + len dl - 8) = len pre + part_len p0) as Eq2.
        { unfold part_len. fold pl dl. rewrite !len_app, !len_box by reflexivity. lia. }
        rewrite Eq2.
        destruct (len pre + part_len p0 <? 0) eqn:En2; [unfold part_len, len in En2; lia|].
        rewrite EA.
        destruct (hdr_at_absent A z (len pre + part_len p0) t_moof tag4_moof
                    ltac:(unfold part_len, len; lia) ltac:(unfold part_len, len in *; lia)) as [H|H]; rewrite H; reflexivity.
      * (* the mdat header is not on disk *)
        unfold moof_len in Eh. fold pl in Eh.
        cbn [moof_loop].
        destruct (8 <=? j) eqn:E8.
        -- assert (firstn (Z.to_nat j) (part_bytes p0)
                   = enc32 (8 + len pl) ++ t_moof ++ firstn (Z.to_nat j - 8) (pl ++ box t_mdat dl)) as Es.
           { unfold part_bytes, box at 1. fold pl dl. rewrite <- !app_assoc.
             rewrite (app_assoc (enc32 (8 + len pl)) t_moof).
             rewrite firstn_app_ge by (rewrite app_length; simpl; lia).
             rewrite <- app_assoc. do 2 f_equal. }
           assert (pre ++ firstn (Z.to_nat j) (part_bytes p0) ++ repeat 0 z
                   = pre ++ enc32 (8 + len pl) ++ t_moof ++ (firstn (Z.to_nat j - 8) (pl ++ box t_mdat dl) ++ repeat 0 z)) as E1.
           { rewrite Es. rewrite <- !app_assoc. reflexivity. }
           rewrite E1 at 1. rewrite hdr_at_found by (try reflexivity; unfold part_len in Hp0; fold pl dl in Hp0; lia).
           unfold seek.
           destruct (len pre + 8 + (8 + len pl - 8) <? 0) eqn:En; [reflexivity|].
           rewrite EA.
           destruct (hdr_at_absent A z (len pre + 8 + (8 + len pl - 8)) t_mdat tag4_mdat
                       ltac:(unfold len; lia) ltac:(lia)) as [H|H]; rewrite H; reflexivity.
        -- rewrite EA.
           destruct (hdr_at_absent A z (len pre) t_moof tag4_moof ltac:(unfold len; lia) ltac:(lia)) as [H|H];
             rewrite H; reflexivity.
Qed.

(* the result does not depend on the fuel once the walk ends *)
Lemma moof_loop_fuel data : forall f p last l, moof_loop data f p last = Ok l ->
  forall f', (f <= f')%nat -> moof_loop data f' p last = Ok l.
Proof.
  induction f as [|f IH]; intros p last l H f' Hf; cbn [moof_loop] in H; [discriminate|].
  destruct f' as [|f']; [lia|]. cbn [moof_loop].
  destruct (hdr_at data p t_moof) as [[ms|]| |]; try exact H.
  destruct (seek (p + 8 + (ms - 8))) as [q|]; try exact H.
  destruct (hdr_at data q t_mdat) as [[ds|]| |]; try exact H.
  destruct (seek (q + 8 + (ds - 8))) as [p'|]; try exact H.
  apply (IH _ _ _ H). lia.
Qed.

(* ---- the statements of Props/C27.v ---- *)

(* layout: a crash image of the part region = complete parts ++ a proper prefix of the next part *)
Lemma layout_all : forall ps j, 0 <= j <= len (parts_bytes ps) ->
  exists tail, firstn (Z.to_nat j) (parts_bytes ps) = parts_bytes (firstn (complete ps j) ps) ++ tail /\
    (tail = [] \/ exists p, nth_error ps (complete ps j) = Some p /\
                            tail = firstn (length tail) (part_bytes p) /\ len tail < part_len p).
Proof.
  induction ps as [|p r IH]; intros j Hj.
  - exists []. simpl. rewrite firstn_nil. auto.
  - cbn [complete]. rewrite parts_bytes_cons in *. rewrite len_app, len_part_bytes in Hj.
    destruct (part_len p <=? j) eqn:E.
    + destruct (IH (j - part_len p) ltac:(lia)) as (tail & Ht & Hc).
      exists tail. split.
      * pose proof (len_part_bytes p) as L. unfold len in L.
        rewrite firstn_app_ge by lia.
        replace (Z.to_nat j - length (part_bytes p))%nat with (Z.to_nat (j - part_len p)) by lia.
        rewrite Ht. cbn [firstn]. rewrite parts_bytes_cons, app_assoc. reflexivity.
      * destruct Hc as [Hc|(q & Hq & Hp)]; [left; exact Hc|right; exists q; auto].
    + exists (firstn (Z.to_nat j) (part_bytes p)). split.
      * cbn [firstn parts_bytes map concat app].
        rewrite firstn_app. pose proof (len_part_bytes p) as L. unfold len in L.
        replace (Z.to_nat j - length (part_bytes p))%nat with 0%nat by lia. rewrite firstn_O, app_nil_r. reflexivity.
      * right. exists p. split; [reflexivity|]. split.
        -- rewrite firstn_length. pose proof (len_part_bytes p) as L. unfold len in L.
           rewrite Nat.min_l by lia. reflexivity.
        -- pose proof (len_firstn_le j (part_bytes p)). lia.
Qed.

(* the walk of the reader over a crash image *)
Lemma recover_all ftyp_pl moov_pl ps j z fuel :
  Forall wf_part ps -> (length ps < fuel)%nat ->
  moof_loop (crash_image ftyp_pl moov_pl ps j z) fuel (len (init_bytes ftyp_pl moov_pl)) (-1)
  = Ok (expect_last ps (len (init_bytes ftyp_pl moov_pl)) j (-1)).
Proof. intros Hwf Hf. unfold crash_image. apply walk_crash_image; assumption. Qed.

(* the two box headers of the init are found, whatever the moov payload holds *)
Lemma init_headers ftyp_pl moov_pl rest :
  8 + len ftyp_pl < 4294967296 -> 8 + len moov_pl < 4294967296 ->
  hdr_at (init_bytes ftyp_pl moov_pl ++ rest) 0 t_ftyp = Ok (Some (8 + len ftyp_pl)) /\
  hdr_at (init_bytes ftyp_pl moov_pl ++ rest) (8 + len ftyp_pl) t_moov = Ok (Some (8 + len moov_pl)).
Proof.
  intros H1 H2. assert (0 <= len ftyp_pl /\ 0 <= len moov_pl) as [? ?] by (unfold len; lia). split.
  - change 0 with (len (@nil Z)).
    replace (init_bytes ftyp_pl moov_pl ++ rest)
      with ([] ++ enc32 (8 + len ftyp_pl) ++ t_ftyp ++ (ftyp_pl ++ box t_moov moov_pl ++ rest))
      by (unfold init_bytes, box; rewrite <- !app_assoc; reflexivity).
    apply hdr_at_found; [lia|reflexivity].
  - replace (8 + len ftyp_pl) with (len (box t_ftyp ftyp_pl)) at 1 by (rewrite len_box by reflexivity; reflexivity).
    replace (init_bytes ftyp_pl moov_pl ++ rest)
      with (box t_ftyp ftyp_pl ++ enc32 (8 + len moov_pl) ++ t_moov ++ (moov_pl ++ rest))
      by (unfold init_bytes, box; rewrite <- !app_assoc; reflexivity).
    apply hdr_at_found; [lia|reflexivity].
Qed.

(* the same with the fuel the reader model uses (|file|+1) *)
Lemma recover_reader ftyp_pl moov_pl ps j z :
  Forall wf_part ps -> wf_bytes (crash_image ftyp_pl moov_pl ps j z) = true ->
  moof_loop (crash_image ftyp_pl moov_pl ps j z) (fuel_of_file (crash_image ftyp_pl moov_pl ps j z))
    (len (init_bytes ftyp_pl moov_pl)) (-1)
  = Ok (expect_last ps (len (init_bytes ftyp_pl moov_pl)) j (-1)).
Proof.
  intros Hwf Hb.
  set (img := crash_image ftyp_pl moov_pl ps j z) in *.
  pose proof (recover_all ftyp_pl moov_pl ps j z (S (length ps)) Hwf ltac:(lia)) as R. fold img in R.
  destruct (le_lt_dec (S (length ps)) (fuel_of_file img)) as [Hle|Hlt].
  - exact (moof_loop_fuel img _ _ _ _ R _ Hle).
  - destruct (moof_loop_ok img Hb (fuel_of_file img) (len (init_bytes ftyp_pl moov_pl)) (-1)) as [l Hl].
    + unfold len. lia.
    + unfold fuel_of_file, flen, len. lia.
    + rewrite Hl. pose proof (moof_loop_fuel img _ _ _ _ Hl (S (length ps)) ltac:(lia)) as R2.
      rewrite R in R2. congruence.
Qed.

(* what the walk finds is the last complete part or the part after it: the loss is bounded by one part *)
Lemma expect_last_bound : forall ps off j last,
  let c := complete ps j in
  (c = O /\ (expect_last ps off j last = last \/ expect_last ps off j last = off)) \/
  (c <> O /\ (expect_last ps off j last = offset_of ps off (c - 1) \/ expect_last ps off j last = offset_of ps off c)).
Proof.
  induction ps as [|p r IH]; intros off j last; cbn [complete expect_last].
  - left. auto.
  - destruct (part_len p <=? j) eqn:E.
    + right. split; [discriminate|].
      specialize (IH (off + part_len p) (j - part_len p) off). cbn zeta in IH.
      destruct IH as [[Hc [H|H]]|[Hc [H|H]]]; rewrite H.
      * left. rewrite Hc. reflexivity.
      * right. rewrite Hc. reflexivity.
      * left. destruct (complete r (j - part_len p)) as [|c']; [congruence|]. cbn [offset_of Nat.sub].
        rewrite Nat.sub_0_r. replace (S c' - 1)%nat with c' by lia. reflexivity.
      * right. reflexivity.
    + left. split; [reflexivity|]. destruct (moof_len p + 8 <=? j); auto.
Qed.

(* parts that are complete are never skipped: the offset found is at least that of the last complete part *)
Lemma expect_last_complete : forall ps off j last, complete ps j <> O ->
  offset_of ps off (complete ps j - 1) <= expect_last ps off j last.
Proof.
  intros ps off j last Hc.
  assert (forall ps off i, off <= offset_of ps off i) as Hmono.
  { clear. induction ps as [|p r IH]; intros off [|i]; cbn [offset_of]; try lia.
    specialize (IH (off + part_len p) i). unfold part_len in *. unfold len in *. lia. }
  assert (forall ps off i, offset_of ps off i <= offset_of ps off (S i)) as Hstep.
  { clear - Hmono. induction ps as [|p r IH]; intros off [|i]; cbn [offset_of]; try lia.
    - unfold part_len, len. lia.
    - apply IH. }
  pose proof (expect_last_bound ps off j last) as H. cbn zeta in H.
  destruct H as [[H0 _]|[_ [H|H]]]; [congruence|lia|].
  rewrite H. specialize (Hstep ps off (complete ps j - 1)%nat).
  replace (S (complete ps j - 1)) with (complete ps j) in Hstep by lia. exact Hstep.
Qed.

Lemma loss_bound_all : forall ps off j last,
  let c := complete ps j in
  ((c = O /\ (expect_last ps off j last = last \/ expect_last ps off j last = off)) \/
   (c <> O /\ (expect_last ps off j last = offset_of ps off (c - 1) \/ expect_last ps off j last = offset_of ps off c))) /\
  (c <> O -> offset_of ps off (c - 1) <= expect_last ps off j last).
Proof. intros ps off j last. split; [exact (expect_last_bound ps off j last)|exact (expect_last_complete ps off j last)]. Qed.

(* close: the duration written and read back is the segment duration truncated to a millisecond *)
Lemma closed_duration_all d : 0 <= d < 4294967296 * 1000000 ->
  duration_read (duration_field d) = d / 1000000 * 1000000 /\
  d - 1000000 < duration_read (duration_field d) <= d.
Proof.
  intros H. unfold duration_read, duration_field, wrapu32, wrap64, two32, two63, two64, nanos.
  rewrite (Z.quot_div_nonneg d 1000000) by lia.
  assert (0 <= d / 1000000 < 4294967296) as Hq by (split; [apply Z.div_pos; lia|apply Z.div_lt_upper_bound; lia]).
  rewrite (Z.mod_small (d / 1000000)) by lia.
  rewrite (Z.mod_small (d / 1000000 * 1000000000 + 9223372036854775808)) by lia.
  replace (d / 1000000 * 1000000000 + 9223372036854775808 - 9223372036854775808) with (d / 1000000 * 1000000 * 1000) by lia.
  rewrite (Z.quot_div_nonneg (d / 1000000 * 1000000 * 1000) 1000) by lia. rewrite Z.div_mul by lia.
  rewrite (Z.mod_small (d / 1000000 * 1000000 + 9223372036854775808)) by lia.
  pose proof (Z.div_mod d 1000000 ltac:(lia)). pose proof (Z.mod_pos_bound d 1000000 ltac:(lia)). lia.
Qed.

(* continuity: consecutive segments of one stream are recognised as continuous by the playback server *)
Lemma continuity_all sid n legacy : 0 <= n -> n + 1 < 18446744073709551616 ->
  can_concat legacy (Some (sid, n)) (Some (sid, n + 1)) = true.
Proof.
  intros H1 H2. unfold can_concat, wrapu64, two64. rewrite Z.eqb_refl. rewrite Z.mod_small by lia.
  rewrite Z.eqb_refl. reflexivity.
Qed.

(* the rewrite of the duration has the length of what it replaces: the appended bytes are init ++ parts *)
Lemma appended_log ftyp_pl moov_pl ps off dur :
  appended (write_log ftyp_pl moov_pl ps off dur) = init_bytes ftyp_pl moov_pl ++ parts_bytes ps.
Proof.
  unfold write_log, appended. cbn [map concat]. f_equal.
  rewrite map_app, concat_app. cbn [map concat]. rewrite !app_nil_r.
  unfold parts_bytes. f_equal. rewrite map_map. reflexivity.
Qed.

(* non-vacuity *)
Definition ex_part (n m : nat) : part := {| moof_pl := repeat 7 n; mdat_pl := repeat 9 m |}.
Lemma example_walk :
  (* three parts of 36, 40, 44 bytes after a 24-byte init; 85 bytes of the part region on disk: two complete parts
     and 9 bytes of the third, then 5 zero bytes: the walk returns the offset of the second part *)
  moof_loop (crash_image [1; 2; 3; 4] [5; 6; 7; 8] [ex_part 8 12; ex_part 8 16; ex_part 12 16] 85 5) 10 24 (-1) = Ok 60 /\
  complete [ex_part 8 12; ex_part 8 16; ex_part 12 16] 85 = 2%nat /\
  (* 100 bytes: moof (20) and mdat header (8) of the third part on disk, payload incomplete: the third part *)
  moof_loop (crash_image [1; 2; 3; 4] [5; 6; 7; 8] [ex_part 8 12; ex_part 8 16; ex_part 12 16] 104 0) 10 24 (-1) = Ok 100.
Proof. vm_compute. repeat split. Qed.
