(* Proofs for C31 (segment operations identify segments by instant). *)
From Coq Require Import List ZArith Bool Lia ZifyBool.
Require Import MTX.Lib.Civil MTX.Model.C26_RecPath MTX.Proofs.C26_RecPath MTX.Model.C26_Zone MTX.Proofs.C26_Zone
               MTX.Model.C31_DeleteSeg.
Import ListNotations.
Local Open Scope Z_scope.

(* ---------------------------------------------------------------- same instant, same file *)

Theorem same_instant_same_file zone g a b :
  same_instant a b -> delete_target zone g a = delete_target zone g b.
Proof.
  intros [Hu Hn]. unfold delete_target, to_local. rewrite Hu, Hn. reflexivity.
Qed.

(* two RFC 3339 renderings of one instant, at any two offsets, denote the same instant *)
Theorem fields_roundtrip u n off : instant_of_fields (fields_of u n off) = mkI u n off.
Proof.
  unfold instant_of_fields, fields_of. cbn [f_Y f_M f_D f_h f_m f_s f_ns f_off].
  rewrite (civil_of_unix_date u off). reflexivity.
Qed.

Theorem renderings_same_instant u n o1 o2 :
  same_instant (instant_of_fields (fields_of u n o1)) (instant_of_fields (fields_of u n o2)).
Proof. rewrite !fields_roundtrip. split; reflexivity. Qed.

Theorem renderings_same_file zone g u n o1 o2 :
  delete_target zone g (instant_of_fields (fields_of u n o1)) =
  delete_target zone g (instant_of_fields (fields_of u n o2)).
Proof. apply same_instant_same_file, renderings_same_instant. Qed.

(* ---------------------------------------------------------------- formats without %path *)

Lemma no_path_nonpath ts : no_path ts = true -> nonpath ts = true.
Proof. intros H; exact H. Qed.

Lemma no_path_has ts : no_path ts = true -> has TPath ts = false.
Proof.
  intros H. destruct (has TPath ts) eqn:E; [|reflexivity].
  apply has_in in E. unfold no_path in H. rewrite forallb_forall in H. specialize (H _ E). discriminate.
Qed.

Lemma mtch_nopath loff ts p t : no_path ts = true -> encodable loff ts t = true ->
  mtch true ts (render ts p t) = Some (caps_of p t ts).
Proof.
  intros Hn He.
  pose proof (mtch_run true p t ts [] [] (no_path_nonpath _ Hn) (text_takeable loff ts p t He)) as H.
  cbn [mtch] in H. rewrite !app_nil_r in H. exact H.
Qed.

(* the name the recorder writes under a substituted format matches with the captures Encode wrote *)
Lemma nopath_match g t : no_stray (tokenize g) = true -> no_path (tokenize g) = true ->
  enc_ranges (tokenize g) t = true ->
  mtch true (tokenize g) (encode_go g [] t) = Some (caps_of [] t (tokenize g)).
Proof.
  intros Hs Hn Hr. rewrite encode_go_tokens; [|exact Hs|constructor]. unfold encode.
  exact (mtch_nopath (i_off t) _ [] t Hn (enc_ranges_encodable _ _ Hr)).
Qed.

(* ... and is recognised, in any local zone, with the Start time.Date gives, provided that Start
   shows the wall-clock reading that was written *)
Theorem roundtrip_nopath_wall L g t :
  no_stray (tokenize g) = true -> no_path (tokenize g) = true -> identifies (tokenize g) = true ->
  enc_ranges (tokenize g) t = true ->
  (has Tz (tokenize g) = false ->
   decoded_unix L (tokenize g) t + lz_at L (decoded_unix L (tokenize g) t) = i_unix t + i_off t) ->
  decode_lz L g (encode_go g [] t) =
  Some ([], decoded_unix L (tokenize g) t, snd (trunc_start (tokenize g) t)).
Proof.
  intros Hs Hn Hid Hr Hw. apply decode_lz_of_match; try assumption; [constructor|exact (nopath_match g t Hs Hn Hr)|].
  intros _. reflexivity.
Qed.

Theorem roundtrip_nopath_lz L g t :
  no_stray (tokenize g) = true -> no_path (tokenize g) = true -> identifies (tokenize g) = true ->
  encodable_lz L (tokenize g) t = true ->
  decode_lz L g (encode_go g [] t) =
  Some ([], fst (trunc_start (tokenize g) t), snd (trunc_start (tokenize g) t)).
Proof.
  intros Hs Hn Hid He. destruct (encodable_lz_parts _ _ _ He) as [Hr Hz].
  rewrite (roundtrip_nopath_wall L g t Hs Hn Hid Hr).
  - rewrite (decoded_unix_encodable _ _ _ He). reflexivity.
  - intros Hhz. rewrite (decoded_unix_encodable _ _ _ He). destruct (Hz Hhz) as [Ha _]. lia.
Qed.

(* the name the recorder writes under a substituted format is recognised with its start *)
Theorem roundtrip_nopath loff g t :
  no_stray (tokenize g) = true -> no_path (tokenize g) = true -> identifies (tokenize g) = true ->
  encodable loff (tokenize g) t = true ->
  decode loff g (encode_go g [] t) =
  Some ([], fst (trunc_start (tokenize g) t), snd (trunc_start (tokenize g) t)).
Proof. intros. unfold decode. apply roundtrip_nopath_lz; assumption. Qed.

(* Encode depends on the nanoseconds only through %f, i.e. through the microseconds *)
Lemma render_trunc ts p u n off :
  render ts p (mkI u (snd (trunc_start ts (mkI u n off))) off) = render ts p (mkI u n off).
Proof.
  unfold render, trunc_start. cbn [snd i_ns i_unix].
  assert (H : forall k, In k ts ->
            tok_text p (mkI u (if has Tf ts then n / 1000 * 1000 else 0) off) k = tok_text p (mkI u n off) k).
  { intros k Hin. destruct k; try reflexivity.
    cbn [tok_text i_ns]. apply has_in in Hin. rewrite Hin. rewrite Z.div_mul by lia. reflexivity. }
  induction ts as [|k ts IH]; [reflexivity|]. cbn [flat_map].
  assert (Hk := H k (or_introl eq_refl)).
  (* the `has Tf` test refers to the whole list: generalise *)
  revert H. generalize (if has Tf (k :: ts) then n / 1000 * 1000 else 0). intros n' H.
  rewrite (H k (or_introl eq_refl)). f_equal.
  clear IH Hk. induction ts as [|k' ts IH']; [reflexivity|]. cbn [flat_map].
  rewrite (H k' (or_intror (or_introl eq_refl))). f_equal.
  apply IH'. intros k'' [Hk''|Hk'']; apply H; [left; exact Hk''|right; right; exact Hk''].
Qed.

(* listing and deletion agree: the start the listing reports for a recorded file, written with any
   offset, makes delete name that file; and that start is the recorded one to the format's precision *)
Theorem agrees_with_listing zone loff g u0 n0 :
  let ts := tokenize g in
  let t0 := mkI u0 n0 (zone u0) in
  no_stray ts = true -> no_path ts = true -> identifies ts = true -> encodable loff ts t0 = true ->
  exists u n, listed_start loff g (recorded_name zone g u0 n0) = Some (u, n)
              /\ (u, n) = trunc_start ts t0
              /\ forall off, delete_target zone g (mkI u n off) = recorded_name zone g u0 n0.
Proof.
  intros ts t0 Hs Hn Hid He.
  exists (fst (trunc_start ts t0)), (snd (trunc_start ts t0)).
  unfold listed_start, listed_start_lz, recorded_name. fold t0. fold (decode loff g (encode_go g [] t0)).
  rewrite (roundtrip_nopath loff g t0 Hs Hn Hid He). fold ts.
  split; [reflexivity|]. split; [destruct (trunc_start ts t0); reflexivity|].
  intros off. unfold delete_target, to_local. cbn [i_unix i_ns].
  unfold trunc_start at 1 2. cbn [fst].
  rewrite !encode_go_tokens by (try exact Hs; constructor).
  unfold encode. fold ts. subst t0. cbn [i_unix]. apply render_trunc.
Qed.

(* deletion removes only the segment of that instant: if the target of a request is the file the
   recorder wrote for (u0, n0), the two instants are equal to the format's precision *)
Theorem target_only_that_instant zone loff g req u0 n0 :
  let ts := tokenize g in
  no_stray ts = true -> no_path ts = true -> identifies ts = true ->
  encodable loff ts (to_local zone req) = true -> encodable loff ts (mkI u0 n0 (zone u0)) = true ->
  delete_target zone g req = recorded_name zone g u0 n0 ->
  trunc_start ts (to_local zone req) = trunc_start ts (mkI u0 n0 (zone u0)).
Proof.
  intros ts Hs Hn Hid He1 He2 Heq. unfold delete_target, recorded_name in Heq.
  pose proof (roundtrip_nopath loff g _ Hs Hn Hid He1) as R1.
  pose proof (roundtrip_nopath loff g _ Hs Hn Hid He2) as R2.
  rewrite Heq in R1. rewrite R1 in R2. fold ts in R2.
  destruct (trunc_start ts (to_local zone req)), (trunc_start ts (mkI u0 n0 (zone u0))).
  cbn [fst snd] in R2. congruence.
Qed.

(* ---------------------------------------------------------------- any local zone; zone tables *)

(* delete names the recorded file as soon as the requested instant shows, in the server zone, the
   wall-clock reading (and microseconds / offset / Unix time, where the format has them) of the recording *)
Lemma delete_same_reading zone g u n u0 n0 off :
  no_stray (tokenize g) = true ->
  u + zone u = u0 + zone u0 -> (has Tf (tokenize g) = true -> n / 1000 = n0 / 1000) ->
  (has Tz (tokenize g) = true -> zone u = zone u0) -> (has Ts (tokenize g) = true -> u = u0) ->
  delete_target zone g (mkI u n off) = recorded_name zone g u0 n0.
Proof.
  intros Hs Hw Hf Hz Hu. unfold delete_target, recorded_name, to_local. cbn [i_unix i_ns].
  rewrite !encode_go_tokens by (try exact Hs; constructor). unfold encode. apply render_ext.
  apply tok_text_same; cbn [i_unix i_ns i_off]; assumption.
Qed.

(* Listing and deletion agree on the FILE for every recording, in every local zone in which time.Date
   returns an instant showing the reading it was given: the listing reports the Start time.Date gives,
   and that Start, written with any offset, makes delete name exactly the recorded file. *)
Theorem agrees_on_file_lz L g u0 n0 :
  let ts := tokenize g in
  let t0 := mkI u0 n0 (lz_at L u0) in
  no_stray ts = true -> no_path ts = true -> identifies ts = true -> enc_ranges ts t0 = true ->
  (has Tz ts = false -> decoded_unix L ts t0 + lz_at L (decoded_unix L ts t0) = u0 + lz_at L u0) ->
  exists u n, listed_start_lz L g (recorded_name (lz_at L) g u0 n0) = Some (u, n)
              /\ u = decoded_unix L ts t0 /\ n = snd (trunc_start ts t0)
              /\ forall off, delete_target (lz_at L) g (mkI u n off) = recorded_name (lz_at L) g u0 n0.
Proof.
  intros ts t0 Hs Hn Hid Hr Hw.
  exists (decoded_unix L ts t0), (snd (trunc_start ts t0)).
  unfold listed_start_lz, recorded_name. fold t0.
  rewrite (roundtrip_nopath_wall L g t0 Hs Hn Hid Hr Hw). fold ts.
  split; [reflexivity|]. split; [reflexivity|]. split; [reflexivity|].
  intros off.
  assert (Hdu : has Tz ts = true \/ has Ts ts = true -> decoded_unix L ts t0 = u0).
  { unfold decoded_unix. subst t0. cbn [i_unix i_off]. intros [E|E].
    - rewrite E. destruct (has Ts ts); lia.
    - rewrite E. reflexivity. }
  apply delete_same_reading; fold ts.
  - exact Hs.
  - destruct (has Tz ts) eqn:Hz; [rewrite (Hdu (or_introl eq_refl)); reflexivity|exact (Hw eq_refl)].
  - intros HTf. unfold trunc_start. cbn [snd]. rewrite HTf. subst t0. cbn [i_ns]. apply Z.div_mul. lia.
  - intros Hz. rewrite (Hdu (or_introl Hz)). reflexivity.
  - intros E. exact (Hdu (or_intror E)).
Qed.

(* ... and on the INSTANT whenever time.Date maps the reading back to the offset in force *)
Theorem agrees_with_listing_lz L g u0 n0 :
  let ts := tokenize g in
  let t0 := mkI u0 n0 (lz_at L u0) in
  no_stray ts = true -> no_path ts = true -> identifies ts = true -> encodable_lz L ts t0 = true ->
  exists u n, listed_start_lz L g (recorded_name (lz_at L) g u0 n0) = Some (u, n)
              /\ (u, n) = trunc_start ts t0
              /\ forall off, delete_target (lz_at L) g (mkI u n off) = recorded_name (lz_at L) g u0 n0.
Proof.
  intros ts t0 Hs Hn Hid He. destruct (encodable_lz_parts _ _ _ He) as [Hr Hz].
  pose proof (decoded_unix_encodable _ _ _ He) as Hd. fold ts t0 in Hd.
  assert (Hw : has Tz ts = false -> decoded_unix L ts t0 + lz_at L (decoded_unix L ts t0) = u0 + lz_at L u0).
  { intros _. rewrite Hd. subst t0. reflexivity. }
  destruct (agrees_on_file_lz L g u0 n0 Hs Hn Hid Hr Hw) as (u & n & Hl & Hu & Hnn & Hdel).
  exists u, n. split; [exact Hl|]. split; [|exact Hdel].
  fold ts t0 in Hu, Hnn. rewrite Hu, Hnn, Hd. unfold trunc_start. subst t0. reflexivity.
Qed.

Section ZoneTable.
  Variable B : Z.
  Variable z : zone.
  Hypothesis Hok : zone_ok B z = true.

  (* in a zone-database zone: for EVERY recording (repeated hours included) listing and deletion agree
     on the file, and the listed Start shows the same wall-clock reading as the recording *)
  Theorem agrees_on_file_zone g u0 n0 :
    let ts := tokenize g in
    let t0 := local_instant z u0 n0 in
    no_stray ts = true -> no_path ts = true -> identifies ts = true -> enc_ranges ts t0 = true ->
    exists u n, listed_start_lz (lz_of_zone z) g (recorded_name (offset_at z) g u0 n0) = Some (u, n)
                /\ u + offset_at z u = u0 + offset_at z u0 /\ n = snd (trunc_start ts t0)
                /\ forall off, delete_target (offset_at z) g (mkI u n off) = recorded_name (offset_at z) g u0 n0.
  Proof.
    intros ts t0 Hs Hn Hid Hr.
    assert (Hwall : decoded_unix (lz_of_zone z) ts t0 + offset_at z (decoded_unix (lz_of_zone z) ts t0)
                    = u0 + offset_at z u0).
    { unfold decoded_unix. subst t0. cbn [local_instant i_unix i_off lz_of_zone lz_date].
      destruct (has Ts ts); [reflexivity|]. destruct (has Tz ts).
      - replace (u0 + offset_at z u0 - offset_at z u0) with u0 by lia. reflexivity.
      - exact (zone_date_same_wall B z Hok u0). }
    destruct (agrees_on_file_lz (lz_of_zone z) g u0 n0 Hs Hn Hid Hr (fun _ => Hwall)) as (u & n & Hl & Hu & Hnn & Hdel).
    exists u, n. split; [exact Hl|]. split; [|split; [exact Hnn|exact Hdel]].
    rewrite Hu. exact Hwall.
  Qed.

  (* ... and on the instant for every recording outside the repeated hours, whatever the format *)
  Theorem agrees_with_listing_zone g u0 n0 :
    let ts := tokenize g in
    let t0 := local_instant z u0 n0 in
    no_stray ts = true -> no_path ts = true -> identifies ts = true -> enc_ranges ts t0 = true ->
    in_repeat (lookup z) u0 = false ->
    exists u n, listed_start_lz (lz_of_zone z) g (recorded_name (offset_at z) g u0 n0) = Some (u, n)
                /\ (u, n) = trunc_start ts t0
                /\ forall off, delete_target (offset_at z) g (mkI u n off) = recorded_name (offset_at z) g u0 n0.
  Proof.
    intros ts t0 Hs Hn Hid Hr Hrep.
    exact (agrees_with_listing_lz (lz_of_zone z) g u0 n0 Hs Hn Hid (encodable_zone B z Hok ts u0 n0 Hr Hrep)).
  Qed.

  (* a request names the recorded file only for the recorded instant (format precision), both outside the repeated hours *)
  Theorem only_that_instant_zone g req u0 n0 :
    let ts := tokenize g in
    no_stray ts = true -> no_path ts = true -> identifies ts = true ->
    enc_ranges ts (to_local (offset_at z) req) = true -> enc_ranges ts (local_instant z u0 n0) = true ->
    in_repeat (lookup z) (i_unix req) = false -> in_repeat (lookup z) u0 = false ->
    delete_target (offset_at z) g req = recorded_name (offset_at z) g u0 n0 ->
    trunc_start ts (to_local (offset_at z) req) = trunc_start ts (local_instant z u0 n0).
  Proof.
    intros ts Hs Hn Hid Hr1 Hr2 Hp1 Hp2 Heq. unfold delete_target, recorded_name in Heq.
    pose proof (roundtrip_nopath_lz (lz_of_zone z) g _ Hs Hn Hid
                  (encodable_zone B z Hok ts (i_unix req) (i_ns req) Hr1 Hp1)) as R1.
    pose proof (roundtrip_nopath_lz (lz_of_zone z) g _ Hs Hn Hid (encodable_zone B z Hok ts u0 n0 Hr2 Hp2)) as R2.
    unfold local_instant in R1 at 1. unfold to_local in Heq. rewrite Heq in R1.
    unfold local_instant in R2 at 1. rewrite R1 in R2. fold ts in R2.
    unfold to_local.
    change (mkI (i_unix req) (i_ns req) (offset_at z (i_unix req))) with (local_instant z (i_unix req) (i_ns req)).
    destruct (trunc_start ts (local_instant z (i_unix req) (i_ns req))), (trunc_start ts (local_instant z u0 n0)).
    cbn [fst snd] in R2. congruence.
  Qed.
End ZoneTable.

(* ---------------------------------------------------------------- the code before 555d196 *)

(* /rec/cam/%Y-%m-%d_%H-%M-%S-%f.mp4 *)
Definition g_default : list Z :=
  [47;114;101;99;47; 99;97;109; 47; 37;89;45;37;109;45;37;100;95;37;72;45;37;77;45;37;83;45;37;102; 46;109;112;52].
Definition req_plus2 : instant := mkI 1704096000 0 7200.   (* 2024-01-01T10:00:00+02:00 *)
Definition req_utc : instant := mkI 1704096000 0 0.        (* 2024-01-01T08:00:00Z *)

Theorem prefix_refuted :
  same_instant req_plus2 req_utc /\ delete_target_prefix g_default req_plus2 <> delete_target_prefix g_default req_utc
  /\ req_plus2 = instant_of_fields (mkF 2024 1 1 10 0 0 0 7200) /\ req_utc = instant_of_fields (mkF 2024 1 1 8 0 0 0 0).
Proof.
  split; [split; reflexivity|]. split; [|split; vm_compute; reflexivity].
  vm_compute. discriminate.
Qed.


(* ---------------------------------------------------------------- path_format and C26's Encode *)

(* Substituting the name first and encoding with an empty Path (what recorder, listing and delete do)
   gives the name C26's theorems speak about: Path{Path: name, Start: t}.Encode(recordPath ++ ext). *)
Lemma flat_app a b : flat (a ++ b) = flat a ++ flat b.
Proof. unfold flat. apply flat_map_app. Qed.

Lemma pass1_idem k r1 r2 i : pass1 k r2 (pass1 k r1 i) = pass1 k r1 i.
Proof.
  destruct i as [l|t]; cbn [pass1]; [reflexivity|].
  destruct (tok_eqb t k) eqn:E; cbn [pass1]; [reflexivity|]. rewrite E. reflexivity.
Qed.

Theorem path_format_encode rp ext name t :
  no_stray (tokenize rp) = true -> no37 name -> no37 ext ->
  encode_go (path_format rp ext name) [] t = encode_go (rp ++ ext) name t.
Proof.
  intros Hs Hn He.
  set (its := items_of (tokenize rp) ++ [IX ext]).
  assert (Hok : Forall item_ok its).
  { apply Forall_app. split; [apply items_of_ok; exact Hs|constructor; [exact He|constructor]]. }
  assert (Hrp : rp ++ ext = flat its).
  { unfold its. rewrite flat_app, flat_items_of, detokenize. unfold flat. cbn. now rewrite app_nil_r. }
  assert (Hrp0 : rp = flat (items_of (tokenize rp))) by (now rewrite flat_items_of, detokenize).
  assert (Hpf : path_format rp ext name = flat (map (pass1 TPath name) its)).
  { unfold path_format, pth. rewrite Hrp0 at 1. rewrite repl_items; [|reflexivity|apply items_of_ok; exact Hs].
    unfold its. rewrite map_app, flat_app. cbn [map pass1]. unfold flat at 3. cbn. now rewrite app_nil_r. }
  assert (Hok1 : Forall item_ok (map (pass1 TPath name) its)).
  { apply Forall_forall. intros i Hi. apply in_map_iff in Hi. destruct Hi as (j & <- & Hj).
    apply pass1_ok; [exact Hn|]. rewrite Forall_forall in Hok. now apply Hok. }
  unfold encode_go, ptoks. cbn [fold_left tok_text tok_src].
  change [37; 112; 97; 116; 104] with (tok_src TPath).
  rewrite Hpf, Hrp.
  rewrite (repl_items TPath [] _ eq_refl Hok1), (repl_items TPath name _ eq_refl Hok).
  rewrite map_map. rewrite (map_ext _ (pass1 TPath name)) by (intros i; apply pass1_idem).
  reflexivity.
Qed.
