(* C12, extension: proofs about Model/C12_FileReload.v *)
From Coq Require Import List ZArith Bool Lia.
Require Import MTX.Model.C12_ApiEdit MTX.Proofs.C12_ApiEdit MTX.Model.C12_FileReload.
Import ListNotations.
Local Open Scope Z_scope.

Lemma combine_fst_snd {A B} (l : list (A * B)) : combine (map fst l) (map snd l) = l.
Proof. induction l as [|[a b] r IH]; simpl; [reflexivity|]. now rewrite IH. Qed.

(* conf.Load gives the file's configuration in fresh cells; nothing that exists is touched *)
Lemma fload_spec h v h' c : fload h v = (h', c) ->
  view_of h' c = v /\ wf_root h' c /\ h' = h ++ map snd (vp v).
Proof.
  unfold fload. intros [= <- <-]. destruct v as [g d ps]. simpl. repeat split.
  - unfold view_of. simpl. f_equal.
    pose proof (combine_seq_view [] (map snd ps) (map fst ps) h ltac:(now rewrite !map_length)) as H.
    rewrite app_nil_r, map_length in H. rewrite H. apply combine_fst_snd.
  - unfold addrs. simpl. rewrite map_snd_combine_seq by now rewrite map_length. apply seq_NoDup.
  - unfold addrs. simpl. rewrite map_snd_combine_seq by now rewrite map_length.
    intros a Ha. apply in_seq in Ha. rewrite app_length, map_length. lia.
Qed.

Lemma fload_ok h v : view_of (fst (fload h v)) (snd (fload h v)) = v /\ wf_root (fst (fload h v)) (snd (fload h v)).
Proof. destruct (fload h v) as [h' c] eqn:E. destruct (fload_spec _ _ _ _ E) as (Hv & Hwf & _). auto. Qed.

Ltac use_fload X v :=
  destruct (fload_ok X v) as [Hv Hwf']; unfold fload in Hv, Hwf'; simpl fst in Hv, Hwf'; simpl snd in Hv, Hwf';
  unfold fload; simpl.

Section WithOracle.
  Variable valid : view -> bool.

  Lemma hstep_refines st o st' out : wf_opt st -> hstep valid st o = (st', out) ->
    wf_opt st' /\ (abs_opt st', out) = hspec_step valid (abs_opt st) o.
  Proof.
    intros Hwf. destruct st as [w|]; simpl.
    2:{ intros [= <- <-]. split; [exact I|reflexivity]. }
    destruct o as [e started|[v started|]].
    - destruct (edit valid Deep w e) as [w' out0] eqn:E. intros [= <- <-].
      destruct (edit_refines valid _ _ _ _ Hwf E) as [Hwf' Hs]. rewrite <- Hs.
      destruct out0; [destruct started|..]; simpl; auto.
    - use_fload (mem w) v.
      destruct started; intros [= <- <-]; simpl; [|auto]. split; [exact Hwf'|]. unfold abs. simpl. now rewrite Hv.
    - intros [= <- <-]. simpl. auto.
  Qed.

  Lemma hrun_refines ops : forall st st' outs, wf_opt st -> hrun valid st ops = (st', outs) ->
    wf_opt st' /\ (abs_opt st', outs) = hspec_run valid (abs_opt st) ops.
  Proof.
    induction ops as [|o r IH]; intros st st' outs Hwf; simpl.
    - intros [= <- <-]. auto.
    - destruct (hstep valid st o) as [st1 out] eqn:E1. destruct (hrun valid st1 r) as [st2 outs2] eqn:E2.
      intros [= <- <-]. destruct (hstep_refines _ _ _ _ Hwf E1) as [Hwf1 H1].
      destruct (IH _ _ _ Hwf1 E2) as [Hwf2 H2]. split; [exact Hwf2|].
      rewrite <- H1. rewrite <- H2. reflexivity.
  Qed.

  Lemma hrun_app a : forall st b,
    hrun valid st (a ++ b) =
    let '(st1, o1) := hrun valid st a in let '(st2, o2) := hrun valid st1 b in (st2, o1 ++ o2).
  Proof.
    induction a as [|o r IH]; intros st b; simpl.
    - destruct (hrun valid st b); reflexivity.
    - destruct (hstep valid st o) as [st1 out]. rewrite IH. destruct (hrun valid st1 r) as [st2 o2].
      destruct (hrun valid st2 b); reflexivity.
  Qed.

  (* after a successful file reload the live configuration is the file's *)
  Lemma file_reload_replaces w v : wf w ->
    exists w', hstep valid (Some w) (HFile (FLoaded v true)) = (Some w', HReloaded) /\ abs w' = v /\ wf w'.
  Proof.
    intros Hwf. use_fload (mem w) v.
    eexists. split; [reflexivity|]. split; [exact Hv|exact Hwf'].
  Qed.

  (* ... whatever happened before: API edits are not persisted *)
  Lemma file_wins hops w st' outs v : wf w ->
    hrun valid (Some w) (hops ++ [HFile (FLoaded v true)]) = (st', outs) ->
    match st' with
    | Some w' => abs w' = v /\ wf w' /\ exists outs0, outs = outs0 ++ [HReloaded]
    | None => exists outs0, outs = outs0 ++ [HDead]
    end.
  Proof.
    intros Hwf. rewrite hrun_app. destruct (hrun valid (Some w) hops) as [st1 o1] eqn:E1.
    destruct (hrun_refines hops (Some w) _ _ Hwf E1) as [Hwf1 _]. destruct st1 as [w1|]; simpl.
    - use_fload (mem w1) v.
      intros [= <- <-]. split; [exact Hv|]. split; [exact Hwf'|]. eauto.
    - intros [= <- <-]. eauto.
  Qed.

  (* an edit after a file reload starts from the file's configuration *)
  Lemma edit_after_file w v o st' out : wf w ->
    hrun valid (Some w) [HFile (FLoaded v true); HApi o true] = (st', [HReloaded; HAnswer out]) ->
    exists w', st' = Some w' /\ (abs w', out) = spec_step valid v o.
  Proof.
    intros Hwf H. destruct (hrun_refines _ (Some w) _ _ Hwf H) as [_ Hs]. simpl in Hs.
    destruct (spec_step valid v o) as [v' out'] eqn:Es. destruct st' as [w'|].
    - exists w'. split; [reflexivity|]. destruct out'; simpl in Hs; injection Hs as -> ->; reflexivity.
    - destruct out'; simpl in Hs; discriminate.
  Qed.

  (* a file that does not load: Core.run leaves its loop; nothing is served afterwards *)
  Lemma failed_file_reload st hops :
    hrun valid st (HFile FBroken :: hops) =
    (None, (match st with Some _ => HExit | None => HDead end) :: map (fun _ => HDead) hops).
  Proof.
    assert (Hdead : forall l, hrun valid None l = (None, map (fun _ => HDead) l)).
    { induction l as [|o r IH]; simpl; [reflexivity|]. now rewrite IH. }
    destruct st; simpl; rewrite Hdead; reflexivity.
  Qed.

  (* so does an ACCEPTED API edit (answered OK) or a valid file whose resources cannot be created *)
  Lemma failed_start w o w' : edit valid Deep w o = (w', OOk) ->
    hstep valid (Some w) (HApi o false) = (None, HAnswer OOk).
  Proof. intros E. simpl. rewrite E. reflexivity. Qed.

  (* ---- the request loop with reads and file reloads ---------------------------------------------------------------- *)
  Lemma fcstep_refines s l s' evs : cinv s -> fcstep valid s l = Some (s', evs) ->
    cinv s' /\
    evs = fspec_events valid (view_of (mem (cw s)) (published s)) [l] /\
    view_of (mem (cw s')) (published s') =
      match l with
      | FL (LEdit o) => fst (spec_step valid (view_of (mem (cw s)) (published s)) o)
      | FLFile v => v
      | _ => view_of (mem (cw s)) (published s)
      end.
  Proof.
    intros Hinv. destruct l as [l|v]; simpl.
    - intros H. destruct (cstep_refines valid _ _ _ _ Hinv H) as (Hi & He & Hv). split; [exact Hi|].
      split; [|exact Hv]. rewrite He. destruct l; simpl; reflexivity.
    - destruct (pending s) eqn:Ep; [discriminate|].
      use_fload (mem (cw s)) v.
      intros [= <- <-]. simpl. split; [|split; [reflexivity|exact Hv]].
      unfold cinv, wf. simpl. auto.
  Qed.

  Lemma fspec_events_cons v l r :
    fspec_events valid v (l :: r) =
    fspec_events valid v [l] ++
    fspec_events valid (match l with
                        | FL (LEdit o) => fst (spec_step valid v o)
                        | FLFile fv => fv
                        | _ => v
                        end) r.
  Proof.
    destruct l as [[o| |]|fv]; simpl; try reflexivity. destruct (spec_step valid v o). reflexivity.
  Qed.

  Lemma fcrun_refines ls : forall s s' evs, cinv s -> fcrun valid s ls = Some (s', evs) ->
    evs = fspec_events valid (view_of (mem (cw s)) (published s)) ls.
  Proof.
    induction ls as [|l r IH]; intros s s' evs Hinv; simpl fcrun.
    - now intros [= <- <-].
    - destruct (fcstep valid s l) as [[s1 e1]|] eqn:E1; [|discriminate].
      destruct (fcrun valid s1 r) as [[s2 e2]|] eqn:E2; [|discriminate].
      intros [= <- <-]. destruct (fcstep_refines _ _ _ _ Hinv E1) as (Hinv1 & He1 & Hv1).
      rewrite fspec_events_cons, <- He1. f_equal. rewrite <- Hv1. eapply IH; eauto.
  Qed.

  Lemma freads_from_load v ls s' evs :
    fcrun valid (core_init (load v)) ls = Some (s', evs) -> evs = fspec_events valid v ls.
  Proof.
    intros H. pose proof (fcrun_refines ls _ _ _ (cinv_init _ (load_wf v)) H) as He.
    change (view_of (mem (cw (core_init (load v)))) (published (core_init (load v)))) with (abs (load v)) in He.
    now rewrite load_abs in He.
  Qed.
End WithOracle.
