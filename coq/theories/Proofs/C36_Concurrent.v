(* Proofs for Model/C36_Concurrent.v: with a per-request buffer every interleaving of any number of scrapes gives every
   request the body it would get alone; the shared buffer under RLock does not. *)
From Coq Require Import String.
From Coq Require Import List Arith Bool ZArith Lia.
Require Import MTX.Model.C36_Metrics MTX.Model.C36_Sections MTX.Model.C36_Concurrent.
Require Import MTX.Proofs.C36_Metrics MTX.Proofs.C36_Sections.
Import ListNotations.
Import CC.

(* ---------- lists ---------- *)
Lemma nth_error_upd : forall A (l : list A) i j x,
  nth_error (upd j x l) i = if Nat.eqb i j then match nth_error l j with Some _ => Some x | None => None end
                            else nth_error l i.
Proof.
  induction l as [|h t IH]; intros i j x.
  - destruct i, j; cbn; try reflexivity. destruct (Nat.eqb i j); reflexivity.
  - destruct j as [|j]; destruct i as [|i]; cbn; try reflexivity. apply IH.
Qed.

Lemma nth_error_map' : forall A B (f : A -> B) l i, nth_error (map f l) i = option_map f (nth_error l i).
Proof. induction l as [|h t IH]; intros [|i]; cbn; auto. Qed.

Lemma count_occ_snoc : forall (l : list nat) j i,
  count_occ Nat.eq_dec (l ++ [j]) i = count_occ Nat.eq_dec l i + (if Nat.eqb i j then 1 else 0).
Proof.
  intros l j i. rewrite count_occ_app. cbn. destruct (Nat.eq_dec j i) as [E|E].
  - subst. rewrite Nat.eqb_refl. reflexivity.
  - destruct (Nat.eqb i j) eqn:E2; [apply Nat.eqb_eq in E2; congruence|reflexivity].
Qed.

(* ---------- one request alone ---------- *)
Definition is_lock (x : instr) : Prop := x = IRLock \/ x = IRUnlock.

Definition LInv (c : list bytes) (r : local) : Prop :=
  (out r = None /\ lbuf r = [] /\ exists p, Forall is_lock p /\ pc r = p ++ IReset :: map IAppend c ++ [IFlush])
  \/ (out r = None /\ exists pre post, c = pre ++ post /\ pc r = map IAppend post ++ [IFlush] /\ lbuf r = concat pre)
  \/ (pc r = [] /\ out r = Some (concat c)).

Lemma LInv_init : forall c, LInv c (linit PerRequest c).
Proof.
  intros c. left. cbn. split; [reflexivity|split; [reflexivity|]]. exists [IRLock; IRUnlock]. split; [|reflexivity].
  constructor; [left; reflexivity|constructor; [right; reflexivity|constructor]].
Qed.

Lemma LInv_lstep : forall c r, LInv c r -> LInv c (lstep r).
Proof.
  intros c r [(Ho & Hb & p & Hp & Hpc)|[(Ho & pre & post & Hc & Hpc & Hb)|(Hpc & Ho)]]; unfold lstep; rewrite Hpc.
  - destruct p as [|x p].
    + cbn. right; left. cbn. split; [exact Ho|]. exists [], c. repeat split.
    + cbn [app]. inversion Hp as [|? ? Hx Hp']; subst. left.
      destruct Hx as [-> | ->]; cbn; (split; [exact Ho|split; [exact Hb|exists p; split; [exact Hp'|reflexivity]]]).
  - destruct post as [|x post].
    + cbn. right; right. cbn. split; [reflexivity|]. rewrite Hb, Hc, app_nil_r. reflexivity.
    + cbn. right; left. cbn. split; [exact Ho|]. exists (pre ++ [x]), post. repeat split.
      * rewrite Hc, <- app_assoc. reflexivity.
      * rewrite Hb, concat_app. cbn. rewrite app_nil_r. reflexivity.
  - right; right. split; assumption.
Qed.

Lemma LInv_iter : forall c k, LInv c (Nat.iter k lstep (linit PerRequest c)).
Proof.
  intros c k. induction k as [|k IH]; [apply LInv_init|].
  change (Nat.iter (S k) lstep (linit PerRequest c)) with (lstep (Nat.iter k lstep (linit PerRequest c))).
  apply LInv_lstep, IH.
Qed.

Lemma lstep_pc_length : forall r, length (pc (lstep r)) = pred (length (pc r)).
Proof.
  intros r. unfold lstep. destruct (pc r) as [|ins rest] eqn:E; [rewrite E; reflexivity|].
  destruct ins; reflexivity.
Qed.

Lemma iter_pc_length : forall k r, length (pc (Nat.iter k lstep r)) = length (pc r) - k.
Proof.
  induction k as [|k IH]; intros r; [cbn; lia|].
  change (Nat.iter (S k) lstep r) with (lstep (Nat.iter k lstep r)). rewrite lstep_pc_length, IH. lia.
Qed.

(* the response of a request running alone is absent or the whole body; after its whole program it is the body *)
Lemma alone_safe : forall c k o, out (Nat.iter k lstep (linit PerRequest c)) = Some o -> o = concat c.
Proof.
  intros c k o H. destruct (LInv_iter c k) as [(Ho & _)|[(Ho & _)|(_ & Ho)]]; congruence.
Qed.

Lemma alone_done : forall c k, length c + 4 <= k -> out (Nat.iter k lstep (linit PerRequest c)) = Some (concat c).
Proof.
  intros c k Hk. pose proof (iter_pc_length k (linit PerRequest c)) as HL.
  assert (E : length (pc (linit PerRequest c)) = length c + 4).
  { cbn. rewrite app_length, map_length. cbn. lia. }
  rewrite E in HL. clear E.
  destruct (LInv_iter c k) as [(_ & _ & p & _ & Hpc)|[(_ & pre & post & _ & Hpc & _)|(_ & Ho)]]; [| |exact Ho].
  - rewrite Hpc in HL. rewrite app_length in HL. cbn [length] in HL. lia.
  - rewrite Hpc in HL. rewrite app_length in HL. cbn [length] in HL. lia.
Qed.

(* ---------- all requests together: PerRequest requests do not see one another ---------- *)
Lemma exec_per_request_local : forall ins s s0 r rest,
  snd (exec PerRequest ins s r rest) = snd (exec PerRequest ins s0 r rest).
Proof. intros [] s s0 r rest; reflexivity. Qed.

Lemma step_per_request_locals : forall g j,
  locals (step PerRequest g j) = match nth_error (locals g) j with
                                  | None => locals g
                                  | Some r => upd j (lstep r) (locals g)
                                  end.
Proof.
  intros g j. unfold step. destruct (nth_error (locals g) j) as [r|] eqn:E; [|reflexivity].
  unfold lstep. destruct (pc r) as [|ins rest] eqn:Epc.
  - (* returned already: nothing changes *)
    clear Epc. revert j E. generalize (locals g) as l. induction l as [|h t IH]; intros [|j] E; cbn in *; try discriminate.
    + congruence.
    + f_equal. apply IH, E.
  - destruct (exec PerRequest ins (sh g) r rest) as [s' r'] eqn:Ex. cbn.
    rewrite (exec_per_request_local ins _ (sh g)), Ex. reflexivity.
Qed.

Lemma independent : forall cs sched i,
  nth_error (locals (run PerRequest sched cs)) i
  = option_map (fun c => Nat.iter (count_occ Nat.eq_dec sched i) lstep (linit PerRequest c)) (nth_error cs i).
Proof.
  intros cs sched. induction sched as [|j sched IH] using rev_ind; intros i.
  - cbn. apply nth_error_map'.
  - unfold run in *. rewrite fold_left_app. cbn [fold_left]. rewrite step_per_request_locals, count_occ_snoc.
    set (g := fold_left (step PerRequest) sched (init PerRequest cs)) in *.
    destruct (nth_error (locals g) j) as [r|] eqn:E.
    + rewrite nth_error_upd. destruct (Nat.eqb i j) eqn:Eij.
      * apply Nat.eqb_eq in Eij. subst i. rewrite E. rewrite IH in E.
        destruct (nth_error cs j) as [c|]; [|discriminate]. cbn in *. injection E as <-.
        rewrite Nat.add_1_r. reflexivity.
      * rewrite IH, Nat.add_0_r. reflexivity.
    + destruct (Nat.eqb i j) eqn:Eij.
      * apply Nat.eqb_eq in Eij. subst i. rewrite E. rewrite IH in E.
        destruct (nth_error cs j) as [c|]; [discriminate|reflexivity].
      * rewrite IH, Nat.add_0_r. reflexivity.
Qed.

Lemma response_nth : forall cs sched i,
  nth_error (responses PerRequest cs sched) i
  = option_map (fun c => out (Nat.iter (count_occ Nat.eq_dec sched i) lstep (linit PerRequest c))) (nth_error cs i).
Proof.
  intros cs sched i. unfold responses. rewrite nth_error_map', independent.
  destruct (nth_error cs i); reflexivity.
Qed.

(* SAFETY: whatever the schedule, whatever the other requests are, at every moment: a response that has been written
   is the body of that request alone *)
Theorem per_request_safe : forall cs sched i o,
  nth_error (responses PerRequest cs sched) i = Some (Some o) ->
  exists c, nth_error cs i = Some c /\ o = concat c.
Proof.
  intros cs sched i o H. rewrite response_nth in H. destruct (nth_error cs i) as [c|]; [|discriminate].
  cbn in H. injection H as H. exists c. split; [reflexivity|]. eapply alone_safe, H.
Qed.

(* ... and a request that has been given its steps has received it (nothing another request does can hold it up) *)
Theorem per_request_done : forall cs sched i c,
  nth_error cs i = Some c -> length c + 4 <= count_occ Nat.eq_dec sched i ->
  nth_error (responses PerRequest cs sched) i = Some (Some (concat c)).
Proof.
  intros cs sched i c Hc Hk. rewrite response_nth, Hc. cbn. f_equal. apply alone_done, Hk.
Qed.

(* the completing schedule gives every request its steps *)
Lemma count_occ_repeat : forall i j n, count_occ Nat.eq_dec (repeat j n) i = if Nat.eqb i j then n else 0.
Proof.
  intros i j n. induction n as [|n IH]; cbn; [destruct (Nat.eqb i j); reflexivity|].
  destruct (Nat.eq_dec j i) as [E|E].
  - subst. rewrite Nat.eqb_refl in *. lia.
  - destruct (Nat.eqb i j) eqn:E2; [apply Nat.eqb_eq in E2; congruence|exact IH].
Qed.

Lemma count_occ_flat_map_ge : forall (f : nat -> nat) l i, In i l ->
  f i <= count_occ Nat.eq_dec (flat_map (fun j => repeat j (f j)) l) i.
Proof.
  intros f l i. induction l as [|h t IH]; intros Hin; [destruct Hin|].
  cbn [flat_map]. rewrite count_occ_app, count_occ_repeat. destruct Hin as [->|Hin].
  - rewrite Nat.eqb_refl. lia.
  - specialize (IH Hin). lia.
Qed.

Lemma finish_enough : forall cs i c, nth_error cs i = Some c ->
  length c + 4 <= count_occ Nat.eq_dec (finish_sched cs) i.
Proof.
  intros cs i c Hc. unfold finish_sched.
  pose proof (count_occ_flat_map_ge (fun j => length (nth j cs []) + 5) (seq 0 (length cs)) i) as H.
  cbn beta in H. assert (Hlt : i < length cs) by (apply nth_error_Some; congruence).
  specialize (H ltac:(apply in_seq; lia)). rewrite (nth_error_nth cs i [] Hc) in H. lia.
Qed.

Lemma nth_error_ext' : forall A (l1 l2 : list A), (forall i, nth_error l1 i = nth_error l2 i) -> l1 = l2.
Proof.
  induction l1 as [|a l1 IH]; intros [|b l2] H.
  - reflexivity.
  - specialize (H 0). discriminate.
  - specialize (H 0). discriminate.
  - pose proof (H 0) as H0. cbn in H0. injection H0 as ->. f_equal. apply IH. intros i. exact (H (S i)).
Qed.

Theorem per_request_all : forall cs sched,
  responses PerRequest cs (sched ++ finish_sched cs) = map (fun c => Some (concat c)) cs.
Proof.
  intros cs sched. apply nth_error_ext'. intros i. rewrite nth_error_map'.
  destruct (nth_error cs i) as [c|] eqn:Hc.
  - change (list (list Z)) with (list bytes). rewrite Hc. cbn [option_map]. apply per_request_done; [exact Hc|]. rewrite count_occ_app. pose proof (finish_enough cs i c Hc). lia.
  - change (list (list Z)) with (list bytes). rewrite response_nth, Hc. reflexivity.
Qed.

(* ---------- the handler ---------- *)
Lemma scrape_chunks_body : forall st q, concat (scrape_chunks st q) = body_of st q.
Proof. intros st q. unfold scrape_chunks, body_of, render. rewrite flat_map_concat_map. reflexivity. Qed.

Theorem overlapped_sequential : forall st qs sched,
  overlapped_bodies PerRequest st qs sched = map (fun q => Some (body_of st q)) qs.
Proof.
  intros st qs sched. unfold overlapped_bodies. rewrite per_request_all, map_map.
  apply map_ext. intros q. rewrite scrape_chunks_body. reflexivity.
Qed.

Theorem overlapped_faithful : forall st qs sched i q body, wf_state st ->
  nth_error qs i = Some q -> nth_error (overlapped_bodies PerRequest st qs sched) i = Some (Some body) ->
  body = body_of st q /\ parse body = Some (expected_samples st q).
Proof.
  intros st qs sched i q body Hwf Hq Hb. rewrite overlapped_sequential, nth_error_map', Hq in Hb.
  cbn in Hb. injection Hb as <-. split; [reflexivity|]. apply faithful, Hwf.
Qed.

(* the same at every moment of any schedule, for any cut of the bodies into pieces *)
Theorem overlapped_safe : forall st qs (cs : list (list bytes)) sched i q body, wf_state st ->
  Forall2 (fun q c => concat c = body_of st q) qs cs ->
  nth_error qs i = Some q -> nth_error (responses PerRequest cs sched) i = Some (Some body) ->
  body = body_of st q /\ parse body = Some (expected_samples st q).
Proof.
  intros st qs cs sched i q body Hwf HF Hq Hb. apply per_request_safe in Hb. destruct Hb as (c & Hc & ->).
  assert (E : concat c = body_of st q).
  { clear Hwf. revert i Hq Hc. induction HF as [|q0 c0 qs' cs' H0 HF IH]; intros [|i] Hq Hc; cbn in *; try discriminate.
    - congruence.
    - eapply IH; eassumption. }
  rewrite E. split; [reflexivity|]. apply faithful, Hwf.
Qed.

(* ---------- the shared buffer under RLock: refuted ---------- *)
Local Open Scope string_scope.
Definition wit_path (name : bytes) (inb : Z) : entity :=
  {| e_str := [(bs "Name", name)]; e_num := [(bs "Ready", 1%Z); (bs "InboundBytes", inb)]; e_flt := []; e_readers := [] |}.
Definition wit_st : state := mk_state (Some [wit_path (bs "cam1") 7%Z; wit_path (bs "cam2") 9%Z]) [] [].
Definition wit_qs : list query := [[(bs "type", bs "paths")]; [(bs "type", bs "paths"); (bs "path", bs "cam2")]].
(* request 0 takes the read lock, resets the buffer and writes its first lines; request 1 takes the read lock too
   (it is shared) and resets the same buffer; both then run to their end *)
Definition wit_sched : list nat := [0; 0; 0; 0; 0; 1; 1].

Lemma wit_wf : wf_state wit_st.
Proof. apply wf_stateb_wf. vm_compute. reflexivity. Qed.

Theorem shared_rlock_refuted :
  exists st qs sched i q body ss, wf_state st /\ nth_error qs i = Some q /\
    nth_error (overlapped_bodies SharedRLock st qs sched) i = Some (Some body) /\
    body <> body_of st q /\ parse body = Some ss /\ length ss <> length (expected_samples st q).
Proof.
  exists wit_st, wit_qs, wit_sched, 1, [(bs "type", bs "paths"); (bs "path", bs "cam2")].
  eexists. eexists. split; [exact wit_wf|]. split; [reflexivity|].
  split; [vm_compute; reflexivity|]. split; [|split; [vm_compute; reflexivity|vm_compute; discriminate]].
  intros H. apply (f_equal (@length Z)) in H. vm_compute in H. discriminate.
Qed.

(* one after the other the shared buffer is invisible: why the package's tests (and any sequential scrape) pass *)
Lemma shared_rlock_sequential_example :
  overlapped_bodies SharedRLock wit_st wit_qs [] = map (fun q => Some (body_of wit_st q)) wit_qs.
Proof. vm_compute. reflexivity. Qed.

(* non-vacuity of the theorems above: two different scrapes, interleaved line by line, both non-empty *)
Lemma overlapped_example :
  overlapped_bodies PerRequest wit_st wit_qs [0; 1; 0; 1; 0; 1; 0; 1; 0; 1; 1; 1; 0] = map (fun q => Some (body_of wit_st q)) wit_qs
  /\ map (fun q => length (expected_samples wit_st q)) wit_qs = [14; 7]
  /\ Forall2 (fun q c => concat c = body_of wit_st q) wit_qs (map (scrape_chunks wit_st) wit_qs).
Proof.
  split; [vm_compute; reflexivity|]. split; [vm_compute; reflexivity|].
  repeat constructor; apply scrape_chunks_body.
Qed.
