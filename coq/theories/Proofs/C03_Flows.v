(* The flows the servers use (generated table MTXGen.C03_Flows) are all well-formed; lifted through flow_sound. *)
From Coq Require Import List ZArith Bool String.
Require Import MTX.Model.C14_PathConf MTX.Model.C03_Auth MTX.Proofs.C03_Auth MTXGen.C03_Flows.
Import ListNotations.
Local Open Scope string_scope.

Definition mem_str (s : string) (l : list string) : bool := existsb (String.eqb s) l.

Definition site_ok (sf : string * flow) : bool := flow_ok (snd sf) || mem_str (fst sf) exempt.

Lemma flows_ok : forallb site_ok sites = true /\ unclassified = [] /\ forallb snd stream_sites = true.
Proof. vm_compute. repeat split. Qed.

(* the exemptions are exactly these (a new one has to be written here, by hand) *)
Definition exempt_expected : list string := [
  "internal/servers/hls/muxer.go:runInner:AddReader";
  "internal/servers/hls/session.go:initialize:AddReader[s.isCDN]";
  "internal/staticsources/handler.go:AddReader:AddReader";
  "internal/staticsources/rpicamera/source_arm_.go:waitForPrimary:AddReader"
].
Definition name_assumptions_expected : list string := ["internal/servers/rtsp: s.rsession.Path()[1:] = ctx.Path"].

Definition incl_str (a b : list string) : bool := forallb (fun s => mem_str s b) a.

Lemma exempt_pinned :
  incl_str exempt exempt_expected = true /\ incl_str name_assumptions name_assumptions_expected = true.
Proof. vm_compute. split; reflexivity. Qed.

Lemma mem_str_In s l : mem_str s l = true -> In s l.
Proof.
  unfold mem_str. intros H. apply existsb_exists in H as [x [Hin Heq]]. apply String.eqb_eq in Heq. subst x. exact Hin.
Qed.

Theorem servers_sound (Cr Ip : Type) (m : str -> str -> option (list str)) (auth : bool -> str -> Cr -> Ip -> bool)
        site f (e : env Cr Ip) cs0 rl k n :
  In (site, f) sites -> ~ In site exempt ->
  In (Attached k n) (flow_events m auth f e cs0 rl) ->
  n = e_n1 e /\
  auth (kind_publish k) n (e_cr1 e) (e_ip1 e) = true /\
  (exists key c g, resolve m (last rl cs0) n = Found key c g /\
     (two_step f = true -> kind_publish k = true -> exists key0 g0, resolve m cs0 n = Found key0 c g0)).
Proof.
  intros Hin Hnex Hatt. destruct flows_ok as [Hall _].
  rewrite forallb_forall in Hall. specialize (Hall _ Hin). unfold site_ok in Hall. cbn [fst snd] in Hall.
  apply orb_true_iff in Hall as [Hok|Hex].
  - eapply flow_sound; eassumption.
  - exfalso. apply Hnex. apply mem_str_In. exact Hex.
Qed.

(* coverage of the table: every protocol server has its reader flow, every ingesting one its publisher flow *)
Definition flow_kind (f : flow) : option kind :=
  match f with FSingle k _ _ => Some k | FTwoStep k _ _ _ _ => Some k | FFindOnly => None end.

Definition has (dir : string) (k : kind) : bool :=
  existsb (fun sf => String.prefix dir (fst sf) && negb (mem_str (fst sf) exempt)
                     && match flow_kind (snd sf) with Some k' => kind_eqb k k' | None => false end) sites.

Lemma table_covers :
  forallb (fun d => has d KReader) ["internal/servers/rtsp/"; "internal/servers/rtmp/"; "internal/servers/srt/";
                                    "internal/servers/webrtc/"; "internal/servers/hls/"; "internal/servers/moq/"] = true /\
  forallb (fun d => has d KPublisher) ["internal/servers/rtsp/"; "internal/servers/rtmp/"; "internal/servers/srt/";
                                       "internal/servers/webrtc/"; "internal/servers/moq/"] = true /\
  has "internal/servers/rtsp/" KDescribe = true /\
  In ("internal/servers/rtmp/conn.go:runPublish:AddPublisher", FTwoStep KPublisher true true true true) sites.
Proof. vm_compute. repeat split. tauto. Qed.
