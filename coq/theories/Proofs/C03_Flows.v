(* The flows the servers use (generated table MTXGen.C03_Flows) are all well-formed; lifted through flow_sound. *)
From Coq Require Import List ZArith Bool String.
Require Import MTX.Model.C14_PathConf MTX.Model.C03_Auth MTX.Model.C03_Origin MTX.Proofs.C03_Auth MTX.Proofs.C03_Origin
               MTXGen.C03_Flows.
Import ListNotations.
Local Open Scope string_scope.

Definition mem_str (s : string) (l : list string) : bool := existsb (String.eqb s) l.

Definition site_ok (sf : string * flow) : bool := flow_ok (snd sf) || mem_str (fst sf) exempt.

Lemma flows_ok : forallb site_ok sites = true /\ unclassified = [] /\ forallb snd stream_sites = true.
Proof. vm_compute. repeat split. Qed.

(* the exemptions are exactly these (a new one has to be written here, by hand) *)
Definition exempt_expected : list string := [
  "internal/servers/hls/muxer.go:runInner:AddReader";
  "internal/servers/hls/session.go:initialize:AddReader[s.isCDN]";
  "internal/staticsources/handler.go:AddReader:AddReader";
  "internal/staticsources/rpicamera/source_arm_.go:waitForPrimary:AddReader"
].
Definition name_assumptions_expected : list string := ["internal/servers/rtsp: s.rsession.Path()[1:] = ctx.Path"].

Definition incl_str (a b : list string) : bool := forallb (fun s => mem_str s b) a.

Lemma exempt_pinned :
  incl_str exempt exempt_expected = true /\ incl_str name_assumptions name_assumptions_expected = true.
Proof. vm_compute. split; reflexivity. Qed.

Lemma mem_str_In s l : mem_str s l = true -> In s l.
Proof.
  unfold mem_str. intros H. apply existsb_exists in H as [x [Hin Heq]]. apply String.eqb_eq in Heq. subst x. exact Hin.
Qed.

Theorem servers_sound (Cr Ip : Type) (m : str -> str -> option (list str)) (auth : bool -> str -> Cr -> Ip -> bool)
        site f (e : env Cr Ip) cs0 rl k n :
  In (site, f) sites -> ~ In site exempt ->
  In (Attached k n) (flow_events m auth f e cs0 rl) ->
  n = e_n1 e /\
  auth (kind_publish k) n (e_cr1 e) (e_ip1 e) = true /\
  (exists key c g, resolve m (last rl cs0) n = Found key c g /\
     (two_step f = true -> kind_publish k = true -> exists key0 g0, resolve m cs0 n = Found key0 c g0)).
Proof.
  intros Hin Hnex Hatt. destruct flows_ok as [Hall _].
  rewrite forallb_forall in Hall. specialize (Hall _ Hin). unfold site_ok in Hall. cbn [fst snd] in Hall.
  apply orb_true_iff in Hall as [Hok|Hex].
  - eapply flow_sound; eassumption.
  - exfalso. apply Hnex. apply mem_str_In. exact Hex.
Qed.

(* coverage of the table: every protocol server has its reader flow, every ingesting one its publisher flow *)
Definition flow_kind (f : flow) : option kind :=
  match f with FSingle k _ _ => Some k | FTwoStep k _ _ _ _ => Some k | FFindOnly => None end.

Definition has (dir : string) (k : kind) : bool :=
  existsb (fun sf => String.prefix dir (fst sf) && negb (mem_str (fst sf) exempt)
                     && match flow_kind (snd sf) with Some k' => kind_eqb k k' | None => false end) sites.

Lemma table_covers :
  forallb (fun d => has d KReader) ["internal/servers/rtsp/"; "internal/servers/rtmp/"; "internal/servers/srt/";
                                    "internal/servers/webrtc/"; "internal/servers/hls/"; "internal/servers/moq/"] = true /\
  forallb (fun d => has d KPublisher) ["internal/servers/rtsp/"; "internal/servers/rtmp/"; "internal/servers/srt/";
                                       "internal/servers/webrtc/"; "internal/servers/moq/"] = true /\
  has "internal/servers/rtsp/" KDescribe = true /\
  In ("internal/servers/rtmp/conn.go:runPublish:AddPublisher", FTwoStep KPublisher true true true true) sites.
Proof. vm_compute. repeat split. tauto. Qed.

(* ---- requester identity: which expression supplies AccessRequest.IP at the authenticating call of every site ---- *)

Fixpoint assoc_str {A : Type} (l : list (string * A)) (k : string) : option A :=
  match l with
  | [] => None
  | (k', v) :: r => if String.eqb k' k then Some v else assoc_str r k
  end.

(* the call of a site's flow that authenticates: the FindPathConf of a two-step flow, else the call itself *)
Definition auth_site (sf : string * flow) : string :=
  match snd sf with
  | FTwoStep _ _ _ _ _ => match assoc_str first_steps (fst sf) with Some f => f | None => "" end
  | _ => fst sf
  end.

Definition ident_of (sf : string * flow) : option (carrier * ipsrc) := assoc_str ident_sites (auth_site sf).

Definition ident_site_ok (sf : string * flow) : bool :=
  mem_str (fst sf) exempt || match ident_of sf with Some (c, s) => ip_ok c s | None => false end.

Definition carrier_eqb (a b : carrier) : bool :=
  match a, b with CHttp, CHttp | CTcp, CTcp | CDirect, CDirect => true | _, _ => false end.

(* the carrier the translator must find for the sites of each server (a site classified under another carrier
   would be held to the wrong source) *)
Definition expected_carrier (id : string) : option carrier :=
  if String.prefix "internal/servers/hls/" id || String.prefix "internal/servers/webrtc/" id
     || String.prefix "internal/servers/moq/http_server.go" id then Some CHttp
  else if String.prefix "internal/servers/rtsp/" id || String.prefix "internal/servers/rtmp/" id then Some CTcp
  else if String.prefix "internal/servers/srt/" id || String.prefix "internal/servers/moq/session.go" id then Some CDirect
  else None.

Definition carrier_as_expected (x : string * (carrier * ipsrc)) : bool :=
  match expected_carrier (fst x) with Some c => carrier_eqb c (fst (snd x)) | None => false end.

(* the one engine that may keep gin's default (trust every peer): the HTTP/3 WebTransport router of MoQ, whose handler
   (onRequestHTTPS3) reads neither ClientIP nor a forwarding header; its sessions use the QUIC peer (ident_sites) *)
Definition engines_default_expected : list string := ["internal/servers/moq/http_server.go:initialize:routerHTTP3"].

Definition engine_ok (e : string * bool) : bool := snd e || mem_str (fst e) engines_default_expected.

Lemma ident_ok :
  forallb ident_site_ok sites = true /\
  forallb (fun x => ip_ok (fst (snd x)) (snd (snd x))) ident_sites = true /\
  forallb carrier_as_expected ident_sites = true /\
  forallb engine_ok gin_engines = true /\
  forallb (fun d => existsb (fun e => String.prefix d (fst e) && snd e) gin_engines)
          ["internal/servers/hls/"; "internal/servers/webrtc/"; "internal/servers/moq/"] = true.
Proof. vm_compute. repeat split. Qed.

(* hence, for every non-exempt call site of the current source, with the wire request w feeding its authenticating
   call: what gets attached was admitted for the address of the host the request is attributable to *)
Theorem servers_origin_sound (Cr : Type) (m : str -> str -> option (list str)) (auth : bool -> str -> Cr -> list Z -> bool)
        site f car src (e : env Cr (list Z)) cs0 rl k n tr parse other w who :
  In (site, f) sites -> ~ In site exempt ->
  ident_of (site, f) = Some (car, src) ->
  attributable car tr parse w who ->
  e_ip1 e = site_ip car src tr parse other w ->
  In (Attached k n) (flow_events m auth f e cs0 rl) ->
  n = e_n1 e /\ auth (kind_publish k) n (e_cr1 e) who = true.
Proof.
  intros Hin Hnex Hid Hat He Hatt.
  destruct flows_ok as [Hall _]. destruct ident_ok as [Hidall _].
  rewrite forallb_forall in Hall, Hidall. specialize (Hall _ Hin). specialize (Hidall _ Hin).
  unfold site_ok in Hall. unfold ident_site_ok in Hidall. cbn [fst snd] in Hall, Hidall.
  assert (Hne : mem_str site exempt = false).
  { destruct (mem_str site exempt) eqn:E; [|reflexivity]. exfalso. apply Hnex. apply mem_str_In. exact E. }
  rewrite Hne, orb_false_r in Hall. rewrite Hne, Hid in Hidall. cbn [orb] in Hidall.
  eapply origin_flow_sound; eassumption.
Qed.

(* every non-exempt site has an identity row (the premise of servers_origin_sound is never vacuous) *)
Lemma ident_total : forallb (fun sf => mem_str (fst sf) exempt || match ident_of sf with Some _ => true | None => false end) sites = true.
Proof. vm_compute. reflexivity. Qed.
