(* Proofs for C28 (model: Model/C28_SegRead.v). *)
From Coq Require Import List ZArith Bool Lia ZifyBool.
Require Import MTX.Lib.IntWrap MTX.Model.C24_MulDiv MTX.Model.C28_SegRead.
Import ListNotations.
Local Open Scope Z_scope.

Definition byteb (b : Z) : bool := (0 <=? b) && (b <? 256).
Definition wf_bytes (d : bytes) : bool := forallb byteb d.
Definition ts_nonzero (tracks : list track) : bool := forallb (fun t => negb (snd t =? 0)) tracks.

(* ---- lists ---- *)
Lemma len_nonneg {A} (l : list A) : 0 <= len l.
Proof. unfold len. lia. Qed.

Lemma bytes_eqb_eq a : forall b, bytes_eqb a b = true -> a = b.
Proof.
  induction a as [|x a IH]; intros [|y b] H; simpl in H; try discriminate; auto.
  apply andb_true_iff in H as [H1 H2]. apply Z.eqb_eq in H1. f_equal; auto.
Qed.

Lemma forallb_skipn {A} (f : A -> bool) n : forall l, forallb f l = true -> forallb f (skipn n l) = true.
Proof. induction n as [|n IH]; intros [|x l] H; simpl in *; auto. apply andb_true_iff in H as [_ H]. auto. Qed.
Lemma forallb_firstn {A} (f : A -> bool) n : forall l, forallb f l = true -> forallb f (firstn n l) = true.
Proof.
  induction n as [|n IH]; intros [|x l] H; simpl in *; auto.
  apply andb_true_iff in H as [H1 H2]. rewrite H1. simpl. auto.
Qed.
Lemma forallb_nth (f : Z -> bool) l : forallb f l = true -> forall i, (i < length l)%nat -> f (nth i l 0) = true.
Proof.
  induction l as [|x l IH]; intros H i Hi; simpl in *; [lia|].
  apply andb_true_iff in H as [H1 H2]. destruct i; auto. apply IH; auto. lia.
Qed.

(* ---- reader ---- *)
Section Reader.
  Variable data : bytes.

  Lemma read_full_len p n b : 0 <= n -> read_full data p n = Some b -> len b = n.
  Proof.
    unfold read_full, flen, len. intros Hn H.
    destruct (n =? 0) eqn:E0. { inversion H. simpl. lia. }
    destruct ((0 <=? p) && (p + n <=? Z.of_nat (length data))) eqn:E; [|discriminate].
    inversion H. rewrite firstn_length, skipn_length. lia.
  Qed.

  Lemma read_full_pos p n b : 0 < n -> read_full data p n = Some b -> 0 <= p /\ p + n <= flen data.
  Proof.
    unfold read_full. intros Hn H.
    destruct (n =? 0) eqn:E0; [lia|].
    destruct ((0 <=? p) && (p + n <=? flen data)) eqn:E; [|discriminate]. lia.
  Qed.

  Lemma read_full_wf p n b : wf_bytes data = true -> read_full data p n = Some b -> wf_bytes b = true.
  Proof.
    unfold read_full, wf_bytes. intros Hw H.
    destruct (n =? 0). { inversion H. reflexivity. }
    destruct ((0 <=? p) && (p + n <=? flen data)); [|discriminate].
    inversion H. apply forallb_firstn, forallb_skipn, Hw.
  Qed.

  Lemma tag_is_8 buf tag : len buf = 8 -> exists b, tag_is buf tag = Ok b.
  Proof.
    intros H. unfold tag_is, slice_from. rewrite H. simpl. eexists; reflexivity.
  Qed.

  Lemma be32_8 buf : len buf = 8 -> exists s, be32 buf = Ok s.
  Proof. intros H. unfold be32, index. rewrite H. simpl. eexists; reflexivity. Qed.

  Lemma byte_nth buf i : wf_bytes buf = true -> (i < length buf)%nat -> 0 <= nth i buf 0 < 256.
  Proof.
    intros Hw Hi. pose proof (forallb_nth byteb buf Hw i Hi) as H. unfold byteb in H.
    apply andb_true_iff in H as [H1 H2]. apply Z.leb_le in H1. apply Z.ltb_lt in H2. lia.
  Qed.

  Lemma be32_nonneg buf s : wf_bytes buf = true -> be32 buf = Ok s -> 0 <= s.
  Proof.
    intros Hw. unfold be32, index.
    destruct ((0 <=? 0) && (0 <? len buf)) eqn:E0; [|discriminate].
    destruct ((0 <=? 1) && (1 <? len buf)) eqn:E1; [|discriminate].
    destruct ((0 <=? 2) && (2 <? len buf)) eqn:E2; [|discriminate].
    destruct ((0 <=? 3) && (3 <? len buf)) eqn:E3; [|discriminate].
    intros H. inversion H as [Hs]. clear H. subst s.
    apply andb_true_iff in E3 as [_ E3]. apply Z.ltb_lt in E3. unfold len in E3.
    assert (3 < length buf)%nat as L by lia.
    pose proof (byte_nth buf 0%nat Hw ltac:(lia)) as B0.
    pose proof (byte_nth buf 1%nat Hw ltac:(lia)) as B1.
    pose proof (byte_nth buf 2%nat Hw ltac:(lia)) as B2.
    pose proof (byte_nth buf 3%nat Hw ltac:(lia)) as B3.
    change (Pos.to_nat 1) with 1%nat. change (Pos.to_nat 2) with 2%nat. change (Pos.to_nat 3) with 3%nat.
    lia.
  Qed.

  (* the result of reading a box header *)
  Lemma hdr_at_cases p tag :
    hdr_at data p tag = Err \/ hdr_at data p tag = Ok None \/
    exists buf s, read_full data p 8 = Some buf /\ len buf = 8 /\ tag_is buf tag = Ok true /\ be32 buf = Ok s /\
                  hdr_at data p tag = Ok (Some s).
  Proof.
    unfold hdr_at. destruct (read_full data p 8) as [buf|] eqn:R; [|auto].
    pose proof (read_full_len p 8 buf ltac:(lia) R) as L.
    destruct (tag_is_8 buf tag L) as [b Hb]. destruct (be32_8 buf L) as [s Hs].
    rewrite Hb, Hs. destruct b; [|auto]. right; right. exists buf, s. auto.
  Qed.

  Lemma hdr_at_no_panic p tag w : hdr_at data p tag <> Panic w.
  Proof.
    destruct (hdr_at_cases p tag) as [H|[H|(buf & s & _ & _ & _ & _ & H)]]; rewrite H; discriminate.
  Qed.

  Lemma hdr_at_some p tag s : wf_bytes data = true -> hdr_at data p tag = Ok (Some s) ->
    0 <= s /\ 0 <= p /\ p + 8 <= flen data /\
    exists buf, read_full data p 8 = Some buf /\ tag_is buf tag = Ok true.
  Proof.
    intros Hw H.
    destruct (hdr_at_cases p tag) as [H'|[H'|(buf & s' & R & L & T & B & H')]]; rewrite H' in H; try discriminate.
    inversion H; subst s'.
    pose proof (read_full_pos p 8 buf ltac:(lia) R).
    pose proof (be32_nonneg buf s (read_full_wf p 8 buf Hw R) B).
    repeat split; try lia. exists buf; auto.
  Qed.

  Lemma tag_two buf t1 t2 : t1 <> t2 -> tag_is buf t1 = Ok true -> tag_is buf t2 = Ok true -> False.
  Proof.
    unfold tag_is. destruct (slice_from buf 4) as [t| |]; try discriminate.
    intros Hne H1 H2. inversion H1 as [E1]. inversion H2 as [E2].
    apply bytes_eqb_eq in E1, E2. congruence.
  Qed.

  (* ---- the moof/mdat loop: never panics, never runs out of fuel ---- *)
  Lemma moof_loop_ok (Hw : wf_bytes data = true) : forall fuel p last,
    0 <= p -> Z.max 0 (flen data - p) < Z.of_nat fuel ->
    exists l, moof_loop data fuel p last = Ok l.
  Proof.
    induction fuel as [|fuel IH]; intros p last Hp Hf; [lia|].
    cbn [moof_loop].
    destruct (hdr_at data p t_moof) as [[ms|]| |] eqn:H1; try (eexists; reflexivity).
    2:{ exfalso. eapply hdr_at_no_panic; eauto. }
    destruct (hdr_at_some p t_moof ms Hw H1) as (Hms & _ & Hpe & buf & Rb & Tb).
    unfold seek. destruct (p + 8 + (ms - 8) <? 0) eqn:Eq; [eexists; reflexivity|].
    destruct (hdr_at data (p + 8 + (ms - 8)) t_mdat) as [[ds|]| |] eqn:H2; try (eexists; reflexivity).
    2:{ exfalso. eapply hdr_at_no_panic; eauto. }
    destruct (hdr_at_some _ t_mdat ds Hw H2) as (Hds & _ & _ & buf2 & Rb2 & Tb2).
    assert (ms <> 0) as Hms0.
    { intros ->. replace (p + 8 + (0 - 8)) with p in Rb2 by lia. rewrite Rb in Rb2. inversion Rb2; subst buf2.
      eapply (tag_two buf t_moof t_mdat); eauto. discriminate. }
    destruct (p + 8 + (ms - 8) + 8 + (ds - 8) <? 0) eqn:Eq2; [eexists; reflexivity|].
    apply IH; lia.
  Qed.

  Lemma moof_loop_range (Hw : wf_bytes data = true) : forall fuel p last l,
    moof_loop data fuel p last = Ok l -> l = last \/ 0 <= l.
  Proof.
    induction fuel as [|fuel IH]; intros p last l; cbn [moof_loop]; [discriminate|].
    destruct (hdr_at data p t_moof) as [[ms|]| |] eqn:H1; try (intros H; inversion H; auto; fail).
    destruct (hdr_at_some p t_moof ms Hw H1) as (_ & Hp & _).
    destruct (seek (p + 8 + (ms - 8))) as [q|]; [|intros H; inversion H; auto].
    destruct (hdr_at data q t_mdat) as [[ds|]| |] eqn:H2; try (intros H; inversion H; auto; fail).
    destruct (seek (q + 8 + (ds - 8))) as [p'|]; [|intros H; inversion H; auto].
    intros H. apply IH in H. destruct H; [subst; right; lia|auto].
  Qed.
End Reader.

(* ---- allocation log ---- *)
Definition bounded (B : Z) (al : list Z) : Prop := Forall (fun a => a <= B) al.

Lemma wrapu32_le z : 0 <= z -> wrapu32 z <= z.
Proof. intros H. unfold wrapu32, two32. apply Z.mod_le; lia. Qed.
Lemma wrapu32_nonneg z : 0 <= wrapu32 z.
Proof. unfold wrapu32, two32. apply Z.mod_pos_bound. lia. Qed.

Lemma find_track_ts tracks : ts_nonzero tracks = true -> forall id t, find_track tracks id = Some t -> snd t <> 0.
Proof.
  unfold ts_nonzero. induction tracks as [|x l IH]; simpl; [discriminate|].
  intros H id t. apply andb_true_iff in H as [H1 H2].
  destruct (fst x =? id); [|apply IH; exact H2]. intros E; inversion E; subst. apply negb_true_iff in H1. lia.
Qed.

Section Repaired.
  Variable data : bytes.
  Hypothesis Hw : wf_bytes data = true.
  Variable o_mvhd : Z -> Z -> mvhd_res.
  Variable o_init : Z -> init_res.
  Variable o_tfhd : Z -> Z -> option Z.
  Variable o_tfdt : Z -> Z -> option Z.
  Variable o_trun : Z -> Z -> option (list Z).

  Let B := Z.max 8 (flen data).

  (* segmentFMP4ReadHeader *)
  Lemma read_header_spec :
    (forall w, fst (read_header repaired data o_mvhd o_init) <> Panic w) /\
    bounded B (snd (read_header repaired data o_mvhd o_init)) /\
    (forall tracks d, fst (read_header repaired data o_mvhd o_init) = Ok (Header tracks d) ->
       exists n, o_init n = InitOk tracks).
  Proof.
    assert (bounded B [8]) as B8 by (repeat constructor; unfold B; lia).
    unfold read_header.
    destruct (hdr_at data 0 t_ftyp) as [[fs|]| |] eqn:H1;
      try (cbn [fst snd]; repeat split; try discriminate; auto; fail).
    2:{ exfalso. eapply hdr_at_no_panic; eauto. }
    destruct (hdr_at_some data 0 t_ftyp fs Hw H1) as (Hfs & _).
    destruct (seek fs) as [p|]; [|cbn [fst snd]; repeat split; try discriminate; auto].
    destruct (hdr_at data p t_moov) as [[ms|]| |] eqn:H2;
      try (cbn [fst snd]; repeat split; try discriminate; auto; fail).
    2:{ exfalso. eapply hdr_at_no_panic; eauto. }
    destruct (hdr_at_some data p t_moov ms Hw H2) as (Hms & _).
    destruct (seek (p + 8 + 8)) as [pm|]; [|cbn [fst snd]; repeat split; try discriminate; auto].
    destruct (o_mvhd pm (wrapu32 (ms - 8))) as [|dur ts]; [cbn [fst snd]; repeat split; try discriminate; auto|].
    cbn [g_mvhd_ts repaired andb].
    destruct (ts =? 0) eqn:Ets; [cbn [fst snd]; repeat split; try discriminate; auto|].
    unfold go_div. rewrite Ets.
    cbn [g_hdr_size repaired andb].
    destruct (flen data <? fs + ms) eqn:Esz; [cbn [fst snd]; repeat split; try discriminate; auto|].
    assert (bounded B (wrapu32 (fs + ms) :: [8])) as B2.
    { constructor; [|exact B8]. pose proof (wrapu32_le (fs + ms) ltac:(lia)). unfold B. lia. }
    destruct (read_full data 0 (wrapu32 (fs + ms))); [|cbn [fst snd]; repeat split; try discriminate; auto].
    destruct (o_init (wrapu32 (fs + ms))) as [|tracks] eqn:Ei; cbn [fst snd]; repeat split; try discriminate; auto.
    intros tr d H. inversion H; subst. eauto.
  Qed.

  (* one of tfhd / tfdt / trun *)
  Lemma sized_box_spec p tag al : bounded B al ->
    (forall w, fst (sized_box repaired data p tag al) <> Panic w) /\
    bounded B (snd (sized_box repaired data p tag al)) /\
    (forall o n, fst (sized_box repaired data p tag al) = Ok (o, n) -> o = p + 8 /\ 0 <= n /\ 0 <= p /\ p + 8 <= flen data).
  Proof.
    intros Hal. unfold sized_box.
    destruct (hdr_at data p tag) as [[s|]| |] eqn:H1;
      try (cbn [fst snd]; repeat split; try discriminate; auto; fail).
    2:{ exfalso. eapply hdr_at_no_panic; eauto. }
    destruct (hdr_at_some data p tag s Hw H1) as (Hs & Hp & Hpe & _).
    cbn [g_box_size repaired andb].
    destruct ((s <? 8) || (flen data <? s)) eqn:Eg; [cbn [fst snd]; repeat split; try discriminate; auto|].
    assert (bounded B (wrapu32 (s - 8) :: al)) as B2.
    { constructor; [|exact Hal]. pose proof (wrapu32_le (s - 8) ltac:(lia)). unfold B. lia. }
    destruct (read_full data (p + 8) (wrapu32 (s - 8))); cbn [fst snd].
    - split; [discriminate|]. split; [exact B2|]. intros o n H. inversion H; subst.
      repeat split; try lia. apply wrapu32_nonneg.
    - split; [discriminate|]. split; [exact B2|]. discriminate.
  Qed.

  Section Parts.
    Variable tracks : list track.
    Hypothesis Hts : ts_nonzero tracks = true.

    Lemma traf_loop_spec : forall fuel p mx al,
      Z.max 0 (flen data - p) < Z.of_nat fuel -> bounded B al ->
      (forall w, fst (traf_loop repaired data o_tfhd o_tfdt o_trun tracks fuel p mx al) <> Panic w) /\
      bounded B (snd (traf_loop repaired data o_tfhd o_tfdt o_trun tracks fuel p mx al)).
    Proof.
      induction fuel as [|fuel IH]; intros p mx al Hf Hal; [lia|].
      cbn [traf_loop].
      destruct (read_full data p 8) as [buf|] eqn:R; [|cbn [fst snd]; split; [discriminate|auto]].
      pose proof (read_full_len data p 8 buf ltac:(lia) R) as L.
      pose proof (read_full_pos data p 8 buf ltac:(lia) R) as [Hp Hpe].
      destruct (tag_is_8 buf t_traf L) as [b1 E1]. destruct (tag_is_8 buf t_mdat L) as [b2 E2].
      rewrite E1, E2.
      destruct b1; [|destruct b2; cbn [fst snd]; split; try discriminate; auto].
      destruct (sized_box_spec (p + 8) t_tfhd al Hal) as (N1 & A1 & P1).
      destruct (sized_box repaired data (p + 8) t_tfhd al) as [[[o1 n1]| |w1] al1];
        cbn [fst snd] in *; try (split; [discriminate|auto]; fail).
      2:{ exfalso. eapply N1; reflexivity. }
      destruct (P1 o1 n1 eq_refl) as (-> & Hn1 & _ & _).
      destruct (o_tfhd (p + 8 + 8) n1) as [tid|]; [|cbn [fst snd]; split; [discriminate|auto]].
      destruct (find_track tracks tid) as [trk|] eqn:Ft; [|cbn [fst snd]; split; [discriminate|auto]].
      destruct (sized_box_spec (p + 8 + 8 + n1) t_tfdt al1 A1) as (N2 & A2 & P2).
      destruct (sized_box repaired data (p + 8 + 8 + n1) t_tfdt al1) as [[[o2 n2]| |w2] al2];
        cbn [fst snd] in *; try (split; [discriminate|auto]; fail).
      2:{ exfalso. eapply N2; reflexivity. }
      destruct (P2 o2 n2 eq_refl) as (-> & Hn2 & _ & _).
      destruct (o_tfdt (p + 8 + 8 + n1 + 8) n2) as [base|]; [|cbn [fst snd]; split; [discriminate|auto]].
      destruct (sized_box_spec (p + 8 + 8 + n1 + 8 + n2) t_trun al2 A2) as (N3 & A3 & P3).
      destruct (sized_box repaired data (p + 8 + 8 + n1 + 8 + n2) t_trun al2) as [[[o3 n3]| |w3] al3];
        cbn [fst snd] in *; try (split; [discriminate|auto]; fail).
      2:{ exfalso. eapply N3; reflexivity. }
      destruct (P3 o3 n3 eq_refl) as (-> & Hn3 & _ & _).
      destruct (o_trun (p + 8 + 8 + n1 + 8 + n2 + 8) n3) as [durs|]; [|cbn [fst snd]; split; [discriminate|auto]].
      unfold mp4_to_go. pose proof (find_track_ts tracks Hts tid trk Ft) as Hz.
      destruct (snd trk =? 0) eqn:Ez; [lia|].
      apply IH; [lia|exact A3].
    Qed.

    Lemma read_duration_from_parts_spec :
      (forall w, fst (read_duration_from_parts repaired data o_tfhd o_tfdt o_trun tracks) <> Panic w) /\
      bounded B (snd (read_duration_from_parts repaired data o_tfhd o_tfdt o_trun tracks)).
    Proof.
      assert (bounded B [8]) as B8 by (repeat constructor; unfold B; lia).
      unfold read_duration_from_parts.
      destruct (hdr_at data 0 t_ftyp) as [[fs|]| |] eqn:H1; try (cbn [fst snd]; split; [discriminate|auto]; fail).
      2:{ exfalso. eapply hdr_at_no_panic; eauto. }
      destruct (seek fs) as [p|] eqn:S1; [|cbn [fst snd]; split; [discriminate|auto]].
      destruct (hdr_at data p t_moov) as [[ms|]| |] eqn:H2; try (cbn [fst snd]; split; [discriminate|auto]; fail).
      2:{ exfalso. eapply hdr_at_no_panic; eauto. }
      destruct (seek (p + 8 + (ms - 8))) as [p1|] eqn:S2; [|cbn [fst snd]; split; [discriminate|auto]].
      assert (0 <= p1) as Hp1 by (unfold seek in S2; destruct (p + 8 + (ms - 8) <? 0) eqn:E; [discriminate|inversion S2; lia]).
      destruct (moof_loop_ok data Hw (fuel_of_file data) p1 (-1) Hp1) as [last Hl].
      { unfold fuel_of_file, flen, len. lia. }
      rewrite Hl.
      destruct (last <? 0) eqn:El; [cbn [fst snd]; split; [discriminate|auto]|].
      destruct (seek (last + 8)) as [pm|] eqn:S3; [|cbn [fst snd]; split; [discriminate|auto]].
      destruct (hdr_at data pm t_mfhd) as [[x|]| |] eqn:H3; try (cbn [fst snd]; split; [discriminate|auto]; fail).
      2:{ exfalso. eapply hdr_at_no_panic; eauto. }
      destruct (hdr_at_some data pm t_mfhd x Hw H3) as (_ & Hpm & _).
      destruct (seek (pm + 8 + 8)) as [pt|] eqn:S4; [|cbn [fst snd]; split; [discriminate|auto]].
      assert (0 <= pt) as Hpt by (unfold seek in S4; destruct (pm + 8 + 8 <? 0); [discriminate|inversion S4; lia]).
      apply traf_loop_spec; [|exact B8].
      unfold fuel_of_file, flen, len. lia.
    Qed.
  End Parts.

  (* mediacommon rejects a zero mdhd timescale; the theorems about the part walk need it *)
  Hypothesis Hinit : forall n tracks, o_init n = InitOk tracks -> ts_nonzero tracks = true.

  Lemma bounded_app al1 al2 : bounded B al1 -> bounded B al2 -> bounded B (al1 ++ al2).
  Proof. intros H1 H2. apply Forall_app; auto. Qed.

  Lemma parse_segment_spec :
    (forall w, fst (parse_segment repaired data o_mvhd o_init o_tfhd o_tfdt o_trun) <> Panic w) /\
    bounded B (snd (parse_segment repaired data o_mvhd o_init o_tfhd o_tfdt o_trun)).
  Proof.
    unfold parse_segment.
    destruct read_header_spec as (N & A & P).
    destruct (read_header repaired data o_mvhd o_init) as [[[tracks d]| |w] al]; cbn [fst snd] in *.
    - destruct (P tracks d eq_refl) as [n Hn]. pose proof (Hinit n tracks Hn) as Hts.
      destruct (d =? 0); [|cbn [fst snd]; split; [discriminate|auto]].
      destruct (read_duration_from_parts_spec tracks Hts) as (N2 & A2).
      destruct (read_duration_from_parts repaired data o_tfhd o_tfdt o_trun tracks) as [[d2| |w2] al2];
        cbn [fst snd] in *; try (split; [discriminate|apply bounded_app; auto]).
      exfalso. eapply N2; reflexivity.
    - split; [discriminate|auto].
    - exfalso. eapply N; reflexivity.
  Qed.
End Repaired.

(* ---- segmentFMP4MuxParts ---- *)
Section MuxProofs.
  Variable file_len : Z.
  Variable tracks : list track.
  Hypothesis Hts : ts_nonzero tracks = true.
  Variable start_dts duration : Z.

  Definition mux_inv (s : mux_state) : Prop := s.(m_tfdt) <> None -> s.(m_time_scale) <> 0.

  Let B := Z.max 0 file_len.

  Lemma entries_loop_spec : forall es off dts s al,
    bounded B al ->
    (forall w, fst (entries_loop repaired file_len es off dts s al) <> Panic w) /\
    bounded B (snd (entries_loop repaired file_len es off dts s al)) /\
    (forall dts' s', fst (entries_loop repaired file_len es off dts s al) = Ok (dts', s') ->
       s'.(m_tfdt) = s.(m_tfdt) /\ s'.(m_time_scale) = s.(m_time_scale) /\ s'.(m_tfhd) = s.(m_tfhd)).
  Proof.
    induction es as [|e es IH]; intros off dts s al Hal; cbn [entries_loop].
    - cbn [fst snd]. split; [discriminate|]. split; [auto|]. intros dts' s' H. inversion H; subst. auto.
    - destruct (m_dur_mp4 s <=? dts).
      { cbn [fst snd]. split; [discriminate|]. split; [auto|]. intros dts' s' H. inversion H; subst. cbn. auto. }
      cbn [g_sample repaired andb].
      destruct (file_len <? e_size e) eqn:Es.
      { cbn [fst snd]. split; [discriminate|]. split; [auto|]. discriminate. }
      assert (bounded B (e_size e :: al)) as A2 by (constructor; [unfold B; lia|auto]).
      destruct (read_at_ok file_len (wrap64 off) (e_size e)).
      + specialize (IH (wrapu64 (off + e_size e)) (wrap64 (dts + e_dur e))
                       (add_call s (WriteSample dts (e_cto e) (e_nonsync e) (e_size e) (wrap64 off))) (e_size e :: al) A2).
        destruct IH as (N & A & P). split; [exact N|]. split; [exact A|].
        intros dts' s' H. destruct (P dts' s' H) as (P1 & P2 & P3). rewrite P1, P2, P3. cbn. auto.
      + cbn [fst snd]. split; [discriminate|]. split; [auto|]. discriminate.
  Qed.

  Lemma find_track_ts' id t : find_track tracks id = Some t -> snd t <> 0.
  Proof. apply (find_track_ts tracks Hts). Qed.

  Lemma mux_step_spec s al e : mux_inv s -> bounded B al ->
    (forall w, fst (mux_step repaired file_len tracks start_dts duration s al e) <> Panic w) /\
    bounded B (snd (mux_step repaired file_len tracks start_dts duration s al e)) /\
    (forall s', fst (mux_step repaired file_len tracks start_dts duration s al e) = Ok s' -> mux_inv s').
  Proof.
    intros Hi Hal. unfold mux_step.
    destruct e as [off| |[id|]|[base|]|[[doff es]|]| | |]; cbn [fst snd];
      try (repeat split; try discriminate; auto; intros s' H; inversion H; subst; exact Hi).
    - (* tfdt *)
      destruct (m_tfhd s) as [id|]; cbn [g_nil repaired fst snd]; [|repeat split; try discriminate; auto].
      destruct (find_track tracks id) as [trk|] eqn:Ft; cbn [fst snd]; repeat split; try discriminate; auto.
      intros s' H. inversion H; subst. intros _. cbn. eapply find_track_ts'; eauto.
    - (* trun *)
      destruct (m_tfdt s) as [base|] eqn:Et; cbn [g_nil repaired fst snd]; [|repeat split; try discriminate; auto].
      destruct (entries_loop_spec es (wrapu64 (m_moof_offset s + wrapu64 doff))
                  (wrap64 (wrap64 base + m_start_mp4 s)) s al Hal) as (N & A & P).
      destruct (entries_loop repaired file_len es _ _ s al) as [[[dts' s1]| |w] al1]; cbn [fst snd] in *;
        try (repeat split; try discriminate; auto; fail).
      2:{ exfalso. eapply N; reflexivity. }
      destruct (P dts' s1 eq_refl) as (P1 & P2 & P3).
      assert (m_time_scale s1 <> 0) as Hz by (rewrite P2; apply Hi; rewrite Et; discriminate).
      unfold mp4_to_go. destruct (m_time_scale s1 =? 0) eqn:Ez; [lia|].
      cbn [fst snd]. repeat split; try discriminate; auto.
      intros s' H. inversion H; subst. intros _. cbn. exact Hz.
    - (* mdat *)
      destruct (m_break s); cbn [fst snd]; repeat split; try discriminate; auto.
      intros s' H. inversion H; subst. exact Hi.
  Qed.

  Lemma mux_run_spec : forall es s al, mux_inv s -> bounded B al ->
    (forall w, fst (mux_run repaired file_len tracks start_dts duration es s al) <> Panic w) /\
    bounded B (snd (mux_run repaired file_len tracks start_dts duration es s al)).
  Proof.
    induction es as [|e es IH]; intros s al Hi Hal; cbn [mux_run].
    - cbn [fst snd]. split; [discriminate|auto].
    - destruct (mux_step_spec s al e Hi Hal) as (N & A & P).
      assert (forall (X : res mux_state * list Z),
        X = (match mux_step repaired file_len tracks start_dts duration s al e with
             | (Ok s', al') => mux_run repaired file_len tracks start_dts duration es s' al'
             | (Err, al') => (Err, al') | (Panic w, al') => (Panic w, al') end) ->
        (forall w, fst X <> Panic w) /\ bounded B (snd X)) as Hstep.
      { intros X ->.
        destruct (mux_step repaired file_len tracks start_dts duration s al e) as [[s'| |w] al']; cbn [fst snd] in *.
        - apply IH; auto.
        - split; [discriminate|auto].
        - exfalso. eapply N; reflexivity. }
      destruct e; try (apply Hstep; reflexivity).
      destruct (m_break s); [cbn [fst snd]; split; [discriminate|auto]|apply Hstep; reflexivity].
  Qed.

  Lemma mux_parts_spec es :
    (forall w, fst (mux_parts repaired file_len tracks start_dts duration es) <> Panic w) /\
    bounded B (snd (mux_parts repaired file_len tracks start_dts duration es)).
  Proof.
    unfold mux_parts. apply mux_run_spec; [|constructor].
    unfold mux_inv, mux_init. cbn. congruence.
  Qed.
End MuxProofs.

(* ---- seekAndMux ---- *)
Lemma seek_loop_no_panic first : forall segs prev n w,
  (first <> None -> prev <> None) -> seek_loop first prev segs n <> Panic w.
Proof.
  induction segs as [|[cur legacy] rest IH]; intros prev n w Hp; cbn [seek_loop]; [discriminate|].
  destruct (can_concat legacy prev cur) eqn:Ec; [|discriminate].
  destruct first as [f|].
  - destruct cur as [c|].
    + apply IH. intros _. discriminate.
    + exfalso. destruct prev as [[a b]|]; [simpl in Ec; discriminate|]. apply Hp; [discriminate|reflexivity].
  - apply IH. intros H. congruence.
Qed.

(* ---- witnesses: the tree as it was found ---- *)
Definition w_hdr : bytes := [0;0;0;8;102;116;121;112; 0;0;0;116;109;111;111;118].

Lemma header_pinned_panics :
  fst (read_header pinned w_hdr (fun _ _ => MvhdOk 5 0) (fun _ => InitErr)) = Panic DivZero.
Proof. vm_compute. reflexivity. Qed.

Lemma header_repaired_same_input :
  fst (read_header repaired w_hdr (fun _ _ => MvhdOk 5 0) (fun _ => InitErr)) = Err.
Proof. vm_compute. reflexivity. Qed.

(* moov size 0xFFFFFF00 in a 16-byte file *)
Definition w_hdr_big : bytes := [0;0;0;8;102;116;121;112; 255;255;255;0;109;111;111;118].
Lemma header_pinned_allocates :
  snd (read_header pinned w_hdr_big (fun _ _ => MvhdOk 5 1000) (fun _ => InitErr)) = [4294967048; 8].
Proof. vm_compute. reflexivity. Qed.

(* ftyp, moov, moof(mfhd, traf(tfhd size 0 ...)), mdat *)
Definition w_parts (tfhd_size : Z) : bytes :=
  [0;0;0;8;102;116;121;112] ++ [0;0;0;8;109;111;111;118] ++
  [0;0;0;56;109;111;111;102] ++ [0;0;0;16;109;102;104;100;0;0;0;0;0;0;0;0] ++
  [0;0;0;32;116;114;97;102] ++ [0;0;0;tfhd_size;116;102;104;100] ++ [0;0;0;8;116;102;100;116] ++
  [0;0;0;8;116;114;117;110] ++ [0;0;0;8;109;100;97;116].

Lemma parts_pinned_allocates :
  snd (read_duration_from_parts pinned (w_parts 0) (fun _ _ => Some 1) (fun _ _ => Some 0) (fun _ _ => Some [])
         [(1, 90000)]) = [4294967288; 8].
Proof. vm_compute. reflexivity. Qed.

Lemma parts_repaired_same_input :
  read_duration_from_parts repaired (w_parts 0) (fun _ _ => Some 1) (fun _ _ => Some 0) (fun _ _ => Some [])
    [(1, 90000)] = (Err, [8]).
Proof. vm_compute. reflexivity. Qed.

(* the walk reaches durationMp4ToGo: with a zero track timescale (excluded by mediacommon) it divides by zero *)
Lemma parts_needs_timescale :
  fst (read_duration_from_parts repaired (w_parts 8) (fun _ _ => Some 1) (fun _ _ => Some 0) (fun _ _ => Some [])
         [(1, 0)]) = Panic DivZero.
Proof. vm_compute. reflexivity. Qed.

Lemma parts_nontrivial :
  fst (read_duration_from_parts repaired (w_parts 8) (fun _ _ => Some 1) (fun _ _ => Some 90000)
         (fun _ _ => Some [45000; 45000]) [(1, 90000)]) = Ok 2000000000.
Proof. vm_compute. reflexivity. Qed.

Lemma mux_pinned_panics_tfdt :
  fst (mux_parts pinned 20 [(1, 90000)] 0 nanos [ETfdt (Some 0)]) = Panic NilDeref.
Proof. vm_compute. reflexivity. Qed.
Lemma mux_pinned_panics_trun :
  fst (mux_parts pinned 16 [(1, 90000)] 0 nanos [ETrun (Some (0, []))]) = Panic NilDeref.
Proof. vm_compute. reflexivity. Qed.
Lemma mux_pinned_allocates :
  snd (mux_parts pinned 933 [(1, 90000)] 0 (100 * nanos)
         [EMoof 683; ETraf; ETfhd (Some 1); ETfdt (Some 90000);
          ETrun (Some (120, [{| e_dur := 90000; e_size := 4278190082; e_nonsync := false; e_cto := 0 |}]))])
  = [4278190082].
Proof. vm_compute. reflexivity. Qed.
Lemma mux_nontrivial :
  exists s, mux_parts repaired 933 [(1, 90000)] 0 (100 * nanos)
         [EMoof 683; ETraf; ETfhd (Some 1); ETfdt (Some 90000);
          ETrun (Some (120, [{| e_dur := 90000; e_size := 2; e_nonsync := false; e_cto := 0 |}])); EMdat]
        = (Ok s, [2]) /\ s.(m_seg_dur) = 2 * nanos /\
        s.(m_calls) = [FinalDTS 180000; WriteSample 90000 0 false 2 803; SetTrack 1].
Proof. eexists. vm_compute. repeat split. Qed.

(* ---- the statements of Props/C28.v ---- *)
Lemma no_panic_refuted_all :
  (exists data o_mvhd o_init, wf_bytes data = true /\
     fst (read_header pinned data o_mvhd o_init) = Panic DivZero) /\
  (exists flen tracks es, ts_nonzero tracks = true /\
     fst (mux_parts pinned flen tracks 0 nanos es) = Panic NilDeref).
Proof.
  split.
  - exists w_hdr, (fun _ _ => MvhdOk 5 0), (fun _ => InitErr). split; [reflexivity|exact header_pinned_panics].
  - exists 20, [(1, 90000)], [ETfdt (Some 0)]. split; [reflexivity|exact mux_pinned_panics_tfdt].
Qed.

Lemma alloc_bound_refuted_all :
  (exists data o1 o2 o3 tracks, wf_bytes data = true /\ len data = 80 /\
     In 4294967288 (snd (read_duration_from_parts pinned data o1 o2 o3 tracks))) /\
  (exists data o_mvhd o_init, wf_bytes data = true /\ len data = 16 /\
     In 4294967048 (snd (read_header pinned data o_mvhd o_init))) /\
  (exists tracks es, ts_nonzero tracks = true /\
     In 4278190082 (snd (mux_parts pinned 933 tracks 0 (100 * nanos) es))).
Proof.
  split; [|split].
  - exists (w_parts 0), (fun _ _ => Some 1), (fun _ _ => Some 0), (fun _ _ => Some []), [(1, 90000)].
    split; [reflexivity|]. split; [reflexivity|]. rewrite parts_pinned_allocates. left; reflexivity.
  - exists w_hdr_big, (fun _ _ => MvhdOk 5 1000), (fun _ => InitErr).
    split; [reflexivity|]. split; [reflexivity|]. rewrite header_pinned_allocates. left; reflexivity.
  - eexists [(1, 90000)], _. split; [reflexivity|]. rewrite mux_pinned_allocates. left; reflexivity.
Qed.

Lemma no_panic_all :
  (forall data o_mvhd o_init w, wf_bytes data = true ->
     fst (read_header repaired data o_mvhd o_init) <> Panic w) /\
  (forall data o_tfhd o_tfdt o_trun tracks w, wf_bytes data = true -> ts_nonzero tracks = true ->
     fst (read_duration_from_parts repaired data o_tfhd o_tfdt o_trun tracks) <> Panic w) /\
  (forall data o_mvhd o_init o_tfhd o_tfdt o_trun w, wf_bytes data = true ->
     (forall n tracks, o_init n = InitOk tracks -> ts_nonzero tracks = true) ->
     fst (parse_segment repaired data o_mvhd o_init o_tfhd o_tfdt o_trun) <> Panic w) /\
  (forall file_len tracks start_dts duration events w, ts_nonzero tracks = true ->
     fst (mux_parts repaired file_len tracks start_dts duration events) <> Panic w) /\
  (forall first segs w, seek_loop first first segs 0 <> Panic w).
Proof.
  repeat split.
  - intros data o1 o2 w Hw. apply (read_header_spec data Hw o1 o2).
  - intros data o1 o2 o3 tracks w Hw Hts. apply (read_duration_from_parts_spec data Hw o1 o2 o3 tracks Hts).
  - intros data o1 o2 o3 o4 o5 w Hw Hi. apply (parse_segment_spec data Hw o1 o2 o3 o4 o5 Hi).
  - intros fl tracks s d es w Hts. apply (mux_parts_spec fl tracks Hts s d es).
  - intros first segs w. apply seek_loop_no_panic. auto.
Qed.

Lemma alloc_bound_all :
  (forall data o_mvhd o_init a, wf_bytes data = true ->
     In a (snd (read_header repaired data o_mvhd o_init)) -> a <= Z.max 8 (len data)) /\
  (forall data o_tfhd o_tfdt o_trun tracks a, wf_bytes data = true -> ts_nonzero tracks = true ->
     In a (snd (read_duration_from_parts repaired data o_tfhd o_tfdt o_trun tracks)) -> a <= Z.max 8 (len data)) /\
  (forall data o_mvhd o_init o_tfhd o_tfdt o_trun a, wf_bytes data = true ->
     (forall n tracks, o_init n = InitOk tracks -> ts_nonzero tracks = true) ->
     In a (snd (parse_segment repaired data o_mvhd o_init o_tfhd o_tfdt o_trun)) -> a <= Z.max 8 (len data)) /\
  (forall file_len tracks start_dts duration events a, ts_nonzero tracks = true ->
     In a (snd (mux_parts repaired file_len tracks start_dts duration events)) -> a <= Z.max 0 file_len).
Proof.
  repeat split.
  - intros data o1 o2 a Hw Hin.
    destruct (read_header_spec data Hw o1 o2) as (_ & A & _). exact (proj1 (Forall_forall _ _) A a Hin).
  - intros data o1 o2 o3 tracks a Hw Hts Hin.
    destruct (read_duration_from_parts_spec data Hw o1 o2 o3 tracks Hts) as (_ & A).
    exact (proj1 (Forall_forall _ _) A a Hin).
  - intros data o1 o2 o3 o4 o5 a Hw Hi Hin.
    destruct (parse_segment_spec data Hw o1 o2 o3 o4 o5 Hi) as (_ & A). exact (proj1 (Forall_forall _ _) A a Hin).
  - intros fl tracks s d es a Hts Hin.
    destruct (mux_parts_spec fl tracks Hts s d es) as (_ & A). exact (proj1 (Forall_forall _ _) A a Hin).
Qed.

Lemma parts_needs_timescale_ex :
  exists data o_tfhd o_tfdt o_trun tracks, wf_bytes data = true /\
    fst (read_duration_from_parts repaired data o_tfhd o_tfdt o_trun tracks) = Panic DivZero.
Proof.
  exists (w_parts 8), (fun _ _ => Some 1), (fun _ _ => Some 0), (fun _ _ => Some []), [(1, 0)].
  split; [reflexivity|exact parts_needs_timescale].
Qed.

