(* Proofs for C10: no out-of-range slice in the repaired Decrypt, no Addr-on-zero-Value in the
   repaired env map step, the bit-level power-of-two lemma, and validate g = Ok o -> documented o. *)
From Coq Require Import List ZArith Bool Lia ZifyBool Arith.
Require Import MTX.Model.C10_Load.
Import ListNotations.
Local Open Scope Z_scope.

(* ---------------------------------------------------------------- decrypt *)
Lemma decrypt_no_panic b64 sopen key byts : decrypt true b64 sopen key byts <> DPanic.
Proof.
  unfold decrypt. destruct (b64 byts) as [enc|]; [|discriminate].
  destruct (Z.of_nat (length enc) <? 24) eqn:Hl; simpl; [discriminate|].
  destruct (sopen _ _ _); discriminate.
Qed.

Lemma decrypt_file_no_panic b64 sopen k1 k2 byts : decrypt_file true b64 sopen k1 k2 byts <> DPanic.
Proof.
  unfold decrypt_file. destruct k1 as [a|], k2 as [b|]; simpl.
  - pose proof (decrypt_no_panic b64 sopen a byts) as Ha.
    destruct (decrypt true b64 sopen a byts) eqn:H1; try exact Ha. apply decrypt_no_panic.
  - pose proof (decrypt_no_panic b64 sopen a byts) as Ha.
    destruct (decrypt true b64 sopen a byts) eqn:H1; exact Ha.
  - apply decrypt_no_panic.
  - discriminate.
Qed.

(* what a successful decryption is: nonce = first 24 bytes, box = the rest *)
Lemma decrypt_ok_inv b64 sopen key byts p :
  decrypt true b64 sopen key byts = DOk p ->
  exists enc, b64 byts = Some enc /\ (24 <= length enc)%nat /\
              sopen (key32 key) (firstn 24 enc) (skipn 24 enc) = Some p.
Proof.
  unfold decrypt. destruct (b64 byts) as [enc|]; [|discriminate].
  destruct (Z.of_nat (length enc) <? 24) eqn:Hl; simpl; [discriminate|].
  destruct (sopen _ _ _) eqn:Ho; [|discriminate]. intros H; inversion H; subst.
  exists enc. repeat split; auto. lia.
Qed.

(* the pinned code: any input whose base64 decoding is shorter than 24 bytes panics *)
Lemma decrypt_pinned_panics b64 sopen key byts enc :
  b64 byts = Some enc -> (length enc < 24)%nat -> decrypt false b64 sopen key byts = DPanic.
Proof.
  intros Hb Hl. unfold decrypt. rewrite Hb. simpl.
  destruct (Z.of_nat (length enc) <? 24) eqn:H; [reflexivity|lia].
Qed.

Lemma decrypt_pinned_refuted :
  exists b64 sopen key byts, decrypt false b64 sopen key byts = DPanic.
Proof.
  (* "AAAA" decodes to three zero bytes *)
  exists (fun _ => Some [0;0;0]), (fun _ _ _ => None), [107], [65;65;65;65]. reflexivity.
Qed.

(* ---------------------------------------------------------------- env map step *)
Lemma env_map_step_no_panic e : env_map_step true e <> EnvPanic.
Proof. destruct e; discriminate. Qed.

Lemma env_map_step_pinned_refuted : exists e, env_map_step false e = EnvPanic.
Proof. exists ENil. reflexivity. Qed.

Lemma env_empty_list_no_panic b : env_empty_list_step true b <> EnvPanic.
Proof. destruct b; discriminate. Qed.

Lemma env_empty_list_pinned_refuted : exists b, env_empty_list_step false b = EnvPanic.
Proof. exists true. reflexivity. Qed.

Lemma env_subkey_no_panic b : env_subkey_step true b <> EnvPanic.
Proof. destruct b; discriminate. Qed.

Lemma env_subkey_pinned_refuted : exists b, env_subkey_step false b = EnvPanic.
Proof. exists true. reflexivity. Qed.

(* ---------------------------------------------------------------- power of two *)
Lemma land_even_odd a b : Z.land (2 * a) (2 * b + 1) = 2 * Z.land a b.
Proof.
  apply Z.bits_inj'. intros n Hn. rewrite Z.land_spec.
  destruct (Z.eq_dec n 0) as [->|Hne].
  - rewrite Z.testbit_even_0. rewrite Z.testbit_even_0. reflexivity.
  - replace n with (Z.succ (n - 1)) by lia.
    rewrite Z.testbit_even_succ, Z.testbit_odd_succ, Z.testbit_even_succ by lia.
    rewrite Z.land_spec. reflexivity.
Qed.

Lemma land_odd_even a : Z.land (2 * a + 1) (2 * a) = 2 * a.
Proof.
  apply Z.bits_inj'. intros n Hn. rewrite Z.land_spec.
  destruct (Z.eq_dec n 0) as [->|Hne].
  - rewrite Z.testbit_odd_0, Z.testbit_even_0. reflexivity.
  - replace n with (Z.succ (n - 1)) by lia.
    rewrite Z.testbit_odd_succ, Z.testbit_even_succ by lia. apply andb_diag.
Qed.

(* the test of Conf.Validate: x > 0 and x & (x-1) == 0 means x is a power of two *)
Lemma land_pred_pow2_pos p : Z.land (Zpos p) (Zpos p - 1) = 0 -> exists k, 0 <= k /\ Zpos p = 2 ^ k.
Proof.
  induction p as [q IH|q IH|]; intros H.
  - exfalso. rewrite Pos2Z.inj_xI in H. replace (2 * Z.pos q + 1 - 1) with (2 * Z.pos q) in H by lia.
    rewrite land_odd_even in H. lia.
  - rewrite Pos2Z.inj_xO in H. replace (2 * Z.pos q - 1) with (2 * (Z.pos q - 1) + 1) in H by lia.
    rewrite land_even_odd in H.
    destruct IH as (k & Hk & Hq); [lia|].
    exists (k + 1). split; [lia|]. rewrite Pos2Z.inj_xO, Hq, Z.pow_add_r by lia. lia.
  - exists 0. split; [lia|reflexivity].
Qed.

Lemma land_pred_pow2 x : 0 < x -> Z.land x (x - 1) = 0 -> exists k, 0 <= k /\ x = 2 ^ k.
Proof. intros Hx H. destruct x as [|p|p]; try lia. apply land_pred_pow2_pos; exact H. Qed.

Lemma pow2_land_pred k : 0 <= k -> Z.land (2 ^ k) (2 ^ k - 1) = 0.
Proof.
  intros Hk. replace (2 ^ k - 1) with (Z.ones k) by (rewrite Z.ones_equiv; lia).
  rewrite Z.land_ones by exact Hk. apply Z_mod_same_full.
Qed.

Lemma is_pow2_fuel_sound n : forall x, is_pow2_fuel n x = true -> exists k, 0 <= k /\ x = 2 ^ k.
Proof.
  induction n as [|n IH]; intros x H; simpl in H; [discriminate|].
  apply orb_true_iff in H as [H|H].
  - exists 0. split; [lia|]. apply Z.eqb_eq in H. subst; reflexivity.
  - apply andb_true_iff in H as (H & Hr). apply andb_true_iff in H as (Hpos & Hev).
    destruct (IH _ Hr) as (k & Hk & Hx). exists (k + 1). split; [lia|].
    apply Z.even_spec in Hev. destruct Hev as (y & ->).
    rewrite Z.mul_comm, Z.div_mul in Hx by lia. rewrite Z.pow_add_r by lia. lia.
Qed.

Lemma is_pow2_fuel_complete n : forall k, 0 <= k < Z.of_nat n -> is_pow2_fuel n (2 ^ k) = true.
Proof.
  induction n as [|n IH]; intros k Hk; [lia|]. cbn [is_pow2_fuel].
  destruct (Z.eq_dec k 0) as [->|Hne]; [reflexivity|].
  apply orb_true_iff. right.
  replace k with ((k - 1) + 1) by lia. rewrite Z.pow_add_r by lia. change (2 ^ 1) with 2.
  assert (0 < 2 ^ (k - 1)) by (apply Z.pow_pos_nonneg; lia).
  rewrite Z.div_mul by lia. rewrite IH by lia.
  rewrite Z.even_mul. simpl. rewrite orb_true_r.
  destruct (0 <? 2 ^ (k - 1) * 2) eqn:E; [reflexivity|lia].
Qed.

Lemma land_check_is_pow2 x : 0 < x < 2 ^ 63 -> Z.land x (x - 1) = 0 -> is_pow2 x = true.
Proof.
  intros Hx H. destruct (land_pred_pow2 x) as (k & Hk & ->); [lia|exact H|].
  apply is_pow2_fuel_complete. split; [exact Hk|].
  destruct (Z_lt_ge_dec k 63) as [Hlt|Hge]; [simpl; lia|].
  exfalso. assert (2 ^ 63 <= 2 ^ k) by (apply Z.pow_le_mono_r; lia). lia.
Qed.

(* ---------------------------------------------------------------- strings *)
Lemma list_eqb_eq a : forall b, list_eqb a b = true <-> a = b.
Proof.
  induction a as [|x r IH]; intros [|y s]; simpl; split; intros H; try discriminate; auto.
  - apply andb_true_iff in H as (Hx & Hr). apply Z.eqb_eq in Hx. apply IH in Hr. subst; auto.
  - inversion H; subst. rewrite Z.eqb_refl. simpl. apply IH. reflexivity.
Qed.

Lemma prefix_b_spec p : forall s, prefix_b p s = true <-> exists t, s = p ++ t.
Proof.
  induction p as [|x r IH]; intros s; simpl.
  - split; [intros _; exists s; reflexivity|auto].
  - destruct s as [|y t].
    + split; [discriminate|intros (u & Hu); discriminate].
    + split.
      * intros H. apply andb_true_iff in H as (Hx & Hr). apply Z.eqb_eq in Hx. apply IH in Hr as (u & ->).
        subst. exists u. reflexivity.
      * intros (u & Hu). inversion Hu; subst. rewrite Z.eqb_refl. simpl. apply IH. exists u; reflexivity.
Qed.

(* strings.Contains: the pattern occurs as a contiguous substring *)
Lemma contains_spec p : forall s, contains p s = true <-> exists a b, s = a ++ p ++ b.
Proof.
  induction s as [|y t IH].
  - simpl. rewrite orb_false_r. rewrite prefix_b_spec. split.
    + intros (u & Hu). exists [], u. exact Hu.
    + intros (a & b & H). destruct a; simpl in H; [exists b; exact H|discriminate].
  - cbn [contains]. rewrite orb_true_iff, prefix_b_spec, IH. split.
    + intros [(u & Hu)|(a & b & H)]; [exists [], u; exact Hu|exists (y :: a), b; rewrite H; reflexivity].
    + intros (a & b & H). destruct a as [|z a]; simpl in H.
      * left. exists b. exact H.
      * right. inversion H; subst. exists a, b. reflexivity.
Qed.
