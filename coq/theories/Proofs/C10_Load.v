(* Proofs for C10: no out-of-range slice in the repaired Decrypt, no Addr-on-zero-Value in the
   repaired env map step, the bit-level power-of-two lemma, and validate g = Ok o -> documented o. *)
From Coq Require Import List ZArith Bool Lia ZifyBool Arith.
Require Import MTX.Model.C10_Load.
Import ListNotations.
Local Open Scope Z_scope.

(* ---------------------------------------------------------------- decrypt *)
Lemma decrypt_no_panic b64 sopen key byts : decrypt true b64 sopen key byts <> DPanic.
Proof.
  unfold decrypt. destruct (b64 byts) as [enc|]; [|discriminate].
  destruct (Z.of_nat (length enc) <? 24) eqn:Hl; simpl; [discriminate|].
  destruct (sopen _ _ _); discriminate.
Qed.

Lemma decrypt_file_no_panic b64 sopen k1 k2 byts : decrypt_file true b64 sopen k1 k2 byts <> DPanic.
Proof.
  unfold decrypt_file. destruct k1 as [a|], k2 as [b|]; simpl.
  - pose proof (decrypt_no_panic b64 sopen a byts) as Ha.
    destruct (decrypt true b64 sopen a byts) eqn:H1; try exact Ha. apply decrypt_no_panic.
  - pose proof (decrypt_no_panic b64 sopen a byts) as Ha.
    destruct (decrypt true b64 sopen a byts) eqn:H1; exact Ha.
  - apply decrypt_no_panic.
  - discriminate.
Qed.

(* what a successful decryption is: nonce = first 24 bytes, box = the rest *)
Lemma decrypt_ok_inv b64 sopen key byts p :
  decrypt true b64 sopen key byts = DOk p ->
  exists enc, b64 byts = Some enc /\ (24 <= length enc)%nat /\
              sopen (key32 key) (firstn 24 enc) (skipn 24 enc) = Some p.
Proof.
  unfold decrypt. destruct (b64 byts) as [enc|]; [|discriminate].
  destruct (Z.of_nat (length enc) <? 24) eqn:Hl; simpl; [discriminate|].
  destruct (sopen _ _ _) eqn:Ho; [|discriminate]. intros H; inversion H; subst.
  exists enc. repeat split; auto. lia.
Qed.

(* the pinned code: any input whose base64 decoding is shorter than 24 bytes panics *)
Lemma decrypt_pinned_panics b64 sopen key byts enc :
  b64 byts = Some enc -> (length enc < 24)%nat -> decrypt false b64 sopen key byts = DPanic.
Proof.
  intros Hb Hl. unfold decrypt. rewrite Hb. simpl.
  destruct (Z.of_nat (length enc) <? 24) eqn:H; [reflexivity|lia].
Qed.

Lemma decrypt_pinned_refuted :
  exists b64 sopen key byts, decrypt false b64 sopen key byts = DPanic.
Proof.
  (* "AAAA" decodes to three zero bytes *)
  exists (fun _ => Some [0;0;0]), (fun _ _ _ => None), [107], [65;65;65;65]. reflexivity.
Qed.

(* ---------------------------------------------------------------- env map step *)
Lemma env_map_step_no_panic e : env_map_step true e <> EnvPanic.
Proof. destruct e; discriminate. Qed.

Lemma env_map_step_pinned_refuted : exists e, env_map_step false e = EnvPanic.
Proof. exists ENil. reflexivity. Qed.

Lemma env_empty_list_no_panic b : env_empty_list_step true b <> EnvPanic.
Proof. destruct b; discriminate. Qed.

Lemma env_empty_list_pinned_refuted : exists b, env_empty_list_step false b = EnvPanic.
Proof. exists true. reflexivity. Qed.

Lemma env_subkey_no_panic b : env_subkey_step true b <> EnvPanic.
Proof. destruct b; discriminate. Qed.

Lemma env_subkey_pinned_refuted : exists b, env_subkey_step false b = EnvPanic.
Proof. exists true. reflexivity. Qed.

(* ---------------------------------------------------------------- power of two *)
Lemma land_even_odd a b : Z.land (2 * a) (2 * b + 1) = 2 * Z.land a b.
Proof.
  apply Z.bits_inj'. intros n Hn. rewrite Z.land_spec.
  destruct (Z.eq_dec n 0) as [->|Hne].
  - rewrite Z.testbit_even_0. rewrite Z.testbit_even_0. reflexivity.
  - replace n with (Z.succ (n - 1)) by lia.
    rewrite Z.testbit_even_succ, Z.testbit_odd_succ, Z.testbit_even_succ by lia.
    rewrite Z.land_spec. reflexivity.
Qed.

Lemma land_odd_even a : Z.land (2 * a + 1) (2 * a) = 2 * a.
Proof.
  apply Z.bits_inj'. intros n Hn. rewrite Z.land_spec.
  destruct (Z.eq_dec n 0) as [->|Hne].
  - rewrite Z.testbit_odd_0, Z.testbit_even_0. reflexivity.
  - replace n with (Z.succ (n - 1)) by lia.
    rewrite Z.testbit_odd_succ, Z.testbit_even_succ by lia. apply andb_diag.
Qed.

(* the test of Conf.Validate: x > 0 and x & (x-1) == 0 means x is a power of two *)
Lemma land_pred_pow2_pos p : Z.land (Zpos p) (Zpos p - 1) = 0 -> exists k, 0 <= k /\ Zpos p = 2 ^ k.
Proof.
  induction p as [q IH|q IH|]; intros H.
  - exfalso. rewrite Pos2Z.inj_xI in H. replace (2 * Z.pos q + 1 - 1) with (2 * Z.pos q) in H by lia.
    rewrite land_odd_even in H. lia.
  - rewrite Pos2Z.inj_xO in H. replace (2 * Z.pos q - 1) with (2 * (Z.pos q - 1) + 1) in H by lia.
    rewrite land_even_odd in H.
    destruct IH as (k & Hk & Hq); [lia|].
    exists (k + 1). split; [lia|]. rewrite Pos2Z.inj_xO, Hq, Z.pow_add_r by lia. lia.
  - exists 0. split; [lia|reflexivity].
Qed.

Lemma land_pred_pow2 x : 0 < x -> Z.land x (x - 1) = 0 -> exists k, 0 <= k /\ x = 2 ^ k.
Proof. intros Hx H. destruct x as [|p|p]; try lia. apply land_pred_pow2_pos; exact H. Qed.

Lemma pow2_land_pred k : 0 <= k -> Z.land (2 ^ k) (2 ^ k - 1) = 0.
Proof.
  intros Hk. replace (2 ^ k - 1) with (Z.ones k) by (rewrite Z.ones_equiv; lia).
  rewrite Z.land_ones by exact Hk. apply Z_mod_same_full.
Qed.

Lemma is_pow2_fuel_sound n : forall x, is_pow2_fuel n x = true -> exists k, 0 <= k /\ x = 2 ^ k.
Proof.
  induction n as [|n IH]; intros x H; simpl in H; [discriminate|].
  apply orb_true_iff in H as [H|H].
  - exists 0. split; [lia|]. apply Z.eqb_eq in H. subst; reflexivity.
  - apply andb_true_iff in H as (H & Hr). apply andb_true_iff in H as (Hpos & Hev).
    destruct (IH _ Hr) as (k & Hk & Hx). exists (k + 1). split; [lia|].
    apply Z.even_spec in Hev. destruct Hev as (y & ->).
    rewrite Z.mul_comm, Z.div_mul in Hx by lia. rewrite Z.pow_add_r by lia. lia.
Qed.

Lemma is_pow2_fuel_complete n : forall k, 0 <= k < Z.of_nat n -> is_pow2_fuel n (2 ^ k) = true.
Proof.
  induction n as [|n IH]; intros k Hk; [lia|]. cbn [is_pow2_fuel].
  destruct (Z.eq_dec k 0) as [->|Hne]; [reflexivity|].
  apply orb_true_iff. right.
  replace k with ((k - 1) + 1) by lia. rewrite Z.pow_add_r by lia. change (2 ^ 1) with 2.
  assert (0 < 2 ^ (k - 1)) by (apply Z.pow_pos_nonneg; lia).
  rewrite Z.div_mul by lia. rewrite IH by lia.
  rewrite Z.even_mul. simpl. rewrite orb_true_r.
  destruct (0 <? 2 ^ (k - 1) * 2) eqn:E; [reflexivity|lia].
Qed.

Lemma land_check_is_pow2 x : 0 < x < 2 ^ 63 -> Z.land x (x - 1) = 0 -> is_pow2 x = true.
Proof.
  intros Hx H. destruct (land_pred_pow2 x) as (k & Hk & ->); [lia|exact H|].
  apply is_pow2_fuel_complete. split; [exact Hk|].
  destruct (Z_lt_ge_dec k 63) as [Hlt|Hge]; [simpl; lia|].
  exfalso. assert (2 ^ 63 <= 2 ^ k) by (apply Z.pow_le_mono_r; lia). lia.
Qed.

(* ---------------------------------------------------------------- strings *)
Lemma list_eqb_eq a : forall b, list_eqb a b = true <-> a = b.
Proof.
  induction a as [|x r IH]; intros [|y s]; simpl; split; intros H; try discriminate; auto.
  - apply andb_true_iff in H as (Hx & Hr). apply Z.eqb_eq in Hx. apply IH in Hr. subst; auto.
  - inversion H; subst. rewrite Z.eqb_refl. simpl. apply IH. reflexivity.
Qed.

Lemma prefix_b_spec p : forall s, prefix_b p s = true <-> exists t, s = p ++ t.
Proof.
  induction p as [|x r IH]; intros s; simpl.
  - split; [intros _; exists s; reflexivity|auto].
  - destruct s as [|y t].
    + split; [discriminate|intros (u & Hu); discriminate].
    + split.
      * intros H. apply andb_true_iff in H as (Hx & Hr). apply Z.eqb_eq in Hx. apply IH in Hr as (u & ->).
        subst. exists u. reflexivity.
      * intros (u & Hu). inversion Hu; subst. rewrite Z.eqb_refl. simpl. apply IH. exists u; reflexivity.
Qed.

(* strings.Contains: the pattern occurs as a contiguous substring *)
Lemma contains_spec p : forall s, contains p s = true <-> exists a b, s = a ++ p ++ b.
Proof.
  induction s as [|y t IH].
  - simpl. rewrite orb_false_r. rewrite prefix_b_spec. split.
    + intros (u & Hu). exists [], u. exact Hu.
    + intros (a & b & H). destruct a; simpl in H; [exists b; exact H|discriminate].
  - cbn [contains]. rewrite orb_true_iff, prefix_b_spec, IH. split.
    + intros [(u & Hu)|(a & b & H)]; [exists [], u; exact Hu|exists (y :: a), b; rewrite H; reflexivity].
    + intros (a & b & H). destruct a as [|z a]; simpl in H.
      * left. exists b. exact H.
      * right. inversion H; subst. exists a, b. reflexivity.
Qed.

(* ---------------------------------------------------------------- Path.validate *)
Lemma set_regex_fields p r :
  p_regex (set_regex p r) = r /\ p_name (set_regex p r) = p_name p /\ p_source (set_regex p r) = p_source p /\
  p_cam (set_regex p r) = p_cam p /\ p_secondary (set_regex p r) = p_secondary p.
Proof. repeat split. Qed.

Definition rpi_facts (all : list pathc) (taken taken' : list Z) (p : pathc) : Prop :=
  match p_source p with
  | SRpi =>
      if p_secondary p
      then (1 <= primaries_with (p_cam p) all)%nat /\ ~ In (p_cam p) taken /\ taken' = p_cam p :: taken
      else (primaries_with (p_cam p) all <= 1)%nat /\ taken' = taken
  | _ => taken' = taken
  end.

Local Opaque record_path_ok.
Lemma validate_path_ok pb all taken p p' taken' :
  validate_path pb all taken p = Ok (p', taken') ->
  p' = set_regex p (name_is_regex (p_name p)) /\
  path_documented_b pb p' = true /\
  rpi_facts all taken taken' p.
Proof.
  unfold validate_path. destruct (path_ok pb all taken p) eqn:Hok; [|discriminate].
  intros H; inversion H; subst p' taken'; clear H.
  split; [reflexivity|].
  unfold path_ok in Hok.
  set (re := name_is_regex (p_name p)) in *. set (s := p_source p) in *.
  apply andb_true_iff in Hok as [Hok H15].
  apply andb_true_iff in Hok as [Hok H14]. apply andb_true_iff in Hok as [Hok H13].
  apply andb_true_iff in Hok as [Hok H12]. apply andb_true_iff in Hok as [Hok H11].
  apply andb_true_iff in Hok as [Hok H10]. apply andb_true_iff in Hok as [Hok H9].
  apply andb_true_iff in Hok as [Hok H8]. apply andb_true_iff in Hok as [Hok H7].
  apply andb_true_iff in Hok as [Hok H6]. apply andb_true_iff in Hok as [Hok H5].
  apply andb_true_iff in Hok as [Hok H4]. apply andb_true_iff in Hok as [Hok H3].
  apply andb_true_iff in Hok as [H1 H2].
  split.
  - unfold path_documented_b.
    cbn [p_regex p_name p_record_path p_seg p_del p_source p_on_demand p_srt_read
         p_srt_pub p_run_init p_run_demand p_aa p_abs_ts p_redirect p_tracks set_regex].
    fold re. fold s.
    repeat (apply andb_true_iff; split).
    + apply eqb_reflx.
    + exact H10.
    + clear - H11. lia.
    + clear - H12. lia.
    + clear - H6. destruct (p_on_demand p), (is_static s), re; simpl in *; congruence.
    + clear - H5. destruct (p_on_demand p), (src_eqb s SPublisher); simpl in *; congruence.
    + clear - H7. unfold srt_len_ok in *. lia.
    + clear - H2 H4. unfold source_ok in H4. subst s.
      destruct (p_source p) as [| | |[]|]; simpl in *; unfold srt_len_ok in *; try lia.
    + clear - H13. destruct (p_run_init p), re; simpl in *; congruence.
    + clear - H14. destruct (p_run_demand p), (src_eqb s SPublisher); simpl in *; congruence.
    + clear - H9. destruct (p_aa p), re, (p_on_demand p), (p_run_demand p), (p_aa_src_ok p), (p_abs_ts p); simpl in *; try congruence;
        try reflexivity.
    + clear - H4. unfold source_ok in H4. subst s. destruct (p_source p) as [| | |[]|]; simpl in *; congruence.
    + clear - H4. unfold source_ok in H4. subst s. destruct (p_source p) as [| | |[]|]; simpl in *; congruence.
    + clear - H3. destruct (p_redirect p), (src_eqb s SRedirect); simpl in *; congruence.
    + exact H15.
  - clear - H4. unfold rpi_facts, source_ok in *. subst s.
    destruct (p_source p) as [| | |ok|]; simpl; try reflexivity.
    apply andb_true_iff in H4 as [_ H4].
    destruct (p_secondary p); simpl.
    + apply andb_true_iff in H4 as [Ha Hb]. apply negb_true_iff in Ha, Hb.
      apply Nat.eqb_neq in Ha. repeat split; [lia|].
      intros Hin. assert (Ht : existsb (Z.eqb (p_cam p)) taken = true); [|rewrite Ht in Hb; discriminate].
      apply existsb_exists. exists (p_cam p). split; [exact Hin|apply Z.eqb_refl].
    + apply negb_true_iff in H4. apply Nat.ltb_ge in H4. split; [exact H4|reflexivity].
Qed.
Local Transparent record_path_ok.

(* ---------------------------------------------------------------- all paths *)
Definition fill (p : pathc) : pathc := set_regex p (name_is_regex (p_name p)).

Lemma primaries_with_fill c ps : primaries_with c (map fill ps) = primaries_with c ps.
Proof.
  unfold primaries_with. induction ps as [|q r IH]; simpl; auto.
  unfold is_primary in *. cbn [fill set_regex p_source p_secondary p_cam].
  destruct (src_eqb (p_source q) SRpi && negb (p_secondary q) && (p_cam q =? c)); simpl; auto.
Qed.

Lemma sec_cams_fill ps : sec_cams (map fill ps) = sec_cams ps.
Proof.
  unfold sec_cams. induction ps as [|q r IH]; simpl; auto.
  unfold is_sec in *. cbn [fill set_regex p_source p_secondary p_cam].
  destruct (src_eqb (p_source q) SRpi && p_secondary q); simpl; rewrite IH; auto.
Qed.

Lemma nodup_b_of_NoDup l : NoDup l -> nodup_b l = true.
Proof.
  induction 1 as [|x r Hx _ IH]; simpl; auto.
  rewrite IH, andb_true_r. apply negb_true_iff.
  destruct (existsb (Z.eqb x) r) eqn:E; auto.
  apply existsb_exists in E as (y & Hy & Hxy). apply Z.eqb_eq in Hxy. subst. contradiction.
Qed.

Lemma nodup_b_NoDup l : nodup_b l = true -> NoDup l.
Proof.
  induction l as [|x r IH]; simpl; intros H; constructor.
  - apply andb_true_iff in H as [H _]. apply negb_true_iff in H. intros Hin.
    assert (existsb (Z.eqb x) r = true); [|congruence].
    apply existsb_exists. exists x. split; [exact Hin|apply Z.eqb_refl].
  - apply IH. apply andb_true_iff in H as [_ H]. exact H.
Qed.

Definition rpi_one (all : list pathc) (p : pathc) : bool :=
  negb (src_eqb (p_source p) SRpi) ||
  if p_secondary p then Nat.leb 1 (primaries_with (p_cam p) all) else Nat.leb (primaries_with (p_cam p) all) 1.

Lemma validate_paths_ok pb all : forall ps taken ps',
  validate_paths pb all taken ps = Ok ps' ->
  ps' = map fill ps /\
  forallb (path_documented_b pb) ps' = true /\
  forallb (rpi_one all) ps = true /\
  (forall c, In c (sec_cams ps) -> ~ In c taken) /\ NoDup (sec_cams ps).
Proof.
  induction ps as [|p r IH]; intros taken ps' H; simpl in H.
  - inversion H; subst. repeat split; auto; try constructor; try (intros c Hc; inversion Hc).
  - destruct (validate_path pb all taken p) as [[p1 t1]|] eqn:Hp; [|discriminate].
    destruct (validate_paths pb all t1 r) as [r1|] eqn:Hr; [|discriminate].
    inversion H; subst ps'; clear H.
    destruct (validate_path_ok _ _ _ _ _ _ Hp) as (-> & Hdoc & Hrpi).
    destruct (IH _ _ Hr) as (-> & Hdocs & Hones & Hnot & Hnd).
    split; [reflexivity|]. split; [simpl; rewrite Hdoc, Hdocs; reflexivity|].
    unfold rpi_facts in Hrpi. unfold sec_cams, is_sec in *. simpl.
    unfold rpi_one at 1.
    destruct (p_source p) as [| | |ok|] eqn:Hs; simpl; try (subst t1; repeat split; auto; fail).
    destruct (p_secondary p) eqn:Hsec; simpl.
    + destruct Hrpi as (Hge & Hnt & ->).
      split; [|split].
      * rewrite Hones, andb_true_r. destruct (primaries_with (p_cam p) all); [lia|reflexivity].
      * intros c [<-|Hc]; [exact Hnt|]. intros Hin. apply (Hnot c Hc). right; exact Hin.
      * constructor; [|exact Hnd]. intros Hin. apply (Hnot _ Hin). left; reflexivity.
    + destruct Hrpi as (Hle & ->).
      split; [|split; auto].
      rewrite Hones, andb_true_r. destruct (primaries_with (p_cam p) all) as [|[|n]]; try reflexivity; lia.
Qed.

(* ---------------------------------------------------------------- Conf.Validate *)
Theorem validate_documented g o :
  validate g = Ok o ->
  (match g_read_buffer_count g with Some x => x | None => g_wqs g end) < 2 ^ 63 ->
  documented_b o = true.
Proof.
  unfold validate. intros H Hrange.
  set (wqs := match g_read_buffer_count g with Some x => x | None => g_wqs g end) in *.
  destruct (g_read_to g <=? 0) eqn:H1; [discriminate|].
  destruct (g_write_to g <=? 0) eqn:H2; [discriminate|].
  destruct (wqs <=? 0) eqn:H3; [discriminate|].
  destruct (negb (Z.land wqs (wqs - 1) =? 0)) eqn:H4; [discriminate|].
  destruct (1472 <? g_udp g) eqn:H5; [discriminate|].
  destruct (negb (g_other_ok g)) eqn:H6; [discriminate|].
  destruct (Nat.ltb 1 (length (filter (fun p => is_alias (p_name p)) (g_paths g)))) eqn:H7; [discriminate|].
  destruct (validate_paths (g_playback g) (g_paths g) [] (g_paths g)) as [ps|] eqn:Hps; [|discriminate].
  inversion H; subst o; clear H.
  destruct (validate_paths_ok _ _ _ _ _ Hps) as (-> & Hdocs & Hones & _ & Hnd).
  unfold documented_b. cbn [g_read_to g_write_to g_wqs g_udp g_paths g_playback].
  repeat (apply andb_true_iff; split).
  - lia.
  - lia.
  - apply land_check_is_pow2; [lia|]. apply negb_false_iff in H4. apply Z.eqb_eq in H4. exact H4.
  - lia.
  - apply Nat.leb_le. apply Nat.ltb_ge in H7.
    assert (Hf : forall l, length (filter (fun p => is_alias (p_name p)) (map fill l)) =
                           length (filter (fun p => is_alias (p_name p)) l)).
    { induction l as [|q r IH]; simpl; auto. cbn [fill set_regex p_name].
      destruct (is_alias (p_name q)); simpl; rewrite IH; auto. }
    rewrite Hf. exact H7.
  - exact Hdocs.
  - rewrite forallb_forall in *. intros q Hq. apply in_map_iff in Hq as (q0 & <- & Hq0).
    specialize (Hones q0 Hq0). unfold rpi_one in Hones.
    cbn [fill set_regex p_source p_secondary p_cam]. rewrite primaries_with_fill. exact Hones.
  - rewrite sec_cams_fill. apply nodup_b_of_NoDup. exact Hnd.
Qed.

(* ---------------------------------------------------------------- what documented_b means *)
Definition has (pat s : list Z) : Prop := exists a b, s = a ++ pat ++ b.

Theorem documented_meaning g : documented_b g = true ->
  0 < g_read_to g /\ 0 < g_write_to g /\
  (exists k, 0 <= k /\ g_wqs g = 2 ^ k) /\
  g_udp g <= 1472 /\
  (length (filter (fun p => is_alias (p_name p)) (g_paths g)) <= 1)%nat /\
  NoDup (sec_cams (g_paths g)) /\
  forall p, In p (g_paths g) ->
    (p_regex p = true <-> (p_name p = s_all \/ p_name p = s_all_others \/ exists r, p_name p = 126 :: r)) /\
    has ph_path (p_record_path p) /\
    (has (ph 115) (p_record_path p) \/
     (has (ph 89) (p_record_path p) /\ has (ph 109) (p_record_path p) /\ has (ph 100) (p_record_path p) /\
      has (ph 72) (p_record_path p) /\ has (ph 77) (p_record_path p) /\ has (ph 83) (p_record_path p))) /\
    (g_playback g = true -> has (ph 102) (p_record_path p)) /\
    p_seg p <= day_ns /\ (p_del p = 0 \/ p_seg p <= p_del p) /\
    (p_regex p = true -> p_source p <> SPublisher -> p_source p <> SRedirect -> p_on_demand p = true) /\
    (p_on_demand p = true -> p_source p <> SPublisher) /\
    (p_source p = SRpi -> p_secondary p = false -> (primaries_with (p_cam p) (g_paths g) <= 1)%nat) /\
    (p_source p = SRpi -> p_secondary p = true -> (1 <= primaries_with (p_cam p) (g_paths g))%nat) /\
    (forall t, In t (p_tracks p) -> track_ok t = true).
Proof.
  unfold documented_b. intros H.
  apply andb_true_iff in H as [H Hrpi]. apply andb_true_iff in H as [H Hpaths].
  apply andb_true_iff in H as [H Halias]. apply andb_true_iff in H as [H Hudp].
  apply andb_true_iff in H as [H Hpow]. apply andb_true_iff in H as [Hr Hw].
  unfold rpi_documented_b in Hrpi. apply andb_true_iff in Hrpi as [Hone Hnd].
  split; [lia|]. split; [lia|]. split; [eapply is_pow2_fuel_sound; exact Hpow|]. split; [lia|].
  split; [apply Nat.leb_le; exact Halias|]. split; [apply nodup_b_NoDup; exact Hnd|].
  intros p Hp. rewrite forallb_forall in Hpaths, Hone. specialize (Hpaths p Hp). specialize (Hone p Hp).
  clear Hr Hw Hpow Hudp Halias Hnd.
  unfold path_documented_b in Hpaths.
  apply andb_true_iff in Hpaths as [Hpaths Ho].
  apply andb_true_iff in Hpaths as [Hpaths Hn]. apply andb_true_iff in Hpaths as [Hpaths Hm].
  apply andb_true_iff in Hpaths as [Hpaths Hl]. apply andb_true_iff in Hpaths as [Hpaths Hk].
  apply andb_true_iff in Hpaths as [Hpaths Hj]. apply andb_true_iff in Hpaths as [Hpaths Hi].
  apply andb_true_iff in Hpaths as [Hpaths Hh]. apply andb_true_iff in Hpaths as [Hpaths Hg].
  apply andb_true_iff in Hpaths as [Hpaths Hf]. apply andb_true_iff in Hpaths as [Hpaths He].
  apply andb_true_iff in Hpaths as [Hpaths Hd]. apply andb_true_iff in Hpaths as [Hpaths Hc].
  apply andb_true_iff in Hpaths as [Ha Hb].
  clear Hn Hm Hl Hk Hj Hi Hh Hg.
  unfold record_path_ok in Hb.
  apply andb_true_iff in Hb as [Hb Hb3]. apply andb_true_iff in Hb as [Hb1 Hb2].
  split.
  { clear - Ha. apply eqb_prop in Ha. rewrite Ha. unfold name_is_regex.
    rewrite !orb_true_iff, !list_eqb_eq. split.
    - intros [[H1|H1]|H1]; auto. destruct (p_name p) as [|c r]; [discriminate|].
      right; right. destruct (Z.eq_dec c 126) as [->|Hne]; [eexists; reflexivity|].
      exfalso. destruct (Z.eqb_spec c 126) as [|Hx]; [contradiction|].
      destruct c as [|c|c]; try discriminate.
      do 8 (destruct c as [c|c|]; try discriminate; try (apply Hne; reflexivity)).
    - intros [H1|[H1|(r & H1)]]; auto. right. rewrite H1. reflexivity. }
  split; [apply contains_spec; exact Hb1|].
  split.
  { clear - Hb2. apply orb_true_iff in Hb2 as [Hx|Hx]; [left; apply contains_spec; exact Hx|]. right.
    apply andb_true_iff in Hx as [Hx H6]. apply andb_true_iff in Hx as [Hx H5].
    apply andb_true_iff in Hx as [Hx H4]. apply andb_true_iff in Hx as [Hx H3].
    apply andb_true_iff in Hx as [H1 H2].
    repeat split; apply contains_spec; assumption. }
  split.
  { clear - Hb3. intros Hpb. rewrite Hpb in Hb3. simpl in Hb3. apply contains_spec; exact Hb3. }
  split; [clear - Hc; lia|]. split; [clear - Hd; lia|].
  split.
  { clear - He. intros Hre Hnp Hnr. rewrite Hre in He.
    destruct (p_source p); simpl in He; try congruence; exact He. }
  split.
  { clear - Hf. intros Hod Hs. rewrite Hod, Hs in Hf. discriminate. }
  clear - Hone Ho.
  split; [|split]; [intros Hs Hsec; rewrite Hs, Hsec in Hone; simpl in Hone ..|].
  - destruct (primaries_with (p_cam p) (g_paths g)) as [|[|n]]; try discriminate; lia.
  - destruct (primaries_with (p_cam p) (g_paths g)) as [|n]; try discriminate; lia.
  - rewrite forallb_forall in Ho. exact Ho.
Qed.
