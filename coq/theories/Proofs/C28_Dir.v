(* C28 — proofs about the directory level model (Model/C28_Dir.v). *)
From Coq Require Import List ZArith Bool Lia Permutation.
Require Import MTX.Lib.IntWrap MTX.Model.C28_SegRead MTX.Model.C28_Dir MTX.Proofs.C28_SegRead.
Import ListNotations.
Local Open Scope Z_scope.

(* ---- the collecting loop ---- *)
Lemma collect_any received : forall err,
  collect KeepAny received err = err || existsb (fun b => b) received.
Proof.
  induction received as [|e r IH]; intros err; cbn [collect existsb].
  - now rewrite orb_false_r.
  - rewrite IH. destruct e, err; reflexivity.
Qed.

Lemma existsb_perm {A} (f : A -> bool) l l' : Permutation l l' -> existsb f l = existsb f l'.
Proof.
  induction 1; cbn [existsb]; try congruence.
  destruct (f x), (f y); reflexivity.
Qed.

Lemma existsb_map' {A B} (f : B -> bool) (g : A -> B) l : existsb f (map g l) = existsb (fun x => f (g x)) l.
Proof. induction l as [|a l IH]; cbn; [reflexivity|now rewrite IH]. Qed.

Lemma map_nth_seq' {A} (d : A) (rs : list A) : map (fun i => nth i rs d) (seq 0 (length rs)) = rs.
Proof.
  induction rs as [|a rs IH]; [reflexivity|].
  cbn [length seq map nth]. f_equal.
  rewrite <- seq_shift, map_map. exact IH.
Qed.

(* whatever the completion order, the loop ends with a non-nil error iff some goroutine sent one *)
Lemma received_any rs sched :
  Permutation sched (seq 0 (length rs)) ->
  collect KeepAny (map (fun i => sent (nth i rs Err)) sched) false = existsb sent rs.
Proof.
  intros HP. rewrite collect_any. cbn [orb].
  rewrite (existsb_perm _ _ _ (Permutation_map _ HP)).
  rewrite <- (map_map (fun i => nth i rs Err) sent), map_nth_seq'.
  rewrite existsb_map'. reflexivity.
Qed.

(* ---- parsed lists ---- *)
Lemma all_ok_shape rs : first_panic rs = None -> existsb sent rs = false -> exists ps, rs = map Ok ps.
Proof.
  induction rs as [|r rs IH]; intros HP HE.
  - exists []. reflexivity.
  - destruct r as [p| |w]; cbn in HP, HE; try discriminate.
    destruct (IH HP HE) as [ps ->]. exists (p :: ps). reflexivity.
Qed.

Lemma slot_ok ps : map slot (map Ok ps) = map Some ps.
Proof. rewrite map_map. reflexivity. Qed.

(* concatenateSegments on a list without nil slots: no panic, and at least one entry if there is a segment *)
Lemma concat_loop_ok ps : forall out prev,
  exists es, concat_loop (map Some ps) out prev = Ok es /\ (length out <= length es)%nat /\
             (ps <> [] -> (1 <= length es)%nat).
Proof.
  induction ps as [|p ps IH]; intros out prev; cbn [map concat_loop].
  - exists (rev out). rewrite rev_length. repeat split; [lia|congruence].
  - assert (forall out', (length out <= length out')%nat -> (1 <= length out')%nat ->
            exists es, concat_loop (map Some ps) out' (Some p) = Ok es /\ (length out <= length es)%nat /\
                       (p :: ps <> [] -> (1 <= length es)%nat)) as Step.
    { intros out' H1 H2. destruct (IH out' (Some p)) as (es & E & L & _).
      exists es. repeat split; [exact E|lia|intros _; lia]. }
    destruct out as [|e out'].
    + apply Step; cbn; lia.
    + destruct prev as [pi|]; [|apply Step; cbn; lia].
      destruct (can_cat pi (le_start e + le_dur e) p); apply Step; cbn; lia.
Qed.

Lemma concat_loop_nil_panics l1 l2 : forall out prev,
  concat_loop (map Some l1 ++ None :: l2) out prev = Panic NilDeref.
Proof.
  induction l1 as [|p l1 IH]; intros out prev; cbn [map app concat_loop]; [reflexivity|].
  destruct out as [|e out']; [apply IH|].
  destruct prev as [pi|]; [|apply IH].
  destruct (can_cat pi (le_start e + le_dur e) p); apply IH.
Qed.

(* ---- the tail of onList ---- *)
Lemma clip_start_ok st es : es <> [] ->
  clip_start st es = Ok None \/ exists es1, clip_start st es = Ok (Some es1) /\ es1 <> [].
Proof.
  destruct es as [|f rest]; [congruence|]. intros _. unfold clip_start.
  destruct (le_start f + le_dur f <? st).
  - destruct rest as [|g rest]; [left; reflexivity|right; eexists; split; [reflexivity|discriminate]].
  - destruct (le_start f <? st); right; eexists; (split; [reflexivity|discriminate]).
Qed.

Lemma clip_end_ok en es : es <> [] -> exists es2, clip_end en es = Ok es2.
Proof.
  intros Hne. unfold clip_end. destruct (rev es) as [|l r] eqn:E.
  - exfalso. apply Hne. apply (f_equal (@rev _)) in E. now rewrite rev_involutive in E.
  - destruct (en <? le_start l + le_dur l); eexists; reflexivity.
Qed.

Lemma length_pos_ne {A} (l : list A) : (1 <= length l)%nat -> l <> [].
Proof. destruct l; cbn; [lia|discriminate]. Qed.

(* ---- /list ---- *)
(* the result of parseAndConcatenate with the collecting loop of the code, for every completion order *)
Lemma parse_and_concatenate_spec rs sched :
  first_panic rs = None -> Permutation sched (seq 0 (length rs)) ->
  (existsb sent rs = true /\ parse_and_concatenate KeepAny rs sched = Err) \/
  (existsb sent rs = false /\ exists es, parse_and_concatenate KeepAny rs sched = Ok es /\ (rs <> [] -> es <> [])).
Proof.
  intros HP Hperm. unfold parse_and_concatenate, parse_segments. rewrite HP, (received_any _ _ Hperm).
  destruct (existsb sent rs) eqn:E; [left; split; reflexivity|right; split; [reflexivity|]].
  destruct (all_ok_shape rs HP E) as [ps ->]. rewrite slot_ok. unfold concatenate_segments.
  destruct (concat_loop_ok ps [] None) as (es & Ec & _ & Hn). exists es. split; [exact Ec|].
  intros Hne. apply length_pos_ne, Hn. intros ->. apply Hne. reflexivity.
Qed.

Lemma on_list_dir_no_panic rs sched st en w :
  first_panic rs = None -> Permutation sched (seq 0 (length rs)) ->
  on_list_dir KeepAny rs sched st en <> Panic w.
Proof.
  intros HP Hperm. unfold on_list_dir.
  destruct (match st with Some s => match en with Some e => e <? s | None => false end | None => false end);
    [discriminate|].
  destruct rs as [|r0 rs']; [discriminate|]. set (rs := r0 :: rs') in *.
  destruct (parse_and_concatenate_spec rs sched HP Hperm) as [(_ & ->)|(_ & es & -> & Hne)]; [discriminate|].
  assert (es <> []) as Hes by (apply Hne; discriminate).
  assert (forall es1, es1 <> [] ->
            match en with
            | Some en0 => match clip_end en0 es1 with
                          | Ok es2 => Ok (L200 es2) | Err => Err | Panic w0 => Panic w0 end
            | None => Ok (L200 es1)
            end <> Panic w) as Tail.
  { intros es1 H1. destruct en as [en0|]; [|discriminate].
    destruct (clip_end_ok en0 es1 H1) as [es2 ->]. discriminate. }
  destruct st as [st0|]; [|apply Tail, Hes].
  destruct (clip_start_ok st0 es Hes) as [->|(es1 & -> & H1)]; [discriminate|apply Tail, H1].
Qed.

(* status 500 exactly when one of the selected files cannot be parsed - for every completion order *)
Lemma on_list_dir_500_iff rs sched st en :
  first_panic rs = None -> Permutation sched (seq 0 (length rs)) -> rs <> [] ->
  match st, en with Some s, Some e => e <? s | _, _ => false end = false ->
  (on_list_dir KeepAny rs sched st en = Ok L500 <-> existsb sent rs = true).
Proof.
  intros HP Hperm Hne Hrev. unfold on_list_dir. rewrite Hrev.
  destruct rs as [|r0 rs']; [congruence|]. set (rs := r0 :: rs') in *.
  destruct (parse_and_concatenate_spec rs sched HP Hperm) as [(E & ->)|(E & es & -> & Hn)].
  - split; auto.
  - rewrite E. split; [|discriminate]. intros H. exfalso.
    assert (es <> []) as Hes by (apply Hn; discriminate).
    destruct st as [st0|].
    + destruct (clip_start_ok st0 es Hes) as [Hc|(es1 & Hc & H1)]; rewrite Hc in H; [discriminate|].
      destruct en as [en0|]; [|discriminate].
      destruct (clip_end_ok en0 es1 H1) as [es2 Hc2]. rewrite Hc2 in H. discriminate.
    + destruct en as [en0|]; [|discriminate].
      destruct (clip_end_ok en0 es Hes) as [es2 Hc2]. rewrite Hc2 in H. discriminate.
Qed.

(* the answer does not depend on the completion order of the goroutines *)
Lemma on_list_dir_sched_indep rs sched st en :
  Permutation sched (seq 0 (length rs)) ->
  on_list_dir KeepAny rs sched st en = on_list_dir KeepAny rs (seq 0 (length rs)) st en.
Proof.
  intros Hperm. unfold on_list_dir, parse_and_concatenate, parse_segments.
  rewrite (received_any _ _ Hperm), (received_any _ _ (Permutation_refl _)). reflexivity.
Qed.

(* ---- the collecting loop `err = <-ch` loses errors ---- *)
Definition w_seg : pseg := PS 1000 2000000000 None [(1, 90000, 1)].
Lemma keep_last_refuted :
  exists rs sched, first_panic rs = None /\ Permutation sched (seq 0 (length rs)) /\
    on_list_dir KeepLast rs sched None None = Panic NilDeref.
Proof.
  exists [Err; Ok w_seg], [0%nat; 1%nat]. repeat split; [apply Permutation_refl].
Qed.
(* with the same files and the same order the code answers 500; the order [1; 0] hides the defect of KeepLast *)
Lemma keep_last_same_input :
  on_list_dir KeepAny [Err; Ok w_seg] [0%nat; 1%nat] None None = Ok L500 /\
  on_list_dir KeepLast [Err; Ok w_seg] [1%nat; 0%nat] None None = Ok L500.
Proof. split; reflexivity. Qed.

(* any collecting discipline that can return nil although an error was sent makes concatenateSegments panic *)
Lemma nil_slot_panics l1 l2 : concatenate_segments (map Some l1 ++ None :: l2) = Panic NilDeref.
Proof. apply concat_loop_nil_panics. Qed.

(* non-vacuity: three files, the second unparsable -> 500; all parsable and contiguous -> one merged entry *)
Lemma list_nontrivial :
  on_list_dir KeepAny [Ok w_seg; Err; Ok (PS 5000000000 1 None [(1, 90000, 1)])] [2%nat; 0%nat; 1%nat] None None = Ok L500 /\
  on_list_dir KeepAny [Ok w_seg; Ok (PS 2000001000 3000000000 None [(1, 90000, 1)])] [1%nat; 0%nat] (Some 500000000) None
    = Ok (L200 [LE 500000000 4500001000]).
Proof. split; reflexivity. Qed.

(* ---- /get ---- *)
Definition gfile_ok (s : gfile) : Prop := (forall w, g_hdr s <> Panic w) /\ (forall w, g_mux s <> Panic w).

Lemma can_cat_mtxi prev pe cur : can_cat prev pe cur = true -> p_mtxi prev <> None -> p_mtxi cur <> None.
Proof.
  unfold can_cat, can_concat. destruct (p_mtxi prev) as [[a b]|], (p_mtxi cur) as [[c d]|]; congruence.
Qed.

Lemma get_loop_no_panic first : forall segs prev pe n w,
  Forall gfile_ok segs -> (first <> None -> p_mtxi prev <> None) -> get_loop first prev pe segs n <> Panic w.
Proof.
  induction segs as [|s rest IH]; intros prev pe n w HF Hp; cbn [get_loop]; [discriminate|].
  inversion HF as [|? ? [Hh Hm] HF']; subst.
  destruct (g_hdr s) as [init| |wh] eqn:Eh; [|discriminate|exfalso; eapply Hh; reflexivity].
  destruct (can_cat prev pe init) eqn:Ec; [|discriminate].
  assert (first <> None -> p_mtxi init <> None) as Hi.
  { intros Hf. eapply can_cat_mtxi; eauto. }
  destruct first as [f|].
  - destruct (p_mtxi init) as [mi|] eqn:Em; [|exfalso; apply Hi; [discriminate|reflexivity]].
    destruct (g_mux s) as [d| |wm] eqn:Emx; [|discriminate|exfalso; eapply Hm; reflexivity].
    apply IH; [exact HF'|]. intros _. rewrite Em. discriminate.
  - assert (match p_mtxi init with
            | Some _ | _ => match g_mux s with
                            | Ok d => get_loop None init (p_start init + d) rest (n + 1)
                            | Err => Err | Panic w0 => Panic w0 end
            end <> Panic w) as G.
    { destruct (g_mux s) as [d| |wm] eqn:Emx.
      - destruct (p_mtxi init); apply IH; auto; congruence.
      - destruct (p_mtxi init); discriminate.
      - exfalso; eapply Hm; reflexivity. }
    destruct (p_mtxi init); exact G.
Qed.

Lemma on_get_dir_no_panic found w : Forall gfile_ok found -> on_get_dir found <> Panic w.
Proof.
  intros HF. unfold on_get_dir. destruct found as [|f rest]; [discriminate|].
  inversion HF as [|? ? [Hh Hm] HF']; subst.
  destruct (g_hdr f) as [init| |wh] eqn:Eh; [|discriminate|exfalso; eapply Hh; reflexivity].
  destruct (g_mux f) as [d| |wm] eqn:Em; [|discriminate|exfalso; eapply Hm; reflexivity].
  pose proof (get_loop_no_panic (p_mtxi init) rest init (p_start init + d) 1) as G.
  destruct (get_loop (p_mtxi init) init (p_start init + d) rest 1) as [n| |wg] eqn:Eg; try discriminate.
  exfalso. eapply G; eauto.
Qed.

(* a later file that cannot be read ends the request with an error, never a panic; a first file -> 400 *)
Lemma get_nontrivial :
  on_get_dir [GF (Ok w_seg) (Ok 2000000000); GF Err Err] = Ok GFailed /\
  on_get_dir [GF Err Err; GF (Ok w_seg) (Ok 2000000000)] = Ok GBadFirst /\
  on_get_dir [GF (Ok w_seg) (Ok 2000000000); GF (Ok (PS 2000001000 0 None [(1, 90000, 1)])) (Ok 5)] = Ok (GMuxed 2).
Proof. repeat split; reflexivity. Qed.

(* ---- composition with the byte level model ---- *)
Definition file_ok (f : dfile) : Prop :=
  wf_bytes (f_data f) = true /\ (forall n tracks, f_init f n = InitOk tracks -> ts_nonzero tracks = true).

Lemma file_parse_no_panic f w : file_ok f -> file_parse f <> Panic w.
Proof.
  intros [Hw Hi]. unfold file_parse.
  pose proof (proj1 (parse_segment_spec (f_data f) Hw (f_mvhd f) (f_init f) (f_tfhd f) (f_tfdt f) (f_trun f) Hi)) as N.
  destruct (fst (parse_segment repaired (f_data f) (f_mvhd f) (f_init f) (f_tfhd f) (f_tfdt f) (f_trun f)))
    as [[tracks d]| |w'] eqn:E; try discriminate.
  exfalso. eapply N. reflexivity.
Qed.

Lemma first_panic_files files : Forall file_ok files -> first_panic (map file_parse files) = None.
Proof.
  induction 1 as [|f files Hf _ IH]; [reflexivity|]. cbn [map first_panic].
  pose proof (file_parse_no_panic f) as N.
  destruct (file_parse f) as [p| |w]; [exact IH|exact IH|]. exfalso. eapply N; eauto.
Qed.

Lemma on_list_files_no_panic files sched st en w :
  Forall file_ok files -> Permutation sched (seq 0 (length files)) -> on_list_files files sched st en <> Panic w.
Proof.
  intros HF Hperm. unfold on_list_files. apply on_list_dir_no_panic.
  - apply first_panic_files, HF.
  - now rewrite map_length.
Qed.

Lemma on_list_files_500_iff files sched st en :
  Forall file_ok files -> Permutation sched (seq 0 (length files)) -> files <> [] ->
  match st, en with Some s, Some e => e <? s | _, _ => false end = false ->
  (on_list_files files sched st en = Ok L500 <-> exists f, In f files /\ file_parse f = Err).
Proof.
  intros HF Hperm Hne Hrev. unfold on_list_files.
  rewrite on_list_dir_500_iff; auto.
  - rewrite existsb_exists. split.
    + intros (r & Hin & Hs). apply in_map_iff in Hin. destruct Hin as (f & <- & Hin).
      exists f. split; [exact Hin|]. destruct (file_parse f); cbn in Hs; congruence.
    + intros (f & Hin & E). exists (file_parse f). split; [apply in_map, Hin|]. now rewrite E.
  - apply first_panic_files, HF.
  - now rewrite map_length.
  - destruct files; [congruence|discriminate].
Qed.

Lemma file_tracks_ts f : file_ok f -> ts_nonzero (file_tracks f) = true.
Proof.
  intros [Hw Hi]. unfold file_tracks.
  destruct (read_header_spec (f_data f) Hw (f_mvhd f) (f_init f)) as (_ & _ & P).
  destruct (fst (read_header repaired (f_data f) (f_mvhd f) (f_init f))) as [[tracks d]| |w]; try reflexivity.
  destruct (P tracks d eq_refl) as [n Hn]. eapply Hi; eauto.
Qed.

Lemma file_get_ok tracks duration f : file_ok f -> ts_nonzero tracks = true -> gfile_ok (file_get tracks duration f).
Proof.
  intros [Hw Hi] Hts. split; intros w; unfold file_get; cbn [g_hdr g_mux].
  - pose proof (proj1 (read_header_spec (f_data f) Hw (f_mvhd f) (f_init f))) as N.
    destruct (fst (read_header repaired (f_data f) (f_mvhd f) (f_init f))) as [[t d]| |w']; try discriminate.
    exfalso. eapply N; reflexivity.
  - pose proof (proj1 (mux_parts_spec (len (f_data f)) tracks Hts (f_dts f) duration (f_events f))) as N.
    destruct (fst (mux_parts repaired (len (f_data f)) tracks (f_dts f) duration (f_events f))) as [s| |w'];
      try discriminate.
    exfalso. eapply N; reflexivity.
Qed.

Lemma on_get_files_no_panic files duration w : Forall file_ok files -> on_get_files files duration <> Panic w.
Proof.
  intros HF. unfold on_get_files. apply on_get_dir_no_panic.
  assert (ts_nonzero (match files with f0 :: _ => file_tracks f0 | [] => [] end) = true) as Hts.
  { destruct files as [|f0 ?]; [reflexivity|]. inversion HF; subst. now apply file_tracks_ts. }
  revert Hts. generalize (match files with f0 :: _ => file_tracks f0 | [] => [] end). intros tracks Hts.
  induction HF as [|f files Hf _ IH]; cbn [map]; constructor; auto using file_get_ok.
Qed.

(* ---- statements collected for Props/C28.v ---- *)
Lemma dir_no_panic_all :
  (forall files sched start end_ w,
     Forall file_ok files -> Permutation sched (seq 0 (length files)) ->
     on_list_files files sched start end_ <> Panic w) /\
  (forall files duration w, Forall file_ok files -> on_get_files files duration <> Panic w) /\
  (forall found sched start end_ w,
     first_panic found = None -> Permutation sched (seq 0 (length found)) ->
     on_list_dir KeepAny found sched start end_ <> Panic w) /\
  (forall found w, Forall gfile_ok found -> on_get_dir found <> Panic w).
Proof.
  repeat split.
  - intros. now apply on_list_files_no_panic.
  - intros. now apply on_get_files_no_panic.
  - intros. now apply on_list_dir_no_panic.
  - intros. now apply on_get_dir_no_panic.
Qed.

Lemma dir_list_answer_all :
  (forall files sched start end_,
     Forall file_ok files -> Permutation sched (seq 0 (length files)) -> files <> [] ->
     match start, end_ with Some s, Some e => e <? s | _, _ => false end = false ->
     (on_list_files files sched start end_ = Ok L500 <-> exists f, In f files /\ file_parse f = Err)) /\
  (forall found sched start end_, Permutation sched (seq 0 (length found)) ->
     on_list_dir KeepAny found sched start end_ = on_list_dir KeepAny found (seq 0 (length found)) start end_).
Proof.
  split.
  - intros. now apply on_list_files_500_iff.
  - intros. now apply on_list_dir_sched_indep.
Qed.
