(* Proofs about Model/C01_Auth.v: IP network containment is "same family and equal top prefix bits";
   the internal authentication admits exactly per the declarative reading of the configured users. *)
From Coq Require Import List ZArith Bool Lia ZifyBool Arith.
Require Import MTX.Lib.Utf8 MTX.Model.C01_Auth.
Import ListNotations.
Local Open Scope Z_scope.

(* ====================================================================================== *)
(* 1. bytes, big-endian values                                                             *)

Definition bytes (b : list Z) : Prop := Forall (fun x => 0 <= x < 256) b.

Definition be (b : list Z) : Z := be_value 0 b.

Lemma be_value_acc b : forall acc, be_value acc b = acc * 256 ^ Z.of_nat (length b) + be_value 0 b.
Proof.
  induction b as [|x r IH]; intros acc.
  - cbn [be_value length]. change (256 ^ Z.of_nat 0) with 1. lia.
  - cbn [be_value]. rewrite (IH (acc * 256 + x)), (IH (0 * 256 + x)).
    replace (Z.of_nat (length (x :: r))) with (Z.of_nat (length r) + 1) by (cbn [length]; lia).
    rewrite Z.pow_add_r by lia. change (256 ^ 1) with 256. ring.
Qed.

Lemma be_cons x r : be (x :: r) = x * 256 ^ Z.of_nat (length r) + be r.
Proof. unfold be. cbn [be_value]. rewrite be_value_acc. ring. Qed.

Lemma be_range b : bytes b -> 0 <= be b < 256 ^ Z.of_nat (length b).
Proof.
  induction 1 as [|x r Hx Hr IH].
  - unfold be. cbn. lia.
  - rewrite be_cons. replace (Z.of_nat (length (x :: r))) with (Z.of_nat (length r) + 1) by (cbn [length]; lia).
    rewrite Z.pow_add_r by lia. change (256 ^ 1) with 256.
    assert (0 < 256 ^ Z.of_nat (length r)) by (apply Z.pow_pos_nonneg; lia). nia.
Qed.

Lemma pow256 n : 0 <= n -> 256 ^ n = 2 ^ (8 * n).
Proof. intros Hn. change 256 with (2 ^ 8). rewrite <- Z.pow_mul_r by lia. reflexivity. Qed.

(* ====================================================================================== *)
(* 2. one mask byte: x & ^(0xff >> k) clears the low 8-k bits (finite sweep)               *)

Definition zrange (n : nat) : list Z := map Z.of_nat (seq 0 n).

Lemma in_zrange n x : 0 <= x < Z.of_nat n -> In x (zrange n).
Proof.
  intros Hx. unfold zrange. apply in_map_iff. exists (Z.to_nat x). split; [lia|].
  apply in_seq. lia.
Qed.

Definition land_sweep : bool :=
  forallb (fun x => forallb (fun k => Z.land x (mask_byte k) =? x / 2 ^ (8 - k) * 2 ^ (8 - k)) (zrange 9)) (zrange 256).

Lemma land_sweep_ok : land_sweep = true.
Proof. vm_compute. reflexivity. Qed.

Lemma land_mask_byte x k : 0 <= x < 256 -> 0 <= k <= 8 ->
  Z.land x (mask_byte k) = x / 2 ^ (8 - k) * 2 ^ (8 - k).
Proof.
  intros Hx Hk. pose proof land_sweep_ok as H. unfold land_sweep in H.
  rewrite forallb_forall in H. specialize (H x (in_zrange 256 x ltac:(lia))).
  rewrite forallb_forall in H. specialize (H k (in_zrange 9 k ltac:(lia))). lia.
Qed.

Lemma land_mask_eq x y k : 0 <= x < 256 -> 0 <= y < 256 -> 0 <= k <= 8 ->
  (Z.land x (mask_byte k) = Z.land y (mask_byte k) <-> x / 2 ^ (8 - k) = y / 2 ^ (8 - k)).
Proof.
  intros Hx Hy Hk. rewrite !land_mask_byte by assumption.
  assert (0 < 2 ^ (8 - k)) by (apply Z.pow_pos_nonneg; lia). split; intros E; nia.
Qed.

Lemma mask_byte_8 : mask_byte 8 = 255. Proof. reflexivity. Qed.
Lemma mask_byte_0 : mask_byte 0 = 0. Proof. reflexivity. Qed.

(* ====================================================================================== *)
(* 3. masked comparison under a CIDR mask = equality of the top `ones` bits                *)

Lemma cidr_mask_length len : forall ones, length (cidr_mask len ones) = len.
Proof. induction len as [|l IH]; intros ones; cbn [cidr_mask]; [reflexivity|]. destruct (8 <=? ones); cbn [length]; rewrite IH; reflexivity. Qed.

Lemma masked_eq_zero nn : forall ip, length nn = length ip ->
  masked_eq nn (cidr_mask (length nn) 0) ip = true.
Proof.
  induction nn as [|a nn IH]; intros [|b ip] Hl; try discriminate; [reflexivity|].
  cbn [length cidr_mask]. change (8 <=? 0) with false. cbn iota. rewrite mask_byte_0.
  cbn [masked_eq]. rewrite !Z.land_0_r. rewrite IH by (cbn [length] in Hl; lia). reflexivity.
Qed.

Lemma div_split a r M D Q : 0 < D -> 0 < Q -> M = D * Q -> 0 <= r < M ->
  (a * M + r) / D = a * Q + r / D /\ 0 <= r / D < Q.
Proof.
  intros HD HQ HM Hr. subst M. split.
  - replace (a * (D * Q) + r) with (r + (a * Q) * D) by ring. rewrite Z.div_add by lia. ring.
  - split; [apply Z.div_pos; lia|]. apply Z.div_lt_upper_bound; lia.
Qed.

Lemma masked_eq_cidr nn : forall ip ones, length nn = length ip -> bytes nn -> bytes ip ->
  0 <= ones <= 8 * Z.of_nat (length nn) ->
  (masked_eq nn (cidr_mask (length nn) ones) ip = true <->
   be nn / 2 ^ (8 * Z.of_nat (length nn) - ones) = be ip / 2 ^ (8 * Z.of_nat (length nn) - ones)).
Proof.
  induction nn as [|a nn IH]; intros [|b ip] ones Hl Hn Hi Ho; try discriminate.
  - cbn. split; reflexivity.
  - inversion Hn as [|? ? Ha Hn']; subst. inversion Hi as [|? ? Hb Hi']; subst.
    assert (Hl' : length nn = length ip) by (cbn [length] in Hl; lia).
    rewrite !be_cons. rewrite <- Hl'.
    pose proof (be_range nn Hn') as Rn. pose proof (be_range ip Hi') as Ri. rewrite <- Hl' in Ri.
    set (l := Z.of_nat (length nn)) in *.
    assert (Hl0 : 0 <= l) by (unfold l; lia).
    replace (Z.of_nat (length (a :: nn))) with (l + 1) in * by (unfold l; cbn [length]; lia).
    rewrite (pow256 l) in * by lia.
    cbn [length cidr_mask masked_eq].
    destruct (8 <=? ones) eqn:E8.
    + (* full byte *)
      rewrite <- mask_byte_8. rewrite andb_true_iff, Z.eqb_eq.
      rewrite (land_mask_eq a b 8) by lia. change (2 ^ (8 - 8)) with 1. rewrite !Z.div_1_r.
      rewrite (IH ip (ones - 8) Hl' Hn' Hi') by lia.
      replace (8 * l - (ones - 8)) with (8 * (l + 1) - ones) by lia.
      set (D := 2 ^ (8 * (l + 1) - ones)). set (Q := 2 ^ (ones - 8)).
      assert (HD : 0 < D) by (apply Z.pow_pos_nonneg; lia).
      assert (HQ : 0 < Q) by (apply Z.pow_pos_nonneg; lia).
      assert (HM : 2 ^ (8 * l) = D * Q).
      { unfold D, Q. rewrite <- Z.pow_add_r by lia. f_equal. lia. }
      destruct (div_split a (be nn) _ D Q HD HQ HM Rn) as [Ea Ra].
      destruct (div_split b (be ip) _ D Q HD HQ HM Ri) as [Eb Rb].
      rewrite Ea, Eb. split.
      * intros [-> ->]. reflexivity.
      * intros E. assert (a = b) by nia. subst b. split; [reflexivity|lia].
    + (* partial byte, the rest of the mask is zero *)
      rewrite masked_eq_zero by assumption. rewrite andb_true_r, Z.eqb_eq.
      rewrite (land_mask_eq a b ones) by lia.
      replace (8 * (l + 1) - ones) with (8 * l + (8 - ones)) by lia.
      rewrite Z.pow_add_r by lia.
      assert (HM : 0 < 2 ^ (8 * l)) by (apply Z.pow_pos_nonneg; lia).
      assert (Hd : 0 < 2 ^ (8 - ones)) by (apply Z.pow_pos_nonneg; lia).
      rewrite <- !Z.div_div by lia.
      replace (a * 2 ^ (8 * l) + be nn) with (be nn + a * 2 ^ (8 * l)) by ring.
      replace (b * 2 ^ (8 * l) + be ip) with (be ip + b * 2 ^ (8 * l)) by ring.
      rewrite !Z.div_add by lia. rewrite (Z.div_small (be nn)), (Z.div_small (be ip)) by lia. rewrite !Z.add_0_l. reflexivity.
Qed.

(* ====================================================================================== *)
(* 4. net.IPNet.Contains                                                                   *)

(* family (true = IPv4, after To4 normalisation of ::ffff:a.b.c.d) and integer value of a net.IP *)
Definition ip_view (ip : list Z) : option (bool * Z) :=
  match to4 ip with
  | Some x => Some (true, be x)
  | None => if (length ip =? 16)%nat then Some (false, be ip) else None
  end.

(* what conf.IPNetwork.UnmarshalJSON produces: a 4-byte address with a 4-byte CIDR mask, or a 16-byte address
   that is not ::ffff:a.b.c.d with a 16-byte CIDR mask *)
Definition wf_net (n : ipnet) (ones : Z) : Prop :=
  bytes (n_ip n) /\
  ((length (n_ip n) = 4%nat /\ n_mask n = cidr_mask 4 ones /\ 0 <= ones <= 32) \/
   (length (n_ip n) = 16%nat /\ to4 (n_ip n) = None /\ n_mask n = cidr_mask 16 ones /\ 0 <= ones <= 128)).

Definition net_is4 (n : ipnet) : bool := (length (n_ip n) =? 4)%nat.
Definition net_bits (n : ipnet) : Z := 8 * Z.of_nat (length (n_ip n)).

(* the reading of the statement: same family and equal top `ones` bits *)
Definition contains_spec (n : ipnet) (ones : Z) (ip : list Z) : Prop :=
  exists is4 v, ip_view ip = Some (is4, v) /\ is4 = net_is4 n /\
                v / 2 ^ (net_bits n - ones) = be (n_ip n) / 2 ^ (net_bits n - ones).

Lemma to4_length ip x : to4 ip = Some x -> length x = 4%nat.
Proof.
  unfold to4. remember (skipn 12 ip) as t eqn:Et. destruct (length ip =? 4)%nat eqn:E4.
  - intros [= <-]. apply Nat.eqb_eq in E4. exact E4.
  - destruct ((length ip =? 16)%nat && _ && _ && _) eqn:E; [|discriminate].
    intros [= <-]. rewrite !andb_true_iff in E. destruct E as [[[E16 _] _] _].
    apply Nat.eqb_eq in E16. subst t. rewrite skipn_length. lia.
Qed.

Lemma to4_bytes ip x : bytes ip -> to4 ip = Some x -> bytes x.
Proof.
  unfold to4, bytes. intros Hb. remember (skipn 12 ip) as t eqn:Et. destruct (length ip =? 4)%nat.
  - intros [= <-]. exact Hb.
  - destruct (_ && _ && _ && _); [|discriminate]. intros [= <-]. subst t.
    rewrite <- (firstn_skipn 12 ip) in Hb. apply Forall_app in Hb. apply Hb.
Qed.

Lemma to4_len4 ip : length ip = 4%nat -> to4 ip = Some ip.
Proof. intros H. unfold to4. rewrite H. reflexivity. Qed.

Lemma to4_none_not4 ip : to4 ip = None -> length ip <> 4%nat.
Proof. intros H E. rewrite (to4_len4 ip E) in H. discriminate. Qed.

Lemma nnm_v4 nip mask : length nip = 4%nat -> length mask = 4%nat ->
  network_number_and_mask nip mask = Some (nip, mask).
Proof. intros L M. unfold network_number_and_mask. rewrite (to4_len4 _ L), M, L. reflexivity. Qed.

Lemma nnm_v6 nip mask : length nip = 16%nat -> to4 nip = None -> length mask = 16%nat ->
  network_number_and_mask nip mask = Some (nip, mask).
Proof. intros L T M. unfold network_number_and_mask. rewrite T, M, L. cbn [Nat.eqb]. rewrite L. reflexivity. Qed.

Lemma net_contains_prefix n ones ip : wf_net n ones -> bytes ip ->
  (net_contains (n_ip n) (n_mask n) ip = true <-> contains_spec n ones ip).
Proof.
  intros [Hnb [[L4 [Hm Ho]]|[L16 [T6 [Hm Ho]]]]] Hib; unfold net_contains, contains_spec, net_is4, net_bits, ip_view.
  - (* IPv4 network *)
    rewrite (nnm_v4 _ _ L4) by (rewrite Hm; apply cidr_mask_length). rewrite Hm.
    replace (cidr_mask 4 ones) with (cidr_mask (length (n_ip n)) ones) by (rewrite L4; reflexivity).
    destruct (to4 ip) as [x|] eqn:T.
    + pose proof (to4_length _ _ T) as Lx.
      destruct (length x =? length (n_ip n))%nat eqn:El; [|apply Nat.eqb_neq in El; lia].
      rewrite masked_eq_cidr; [| lia | assumption | eapply to4_bytes; eassumption | rewrite L4; lia].
      rewrite L4. change (4 =? 4)%nat with true. split.
      * intros E. exists true, (be x). repeat split. symmetry. exact E.
      * intros (is4 & v & [= <- <-] & _ & E). symmetry. exact E.
    + destruct (length ip =? length (n_ip n))%nat eqn:El.
      { apply Nat.eqb_eq in El. exfalso. apply (to4_none_not4 _ T). lia. }
      rewrite L4. change (4 =? 4)%nat with true.
      split; [discriminate|]. intros (is4 & v & Hv & His & _).
      destruct (length ip =? 16)%nat; [|discriminate]. injection Hv as <- <-. discriminate.
  - (* IPv6 network *)
    rewrite (nnm_v6 _ _ L16 T6) by (rewrite Hm; apply cidr_mask_length). rewrite Hm.
    replace (cidr_mask 16 ones) with (cidr_mask (length (n_ip n)) ones) by (rewrite L16; reflexivity).
    destruct (to4 ip) as [x|] eqn:T.
    + pose proof (to4_length _ _ T) as Lx.
      destruct (length x =? length (n_ip n))%nat eqn:El; [apply Nat.eqb_eq in El; lia|].
      rewrite L16. change (16 =? 4)%nat with false.
      split; [discriminate|]. intros (is4 & v & [= <- <-] & His & _). discriminate His.
    + rewrite L16 at 1. destruct (length ip =? 16)%nat eqn:E16.
      * apply Nat.eqb_eq in E16.
        rewrite masked_eq_cidr; [| lia | assumption | assumption | rewrite L16; lia].
        rewrite L16. change (16 =? 4)%nat with false. split.
        -- intros E. exists false, (be ip). repeat split. symmetry. exact E.
        -- intros (is4 & v & [= <- <-] & _ & E). symmetry. exact E.
      * split; [discriminate|]. intros (is4 & v & Hv & _). discriminate.
Qed.

(* ====================================================================================== *)
(* 5. credentials, permissions, users                                                      *)

Section Decision.
Variable sha : list Z -> list Z.
Variable argon : list Z -> list Z -> bool.
Variable rx : list Z -> list Z -> bool.

Lemma has_prefix_app p : forall s, has_prefix p s = true <-> exists t, s = p ++ t.
Proof.
  induction p as [|x p IH]; intros s.
  - cbn. split; [intros _; exists s; reflexivity|reflexivity].
  - destruct s as [|y s]; cbn [has_prefix].
    + split; [discriminate|]. intros [t Ht]. discriminate.
    + rewrite andb_true_iff, Z.eqb_eq, IH. split.
      * intros [-> [t ->]]. exists t. reflexivity.
      * intros [t Ht]. injection Ht as -> ->. split; [reflexivity|]. exists t. reflexivity.
Qed.

(* declarative reading of Credential.Check: configured credential d accepts the supplied value g *)
Definition cred_matches (d g : list Z) : Prop :=
  (exists h, d = s_sha256 ++ h /\ h = sha g) \/
  ((forall h, d <> s_sha256 ++ h) /\ exists e, d = s_argon2 ++ e /\ argon e g = true) \/
  ((forall h, d <> s_sha256 ++ h) /\ (forall e, d <> s_argon2 ++ e) /\ (d = [] \/ d = g)).

Lemma skipn_app_exact {A} (p t : list A) : skipn (length p) (p ++ t) = t.
Proof. induction p; [reflexivity|assumption]. Qed.

Lemma cred_check_iff d g : cred_check sha argon d g = true <-> cred_matches d g.
Proof.
  unfold cred_check, cred_matches, is_sha256, is_argon2.
  destruct (has_prefix s_sha256 d) eqn:Es.
  - apply has_prefix_app in Es. destruct Es as [h ->].
    change 7%nat with (length s_sha256). rewrite skipn_app_exact, list_eqb_eq. split.
    + intros E. left. exists h. split; [reflexivity|exact E].
    + intros [(h' & E & E')|[[N _]|[N _]]].
      * apply app_inv_head in E. subst. reflexivity.
      * exfalso. exact (N h eq_refl).
      * exfalso. exact (N h eq_refl).
  - assert (Ns : forall h, d <> s_sha256 ++ h).
    { intros h E. assert (has_prefix s_sha256 d = true) by (apply has_prefix_app; eauto). congruence. }
    destruct (has_prefix s_argon2 d) eqn:Ea.
    + apply has_prefix_app in Ea. destruct Ea as [e ->].
      change 7%nat with (length s_argon2). rewrite skipn_app_exact. split.
      * intros E. right. left. split; [exact Ns|]. exists e. split; [reflexivity|exact E].
      * intros [(h & E & _)|[[_ (e' & E & E')]|(_ & N & _)]].
        -- exfalso. exact (Ns h E).
        -- apply app_inv_head in E. subst. exact E'.
        -- exfalso. exact (N e eq_refl).
    + assert (Na : forall e, d <> s_argon2 ++ e).
      { intros e E. assert (has_prefix s_argon2 d = true) by (apply has_prefix_app; eauto). congruence. }
      split.
      * intros E. right. right. split; [exact Ns|]. split; [exact Na|].
        destruct d as [|c d']; [left; reflexivity|right]. apply list_eqb_eq. exact E.
      * intros [(h & E & _)|[[_ (e & E & _)]|(_ & _ & [->| ->])]].
        -- exfalso. exact (Ns h E).
        -- exfalso. exact (Na e E).
        -- reflexivity.
        -- destruct g; [reflexivity|apply list_eqb_refl].
Qed.

(* declarative reading of one permission entry *)
Definition path_action (a : list Z) : Prop := a = a_publish \/ a = a_read \/ a = a_playback.

Definition perm_allows (p : perm) (action path : list Z) : Prop :=
  p_action p = action /\
  (~ path_action action \/
   p_path p = [] \/
   (exists pat, p_path p = c_tilde :: pat /\ rx pat path = true) \/
   ((forall pat, p_path p <> c_tilde :: pat) /\ p_path p = path)).

Lemma is_path_action_iff a : is_path_action a = true <-> path_action a.
Proof. clear sha argon rx. unfold is_path_action, path_action. rewrite !orb_true_iff, !list_eqb_eq. tauto. Qed.

Lemma perm_grants_iff p action path : perm_grants rx p action path = true <-> perm_allows p action path.
Proof.
  clear sha argon.
  unfold perm_grants, perm_allows.
  destruct (list_eqb (p_action p) action) eqn:Ea.
  - apply list_eqb_eq in Ea. rewrite Ea.
    destruct (is_path_action action) eqn:Ep.
    + apply is_path_action_iff in Ep.
      destruct (p_path p) as [|c pat] eqn:Epath.
      * split; [intros _; split; [reflexivity|right; left; reflexivity]|reflexivity].
      * destruct (c =? c_tilde) eqn:Ec.
        -- apply Z.eqb_eq in Ec. subst c. split.
           ++ intros E. split; [reflexivity|]. right. right. left. exists pat. split; [reflexivity|exact E].
           ++ intros [_ [N|[N|[(pat' & Hp & E)|[N _]]]]].
              ** exfalso; tauto.
              ** discriminate.
              ** injection Hp as <-. exact E.
              ** exfalso. exact (N pat eq_refl).
        -- apply Z.eqb_neq in Ec. rewrite list_eqb_eq. split.
           ++ intros E. split; [reflexivity|]. right. right. right. split; [|exact E].
              intros pat' [= -> _]. apply Ec. reflexivity.
           ++ intros [_ [N|[N|[(pat' & Hp & _)|[_ E]]]]].
              ** exfalso; tauto.
              ** discriminate.
              ** injection Hp as -> _. exfalso. apply Ec. reflexivity.
              ** exact E.
    + split; [|reflexivity]. intros _. split; [reflexivity|]. left. intros H. apply is_path_action_iff in H. congruence.
  - split; [discriminate|]. intros [E _]. apply list_eqb_eq in E. congruence.
Qed.

Definition perm_ok (u : user) (r : request) : Prop :=
  exists p, In p (u_perms u) /\ perm_allows p (r_action r) (r_path r).

Lemma matches_permission_iff ps action path :
  matches_permission rx ps action path = true <-> exists p, In p ps /\ perm_allows p action path.
Proof.
  clear sha argon.
  induction ps as [|p ps IH]; cbn [matches_permission].
  - split; [discriminate|]. intros (p & [] & _).
  - destruct (perm_grants rx p action path) eqn:E.
    + split; [|reflexivity]. intros _. exists p. split; [left; reflexivity|]. apply perm_grants_iff. exact E.
    + rewrite IH. split.
      * intros (q & Hq & Hg). exists q. split; [right; exact Hq|exact Hg].
      * intros (q & [<-|Hq] & Hg).
        -- apply perm_grants_iff in Hg. congruence.
        -- exists q. split; assumption.
Qed.

(* every network of the user is as UnmarshalJSON builds it; `ones` is a function giving each network's prefix length *)
Definition wf_user (ones : ipnet -> Z) (u : user) : Prop := forall n, In n (u_ips u) -> wf_net n (ones n).

Definition ip_ok (ones : ipnet -> Z) (u : user) (r : request) : Prop :=
  u_ips u = [] \/ exists n, In n (u_ips u) /\ contains_spec n (ones n) (r_ip r).

Definition cred_ok (u : user) (r : request) : Prop :=
  u_user u = s_any \/
  match r_custom r with
  | Some f => f (u_user u) (u_pass u) = true
  | None => cred_matches (u_user u) (r_user r) /\ cred_matches (u_pass u) (r_pass r)
  end.

Definition user_admits (ones : ipnet -> Z) (u : user) (r : request) : Prop :=
  ip_ok ones u r /\ perm_ok u r /\ cred_ok u r.

Lemma nets_contain_iff ones ns ip : (forall n, In n ns -> wf_net n (ones n)) -> bytes ip ->
  (nets_contain ns ip = true <-> exists n, In n ns /\ contains_spec n (ones n) ip).
Proof.
  intros Hwf Hb. unfold nets_contain. rewrite existsb_exists. split.
  - intros (n & Hn & E). exists n. split; [exact Hn|]. apply net_contains_prefix; auto.
  - intros (n & Hn & E). exists n. split; [exact Hn|]. apply (net_contains_prefix n (ones n)); auto.
Qed.

Lemma authenticate_with_user_iff ones u r : wf_user ones u -> bytes (r_ip r) ->
  (authenticate_with_user sha argon rx r u = true <-> user_admits ones u r).
Proof.
  intros Hwf Hb. unfold authenticate_with_user, user_admits, ip_ok, perm_ok, cred_ok.
  pose proof (nets_contain_iff ones (u_ips u) (r_ip r) Hwf Hb) as Hip.
  pose proof (matches_permission_iff (u_perms u) (r_action r) (r_path r)) as Hperm.
  assert (Hcred : (if negb (list_eqb (u_user u) s_any)
                   then match r_custom r with
                        | Some f => f (u_user u) (u_pass u)
                        | None => cred_check sha argon (u_user u) (r_user r) && cred_check sha argon (u_pass u) (r_pass r)
                        end
                   else true) = true <->
                  (u_user u = s_any \/
                   match r_custom r with
                   | Some f => f (u_user u) (u_pass u) = true
                   | None => cred_matches (u_user u) (r_user r) /\ cred_matches (u_pass u) (r_pass r)
                   end)).
  { destruct (list_eqb (u_user u) s_any) eqn:Eany; cbn [negb].
    - apply list_eqb_eq in Eany. split; [left; exact Eany|reflexivity].
    - assert (Nany : u_user u <> s_any) by (intros E; apply list_eqb_eq in E; congruence).
      destruct (r_custom r) as [f|].
      + split; [right; assumption|]. intros [E|E]; [contradiction|exact E].
      + rewrite andb_true_iff, !cred_check_iff. split; [right; assumption|]. intros [E|E]; [contradiction|exact E]. }
  destruct (u_ips u) as [|n0 ns] eqn:Eips.
  - destruct (matches_permission rx (u_perms u) (r_action r) (r_path r)) eqn:Em; cbn [negb].
    + rewrite Hcred. split.
      * intros Hc. split; [left; reflexivity|]. split; [apply Hperm; reflexivity|exact Hc].
      * intros (_ & _ & Hc). exact Hc.
    + split; [discriminate|]. intros (_ & Hp & _). apply Hperm in Hp. discriminate.
  - destruct (nets_contain (n0 :: ns) (r_ip r)) eqn:Ec; cbn [negb].
    + destruct (matches_permission rx (u_perms u) (r_action r) (r_path r)) eqn:Em; cbn [negb].
      * rewrite Hcred. split.
        -- intros Hc. split; [right; apply Hip; reflexivity|]. split; [apply Hperm; reflexivity|exact Hc].
        -- intros (_ & _ & Hc). exact Hc.
      * split; [discriminate|]. intros (_ & Hp & _). apply Hperm in Hp. discriminate.
    + split; [discriminate|]. intros ([E|Hn] & _); [discriminate|]. apply Hip in Hn. discriminate.
Qed.

(* ---- first match ---------------------------------------------------------------------- *)

Lemma first_match_spec us r : forall i k,
  first_match sha argon rx us r i = Some k <->
  exists j u, k = (i + j)%nat /\ nth_error us j = Some u /\ authenticate_with_user sha argon rx r u = true /\
              forall j' u', (j' < j)%nat -> nth_error us j' = Some u' -> authenticate_with_user sha argon rx r u' = false.
Proof.
  induction us as [|u us IH]; intros i k; cbn [first_match].
  - split; [discriminate|]. intros (j & u & _ & H & _). destruct j; discriminate.
  - destruct (authenticate_with_user sha argon rx r u) eqn:E.
    + split.
      * intros [= <-]. exists 0%nat, u. repeat split; [lia|exact E|]. intros j' u' Hj. lia.
      * intros (j & u0 & -> & Hn & Ha & Hbefore). destruct j as [|j]; [f_equal; lia|].
        specialize (Hbefore 0%nat u ltac:(lia) eq_refl). congruence.
    + rewrite IH. split.
      * intros (j & u0 & -> & Hn & Ha & Hbefore). exists (S j), u0. repeat split; [lia|exact Hn|exact Ha|].
        intros [|j'] u' Hj Hn'; [injection Hn' as <-; exact E|]. apply (Hbefore j' u'); [lia|exact Hn'].
      * intros (j & u0 & -> & Hn & Ha & Hbefore). destruct j as [|j]; [cbn in Hn; injection Hn as <-; congruence|].
        exists j, u0. repeat split; [lia|exact Hn|exact Ha|].
        intros j' u' Hj Hn'. apply (Hbefore (S j') u'); [lia|exact Hn'].
Qed.

Lemma first_match_none us r : forall i,
  first_match sha argon rx us r i = None <-> forall u, In u us -> authenticate_with_user sha argon rx r u = false.
Proof.
  induction us as [|u us IH]; intros i; cbn [first_match].
  - split; [intros _ u []|reflexivity].
  - destruct (authenticate_with_user sha argon rx r u) eqn:E.
    + split; [discriminate|]. intros H. specialize (H u (or_introl eq_refl)). congruence.
    + rewrite IH. split.
      * intros H u' [<-|Hu]; [exact E|exact (H u' Hu)].
      * intros H u' Hu. apply H. right. exact Hu.
Qed.

Lemma first_match_some_in us r : forall i,
  (exists k, first_match sha argon rx us r i = Some k) <-> exists u, In u us /\ authenticate_with_user sha argon rx r u = true.
Proof.
  intros i. destruct (first_match sha argon rx us r i) as [k|] eqn:E.
  - split; [|intros _; eauto]. intros _. apply first_match_spec in E. destruct E as (j & u & _ & Hn & Ha & _).
    exists u. split; [eapply nth_error_In; exact Hn|exact Ha].
  - split; [intros [k Hk]; discriminate|]. intros (u & Hu & Ha).
    rewrite first_match_none in E. rewrite (E u Hu) in Ha. discriminate.
Qed.

(* ---- main theorems -------------------------------------------------------------------- *)

Theorem admit_iff ones us r u : Forall (wf_user ones) us -> bytes (r_ip r) ->
  (authenticate_internal sha argon rx us r = Some u <->
   u = r_user r /\ exists usr, In usr us /\ user_admits ones usr r).
Proof.
  intros Hwf Hb. unfold authenticate_internal. rewrite Forall_forall in Hwf.
  destruct (first_match sha argon rx us r 0) as [k|] eqn:E.
  - assert (Hex : exists k, first_match sha argon rx us r 0 = Some k) by eauto.
    apply first_match_some_in in Hex. destruct Hex as (usr & Hin & Ha).
    split.
    + intros [= <-]. split; [reflexivity|]. exists usr. split; [exact Hin|].
      apply authenticate_with_user_iff; auto.
    + intros [-> _]. reflexivity.
  - split; [discriminate|]. intros [_ (usr & Hin & Hadm)].
    rewrite first_match_none in E. apply (authenticate_with_user_iff ones) in Hadm; auto.
    rewrite (E usr Hin) in Hadm. discriminate.
Qed.

(* which configured entry decides: the first (in configuration order) that admits *)
Theorem first_match_least ones us r k : Forall (wf_user ones) us -> bytes (r_ip r) ->
  (first_match sha argon rx us r 0 = Some k <->
   exists usr, nth_error us k = Some usr /\ user_admits ones usr r /\
               forall j u', (j < k)%nat -> nth_error us j = Some u' -> ~ user_admits ones u' r).
Proof.
  intros Hwf Hb. rewrite Forall_forall in Hwf. rewrite first_match_spec. split.
  - intros (j & u & -> & Hn & Ha & Hbefore). exists u. cbn [Nat.add]. split; [exact Hn|]. split.
    + apply authenticate_with_user_iff; auto. apply Hwf. eapply nth_error_In; exact Hn.
    + intros j' u' Hj Hn' Hadm. apply (authenticate_with_user_iff ones) in Hadm; auto.
      * rewrite (Hbefore j' u' Hj Hn') in Hadm. discriminate.
      * apply Hwf. eapply nth_error_In; exact Hn'.
  - intros (usr & Hn & Hadm & Hbefore). exists k, usr. split; [reflexivity|]. split; [exact Hn|]. split.
    + apply (authenticate_with_user_iff ones); auto. apply Hwf. eapply nth_error_In; exact Hn.
    + intros j' u' Hj Hn'. destruct (authenticate_with_user sha argon rx r u') eqn:E; [|reflexivity].
      exfalso. apply (Hbefore j' u' Hj Hn'). apply authenticate_with_user_iff; auto.
      apply Hwf. eapply nth_error_In; exact Hn'.
Qed.

Theorem outcome_iff ones us r : Forall (wf_user ones) us -> bytes (r_ip r) ->
  (authenticate sha argon rx us r = Granted (r_user r) /\ exists usr, In usr us /\ user_admits ones usr r) \/
  (authenticate sha argon rx us r =
     Denied (r_ask r && list_eqb (r_user r) [] && list_eqb (r_pass r) []) /\
   ~ exists usr, In usr us /\ user_admits ones usr r).
Proof.
  intros Hwf Hb. unfold authenticate.
  destruct (authenticate_internal sha argon rx us r) as [u|] eqn:E.
  - apply (admit_iff ones) in E; auto. destruct E as [-> Hex]. left. split; [reflexivity|exact Hex].
  - right. split; [reflexivity|]. intros Hex.
    assert (authenticate_internal sha argon rx us r = Some (r_user r)) by (apply (admit_iff ones); auto).
    congruence.
Qed.

Theorem ask_iff us r a : authenticate sha argon rx us r = Denied a ->
  (a = true <-> r_ask r = true /\ r_user r = [] /\ r_pass r = []).
Proof.
  unfold authenticate. destruct (authenticate_internal sha argon rx us r); [discriminate|].
  intros [= <-]. rewrite !andb_true_iff, !list_eqb_eq. tauto.
Qed.

(* the token field is never consulted by the internal method *)
Definition with_token (r : request) (t : list Z) : request :=
  {| r_user := r_user r; r_pass := r_pass r; r_token := t; r_ip := r_ip r;
     r_action := r_action r; r_path := r_path r; r_custom := r_custom r; r_ask := r_ask r |}.

Lemma first_match_token us r t : forall i,
  first_match sha argon rx us (with_token r t) i = first_match sha argon rx us r i.
Proof.
  induction us as [|u us IH]; intros i; cbn [first_match]; [reflexivity|].
  replace (authenticate_with_user sha argon rx (with_token r t) u) with (authenticate_with_user sha argon rx r u)
    by (destruct r; reflexivity).
  rewrite IH. reflexivity.
Qed.

Theorem token_irrelevant us r t :
  authenticate sha argon rx us (with_token r t) = authenticate sha argon rx us r.
Proof.
  unfold authenticate, authenticate_internal. rewrite first_match_token. destruct r. reflexivity.
Qed.

End Decision.

(* ====================================================================================== *)
(* 6. a concrete configuration for the non-vacuity examples of Props/C01.v                 *)

Definition ex_sha (g : list Z) : list Z := if list_eqb g [115] then [72] else [].         (* sha "s" = "H" *)
Definition ex_rx (p t : list Z) : bool := list_eqb p [94; 99] && has_prefix [99] t.          (* "^c" matches c... *)
Definition ex_users : list user :=
  [ {| u_user := s_any; u_pass := [];
       u_ips := [ {| n_ip := [32;1;13;184;0;0;0;0;0;0;0;0;0;0;0;0]; n_mask := cidr_mask 16 32 |} ];
       u_perms := [ {| p_action := a_read; p_path := [] |} ] |};
    {| u_user := [98]; u_pass := s_sha256 ++ [72];
       u_ips := [ {| n_ip := [10;0;0;0]; n_mask := cidr_mask 4 8 |} ];
       u_perms := [ {| p_action := a_publish; p_path := [126; 94; 99] |}; {| p_action := a_read; p_path := [99] |} ] |};
    {| u_user := [99]; u_pass := []; u_ips := [];
       u_perms := [ {| p_action := a_api; p_path := [120] |}; {| p_action := a_read; p_path := [99] |} ] |} ].
Definition ex_req user pass ip action path ask : request :=
  {| r_user := user; r_pass := pass; r_token := []; r_ip := ip; r_action := action; r_path := path;
     r_custom := None; r_ask := ask |}.
Definition ex_v6 : list Z := [32;1;13;184;255;255;0;0;0;0;0;0;0;0;0;7].
Definition ex_v6_out : list Z := [32;1;13;185;0;0;0;0;0;0;0;0;0;0;0;7].
Definition ex_mapped : list Z := [0;0;0;0;0;0;0;0;0;0;255;255;10;9;8;7].


Lemma ex_users_wf : Forall (wf_user (fun n => if (length (n_ip n) =? 4)%nat then 8 else 32)) ex_users.
Proof.
  unfold ex_users. repeat apply Forall_cons; try apply Forall_nil; intros n Hn; cbn [u_ips In] in Hn.
  - destruct Hn as [<-|[]]. split; [cbn [n_ip]; unfold bytes; repeat constructor; lia|].
    right. cbn [n_ip n_mask length Nat.eqb]. repeat split; try reflexivity; lia.
  - destruct Hn as [<-|[]]. split; [cbn [n_ip]; unfold bytes; repeat constructor; lia|].
    left. cbn [n_ip n_mask length Nat.eqb]. repeat split; try reflexivity; lia.
  - destruct Hn.
Qed.
