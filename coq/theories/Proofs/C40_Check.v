(* C40: the `settled` test of Check/C40.v (finitely many candidate labels) is complete for the model: if it accepts a
   state, every enabled internal step of the model involves a process the driver holds in a hook. *)
From Coq Require Import List Arith Bool Lia.
Require Import MTX.Model.C40_Rendezvous MTX.Proofs.C40_Rendezvous MTX.Check.C40.
Import ListNotations.

Lemma in_cand_pm s l :
  In l [LPmHandled HErr; LPmAns; LPmCloseHd; LPmCloseEnd; LPmWaitDone; LPmStop; LClDone] -> In l (candidates s).
Proof. intros H. unfold candidates. apply in_or_app. left. exact H. Qed.

Lemma in_cand_caller s c l :
  c < nc s -> In l [LPmRecv c; LPmReload c; LCEscPm c; LCEscPa c; LPaRecv c []] -> In l (candidates s).
Proof.
  intros Hc H. unfold candidates. apply in_or_app. right. apply in_or_app. left.
  apply in_flat_map. exists c. split; [apply in_seq; lia|exact H].
Qed.

Lemma in_cand_path s p l :
  p < np s ->
  In l [LPaAns p; LPaPm p false; LPaPmEsc p; LPaCtx p; LPaTRemPm p; LPaTRemEsc p; LPaTAns p; LPaTFin p false;
        LPaTNrPm p; LPaTNrEsc p] -> In l (candidates s).
Proof.
  intros Hp H. unfold candidates. apply in_or_app. right. apply in_or_app. right.
  apply in_flat_map. exists p. split; [apply in_seq; lia|exact H].
Qed.

Lemma candidates_complete s l s' :
  Inv s -> internal l = true -> step true s l = Some s' ->
  exists l', In l' (candidates s) /\ enabledb s l' = true /\ involves s l' = involves s l.
Proof.
  intros HI Hint H.
  assert (Hcl : forall c, callers s c <> CNone -> c < nc s) by (intros; now apply caller_lt).
  assert (Hpl : forall p, ppc (paths s p) <> PaDead -> p < np s) by (intros; now apply path_lt).
  destruct l; try discriminate Hint; clear Hint.
  - (* LPmRecv *) exists (LPmRecv c). split; [|split; [unfold enabledb; now rewrite H|reflexivity]].
    apply (in_cand_caller s c); [|simpl; auto]. apply Hcl. simpl in H. step_inv H. congruence.
  - (* LPmHandled *) exists (LPmHandled HErr). split; [apply in_cand_pm; simpl; auto|]. split; [|reflexivity].
    unfold enabledb. simpl in *. destruct (pm s); try discriminate. reflexivity.
  - exists LPmAns. split; [apply in_cand_pm; simpl; auto|]. split; [unfold enabledb; now rewrite H|reflexivity].
  - (* LPmReload *) exists (LPmReload c). split; [|split; [unfold enabledb; now rewrite H|reflexivity]].
    apply (in_cand_caller s c); [|simpl; auto]. apply Hcl. simpl in H. step_inv H. congruence.
  - exists LPmCloseHd. split; [apply in_cand_pm; simpl; auto|]. split; [unfold enabledb; now rewrite H|reflexivity].
  - exists LPmCloseEnd. split; [apply in_cand_pm; simpl; auto|]. split; [unfold enabledb; now rewrite H|reflexivity].
  - exists LPmWaitDone. split; [apply in_cand_pm; simpl; auto 10|]. split; [unfold enabledb; now rewrite H|reflexivity].
  - exists LPmStop. split; [apply in_cand_pm; simpl; auto 10|]. split; [unfold enabledb; now rewrite H|reflexivity].
  - (* LCEscPm *) exists (LCEscPm c). split; [|split; [unfold enabledb; now rewrite H|reflexivity]].
    apply (in_cand_caller s c); [|simpl; auto]. apply Hcl. simpl in H. step_inv H. congruence.
  - (* LCEscPa *) exists (LCEscPa c). split; [|split; [unfold enabledb; now rewrite H|reflexivity]].
    apply (in_cand_caller s c); [|simpl; auto 10]. apply Hcl. simpl in H. step_inv H. congruence.
  - (* LPaRecv *) exists (LPaRecv c []). split; [|split].
    + apply (in_cand_caller s c); [|simpl; auto 10]. apply Hcl. simpl in H. step_inv H. congruence.
    + unfold enabledb. simpl in *. destruct (callers s c); try discriminate.
      destruct (ppc (paths s p)); try discriminate. destruct (script (paths s p)); try discriminate. reflexivity.
    + reflexivity.
  - (* LPaAns *) exists (LPaAns p). split; [|split; [unfold enabledb; now rewrite H|reflexivity]].
    apply (in_cand_path s p); [|simpl; auto]. apply Hpl. simpl in H. step_inv H. congruence.
  - (* LPaPm *) exists (LPaPm p false). split; [|split].
    + apply (in_cand_path s p); [|simpl; auto]. apply Hpl. simpl in H. step_inv H; congruence.
    + unfold enabledb. simpl in *. destruct (ppc (paths s p)); try discriminate.
      destruct (script (paths s p)) as [|[|] ?]; try discriminate. destruct (pm s); try discriminate. reflexivity.
    + reflexivity.
  - exists (LPaPmEsc p). split; [|split; [unfold enabledb; now rewrite H|reflexivity]].
    apply (in_cand_path s p); [|simpl; auto]. apply Hpl. simpl in H. step_inv H. congruence.
  - exists (LPaCtx p). split; [|split; [unfold enabledb; now rewrite H|reflexivity]].
    apply (in_cand_path s p); [|simpl; auto 10]. apply Hpl. simpl in H. step_inv H. congruence.
  - exists (LPaTRemPm p). split; [|split; [unfold enabledb; now rewrite H|reflexivity]].
    apply (in_cand_path s p); [|simpl; auto 10]. apply Hpl. simpl in H. step_inv H. congruence.
  - exists (LPaTRemEsc p). split; [|split; [unfold enabledb; now rewrite H|reflexivity]].
    apply (in_cand_path s p); [|simpl; auto 10]. apply Hpl. simpl in H. step_inv H. congruence.
  - exists (LPaTAns p). split; [|split; [unfold enabledb; now rewrite H|reflexivity]].
    apply (in_cand_path s p); [|simpl; auto 10]. apply Hpl. simpl in H. step_inv H. congruence.
  - (* LPaTFin *) exists (LPaTFin p false). split; [|split].
    + apply (in_cand_path s p); [|simpl; auto 10]. apply Hpl. simpl in H. step_inv H; congruence.
    + unfold enabledb. simpl in *. destruct (ppc (paths s p)); try discriminate.
      destruct (held (paths s p)); try discriminate. reflexivity.
    + reflexivity.
  - exists (LPaTNrPm p). split; [|split; [unfold enabledb; now rewrite H|reflexivity]].
    apply (in_cand_path s p); [|simpl; auto 15]. apply Hpl. simpl in H. step_inv H. congruence.
  - exists (LPaTNrEsc p). split; [|split; [unfold enabledb; now rewrite H|reflexivity]].
    apply (in_cand_path s p); [|simpl; auto 15]. apply Hpl. simpl in H. step_inv H. congruence.
  - exists LClDone. split; [apply in_cand_pm; simpl; auto 10|]. split; [unfold enabledb; now rewrite H|reflexivity].
Qed.

Lemma settled_sound s fr l s' :
  Inv s -> settled s fr = true -> internal l = true -> step true s l = Some s' ->
  exists q, In q (involves s l) /\ existsb (proc_eqb q) fr = true.
Proof.
  intros HI Hs Hint H.
  destruct (candidates_complete s l s' HI Hint H) as [l' [Hin [Hen Hinv]]].
  unfold settled in Hs. rewrite forallb_forall in Hs. specialize (Hs l' Hin).
  rewrite Hen in Hs. simpl in Hs. apply existsb_exists in Hs. destruct Hs as [q [Hq Hf]].
  exists q. rewrite <- Hinv. auto.
Qed.

Lemma settled_nothing_frozen s l :
  Inv s -> settled s [] = true -> internal l = true -> step true s l = None.
Proof.
  intros HI Hs Hint. destruct (step true s l) as [s'|] eqn:E; [|reflexivity].
  destruct (settled_sound s [] l s' HI Hs Hint E) as [q [_ Hq]]. discriminate Hq.
Qed.
