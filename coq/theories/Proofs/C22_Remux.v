(* Proofs about Model/C22_Remux.v: specification-level description of the updater/remuxer pairs
   and the theorems restated in Props/C22.v. *)
From Coq Require Import List ZArith Bool Lia.
Require Import MTX.Model.C22_Remux.
Import ListNotations.
Local Open Scope Z_scope.

(* ------------------------------------------------------------------ vocabulary of the statements *)

(* no NAL unit / OBU of the unit is empty *)
Definition no_empty (au : list bytes) : Prop := ~ In [] au.

(* the unit has type t under the codec's type function (an empty one has no type) *)
Definition typ_is (typ : Z -> Z) (t : Z) (n : bytes) : bool :=
  match n with [] => false | b :: _ => typ b =? t end.

(* the last element of l, or prev when l is empty *)
Definition last_or (prev : option bytes) (l : list bytes) : option bytes :=
  fold_left (fun _ n => Some n) l prev.

Definition h264_is := typ_is h264_typ.
Definition h264_param (n : bytes) : bool := h264_is 7 n || h264_is 8 n.
Definition h264_aud (n : bytes) : bool := h264_is 9 n.
Definition h264_has_idr (au : list bytes) : bool := existsb (h264_is 5) au.

(* per kind: the last in-band occurrence, or the previous value *)
Definition h264_upd_spec (st : h264_params) (au : list bytes) : h264_params :=
  {| h4_sps := last_or st.(h4_sps) (filter (h264_is 7) au);
     h4_pps := last_or st.(h4_pps) (filter (h264_is 8) au) |}.

Definition h264_out_spec (st' : h264_params) (au : list bytes) : list bytes :=
  (if h264_has_idr au && h264_known st' then [slice_of st'.(h4_sps); slice_of st'.(h4_pps)] else [])
  ++ filter (fun n => negb (h264_param n || h264_aud n)) au.

Fixpoint h264_spec_run (st : h264_params) (aus : list (list bytes)) : list (list bytes * h264_params) :=
  match aus with
  | [] => []
  | au :: r => let st' := h264_upd_spec st au in (h264_out_spec st' au, st') :: h264_spec_run st' r
  end.

Definition h265_is := typ_is h265_typ.
Definition h265_param (n : bytes) : bool := h265_is 32 n || h265_is 33 n || h265_is 34 n.
Definition h265_aud (n : bytes) : bool := h265_is 35 n.
(* the random-access types the code looks for: IDR_W_RADL, IDR_N_LP, CRA_NUT; the BLA types are not among them *)
Definition h265_irap (n : bytes) : bool := h265_is 19 n || h265_is 20 n || h265_is 21 n.
Definition h265_has_irap (au : list bytes) : bool := existsb h265_irap au.

Definition h265_upd_spec (st : h265_params) (au : list bytes) : h265_params :=
  {| h5_vps := last_or st.(h5_vps) (filter (h265_is 32) au);
     h5_sps := last_or st.(h5_sps) (filter (h265_is 33) au);
     h5_pps := last_or st.(h5_pps) (filter (h265_is 34) au) |}.

Definition h265_out_spec (st' : h265_params) (au : list bytes) : list bytes :=
  (if h265_has_irap au && h265_known st'
   then [slice_of st'.(h5_vps); slice_of st'.(h5_sps); slice_of st'.(h5_pps)] else [])
  ++ filter (fun n => negb (h265_param n || h265_aud n)) au.

Fixpoint h265_spec_run (st : h265_params) (aus : list (list bytes)) : list (list bytes * h265_params) :=
  match aus with
  | [] => []
  | au :: r => let st' := h265_upd_spec st au in (h265_out_spec st' au, st') :: h265_spec_run st' r
  end.

Definition av1_td (obu : bytes) : bool := typ_is av1_typ 2 obu.

(* every parameter set the format holds is either absent or a non-empty NAL unit *)
Definition param_ok (o : option bytes) : Prop := o <> Some [].

(* ------------------------------------------------------------------ basics *)

Lemma bytes_eqb_eq : forall a b, bytes_eqb a b = true <-> a = b.
Proof.
  induction a as [|x a IH]; destruct b as [|y b]; simpl; split; intro H; try reflexivity; try discriminate.
  - apply andb_true_iff in H. destruct H as [H1 H2]. apply Z.eqb_eq in H1. apply IH in H2. congruence.
  - inversion H; subst. rewrite Z.eqb_refl. simpl. apply IH. reflexivity.
Qed.

Lemma bytes_eqb_refl : forall a, bytes_eqb a a = true.
Proof. intro a. apply bytes_eqb_eq. reflexivity. Qed.

Lemma go_equal_cons : forall b n o, go_equal (b :: n) o = true -> o = Some (b :: n).
Proof.
  intros b n o H. unfold go_equal in H. apply bytes_eqb_eq in H.
  destruct o as [s|]; simpl in H; [rewrite <- H; reflexivity|discriminate].
Qed.

Lemma go_equal_same : forall n, go_equal n (Some n) = true.
Proof. intro n. unfold go_equal. simpl. apply bytes_eqb_refl. Qed.

Lemma no_empty_cons : forall x r, no_empty (x :: r) <-> x <> [] /\ no_empty r.
Proof.
  intros x r. unfold no_empty. simpl. split.
  - intro H. split; [intro E; apply H; left; exact E|intro E; apply H; right; exact E].
  - intros [H1 H2] [E|E]; [apply H1; exact E|apply H2; exact E].
Qed.

Lemma no_empty_nil : no_empty [].
Proof. intro H. exact H. Qed.

Lemma place_exact : forall out, place (Z.of_nat (length out)) out = Ok out.
Proof.
  intro out. unfold place. rewrite Z.leb_refl. rewrite Z.sub_diag. simpl. rewrite app_nil_r. reflexivity.
Qed.

Lemma last_or_cons : forall prev x l, last_or prev (x :: l) = last_or (Some x) l.
Proof. reflexivity. Qed.

Lemma last_or_some : forall l prev, l <> [] -> exists x, In x l /\ last_or prev l = Some x.
Proof.
  induction l as [|y l IH]; intros prev H; [congruence|].
  rewrite last_or_cons. destruct l as [|z l].
  - exists y. split; [left; reflexivity|reflexivity].
  - destruct (IH (Some y)) as [x [Hin Hx]]; [discriminate|]. exists x. split; [right; exact Hin|exact Hx].
Qed.

Lemma last_or_ok : forall l prev, param_ok prev -> ~ In [] l -> param_ok (last_or prev l).
Proof.
  intros l prev Hp Hl. destruct l as [|y l]; [exact Hp|].
  destruct (last_or_some (y :: l) prev) as [x [Hin Hx]]; [discriminate|].
  rewrite Hx. intro E. inversion E; subst. apply Hl. exact Hin.
Qed.

(* ------------------------------------------------------------------ H.264 *)

Ltac upd_same IHres :=
  let u' := fresh "u'" in let H1 := fresh "H1" in let H2 := fresh "H2" in let H4 := fresh "H4" in
  destruct IHres as [u' [H1 [H2 H4]]]; exists u';
  split; [exact H1|split; [exact H2|exact H4]].
Ltac upd_changed IHres :=
  let u' := fresh "u'" in let H1 := fresh "H1" in let H2 := fresh "H2" in let H4 := fresh "H4" in
  destruct IHres as [u' [H1 [H2 H4]]]; exists u';
  split; [exact H1|split; [intros _; exact (H2 eq_refl)|let Hf := fresh "Hf" in (intro Hf; rewrite (H2 eq_refl) in Hf; discriminate Hf)]].

Lemma h264_upd_loop_spec : forall au s p u, no_empty au ->
  exists u', h264_upd_loop au s p u =
             Ok (last_or s (filter (h264_is 7) au), last_or p (filter (h264_is 8) au), u')
    /\ (u = true -> u' = true)
    /\ (u' = false -> last_or s (filter (h264_is 7) au) = s /\ last_or p (filter (h264_is 8) au) = p).
Proof.
  induction au as [|n r IH]; intros s p u Hne.
  - exists u. simpl. repeat split; auto.
  - apply no_empty_cons in Hne. destruct Hne as [Hn Hr]. destruct n as [|b n]; [congruence|].
    cbn [h264_upd_loop filter h264_is typ_is].
    destruct (h264_typ b =? 7) eqn:E7.
    + assert (E8 : (h264_typ b =? 8) = false) by (apply Z.eqb_eq in E7; apply Z.eqb_neq; lia).
      rewrite E8. rewrite last_or_cons.
      destruct (go_equal (b :: n) s) eqn:Eq; cbn [negb].
      * apply go_equal_cons in Eq. subst s. upd_same (IH (Some (b :: n)) p u Hr).
      * upd_changed (IH (Some (b :: n)) p true Hr).
    + destruct (h264_typ b =? 8) eqn:E8.
      * rewrite last_or_cons.
        destruct (go_equal (b :: n) p) eqn:Eq; cbn [negb].
        -- apply go_equal_cons in Eq. subst p. upd_same (IH s (Some (b :: n)) u Hr).
        -- upd_changed (IH s (Some (b :: n)) true Hr).
      * upd_same (IH s p u Hr).
Qed.

Lemma h264_update_spec : forall st au, no_empty au ->
  exists u, h264_update st au = Ok (h264_upd_spec st au, u) /\ (u = false -> h264_upd_spec st au = st).
Proof.
  intros st au Hne. unfold h264_update.
  destruct (h264_upd_loop_spec au (h4_sps st) (h4_pps st) false Hne) as [u' [H1 [_ H4]]].
  rewrite H1. exists u'. destruct u'.
  - split; [reflexivity|intro; discriminate].
  - destruct (H4 eq_refl) as [Ha Hb]. unfold h264_upd_spec. rewrite Ha, Hb. destruct st; simpl.
    split; [reflexivity|reflexivity].
Qed.

Lemma h264_keep_spec : forall n, h264_keep n = negb (h264_param n || h264_aud n).
Proof.
  intros [|b n]; [reflexivity|]. unfold h264_keep, h264_param, h264_aud, h264_is, typ_is. reflexivity.
Qed.

Lemma h264_count_spec : forall known au key n, no_empty au ->
  h264_count known au key n =
  Ok (key || h264_has_idr au,
      n + Z.of_nat (length (filter h264_keep au))
        + (if negb key && h264_has_idr au && known then 2 else 0)).
Proof.
  intros known. induction au as [|x r IH]; intros key n Hne.
  - simpl. rewrite orb_false_r, andb_false_r. simpl. f_equal. f_equal. lia.
  - apply no_empty_cons in Hne. destruct Hne as [Hx Hr]. destruct x as [|b x]; [congruence|].
    cbn [h264_count h264_has_idr existsb filter h264_keep h264_is typ_is].
    destruct (h264_typ b =? 7) eqn:E7.
    { assert (E5 : (h264_typ b =? 5) = false) by (apply Z.eqb_eq in E7; apply Z.eqb_neq; lia).
      rewrite E5. cbn [orb negb]. rewrite IH by exact Hr. reflexivity. }
    destruct (h264_typ b =? 8) eqn:E8.
    { assert (E5 : (h264_typ b =? 5) = false) by (apply Z.eqb_eq in E8; apply Z.eqb_neq; lia).
      rewrite E5. cbn [orb negb]. rewrite IH by exact Hr. reflexivity. }
    destruct (h264_typ b =? 9) eqn:E9.
    { assert (E5 : (h264_typ b =? 5) = false) by (apply Z.eqb_eq in E9; apply Z.eqb_neq; lia).
      rewrite E5. cbn [orb negb]. rewrite IH by exact Hr. reflexivity. }
    cbn [orb negb length]. destruct (h264_typ b =? 5) eqn:E5.
    + destruct key; cbn [negb orb andb]; rewrite IH by exact Hr; cbn [orb negb andb].
      * f_equal. f_equal. unfold h264_has_idr. lia.
      * f_equal. f_equal. destruct known; lia.
    + rewrite IH by exact Hr. cbn [orb]. f_equal. f_equal. unfold h264_has_idr. lia.
Qed.

Lemma filter_ext' : forall (A : Type) (f g : A -> bool) l, (forall x, f x = g x) -> filter f l = filter g l.
Proof. intros A f g l H. induction l as [|x l IH]; simpl; [reflexivity|rewrite H, IH; reflexivity]. Qed.

Lemma h264_remux_spec : forall st au, no_empty au -> h264_remux st au = Ok (h264_out_spec st au).
Proof.
  intros st au Hne. unfold h264_remux. rewrite h264_count_spec by exact Hne.
  cbn [negb orb andb]. unfold h264_out_spec.
  rewrite (filter_ext' _ (fun n => negb (h264_param n || h264_aud n)) h264_keep)
    by (intro x; symmetry; apply h264_keep_spec).
  set (body := filter h264_keep au).
  destruct (h264_has_idr au && h264_known st) eqn:Ek.
  - replace (0 + Z.of_nat (length body) + 2) with (Z.of_nat (length ([slice_of (h4_sps st); slice_of (h4_pps st)] ++ body)))
      by (rewrite app_length; simpl length; lia).
    destruct (Z.of_nat (length ([slice_of (h4_sps st); slice_of (h4_pps st)] ++ body)) =? 0) eqn:E0.
    + apply Z.eqb_eq in E0. simpl length in E0. lia.
    + apply place_exact.
  - replace (0 + Z.of_nat (length body) + 0) with (Z.of_nat (length body)) by lia.
    destruct (Z.of_nat (length body) =? 0) eqn:E0.
    + apply Z.eqb_eq in E0. destruct body; [reflexivity|simpl length in E0; lia].
    + simpl app. apply place_exact.
Qed.

Theorem h264_write_spec : forall st au, no_empty au ->
  exists u, h264_write st au = Ok (h264_out_spec (h264_upd_spec st au) au, h264_upd_spec st au, u)
            /\ (u = false -> h264_upd_spec st au = st).
Proof.
  intros st au Hne. destruct (h264_update_spec st au Hne) as [u [H1 H2]].
  exists u. unfold h264_write. rewrite H1, h264_remux_spec by exact Hne. split; [reflexivity|exact H2].
Qed.

Lemma h264_upd_loop_panic : forall au s p u, In [] au -> h264_upd_loop au s p u = Panic.
Proof.
  induction au as [|n r IH]; intros s p u H; [destruct H|].
  destruct n as [|b n]; [reflexivity|]. destruct H as [H|H]; [discriminate|].
  cbn [h264_upd_loop]. destruct (h264_typ b =? 7); [destruct (negb _); apply IH; exact H|].
  destruct (h264_typ b =? 8); [destruct (negb _); apply IH; exact H|apply IH; exact H].
Qed.

Theorem h264_write_panic_iff : forall st au, h264_write st au = Panic <-> In [] au.
Proof.
  intros st au. split.
  - intro H. destruct (in_dec (list_eq_dec Z.eq_dec) [] au) as [Hin|Hn]; [exact Hin|].
    destruct (h264_write_spec st au Hn) as [u [H1 _]]. rewrite H1 in H. discriminate.
  - intro H. unfold h264_write, h264_update. rewrite h264_upd_loop_panic by exact H. reflexivity.
Qed.

Theorem h264_run_spec : forall aus st, Forall no_empty aus -> h264_run st aus = Ok (h264_spec_run st aus).
Proof.
  induction aus as [|au r IH]; intros st H; [reflexivity|].
  inversion H as [|? ? Hau Hr]; subst. cbn [h264_run h264_spec_run].
  destruct (h264_write_spec st au Hau) as [u [H1 _]]. rewrite H1, IH by exact Hr. reflexivity.
Qed.

Lemma nonempty_slice : forall o, nonempty o = true -> slice_of o <> [].
Proof. intros o H. unfold nonempty in H. destruct (slice_of o); [discriminate|discriminate]. Qed.

(* the delivered unit never holds an empty NAL unit, whatever the format holds *)
Theorem h264_out_no_empty : forall st au, no_empty au -> no_empty (h264_out_spec st au).
Proof.
  intros st au Hne Hin. unfold h264_out_spec in Hin. apply in_app_or in Hin. destruct Hin as [Hin|Hin].
  - destruct (h264_has_idr au && h264_known st) eqn:Ek; [|destruct Hin].
    apply andb_true_iff in Ek. destruct Ek as [_ Ek]. unfold h264_known in Ek. apply andb_true_iff in Ek.
    destruct Ek as [Ks Kp]. apply nonempty_slice in Ks. apply nonempty_slice in Kp.
    destruct Hin as [E|[E|[]]]; congruence.
  - apply filter_In in Hin. destruct Hin as [Hin _]. apply Hne. exact Hin.
Qed.

Theorem h264_params_ok : forall st au, no_empty au -> param_ok st.(h4_sps) -> param_ok st.(h4_pps) ->
  param_ok (h264_upd_spec st au).(h4_sps) /\ param_ok (h264_upd_spec st au).(h4_pps).
Proof.
  intros st au Hne Hs Hp. unfold h264_upd_spec. simpl. split; apply last_or_ok; auto;
    intro Hin; apply filter_In in Hin; destruct Hin as [Hin _]; apply Hne; exact Hin.
Qed.

(* ------------------------------------------------------------------ H.265 *)

Lemma h265_upd_loop_spec : forall au v s p u, no_empty au ->
  exists u', h265_upd_loop au v s p u =
             Ok (last_or v (filter (h265_is 32) au), last_or s (filter (h265_is 33) au),
                 last_or p (filter (h265_is 34) au), u')
    /\ (u = true -> u' = true)
    /\ (u' = false -> last_or v (filter (h265_is 32) au) = v /\ last_or s (filter (h265_is 33) au) = s
                      /\ last_or p (filter (h265_is 34) au) = p).
Proof.
  induction au as [|n r IH]; intros v s p u Hne.
  - exists u. simpl. repeat split; auto.
  - apply no_empty_cons in Hne. destruct Hne as [Hn Hr]. destruct n as [|b n]; [congruence|].
    cbn [h265_upd_loop filter h265_is typ_is].
    destruct (h265_typ b =? 32) eqn:E32.
    + assert (E33 : (h265_typ b =? 33) = false) by (apply Z.eqb_eq in E32; apply Z.eqb_neq; lia).
      assert (E34 : (h265_typ b =? 34) = false) by (apply Z.eqb_eq in E32; apply Z.eqb_neq; lia).
      rewrite E33, E34. rewrite last_or_cons.
      destruct (go_equal (b :: n) v) eqn:Eq; cbn [negb].
      * apply go_equal_cons in Eq. subst v. upd_same (IH (Some (b :: n)) s p u Hr).
      * upd_changed (IH (Some (b :: n)) s p true Hr).
    + destruct (h265_typ b =? 33) eqn:E33.
      * assert (E34 : (h265_typ b =? 34) = false) by (apply Z.eqb_eq in E33; apply Z.eqb_neq; lia).
        rewrite E34. rewrite last_or_cons.
        destruct (go_equal (b :: n) s) eqn:Eq; cbn [negb].
        -- apply go_equal_cons in Eq. subst s. upd_same (IH v (Some (b :: n)) p u Hr).
        -- upd_changed (IH v (Some (b :: n)) p true Hr).
      * destruct (h265_typ b =? 34) eqn:E34.
        -- rewrite last_or_cons.
           destruct (go_equal (b :: n) p) eqn:Eq; cbn [negb].
           ++ apply go_equal_cons in Eq. subst p. upd_same (IH v s (Some (b :: n)) u Hr).
           ++ upd_changed (IH v s (Some (b :: n)) true Hr).
        -- upd_same (IH v s p u Hr).
Qed.

Lemma h265_update_spec : forall st au, no_empty au ->
  exists u, h265_update st au = Ok (h265_upd_spec st au, u) /\ (u = false -> h265_upd_spec st au = st).
Proof.
  intros st au Hne. unfold h265_update.
  destruct (h265_upd_loop_spec au (h5_vps st) (h5_sps st) (h5_pps st) false Hne) as [u' [H1 [_ H4]]].
  rewrite H1. exists u'. destruct u'.
  - split; [reflexivity|intro; discriminate].
  - destruct (H4 eq_refl) as [Ha [Hb Hc]]. unfold h265_upd_spec. rewrite Ha, Hb, Hc. destruct st; simpl.
    split; reflexivity.
Qed.

Lemma h265_keep_spec : forall n, h265_keep n = negb (h265_param n || h265_aud n).
Proof.
  intros [|b n]; [reflexivity|]. unfold h265_keep, h265_param, h265_aud, h265_is, typ_is. reflexivity.
Qed.

Lemma h265_count_spec : forall known au key n, no_empty au ->
  h265_count known au key n =
  Ok (key || h265_has_irap au,
      n + Z.of_nat (length (filter h265_keep au))
        + (if negb key && h265_has_irap au && known then 3 else 0)).
Proof.
  intros known. induction au as [|x r IH]; intros key n Hne.
  - simpl. rewrite orb_false_r, andb_false_r. simpl. f_equal. f_equal. lia.
  - apply no_empty_cons in Hne. destruct Hne as [Hx Hr]. destruct x as [|b x]; [congruence|].
    cbn [h265_count h265_has_irap existsb filter h265_keep].
    change (h265_irap (b :: x)) with ((h265_typ b =? 19) || (h265_typ b =? 20) || (h265_typ b =? 21)).
    assert (Hp : forall t, (t = 32 \/ t = 33 \/ t = 34 \/ t = 35) -> (h265_typ b =? t) = true ->
                 (h265_typ b =? 19) || (h265_typ b =? 20) || (h265_typ b =? 21) = false).
    { intros t Ht E. apply Z.eqb_eq in E. repeat rewrite orb_false_iff. repeat split; apply Z.eqb_neq; lia. }
    destruct (h265_typ b =? 32) eqn:E32.
    { rewrite (Hp 32) by auto. cbn [orb negb]. rewrite IH by exact Hr. reflexivity. }
    destruct (h265_typ b =? 33) eqn:E33.
    { rewrite (Hp 33) by auto. cbn [orb negb]. rewrite IH by exact Hr. reflexivity. }
    destruct (h265_typ b =? 34) eqn:E34.
    { rewrite (Hp 34) by auto. cbn [orb negb]. rewrite IH by exact Hr. reflexivity. }
    destruct (h265_typ b =? 35) eqn:E35.
    { rewrite (Hp 35) by auto. cbn [orb negb]. rewrite IH by exact Hr. reflexivity. }
    cbn [orb negb length]. clear Hp.
    destruct ((h265_typ b =? 19) || (h265_typ b =? 20) || (h265_typ b =? 21)) eqn:Ei.
    + destruct key; cbn [negb orb andb]; rewrite IH by exact Hr; cbn [orb negb andb].
      * f_equal. f_equal. unfold h265_has_irap. lia.
      * f_equal. f_equal. destruct known; lia.
    + rewrite IH by exact Hr. cbn [orb]. f_equal. f_equal. unfold h265_has_irap. lia.
Qed.

Lemma h265_remux_spec : forall st au, no_empty au -> h265_remux st au = Ok (h265_out_spec st au).
Proof.
  intros st au Hne. unfold h265_remux. rewrite h265_count_spec by exact Hne.
  cbn [negb orb andb]. unfold h265_out_spec.
  rewrite (filter_ext' _ (fun n => negb (h265_param n || h265_aud n)) h265_keep)
    by (intro x; symmetry; apply h265_keep_spec).
  set (body := filter h265_keep au).
  destruct (h265_has_irap au && h265_known st) eqn:Ek.
  - set (pre := [slice_of (h5_vps st); slice_of (h5_sps st); slice_of (h5_pps st)]).
    replace (0 + Z.of_nat (length body) + 3) with (Z.of_nat (length (pre ++ body)))
      by (rewrite app_length; simpl length; lia).
    destruct (Z.of_nat (length (pre ++ body)) =? 0) eqn:E0.
    + apply Z.eqb_eq in E0. rewrite app_length in E0. simpl length in E0. lia.
    + apply place_exact.
  - replace (0 + Z.of_nat (length body) + 0) with (Z.of_nat (length body)) by lia.
    destruct (Z.of_nat (length body) =? 0) eqn:E0.
    + apply Z.eqb_eq in E0. destruct body; [reflexivity|simpl length in E0; lia].
    + simpl app. apply place_exact.
Qed.

Theorem h265_write_spec : forall st au, no_empty au ->
  exists u, h265_write st au = Ok (h265_out_spec (h265_upd_spec st au) au, h265_upd_spec st au, u)
            /\ (u = false -> h265_upd_spec st au = st).
Proof.
  intros st au Hne. destruct (h265_update_spec st au Hne) as [u [H1 H2]].
  exists u. unfold h265_write. rewrite H1, h265_remux_spec by exact Hne. split; [reflexivity|exact H2].
Qed.

Lemma h265_upd_loop_panic : forall au v s p u, In [] au -> h265_upd_loop au v s p u = Panic.
Proof.
  induction au as [|n r IH]; intros v s p u H; [destruct H|].
  destruct n as [|b n]; [reflexivity|]. destruct H as [H|H]; [discriminate|].
  cbn [h265_upd_loop]. destruct (h265_typ b =? 32); [destruct (negb _); apply IH; exact H|].
  destruct (h265_typ b =? 33); [destruct (negb _); apply IH; exact H|].
  destruct (h265_typ b =? 34); [destruct (negb _); apply IH; exact H|apply IH; exact H].
Qed.

Theorem h265_write_panic_iff : forall st au, h265_write st au = Panic <-> In [] au.
Proof.
  intros st au. split.
  - intro H. destruct (in_dec (list_eq_dec Z.eq_dec) [] au) as [Hin|Hn]; [exact Hin|].
    destruct (h265_write_spec st au Hn) as [u [H1 _]]. rewrite H1 in H. discriminate.
  - intro H. unfold h265_write, h265_update. rewrite h265_upd_loop_panic by exact H. reflexivity.
Qed.

Theorem h265_run_spec : forall aus st, Forall no_empty aus -> h265_run st aus = Ok (h265_spec_run st aus).
Proof.
  induction aus as [|au r IH]; intros st H; [reflexivity|].
  inversion H as [|? ? Hau Hr]; subst. cbn [h265_run h265_spec_run].
  destruct (h265_write_spec st au Hau) as [u [H1 _]]. rewrite H1, IH by exact Hr. reflexivity.
Qed.

Theorem h265_out_no_empty : forall st au, no_empty au -> no_empty (h265_out_spec st au).
Proof.
  intros st au Hne Hin. unfold h265_out_spec in Hin. apply in_app_or in Hin. destruct Hin as [Hin|Hin].
  - destruct (h265_has_irap au && h265_known st) eqn:Ek; [|destruct Hin].
    apply andb_true_iff in Ek. destruct Ek as [_ Ek]. unfold h265_known in Ek. apply andb_true_iff in Ek.
    destruct Ek as [Ek Kp]. apply andb_true_iff in Ek. destruct Ek as [Kv Ks].
    apply nonempty_slice in Kv. apply nonempty_slice in Ks. apply nonempty_slice in Kp.
    destruct Hin as [E|[E|[E|[]]]]; congruence.
  - apply filter_In in Hin. destruct Hin as [Hin _]. apply Hne. exact Hin.
Qed.

(* ------------------------------------------------------------------ AV1 *)

Lemma av1_count_spec : forall tu n, no_empty tu -> av1_count tu n = Ok (n + Z.of_nat (length (filter av1_keep tu))).
Proof.
  induction tu as [|x r IH]; intros n Hne.
  - simpl. f_equal. lia.
  - apply no_empty_cons in Hne. destruct Hne as [Hx Hr]. destruct x as [|b x]; [congruence|].
    cbn [av1_count filter av1_keep]. destruct (av1_typ b =? 2); cbn [negb length]; rewrite IH by exact Hr.
    + reflexivity.
    + f_equal. lia.
Qed.

Theorem av1_remux_spec : forall tu, no_empty tu ->
  av1_remux tu = Ok (filter (fun o => negb (av1_td o)) tu).
Proof.
  intros tu Hne. unfold av1_remux. rewrite av1_count_spec by exact Hne.
  rewrite (filter_ext' _ (fun o => negb (av1_td o)) av1_keep)
    by (intros [|b x]; reflexivity).
  set (body := filter av1_keep tu). replace (0 + Z.of_nat (length body)) with (Z.of_nat (length body)) by lia.
  destruct (Z.of_nat (length body) =? 0) eqn:E0.
  - apply Z.eqb_eq in E0. destruct body; [reflexivity|simpl length in E0; lia].
  - apply place_exact.
Qed.

Lemma av1_count_panic : forall tu n, In [] tu -> av1_count tu n = Panic.
Proof.
  induction tu as [|x r IH]; intros n H; [destruct H|].
  destruct x as [|b x]; [reflexivity|]. destruct H as [H|H]; [discriminate|].
  cbn [av1_count]. destruct (av1_typ b =? 2); apply IH; exact H.
Qed.

Theorem av1_remux_panic_iff : forall tu, av1_remux tu = Panic <-> In [] tu.
Proof.
  intro tu. split.
  - intro H. destruct (in_dec (list_eq_dec Z.eq_dec) [] tu) as [Hin|Hn]; [exact Hin|].
    rewrite av1_remux_spec in H by exact Hn. discriminate.
  - intro H. unfold av1_remux. rewrite av1_count_panic by exact H. reflexivity.
Qed.

(* ------------------------------------------------------------------ MPEG-4 Video *)

(* the configuration carried in-band by a frame: the frame starts with the visual-object-sequence
   start code and a group-of-VOP start code begins at offset >= 4; the configuration is everything
   before the first such start code *)
Definition mpeg4_inband (frame : bytes) : option (bytes * bytes) :=
  if has_prefix vos_code frame then
    match index gov_code (skipn 4 frame) with
    | Some e => Some (firstn (e + 4) frame, skipn (e + 4) frame)
    | None => None
    end
  else None.

Lemma skipn_skipn' : forall (A : Type) (a b : nat) (l : list A), skipn a (skipn b l) = skipn (a + b) l.
Proof.
  intros A a b. revert a. induction b as [|b IH]; intros a l.
  - rewrite Nat.add_0_r. reflexivity.
  - destruct l as [|x l].
    + simpl. rewrite !skipn_nil. reflexivity.
    + rewrite Nat.add_succ_r. simpl. apply IH.
Qed.

Lemma index_some : forall pat s i, index pat s = Some i ->
  has_prefix pat (skipn i s) = true /\ forall j, (j < i)%nat -> has_prefix pat (skipn j s) = false.
Proof.
  intros pat. induction s as [|c r IH]; intros i H.
  - simpl in H. destruct (has_prefix pat []) eqn:E; [|discriminate]. inversion H; subst.
    split; [exact E|intros j Hj; inversion Hj].
  - cbn [index] in H. destruct (has_prefix pat (c :: r)) eqn:E.
    + inversion H; subst. split; [exact E|intros j Hj; inversion Hj].
    + destruct (index pat r) as [k|] eqn:Ei; [|discriminate]. inversion H; subst.
      destruct (IH k eq_refl) as [H1 H2]. split; [exact H1|].
      intros j Hj. destruct j as [|j]; [exact E|]. simpl. apply H2. apply Nat.succ_lt_mono. exact Hj.
Qed.

Lemma index_none : forall pat s, index pat s = None -> forall j, has_prefix pat (skipn j s) = false.
Proof.
  intros pat. induction s as [|c r IH]; intros H j.
  - simpl in H. destruct (has_prefix pat []) eqn:E; [discriminate|]. rewrite skipn_nil. exact E.
  - cbn [index] in H. destruct (has_prefix pat (c :: r)) eqn:E; [discriminate|].
    destruct (index pat r) eqn:Ei; [discriminate|]. destruct j as [|j]; [exact E|]. simpl. apply IH. reflexivity.
Qed.

Lemma contains_prefix : forall pat s, has_prefix pat s = true -> contains pat s = true.
Proof.
  intros pat s H. unfold contains. destruct s as [|c r]; cbn [index]; rewrite H; reflexivity.
Qed.

Lemma has_prefix_app : forall p a b, has_prefix p a = true -> has_prefix p (a ++ b) = true.
Proof.
  induction p as [|x p IH]; intros a b H; [reflexivity|].
  destruct a as [|y a]; [discriminate|]. simpl in *. apply andb_true_iff in H. destruct H as [H1 H2].
  rewrite H1. simpl. apply IH. exact H2.
Qed.

Theorem mpeg4_write_spec : forall cfg frame,
  let '(out, cfg', upd) := mpeg4_write cfg frame in
  (upd = false -> cfg' = cfg) /\
  match mpeg4_inband frame with
  | Some (conf, body) =>
      frame = conf ++ body /\ has_prefix vos_code frame = true /\ has_prefix gov_code body = true
      /\ (4 <= length conf)%nat
      /\ (forall j, (4 + j < length conf)%nat -> has_prefix gov_code (skipn (4 + j) frame) = false)
      /\ cfg' = conf /\ out = frame
  | None =>
      cfg' = cfg /\ out = (if contains gov_code frame then cfg ++ frame else frame)
  end.
Proof.
  intros cfg frame. unfold mpeg4_write, mpeg4_update, mpeg4_remux, mpeg4_inband.
  destruct (has_prefix vos_code frame) eqn:Ev.
  - destruct (index gov_code (skipn 4 frame)) as [e|] eqn:Ei.
    + destruct (index_some _ _ _ Ei) as [Hp Hmin].
      rewrite skipn_skipn' in Hp.
      assert (Hlen4 : (4 <= length frame)%nat).
      { destruct frame as [|a [|b [|c [|d r]]]]; simpl in Ev; try discriminate;
          repeat (apply andb_true_iff in Ev; destruct Ev as [? Ev]); try discriminate. simpl. lia. }
      assert (Hle : (e + 4 <= length frame)%nat).
      { destruct (le_lt_dec (e + 4) (length frame)) as [Hl|Hl]; [exact Hl|].
        rewrite skipn_all2 in Hp by lia. discriminate. }
      assert (Hcl : length (firstn (e + 4) frame) = (e + 4)%nat) by (apply firstn_length_le; exact Hle).
      assert (Hmin' : forall j, (4 + j < length (firstn (e + 4) frame))%nat ->
                                 has_prefix gov_code (skipn (4 + j) frame) = false).
      { intros j Hj. rewrite Hcl in Hj. replace (4 + j)%nat with (j + 4)%nat by lia.
        rewrite <- skipn_skipn'. apply Hmin. lia. }
      rewrite (contains_prefix _ _ Hp).
      destruct (negb (bytes_eqb (firstn (e + 4) frame) cfg)) eqn:En.
      * split; [intro; discriminate|].
        repeat split; auto; try (symmetry; apply firstn_skipn); try lia. apply firstn_skipn.
      * apply negb_false_iff in En. apply bytes_eqb_eq in En.
        split; [reflexivity|].
        repeat split; auto; try (symmetry; apply firstn_skipn); try lia.
        rewrite <- En. apply firstn_skipn.
    + split; [reflexivity|]. split; reflexivity.
  - split; [reflexivity|]. split; reflexivity.
Qed.

(* a frame that carries its configuration in-band leaves the remuxer unchanged *)
Corollary mpeg4_inband_identity : forall cfg frame conf body,
  mpeg4_inband frame = Some (conf, body) -> mpeg4_write cfg frame = (frame, conf, negb (bytes_eqb conf cfg)).
Proof.
  intros cfg frame conf body H. pose proof (mpeg4_write_spec cfg frame) as S.
  unfold mpeg4_write in *. unfold mpeg4_inband in H. unfold mpeg4_update in *.
  destruct (has_prefix vos_code frame) eqn:Ev; [|discriminate].
  destruct (index gov_code (skipn 4 frame)) as [e|] eqn:Ei; [|discriminate].
  inversion H; subst. unfold mpeg4_inband in S. rewrite Ev, Ei in S.
  destruct (negb (bytes_eqb (firstn (e + 4) frame) cfg)) eqn:En.
  - destruct S as [_ [_ [_ [_ [_ [_ [_ S]]]]]]]. rewrite S. reflexivity.
  - destruct S as [_ [_ [_ [_ [_ [_ [S1 S]]]]]]]. rewrite S. apply negb_false_iff in En.
    apply bytes_eqb_eq in En. rewrite En. reflexivity.
Qed.

(* sequence form: the configuration after each frame is the last in-band one (or the initial one) and
   each delivered frame is described by mpeg4_write_spec with that configuration *)
Definition mpeg4_cfg_spec (cfg frame : bytes) : bytes :=
  match mpeg4_inband frame with Some (conf, _) => conf | None => cfg end.
Definition mpeg4_out_spec (cfg' frame : bytes) : bytes :=
  match mpeg4_inband frame with
  | Some _ => frame
  | None => if contains gov_code frame then cfg' ++ frame else frame
  end.
Fixpoint mpeg4_spec_run (cfg : bytes) (frames : list bytes) : list (bytes * bytes) :=
  match frames with
  | [] => []
  | f :: r => let cfg' := mpeg4_cfg_spec cfg f in (mpeg4_out_spec cfg' f, cfg') :: mpeg4_spec_run cfg' r
  end.

Lemma mpeg4_write_eq : forall cfg frame,
  fst (mpeg4_write cfg frame) = (mpeg4_out_spec (mpeg4_cfg_spec cfg frame) frame, mpeg4_cfg_spec cfg frame).
Proof.
  intros cfg frame. pose proof (mpeg4_write_spec cfg frame) as S.
  destruct (mpeg4_write cfg frame) as [[out cfg'] u]. unfold mpeg4_out_spec, mpeg4_cfg_spec. simpl.
  destruct (mpeg4_inband frame) as [[conf body]|].
  - destruct S as [_ [_ [_ [_ [_ [_ [S1 S2]]]]]]]. subst. reflexivity.
  - destruct S as [_ [S1 S2]]. subst. reflexivity.
Qed.

Theorem mpeg4_run_spec : forall frames cfg, mpeg4_run cfg frames = mpeg4_spec_run cfg frames.
Proof.
  induction frames as [|f r IH]; intro cfg; [reflexivity|].
  cbn [mpeg4_run mpeg4_spec_run]. pose proof (mpeg4_write_eq cfg f) as E.
  destruct (mpeg4_write cfg f) as [[out cfg'] u]. simpl in E. inversion E; subst. rewrite IH. reflexivity.
Qed.

Theorem other_identity : forall (A : Type) (p : A), other_write p = p.
Proof. reflexivity. Qed.

(* what last_or means *)
Lemma last_or_meaning : forall prev, last_or prev [] = prev /\ forall l x, last_or prev (l ++ [x]) = Some x.
Proof.
  intro prev. split; [reflexivity|]. intros l x. unfold last_or. rewrite fold_left_app. reflexivity.
Qed.
