(* Proofs for the life cycle of substituted values (Model/C42_Life.v). *)
From Coq Require Import List ZArith Bool Lia.
Require Import MTX.Model.C42_Template MTX.Model.C42_Life MTX.Proofs.C42_Template.
Import ListNotations.
Local Open Scope Z_scope.

Lemma beqb_eq a : forall b, bytes_eqb a b = true -> a = b.
Proof.
  induction a as [|x a IH]; intros [|y b] H; cbn in H; try discriminate; auto.
  apply andb_true_iff in H. destruct H as [H1 H2]. apply Z.eqb_eq in H1. subst. f_equal. auto.
Qed.

Lemma beqb_refl a : bytes_eqb a a = true.
Proof. induction a as [|x a IH]; cbn; auto. rewrite Z.eqb_refl. exact IH. Qed.

Lemma ms_eqb_eq a : forall b, ms_eqb a b = true -> a = b.
Proof.
  induction a as [|x a IH]; intros [|y b] H; cbn in H; try discriminate; auto.
  apply andb_true_iff in H. destruct H as [H1 H2]. apply beqb_eq in H1. subst. f_equal. auto.
Qed.

Lemma ms_eqb_refl a : ms_eqb a a = true.
Proof. induction a as [|x a IH]; cbn; auto. rewrite beqb_refl. exact IH. Qed.

Lemma dconf_eqb_eq a b : dconf_eqb a b = true -> a = b.
Proof.
  unfold dconf_eqb. intro H. apply andb_true_iff in H. destruct H as [H H3].
  apply andb_true_iff in H. destruct H as [H1 H2].
  apply beqb_eq in H1. apply beqb_eq in H2. apply beqb_eq in H3.
  destruct a, b; cbn in *; subst; reflexivity.
Qed.

Lemma dconf_eqb_refl a : dconf_eqb a a = true.
Proof. unfold dconf_eqb. rewrite !beqb_refl. reflexivity. Qed.

(* ---- which tests may decide that a handler is kept -------------------------------------------- *)

(* a kept handler has the configuration asked for, and what it resolves is what a new handler would resolve *)
Definition keep_sound (name : bytes) (keep : fh -> dconf -> list bytes -> bool) : Prop :=
  forall h d ms, keep h d ms = true ->
    fh_conf h = d /\ held name h = resolve_dest (d_dest d) name ms.

Lemma keep_code_sound name : keep_sound name keep_code.
Proof.
  intros h d ms H. unfold keep_code in H. apply andb_true_iff in H. destruct H as [H1 H2].
  apply dconf_eqb_eq in H1. apply ms_eqb_eq in H2. unfold held. rewrite H1, H2. auto.
Qed.

Definition fresh_value (name : bytes) (ms : list bytes) (h : fh) : Prop :=
  held name h = resolve_dest (d_dest (fh_conf h)) name ms.

Lemma f_create_spec name ms : forall fwd next,
  map fh_conf (f_create ms fwd next) = fwd /\ Forall (fresh_value name ms) (f_create ms fwd next).
Proof.
  induction fwd as [|d r IH]; intro next; cbn.
  - split; constructor.
  - destruct (IH (next + 1)) as [E F]. split.
    + rewrite E. reflexivity.
    + constructor; [reflexivity | exact F].
Qed.

Lemma f_reload_spec name keep : keep_sound name keep -> forall ms fwd old next nh nx,
  f_reload_with keep ms fwd old next = (nh, nx) ->
  map fh_conf nh = fwd /\ Forall (fresh_value name ms) nh.
Proof.
  intros KS ms. induction fwd as [|d fr IH]; intros old next nh nx H; cbn in H.
  - inversion H. subst. split; constructor.
  - destruct old as [|h orest].
    + destruct (f_reload_with keep ms fr [] (next + 1)) as [nh1 nx1] eqn:E.
      inversion H. subst. destruct (IH _ _ _ _ E) as [E1 F1]. split.
      * cbn. rewrite E1. reflexivity.
      * constructor; [reflexivity | exact F1].
    + destruct (keep h d ms) eqn:K.
      * destruct (f_reload_with keep ms fr orest next) as [nh1 nx1] eqn:E.
        inversion H. subst. destruct (IH _ _ _ _ E) as [E1 F1].
        destruct (KS _ _ _ K) as [C V]. split.
        -- cbn. rewrite E1, C. reflexivity.
        -- constructor; [|exact F1]. unfold fresh_value. rewrite C. exact V.
      * destruct (f_reload_with keep ms fr orest (next + 1)) as [nh1 nx1] eqn:E.
        inversion H. subst. destruct (IH _ _ _ _ E) as [E1 F1]. split.
        -- cbn. rewrite E1. reflexivity.
        -- constructor; [reflexivity | exact F1].
Qed.

(* the handlers kept by the code are kept with their identity: an unchanged destination under unchanged groups
   is not restarted (position by position) *)
Lemma f_reload_keeps : forall ms fwd old next nh nx,
  f_reload_with keep_code ms fwd old next = (nh, nx) ->
  forall i h, nth_error old i = Some h -> nth_error fwd i = Some (fh_conf h) -> fh_ms h = ms ->
  nth_error nh i = Some h.
Proof.
  intros ms. induction fwd as [|d fr IH]; intros old next nh nx H i h Ho Hf Hm.
  - destruct i; discriminate.
  - destruct old as [|h0 orest]; [destruct i; discriminate|]. cbn in H.
    destruct i as [|i].
    + cbn in Ho, Hf. inversion Ho. inversion Hf. subst h0 d.
      assert (K : keep_code h (fh_conf h) ms = true).
      { unfold keep_code. rewrite dconf_eqb_refl, Hm, ms_eqb_refl. reflexivity. }
      rewrite K in H. destruct (f_reload_with keep_code ms fr orest next) as [nh1 nx1].
      inversion H. reflexivity.
    + cbn in Ho, Hf. destruct (keep_code h0 d ms).
      * destruct (f_reload_with keep_code ms fr orest next) as [nh1 nx1] eqn:E.
        inversion H. subst. cbn. eapply IH; eauto.
      * destruct (f_reload_with keep_code ms fr orest (next + 1)) as [nh1 nx1] eqn:E.
        inversion H. subst. cbn. eapply IH; eauto.
Qed.

(* ---- the invariant of a live path -------------------------------------------------------------- *)

Definition src_good (tmpl : option bytes) (ms : list bytes) (x : option src) : Prop :=
  match tmpl, x with
  | None, None => True
  | Some t, Some s =>
      s_tmpl s = t /\ s_ms s = ms /\
      (s_running s && s_alive s = true -> s_cur s = resolve_source t ms (s_query s))
  | _, _ => False
  end.

Record Good (name : bytes) (tmpl : option bytes) (ms : list bytes) (fwd : list dconf) (s : pstate) : Prop := {
  g_name : p_name s = name;
  g_ms : p_ms s = ms;
  g_fm : p_fm_ms s = ms;
  g_conf : map fh_conf (p_hs s) = fwd;
  g_val : Forall (fresh_value name ms) (p_hs s);
  g_src : src_good tmpl ms (p_src s);
}.

Lemma init_good name ms fwd tmpl : Good name tmpl ms fwd (init name ms fwd tmpl).
Proof.
  destruct (f_create_spec name ms fwd 0) as [E F].
  constructor; cbn; auto.
  destruct tmpl; cbn; auto. repeat split; auto. cbn. discriminate.
Qed.

Lemma src_step_good t ms s o s' evs :
  src_good (Some t) ms (Some s) -> src_step s o = (s', evs) ->
  src_good (Some t) (cur_ms ms [o]) (Some s') /\
  Forall (fun v => v = resolve_source t (cur_ms ms [o]) (s_query s')) evs.
Proof.
  intros [Ht [Hm Hc]] H. destruct o as [oms fwd| | |q| | |]; cbn in H.
  - destruct oms as [m|]; cbn [cur_ms].
    + unfold src_reload_matches, src_resolve in H. rewrite Ht in H.
      destruct (s_running s && s_alive s && negb (bytes_eqb (resolve_source t m (s_query s)) (s_cur s))) eqn:C;
        injection H as <- <-; cbn.
      * split; [repeat split; auto | constructor; auto].
      * split; [|constructor]. repeat split; auto. intro R. rewrite R in C. cbn in C.
        apply negb_false_iff in C. apply beqb_eq in C. auto.
    + injection H as <- <-. split; [repeat split; auto | constructor].
  - injection H as <- <-. split; [repeat split; auto | constructor].
  - injection H as <- <-. split; [repeat split; auto | constructor].
  - cbn [cur_ms]. destruct (s_running s) eqn:R.
    + injection H as <- <-. split; [repeat split; auto | constructor]. rewrite R. exact Hc.
    + injection H as <- <-. cbn. unfold src_resolve. rewrite Ht, Hm.
      split; [repeat split; auto | constructor; auto].
  - injection H as <- <-. cbn. split; [repeat split; auto | constructor]. cbn. discriminate.
  - injection H as <- <-. cbn. split; [repeat split; auto | constructor]. cbn. rewrite andb_false_r. discriminate.
  - cbn [cur_ms]. destruct (s_running s && negb (s_alive s)) eqn:R.
    + injection H as <- <-. cbn. unfold src_resolve. rewrite Ht, Hm.
      split; [repeat split; auto | constructor; auto].
    + injection H as <- <-. split; [repeat split; auto | constructor].
Qed.

Definition ev_query (s : pstate) : bytes := match p_src s with Some x => s_query x | None => [] end.

Lemma step_good name tmpl keep : keep_sound name keep -> forall ms fwd s o s' evs,
  Good name tmpl ms fwd s -> step_with keep s o = (s', evs) ->
  Good name tmpl (cur_ms ms [o]) (cur_fwd fwd [o]) s' /\
  (forall t, tmpl = Some t -> Forall (fun v => v = resolve_source t (cur_ms ms [o]) (ev_query s')) evs) /\
  (tmpl = None -> evs = []).
Proof.
  intros KS ms fwd s o s' evs G H. destruct G as [Gn Gm Gf Gc Gv Gs]. unfold step_with in H.
  (* the source part *)
  assert (SRC : exists x' e, match p_src s with
                              | Some x => let '(x', e) := src_step x o in (Some x', e)
                              | None => (None, [])
                              end = (x', e) /\ src_good tmpl (cur_ms ms [o]) x' /\
                             (forall t, tmpl = Some t ->
                                Forall (fun v => v = resolve_source t (cur_ms ms [o])
                                                       (match x' with Some y => s_query y | None => [] end)) e) /\
                             (tmpl = None -> e = [])).
  { destruct tmpl as [t|]; destruct (p_src s) as [x|]; cbn in Gs; try contradiction.
    - destruct (src_step x o) as [x' e] eqn:E. exists (Some x'), e.
      destruct (src_step_good t ms x o x' e Gs E) as [A B].
      split; [reflexivity|]. split; [exact A|]. split; [|discriminate]. intros t0 Ht0. inversion Ht0. subst. exact B.
    - exists None, []. split; [reflexivity|]. split; [exact I|]. split; [discriminate | reflexivity]. }
  destruct SRC as [x' [e [E [SG [SE SN]]]]]. rewrite E in H.
  destruct o as [oms fwd1| | |q| | |].
  - destruct (f_reload_with keep (match oms with Some m => m | None => p_fm_ms s end) fwd1 (p_hs s) (p_next s))
      as [nh nx] eqn:R.
    inversion H. subst s' evs. clear H.
    destruct (f_reload_spec name keep KS _ _ _ _ _ _ R) as [E1 F1].
    assert (M : match oms with Some m => m | None => p_fm_ms s end = cur_ms ms [OReload oms fwd1]).
    { destruct oms; cbn; auto. }
    assert (M2 : match oms with Some m => m | None => p_ms s end = cur_ms ms [OReload oms fwd1]).
    { destruct oms; cbn; auto. }
    split; [|split; [exact SE | exact SN]].
    constructor; cbn [p_name p_ms p_fm_ms p_hs p_src]; auto.
    rewrite <- M. exact F1.
  - inversion H. subst s' evs. split; [|split; [exact SE | exact SN]]. constructor; cbn; auto.
  - inversion H. subst s' evs. split; [|split; [exact SE | exact SN]]. constructor; cbn; auto.
  - inversion H. subst s' evs. split; [|split; [exact SE | exact SN]]. constructor; cbn; auto.
  - inversion H. subst s' evs. split; [|split; [exact SE | exact SN]]. constructor; cbn; auto.
  - inversion H. subst s' evs. split; [|split; [exact SE | exact SN]]. constructor; cbn; auto.
  - inversion H. subst s' evs. split; [|split; [exact SE | exact SN]]. constructor; cbn; auto.
Qed.

Lemma cur_ms_cons ms o r : cur_ms ms (o :: r) = cur_ms (cur_ms ms [o]) r.
Proof. destruct o as [[m|] f| | | | | |]; reflexivity. Qed.

Lemma cur_fwd_cons fwd o r : cur_fwd fwd (o :: r) = cur_fwd (cur_fwd fwd [o]) r.
Proof. destruct o; reflexivity. Qed.

Lemma run_good name tmpl keep : keep_sound name keep -> forall ops ms fwd s,
  Good name tmpl ms fwd s -> Good name tmpl (cur_ms ms ops) (cur_fwd fwd ops) (run_with keep s ops).
Proof.
  intros KS. induction ops as [|o r IH]; intros ms fwd s G; cbn [run_with].
  - exact G.
  - rewrite cur_ms_cons, cur_fwd_cons. apply IH.
    destruct (step_with keep s o) as [s1 e] eqn:E. cbn [fst].
    exact (proj1 (step_good name tmpl keep KS _ _ _ _ _ _ G E)).
Qed.

(* ---- the statements ------------------------------------------------------------------------------ *)

Lemma Forall_map_eq {A B} (f g : A -> B) l : Forall (fun x => f x = g x) l -> map f l = map g l.
Proof. induction 1; cbn; congruence. Qed.

Lemma good_forward name tmpl ms fwd s : Good name tmpl ms fwd s ->
  map (fun h => (fh_conf h, held name h)) (p_hs s) = map (fun d => (d, resolve_dest (d_dest d) name ms)) fwd.
Proof.
  intros [_ _ _ Gc Gv _]. rewrite <- Gc, map_map. apply Forall_map_eq.
  eapply Forall_impl; [|exact Gv]. intros h V. cbn. rewrite V. reflexivity.
Qed.

(* forward destinations, for every test that is sound *)
Theorem life_forward_any_keep : forall name keep, keep_sound name keep ->
  forall ms0 fwd0 tmpl ops,
  let s := run_with keep (init name ms0 fwd0 tmpl) ops in
  map (fun h => (fh_conf h, held name h)) (p_hs s) =
  map (fun d => (d, resolve_dest (d_dest d) name (cur_ms ms0 ops))) (cur_fwd fwd0 ops).
Proof.
  intros name keep KS ms0 fwd0 tmpl ops s. eapply good_forward.
  apply run_good; [exact KS | apply init_good].
Qed.

Theorem life_forward : forall name ms0 fwd0 tmpl ops,
  let s := run (init name ms0 fwd0 tmpl) ops in
  map (fun h => (fh_conf h, held name h)) (p_hs s) =
  map (fun d => (d, resolve_dest (d_dest d) name (cur_ms ms0 ops))) (cur_fwd fwd0 ops).
Proof. intros. apply life_forward_any_keep. apply keep_code_sound. Qed.

(* ... and inside the guard of the template theorems that value is the single left-to-right pass *)
Theorem life_forward_single_pass : forall name ms0 fwd0 tmpl ops i h,
  let s := run (init name ms0 fwd0 tmpl) ops in
  let ms := cur_ms ms0 ops in
  nth_error (p_hs s) i = Some h ->
  template_ok (dst_cfg ms) (d_dest (fh_conf h)) = true -> dollar_free name -> Forall dollar_free ms ->
  nth_error (cur_fwd fwd0 ops) i = Some (fh_conf h) /\
  held name h = single_pass_dest (d_dest (fh_conf h)) name ms.
Proof.
  intros name ms0 fwd0 tmpl ops i h s ms Hn Hok Hname Hms.
  pose proof (life_forward name ms0 fwd0 tmpl ops) as L. cbv zeta in L. fold s ms in L.
  assert (E : nth_error (map (fun h => (fh_conf h, held name h)) (p_hs s)) i = Some (fh_conf h, held name h)).
  { rewrite nth_error_map, Hn. reflexivity. }
  rewrite L, nth_error_map in E. destruct (nth_error (cur_fwd fwd0 ops) i) as [d|] eqn:D; [|discriminate].
  cbn [option_map] in E. injection E as E1 E2. subst d. split; [reflexivity|].
  rewrite <- E2. apply dest_equals_single_pass; assumption.
Qed.

(* the static source *)
Theorem life_source : forall name ms0 fwd0 t ops x,
  p_src (run (init name ms0 fwd0 (Some t)) ops) = Some x ->
  s_tmpl x = t /\ s_ms x = cur_ms ms0 ops /\
  (s_running x && s_alive x = true -> s_cur x = resolve_source t (cur_ms ms0 ops) (s_query x)).
Proof.
  intros name ms0 fwd0 t ops x H.
  pose proof (run_good name (Some t) keep_code (keep_code_sound name) ops ms0 fwd0 _ (init_good name ms0 fwd0 (Some t))) as G.
  destruct G as [_ _ _ _ _ Gs]. unfold run in H. rewrite H in Gs. exact Gs.
Qed.

(* every instance that a step creates is given the substitution with the groups current after that step *)
Theorem life_source_events : forall name ms0 fwd0 t ops o s' evs,
  step (run (init name ms0 fwd0 (Some t)) ops) o = (s', evs) ->
  Forall (fun v => v = resolve_source t (cur_ms ms0 (ops ++ [o])) (ev_query s')) evs.
Proof.
  intros name ms0 fwd0 t ops o s' evs H.
  pose proof (run_good name (Some t) keep_code (keep_code_sound name) ops ms0 fwd0 _ (init_good name ms0 fwd0 (Some t))) as G.
  destruct (step_good name (Some t) keep_code (keep_code_sound name) _ _ _ _ _ _ G H) as [_ [B _]].
  assert (E : cur_ms ms0 (ops ++ [o]) = cur_ms (cur_ms ms0 ops) [o]).
  { clear. revert ms0. induction ops as [|a r IH]; intro ms0; [reflexivity|].
    rewrite <- app_comm_cons, cur_ms_cons, (cur_ms_cons ms0 a r). apply IH. }
  rewrite E. apply B. reflexivity.
Qed.

Theorem life_source_single_pass : forall name ms0 fwd0 t ops x,
  p_src (run (init name ms0 fwd0 (Some t)) ops) = Some x ->
  s_running x && s_alive x = true ->
  template_ok (src_cfg (cur_ms ms0 ops)) t = true -> Forall dollar_free (cur_ms ms0 ops) ->
  s_cur x = single_pass_source t (cur_ms ms0 ops) (s_query x).
Proof.
  intros name ms0 fwd0 t ops x H R Hok Hms.
  destruct (life_source _ _ _ _ _ _ H) as [_ [_ C]]. rewrite (C R).
  apply source_equals_single_pass; assumption.
Qed.

(* the hook environment *)
Lemma env_from_spec : forall l i k, (k < length l)%nat ->
  nth_error (env_from i l) k = Some (i + Z.of_nat k, nth k l []).
Proof.
  induction l as [|v r IH]; intros i k Hk; cbn in Hk; [lia|].
  destruct k as [|k]; cbn [env_from nth_error nth].
  - f_equal. f_equal. lia.
  - rewrite IH by lia. f_equal. f_equal. lia.
Qed.

Lemma env_from_length : forall l i, length (env_from i l) = length l.
Proof. induction l as [|v r IH]; intro i; cbn; auto. Qed.

Theorem life_env : forall name ms0 fwd0 tmpl ops,
  let ms := cur_ms ms0 ops in
  let env := hook_env (p_ms (run (init name ms0 fwd0 tmpl) ops)) in
  length env = (length ms - 1)%nat /\
  forall k, (1 <= k <= length ms - 1)%nat -> nth_error env (k - 1) = Some (Z.of_nat k, nth k ms []).
Proof.
  intros name ms0 fwd0 tmpl ops ms env.
  pose proof (run_good name tmpl keep_code (keep_code_sound name) ops ms0 fwd0 _ (init_good name ms0 fwd0 tmpl)) as G.
  destruct G as [_ Gm _ _ _ _]. unfold env, run. rewrite Gm. fold ms. unfold hook_env.
  destruct ms as [|w gs]; cbn [tl length].
  - split; [reflexivity|]. intros k Hk. cbn in Hk. lia.
  - rewrite env_from_length. split; [lia|]. intros k Hk.
    rewrite env_from_spec by lia. destruct k as [|k]; [lia|]. cbn [nth].
    replace (S k - 1)%nat with k by lia. f_equal. f_equal. lia.
Qed.

(* an unchanged destination under unchanged groups keeps its handler (no gratuitous restart) *)
Theorem life_forward_keeps : forall name ms0 fwd0 tmpl ops oms fwd i h,
  let s := run (init name ms0 fwd0 tmpl) ops in
  nth_error (p_hs s) i = Some h -> nth_error fwd i = Some (fh_conf h) ->
  (oms = None \/ oms = Some (cur_ms ms0 ops)) ->
  (forall h', In h' (p_hs s) -> fh_ms h' = p_fm_ms s) ->
  nth_error (p_hs (fst (step s (OReload oms fwd)))) i = Some h.
Proof.
  intros name ms0 fwd0 tmpl ops oms fwd i h s Hn Hf Ho Hall.
  pose proof (run_good name tmpl keep_code (keep_code_sound name) ops ms0 fwd0 _ (init_good name ms0 fwd0 tmpl)) as G.
  fold (run (init name ms0 fwd0 tmpl) ops) in G. fold s in G. destruct G as [_ _ Gf _ _ _].
  unfold step, step_with.
  destruct (match p_src s with Some x => let '(x', e) := src_step x (OReload oms fwd) in (Some x', e) | None => (None, []) end)
    as [src' evs].
  destruct (f_reload_with keep_code (match oms with Some m => m | None => p_fm_ms s end) fwd (p_hs s) (p_next s))
    as [nh nx] eqn:R.
  cbn [fst p_hs]. eapply f_reload_keeps; eauto.
  rewrite (Hall h (nth_error_In _ _ Hn)). destruct Ho as [Ho|Ho]; subst oms; auto.
Qed.

(* every handler of a reachable state carries the manager's groups (the hypothesis of life_forward_keeps) *)
Lemma f_create_ms ms : forall fwd next h, In h (f_create ms fwd next) -> fh_ms h = ms.
Proof.
  induction fwd as [|d r IH]; intros next h H; cbn in H; [contradiction|].
  destruct H as [H|H]; [subst; reflexivity | eauto].
Qed.

Lemma f_reload_ms ms : forall fwd old next nh nx,
  f_reload_with keep_code ms fwd old next = (nh, nx) -> forall h, In h nh -> fh_ms h = ms.
Proof.
  induction fwd as [|d fr IH]; intros old next nh nx H h Hin; cbn in H.
  - inversion H. subst. contradiction.
  - destruct old as [|h0 orest].
    + destruct (f_reload_with keep_code ms fr [] (next + 1)) as [nh1 nx1] eqn:E. inversion H. subst.
      destruct Hin as [Hin|Hin]; [subst; reflexivity | eauto].
    + destruct (keep_code h0 d ms) eqn:K.
      * destruct (f_reload_with keep_code ms fr orest next) as [nh1 nx1] eqn:E. inversion H. subst.
        destruct Hin as [Hin|Hin]; [|eauto]. subst h0. unfold keep_code in K.
        apply andb_true_iff in K. destruct K as [_ K]. apply ms_eqb_eq in K. exact K.
      * destruct (f_reload_with keep_code ms fr orest (next + 1)) as [nh1 nx1] eqn:E. inversion H. subst.
        destruct Hin as [Hin|Hin]; [subst; reflexivity | eauto].
Qed.

Theorem life_handlers_carry_groups : forall name ms0 fwd0 tmpl ops h,
  let s := run (init name ms0 fwd0 tmpl) ops in
  In h (p_hs s) -> fh_ms h = p_fm_ms s /\ p_fm_ms s = cur_ms ms0 ops.
Proof.
  intros name ms0 fwd0 tmpl ops. unfold run.
  assert (P : forall ops s, (forall h, In h (p_hs s) -> fh_ms h = p_fm_ms s) ->
              forall h, In h (p_hs (run_with keep_code s ops)) -> fh_ms h = p_fm_ms (run_with keep_code s ops)).
  { induction ops0 as [|o r IH]; intros s A h Hin; cbn [run_with] in *; [auto|].
    eapply IH; [|exact Hin]. clear h Hin IH. intros h Hin. unfold step_with in *.
    destruct (match p_src s with Some x => let '(x', e) := src_step x o in (Some x', e) | None => (None, []) end)
      as [src' evs].
    destruct o as [oms fwd1| | |q| | |]; cbn [fst p_hs p_fm_ms] in *; auto.
    destruct (f_reload_with keep_code (match oms with Some m => m | None => p_fm_ms s end) fwd1 (p_hs s) (p_next s))
      as [nh nx] eqn:R. cbn [fst p_hs p_fm_ms] in *. eapply f_reload_ms; eauto. }
  intros h Hin. split.
  - apply (P ops (init name ms0 fwd0 tmpl)); [|exact Hin]. intros h0 H0. cbn in *. eapply f_create_ms; eauto.
  - pose proof (run_good name tmpl keep_code (keep_code_sound name) ops ms0 fwd0 _ (init_good name ms0 fwd0 tmpl)) as G.
    destruct G as [_ _ Gf _ _ _]. exact Gf.
Qed.

(* ---- a test that looks at the indices of the old groups only is not sound ----------------------- *)

Definition w_name : bytes := [99;97;109;95;102;114;111;110;116].                 (* cam_front *)
Definition w_ms1 : list bytes := [w_name; [99;97;109]].                            (* ~^(cam)_front$ *)
Definition w_ms2 : list bytes := [w_name; [99;97;109]; [102;114;111;110;116]].     (* ~^(cam)_(front)$ *)
Definition w_dest : dconf := {| d_dest := [47; 36;71;49; 47; 36;71;50]; d_fp := []; d_tok := [] |}.   (* /$G1/$G2 *)

Lemma old_index_keep_refuted :
  let s := run_with keep_old_index (init w_name w_ms1 [w_dest] None) [OReload (Some w_ms2) [w_dest]] in
  map (held w_name) (p_hs s) = [[47; 99;97;109; 47; 36;71;50]] /\                (* /cam/$G2 *)
  resolve_dest (d_dest w_dest) w_name w_ms2 = [47; 99;97;109; 47; 102;114;111;110;116] /\   (* /cam/front *)
  template_ok (dst_cfg w_ms2) (d_dest w_dest) = true /\ ~ keep_sound w_name keep_old_index.
Proof.
  cbv zeta. split; [vm_compute; reflexivity|]. split; [vm_compute; reflexivity|]. split; [vm_compute; reflexivity|].
  intro KS.
  destruct (KS {| fh_id := 0; fh_conf := w_dest; fh_ms := w_ms1 |} w_dest w_ms2) as [_ V].
  - vm_compute. reflexivity.
  - vm_compute in V. discriminate.
Qed.

(* ---- the query of the request that triggered the start ------------------------------------------ *)

Lemma trig_cons run q o r : trig run q (o :: r) = trig (fst (trig run q [o])) (snd (trig run q [o])) r.
Proof. destruct o; reflexivity. Qed.

Lemma trig_app : forall a run q b, trig run q (a ++ b) = trig (fst (trig run q a)) (snd (trig run q a)) b.
Proof.
  induction a as [|o r IH]; intros run q b; [reflexivity|].
  rewrite <- app_comm_cons, trig_cons, IH, (trig_cons run q o r). reflexivity.
Qed.

Lemma cur_ms_app : forall ops ms0 o, cur_ms ms0 (ops ++ [o]) = cur_ms (cur_ms ms0 ops) [o].
Proof.
  induction ops as [|a r IH]; intros ms0 o; [reflexivity|].
  rewrite <- app_comm_cons, cur_ms_cons, (cur_ms_cons ms0 a r). apply IH.
Qed.

Lemma src_step_trig x o x' e : src_step x o = (x', e) ->
  (s_running x', s_query x') = trig (s_running x) (s_query x) [o].
Proof.
  intro H. destruct o as [oms fwd| | |q| | |]; cbn in H.
  - destruct oms as [m|].
    + unfold src_reload_matches in H.
      destruct (s_running x && s_alive x && negb (bytes_eqb (src_resolve x m (s_query x)) (s_cur x))) eqn:C;
        injection H as <- <-; cbn; [|reflexivity].
      apply andb_true_iff in C. destruct C as [C _]. apply andb_true_iff in C. destruct C as [C _].
      rewrite C. reflexivity.
    + injection H as <- <-. reflexivity.
  - injection H as <- <-. reflexivity.
  - injection H as <- <-. reflexivity.
  - destruct (s_running x) eqn:R; injection H as <- <-; cbn; rewrite ?R; reflexivity.
  - injection H as <- <-. reflexivity.
  - injection H as <- <-. reflexivity.
  - destruct (s_running x && negb (s_alive x)) eqn:R; injection H as <- <-; cbn; [|reflexivity].
    apply andb_true_iff in R. destruct R as [R _]. rewrite R. reflexivity.
Qed.

Lemma step_src keep s o x : p_src s = Some x ->
  p_src (fst (step_with keep s o)) = Some (fst (src_step x o)) /\
  snd (step_with keep s o) = snd (src_step x o).
Proof.
  intro H. unfold step_with. rewrite H. destruct (src_step x o) as [x' e].
  destruct o as [oms fwd| | | | | |]; cbn [fst snd]; try (split; reflexivity).
  destruct (f_reload_with keep (match oms with Some m => m | None => p_fm_ms s end) fwd (p_hs s) (p_next s)) as [nh nx].
  split; reflexivity.
Qed.

Lemma run_src_trig keep : forall ops s x, p_src s = Some x ->
  exists x', p_src (run_with keep s ops) = Some x' /\
             (s_running x', s_query x') = trig (s_running x) (s_query x) ops.
Proof.
  induction ops as [|o r IH]; intros s x H; cbn [run_with].
  - exists x. split; [exact H | reflexivity].
  - destruct (step_src keep s o x H) as [A _].
    destruct (IH _ _ A) as [x' [B C]]. exists x'. split; [exact B|].
    rewrite C, (trig_cons (s_running x) (s_query x) o r).
    destruct (src_step x o) as [y e] eqn:E. cbn [fst].
    rewrite <- (src_step_trig x o y e E). reflexivity.
Qed.

(* the handler's query is, after every history, the query of the request that opened the current period *)
Theorem life_source_query : forall name ms0 fwd0 t ops x,
  p_src (run (init name ms0 fwd0 (Some t)) ops) = Some x ->
  s_running x = trig_running ops /\ s_query x = trig_query ops /\
  (s_running x && s_alive x = true -> s_cur x = resolve_source t (cur_ms ms0 ops) (trig_query ops)).
Proof.
  intros name ms0 fwd0 t ops x H.
  destruct (run_src_trig keep_code ops (init name ms0 fwd0 (Some t)) _ eq_refl) as [x' [A B]].
  unfold run in H. rewrite H in A. injection A as <-. cbn in B.
  assert (R : s_running x = trig_running ops) by (unfold trig_running; rewrite <- B; reflexivity).
  assert (Q : s_query x = trig_query ops) by (unfold trig_query; rewrite <- B; reflexivity).
  split; [exact R|]. split; [exact Q|]. rewrite <- Q.
  exact (proj2 (proj2 (life_source name ms0 fwd0 t ops x H))).
Qed.

(* every instance created by a step is given the current groups and the query of the triggering request *)
Theorem life_source_events_query : forall name ms0 fwd0 t ops o s' evs,
  step (run (init name ms0 fwd0 (Some t)) ops) o = (s', evs) ->
  Forall (fun v => v = resolve_source t (cur_ms ms0 (ops ++ [o])) (trig_query (ops ++ [o]))) evs.
Proof.
  intros name ms0 fwd0 t ops o s' evs H.
  pose proof (life_source_events name ms0 fwd0 t ops o s' evs H) as E.
  assert (R : s' = run (init name ms0 fwd0 (Some t)) (ops ++ [o])).
  { unfold run. clear E. unfold step, run in H. revert H. generalize (init name ms0 fwd0 (Some t)).
    induction ops as [|a r IH]; intros s0 H; cbn [run_with app]; cbn [run_with] in H.
    - rewrite H. reflexivity.
    - apply IH. exact H. }
  destruct (run_src_trig keep_code (ops ++ [o]) (init name ms0 fwd0 (Some t)) _ eq_refl) as [x' [A B]].
  fold run in A. rewrite <- R in A. cbn in B.
  assert (Q : ev_query s' = trig_query (ops ++ [o])).
  { unfold ev_query, trig_query. rewrite A, <- B. reflexivity. }
  rewrite <- Q. exact E.
Qed.

(* a start: exactly one instance, given the current groups and the query of this request *)
Theorem life_source_start : forall name ms0 fwd0 t ops q,
  trig_running ops = false ->
  snd (step (run (init name ms0 fwd0 (Some t)) ops) (OSrcStart q)) = [resolve_source t (cur_ms ms0 ops) q].
Proof.
  intros name ms0 fwd0 t ops q NR.
  destruct (run_src_trig keep_code ops (init name ms0 fwd0 (Some t)) _ eq_refl) as [x [A B]].
  fold run in A. cbn in B.
  destruct (life_source name ms0 fwd0 t ops x A) as [Ht [Hm _]].
  destruct (step_src keep_code _ (OSrcStart q) x A) as [_ E]. unfold step. rewrite E.
  assert (R : s_running x = false) by (unfold trig_running in NR; rewrite <- B in NR; exact NR).
  cbn. rewrite R. cbn. unfold src_resolve. rewrite Ht, Hm. reflexivity.
Qed.

Theorem life_source_start_single_pass : forall name ms0 fwd0 t ops q,
  trig_running ops = false ->
  template_ok (src_cfg (cur_ms ms0 ops)) t = true -> Forall dollar_free (cur_ms ms0 ops) ->
  snd (step (run (init name ms0 fwd0 (Some t)) ops) (OSrcStart q)) = [single_pass_source t (cur_ms ms0 ops) q].
Proof.
  intros name ms0 fwd0 t ops q NR Hok Hms. rewrite life_source_start by exact NR.
  f_equal. apply source_equals_single_pass; assumption.
Qed.

(* the code's rule (store the query of the request) is the model's step *)
Lemma store_code_is_step s o : src_step_store store_code s o = src_step s o.
Proof. destruct o; reflexivity. Qed.

(* rtsp://$G1:8554/$G2?$MTX_QUERY, groups host / live; token=abc *)
Definition wq_t : bytes := [114;116;115;112;58;47;47; 36;71;49; 58;56;53;53;52;47; 36;71;50; 63; 36;77;84;88;95;81;85;69;82;89].
Definition wq_ms : list bytes := [[99;97;109;95;104;111;115;116;95;108;105;118;101]; [104;111;115;116]; [108;105;118;101]].
Definition wq_q1 : bytes := [116;111;107;101;110;61;97;98;99].
Definition wq_q2 : bytes := [117;115;101;114;61;120].
Definition wq_base : bytes := [114;116;115;112;58;47;47; 104;111;115;116; 58;56;53;53;52;47; 108;105;118;101; 63].

Lemma store_nonempty_refuted :
  let ops := [OSrcStart wq_q1; OSrcStop; OSrcStart []] in
  src_events_with (src_step_store store_nonempty) (src_init wq_t wq_ms) ops = [[wq_base ++ wq_q1]; []; [wq_base ++ wq_q1]] /\
  src_events_with src_step (src_init wq_t wq_ms) ops = [[wq_base ++ wq_q1]; []; [wq_base]] /\
  resolve_source wq_t wq_ms (trig_query ops) = wq_base /\ template_ok (src_cfg wq_ms) wq_t = true.
Proof. vm_compute. repeat split. Qed.

Lemma store_first_refuted :
  let ops := [OSrcStart wq_q1; OSrcStop; OSrcStart wq_q2] in
  src_events_with (src_step_store store_first) (src_init wq_t wq_ms) ops = [[wq_base ++ wq_q1]; []; [wq_base ++ wq_q1]] /\
  src_events_with src_step (src_init wq_t wq_ms) ops = [[wq_base ++ wq_q1]; []; [wq_base ++ wq_q2]] /\
  resolve_source wq_t wq_ms (trig_query ops) = wq_base ++ wq_q2.
Proof. vm_compute. repeat split. Qed.
